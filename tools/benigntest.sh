#!/bin/sh
# benigntest.sh <dir> : run every claimed quick check against each behaviour-preserving patch <dir>/*/patch.diff
# (false-alarm experiment, DESIGN 10.5). A line with any value 1 is a false alarm; 2 is "could not decide".
cd /verif
for p in "$1"/*/patch.diff; do
  echo "== $p: $(python3 tools/seedtest.py "$p" $(cat tools/green.txt) 2>&1 | grep -E 'SUMMARY')"
done
