#!/usr/bin/env python3
"""seedtest.py <patch.diff> <PROP> [<PROP>...] [--tier quick|thorough] [--inplace]
Applies a seeded change to a scratch worktree of /repo (or to /repo itself with --inplace), runs the given
property checks against it, prints exit codes and VIOLATION/INCONCLUSIVE lines, and removes the worktree."""
import subprocess, sys, os, tempfile, shutil
args = sys.argv[1:]
tier = 'quick'
inplace = False
if '--tier' in args:
    i = args.index('--tier'); tier = args[i+1]; del args[i:i+2]
if '--inplace' in args:
    args.remove('--inplace'); inplace = True
patch, props = os.path.abspath(args[0]), args[1:]
if inplace:
    tree = '/repo'
    subprocess.check_call(['git', '-C', '/repo', 'apply', patch])
else:
    tree = tempfile.mkdtemp(prefix='seedrun_', dir='/tmp')
    os.rmdir(tree)
    subprocess.check_call(['git', '-C', '/repo', 'worktree', 'add', '-q', '--detach', tree, 'HEAD'])
    subprocess.check_call(['git', '-C', tree, 'apply', patch])
res = {}
try:
    for p in props:
        cmd = ['/verif/bin/check', p, '--tier', tier] + ([] if inplace else ['--repo', tree])
        r = subprocess.run(cmd, cwd='/verif', capture_output=True, text=True)
        lines = [l for l in r.stdout.splitlines() if l.startswith(('VIOLATION', 'INCONCLUSIVE', '  harness=', 'KNOWN'))]
        res[p] = r.returncode
        print(f'== {p}: exit={r.returncode}')
        for l in lines[:12]:
            print('   ', l[:900])
finally:
    if inplace:
        subprocess.check_call(['git', '-C', '/repo', 'checkout', '--', '.'])
    else:
        subprocess.call(['git', '-C', '/repo', 'worktree', 'remove', '--force', tree])
        shutil.rmtree(tree, ignore_errors=True)
print('SUMMARY', res)
