#!/usr/bin/env python3
"""seedconfirm.py <seed_out_dir> <seed_id> [--caught-by "C12:label,..."]
Independently confirms a seeded change in a scratch worktree of /repo: it applies, the library builds, the existing
tests of the touched packages + root + e2e pass, the demonstration fails with the change and passes without it.
On success stores it under /verif/seeded/<seed_id>/ (patch.diff, demo files, meta.json)."""
import json, os, re, shutil, subprocess, sys, tempfile, time
src, sid = os.path.abspath(sys.argv[1]), sys.argv[2]
env = dict(os.environ, GOFLAGS='-mod=mod', GOPROXY='off')
meta = json.load(open(os.path.join(src, 'meta.json'))) if os.path.exists(os.path.join(src, 'meta.json')) else {}
patch = os.path.join(src, 'patch.diff')
demos = [f for f in os.listdir(src) if f.endswith('_test.go')]
pkgdir = str(meta.get('demo_pkg_dir', '.')).strip()
m = re.match(r'^([A-Za-z0-9_./-]+)', pkgdir)
pkgdir = m.group(1) if m else '.'
if pkgdir in ('repo', 'repository', 'root'): pkgdir = '.'
# per-demo package override: file named demo_e2e_test.go with "package dtls" goes to root
tree = tempfile.mkdtemp(prefix='seedconf_', dir='/tmp'); os.rmdir(tree)
subprocess.check_call(['git', '-C', '/repo', 'worktree', 'add', '-q', '--detach', tree, 'HEAD'])
log = {}
def run(cmd, timeout=1500):
    r = subprocess.run(cmd, cwd=tree, env=env, capture_output=True, text=True, timeout=timeout)
    return r.returncode, (r.stdout + r.stderr)[-3000:]
ok = False
try:
    rc, out = run(['git', 'apply', patch]); log['apply'] = rc
    assert rc == 0, 'patch does not apply: ' + out
    changed = subprocess.check_output(['git', '-C', tree, 'diff', '--name-only'], text=True).split()
    pkgs = sorted({'./' + os.path.dirname(f) if os.path.dirname(f) else '.' for f in changed})
    rc, out = run(['go', 'build', './...']); log['build'] = rc
    assert rc == 0, 'build fails: ' + out
    testpk = sorted(set(pkgs + ['.', './e2e/']))
    rc, out = run(['go', 'test', '-vet=off', '-count=1', '-timeout', '20m'] + testpk); log['existing_tests'] = rc
    log['existing_tests_pkgs'] = testpk
    if rc != 0:
        # one retry: the suite has timing-sensitive tests on a loaded machine
        rc, out = run(['go', 'test', '-vet=off', '-count=1', '-timeout', '20m'] + testpk); log['existing_tests_retry'] = rc
    assert rc == 0, 'existing tests fail with the change: ' + out
    # demo with the change
    names = []
    placed = []
    for d in demos:
        txt = open(os.path.join(src, d)).read()
        names += re.findall(r'^func (Test\w+)\(', txt, re.M)
        pk = re.search(r'^package (\w+)', txt, re.M).group(1)
        dst_dir = pkgdir
        if pk in ('dtls', 'dtls_test'): dst_dir = '.'
        dst = os.path.join(tree, dst_dir, 'zzseed_' + d)
        shutil.copy(os.path.join(src, d), dst); placed.append((dst, dst_dir))
    dirs = sorted({'./' + p if p != '.' else '.' for _, p in placed})
    pat = '^(' + '|'.join(names) + ')$'
    rc1, out1 = run(['go', 'test', '-vet=off', '-count=1', '-timeout', '20m', '-run', pat] + dirs); log['demo_with_change'] = rc1
    assert rc1 != 0, 'demo does not fail with the change'
    rc, out = run(['git', 'apply', '-R', patch]); assert rc == 0
    rc2, out2 = run(['go', 'test', '-vet=off', '-count=1', '-timeout', '20m', '-run', pat] + dirs); log['demo_without_change'] = rc2
    assert rc2 == 0, 'demo fails on the clean tree too: ' + out2
    ok = True
    dst = os.path.join('/verif/seeded', sid); os.makedirs(dst, exist_ok=True)
    shutil.copy(patch, os.path.join(dst, 'patch.diff'))
    for d in demos: shutil.copy(os.path.join(src, d), os.path.join(dst, d))
    meta['confirmed_by_me'] = {'base_commit': subprocess.check_output(['git', '-C', '/repo', 'rev-parse', '--short', 'HEAD'], text=True).strip(),
        'ran': ['git apply patch.diff', 'go build ./...', 'go test -vet=off -count=1 ' + ' '.join(testpk) + ' (pass)',
                'go test -run ' + pat + ' ' + ' '.join(dirs) + ' with change (fails) / after git apply -R (passes)'], 'log': log,
        'demo_failure_excerpt': out1[-600:]}
    json.dump(meta, open(os.path.join(dst, 'meta.json'), 'w'), indent=1)
    print('CONFIRMED', sid)
except AssertionError as e:
    print('REJECTED', sid, str(e)[:1500])
except Exception as e:
    print('ERROR', sid, repr(e)[:500])
finally:
    subprocess.call(['git', '-C', '/repo', 'worktree', 'remove', '--force', tree])
    shutil.rmtree(tree, ignore_errors=True)
