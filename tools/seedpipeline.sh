#!/bin/sh
# seedpipeline.sh <tag> <PROP> [extra props...]: confirm + record both seeds of a tag
tag=$1; shift
for n in 1 2; do
  d=/tmp/seed/${tag}_out/$n
  [ -f $d/patch.diff ] || continue
  python3 /verif/tools/seedconfirm.py $d ${tag}-$n | grep -E "CONFIRMED|REJECTED|ERROR" | cut -c1-300
  [ -d /verif/seeded/${tag}-$n ] && python3 /verif/tools/seedrecord.py ${tag}-$n "$@"
done
