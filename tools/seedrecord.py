#!/usr/bin/env python3
"""seedrecord.py <seed_id> <PROP> [<PROP>...]: runs the given checks against /verif/seeded/<id>/patch.diff (scratch worktree)
and records which check/labels caught it in /verif/seeded/<id>/meta.json."""
import json, subprocess, sys, re, os
sid, props = sys.argv[1], sys.argv[2:]
d = f'/verif/seeded/{sid}'
out = subprocess.run(['python3', '/verif/tools/seedtest.py', f'{d}/patch.diff'] + props, capture_output=True, text=True).stdout
res = {}
cur = None
for line in out.splitlines():
    m = re.match(r'== (C\d+): exit=(\d+)', line)
    if m:
        cur = m.group(1); res[cur] = {'exit': int(m.group(2)), 'labels': []}
    m = re.search(r'harness=(\S+) label=(.*?) kind=\S+ .*\((\S+)\)\s*$', line)
    if m and cur:
        res[cur]['labels'].append(f'{m.group(1)}:{m.group(2)} ({m.group(3)})')
meta = json.load(open(f'{d}/meta.json'))
meta.setdefault('property', sid[:3])
meta['breaks_property'] = sid[:3]
meta['checks_run_against_it'] = res
meta['detected_by'] = sorted(p for p, r in res.items() if r['exit'] == 1)
json.dump(meta, open(f'{d}/meta.json', 'w'), indent=1)
print(sid, {p: r['exit'] for p, r in res.items()})
