#!/usr/bin/env python3
import subprocess
p='/verif/DESIGN.md'
s=open(p).read()
t=subprocess.check_output(['python3','/verif/tools/mktables.py'],text=True)
a=s.index('<!-- TABLES:BEGIN -->')+len('<!-- TABLES:BEGIN -->'); b=s.index('<!-- TABLES:END -->')
open(p,'w').write(s[:a]+'\n'+t+'\n'+s[b:])
print('DESIGN.md tables regenerated')
