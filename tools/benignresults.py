#!/usr/bin/env python3
"""Collects the SUMMARY lines of the false-alarm experiment logs (.work/benign*.log) into benign/results.json."""
import re, json, glob, ast
res = {}
for f in sorted(glob.glob('/verif/.work/benign*.log')):
    for l in open(f):
        m = re.match(r'== (?:/tmp/benign/)?b(\d)_out/(\d)(?:/patch\.diff)?: SUMMARY (\{.*\})', l)
        if m:
            res['b%s-%s' % (m.group(1), m.group(2))] = ast.literal_eval(m.group(3))
json.dump(res, open('/verif/benign/results.json', 'w'), indent=1, sort_keys=True)
print(len(res), 'patches;', sum(1 for r in res.values() if any(v for v in r.values())), 'with a non-zero exit')
