#!/usr/bin/env python3
"""Regenerates /verif/MANIFEST.json from the table below (claimed checks) and properties.jsonl."""
import json, os
ROOT = os.path.dirname(os.path.dirname(os.path.abspath(__file__)))
props = [json.loads(l) for l in open(os.path.join(ROOT, 'properties.jsonl'))]

TECH = "bounded symbolic execution of go/ssa (built from /repo on every run) with z3 deciding every branch and obligation; cvc5 second opinion; counterexamples replayed natively"
NOTE = ("Trusted base: go/packages+go/ssa (x/tools v0.29.0), the symgo interpreter (validated per run by an interpreter-vs-native "
        "differential on witness inputs), z3 4.8.12 (sample of obligations re-decided by cvc5). Bounds, stubs and named assumptions are "
        "listed per harness in the evidence file; nothing is claimed outside them. Single-threaded: goroutine interleavings are outside every claim.")

CLAIMED = {
 # id: (text, design_ref)
 "C06": ("One-step inductive lemma of the real sliding-window detector from an arbitrary window state (all 2^64 bitmaps, all sequence numbers, "
         "window sizes per tier): an accepted number is never accepted again, a number fewer than W behind the newest and not yet seen passes, "
         "accept() records exactly the new number. Holds for histories of any length by induction; delivery schedules are not enumerated.", "§5 C06"),
 "C08": ("Panic-freedom of the wire decoders and receive-path units on every byte string up to the stated lengths (all contents symbolic); "
         "any escaping Go panic is a violation replayed against the native build.", "§5 C08"),
 "C09": ("Sequence-number allocation step from an arbitrary counter and the number written on the wire / given to the cipher by processPacket "
         "and processHandshakePacket (plain and CID layouts) for all counter values; overflow at 2^48 refused.", "§5 C09"),
 "C18": ("Round-trip / fixed-point / declared-length obligations of the real codecs for all field values and all byte strings within the "
         "stated length bounds.", "§5 C18"),
}
NA = {
 "C02": "liveness of two live endpoints with goroutines, timers and real cryptography under loss schedules: the composed system cannot be encoded for a solver within reach (DESIGN.md §6); the safety steps it relies on are checked under C17, C12, C06",
 "C16": "purely a property of goroutine schedules (Close/alerts/deadlines racing on any goroutine, data races, leaks); the symbolic executor is single-threaded by construction (DESIGN.md §6)",
}

checks = []
for p in props:
    pid = p['id']
    if pid in CLAIMED:
        text, ref = CLAIMED[pid]
        checks.append({
            "property_id": pid,
            "quick_cmd": f"./bin/check {pid} --tier quick",
            "thorough_cmd": f"./bin/check {pid} --tier thorough",
            "evidence_file": f"/verif/evidence/{pid}.json",
            "replay_cmd_template": f"./bin/check {pid} --replay {{path}}",
            "engine": "symgo",
            "level_claimed": {"category": "model_checking", "text": text, "design_ref": ref},
            "level_note": NOTE,
            "technique": TECH,
        })
na = []
for p in props:
    pid = p['id']
    if pid in CLAIMED:
        continue
    na.append({"property_id": pid, "reason": NA.get(pid, "check not built yet (harnesses for this property are still being written)")})

m = {
 "version": 1,
 "setup_cmd": "cd /verif/engine && GOFLAGS=-mod=mod GOPROXY=off go build -o /verif/bin/check ./cmd/check",
 "hooks": {"guard": "verif", "enable": "none needed: harnesses are injected as go/packages overlays (and go test -overlay for native replay); /repo carries no hook commits",
           "baseline_off_cmd": "cd /repo && go test -vet=off -count=1 -timeout 25m ./...", "source_commits": [], "add_only": True},
 "engines": [{"name": "symgo", "path": "/verif/engine", "serves_properties": sorted(CLAIMED), "kind_free_text": "SSA-level bounded symbolic executor for Go written for this task; SMT-LIB2 to z3 -in (one process per worker), cvc5 cross-check"}],
 "checks": checks,
 "not_applicable": na,
 "notes": "Exit codes: 0 held within bounds, 1 VIOLATION (replayed), 2 INCONCLUSIVE (never a success). Known/fixed findings: /verif/known_findings.json. See DESIGN.md.",
}
json.dump(m, open(os.path.join(ROOT, 'MANIFEST.json'), 'w'), indent=1)
print("claimed:", sorted(CLAIMED), "n/a:", [x['property_id'] for x in na])
