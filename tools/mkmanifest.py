#!/usr/bin/env python3
"""Regenerates /verif/MANIFEST.json from the table below (claimed checks) and properties.jsonl."""
import json, os
ROOT = os.path.dirname(os.path.dirname(os.path.abspath(__file__)))
props = [json.loads(l) for l in open(os.path.join(ROOT, 'properties.jsonl'))]

TECH = "bounded symbolic execution of go/ssa (built from /repo on every run) with z3 deciding every branch and obligation; cvc5 second opinion; counterexamples replayed natively"
NOTE = ("Trusted base: go/packages+go/ssa (x/tools v0.29.0), the symgo interpreter (validated per run by an interpreter-vs-native "
        "differential on witness inputs), z3 4.8.12 (sample of obligations re-decided by cvc5). Bounds, stubs and named assumptions are "
        "listed per harness in the evidence file; nothing is claimed outside them. Single-threaded: goroutine interleavings are outside every claim.")

CLAIMED = {
 # id: (text, design_ref)
 "C01": ("Agreement of the real select/validate/commit/derive functions of both roles on the same hello/key-exchange messages (key block mirror, master secret, exporter, connection IDs, SRTP, ALPN, suite, version) for all symbolic secrets, randoms and lists within the stated sizes; crypto primitives are uninterpreted. Delivery schedules are outside.", "§5 C01"),
 "C03": ("Accept/reject decision logic of the DTLS 1.2 server (flight4Parse), DTLS 1.2 client (flight3Parse/initializeCipherSuite/flight5Parse) and the DTLS 1.3 protected-flight verifier over every client-auth policy x message presence x verification outcome (signature/x509 routines are stubs with arbitrary verdicts whose arguments are checked).", "§5 C03"),
 "C04": ("Finished verification covers the whole transcript in RFC order on both sides for full, resumed and DTLS 1.3 handshakes; EMS session hash input; hash/PRF uninterpreted (named collision-freedom assumption).", "§5 C04"),
 "C05": ("Receive path of Conn on one arbitrary protected record (legacy and DTLS 1.3 layouts) with an arbitrary authentication verdict: delivery only if authentic/non-zero epoch/right CID/fresh sequence number, forgeries vanish without alert or state change and the genuine record is still accepted; injectivity of AAD/nonce/MAC inputs and clean failure of every decrypt function.", "§5 C05"),
 "C06": ("One-step inductive lemma of the real sliding-window detector from an arbitrary window state (all 2^64 bitmaps, all sequence numbers, "
         "window sizes per tier): an accepted number is never accepted again, a number fewer than W behind the newest and not yet seen passes, "
         "accept() records exactly the new number. Holds for histories of any length by induction; delivery schedules are not enumerated.", "§5 C06"),
 "C07": ("Send-path data flow on a constructed Conn: the datagram handed to the network is exactly the cipher's output (fresh symbolic bytes), application records never carry epoch 0, alerts are encrypted iff established, DTLS 1.3 records go through Seal; exporters are keyed with the master / exporter master secret, never public data.", "§5 C07"),
 "C08": ("Panic-freedom of the wire decoders and receive-path units on every byte string up to the stated lengths (all contents symbolic), "
         "fragment-buffer and decrypt paths with dishonest/authenticated-but-malformed input, buffering caps as one-step invariants; "
         "any escaping Go panic is a violation replayed against the native build.", "§5 C08"),
 "C09": ("Sequence-number allocation step from an arbitrary counter and the number written on the wire / given to the cipher by processPacket "
         "and processHandshakePacket (plain and CID layouts) for all counter values; overflow at 2^48 refused.", "§5 C09"),
 "C10": ("Structural equality of the real derivations and record layouts with references written from the RFC text, for all symbolic secrets, randoms, sequence numbers, epochs, CIDs and payloads within the stated sizes; hash/HMAC/AES/AEAD/ChaCha are uninterpreted functions.", "§5 C10"),
 "C11": ("Every selection function (version, suite, curve, SRTP, ALPN, signature scheme, EMS policy, response extensions) returns a value inside both symbolic option sets or fails with an alert; flight-level hello exchanges between two real endpoints.", "§5 C11"),
 "C12": ("fragmentHandshake/SplitBytes produce a contiguous partition within the MTU for every length/MTU in bounds; FragmentBuffer reassembles exactly, once, in order for every arrival order/duplication/interleaving of honest pieces within the stated message sizes and push counts; cache insertion once.", "§5 C12"),
 "C13": ("Cookie gate of both versions: Flight4 only after an exact echo of the issued cookie with unchanged hello fields (reference comparison written from the RFC layout), only a cookie request is generated before that, cookie flights are not retransmitted by the timer (real FSM loops with fake timer), cookie bytes are fresh randomness.", "§5 C13"),
 "C14": ("Resumption decision and Finished checks of both real endpoints on arbitrary stored secrets (mismatched secrets never complete), fresh CIDs/randoms, fatal alert drops the session before the alert is written, client certificate disables resumption.", "§5 C14"),
 "C15": ("CID on every protected record sent, datagram routing by CID for every source address, RRC amplification invariant (one inductive step, overflow-safe), path response accepted only when pending/equal/in time, peer address changes only in the validated branch.", "§5 C15"),
 "C17": ("Timer law (double, cap 60 s, constant without backoff, reset only on non-retransmitted data) for every interval value, real FSM loops (1.2 and 1.3) under every schedule of a few timer expiries and stale events against a trace model, cookie flights never timer-retransmitted, final flight re-sent only for a peer retransmission.", "§5 C17"),
 "C18": ("Round-trip / fixed-point / declared-length / truncation / datagram-partition obligations of the real codecs for all field values and all byte strings within the "
         "stated length bounds.", "§5 C18"),
 "C19": ("serialize/deserialize identity on every field, export->import preserves parameters, key ordering and the next sequence number (gob treated as identity: named assumption), DTLS 1.3 refused, any decoded serializedState never panics.", "§5 C19"),
 "C20": ("Step relations of DTLS 1.3 key updates: write/read generation steps, RFC 8446 traffic-update successor, epoch gate of ReadCandidates/openCiphertextRecord, sequence-number reconstruction for all 48-bit values, completion iff every KeyUpdate fragment acknowledged. Concurrency outside.", "§5 C20"),
}
import os as _os
# only claim what has harnesses on disk and is listed as green in tools/green.txt
_green = set(open(_os.path.join(ROOT, 'tools', 'green.txt')).read().split()) if _os.path.exists(_os.path.join(ROOT, 'tools', 'green.txt')) else set()
CLAIMED = {k: v for k, v in CLAIMED.items() if k in _green}
NA = {
 "C02": "liveness of two live endpoints with goroutines, timers and real cryptography under loss schedules: the composed system cannot be encoded for a solver within reach (DESIGN.md §6); the safety steps it relies on are checked under C17, C12, C06",
 "C16": "purely a property of goroutine schedules (Close/alerts/deadlines racing on any goroutine, data races, leaks); the symbolic executor is single-threaded by construction (DESIGN.md §6)",
}

checks = []
for p in props:
    pid = p['id']
    if pid in CLAIMED:
        text, ref = CLAIMED[pid]
        checks.append({
            "property_id": pid,
            "quick_cmd": f"./bin/check {pid} --tier quick",
            "thorough_cmd": f"./bin/check {pid} --tier thorough",
            "evidence_file": f"/verif/evidence/{pid}.json",
            "replay_cmd_template": f"./bin/check {pid} --replay {{path}}",
            "engine": "symgo",
            "level_claimed": {"category": "model_checking", "text": text, "design_ref": ref},
            "level_note": NOTE,
            "technique": TECH,
        })
na = []
for p in props:
    pid = p['id']
    if pid in CLAIMED:
        continue
    na.append({"property_id": pid, "reason": NA.get(pid, "check not built yet (harnesses for this property are still being written)")})

m = {
 "version": 1,
 "setup_cmd": "cd /verif/engine && GOFLAGS=-mod=mod GOPROXY=off go build -o /verif/bin/check ./cmd/check",
 "hooks": {"guard": "verif", "enable": "none needed: harnesses are injected as go/packages overlays (and go test -overlay for native replay); /repo carries no hook commits",
           "baseline_off_cmd": "cd /repo && go test -vet=off -count=1 -timeout 25m ./...", "source_commits": [], "add_only": True},
 "engines": [{"name": "symgo", "path": "/verif/engine", "serves_properties": sorted(CLAIMED), "kind_free_text": "SSA-level bounded symbolic executor for Go written for this task; SMT-LIB2 to z3 -in (one process per worker), cvc5 cross-check"}],
 "checks": checks,
 "not_applicable": na,
 "notes": "Exit codes: 0 held within bounds, 1 VIOLATION (replayed), 2 INCONCLUSIVE (never a success). Known/fixed findings: /verif/known_findings.json. See DESIGN.md.",
}
json.dump(m, open(os.path.join(ROOT, 'MANIFEST.json'), 'w'), indent=1)
print("claimed:", sorted(CLAIMED), "n/a:", [x['property_id'] for x in na])
