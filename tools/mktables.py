#!/usr/bin/env python3
"""Prints markdown tables for DESIGN.md section 10: harness inventory, findings, seeded changes."""
import json, glob, os, re
print("#### Harness inventory (entries per property; bounds are `//symgo:param` values quick/thorough)\n")
print("| property | files | entries | stubs (replace/UF) | params |")
print("|---|---|---|---|---|")
for d in sorted(glob.glob('/verif/harness/C*')):
    files = sorted(glob.glob(d + '/*.go'))
    ne = 0; params = []; stub = 0
    for f in files:
        s = open(f).read()
        ne += len(re.findall(r'^//symgo:entry', s, re.M))
        params += re.findall(r'^//symgo:param (\w+) quick=(\d+) thorough=(\d+)', s, re.M)
        if 'symgo:replace' in s or 'zzsymUF(' in s: stub += 1
    ps = ' '.join(f'{n}={q}/{t}' for n, q, t in params[:14]) + (' …' if len(params) > 14 else '')
    print(f"| {os.path.basename(d)} | {len(files)} | {ne} | {stub} of {len(files)} files | {ps} |")
print("\n#### Findings\n")
print("| property | status | label | commit | what |")
print("|---|---|---|---|---|")
for e in json.load(open('/verif/known_findings.json')):
    print(f"| {e['property']} | {e['status']} | `{e['label'][:70]}` | {e.get('commit','')} | {e['what'][:260]} |")
print("\n#### Seeded changes (independent agents; confirmed by me: applies, builds, suite passes, demo fails with / passes without)\n")
print("| id | breaks | change | needs | detected by (check: labels) |")
print("|---|---|---|---|---|")
for d in sorted(glob.glob('/verif/seeded/*')):
    m = json.load(open(d + '/meta.json'))
    det = []
    for p, r in (m.get('checks_run_against_it') or {}).items():
        if r['exit'] == 1:
            labs = sorted({l.split(':', 1)[1].split(' (')[0] for l in r['labels']})[:3]
            det.append(f"{p}: {', '.join(labs)}")
        else:
            det.append(f"{p}: not detected" if r['exit'] == 0 else f"{p}: inconclusive")
    print(f"| {os.path.basename(d)} | {m.get('breaks_property', os.path.basename(d)[:3])} | {str(m.get('summary',''))[:200]} | {str(m.get('needs_to_manifest',''))[:160]} | {'; '.join(det)} |")
print("\n#### Behaviour-preserving changes (false-alarm experiment; every claimed quick check run against each patch)\n")
print("| id | change | result |")
print("|---|---|---|")
try:
    bres = json.load(open('/verif/benign/results.json'))
except Exception:
    bres = {}
for d in sorted(glob.glob('/verif/benign/b*')):
    bid = os.path.basename(d)
    try:
        m = json.load(open(d + '/meta.json'))
    except Exception:
        m = {}
    r = bres.get(bid)
    if r is None:
        out = 'not run'
    else:
        bad = [f"{p}: exit {v}" for p, v in sorted(r.items()) if v]
        out = f"{len(r)} checks, all exit 0" if not bad else ', '.join(bad)
    print(f"| {bid} | {str(m.get('summary',''))[:220]} | {out} |")
