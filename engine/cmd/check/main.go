// Command check decides one property: it loads /repo's current working tree with the property's
// harnesses as overlays, explores every harness entry symbolically, replays counterexamples against
// the native build, writes /verif/evidence/<id>.json and exits 0 (held), 1 (violation) or 2
// (inconclusive / broken).
package main

import (
	"encoding/json"
	"flag"
	"fmt"
	"os"
	"os/exec"
	"path/filepath"
	"sort"
	"strconv"
	"strings"
	"sync"
	"time"

	"verif.local/symgo/sym"
)

type tierCfg struct {
	MaxPaths  int
	TimeoutMs int
	MaxSteps  int64
	MaxDec    int
	EnumCap   int
	CrossN    int
	NativeN   int
	Deadline  time.Duration
}

var tiers = map[string]tierCfg{
	"quick":    {MaxPaths: 30000, TimeoutMs: 30000, MaxSteps: 30_000_000, MaxDec: 4000, EnumCap: 80, CrossN: 12, NativeN: 4, Deadline: 9 * time.Minute},
	"thorough": {MaxPaths: 3000000, TimeoutMs: 120000, MaxSteps: 200_000_000, MaxDec: 20000, EnumCap: 300, CrossN: 400, NativeN: 12, Deadline: 170 * time.Minute},
}

type cond struct {
	Input string `json:"input"`
	Op    string `json:"op"`
	Value uint64 `json:"value"`
}

type knownFinding struct {
	Status   string `json:"status"` // "known" or "fixed"
	Property string `json:"property"`
	Label    string `json:"label"`
	Harness  string `json:"harness,omitempty"`
	Where    []cond `json:"where,omitempty"`
	What     string `json:"what"`
	Commit   string `json:"commit,omitempty"`
}

type replayCase struct {
	Property string            `json:"property"`
	File     string            `json:"harness_file"`
	Pkg      string            `json:"pkg"`
	Entry    string            `json:"entry"`
	Label    string            `json:"label"`
	Kind     string            `json:"kind"`
	Detail   string            `json:"detail"`
	Tier     string            `json:"tier"`
	Params   map[string]int64  `json:"params"`
	Inputs   []sym.InputVal    `json:"inputs"`
	Native   bool              `json:"native_replayable"`
	Result   string            `json:"replay_result,omitempty"`
	Output   string            `json:"replay_output,omitempty"`
	Fixed    map[string]uint64 `json:"-"`
}

type entryReport struct {
	Name        string         `json:"harness"`
	File        string         `json:"file"`
	Doc         string         `json:"what,omitempty"`
	Params      map[string]int64 `json:"bounds"`
	Paths       int            `json:"paths"`
	Completed   int            `json:"completed"`
	Aborted     map[string]int `json:"aborted,omitempty"`
	Decisions   int            `json:"decisions"`
	SymBranches int            `json:"symbolic_branches"`
	Obligations int            `json:"obligations"`
	Discharged  int            `json:"discharged"`
	Trivial     int            `json:"discharged_without_solver"`
	Queries     int            `json:"queries"`
	SolverS     float64        `json:"solver_s"`
	WallS       float64        `json:"wall_s"`
	Steps       int64          `json:"ssa_instructions"`
	Covers      map[string]int `json:"cover_labels"`
	Labels      map[string]int `json:"assert_labels"`
	Samples     []string       `json:"sample_paths"`
	Witness     []map[string]uint64 `json:"-"`
	Violations  int            `json:"violations"`
	Inconcl     []string       `json:"inconclusive,omitempty"`
}

// defaultRoot is the directory this binary was built into (<root>/bin/check), so that a copy of /verif elsewhere
// (a committed snapshot being run in the background) uses its own harnesses, evidence and work directories.
func defaultRoot() string {
	if exe, err := os.Executable(); err == nil {
		if r := filepath.Dir(filepath.Dir(exe)); r != "" {
			if st, err := os.Stat(filepath.Join(r, "harness")); err == nil && st.IsDir() {
				return r
			}
		}
	}
	return "/verif"
}

func main() {
	tier := flag.String("tier", os.Getenv("VERIF_TIER"), "quick|thorough")
	only := flag.String("only", "", "run only entries whose name contains this")
	repo := flag.String("repo", "/repo", "repository root")
	root := flag.String("root", defaultRoot(), "verif root")
	workers := flag.Int("workers", 16, "parallel workers")
	replay := flag.String("replay", "", "replay a recorded case file")
	noNative := flag.Bool("no-native", false, "skip native differential/replay")
	solverKind := flag.String("solver", "z3", "primary solver")
	verbose := flag.Bool("v", false, "verbose")
	// accept flags after the property id as well ("check C05 --tier thorough --only x")
	{
		var flags, pos []string
		args := os.Args[1:]
		for i := 0; i < len(args); i++ {
			a := args[i]
			if strings.HasPrefix(a, "-") {
				flags = append(flags, a)
				name := strings.TrimLeft(a, "-")
				if !strings.Contains(name, "=") {
					if f := flag.Lookup(name); f != nil {
						if bf, ok := f.Value.(interface{ IsBoolFlag() bool }); !(ok && bf.IsBoolFlag()) && i+1 < len(args) {
							i++
							flags = append(flags, args[i])
						}
					}
				}
			} else {
				pos = append(pos, a)
			}
		}
		flag.CommandLine.Parse(append(flags, pos...))
	}
	if *tier == "" {
		*tier = "quick"
	}
	tc, ok := tiers[*tier]
	if !ok {
		fmt.Println("unknown tier", *tier)
		os.Exit(2)
	}
	if flag.NArg() < 1 {
		fmt.Println("usage: check [flags] <PROPERTY>")
		os.Exit(2)
	}
	prop := flag.Arg(0)
	seed := int64(0)
	if s := os.Getenv("VERIF_SEED"); s != "" {
		seed, _ = strconv.ParseInt(s, 10, 64)
	}
	os.Setenv("GOFLAGS", "-mod=mod")
	os.Setenv("GOPROXY", "off")
	os.Unsetenv("GOSUMDB")
	os.Unsetenv("GOTOOLCHAIN")

	t0 := time.Now()
	work := filepath.Join(*root, ".work", fmt.Sprintf("%s-%s-%d", prop, *tier, os.Getpid()))
	os.RemoveAll(work)
	os.MkdirAll(filepath.Join(work, "smt"), 0o755)
	// evidence/ and replay/ describe complete runs against the real repository only; a run against another tree
	// (--repo, used for seeded changes) or over a subset of the entries (--only) writes under .work/ instead
	outRoot := *root
	if filepath.Clean(*repo) != "/repo" || *only != "" {
		outRoot = filepath.Join(*root, ".work", "scratch-out")
	}
	evPath := filepath.Join(outRoot, "evidence", prop+".json")
	os.MkdirAll(filepath.Dir(evPath), 0o755)

	inconclusive := func(msg string) {
		fmt.Printf("INCONCLUSIVE property=%s %s\n", prop, msg)
		os.Exit(2)
	}

	files, _ := filepath.Glob(filepath.Join(*root, "harness", prop, "*.go"))
	sort.Strings(files)
	if len(files) == 0 {
		inconclusive("no harness files")
	}
	var hfs []*sym.HarnessFile
	for _, f := range files {
		hf, err := sym.ParseHarnessFile(f)
		if err != nil {
			inconclusive(err.Error())
		}
		hfs = append(hfs, hf)
	}
	sym.DepWork = work
	allHarnessFiles = hfs
	l, err := sym.Load(*repo, hfs, nil)
	if err != nil {
		inconclusive("load: " + err.Error())
	}
	loadS := time.Since(t0).Seconds()
	fmt.Printf("[%s %s] loaded %d harness files in %.1fs\n", prop, *tier, len(hfs), loadS)

	known := loadKnown(filepath.Join(*root, "known_findings.json"), prop)

	if *replay != "" {
		os.Exit(doReplay(*replay, *repo, *root, work, hfs, l, tc))
	}

	deadline := time.Now().Add(tc.Deadline)
	var reports []*entryReport
	var allViol []*sym.Violation
	violEntry := map[*sym.Violation]*sym.EntrySpec{}
	violProg := map[*sym.Violation]*sym.Program{}
	funcs := map[string]int{}
	var inconcl []string
	var engineErrs []string
	totalPaths, totalDec, totalObl, totalDis, totalQ := 0, 0, 0, 0, 0
	var solverS float64
	var stubs, assumes, outside []string
	var sampleCases []replayCase
	missingCovers := []string{}

	for _, hf := range hfs {
		p, err := sym.NewProgram(l, hf, *tier)
		if err != nil {
			inconclusive(err.Error())
		}
		stubs = append(stubs, hf.Stubs...)
		for _, r := range hf.Replaces {
			stubs = append(stubs, fmt.Sprintf("%s replaced by harness function %s", r[0], r[1]))
		}
		assumes = append(assumes, hf.Assumes...)
		outside = append(outside, hf.Outside...)
		for _, e := range hf.Entries {
			if *only != "" && !strings.Contains(e.Func, *only) {
				continue
			}
			if t := e.Opts["tier"]; t != "" && t != *tier {
				continue
			}
			fn := l.Pkgs[hf.PkgPath].Func(e.Func)
			if fn == nil {
				inconclusive("entry " + e.Func + " not found")
			}
			cfg := sym.RunConfig{P: p, Entry: fn, Name: e.Func, Workers: *workers, MaxPaths: tc.MaxPaths,
				Lim:    sym.Limits{MaxDecisions: tc.MaxDec, MaxSteps: tc.MaxSteps, EnumCap: tc.EnumCap},
				Solver: *solverKind, TimeoutMs: tc.TimeoutMs, Verbose: *verbose,
				DumpDir: filepath.Join(work, "smt"), DumpMax: tc.CrossN, Deadline: deadline}
			if v := e.Opts["paths"]; v != "" {
				cfg.MaxPaths, _ = strconv.Atoi(v)
			}
			if v := e.Opts["enum"]; v != "" {
				cfg.Lim.EnumCap, _ = strconv.Atoi(v)
			}
			if v := e.Opts["steps"]; v != "" {
				n, _ := strconv.ParseInt(v, 10, 64)
				cfg.Lim.MaxSteps = n
			}
			if e.Opts["nonterm"] == "violation" {
				cfg.NontermIsViolation = true
			}
			if v := e.Opts["timeout_ms"]; v != "" {
				cfg.TimeoutMs, _ = strconv.Atoi(v)
			}
			r := sym.Explore(cfg)
			st := r.Stats
			rep := &entryReport{Name: e.Func, File: filepath.Base(hf.Path), Doc: e.Doc, Params: p.Params, Paths: st.Paths, Completed: st.Completed,
				Aborted: st.Aborted, Decisions: st.Decisions, SymBranches: st.SymBranches, Obligations: st.Obligations,
				Discharged: st.Discharged, Trivial: st.TrivialOblig, Queries: st.Queries, SolverS: r.SolverTime.Seconds(),
				WallS: r.Wall.Seconds(), Steps: st.Steps, Covers: st.Covers, Labels: st.AssertLabels, Samples: st.SamplePaths, Witness: st.SampleWitness,
				Violations: len(st.Violations), Inconcl: st.Inconclusive}
			reports = append(reports, rep)
			fmt.Printf("  %-40s paths=%d completed=%d aborted=%v oblig=%d/%d queries=%d wall=%.1fs solver=%.1fs viol=%d\n",
				e.Func, st.Paths, st.Completed, st.Aborted, st.Discharged, st.Obligations, st.Queries, r.Wall.Seconds(), r.SolverTime.Seconds(), len(st.Violations))
			for k, n := range st.Funcs {
				funcs[k] += n
			}
			for _, s := range st.Inconclusive {
				inconcl = append(inconcl, e.Func+": "+s)
			}
			for _, s := range st.EngineErrors {
				engineErrs = append(engineErrs, e.Func+": "+s)
			}
			for _, c := range e.Covers {
				if st.Covers[c] == 0 {
					missingCovers = append(missingCovers, e.Func+":"+c)
				}
			}
			if st.Completed == 0 && len(st.Violations) == 0 {
				inconcl = append(inconcl, e.Func+": no path completed (vacuous harness)")
			}
			if e.Opts["allow_blocked"] == "" && st.Aborted["blocked"] > 0 {
				inconcl = append(inconcl, fmt.Sprintf("%s: %d paths ended blocked (channel/mutex) — not allowed by harness", e.Func, st.Aborted["blocked"]))
			}
			totalPaths += st.Paths
			totalDec += st.Decisions
			totalObl += st.Obligations
			totalDis += st.Discharged
			totalQ += st.Queries
			solverS += r.SolverTime.Seconds()
			seen := map[string]int{}
			for _, v := range st.Violations {
				v.Harness = e.Func
				seen[v.Label]++
				if seen[v.Label] > 3 {
					continue
				}
				allViol = append(allViol, v)
				violEntry[v] = e
				violProg[v] = p
			}
		}
	}

	// classify violations
	exit := 0
	var newViol, knownViol []*sym.Violation
	knownHit := map[int]bool{}
	for _, v := range allViol {
		if i := matchKnown(known, v); i >= 0 {
			knownViol = append(knownViol, v)
			knownHit[i] = true
		} else {
			newViol = append(newViol, v)
		}
	}
	for i, k := range known {
		if k.Status == "known" && knownHit[i] {
			fmt.Printf("KNOWN-FINDING: property=%s %s [%s]\n", prop, k.What, k.Label)
		}
	}

	// replay new violations against the native build (or concretely in the interpreter)
	replayDir := filepath.Join(outRoot, "replay", prop)
	nativeOK := !*noNative
	var confirmed []string
	reportedLabels := map[string]bool{}
	for i, v := range newViol {
		e := violEntry[v]
		rc := mkCase(prop, *tier, e, violProg[v], v)
		os.MkdirAll(replayDir, 0o755)
		path := filepath.Join(replayDir, fmt.Sprintf("%s-%d.json", e.Func, i))
		res, out := "interp-confirmed", ""
		// 1. concrete re-execution in the interpreter
		ok := interpReplay(l, e, violProg[v], rc, *workers, tc)
		if !ok {
			res = "ENGINE-MISMATCH(interp)"
		}
		// 2. native
		if ok && rc.Native && nativeOK {
			nres, nout := nativeReplay(*repo, work, hfs, []replayCase{rc})
			out = nout
			if len(nres) == 1 && nres[0].matches(rc) {
				res = "native-confirmed"
			} else {
				res = "ENGINE-MISMATCH(native)"
				ok = false
			}
		}
		rc.Result = res
		rc.Output = clip(out, 4000)
		b, _ := json.MarshalIndent(rc, "", " ")
		os.WriteFile(path, b, 0o644)
		if ok {
			if !reportedLabels[v.Label+e.Func] {
				fmt.Printf("VIOLATION property=%s replay=%s\n", prop, path)
				fmt.Printf("  harness=%s label=%s kind=%s detail=%s (%s)\n", e.Func, v.Label, v.Kind, v.Detail, res)
				reportedLabels[v.Label+e.Func] = true
			}
			confirmed = append(confirmed, path)
			exit = 1
		} else {
			inconcl = append(inconcl, fmt.Sprintf("%s: counterexample for %s did not reproduce (%s) — engine or stub mismatch, see %s", e.Func, v.Label, res, path))
		}
	}

	// differential validation of the translator on witness inputs (native vs interpreter)
	validated, mismatches := 0, []string{}
	if nativeOK && exit == 0 {
		validated, mismatches, sampleCases = differential(*repo, work, hfs, l, *tier, reports, tc, *only)
		for _, m := range mismatches {
			inconcl = append(inconcl, "translator differential mismatch: "+m)
		}
	}
	_ = sampleCases

	// second opinion on dumped obligations
	crossN, crossBad := crossCheck(filepath.Join(work, "smt"), tc, *solverKind)
	for _, b := range crossBad {
		inconcl = append(inconcl, "solver disagreement: "+b)
	}

	for _, m := range missingCovers {
		inconcl = append(inconcl, "cover label never reached: "+m)
	}
	for _, e := range engineErrs {
		inconcl = append(inconcl, "engine: "+clip(e, 600))
	}

	// evidence
	var fnames []string
	for k := range funcs {
		if strings.Contains(k, "zzsym") || strings.Contains(k, ".zz") {
			continue
		}
		fnames = append(fnames, k)
	}
	sort.Strings(fnames)
	var repoFuncs, depFuncs []string
	for _, f := range fnames {
		if strings.Contains(f, "github.com/pion/dtls/v3") {
			repoFuncs = append(repoFuncs, strings.ReplaceAll(f, "github.com/pion/dtls/v3", "dtls"))
		} else {
			depFuncs = append(depFuncs, f)
		}
	}
	var samples []any
	for _, r := range reports {
		s := map[string]any{"harness": r.Name, "bounds": r.Params, "paths": r.Paths}
		if len(r.Samples) > 0 {
			s["explored_path"] = r.Samples[0]
		}
		samples = append(samples, s)
	}
	if len(samples) == 0 {
		samples = append(samples, "no harness ran")
	}
	var knownLines []string
	for i, k := range known {
		if k.Status == "known" && knownHit[i] {
			knownLines = append(knownLines, k.Label+": "+k.What)
		}
	}
	ev := map[string]any{
		"property_id": prop,
		"tier":        *tier,
		"seed":        seed,
		"level":       "model_checking",
		"wall_s":      time.Since(t0).Seconds(),
		"violations":  len(confirmed),
		"assumptions": append(append([]string{
			"bounded symbolic execution of go/ssa built from /repo's working tree on this run; verdicts hold only within the bounds listed per harness",
			"single-threaded execution: goroutine interleavings are outside the claim",
			"map iteration in insertion order",
		}, assumes...), prefixAll("stub: ", stubs)...),
		"coverage": map[string]any{
			"states":                        totalPaths,
			"transitions":                   totalDec,
			"traces_validated_against_impl": validated,
			"samples":                       samples,
			"obligations":                   totalObl,
			"discharged":                    totalDis,
			"queries":                       totalQ,
			"solver_s":                      solverS,
			"load_s":                        loadS,
			"harnesses":                     reports,
			"functions_encoded":             repoFuncs,
			"dependency_functions_encoded":  len(depFuncs),
			"cross_checked_obligations":     crossN,
			"cross_check_solver":            crossSolver(*solverKind),
			"outside_the_claim":             outside,
			"inconclusive":                  inconcl,
			"known_findings_observed":       knownLines,
			"solver":                        *solverKind,
			"exhaustive":                    false,
		},
	}
	b, _ := json.MarshalIndent(ev, "", " ")
	if err := os.WriteFile(evPath, b, 0o644); err != nil {
		fmt.Println("cannot write evidence:", err)
		os.Exit(2)
	}
	fmt.Printf("[%s %s] paths=%d decisions=%d obligations=%d/%d queries=%d solver=%.1fs validated=%d cross=%d wall=%.1fs\n",
		prop, *tier, totalPaths, totalDec, totalDis, totalObl, totalQ, solverS, validated, crossN, time.Since(t0).Seconds())
	os.RemoveAll(work)
	if exit == 1 {
		os.Exit(1)
	}
	if len(inconcl) > 0 {
		seen := map[string]int{}
		var order []string
		for _, s := range inconcl {
			k := clip(s, 400)
			if seen[k] == 0 {
				order = append(order, k)
			}
			seen[k]++
		}
		for i, k := range order {
			if i >= 40 {
				fmt.Printf("INCONCLUSIVE property=%s ... %d more distinct reasons\n", prop, len(order)-i)
				break
			}
			if seen[k] > 1 {
				fmt.Printf("INCONCLUSIVE property=%s %s (x%d)\n", prop, k, seen[k])
			} else {
				fmt.Printf("INCONCLUSIVE property=%s %s\n", prop, k)
			}
		}
		os.Exit(2)
	}
	fmt.Printf("OK property=%s: every obligation discharged within the stated bounds\n", prop)
}

func prefixAll(p string, xs []string) []string {
	var out []string
	for _, x := range xs {
		out = append(out, p+x)
	}
	return out
}

func clip(s string, n int) string {
	if len(s) > n {
		return s[:n] + "…"
	}
	return s
}

func loadKnown(path, prop string) []knownFinding {
	b, err := os.ReadFile(path)
	if err != nil {
		return nil
	}
	var all []knownFinding
	if err := json.Unmarshal(b, &all); err != nil {
		fmt.Println("INCONCLUSIVE bad known_findings.json:", err)
		os.Exit(2)
	}
	var out []knownFinding
	for _, k := range all {
		if k.Property == prop {
			out = append(out, k)
		}
	}
	return out
}

func matchKnown(known []knownFinding, v *sym.Violation) int {
	for i, k := range known {
		if k.Status != "known" {
			continue
		}
		if k.Harness != "" && k.Harness != v.Harness {
			continue
		}
		if k.Label != v.Label {
			continue
		}
		ok := true
		vals := map[string]uint64{}
		for _, in := range v.Inputs {
			vals[in.Name] = in.Val
		}
		for _, c := range k.Where {
			x := vals[c.Input]
			switch c.Op {
			case "==":
				ok = ok && x == c.Value
			case "!=":
				ok = ok && x != c.Value
			case "<":
				ok = ok && x < c.Value
			case ">":
				ok = ok && x > c.Value
			case "<=":
				ok = ok && x <= c.Value
			case ">=":
				ok = ok && x >= c.Value
			}
		}
		if ok {
			return i
		}
	}
	return -1
}

func mkCase(prop, tier string, e *sym.EntrySpec, p *sym.Program, v *sym.Violation) replayCase {
	rc := replayCase{Property: prop, File: filepath.Base(e.File.Path), Pkg: e.File.PkgPath, Entry: e.Func, Label: v.Label,
		Kind: v.Kind, Detail: v.Detail, Tier: tier, Params: p.Params, Inputs: v.Inputs, Fixed: map[string]uint64{}}
	for _, in := range v.Inputs {
		rc.Fixed[in.Name] = in.Val
	}
	rc.Native = nativeReplayable(e.File) && v.Kind != "nontermination"
	return rc
}

var allHarnessFiles []*sym.HarnessFile

func nativeReplayable(hf *sym.HarnessFile) bool {
	if len(hf.Replaces) > 0 {
		return false
	}
	for _, o := range allHarnessFiles {
		if o.PkgPath == hf.PkgPath && o != hf && len(o.Entries) == 0 && (strings.Contains(string(o.Src), "zzsymUF(") || len(o.Replaces) > 0) {
			return false // shares UF-based / replacing helpers
		}
	}
	if strings.Contains(string(hf.Src), "zzsymUF(") {
		return false
	}
	if strings.Contains(string(hf.Src), "symgo:native no") {
		return false
	}
	return true
}

// interpReplay re-executes the entry concretely with the model and checks the same label fails.
func interpReplay(l *sym.Loaded, e *sym.EntrySpec, p *sym.Program, rc replayCase, workers int, tc tierCfg) bool {
	if strings.Contains(string(e.File.Src), "zzsymUF(") {
		return true // UF values are not part of the model; cannot re-execute concretely
	}
	fn := l.Pkgs[e.File.PkgPath].Func(e.Func)
	cfg := sym.RunConfig{P: p, Entry: fn, Name: e.Func, Workers: 1, MaxPaths: 10,
		Lim: sym.Limits{MaxDecisions: tc.MaxDec, MaxSteps: tc.MaxSteps, EnumCap: tc.EnumCap}, Fixed: rc.Fixed,
		NontermIsViolation: e.Opts["nonterm"] == "violation"}
	if v := e.Opts["steps"]; v != "" {
		n, _ := strconv.ParseInt(v, 10, 64)
		cfg.Lim.MaxSteps = n
	}
	r := sym.Explore(cfg)
	for _, v := range r.Stats.Violations {
		if v.Label == rc.Label {
			return true
		}
	}
	for _, e := range r.Stats.EngineErrors {
		if strings.Contains(e, "zzsymUF in concrete mode") {
			return true // reaches an uninterpreted function through a helper: no concrete re-execution possible
		}
	}
	return false
}

func doReplay(path, repo, root, work string, hfs []*sym.HarnessFile, l *sym.Loaded, tc tierCfg) int {
	b, err := os.ReadFile(path)
	if err != nil {
		fmt.Println("cannot read replay file:", err)
		return 2
	}
	var rc replayCase
	if err := json.Unmarshal(b, &rc); err != nil {
		fmt.Println("bad replay file:", err)
		return 2
	}
	rc.Fixed = map[string]uint64{}
	for _, in := range rc.Inputs {
		rc.Fixed[in.Name] = in.Val
	}
	for _, hf := range hfs {
		if filepath.Base(hf.Path) != rc.File {
			continue
		}
		for _, e := range hf.Entries {
			if e.Func != rc.Entry {
				continue
			}
			p, err := sym.NewProgram(l, hf, rc.Tier)
			if err != nil {
				fmt.Println(err)
				return 2
			}
			for k, v := range rc.Params {
				p.Params[k] = v
			}
			ok := interpReplay(l, e, p, rc, 1, tc)
			fmt.Printf("interpreter replay: reproduced=%v\n", ok)
			if rc.Native {
				res, out := nativeReplay(repo, work, hfs, []replayCase{rc})
				fmt.Println(out)
				if len(res) == 1 && res[0].matches(rc) {
					fmt.Printf("VIOLATION property=%s replay=%s\n", rc.Property, path)
					return 1
				}
				fmt.Println("native replay: not reproduced")
				return 0
			}
			if ok {
				fmt.Printf("VIOLATION property=%s replay=%s\n", rc.Property, path)
				return 1
			}
			return 0
		}
	}
	fmt.Println("replay: harness entry not found")
	return 2
}

// ---------- native execution of harness entries (real build, go test -overlay) ----------

type nativeResult struct {
	AssertFails []string
	Panic       string
	AssumeFail  bool
	Obs         []string
	Ran         bool
}

func (r nativeResult) matches(rc replayCase) bool {
	if !r.Ran {
		return false
	}
	if rc.Kind == "panic" {
		return r.Panic != ""
	}
	for _, l := range r.AssertFails {
		if l == rc.Label {
			return true
		}
	}
	return false
}

const nativeRT = `
import (
	"encoding/json"
	"fmt"
	"os"
	"runtime/debug"
	"strings"
)

type zzCase struct {
	Entry  string            ` + "`json:\"entry\"`" + `
	Inputs map[string]uint64 ` + "`json:\"inputs\"`" + `
	Params map[string]int64  ` + "`json:\"params\"`" + `
}
type zzAssumeFail struct{}

var (
	zzIn     map[string]uint64
	zzParams map[string]int64
	zzCnt    map[string]int
)

func zzfresh(name string) string {
	n := zzCnt[name]
	zzCnt[name] = n + 1
	if n == 0 {
		return name
	}
	return fmt.Sprintf("%s#%d", name, n)
}
func zzsymU8(name string) uint8    { return uint8(zzIn[zzfresh(name)]) }
func zzsymU16(name string) uint16  { return uint16(zzIn[zzfresh(name)]) }
func zzsymU32(name string) uint32  { return uint32(zzIn[zzfresh(name)]) }
func zzsymU64(name string) uint64  { return zzIn[zzfresh(name)] }
func zzsymI64(name string) int64   { return int64(zzIn[zzfresh(name)]) }
func zzsymInt(name string) int     { return int(zzIn[zzfresh(name)]) }
func zzsymBool(name string) bool   { return zzIn[zzfresh(name)] != 0 }
func zzsymBytes(name string, n int) []byte {
	base := zzfresh(name)
	b := make([]byte, n)
	for i := range b {
		b[i] = byte(zzIn[fmt.Sprintf("%s[%d]", base, i)])
	}
	return b
}
func zzsymString(name string, n int) string { return string(zzsymBytes(name, n)) }
func zzsymAssume(c bool) {
	if !c {
		panic(zzAssumeFail{})
	}
}
func zzsymAssert(c bool, label string) {
	if !c {
		fmt.Println("ZZSYM-ASSERT-FAIL", label)
	}
}
func zzsymFail(label string)            { fmt.Println("ZZSYM-ASSERT-FAIL", label) }
func zzsymCover(label string)           {}
func zzsymChoice(name string, n int) int { return int(zzIn[zzfresh(name)]) }
func zzsymParam(name string) int        { return int(zzParams[name]) }
func zzsymAnd(a, b bool) bool           { return a && b }
func zzsymOr(a, b bool) bool            { return a || b }
func zzsymNot(a bool) bool              { return !a }
func zzsymImplies(a, b bool) bool       { return !a || b }
func zzsymEqBytes(a, b []byte) bool     { return string(a) == string(b) }
func zzsymEqStr(a, b string) bool       { return a == b }
func zzsymIteU64(c bool, a, b uint64) uint64 { if c { return a }; return b }
func zzsymIteInt(c bool, a, b int) int { if c { return a }; return b }
func zzsymIteU8(c bool, a, b uint8) uint8 { if c { return a }; return b }
func zzsymIteU16(c bool, a, b uint16) uint16 { if c { return a }; return b }
func zzsymIteU32(c bool, a, b uint32) uint32 { if c { return a }; return b }
func zzsymUF(name string, outLen int, args ...[]byte) []byte { panic("zzsymUF is not available natively") }
func zzsymObserveBytes(label string, b []byte) { fmt.Printf("ZZSYM-OBS %s=%x\n", label, b) }
func zzsymObserveInt(label string, v int)      { fmt.Printf("ZZSYM-OBS %s=%d\n", label, v) }
func zzsymObserveBool(label string, v bool)    { fmt.Printf("ZZSYM-OBS %s=%v\n", label, v) }
func zzsymSymbolic() bool                      { return false }

func zzRunCases(entries map[string]func()) {
	b, err := os.ReadFile(os.Getenv("ZZSYM_CASES"))
	if err != nil {
		fmt.Println("ZZSYM-ERROR", err)
		return
	}
	var cases []zzCase
	if err := json.Unmarshal(b, &cases); err != nil {
		fmt.Println("ZZSYM-ERROR", err)
		return
	}
	for i, c := range cases {
		f, ok := entries[c.Entry]
		if !ok {
			continue
		}
		fmt.Printf("ZZSYM-CASE %d BEGIN\n", i)
		zzIn, zzParams, zzCnt = c.Inputs, c.Params, map[string]int{}
		if zzIn == nil {
			zzIn = map[string]uint64{}
		}
		func() {
			defer func() {
				if r := recover(); r != nil {
					if _, ok := r.(zzAssumeFail); ok {
						fmt.Println("ZZSYM-ASSUME-FAIL")
						return
					}
					fmt.Printf("ZZSYM-PANIC %v\n", strings.ReplaceAll(fmt.Sprint(r), "\n", " "))
					fmt.Println(string(debug.Stack()))
				}
			}()
			f()
		}()
		fmt.Printf("ZZSYM-CASE %d END\n", i)
	}
}
`

// nativeReplay runs cases natively; returns one result per case (in order).
func nativeReplay(repo, work string, hfs []*sym.HarnessFile, cases []replayCase) ([]nativeResult, string) {
	results := make([]nativeResult, len(cases))
	byPkg := map[string][]int{}
	for i, c := range cases {
		byPkg[c.Pkg] = append(byPkg[c.Pkg], i)
	}
	var outAll strings.Builder
	var pkgs []string
	for p := range byPkg {
		pkgs = append(pkgs, p)
	}
	sort.Strings(pkgs)
	var mu sync.Mutex
	var wg sync.WaitGroup
	sem := make(chan struct{}, 4)
	for pi, pkg := range pkgs {
		wg.Add(1)
		go func(pi int, pkg string) {
			defer wg.Done()
			sem <- struct{}{}
			defer func() { <-sem }()
			idxs := byPkg[pkg]
			dir := filepath.Join(work, fmt.Sprintf("native%d_%d", pi, time.Now().UnixNano()%100000))
			os.MkdirAll(dir, 0o755)
			defer os.RemoveAll(dir)
			overlay := map[string]string{}
			var pkgName, pkgDirPath string
			var entries []string
			for _, hf := range hfs {
				if hf.PkgPath != pkg {
					continue
				}
				real := filepath.Join(dir, filepath.Base(hf.Virtual))
				os.WriteFile(real, hf.Src, 0o644)
				overlay[hf.Virtual] = real
				pkgDirPath = filepath.Dir(hf.Virtual)
				pkgName = packageName(hf.Src)
				for _, e := range hf.Entries {
					entries = append(entries, e.Func)
				}
			}
			// harness files living in other packages (helpers, fakes) are part of every native build
			helperRT := map[string]bool{}
			for _, hf := range hfs {
				if hf.PkgPath == pkg {
					continue
				}
				real := filepath.Join(dir, "helper_"+sanitizeName(hf.PkgPath)+"_"+filepath.Base(hf.Virtual))
				os.WriteFile(real, hf.Src, 0o644)
				overlay[hf.Virtual] = real
				hdir := filepath.Dir(hf.Virtual)
				if !helperRT[hdir] {
					helperRT[hdir] = true
					rtp := filepath.Join(dir, "helper_rt_"+sanitizeName(hf.PkgPath)+".go")
					os.WriteFile(rtp, []byte("package "+packageName(hf.Src)+"\n"+nativeRT), 0o644)
					overlay[filepath.Join(hdir, "zz_symgo_rt.go")] = rtp
				}
			}
			rt := "package " + pkgName + "\n" + nativeRT
			os.WriteFile(filepath.Join(dir, "zz_symgo_rt.go"), []byte(rt), 0o644)
			overlay[filepath.Join(pkgDirPath, "zz_symgo_rt.go")] = filepath.Join(dir, "zz_symgo_rt.go")
			var tb strings.Builder
			tb.WriteString("package " + pkgName + "\n\nimport \"testing\"\n\nfunc TestZZSymgoNative(t *testing.T) {\n\tzzRunCases(map[string]func(){\n")
			for _, e := range entries {
				fmt.Fprintf(&tb, "\t\t%q: %s,\n", e, e)
			}
			tb.WriteString("\t})\n}\n")
			os.WriteFile(filepath.Join(dir, "zz_symgo_native_test.go"), []byte(tb.String()), 0o644)
			overlay[filepath.Join(pkgDirPath, "zz_symgo_native_test.go")] = filepath.Join(dir, "zz_symgo_native_test.go")
			for k, v := range sym.NativeOverlay {
				overlay[k] = v
			}
			ob, _ := json.Marshal(map[string]any{"Replace": overlay})
			ovPath := filepath.Join(dir, "overlay.json")
			os.WriteFile(ovPath, ob, 0o644)
			type zc struct {
				Entry  string            `json:"entry"`
				Inputs map[string]uint64 `json:"inputs"`
				Params map[string]int64  `json:"params"`
			}
			var zcs []zc
			for _, i := range idxs {
				zcs = append(zcs, zc{Entry: cases[i].Entry, Inputs: cases[i].Fixed, Params: cases[i].Params})
			}
			cb, _ := json.Marshal(zcs)
			casePath := filepath.Join(dir, "cases.json")
			os.WriteFile(casePath, cb, 0o644)
			cmd := exec.Command("go", "test", "-vet=off", "-count=1", "-run", "^TestZZSymgoNative$", "-v", "-timeout", "300s", "-overlay", ovPath, pkg)
			cmd.Dir = repo
			cmd.Env = append(os.Environ(), "ZZSYM_CASES="+casePath, "GOFLAGS=-mod=mod", "GOPROXY=off")
			out, _ := cmd.CombinedOutput()
			mu.Lock()
			defer mu.Unlock()
			outAll.Write(out)
			cur := -1
			for _, line := range strings.Split(string(out), "\n") {
				line = strings.TrimSpace(line)
				switch {
				case strings.HasPrefix(line, "ZZSYM-CASE ") && strings.HasSuffix(line, " BEGIN"):
					n, _ := strconv.Atoi(strings.Fields(line)[1])
					if n < len(idxs) {
						cur = idxs[n]
						results[cur].Ran = true
					}
				case strings.HasPrefix(line, "ZZSYM-CASE ") && strings.HasSuffix(line, " END"):
					cur = -1
				case cur >= 0 && strings.HasPrefix(line, "ZZSYM-ASSERT-FAIL "):
					results[cur].AssertFails = append(results[cur].AssertFails, strings.TrimPrefix(line, "ZZSYM-ASSERT-FAIL "))
				case cur >= 0 && strings.HasPrefix(line, "ZZSYM-PANIC "):
					results[cur].Panic = strings.TrimPrefix(line, "ZZSYM-PANIC ")
				case cur >= 0 && line == "ZZSYM-ASSUME-FAIL":
					results[cur].AssumeFail = true
				case cur >= 0 && strings.HasPrefix(line, "ZZSYM-OBS "):
					results[cur].Obs = append(results[cur].Obs, strings.TrimPrefix(line, "ZZSYM-OBS "))
				}
			}
		}(pi, pkg)
	}
	wg.Wait()
	return results, outAll.String()
}

func packageName(src []byte) string {
	for _, line := range strings.Split(string(src), "\n") {
		line = strings.TrimSpace(line)
		if strings.HasPrefix(line, "package ") {
			return strings.Fields(line)[1]
		}
	}
	return "main"
}

// differential runs witness inputs of explored paths through both the interpreter (concretely)
// and the native build and compares assertion outcomes, panics and observations.
func differential(repo, work string, hfs []*sym.HarnessFile, l *sym.Loaded, tier string, reports []*entryReport, tc tierCfg, only string) (int, []string, []replayCase) {
	var cases []replayCase
	type meta struct {
		e *sym.EntrySpec
		p *sym.Program
	}
	var metas []meta
	for _, hf := range hfs {
		if !nativeReplayable(hf) {
			continue
		}
		p, err := sym.NewProgram(l, hf, tier)
		if err != nil {
			continue
		}
		for _, e := range hf.Entries {
			var rep *entryReport
			for _, r := range reports {
				if r.Name == e.Func {
					rep = r
				}
			}
			if rep == nil {
				continue
			}
			n := 0
			for _, fixed := range rep.Witness {
				if n >= tc.NativeN {
					break
				}
				if fixed == nil {
					continue
				}
				n++
				cases = append(cases, replayCase{Pkg: hf.PkgPath, Entry: e.Func, Params: p.Params, Fixed: fixed})
				metas = append(metas, meta{e, p})
			}
		}
	}
	if len(cases) == 0 {
		return 0, nil, nil
	}
	nres, out := nativeReplay(repo, work, hfs, cases)
	var mism []string
	validated := 0
	for i, c := range cases {
		m := metas[i]
		fn := l.Pkgs[m.e.File.PkgPath].Func(m.e.Func)
		cfg := sym.RunConfig{P: m.p, Entry: fn, Name: m.e.Func, Workers: 1, MaxPaths: 10,
			Lim: sym.Limits{MaxDecisions: tc.MaxDec, MaxSteps: tc.MaxSteps, EnumCap: tc.EnumCap}, Fixed: c.Fixed}
		r := sym.Explore(cfg)
		if !nres[i].Ran {
			mism = append(mism, fmt.Sprintf("%s: native run did not execute (build failure?) output: %s", c.Entry, clip(out, 1500)))
			break
		}
		var ifails []string
		ipanic := false
		for _, v := range r.Stats.Violations {
			if v.Kind == "panic" {
				ipanic = true
			} else {
				ifails = append(ifails, v.Label)
			}
		}
		iassume := r.Stats.Aborted["assume"] > 0
		a := fmt.Sprintf("fails=%v panic=%v assume=%v obs=%v", ifails, ipanic, iassume, r.Observes)
		b := fmt.Sprintf("fails=%v panic=%v assume=%v obs=%v", nres[i].AssertFails, nres[i].Panic != "", nres[i].AssumeFail, nres[i].Obs)
		if len(r.Stats.EngineErrors) > 0 && strings.Contains(r.Stats.EngineErrors[0], "zzsymUF in concrete mode") {
			continue // uninterpreted function reached through a sibling file: no concrete counterpart to compare
		}
		if len(r.Stats.EngineErrors) > 0 {
			mism = append(mism, fmt.Sprintf("%s: interpreter error in concrete mode: %s", c.Entry, clip(r.Stats.EngineErrors[0], 300)))
			continue
		}
		if a != b {
			mism = append(mism, fmt.Sprintf("%s inputs=%v: interpreter{%s} native{%s}", c.Entry, c.Fixed, clip(a, 400), clip(b, 400)))
			continue
		}
		validated++
	}
	return validated, mism, cases
}

// parseWitness extracts name=value pairs from a sample path string.
func parseWitness(s string) map[string]uint64 {
	i := strings.Index(s, "witness{")
	if i < 0 {
		return nil
	}
	body := s[i+8:]
	if j := strings.LastIndex(body, "}"); j >= 0 {
		body = body[:j]
	}
	if strings.Contains(body, "...") {
		return nil
	}
	out := map[string]uint64{}
	for _, kv := range strings.Fields(body) {
		k, v, ok := strings.Cut(kv, "=")
		if !ok {
			continue
		}
		n, err := strconv.ParseUint(v, 10, 64)
		if err != nil {
			continue
		}
		out[k] = n
	}
	return out
}

func crossSolver(primary string) string {
	if primary == "cvc5" {
		return "z3"
	}
	return "cvc5"
}

// crossCheck re-decides the dumped (expected unsat) obligations with a second solver.
func crossCheck(dir string, tc tierCfg, primary string) (int, []string) {
	files, _ := filepath.Glob(filepath.Join(dir, "*-unsat.smt2"))
	sort.Strings(files)
	var bad []string
	n := 0
	var mu sync.Mutex
	var wg sync.WaitGroup
	sem := make(chan struct{}, 8)
	for _, f := range files {
		wg.Add(1)
		go func(f string) {
			defer wg.Done()
			sem <- struct{}{}
			defer func() { <-sem }()
			var cmd *exec.Cmd
			if crossSolver(primary) == "cvc5" {
				cmd = exec.Command("cvc5", "--lang=smt2", fmt.Sprintf("--tlimit=%d", tc.TimeoutMs), f)
			} else {
				cmd = exec.Command("z3", fmt.Sprintf("-T:%d", tc.TimeoutMs/1000+1), f)
			}
			// cvc5 needs a logic
			src, _ := os.ReadFile(f)
			tmp := f + ".x.smt2"
			os.WriteFile(tmp, append([]byte("(set-logic ALL)\n"), src...), 0o644)
			cmd.Args[len(cmd.Args)-1] = tmp
			out, _ := cmd.CombinedOutput()
			os.Remove(tmp)
			res := strings.TrimSpace(string(out))
			mu.Lock()
			defer mu.Unlock()
			switch {
			case strings.HasPrefix(res, "unsat"):
				n++
			case strings.HasPrefix(res, "sat"):
				bad = append(bad, filepath.Base(f)+": primary says unsat, second solver says sat")
			case strings.Contains(res, "error"):
				bad = append(bad, filepath.Base(f)+": second solver error: "+clip(res, 200))
			default:
				// timeout/unknown in the second solver: not counted, not an alarm
			}
		}(f)
	}
	wg.Wait()
	return n, bad
}

func sanitizeName(s string) string {
	return strings.Map(func(r rune) rune {
		if r >= 'a' && r <= 'z' || r >= 'A' && r <= 'Z' || r >= '0' && r <= '9' {
			return r
		}
		return '_'
	}, s)
}
