package main

import (
	"flag"
	"fmt"
	"os"
	"path/filepath"
	"sort"
	"time"

	"verif.local/symgo/sym"
)

func main() {
	tier := flag.String("tier", "quick", "quick|thorough")
	only := flag.String("only", "", "run only this entry")
	repo := flag.String("repo", "/repo", "repository root")
	hdir := flag.String("harness", "/verif/harness", "harness root")
	workers := flag.Int("workers", 16, "parallel workers")
	verbose := flag.Bool("v", false, "verbose")
	flag.Parse()
	if flag.NArg() < 1 {
		fmt.Println("usage: check [flags] <PROPERTY>")
		os.Exit(2)
	}
	prop := flag.Arg(0)
	files, _ := filepath.Glob(filepath.Join(*hdir, prop, "*.go"))
	sort.Strings(files)
	var hfs []*sym.HarnessFile
	for _, f := range files {
		hf, err := sym.ParseHarnessFile(f)
		if err != nil {
			fmt.Println("INCONCLUSIVE", err)
			os.Exit(2)
		}
		hfs = append(hfs, hf)
	}
	t0 := time.Now()
	l, err := sym.Load(*repo, hfs, nil)
	if err != nil {
		fmt.Println("INCONCLUSIVE load:", err)
		os.Exit(2)
	}
	fmt.Printf("loaded in %.1fs\n", time.Since(t0).Seconds())
	for _, hf := range hfs {
		p, err := sym.NewProgram(l, hf, *tier)
		if err != nil {
			fmt.Println("INCONCLUSIVE", err)
			os.Exit(2)
		}
		for _, e := range hf.Entries {
			if *only != "" && e.Func != *only {
				continue
			}
			fn := l.Pkgs[hf.PkgPath].Func(e.Func)
			cfg := sym.RunConfig{P: p, Entry: fn, Name: e.Func, Workers: *workers, MaxPaths: 20000,
				Lim: sym.Limits{MaxDecisions: 5000, MaxSteps: 20_000_000, EnumCap: 64}, Solver: "z3", TimeoutMs: 10000, Verbose: *verbose}
			r := sym.Explore(cfg)
			st := r.Stats
			fmt.Printf("%s: paths=%d completed=%d aborted=%v oblig=%d discharged=%d queries=%d wall=%.2fs solver=%.2fs steps=%d\n",
				e.Func, st.Paths, st.Completed, st.Aborted, st.Obligations, st.Discharged, st.Queries, r.Wall.Seconds(), r.SolverTime.Seconds(), st.Steps)
			for _, v := range st.Violations {
				fmt.Printf("  VIOL %s %s %s inputs=%v\n", v.Kind, v.Label, v.Detail, v.Inputs)
			}
			for _, s := range st.Inconclusive {
				fmt.Println("  INCONCLUSIVE:", s)
			}
			for _, s := range st.EngineErrors {
				fmt.Println("  ENGINE:", s)
			}
			fmt.Println("  covers:", st.Covers)
			for _, s := range st.SamplePaths {
				fmt.Println("  sample:", s)
			}
		}
	}
}
