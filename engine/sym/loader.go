package sym

import (
	"fmt"
	"os/exec"
	"go/types"
	"go/ast"
	"go/parser"
	"go/token"
	"os"
	"path/filepath"
	"sort"
	"strconv"
	"strings"

	"golang.org/x/tools/go/packages"
	"golang.org/x/tools/go/ssa"
	"golang.org/x/tools/go/ssa/ssautil"
)

const ModulePath = "github.com/pion/dtls/v3"

// EntrySpec is one harness entry function with its options.
type EntrySpec struct {
	Func    string
	Opts    map[string]string
	File    *HarnessFile
	Covers  []string
	Doc     string
}

// HarnessFile is a parsed harness source file.
type HarnessFile struct {
	Path     string
	Name     string
	PkgPath  string
	Src      []byte
	Entries  []*EntrySpec
	Replaces [][2]string
	Params   map[string]map[string]int64 // name -> tier -> value
	GoPolicy string
	Virtual  string
	Stubs    []string
	Assumes  []string
	Outside  []string
}

func ParseHarnessFile(path string) (*HarnessFile, error) {
	src, err := os.ReadFile(path)
	if err != nil {
		return nil, err
	}
	hf := &HarnessFile{Path: path, Src: src, Params: map[string]map[string]int64{}, Name: strings.TrimSuffix(filepath.Base(path), ".go")}
	fset := token.NewFileSet()
	f, err := parser.ParseFile(fset, path, src, parser.ParseComments)
	if err != nil {
		return nil, err
	}
	for _, cg := range f.Comments {
		for _, c := range cg.List {
			txt := strings.TrimSpace(strings.TrimPrefix(c.Text, "//"))
			if !strings.HasPrefix(txt, "symgo:") {
				continue
			}
			fields := strings.Fields(strings.TrimPrefix(txt, "symgo:"))
			if len(fields) == 0 {
				continue
			}
			switch fields[0] {
			case "pkg":
				hf.PkgPath = fields[1]
			case "replace":
				if len(fields) != 3 {
					return nil, fmt.Errorf("%s: bad replace directive %q", path, txt)
				}
				hf.Replaces = append(hf.Replaces, [2]string{fields[1], fields[2]})
			case "param":
				m := map[string]int64{}
				for _, kv := range fields[2:] {
					k, v, _ := strings.Cut(kv, "=")
					n, err := strconv.ParseInt(v, 0, 64)
					if err != nil {
						return nil, fmt.Errorf("%s: bad param %q", path, txt)
					}
					m[k] = n
				}
				hf.Params[fields[1]] = m
			case "go":
				hf.GoPolicy = fields[1]
			case "stub":
				hf.Stubs = append(hf.Stubs, strings.Join(fields[1:], " "))
			case "assume":
				hf.Assumes = append(hf.Assumes, strings.Join(fields[1:], " "))
			case "outside":
				hf.Outside = append(hf.Outside, strings.Join(fields[1:], " "))
			case "entry":
				// handled with function docs below
			}
		}
	}
	for _, d := range f.Decls {
		fd, ok := d.(*ast.FuncDecl)
		if !ok || fd.Doc == nil || fd.Recv != nil {
			continue
		}
		for _, c := range fd.Doc.List {
			txt := strings.TrimSpace(strings.TrimPrefix(c.Text, "//"))
			if !strings.HasPrefix(txt, "symgo:entry") {
				continue
			}
			es := &EntrySpec{Func: fd.Name.Name, Opts: map[string]string{}, File: hf}
			for _, kv := range strings.Fields(strings.TrimPrefix(txt, "symgo:entry")) {
				k, v, _ := strings.Cut(kv, "=")
				es.Opts[k] = v
			}
			if cv := es.Opts["covers"]; cv != "" {
				es.Covers = strings.Split(cv, ",")
			}
			var doc []string
			for _, c2 := range fd.Doc.List {
				t2 := strings.TrimSpace(strings.TrimPrefix(c2.Text, "//"))
				if !strings.HasPrefix(t2, "symgo:") {
					doc = append(doc, t2)
				}
			}
			es.Doc = strings.Join(doc, " ")
			hf.Entries = append(hf.Entries, es)
		}
	}
	if hf.PkgPath == "" {
		return nil, fmt.Errorf("%s: missing //symgo:pkg directive", path)
	}
	return hf, nil
}

// DepWork is the scratch directory where dependency modules that carry a harness are copied
// (the go command ignores overlays inside the module cache). NativeOverlay lists the extra
// overlay entries (go.mod with the replace directive) that native runs need as well.
var (
	DepWork       = ""
	NativeOverlay = map[string]string{}
	pkgDirCache   = map[string]string{}
	goModExtra    = ""
)

func pkgDir(repo, pkgPath string) string {
	if pkgPath == ModulePath || strings.HasPrefix(pkgPath, ModulePath+"/") {
		rel := strings.TrimPrefix(strings.TrimPrefix(pkgPath, ModulePath), "/")
		return filepath.Join(repo, rel)
	}
	if d, ok := pkgDirCache[pkgPath]; ok {
		return d
	}
	cmd := exec.Command("go", "list", "-f", "{{.Module.Path}}\n{{.Module.Dir}}\n{{.Dir}}", pkgPath)
	cmd.Dir = repo
	cmd.Env = append(os.Environ(), "GOFLAGS=-mod=mod", "GOPROXY=off")
	out, err := cmd.Output()
	if err != nil {
		panic(fmt.Sprintf("go list %s: %v", pkgPath, err))
	}
	parts := strings.Split(strings.TrimSpace(string(out)), "\n")
	if len(parts) != 3 || DepWork == "" {
		panic(fmt.Sprintf("go list %s: unexpected output %q", pkgPath, out))
	}
	modPath, modDir, dir := parts[0], parts[1], parts[2]
	dst := filepath.Join(DepWork, "dep", sanitize(modPath))
	if _, err := os.Stat(dst); err != nil {
		os.MkdirAll(filepath.Dir(dst), 0o755)
		if out, err := exec.Command("cp", "-r", modDir, dst).CombinedOutput(); err != nil {
			panic(fmt.Sprintf("copy %s: %v %s", modDir, err, out))
		}
		exec.Command("chmod", "-R", "u+w", dst).Run()
		goModExtra += fmt.Sprintf("\nreplace %s => %s\n", modPath, dst)
	}
	d := filepath.Join(dst, strings.TrimPrefix(dir, modDir))
	pkgDirCache[pkgPath] = d
	return d
}

// Loaded is the result of loading the repository with harness overlays.
type Loaded struct {
	Prog    *ssa.Program
	Fset    *token.FileSet
	Pkgs    map[string]*ssa.Package
	LoadDur float64
}

// Load loads the packages of all harness files (plus extra patterns) from repo with the harness
// sources injected as overlay files, and builds SSA for the whole program.
func Load(repo string, files []*HarnessFile, extraOverlay map[string][]byte) (*Loaded, error) {
	overlay := map[string][]byte{}
	pkgSet := map[string]bool{}
	pkgName := map[string]string{}
	for _, hf := range files {
		dir := pkgDir(repo, hf.PkgPath)
		hf.Virtual = filepath.Join(dir, "zz_symgo_"+hf.Name+".go")
		overlay[hf.Virtual] = hf.Src
		pkgSet[hf.PkgPath] = true
		// package clause
		fset := token.NewFileSet()
		f, err := parser.ParseFile(fset, hf.Path, hf.Src, parser.PackageClauseOnly)
		if err != nil {
			return nil, err
		}
		pkgName[hf.PkgPath] = f.Name.Name
	}
	var patterns []string
	for p := range pkgSet {
		patterns = append(patterns, p)
		dir := pkgDir(repo, p)
		overlay[filepath.Join(dir, "zz_symgo_rt.go")] = []byte("package " + pkgName[p] + "\n" + RuntimeDecls)
	}
	for k, v := range extraOverlay {
		overlay[k] = v
	}
	if goModExtra != "" {
		gm, err := os.ReadFile(filepath.Join(repo, "go.mod"))
		if err != nil {
			return nil, err
		}
		content := append(gm, []byte(goModExtra)...)
		overlay[filepath.Join(repo, "go.mod")] = content
		real := filepath.Join(DepWork, "go.mod.overlay")
		os.WriteFile(real, content, 0o644)
		NativeOverlay[filepath.Join(repo, "go.mod")] = real
	}
	sort.Strings(patterns)
	cfg := &packages.Config{
		Mode:    packages.LoadAllSyntax,
		Dir:     repo,
		Overlay: overlay,
		Tests:   false,
		Env:     append(os.Environ(), "GOFLAGS=-mod=mod", "GOPROXY=off", "CGO_ENABLED=0"),
	}
	pkgs, err := packages.Load(cfg, patterns...)
	if err != nil {
		return nil, err
	}
	var errs []string
	packages.Visit(pkgs, nil, func(p *packages.Package) {
		for _, e := range p.Errors {
			// bodiless declarations are reported as "missing function body" by go/types only when
			// the package has no non-Go files; tolerate exactly that message for zzsym functions.
			if strings.Contains(e.Msg, "missing function body") {
				continue
			}
			errs = append(errs, e.Error())
		}
	})
	if len(errs) > 0 {
		if len(errs) > 12 {
			errs = errs[:12]
		}
		return nil, fmt.Errorf("load errors (harness no longer type-checks against the tree?):\n  %s", strings.Join(errs, "\n  "))
	}
	prog, spkgs := ssautil.AllPackages(pkgs, ssa.InstantiateGenerics)
	prog.Build()
	l := &Loaded{Prog: prog, Fset: prog.Fset, Pkgs: map[string]*ssa.Package{}}
	for i, p := range pkgs {
		if spkgs[i] != nil {
			l.Pkgs[p.PkgPath] = spkgs[i]
		}
	}
	return l, nil
}

// DefaultInitAllow lists the packages whose init functions are executed by the interpreter.
func DefaultInitAllow(path string) bool {
	if strings.HasPrefix(path, "github.com/pion/") || strings.HasPrefix(path, "golang.org/x/crypto/cryptobyte") {
		return true
	}
	switch path {
	case "io", "bytes", "strings", "encoding/binary", "sort", "slices", "math/bits", "unicode/utf8",
		"strconv", "crypto", "hash", "context", "io/fs", "encoding/hex", "crypto/cipher",
		"container/list", "bufio":
		return true
	}
	return false
}

// NewProgram prepares the per-harness-file program view.
func NewProgram(l *Loaded, hf *HarnessFile, tier string) (*Program, error) {
	p := &Program{Prog: l.Prog, Fset: l.Fset, Replace: map[string]*ssa.Function{}, InitAllow: DefaultInitAllow,
		GoPolicy: hf.GoPolicy, Params: map[string]int64{}}
	rt := l.Prog.ImportedPackage("runtime")
	if rt == nil {
		return nil, fmt.Errorf("runtime package not loaded")
	}
	p.runtimeErrT = rt.Type("errorString").Type()
	pkg := l.Pkgs[hf.PkgPath]
	if pkg == nil {
		return nil, fmt.Errorf("package %s not loaded", hf.PkgPath)
	}
	for _, r := range hf.Replaces {
		fn := pkg.Func(r[1])
		if fn == nil {
			return nil, fmt.Errorf("%s: replacement function %s not found in %s", hf.Path, r[1], hf.PkgPath)
		}
		if !strings.Contains(r[0], "[") && findFunc(l.Prog, r[0]) == nil {
			return nil, fmt.Errorf("%s: replace target %s does not exist in the program (renamed or removed?)", hf.Path, r[0])
		}
		p.Replace[r[0]] = fn
	}
	for name, m := range hf.Params {
		v, ok := m[tier]
		if !ok {
			v, ok = m["quick"]
			if !ok {
				return nil, fmt.Errorf("%s: param %s has no value for tier %s", hf.Path, name, tier)
			}
		}
		p.Params[name] = v
	}
	return p, nil
}

// findFunc resolves "pkg/path.Func", "(pkg/path.T).Method" or "(*pkg/path.T).Method".
func findFunc(prog *ssa.Program, name string) *ssa.Function {
	if strings.HasPrefix(name, "(") {
		end := strings.Index(name, ").")
		if end < 0 {
			return nil
		}
		recv := name[1:end]
		meth := name[end+2:]
		ptr := strings.HasPrefix(recv, "*")
		recv = strings.TrimPrefix(recv, "*")
		dot := strings.LastIndex(recv, ".")
		if dot < 0 {
			return nil
		}
		pkg := prog.ImportedPackage(recv[:dot])
		if pkg == nil {
			return nil
		}
		t := pkg.Type(recv[dot+1:])
		if t == nil {
			return nil
		}
		var typ = t.Type()
		ms := prog.MethodSets.MethodSet(typ)
		if ptr {
			ms = prog.MethodSets.MethodSet(typesPointer(typ))
		}
		for i := 0; i < ms.Len(); i++ {
			if ms.At(i).Obj().Name() == meth {
				return prog.MethodValue(ms.At(i))
			}
		}
		return nil
	}
	dot := strings.LastIndex(name, ".")
	if dot < 0 {
		return nil
	}
	pkg := prog.ImportedPackage(name[:dot])
	if pkg == nil {
		return nil
	}
	return pkg.Func(name[dot+1:])
}

func typesPointer(t types.Type) types.Type { return types.NewPointer(t) }
