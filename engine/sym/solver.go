package sym

import (
	"bufio"
	"fmt"
	"io"
	"os/exec"
	"strconv"
	"strings"
	"time"
)

type Result int

const (
	Unsat Result = iota
	Sat
	Unknown
)

func (r Result) String() string { return [...]string{"unsat", "sat", "unknown"}[r] }

// Solver wraps one long-lived SMT solver process speaking SMT-LIB2 on stdin/stdout.
type Solver struct {
	Kind      string // "z3", "z3-new", "cvc5"
	cmd       *exec.Cmd
	in        io.WriteCloser
	out       *bufio.Reader
	TimeoutMs int
	Queries   int
	Time      time.Duration
	Errors    []string
	log       io.Writer
	dead      bool
}

func NewSolver(kind string, timeoutMs int) (*Solver, error) {
	var cmd *exec.Cmd
	switch kind {
	case "z3", "z3-new":
		cmd = exec.Command(kind, "-in")
	case "cvc5":
		cmd = exec.Command("cvc5", "--incremental", "--lang=smt2", "--produce-models", fmt.Sprintf("--tlimit-per=%d", timeoutMs))
	default:
		return nil, fmt.Errorf("unknown solver %q", kind)
	}
	in, err := cmd.StdinPipe()
	if err != nil {
		return nil, err
	}
	outp, err := cmd.StdoutPipe()
	if err != nil {
		return nil, err
	}
	cmd.Stderr = nil
	if err := cmd.Start(); err != nil {
		return nil, err
	}
	s := &Solver{Kind: kind, cmd: cmd, in: in, out: bufio.NewReaderSize(outp, 1<<16), TimeoutMs: timeoutMs}
	s.Reset()
	return s, nil
}

func (s *Solver) SetLog(w io.Writer) { s.log = w }

func (s *Solver) send(txt string) {
	if s.dead {
		return
	}
	if s.log != nil {
		io.WriteString(s.log, txt)
	}
	if _, err := io.WriteString(s.in, txt); err != nil {
		s.dead = true
		s.Errors = append(s.Errors, "solver write: "+err.Error())
	}
}

// Reset clears all assertions and declarations.
func (s *Solver) Reset() {
	if s.Kind == "cvc5" {
		s.send("(reset)\n(set-logic ALL)\n")
		return
	}
	s.send(fmt.Sprintf("(reset)\n(set-option :timeout %d)\n", s.TimeoutMs))
}

func (s *Solver) readLine() string {
	if s.dead {
		return ""
	}
	line, err := s.out.ReadString('\n')
	if err != nil {
		s.dead = true
		s.Errors = append(s.Errors, "solver read: "+err.Error())
		return ""
	}
	return strings.TrimSpace(line)
}

// readSexp reads one balanced s-expression (possibly spanning lines).
func (s *Solver) readSexp() string {
	var b strings.Builder
	depth := 0
	started := false
	for {
		line := s.readLine()
		if s.dead {
			return b.String()
		}
		if line == "" && !started {
			continue
		}
		inBar := false
		for _, ch := range line {
			if ch == '|' {
				inBar = !inBar
			}
			if inBar {
				continue
			}
			if ch == '(' {
				depth++
				started = true
			} else if ch == ')' {
				depth--
			}
		}
		b.WriteString(line)
		b.WriteByte(' ')
		if !started || depth <= 0 {
			return b.String()
		}
	}
}

// Send adds declarations/assertions (no response expected).
func (s *Solver) Send(txt string) { s.send(txt) }

// Check runs (check-sat) in the current context.
func (s *Solver) Check() Result {
	t0 := time.Now()
	s.send("(check-sat)\n")
	s.Queries++
	var r Result
	for {
		line := s.readLine()
		if s.dead {
			r = Unknown
			break
		}
		if line == "sat" {
			r = Sat
			break
		}
		if line == "unsat" {
			r = Unsat
			break
		}
		if line == "unknown" || line == "timeout" {
			r = Unknown
			break
		}
		if strings.HasPrefix(line, "(error") {
			s.Errors = append(s.Errors, line)
			// keep reading: the check-sat answer still follows
			continue
		}
		if line != "" {
			s.Errors = append(s.Errors, "unexpected solver output: "+line)
		}
	}
	s.Time += time.Since(t0)
	return r
}

// GetValues returns the model values of the given terms (by ref string); only valid after Sat.
func (s *Solver) GetValues(refs []string) (map[string]uint64, error) {
	res := map[string]uint64{}
	const chunk = 200
	for i := 0; i < len(refs); i += chunk {
		j := i + chunk
		if j > len(refs) {
			j = len(refs)
		}
		s.send("(get-value (" + strings.Join(refs[i:j], " ") + "))\n")
		txt := s.readSexp()
		if strings.HasPrefix(strings.TrimSpace(txt), "(error") {
			s.Errors = append(s.Errors, txt)
			return nil, fmt.Errorf("get-value: %s", txt)
		}
		if err := parseValues(txt, res); err != nil {
			return nil, err
		}
	}
	return res, nil
}

func parseValues(txt string, res map[string]uint64) error {
	// format: ((name value) (name value) ...)
	toks := tokenize(txt)
	// expect "(" then pairs
	i := 0
	if i >= len(toks) || toks[i] != "(" {
		return fmt.Errorf("bad get-value response: %q", txt)
	}
	i++
	for i < len(toks) && toks[i] == "(" {
		i++
		if i+1 >= len(toks) {
			return fmt.Errorf("bad get-value response: %q", txt)
		}
		name := toks[i]
		i++
		var val uint64
		switch {
		case toks[i] == "true":
			val = 1
			i++
		case toks[i] == "false":
			val = 0
			i++
		case strings.HasPrefix(toks[i], "#x"):
			h := toks[i][2:]
			if len(h) > 16 {
				h = h[len(h)-16:]
			}
			v, err := strconv.ParseUint(h, 16, 64)
			if err != nil {
				return err
			}
			val = v
			i++
		case strings.HasPrefix(toks[i], "#b"):
			bs := toks[i][2:]
			if len(bs) > 64 {
				bs = bs[len(bs)-64:]
			}
			v, err := strconv.ParseUint(bs, 2, 64)
			if err != nil {
				return err
			}
			val = v
			i++
		case toks[i] == "(":
			// (_ bvN w)
			if i+4 < len(toks) && toks[i+1] == "_" && strings.HasPrefix(toks[i+2], "bv") {
				v, err := strconv.ParseUint(toks[i+2][2:], 10, 64)
				if err != nil {
					return err
				}
				val = v
				i += 5
			} else {
				return fmt.Errorf("bad value in %q", txt)
			}
		default:
			return fmt.Errorf("bad value token %q in %q", toks[i], txt)
		}
		if i >= len(toks) || toks[i] != ")" {
			return fmt.Errorf("bad get-value response (no close): %q", txt)
		}
		i++
		res[name] = val
	}
	return nil
}

func tokenize(s string) []string {
	var toks []string
	i := 0
	for i < len(s) {
		c := s[i]
		switch {
		case c == ' ' || c == '\n' || c == '\t' || c == '\r':
			i++
		case c == '(' || c == ')':
			toks = append(toks, string(c))
			i++
		case c == '|':
			j := i + 1
			for j < len(s) && s[j] != '|' {
				j++
			}
			toks = append(toks, s[i:j+1])
			i = j + 1
		default:
			j := i
			for j < len(s) && !strings.ContainsRune(" \n\t\r()", rune(s[j])) {
				j++
			}
			toks = append(toks, s[i:j])
			i = j
		}
	}
	return toks
}

func (s *Solver) Close() {
	if s.cmd == nil {
		return
	}
	s.send("(exit)\n")
	s.in.Close()
	done := make(chan struct{})
	go func() { s.cmd.Wait(); close(done) }()
	select {
	case <-done:
	case <-time.After(2 * time.Second):
		s.cmd.Process.Kill()
	}
	s.cmd = nil
}
