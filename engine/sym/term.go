// Package sym is a bounded symbolic executor for Go programs in go/ssa form.
// Scalars are SMT terms (booleans and bit-vectors); everything else is concrete structure.
package sym

import (
	"fmt"
	"math/bits"
	"strings"
)

type Op uint8

const (
	OpConst Op = iota
	OpVar
	OpNot
	OpAnd
	OpOr
	OpEq
	OpIte
	OpAdd
	OpSub
	OpMul
	OpUDiv
	OpURem
	OpSDiv
	OpSRem
	OpBvAnd
	OpBvOr
	OpBvXor
	OpShl
	OpLShr
	OpAShr
	OpBvNot
	OpBvNeg
	OpUlt
	OpUle
	OpSlt
	OpSle
	OpConcat
	OpExtract
	OpZext
	OpSext
	OpUF
)

var opNames = map[Op]string{
	OpNot: "not", OpAnd: "and", OpOr: "or", OpEq: "=", OpIte: "ite",
	OpAdd: "bvadd", OpSub: "bvsub", OpMul: "bvmul", OpUDiv: "bvudiv", OpURem: "bvurem",
	OpSDiv: "bvsdiv", OpSRem: "bvsrem", OpBvAnd: "bvand", OpBvOr: "bvor", OpBvXor: "bvxor",
	OpShl: "bvshl", OpLShr: "bvlshr", OpAShr: "bvashr", OpBvNot: "bvnot", OpBvNeg: "bvneg",
	OpUlt: "bvult", OpUle: "bvule", OpSlt: "bvslt", OpSle: "bvsle", OpConcat: "concat",
}

// Term is an SMT term. W==0 means Bool, otherwise a bit-vector of W bits (W<=64 for
// everything except UF arguments/results, which are built by Concat and may be wider).
type Term struct {
	Op   Op
	W    int
	V    uint64 // OpConst: value; OpExtract: hi<<16|lo
	Name string // OpVar, OpUF
	A    []*Term
	id   int
}

type tkey struct {
	op         Op
	w          int
	v          uint64
	name       string
	a0, a1, a2 int
}

// Ctx owns the terms of one path.
type Ctx struct {
	tab   map[tkey]*Term
	next  int
	Vars  []*Term          // declared variables in creation order
	UFs   map[string]*Term // one representative application per UF name (for declaration)
	ufSig map[string]string
}

func NewCtx() *Ctx {
	return &Ctx{tab: map[tkey]*Term{}, UFs: map[string]*Term{}, ufSig: map[string]string{}}
}

func mask(w int) uint64 {
	if w >= 64 {
		return ^uint64(0)
	}
	return (uint64(1) << uint(w)) - 1
}

func (c *Ctx) mk(op Op, w int, v uint64, name string, a ...*Term) *Term {
	k := tkey{op: op, w: w, v: v, name: name, a0: -1, a1: -1, a2: -1}
	if len(a) > 3 {
		// n-ary (UF only): no hash-consing
		c.next++
		return &Term{Op: op, W: w, V: v, Name: name, A: a, id: c.next}
	}
	if len(a) > 0 {
		k.a0 = a[0].id
	}
	if len(a) > 1 {
		k.a1 = a[1].id
	}
	if len(a) > 2 {
		k.a2 = a[2].id
	}
	if t, ok := c.tab[k]; ok {
		return t
	}
	c.next++
	t := &Term{Op: op, W: w, V: v, Name: name, A: a, id: c.next}
	c.tab[k] = t
	return t
}

func (c *Ctx) Const(w int, v uint64) *Term {
	if w > 64 {
		panic("Const wider than 64")
	}
	if w == 0 {
		v &= 1
	} else {
		v &= mask(w)
	}
	return c.mk(OpConst, w, v, "")
}
func (c *Ctx) Bool(b bool) *Term {
	if b {
		return c.Const(0, 1)
	}
	return c.Const(0, 0)
}
func (c *Ctx) Var(name string, w int) *Term {
	k := tkey{op: OpVar, w: w, name: name, a0: -1, a1: -1, a2: -1}
	if t, ok := c.tab[k]; ok {
		return t
	}
	t := c.mk(OpVar, w, 0, name)
	c.Vars = append(c.Vars, t)
	return t
}

func (t *Term) IsConst() bool { return t.Op == OpConst }
func (t *Term) IsTrue() bool  { return t.Op == OpConst && t.W == 0 && t.V == 1 }
func (t *Term) IsFalse() bool { return t.Op == OpConst && t.W == 0 && t.V == 0 }

// SignedVal returns the constant sign-extended to int64.
func (t *Term) SignedVal() int64 {
	if t.W >= 64 {
		return int64(t.V)
	}
	sh := uint(64 - t.W)
	return int64(t.V<<sh) >> sh
}

func (c *Ctx) Not(a *Term) *Term {
	if a.W != 0 {
		panic("Not on non-bool")
	}
	if a.IsConst() {
		return c.Const(0, a.V^1)
	}
	if a.Op == OpNot {
		return a.A[0]
	}
	return c.mk(OpNot, 0, 0, "", a)
}
func (c *Ctx) And(a, b *Term) *Term {
	if a.IsFalse() || b.IsFalse() {
		return c.Bool(false)
	}
	if a.IsTrue() {
		return b
	}
	if b.IsTrue() {
		return a
	}
	if a == b {
		return a
	}
	return c.mk(OpAnd, 0, 0, "", a, b)
}
func (c *Ctx) Or(a, b *Term) *Term {
	if a.IsTrue() || b.IsTrue() {
		return c.Bool(true)
	}
	if a.IsFalse() {
		return b
	}
	if b.IsFalse() {
		return a
	}
	if a == b {
		return a
	}
	return c.mk(OpOr, 0, 0, "", a, b)
}
func (c *Ctx) Implies(a, b *Term) *Term { return c.Or(c.Not(a), b) }

func (c *Ctx) Eq(a, b *Term) *Term {
	if a.W != b.W {
		panic(fmt.Sprintf("Eq width mismatch %d %d", a.W, b.W))
	}
	if a == b {
		return c.Bool(true)
	}
	if a.IsConst() && b.IsConst() {
		return c.Bool(a.V == b.V)
	}
	if a.W == 0 {
		if a.IsConst() {
			a, b = b, a
		}
		if b.IsTrue() {
			return a
		}
		if b.IsFalse() {
			return c.Not(a)
		}
	}
	if a.id > b.id {
		a, b = b, a
	}
	// zext(x) == const  with const not fitting => false
	if b.IsConst() && a.Op == OpZext && a.A[0].W < 64 && b.V > mask(a.A[0].W) {
		return c.Bool(false)
	}
	if a.IsConst() && b.Op == OpZext && b.A[0].W < 64 && a.V > mask(b.A[0].W) {
		return c.Bool(false)
	}
	return c.mk(OpEq, 0, 0, "", a, b)
}

func (c *Ctx) Ite(cond, a, b *Term) *Term {
	if cond.IsTrue() {
		return a
	}
	if cond.IsFalse() {
		return b
	}
	if a == b {
		return a
	}
	if a.W == 0 {
		if a.IsTrue() && b.IsFalse() {
			return cond
		}
		if a.IsFalse() && b.IsTrue() {
			return c.Not(cond)
		}
	}
	return c.mk(OpIte, a.W, 0, "", cond, a, b)
}

func foldBin(op Op, w int, x, y uint64) (uint64, bool) {
	m := mask(w)
	sx := func(v uint64) int64 {
		if w >= 64 {
			return int64(v)
		}
		sh := uint(64 - w)
		return int64(v<<sh) >> sh
	}
	switch op {
	case OpAdd:
		return (x + y) & m, true
	case OpSub:
		return (x - y) & m, true
	case OpMul:
		return (x * y) & m, true
	case OpUDiv:
		if y == 0 {
			return m, true
		}
		return x / y, true
	case OpURem:
		if y == 0 {
			return x, true
		}
		return x % y, true
	case OpSDiv:
		if y == 0 {
			return 0, false
		}
		a, b := sx(x), sx(y)
		if b == -1 {
			return uint64(-a) & m, true
		}
		return uint64(a/b) & m, true
	case OpSRem:
		if y == 0 {
			return 0, false
		}
		a, b := sx(x), sx(y)
		if b == -1 {
			return 0, true
		}
		return uint64(a%b) & m, true
	case OpBvAnd:
		return x & y, true
	case OpBvOr:
		return x | y, true
	case OpBvXor:
		return x ^ y, true
	case OpShl:
		if y >= uint64(w) {
			return 0, true
		}
		return (x << y) & m, true
	case OpLShr:
		if y >= uint64(w) {
			return 0, true
		}
		return x >> y, true
	case OpAShr:
		if y >= uint64(w) {
			y = uint64(w - 1)
		}
		return uint64(sx(x)>>y) & m, true
	}
	return 0, false
}

// Bin builds a bit-vector binary operation (both operands the same width).
func (c *Ctx) Bin(op Op, a, b *Term) *Term {
	if a.W != b.W || a.W == 0 {
		panic(fmt.Sprintf("Bin %s width mismatch %d %d", opNames[op], a.W, b.W))
	}
	w := a.W
	if a.IsConst() && b.IsConst() && w <= 64 {
		if v, ok := foldBin(op, w, a.V, b.V); ok {
			return c.Const(w, v)
		}
	}
	if w <= 64 {
		switch op {
		case OpAdd, OpBvOr, OpBvXor:
			if a.IsConst() && a.V == 0 {
				return b
			}
			if b.IsConst() && b.V == 0 {
				return a
			}
		case OpSub, OpShl, OpLShr, OpAShr:
			if b.IsConst() && b.V == 0 {
				return a
			}
			if op != OpSub && a.IsConst() && a.V == 0 {
				return a
			}
			if op != OpSub && op != OpAShr && b.IsConst() && b.V >= uint64(w) {
				return c.Const(w, 0)
			}
		case OpBvAnd:
			if a.IsConst() && a.V == 0 {
				return a
			}
			if b.IsConst() && b.V == 0 {
				return b
			}
			if a.IsConst() && a.V == mask(w) {
				return b
			}
			if b.IsConst() && b.V == mask(w) {
				return a
			}
			// (zext x) & const-mask covering x's width
			if b.IsConst() && a.Op == OpZext && b.V&mask(a.A[0].W) == mask(a.A[0].W) {
				return a
			}
		case OpMul:
			if a.IsConst() && a.V == 1 {
				return b
			}
			if b.IsConst() && b.V == 1 {
				return a
			}
			if (a.IsConst() && a.V == 0) || (b.IsConst() && b.V == 0) {
				return c.Const(w, 0)
			}
		}
		// shl/lshr by a multiple of 8 over zext/concat patterns are left to the solver.
		if op == OpShl && b.IsConst() && a.Op == OpZext {
			// (zext x) << k  ==> zext? keep simple: if k + wx <= w then concat(zeros, x, zeros)
			x := a.A[0]
			k := int(b.V)
			if k+x.W <= w && k > 0 {
				lo := c.Const(k, 0)
				body := c.Concat(x, lo)
				return c.Zext(body, w)
			}
		}
		if op == OpBvOr || op == OpAdd || op == OpBvXor {
			// disjoint zext/concat pieces are left to the solver
		}
	}
	if (op == OpAdd || op == OpMul || op == OpBvAnd || op == OpBvOr || op == OpBvXor) && a.id > b.id {
		a, b = b, a
	}
	if a == b {
		switch op {
		case OpBvAnd, OpBvOr:
			return a
		case OpBvXor, OpSub:
			if w <= 64 {
				return c.Const(w, 0)
			}
		}
	}
	return c.mk(op, w, 0, "", a, b)
}

func (c *Ctx) BvNot(a *Term) *Term {
	if a.IsConst() {
		return c.Const(a.W, ^a.V)
	}
	return c.mk(OpBvNot, a.W, 0, "", a)
}
func (c *Ctx) BvNeg(a *Term) *Term {
	if a.IsConst() {
		return c.Const(a.W, -a.V)
	}
	return c.mk(OpBvNeg, a.W, 0, "", a)
}

// Cmp builds a comparison (OpUlt, OpUle, OpSlt, OpSle).
func (c *Ctx) Cmp(op Op, a, b *Term) *Term {
	if a.W != b.W || a.W == 0 {
		panic("Cmp width mismatch")
	}
	if a.IsConst() && b.IsConst() {
		switch op {
		case OpUlt:
			return c.Bool(a.V < b.V)
		case OpUle:
			return c.Bool(a.V <= b.V)
		case OpSlt:
			return c.Bool(a.SignedVal() < b.SignedVal())
		case OpSle:
			return c.Bool(a.SignedVal() <= b.SignedVal())
		}
	}
	if a == b {
		return c.Bool(op == OpUle || op == OpSle)
	}
	// unsigned comparisons against zext with out-of-range constants
	if op == OpUlt && b.IsConst() && b.V == 0 {
		return c.Bool(false)
	}
	if op == OpUle && a.IsConst() && a.V == 0 {
		return c.Bool(true)
	}
	if a.Op == OpZext && b.IsConst() && a.A[0].W < 64 {
		mx := mask(a.A[0].W)
		switch op {
		case OpUlt, OpSlt:
			if (op == OpUlt || b.SignedVal() >= 0) && b.V > mx {
				return c.Bool(true)
			}
		case OpUle, OpSle:
			if (op == OpUle || b.SignedVal() >= 0) && b.V >= mx {
				return c.Bool(true)
			}
		}
	}
	if b.Op == OpZext && a.IsConst() && b.A[0].W < 64 {
		mx := mask(b.A[0].W)
		switch op {
		case OpUlt, OpSlt:
			if (op == OpUlt || a.SignedVal() >= 0) && a.V >= mx {
				return c.Bool(false)
			}
		case OpUle, OpSle:
			if (op == OpUle || a.SignedVal() >= 0) && a.V > mx {
				return c.Bool(false)
			}
		}
	}
	return c.mk(op, 0, 0, "", a, b)
}

func (c *Ctx) Concat(hi, lo *Term) *Term {
	w := hi.W + lo.W
	if hi.IsConst() && lo.IsConst() && w <= 64 {
		return c.Const(w, hi.V<<uint(lo.W)|lo.V)
	}
	return c.mk(OpConcat, w, 0, "", hi, lo)
}

// Extract returns bits hi..lo (inclusive) of a.
func (c *Ctx) Extract(a *Term, hi, lo int) *Term {
	w := hi - lo + 1
	if lo == 0 && w == a.W {
		return a
	}
	if hi >= a.W || lo < 0 || w <= 0 {
		panic(fmt.Sprintf("Extract [%d:%d] of width %d", hi, lo, a.W))
	}
	if a.IsConst() {
		return c.Const(w, a.V>>uint(lo))
	}
	switch a.Op {
	case OpZext:
		x := a.A[0]
		if hi < x.W {
			return c.Extract(x, hi, lo)
		}
		if lo >= x.W && w <= 64 {
			return c.Const(w, 0)
		}
		if lo == 0 {
			return c.Zext(x, w)
		}
	case OpSext:
		x := a.A[0]
		if hi < x.W {
			return c.Extract(x, hi, lo)
		}
	case OpConcat:
		h, l := a.A[0], a.A[1]
		if hi < l.W {
			return c.Extract(l, hi, lo)
		}
		if lo >= l.W {
			return c.Extract(h, hi-l.W, lo-l.W)
		}
	case OpExtract:
		base := int(a.V & 0xffff)
		return c.Extract(a.A[0], base+hi, base+lo)
	case OpBvAnd, OpBvOr, OpBvXor:
		// distribute over bitwise ops when it pays off (byte extraction of assembled words)
		x := c.Extract(a.A[0], hi, lo)
		y := c.Extract(a.A[1], hi, lo)
		if w <= 64 {
			return c.Bin(a.Op, x, y)
		}
	case OpLShr:
		// (x >> k)[hi:lo] == x[hi+k:lo+k] when in range
		if a.A[1].IsConst() {
			k := int(a.A[1].V)
			if hi+k < a.A[0].W {
				return c.Extract(a.A[0], hi+k, lo+k)
			}
			if lo+k >= a.A[0].W && w <= 64 {
				return c.Const(w, 0)
			}
		}
	case OpShl:
		if a.A[1].IsConst() {
			k := int(a.A[1].V)
			if lo >= k {
				return c.Extract(a.A[0], hi-k, lo-k)
			}
			if hi < k && w <= 64 {
				return c.Const(w, 0)
			}
		}
	}
	return c.mk(OpExtract, w, uint64(hi)<<16|uint64(lo), "", a)
}

func (c *Ctx) Zext(a *Term, w int) *Term {
	if w == a.W {
		return a
	}
	if w < a.W {
		return c.Extract(a, w-1, 0)
	}
	if a.IsConst() {
		return c.Const(w, a.V)
	}
	if a.Op == OpZext {
		return c.Zext(a.A[0], w)
	}
	return c.mk(OpZext, w, 0, "", a)
}
func (c *Ctx) Sext(a *Term, w int) *Term {
	if w == a.W {
		return a
	}
	if w < a.W {
		return c.Extract(a, w-1, 0)
	}
	if a.IsConst() {
		return c.Const(w, uint64(a.SignedVal()))
	}
	if a.Op == OpZext { // zero-extended value has a clear sign bit
		return c.Zext(a.A[0], w)
	}
	return c.mk(OpSext, w, 0, "", a)
}

// UF applies an uninterpreted function named name to args; the result has w bits.
func (c *Ctx) UF(name string, w int, args ...*Term) *Term {
	sig := fmt.Sprint(w)
	for _, a := range args {
		sig += fmt.Sprintf(",%d", a.W)
	}
	if old, ok := c.ufSig[name]; ok && old != sig {
		panic(fmt.Sprintf("UF %s used with two signatures %s / %s", name, old, sig))
	}
	c.ufSig[name] = sig
	t := c.mk(OpUF, w, 0, name, args...)
	if _, ok := c.UFs[name]; !ok {
		c.UFs[name] = t
	}
	return t
}

func sortStr(w int) string {
	if w == 0 {
		return "Bool"
	}
	return fmt.Sprintf("(_ BitVec %d)", w)
}

func constStr(w int, v uint64) string {
	if w == 0 {
		if v != 0 {
			return "true"
		}
		return "false"
	}
	if w%4 == 0 {
		return fmt.Sprintf("#x%0*x", w/4, v)
	}
	return fmt.Sprintf("#b%0*b", w, v)
}

func smtName(s string) string {
	var b strings.Builder
	b.WriteByte('|')
	for _, r := range s {
		if r == '|' || r == '\\' {
			b.WriteByte('_')
		} else {
			b.WriteRune(r)
		}
	}
	b.WriteByte('|')
	return b.String()
}

func (t *Term) ref() string {
	switch t.Op {
	case OpConst:
		return constStr(t.W, t.V)
	case OpVar:
		return smtName(t.Name)
	}
	return fmt.Sprintf("t%d", t.id)
}

// body prints the defining expression of a non-leaf term in terms of its children's refs.
func (t *Term) body() string {
	var b strings.Builder
	switch t.Op {
	case OpExtract:
		fmt.Fprintf(&b, "((_ extract %d %d) %s)", t.V>>16, t.V&0xffff, t.A[0].ref())
	case OpZext:
		fmt.Fprintf(&b, "((_ zero_extend %d) %s)", t.W-t.A[0].W, t.A[0].ref())
	case OpSext:
		fmt.Fprintf(&b, "((_ sign_extend %d) %s)", t.W-t.A[0].W, t.A[0].ref())
	case OpUF:
		if len(t.A) == 0 {
			return smtName("uf_" + t.Name)
		}
		b.WriteString("(" + smtName("uf_"+t.Name))
		for _, a := range t.A {
			b.WriteString(" " + a.ref())
		}
		b.WriteString(")")
	default:
		b.WriteString("(" + opNames[t.Op])
		for _, a := range t.A {
			b.WriteString(" " + a.ref())
		}
		b.WriteString(")")
	}
	return b.String()
}

// Emit writes the definitions needed for t (post-order) that have not been emitted yet.
func Emit(t *Term, emitted map[int]bool, out *strings.Builder, declUF func(*Term)) {
	type fr struct {
		t *Term
		i int
	}
	if t.Op == OpConst || emitted[t.id] {
		return
	}
	stack := []fr{{t, 0}}
	for len(stack) > 0 {
		top := &stack[len(stack)-1]
		if top.i < len(top.t.A) {
			ch := top.t.A[top.i]
			top.i++
			if ch.Op != OpConst && !emitted[ch.id] {
				stack = append(stack, fr{ch, 0})
			}
			continue
		}
		tt := top.t
		stack = stack[:len(stack)-1]
		if emitted[tt.id] {
			continue
		}
		emitted[tt.id] = true
		switch tt.Op {
		case OpVar:
			fmt.Fprintf(out, "(declare-const %s %s)\n", smtName(tt.Name), sortStr(tt.W))
		default:
			if tt.Op == OpUF {
				declUF(tt)
			}
			fmt.Fprintf(out, "(define-fun t%d () %s %s)\n", tt.id, sortStr(tt.W), tt.body())
		}
	}
}

func ufDecl(t *Term) string {
	var b strings.Builder
	b.WriteString("(declare-fun " + smtName("uf_"+t.Name) + " (")
	for i, a := range t.A {
		if i > 0 {
			b.WriteByte(' ')
		}
		b.WriteString(sortStr(a.W))
	}
	b.WriteString(") " + sortStr(t.W) + ")\n")
	return b.String()
}

// Eval evaluates t under an assignment of variables (missing variables are 0). UF applications
// cannot be evaluated and return ok=false.
func Eval(t *Term, asg map[string]uint64, memo map[int]uint64) (uint64, bool) {
	if v, ok := memo[t.id]; ok {
		return v, true
	}
	var r uint64
	switch t.Op {
	case OpConst:
		return t.V, true
	case OpVar:
		r = asg[t.Name] & maskB(t.W)
	case OpUF:
		return 0, false
	default:
		if t.W > 64 {
			return 0, false
		}
		var a [3]uint64
		for i, x := range t.A {
			if x.W > 64 {
				return 0, false
			}
			v, ok := Eval(x, asg, memo)
			if !ok {
				return 0, false
			}
			a[i] = v
		}
		switch t.Op {
		case OpNot:
			r = a[0] ^ 1
		case OpAnd:
			r = a[0] & a[1]
		case OpOr:
			r = a[0] | a[1]
		case OpEq:
			if a[0] == a[1] {
				r = 1
			}
		case OpIte:
			if a[0] != 0 {
				r = a[1]
			} else {
				r = a[2]
			}
		case OpBvNot:
			r = ^a[0] & mask(t.W)
		case OpBvNeg:
			r = -a[0] & mask(t.W)
		case OpUlt, OpUle, OpSlt, OpSle:
			w := t.A[0].W
			sx := func(v uint64) int64 { sh := uint(64 - w); return int64(v<<sh) >> sh }
			var b bool
			switch t.Op {
			case OpUlt:
				b = a[0] < a[1]
			case OpUle:
				b = a[0] <= a[1]
			case OpSlt:
				b = sx(a[0]) < sx(a[1])
			case OpSle:
				b = sx(a[0]) <= sx(a[1])
			}
			if b {
				r = 1
			}
		case OpConcat:
			r = a[0]<<uint(t.A[1].W) | a[1]
		case OpExtract:
			lo := t.V & 0xffff
			r = (a[0] >> lo) & mask(t.W)
		case OpZext:
			r = a[0]
		case OpSext:
			w := t.A[0].W
			sh := uint(64 - w)
			r = uint64(int64(a[0]<<sh)>>sh) & mask(t.W)
		default:
			if t.Op == OpSDiv || t.Op == OpSRem {
				if a[1] == 0 {
					// SMT-LIB semantics for division by zero
					if t.Op == OpSRem {
						r = a[0]
					} else {
						sh := uint(64 - t.W)
						if int64(a[0]<<sh) < 0 {
							r = 1
						} else {
							r = mask(t.W)
						}
					}
					break
				}
			}
			v, ok := foldBin(t.Op, t.W, a[0], a[1])
			if !ok {
				return 0, false
			}
			r = v
		}
	}
	memo[t.id] = r
	return r, true
}

func maskB(w int) uint64 {
	if w == 0 {
		return 1
	}
	return mask(w)
}

var _ = bits.Len
