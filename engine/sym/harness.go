package sym

import (
	"fmt"
	"strings"

	"golang.org/x/tools/go/ssa"
)

func argStr(v value) string {
	s, ok := v.(string)
	if !ok {
		panic(engineErr("harness intrinsic: name/label must be a constant string, have %T", v))
	}
	return s
}

func (ex *Exec) symBytes(name string, n int) []value {
	base := ex.freshName(name)
	out := make([]value, n)
	for i := range out {
		out[i] = ex.newInputNamed(fmt.Sprintf("%s[%d]", base, i), 8)
	}
	return out
}

func (p *PathState) newInputNamed(full string, w int) *Term {
	if p.fixed != nil {
		return p.C.Const(w, p.fixed[full])
	}
	t := p.C.Var(full, w)
	p.inputs = append(p.inputs, t)
	return t
}

func (ex *Exec) bytesOf(v value) []*Term {
	switch v := v.(type) {
	case []value:
		out := make([]*Term, len(v))
		for i, b := range v {
			out[i] = b.(*Term)
		}
		return out
	case string, symstr:
		return ex.toSymstr(v)
	}
	panic(engineErr("bytesOf %T", v))
}

// harnessIntrinsic implements the bodiless zzsym* functions declared in harness packages.
func (ex *Exec) harnessIntrinsic(caller *frame, fn *ssa.Function, args []value) value {
	c := ex.C
	switch fn.Name() {
	case "zzsymU8":
		return ex.newInputNamed(ex.freshName(argStr(args[0])), 8)
	case "zzsymU16":
		return ex.newInputNamed(ex.freshName(argStr(args[0])), 16)
	case "zzsymU32":
		return ex.newInputNamed(ex.freshName(argStr(args[0])), 32)
	case "zzsymU64", "zzsymInt", "zzsymI64":
		return ex.newInputNamed(ex.freshName(argStr(args[0])), 64)
	case "zzsymBool":
		return ex.newInputNamed(ex.freshName(argStr(args[0])), 0)
	case "zzsymBytes":
		n := ex.concInt(args[1], "zzsymBytes length")
		if n < 0 || n > 1<<16 {
			panic(engineErr("zzsymBytes: bad length %d", n))
		}
		return ex.symBytes(argStr(args[0]), int(n))
	case "zzsymString":
		n := ex.concInt(args[1], "zzsymString length")
		bs := ex.symBytes(argStr(args[0]), int(n))
		s := make(symstr, len(bs))
		for i := range bs {
			s[i] = bs[i].(*Term)
		}
		return normStr(s)
	case "zzsymAssume":
		ex.Assume(args[0].(*Term))
		return nil
	case "zzsymAssert":
		pos, _ := ex.curPos()
		ex.Obligation(args[0].(*Term), "assert", argStr(args[1]), pos)
		return nil
	case "zzsymFail":
		pos, _ := ex.curPos()
		ex.Obligation(c.Bool(false), "assert", argStr(args[0]), pos)
		return nil
	case "zzsymCover":
		ex.stats.Covers[argStr(args[0])]++
		return nil
	case "zzsymChoice":
		n := ex.concInt(args[1], "zzsymChoice n")
		name := argStr(args[0])
		if ex.fixed != nil {
			return c.Const(64, ex.fixed[ex.freshName(name)])
		}
		return c.Const(64, uint64(ex.ChooseConcrete(name, int(n))))
	case "zzsymParam":
		name := argStr(args[0])
		v, ok := ex.P.Params[name]
		if !ok {
			panic(engineErr("zzsymParam: unknown parameter %q", name))
		}
		return c.Const(64, uint64(v))
	case "zzsymAnd":
		return c.And(args[0].(*Term), args[1].(*Term))
	case "zzsymOr":
		return c.Or(args[0].(*Term), args[1].(*Term))
	case "zzsymNot":
		return c.Not(args[0].(*Term))
	case "zzsymImplies":
		return c.Implies(args[0].(*Term), args[1].(*Term))
	case "zzsymEqBytes":
		a, b := ex.bytesOf(args[0]), ex.bytesOf(args[1])
		return ex.strEq(a, b)
	case "zzsymEqStr":
		return ex.equalsTerm(args[0], args[1])
	case "zzsymIteU64", "zzsymIteInt", "zzsymIteU8", "zzsymIteU16", "zzsymIteU32":
		return c.Ite(args[0].(*Term), args[1].(*Term), args[2].(*Term))
	case "zzsymIsConcrete":
		t := args[0].(*Term)
		return c.Bool(t.IsConst())
	case "zzsymConcretize":
		return c.Const(64, ex.Concretize(args[0].(*Term), "zzsymConcretize"))
	case "zzsymUF":
		// zzsymUF(name string, outLen int, args ...[]byte) []byte
		name := argStr(args[0])
		outLen := int(ex.concInt(args[1], "zzsymUF outLen"))
		var parts []*Term
		sig := ""
		for _, a := range args[2].([]value) {
			bs := ex.bytesOf(a)
			sig += fmt.Sprintf("_%d", len(bs))
			parts = append(parts, bs...)
		}
		uname := name + sig
		if ex.fixed != nil {
			panic(engineErr("zzsymUF in concrete mode"))
		}
		var res *Term
		if len(parts) == 0 {
			res = c.UF(uname, outLen*8)
		} else {
			// concat all argument bytes into one wide vector
			arg := parts[0]
			for _, p := range parts[1:] {
				arg = c.Concat(arg, p)
			}
			res = c.UF(uname, outLen*8, arg)
		}
		out := make([]value, outLen)
		for i := 0; i < outLen; i++ {
			hi := (outLen-i)*8 - 1
			out[i] = c.Extract(res, hi, hi-7)
		}
		return out
	case "zzsymObserveBytes":
		bs := ex.bytesOf(args[1])
		var sb strings.Builder
		sb.WriteString(argStr(args[0]) + "=")
		for _, b := range bs {
			if b.IsConst() {
				fmt.Fprintf(&sb, "%02x", b.V)
			} else {
				sb.WriteString("??")
			}
		}
		ex.observes = append(ex.observes, sb.String())
		return nil
	case "zzsymObserveInt":
		t := args[1].(*Term)
		if t.IsConst() {
			ex.observes = append(ex.observes, fmt.Sprintf("%s=%d", argStr(args[0]), t.SignedVal()))
		} else {
			ex.observes = append(ex.observes, fmt.Sprintf("%s=?", argStr(args[0])))
		}
		return nil
	case "zzsymObserveBool":
		t := args[1].(*Term)
		if t.IsConst() {
			ex.observes = append(ex.observes, fmt.Sprintf("%s=%v", argStr(args[0]), t.IsTrue()))
		} else {
			ex.observes = append(ex.observes, fmt.Sprintf("%s=?", argStr(args[0])))
		}
		return nil
	case "zzsymSymbolic":
		return c.Bool(ex.fixed == nil)
	}
	panic(engineErr("unknown harness intrinsic %s", fn.Name()))
}

// RuntimeDecls is the source of the bodiless declarations injected into each harness package.
const RuntimeDecls = `
func zzsymU8(name string) uint8
func zzsymU16(name string) uint16
func zzsymU32(name string) uint32
func zzsymU64(name string) uint64
func zzsymI64(name string) int64
func zzsymInt(name string) int
func zzsymBool(name string) bool
func zzsymBytes(name string, n int) []byte
func zzsymString(name string, n int) string
func zzsymAssume(c bool)
func zzsymAssert(c bool, label string)
func zzsymFail(label string)
func zzsymCover(label string)
func zzsymChoice(name string, n int) int
func zzsymParam(name string) int
func zzsymAnd(a, b bool) bool
func zzsymOr(a, b bool) bool
func zzsymNot(a bool) bool
func zzsymImplies(a, b bool) bool
func zzsymEqBytes(a, b []byte) bool
func zzsymEqStr(a, b string) bool
func zzsymIteU64(c bool, a, b uint64) uint64
func zzsymIteInt(c bool, a, b int) int
func zzsymIteU8(c bool, a, b uint8) uint8
func zzsymIteU16(c bool, a, b uint16) uint16
func zzsymIteU32(c bool, a, b uint32) uint32
func zzsymUF(name string, outLen int, args ...[]byte) []byte
func zzsymObserveBytes(label string, b []byte)
func zzsymObserveInt(label string, v int)
func zzsymObserveBool(label string, v bool)
func zzsymSymbolic() bool
`
