package sym

import (
	"fmt"
	"sort"
	"strings"
)

// Decision records one nondeterministic choice on a path.
type Decision struct {
	Kind   byte     // 'b' branch among alternatives, 'v' concretised value, 'c' concrete choice
	N      int      // 'b','c': chosen alternative
	Val    uint64   // 'v': chosen value
	Excl   []uint64 // 'v': values excluded before choosing Val
	Open   bool     // 'v': Val not chosen yet (work item continues the enumeration)
	Forced bool
}

func (d Decision) String() string {
	switch d.Kind {
	case 'v':
		return fmt.Sprintf("v=%d", d.Val)
	case 'c':
		return fmt.Sprintf("c%d", d.N)
	}
	if d.Forced {
		return fmt.Sprintf("f%d", d.N)
	}
	return fmt.Sprintf("b%d", d.N)
}

// pathAbort ends the current path (never visible to the interpreted program).
type pathAbort struct {
	reason string // "assume", "dead", "blocked", "limit:<what>", "stop"
	detail string
}

// engineError is an internal limitation or bug: the harness result becomes inconclusive.
type engineError struct{ msg string }

func engineErr(format string, a ...any) engineError {
	return engineError{fmt.Sprintf(format, a...)}
}

// Violation is a failed obligation with a model.
type Violation struct {
	Label   string            `json:"label"`
	Kind    string            `json:"kind"` // "assert", "panic", "nontermination"
	Detail  string            `json:"detail"`
	Model   map[string]uint64 `json:"-"`
	Inputs  []InputVal        `json:"inputs"`
	Path    string            `json:"path"`
	Harness string            `json:"harness"`
}

// InputVal is one nondeterministic input in creation order.
type InputVal struct {
	Name string `json:"name"`
	W    int    `json:"w"`
	Val  uint64 `json:"val"`
}

// PathState is the solver-facing state of one path.
type PathState struct {
	C        *Ctx
	S        *Solver
	prefix   []Decision
	pos      int
	Trace    []Decision
	pc       []*Term
	pending  []*Term
	emitted  map[int]bool
	ufDone   map[string]bool
	inputs   []*Term // variables created via nondet intrinsics, in order
	choices  []InputVal
	nameCnt  map[string]int
	fork     func(prefix []Decision) // enqueue alternative
	lim      *Limits
	stats    *Stats
	lastSat  bool
	smtDump  func(kind, label string, text string)
	allDecls strings.Builder // everything sent since reset, for self-contained dumps
	fixed    map[string]uint64
	lastModel map[string]uint64 // assignment known to satisfy pc (nil if none)
	noModelOpt bool
	fallback  func(script string) Result // second solver for obligations the primary cannot decide
}

type Limits struct {
	MaxDecisions int
	MaxSteps     int64
	EnumCap      int
	MaxBlockHits int
}

type Stats struct {
	Paths          int
	Completed      int
	Aborted        map[string]int
	Decisions      int
	SymBranches    int
	Obligations    int
	Discharged     int
	TrivialOblig   int
	Unknown        int
	Fallback       int
	Queries        int
	Covers         map[string]int
	Funcs          map[string]int
	Steps          int64
	MaxDepth       int
	Inconclusive   []string
	EngineErrors   []string
	Violations     []*Violation
	SamplePaths    []string
	SampleWitness  []map[string]uint64
	Observations   []string
	AssertLabels   map[string]int
	PanicSites     map[string]int
	SolverErrors   []string
}

func NewStats() *Stats {
	return &Stats{Aborted: map[string]int{}, Covers: map[string]int{}, Funcs: map[string]int{}, AssertLabels: map[string]int{}, PanicSites: map[string]int{}}
}

func (st *Stats) Merge(o *Stats) {
	st.Paths += o.Paths
	st.Completed += o.Completed
	for k, v := range o.Aborted {
		st.Aborted[k] += v
	}
	st.Decisions += o.Decisions
	st.SymBranches += o.SymBranches
	st.Obligations += o.Obligations
	st.Discharged += o.Discharged
	st.TrivialOblig += o.TrivialOblig
	st.Unknown += o.Unknown
	st.Fallback += o.Fallback
	st.Queries += o.Queries
	for k, v := range o.Covers {
		st.Covers[k] += v
	}
	for k, v := range o.Funcs {
		st.Funcs[k] += v
	}
	for k, v := range o.AssertLabels {
		st.AssertLabels[k] += v
	}
	for k, v := range o.PanicSites {
		st.PanicSites[k] += v
	}
	st.Steps += o.Steps
	if o.MaxDepth > st.MaxDepth {
		st.MaxDepth = o.MaxDepth
	}
	st.Inconclusive = append(st.Inconclusive, o.Inconclusive...)
	st.EngineErrors = append(st.EngineErrors, o.EngineErrors...)
	st.Violations = append(st.Violations, o.Violations...)
	st.SolverErrors = append(st.SolverErrors, o.SolverErrors...)
	for i, s := range o.SamplePaths {
		if len(st.SamplePaths) < 8 {
			st.SamplePaths = append(st.SamplePaths, s)
			if i < len(o.SampleWitness) {
				st.SampleWitness = append(st.SampleWitness, o.SampleWitness[i])
			} else {
				st.SampleWitness = append(st.SampleWitness, nil)
			}
		}
	}
	for _, s := range o.Observations {
		if len(st.Observations) < 64 {
			st.Observations = append(st.Observations, s)
		}
	}
}

func (p *PathState) flush() {
	if len(p.pending) == 0 {
		return
	}
	var b strings.Builder
	for _, t := range p.pending {
		Emit(t, p.emitted, &b, func(u *Term) {
			if !p.ufDone[u.Name] {
				p.ufDone[u.Name] = true
				b.WriteString(ufDecl(u))
			}
		})
		fmt.Fprintf(&b, "(assert %s)\n", t.ref())
	}
	p.pending = p.pending[:0]
	p.S.Send(b.String())
	p.allDecls.WriteString(b.String())
}

// addPC adds a constraint to the path condition.
func (p *PathState) addPC(t *Term) {
	if t.IsTrue() {
		return
	}
	p.pc = append(p.pc, t)
	p.pending = append(p.pending, t)
	if p.lastModel != nil {
		if v, ok := Eval(t, p.lastModel, map[int]uint64{}); !ok || v == 0 {
			p.lastModel = nil
		}
	}
}

// fetchModel obtains an assignment satisfying the current path condition.
func (p *PathState) fetchModel() bool {
	r := p.query(p.C.Bool(true))
	if r != Sat {
		p.endQuery()
		return false
	}
	_, asg := p.model()
	p.endQuery()
	p.lastModel = asg
	return true
}

// evalUnderModel evaluates a Bool term under the last model, if there is one.
func (p *PathState) evalUnderModel(c *Term) (bool, bool) {
	if p.lastModel == nil {
		return false, false
	}
	v, ok := Eval(c, p.lastModel, map[int]uint64{})
	return v != 0, ok
}


// query checks satisfiability of pc ∧ extra.
func (p *PathState) query(extra *Term) Result {
	if extra.IsFalse() {
		return Unsat
	}
	p.flush()
	var b strings.Builder
	Emit(extra, p.emitted, &b, func(u *Term) {
		if !p.ufDone[u.Name] {
			p.ufDone[u.Name] = true
			b.WriteString(ufDecl(u))
		}
	})
	p.allDecls.WriteString(b.String())
	b.WriteString("(push 1)\n")
	fmt.Fprintf(&b, "(assert %s)\n", extra.ref())
	p.S.Send(b.String())
	r := p.S.Check()
	p.stats.Queries++
	p.lastSat = r == Sat
	if r != Sat {
		p.S.Send("(pop 1)\n")
	}
	return r
}

// endQuery pops the scope left open by a Sat query (so that a model can be read first).
func (p *PathState) endQuery() {
	if p.lastSat {
		p.S.Send("(pop 1)\n")
		p.lastSat = false
	}
}

func (p *PathState) replaying() bool { return p.pos < len(p.prefix) }

func (p *PathState) record(d Decision) {
	p.Trace = append(p.Trace, d)
	p.pos++
	p.stats.Decisions++
	if len(p.Trace) > p.lim.MaxDecisions {
		panic(pathAbort{reason: "limit:decisions", detail: fmt.Sprint(len(p.Trace))})
	}
}

func (p *PathState) prefixWith(d Decision) []Decision {
	out := make([]Decision, len(p.Trace)+1)
	copy(out, p.Trace)
	out[len(p.Trace)] = d
	return out
}

// Choose picks one of several symbolic alternatives (which must be exhaustive under pc);
// every feasible alternative is eventually explored.
func (p *PathState) Choose(alts []*Term) int {
	// concrete resolution
	nTrue := -1
	allConst := true
	for i, a := range alts {
		if !a.IsConst() {
			allConst = false
		} else if a.IsTrue() && nTrue < 0 {
			nTrue = i
		}
	}
	if allConst {
		if nTrue < 0 {
			panic(pathAbort{reason: "dead", detail: "no alternative"})
		}
		return nTrue
	}
	if p.replaying() {
		d := p.prefix[p.pos]
		if d.Kind != 'b' || d.N >= len(alts) {
			panic(engineErr("replay divergence: expected branch decision, have %v (alts=%d)", d, len(alts)))
		}
		p.addPC(alts[d.N])
		p.record(d)
		return d.N
	}
	p.stats.SymBranches++
	if len(alts) == 2 && !p.noModelOpt && p.S != nil {
		if p.lastModel == nil {
			p.fetchModel()
		}
		if p.lastModel != nil {
			if v0, ok := p.evalUnderModel(alts[0]); ok {
				side := 1
				if v0 {
					side = 0
				}
				if v1, ok1 := p.evalUnderModel(alts[side]); ok1 && v1 {
					other := 1 - side
					forced := true
					if !alts[other].IsFalse() {
						r := p.query(alts[other])
						p.endQuery()
						if r != Unsat {
							forced = false
							p.fork(p.prefixWith(Decision{Kind: 'b', N: other}))
						}
					}
					p.addPC(alts[side])
					p.record(Decision{Kind: 'b', N: side, Forced: forced})
					return side
				}
			}
		}
	}
	var feas []int
	for i, a := range alts {
		if a.IsFalse() {
			continue
		}
		if i == len(alts)-1 && len(feas) == 0 {
			// pc is satisfiable and alternatives are exhaustive: the last one must hold
			feas = append(feas, i)
			break
		}
		r := p.query(a)
		p.endQuery()
		if r != Unsat {
			feas = append(feas, i)
		}
	}
	if len(feas) == 0 {
		panic(pathAbort{reason: "dead", detail: "no feasible alternative"})
	}
	for _, i := range feas[1:] {
		p.fork(p.prefixWith(Decision{Kind: 'b', N: i}))
	}
	p.addPC(alts[feas[0]])
	p.record(Decision{Kind: 'b', N: feas[0], Forced: len(feas) == 1})
	return feas[0]
}

// Branch is Choose over {cond, !cond}; returns true if cond is taken.
func (p *PathState) Branch(cond *Term) bool {
	if cond.IsConst() {
		return cond.IsTrue()
	}
	return p.Choose([]*Term{cond, p.C.Not(cond)}) == 0
}

// ChooseConcrete forks n ways without consulting the solver.
func (p *PathState) ChooseConcrete(name string, n int) int {
	if n <= 0 {
		panic(pathAbort{reason: "dead", detail: "empty choice"})
	}
	var k int
	if p.replaying() {
		d := p.prefix[p.pos]
		if d.Kind != 'c' || d.N >= n {
			panic(engineErr("replay divergence: expected concrete choice, have %v", d))
		}
		p.record(d)
		k = d.N
	} else {
		for i := 1; i < n; i++ {
			p.fork(p.prefixWith(Decision{Kind: 'c', N: i}))
		}
		p.record(Decision{Kind: 'c', N: 0})
	}
	p.choices = append(p.choices, InputVal{Name: p.freshName(name), W: -1, Val: uint64(k)})
	return k
}

// Concretize returns a concrete value for t, exploring every feasible value. Each explored value is
// known to be feasible when its work item is created (no dead enumeration paths).
func (p *PathState) Concretize(t *Term, what string) uint64 {
	if t.IsConst() {
		return t.V
	}
	if p.replaying() {
		d := p.prefix[p.pos]
		if d.Kind != 'v' {
			panic(engineErr("replay divergence: expected value decision, have %v", d))
		}
		if d.Open {
			// this work item continues an enumeration: look for the next sibling first
			p.findSibling(t, append(append([]uint64{}, d.Excl...), d.Val), what)
			d.Open = false
		}
		p.addPC(p.C.Eq(t, p.C.Const(t.W, d.Val)))
		p.record(d)
		return d.Val
	}
	p.flush()
	p.emitDefs(t)
	r := p.query(p.C.Bool(true))
	if r == Unsat {
		p.endQuery()
		panic(pathAbort{reason: "dead", detail: "path condition unsatisfiable at concretize " + what})
	}
	if r == Unknown {
		p.endQuery()
		panic(pathAbort{reason: "limit:unknown", detail: "concretize " + what})
	}
	vals, err := p.S.GetValues([]string{t.ref()})
	p.endQuery()
	if err != nil {
		panic(engineErr("concretize: %v", err))
	}
	v := vals[t.ref()]
	p.findSibling(t, []uint64{v}, what)
	p.addPC(p.C.Eq(t, p.C.Const(t.W, v)))
	p.record(Decision{Kind: 'v', Val: v})
	return v
}

func (p *PathState) emitDefs(t *Term) {
	var b strings.Builder
	Emit(t, p.emitted, &b, func(u *Term) {
		if !p.ufDone[u.Name] {
			p.ufDone[u.Name] = true
			b.WriteString(ufDecl(u))
		}
	})
	if b.Len() > 0 {
		p.S.Send(b.String())
		p.allDecls.WriteString(b.String())
	}
}

// findSibling forks a work item for one more feasible value of t outside excl, if there is one.
func (p *PathState) findSibling(t *Term, excl []uint64, what string) {
	if len(excl) >= p.lim.EnumCap {
		p.stats.Inconclusive = append(p.stats.Inconclusive, fmt.Sprintf("limit:enum (%s): more than %d values", what, p.lim.EnumCap))
		return
	}
	p.flush()
	p.emitDefs(t)
	c := p.C.Bool(true)
	for _, e := range excl {
		c = p.C.And(c, p.C.Not(p.C.Eq(t, p.C.Const(t.W, e))))
	}
	r := p.query(c)
	switch r {
	case Unsat:
		p.endQuery()
	case Unknown:
		p.endQuery()
		p.stats.Inconclusive = append(p.stats.Inconclusive, "solver unknown while enumerating "+what)
	case Sat:
		vals, err := p.S.GetValues([]string{t.ref()})
		p.endQuery()
		if err != nil {
			panic(engineErr("concretize: %v", err))
		}
		p.fork(p.prefixWith(Decision{Kind: 'v', Val: vals[t.ref()], Excl: excl, Open: true}))
	}
}

func (p *PathState) freshName(name string) string {
	n := p.nameCnt[name]
	p.nameCnt[name] = n + 1
	if n == 0 {
		return name
	}
	return fmt.Sprintf("%s#%d", name, n)
}

// NewInput creates a fresh symbolic input.
func (p *PathState) NewInput(name string, w int) *Term {
	return p.newInputNamed(p.freshName(name), w)
}

// Assume restricts the path.
func (p *PathState) Assume(c *Term) {
	if c.IsTrue() {
		return
	}
	if c.IsFalse() {
		panic(pathAbort{reason: "assume"})
	}
	if p.replaying() {
		p.addPC(c)
		return
	}
	if v, ok := p.evalUnderModel(c); ok && v {
		p.addPC(c)
		return
	}
	r := p.query(c)
	p.endQuery()
	if r == Unsat {
		panic(pathAbort{reason: "assume"})
	}
	p.addPC(c)
}

// model reads the current model for all inputs; must be called while a Sat query scope is open.
func (p *PathState) model() ([]InputVal, map[string]uint64) {
	var refs []string
	for _, v := range p.inputs {
		if !p.emitted[v.id] {
			continue // never sent to the solver: unconstrained
		}
		refs = append(refs, v.ref())
	}
	vals := map[string]uint64{}
	if len(refs) > 0 {
		m, err := p.S.GetValues(refs)
		if err == nil {
			vals = m
		}
	}
	asg := map[string]uint64{}
	var out []InputVal
	for _, v := range p.inputs {
		val := vals[v.ref()]
		asg[v.Name] = val
		out = append(out, InputVal{Name: v.Name, W: v.W, Val: val})
	}
	out = append(out, p.choices...)
	return out, asg
}

func (p *PathState) traceString() string {
	var parts []string
	for _, d := range p.Trace {
		parts = append(parts, d.String())
	}
	return strings.Join(parts, " ")
}

// Obligation checks that c holds on every input reaching this point. Returns true if the path may
// continue (with c assumed).
func (p *PathState) Obligation(c *Term, kind, label, detail string) {
	p.stats.Obligations++
	p.stats.AssertLabels[label]++
	if c.IsTrue() {
		p.stats.Discharged++
		p.stats.TrivialOblig++
		return
	}
	if p.S == nil {
		if !c.IsConst() {
			panic(engineErr("symbolic obligation %s in concrete mode", label))
		}
		p.stats.Violations = append(p.stats.Violations, &Violation{Label: label, Kind: kind, Detail: detail, Path: p.traceString()})
		return
	}
	neg := p.C.Not(c)
	r := p.query(neg)
	switch r {
	case Unsat:
		p.stats.Discharged++
		if p.smtDump != nil {
			p.smtDump("unsat", label, p.selfContained(neg))
		}
		p.addPC(c) // harmless, helps the solver
		return
	case Unknown:
		p.endQuery()
		if p.fallback != nil {
			if fr := p.fallback(p.selfContained(neg)); fr == Unsat {
				p.stats.Discharged++
				p.stats.Fallback++
				p.addPC(c)
				return
			}
		}
		p.stats.Unknown++
		p.stats.Inconclusive = append(p.stats.Inconclusive, fmt.Sprintf("solver unknown on obligation %s (%s)", label, detail))
		if p.smtDump != nil {
			p.smtDump("unknown", label, p.selfContained(neg))
		}
		p.addPC(c)
		return
	}
	inputs, asg := p.model()
	p.endQuery()
	v := &Violation{Label: label, Kind: kind, Detail: detail, Model: asg, Inputs: inputs, Path: p.traceString()}
	p.stats.Violations = append(p.stats.Violations, v)
	// continue on the side where the obligation holds, if any
	if c.IsFalse() {
		panic(pathAbort{reason: "stop", detail: "violation " + label})
	}
	rr := p.query(c)
	p.endQuery()
	if rr == Unsat {
		panic(pathAbort{reason: "stop", detail: "violation " + label})
	}
	p.addPC(c)
}

// selfContained renders declarations + pc + the extra assertion as a standalone script.
func (p *PathState) selfContained(extra *Term) string {
	var b strings.Builder
	em := map[int]bool{}
	ufd := map[string]bool{}
	decl := func(u *Term) {
		if !ufd[u.Name] {
			ufd[u.Name] = true
			b.WriteString(ufDecl(u))
		}
	}
	for _, t := range p.pc {
		Emit(t, em, &b, decl)
		fmt.Fprintf(&b, "(assert %s)\n", t.ref())
	}
	Emit(extra, em, &b, decl)
	fmt.Fprintf(&b, "(assert %s)\n(check-sat)\n", extra.ref())
	return b.String()
}

func sortedKeys(m map[string]int) []string {
	var ks []string
	for k := range m {
		ks = append(ks, k)
	}
	sort.Strings(ks)
	return ks
}
