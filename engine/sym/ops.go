package sym

import (
	"fmt"
	"go/constant"
	"go/token"
	"go/types"
	"math"
	"unicode/utf8"

	"golang.org/x/tools/go/ssa"
)

func constBool(c *ssa.Const) bool     { return constant.BoolVal(c.Value) }
func constString(c *ssa.Const) string {
	if c.Value.Kind() == constant.String {
		return constant.StringVal(c.Value)
	}
	// string(rune) constant conversions
	return string(rune(c.Int64()))
}

func (ex *Exec) unop(fr *frame, instr *ssa.UnOp, x value) value {
	c := ex.C
	switch instr.Op {
	case token.ARROW:
		return ex.chanRecv(x.(*channel), instr.CommaOk, instr.X.Type().Underlying().(*types.Chan).Elem())
	case token.MUL: // load
		p := x.(*value)
		if p == nil {
			ex.rtPanic("invalid memory address or nil pointer dereference")
		}
		return copyVal(*p)
	case token.SUB:
		switch x := x.(type) {
		case *Term:
			return c.BvNeg(x)
		case float64:
			return -x
		case float32:
			return -x
		case complex128:
			return -x
		}
	case token.NOT:
		return c.Not(x.(*Term))
	case token.XOR:
		return c.BvNot(x.(*Term))
	}
	panic(engineErr("invalid unary op %s %T", instr.Op, x))
}

func (ex *Exec) binop(op token.Token, tx, ty types.Type, x, y value) value {
	c := ex.C
	switch xv := x.(type) {
	case *Term:
		yv, ok := y.(*Term)
		if !ok {
			panic(engineErr("binop %s: %T vs %T", op, x, y))
		}
		if xv.W == 0 {
			switch op {
			case token.EQL:
				return c.Eq(xv, yv)
			case token.NEQ:
				return c.Not(c.Eq(xv, yv))
			case token.AND, token.LAND:
				return c.And(xv, yv)
			case token.OR, token.LOR:
				return c.Or(xv, yv)
			}
			panic(engineErr("bool binop %s", op))
		}
		_, signed := intWidth(tx)
		switch op {
		case token.ADD:
			return c.Bin(OpAdd, xv, yv)
		case token.SUB:
			return c.Bin(OpSub, xv, yv)
		case token.MUL:
			return c.Bin(OpMul, xv, yv)
		case token.QUO, token.REM:
			if yv.IsConst() {
				if yv.V == 0 {
					ex.rtPanic("integer divide by zero")
				}
			} else if !ex.Branch(c.Not(c.Eq(yv, c.Const(yv.W, 0)))) {
				ex.rtPanic("integer divide by zero")
			}
			switch {
			case op == token.QUO && signed:
				return c.Bin(OpSDiv, xv, yv)
			case op == token.QUO:
				return c.Bin(OpUDiv, xv, yv)
			case signed:
				return c.Bin(OpSRem, xv, yv)
			default:
				return c.Bin(OpURem, xv, yv)
			}
		case token.AND:
			return c.Bin(OpBvAnd, xv, yv)
		case token.OR:
			return c.Bin(OpBvOr, xv, yv)
		case token.XOR:
			return c.Bin(OpBvXor, xv, yv)
		case token.AND_NOT:
			return c.Bin(OpBvAnd, xv, c.BvNot(yv))
		case token.SHL, token.SHR:
			_, ysigned := intWidth(ty)
			if ysigned {
				neg := c.Cmp(OpSlt, yv, c.Const(yv.W, 0))
				if ex.Branch(neg) {
					ex.rtPanic("negative shift amount")
				}
			}
			// bring y to x's width, saturating
			var amt *Term
			switch {
			case yv.W == xv.W:
				amt = yv
			case yv.W < xv.W:
				amt = c.Zext(yv, xv.W)
			default:
				big := c.Cmp(OpUle, c.Const(yv.W, uint64(xv.W)), yv)
				amt = c.Ite(big, c.Const(xv.W, uint64(xv.W)), c.Extract(yv, xv.W-1, 0))
			}
			if op == token.SHL {
				return c.Bin(OpShl, xv, amt)
			}
			if signed {
				return c.Bin(OpAShr, xv, amt)
			}
			return c.Bin(OpLShr, xv, amt)
		case token.EQL:
			return c.Eq(xv, yv)
		case token.NEQ:
			return c.Not(c.Eq(xv, yv))
		case token.LSS:
			if signed {
				return c.Cmp(OpSlt, xv, yv)
			}
			return c.Cmp(OpUlt, xv, yv)
		case token.LEQ:
			if signed {
				return c.Cmp(OpSle, xv, yv)
			}
			return c.Cmp(OpUle, xv, yv)
		case token.GTR:
			if signed {
				return c.Cmp(OpSlt, yv, xv)
			}
			return c.Cmp(OpUlt, yv, xv)
		case token.GEQ:
			if signed {
				return c.Cmp(OpSle, yv, xv)
			}
			return c.Cmp(OpUle, yv, xv)
		}
	case float64:
		yv := y.(float64)
		switch op {
		case token.ADD:
			return xv + yv
		case token.SUB:
			return xv - yv
		case token.MUL:
			return xv * yv
		case token.QUO:
			return xv / yv
		case token.EQL:
			return c.Bool(xv == yv)
		case token.NEQ:
			return c.Bool(xv != yv)
		case token.LSS:
			return c.Bool(xv < yv)
		case token.LEQ:
			return c.Bool(xv <= yv)
		case token.GTR:
			return c.Bool(xv > yv)
		case token.GEQ:
			return c.Bool(xv >= yv)
		}
	case float32:
		yv := y.(float32)
		switch op {
		case token.ADD:
			return xv + yv
		case token.SUB:
			return xv - yv
		case token.MUL:
			return xv * yv
		case token.QUO:
			return xv / yv
		case token.EQL:
			return c.Bool(xv == yv)
		case token.NEQ:
			return c.Bool(xv != yv)
		case token.LSS:
			return c.Bool(xv < yv)
		case token.LEQ:
			return c.Bool(xv <= yv)
		case token.GTR:
			return c.Bool(xv > yv)
		case token.GEQ:
			return c.Bool(xv >= yv)
		}
	case string, symstr:
		switch op {
		case token.ADD:
			if xs, ok := x.(string); ok {
				if ys, ok := y.(string); ok {
					return xs + ys
				}
			}
			return normStr(append(append(symstr{}, ex.toSymstr(x)...), ex.toSymstr(y)...))
		case token.EQL:
			return ex.equalsTerm(x, y)
		case token.NEQ:
			return c.Not(ex.equalsTerm(x, y))
		case token.LSS, token.LEQ, token.GTR, token.GEQ:
			xs, ok1 := x.(string)
			ys, ok2 := y.(string)
			if ok1 && ok2 {
				switch op {
				case token.LSS:
					return c.Bool(xs < ys)
				case token.LEQ:
					return c.Bool(xs <= ys)
				case token.GTR:
					return c.Bool(xs > ys)
				default:
					return c.Bool(xs >= ys)
				}
			}
			lt, eq := ex.strCompare(ex.toSymstr(x), ex.toSymstr(y))
			switch op {
			case token.LSS:
				return lt
			case token.LEQ:
				return c.Or(lt, eq)
			case token.GTR:
				return c.Not(c.Or(lt, eq))
			default:
				return c.Not(lt)
			}
		}
	}
	switch op {
	case token.EQL:
		return ex.eqOrNil(x, y)
	case token.NEQ:
		return c.Not(ex.eqOrNil(x, y))
	}
	panic(engineErr("invalid binary op: %T %s %T", x, op, y))
}

func (ex *Exec) eqOrNil(x, y value) *Term {
	return ex.equalsTerm(x, y)
}

// strCompare returns (a<b, a==b) lexicographically.
func (ex *Exec) strCompare(a, b symstr) (lt, eq *Term) {
	c := ex.C
	n := len(a)
	if len(b) < n {
		n = len(b)
	}
	// process from the end
	lt = c.Bool(len(a) < len(b))
	eq = c.Bool(len(a) == len(b))
	for i := n - 1; i >= 0; i-- {
		bl := c.Cmp(OpUlt, a[i], b[i])
		be := c.Eq(a[i], b[i])
		lt = c.Or(bl, c.And(be, lt))
		eq = c.And(be, eq)
	}
	return
}

func (ex *Exec) conv(tDst, tSrc types.Type, x value) value {
	c := ex.C
	utSrc := tSrc.Underlying()
	utDst := tDst.Underlying()

	switch ut := utSrc.(type) {
	case *types.Pointer, *types.Signature:
		return x // to unsafe.Pointer or between pointer types
	case *types.Slice:
		// []byte / []rune -> string ; slice -> array handled elsewhere
		if _, ok := utDst.(*types.Slice); ok {
			return x
		}
		if db, ok := utDst.(*types.Basic); ok && db.Info()&types.IsString != 0 {
			xs := x.([]value)
			eb := ut.Elem().Underlying().(*types.Basic)
			if eb.Kind() == types.Uint8 {
				s := make(symstr, len(xs))
				for i, b := range xs {
					s[i] = b.(*Term)
				}
				return normStr(s)
			}
			// []rune
			var rs []rune
			for _, r := range xs {
				t := r.(*Term)
				if !t.IsConst() {
					panic(engineErr("string([]rune) with symbolic rune"))
				}
				rs = append(rs, rune(t.SignedVal()))
			}
			return string(rs)
		}
		if _, ok := utDst.(*types.Array); ok {
			return ex.sliceToArray(tDst, x)
		}
	case *types.Basic:
		if ut.Kind() == types.UnsafePointer {
			return x
		}
		if _, ok := utDst.(*types.Pointer); ok {
			return x
		}
		if ut.Info()&types.IsString != 0 {
			switch d := utDst.(type) {
			case *types.Slice:
				eb := d.Elem().Underlying().(*types.Basic)
				if eb.Kind() == types.Uint8 {
					ss := ex.toSymstr(x)
					out := make([]value, len(ss))
					for i, b := range ss {
						out[i] = b
					}
					return out
				}
				s, ok := x.(string)
				if !ok {
					panic(engineErr("[]rune(symbolic string)"))
				}
				var out []value
				for _, r := range s {
					out = append(out, c.Const(32, uint64(r)))
				}
				return out
			case *types.Basic:
				if d.Info()&types.IsString != 0 {
					return x
				}
			}
		}
		db, ok := utDst.(*types.Basic)
		if !ok {
			break
		}
		if db.Kind() == types.UnsafePointer {
			return x
		}
		switch {
		case ut.Info()&types.IsInteger != 0:
			xt := x.(*Term)
			_, ssigned := intWidth(ut)
			switch {
			case db.Info()&types.IsInteger != 0:
				dw, _ := intWidth(db)
				if dw <= xt.W {
					return c.Extract(xt, dw-1, 0)
				}
				if ssigned {
					return c.Sext(xt, dw)
				}
				return c.Zext(xt, dw)
			case db.Info()&types.IsFloat != 0:
				if !xt.IsConst() {
					panic(engineErr("float conversion of symbolic integer"))
				}
				var f float64
				if ssigned {
					f = float64(xt.SignedVal())
				} else {
					f = float64(xt.V)
				}
				if db.Kind() == types.Float32 {
					return float32(f)
				}
				return f
			case db.Info()&types.IsString != 0:
				if !xt.IsConst() {
					panic(engineErr("string(symbolic rune)"))
				}
				return string(rune(xt.SignedVal()))
			}
		case ut.Info()&types.IsFloat != 0:
			var f float64
			switch xv := x.(type) {
			case float64:
				f = xv
			case float32:
				f = float64(xv)
			}
			switch {
			case db.Info()&types.IsInteger != 0:
				dw, dsigned := intWidth(db)
				if dsigned {
					return c.Const(dw, uint64(int64(f)))
				}
				return c.Const(dw, uint64(f))
			case db.Kind() == types.Float32:
				return float32(f)
			case db.Kind() == types.Float64:
				return f
			}
		case ut.Info()&types.IsBoolean != 0:
			return x
		case ut.Info()&types.IsComplex != 0:
			return x
		}
	}
	panic(engineErr("unsupported conversion %s -> %s (%T)", tSrc, tDst, x))
}

func (ex *Exec) sliceToArrayPointer(tDst types.Type, x value) value {
	xs := x.([]value)
	at := deref(tDst).Underlying().(*types.Array)
	n := int(at.Len())
	if len(xs) < n {
		ex.rtPanic(fmt.Sprintf("cannot convert slice with length %d to array or pointer to array with length %d", len(xs), n))
	}
	if xs == nil {
		return (*value)(nil)
	}
	// NOTE: the array aliases the slice's cells only through this boxed copy; writes through the
	// array pointer are not reflected in the slice. Good enough for read-only uses.
	arr := make(array, n)
	copy(arr, xs[:n])
	var cell value = arr
	return &cell
}

func (ex *Exec) sliceToArray(tDst types.Type, x value) value {
	xs := x.([]value)
	at := tDst.Underlying().(*types.Array)
	n := int(at.Len())
	if len(xs) < n {
		ex.rtPanic(fmt.Sprintf("cannot convert slice with length %d to array or pointer to array with length %d", len(xs), n))
	}
	arr := make(array, n)
	for i := 0; i < n; i++ {
		arr[i] = copyVal(xs[i])
	}
	return arr
}

// bound resolves an optional slice bound to a concrete int, checking lo<=v<=hi with forks.
func (ex *Exec) sliceBounds(lo, hi, max value, ln, cp int, isString bool) (int, int, int) {
	c := ex.C
	get := func(v value, def int) *Term {
		if v == nil {
			return c.Const(64, uint64(def))
		}
		t := v.(*Term)
		if t.W != 64 {
			t = c.Sext(t, 64)
		}
		return t
	}
	l := get(lo, 0)
	limit := cp
	if isString {
		limit = ln
	}
	h := get(hi, ln)
	m := get(max, limit)
	// checks: 0 <= l <= h <= m <= limit (unsigned comparisons catch negatives)
	ok := c.And(c.Cmp(OpUle, l, h), c.And(c.Cmp(OpUle, h, m), c.Cmp(OpUle, m, c.Const(64, uint64(limit)))))
	if !ex.Branch(ok) {
		ex.rtPanic(fmt.Sprintf("slice bounds out of range [%s:%s:%s] with capacity %d", tstr(l), tstr(h), tstr(m), limit))
	}
	li := int(ex.Concretize(l, "slice low"))
	hiI := int(ex.Concretize(h, "slice high"))
	mi := int(ex.Concretize(m, "slice max"))
	return li, hiI, mi
}

func tstr(t *Term) string {
	if t.IsConst() {
		return fmt.Sprint(t.SignedVal())
	}
	return "sym"
}

func (ex *Exec) slice(instr *ssa.Slice, x, lo, hi, max value) value {
	switch x := x.(type) {
	case string:
		l, h, _ := ex.sliceBounds(lo, hi, nil, len(x), len(x), true)
		return x[l:h]
	case symstr:
		l, h, _ := ex.sliceBounds(lo, hi, nil, len(x), len(x), true)
		return normStr(x[l:h:h])
	case []value:
		l, h, m := ex.sliceBounds(lo, hi, max, len(x), cap(x), false)
		if x == nil {
			return x
		}
		return x[l:h:m]
	case *value: // *array
		if x == nil {
			ex.rtPanic("invalid memory address or nil pointer dereference")
		}
		a := (*x).(array)
		l, h, m := ex.sliceBounds(lo, hi, max, len(a), len(a), false)
		return []value(a)[l:h:m]
	}
	panic(engineErr("slice: unexpected X type: %T", x))
}

func (ex *Exec) callBuiltin(caller *frame, callpos token.Pos, fn *ssa.Builtin, args []value) value {
	c := ex.C
	switch fn.Name() {
	case "append":
		if len(args) == 1 {
			return args[0]
		}
		dst := args[0].([]value)
		var src []value
		switch s := args[1].(type) {
		case []value:
			src = s
		case string, symstr:
			for _, b := range ex.toSymstr(s) {
				src = append(src, b)
			}
		}
		if len(src) == 0 {
			return dst
		}
		n := len(dst)
		if n+len(src) <= cap(dst) {
			out := dst[:n+len(src)]
			tmp := make([]value, len(src))
			for i, v := range src {
				tmp[i] = copyVal(v)
			}
			for i := range tmp {
				storeInPlace(&out[n+i], tmp[i])
			}
			return out
		}
		newcap := cap(dst) * 2
		if newcap < n+len(src) {
			newcap = n + len(src)
		}
		out := make([]value, n+len(src), newcap)
		copy(out, dst)
		for i, v := range src {
			out[n+i] = copyVal(v)
		}
		// fill spare capacity with zero-ish placeholders lazily: cells beyond len must be valid values
		if newcap > len(out) {
			full := out[:newcap]
			var z value
			if len(out) > 0 {
				z = zeroLike(ex, out[0])
			}
			for i := len(out); i < newcap; i++ {
				full[i] = copyVal(z)
			}
		}
		return out

	case "copy":
		dst := args[0].([]value)
		var src []value
		switch s := args[1].(type) {
		case []value:
			src = s
		case string, symstr:
			for _, b := range ex.toSymstr(s) {
				src = append(src, b)
			}
		}
		n := len(dst)
		if len(src) < n {
			n = len(src)
		}
		// handle overlap like memmove
		tmp := make([]value, n)
		for i := 0; i < n; i++ {
			tmp[i] = copyVal(src[i])
		}
		for i := 0; i < n; i++ {
			storeInPlace(&dst[i], tmp[i])
		}
		return c.Const(64, uint64(n))

	case "close":
		ch := args[0].(*channel)
		if ch == nil {
			ex.rtPanic("close of nil channel")
		}
		if ch.closed {
			ex.rtPanic("close of closed channel")
		}
		ch.closed = true
		return nil

	case "delete":
		m := args[0].(*hmap)
		if m != nil {
			ex.mapDelete(m, args[1])
		}
		return nil

	case "clear":
		switch x := args[0].(type) {
		case *hmap:
			if x != nil {
				x.entries = nil
			}
		case []value:
			for i := range x {
				x[i] = zeroLike(ex, x[i])
			}
		}
		return nil

	case "print", "println":
		return nil

	case "len":
		switch x := args[0].(type) {
		case string:
			return c.Const(64, uint64(len(x)))
		case symstr:
			return c.Const(64, uint64(len(x)))
		case array:
			return c.Const(64, uint64(len(x)))
		case *value:
			if x == nil {
				// len of nil *array is the array length; unreachable in practice
				return c.Const(64, 0)
			}
			return c.Const(64, uint64(len((*x).(array))))
		case []value:
			return c.Const(64, uint64(len(x)))
		case *hmap:
			if x == nil {
				return c.Const(64, 0)
			}
			return c.Const(64, uint64(len(x.entries)))
		case *channel:
			if x == nil {
				return c.Const(64, 0)
			}
			return c.Const(64, uint64(len(x.buf)))
		}
		panic(engineErr("len: illegal operand: %T", args[0]))

	case "cap":
		switch x := args[0].(type) {
		case array:
			return c.Const(64, uint64(len(x)))
		case *value:
			return c.Const(64, uint64(len((*x).(array))))
		case []value:
			return c.Const(64, uint64(cap(x)))
		case *channel:
			if x == nil {
				return c.Const(64, 0)
			}
			return c.Const(64, uint64(x.cap))
		}
		panic(engineErr("cap: illegal operand: %T", args[0]))

	case "min", "max":
		isMin := fn.Name() == "min"
		switch args[0].(type) {
		case *Term:
			sig := fn.Type().(*types.Signature)
			_, signed := intWidth(sig.Params().At(0).Type())
			r := args[0].(*Term)
			for _, a := range args[1:] {
				at := a.(*Term)
				var lt *Term
				if signed {
					lt = c.Cmp(OpSlt, at, r)
				} else {
					lt = c.Cmp(OpUlt, at, r)
				}
				if isMin {
					r = c.Ite(lt, at, r)
				} else {
					r = c.Ite(lt, r, at)
				}
			}
			return r
		case float64:
			r := args[0].(float64)
			for _, a := range args[1:] {
				if isMin {
					r = math.Min(r, a.(float64))
				} else {
					r = math.Max(r, a.(float64))
				}
			}
			return r
		}
		panic(engineErr("min/max on %T", args[0]))

	case "real", "imag", "complex":
		panic(engineErr("complex builtin"))

	case "panic":
		pos, f := ex.curPos()
		panic(targetPanic{v: args[0], pos: pos, fn: f})

	case "recover":
		return ex.doRecover(caller)

	case "ssa:wrapnilchk":
		recv := args[0]
		if p, ok := recv.(*value); ok && p == nil {
			ex.rtPanic(fmt.Sprintf("value method %s.%s called using nil pointer", toString(args[1]), toString(args[2])))
		}
		return recv

	case "ssa:deferstack":
		return &caller.defers
	}
	panic(engineErr("unknown built-in: %s", fn.Name()))
}

func zeroLike(ex *Exec, v value) value {
	switch v := v.(type) {
	case *Term:
		return ex.C.Const(v.W, 0)
	case string, symstr:
		return ""
	case float64:
		return float64(0)
	case float32:
		return float32(0)
	case *value:
		return (*value)(nil)
	case []value:
		return []value(nil)
	case iface:
		return iface{}
	case *hmap:
		return (*hmap)(nil)
	case *channel:
		return (*channel)(nil)
	case array:
		a := make(array, len(v))
		for i := range v {
			a[i] = zeroLike(ex, v[i])
		}
		return a
	case structure:
		s := make(structure, len(v))
		for i := range v {
			s[i] = zeroLike(ex, v[i])
		}
		return s
	case *ssa.Function, *closure:
		return (*ssa.Function)(nil)
	case nil:
		return nil
	}
	panic(engineErr("zeroLike %T", v))
}

// ---- maps ----

func (ex *Exec) mapFind(m *hmap, k value) int {
	for i, e := range m.entries {
		eq := ex.equalsTerm(k, e.k)
		if eq.IsFalse() {
			continue
		}
		if eq.IsTrue() || ex.Branch(eq) {
			return i
		}
	}
	return -1
}

func (ex *Exec) mapInsert(m *hmap, k, v value) {
	if i := ex.mapFind(m, k); i >= 0 {
		m.entries[i].v = v
		return
	}
	m.entries = append(m.entries, &mapEntry{k: copyVal(k), v: v})
}

func (ex *Exec) mapDelete(m *hmap, k value) {
	if i := ex.mapFind(m, k); i >= 0 {
		m.entries = append(m.entries[:i:i], m.entries[i+1:]...)
	}
}

func (ex *Exec) lookup(instr *ssa.Lookup, x, idx value) value {
	switch x := x.(type) {
	case *hmap:
		var v value
		ok := false
		if x != nil {
			if i := ex.mapFind(x, idx); i >= 0 {
				v = copyVal(x.entries[i].v)
				ok = true
			}
		}
		if !ok {
			v = ex.zero(instr.X.Type().Underlying().(*types.Map).Elem())
		}
		if instr.CommaOk {
			return tuple{v, ex.C.Bool(ok)}
		}
		return v
	case string:
		_, signed := intWidth(instr.Index.Type())
		i := ex.index(idx.(*Term), signed, len(x))
		return ex.C.Const(8, uint64(x[i]))
	case symstr:
		_, signed := intWidth(instr.Index.Type())
		vs := make([]value, len(x))
		for i := range x {
			vs[i] = x[i]
		}
		return ex.indexRead(vs, idx.(*Term), signed)
	}
	panic(engineErr("unexpected x type in Lookup: %T", x))
}

type mapIter struct {
	m    *hmap
	snap []*mapEntry
	i    int
}

func (it *mapIter) next(ex *Exec) tuple {
	for it.i < len(it.snap) {
		e := it.snap[it.i]
		it.i++
		// skip entries deleted during iteration
		live := false
		for _, cur := range it.m.entries {
			if cur == e {
				live = true
				break
			}
		}
		if live {
			return tuple{ex.C.Bool(true), e.k, copyVal(e.v)}
		}
	}
	return tuple{ex.C.Bool(false), nil, nil}
}

type stringIter struct {
	s string
	i int
}

func (it *stringIter) next(ex *Exec) tuple {
	if it.i >= len(it.s) {
		return tuple{ex.C.Bool(false), nil, nil}
	}
	r, sz := utf8.DecodeRuneInString(it.s[it.i:])
	k := it.i
	it.i += sz
	return tuple{ex.C.Bool(true), ex.C.Const(64, uint64(k)), ex.C.Const(32, uint64(r))}
}

func (ex *Exec) rangeIter(x value, t types.Type) iter {
	switch x := x.(type) {
	case *hmap:
		if x == nil {
			return &mapIter{m: &hmap{}}
		}
		return &mapIter{m: x, snap: append([]*mapEntry{}, x.entries...)}
	case string:
		return &stringIter{s: x}
	case symstr:
		panic(engineErr("range over symbolic string"))
	}
	panic(engineErr("cannot range over %T", x))
}

// ---- channels (single-threaded model) ----

func (ex *Exec) chanSend(ch *channel, v value) {
	if ch == nil {
		panic(pathAbort{reason: "blocked", detail: "send on nil channel"})
	}
	if ch.closed {
		ex.rtPanic("send on closed channel")
	}
	if len(ch.buf) >= ch.cap {
		panic(pathAbort{reason: "blocked", detail: "send on full channel"})
	}
	ch.buf = append(ch.buf, copyVal(v))
}

func (ex *Exec) chanRecv(ch *channel, commaOk bool, elemT types.Type) value {
	if ch == nil {
		panic(pathAbort{reason: "blocked", detail: "receive from nil channel"})
	}
	var v value
	ok := false
	if len(ch.buf) > 0 {
		v = ch.buf[0]
		ch.buf = ch.buf[1:]
		ok = true
	} else if ch.closed {
		v = ex.zero(elemT)
	} else {
		panic(pathAbort{reason: "blocked", detail: "receive from empty channel"})
	}
	if commaOk {
		return tuple{v, ex.C.Bool(ok)}
	}
	return v
}

func (ex *Exec) selectStmt(fr *frame, instr *ssa.Select) value {
	var ready []int
	for i, st := range instr.States {
		ch, _ := fr.get(st.Chan).(*channel)
		if ch == nil {
			continue
		}
		if st.Dir == types.RecvOnly {
			if len(ch.buf) > 0 || ch.closed {
				ready = append(ready, i)
			}
		} else {
			if ch.closed || len(ch.buf) < ch.cap {
				ready = append(ready, i)
			}
		}
	}
	chosen := -1
	if len(ready) == 0 {
		if instr.Blocking {
			panic(pathAbort{reason: "blocked", detail: "select with no ready case"})
		}
	} else if len(ready) == 1 {
		chosen = ready[0]
	} else {
		chosen = ready[ex.ChooseConcrete("select", len(ready))]
	}
	recvOk := false
	var recvVal value
	if chosen >= 0 {
		st := instr.States[chosen]
		ch := fr.get(st.Chan).(*channel)
		if st.Dir == types.RecvOnly {
			r := ex.chanRecv(ch, true, st.Chan.Type().Underlying().(*types.Chan).Elem()).(tuple)
			recvVal = r[0]
			recvOk = r[1].(*Term).IsTrue()
		} else {
			ex.chanSend(ch, fr.get(st.Send))
		}
	}
	r := tuple{ex.C.Const(64, uint64(int64(chosen))), ex.C.Bool(recvOk)}
	for i, st := range instr.States {
		if st.Dir == types.RecvOnly {
			var v value
			if i == chosen && recvOk {
				v = recvVal
			} else {
				v = ex.zero(st.Chan.Type().Underlying().(*types.Chan).Elem())
			}
			r = append(r, v)
		}
	}
	return r
}
