package sym

import (
	"fmt"
	"go/types"
	"math"
	"strings"

	"golang.org/x/tools/go/ssa"
)

type intrinsic func(ex *Exec, fr *frame, args []value) value

var intrinsics map[string]intrinsic

func init() {
	intrinsics = map[string]intrinsic{
		// --- sync ---
		"(*sync.Mutex).Lock":      mutexLock,
		"(*sync.Mutex).Unlock":    mutexUnlock,
		"(*sync.Mutex).TryLock":   mutexTryLock,
		"(*sync.RWMutex).Lock":    mutexLock,
		"(*sync.RWMutex).Unlock":  mutexUnlock,
		"(*sync.RWMutex).RLock":   rwRLock,
		"(*sync.RWMutex).RUnlock": rwRUnlock,
		"(*sync.WaitGroup).Add":   nop,
		"(*sync.WaitGroup).Done":  nop,
		"(*sync.WaitGroup).Wait":  nop,
		"(*sync.WaitGroup).Go": func(ex *Exec, fr *frame, a []value) value {
			if ex.P.GoPolicy == "inline" {
				ex.call(fr, 0, a[1], nil)
			} else if ex.P.GoPolicy != "skip" {
				panic(engineErr("WaitGroup.Go without go policy"))
			}
			return nil
		},
		"(*sync.Pool).Get": func(ex *Exec, fr *frame, a []value) value {
			p := a[0].(*value)
			newFn := (*p).(structure)[len((*p).(structure))-1]
			if isNilValue(newFn) {
				return iface{}
			}
			return ex.call(fr, 0, newFn, nil)
		},
		"(*sync.Pool).Put": nop,
		"(*sync.Cond).Broadcast": nop,
		"(*sync.Cond).Signal":    nop,
		"(*sync.Cond).Wait": func(ex *Exec, fr *frame, a []value) value {
			panic(pathAbort{reason: "blocked", detail: "sync.Cond.Wait"})
		},

		// --- sync/atomic package-level functions ---
		"sync/atomic.LoadInt32": atomicLoad, "sync/atomic.LoadInt64": atomicLoad, "sync/atomic.LoadUint32": atomicLoad,
		"sync/atomic.LoadUint64": atomicLoad, "sync/atomic.LoadUintptr": atomicLoad, "sync/atomic.LoadPointer": atomicLoad,
		"sync/atomic.StoreInt32": atomicStore, "sync/atomic.StoreInt64": atomicStore, "sync/atomic.StoreUint32": atomicStore,
		"sync/atomic.StoreUint64": atomicStore, "sync/atomic.StoreUintptr": atomicStore, "sync/atomic.StorePointer": atomicStore,
		"sync/atomic.AddInt32": atomicAdd, "sync/atomic.AddInt64": atomicAdd, "sync/atomic.AddUint32": atomicAdd,
		"sync/atomic.AddUint64": atomicAdd, "sync/atomic.AddUintptr": atomicAdd,
		"sync/atomic.SwapInt32": atomicSwap, "sync/atomic.SwapInt64": atomicSwap, "sync/atomic.SwapUint32": atomicSwap,
		"sync/atomic.SwapUint64": atomicSwap, "sync/atomic.SwapUintptr": atomicSwap, "sync/atomic.SwapPointer": atomicSwap,
		"sync/atomic.CompareAndSwapInt32": atomicCAS, "sync/atomic.CompareAndSwapInt64": atomicCAS,
		"sync/atomic.CompareAndSwapUint32": atomicCAS, "sync/atomic.CompareAndSwapUint64": atomicCAS,
		"sync/atomic.CompareAndSwapUintptr": atomicCAS, "sync/atomic.CompareAndSwapPointer": atomicCAS,
		"sync/atomic.AndInt32": atomicAndOr(OpBvAnd), "sync/atomic.AndUint32": atomicAndOr(OpBvAnd),
		"sync/atomic.OrInt32": atomicAndOr(OpBvOr), "sync/atomic.OrUint32": atomicAndOr(OpBvOr),
		"(*sync/atomic.Value).Load": func(ex *Exec, fr *frame, a []value) value {
			p := a[0].(*value)
			return (*p).(structure)[0]
		},
		"(*sync/atomic.Value).Store": func(ex *Exec, fr *frame, a []value) value {
			p := a[0].(*value)
			if a[1].(iface).t == nil {
				pos, fn := ex.curPos()
				panic(targetPanic{v: ex.runtimeError("sync/atomic: store of nil value into Value"), pos: pos, fn: fn})
			}
			(*p).(structure)[0] = a[1]
			return nil
		},
		"(*sync/atomic.Value).Swap": func(ex *Exec, fr *frame, a []value) value {
			p := a[0].(*value)
			old := (*p).(structure)[0]
			(*p).(structure)[0] = a[1]
			return old
		},
		"(*sync/atomic.Value).CompareAndSwap": func(ex *Exec, fr *frame, a []value) value {
			p := a[0].(*value)
			old := (*p).(structure)[0]
			if ex.Branch(ex.equalsTerm(old, a[1])) {
				(*p).(structure)[0] = a[2]
				return ex.C.Bool(true)
			}
			return ex.C.Bool(false)
		},

		// --- errors / fmt ---
		"errors.Is": errorsIs,
		"errors.As": errorsAs,
		"fmt.Errorf": fmtErrorf,
		"fmt.Sprintf": func(ex *Exec, fr *frame, a []value) value { return fmtString(a[0]) },
		"fmt.Sprint":  func(ex *Exec, fr *frame, a []value) value { return "<fmt.Sprint>" },
		"fmt.Sprintln": func(ex *Exec, fr *frame, a []value) value { return "<fmt.Sprintln>\n" },
		"fmt.Fprintf": func(ex *Exec, fr *frame, a []value) value {
			return tuple{ex.C.Const(64, 0), iface{}}
		},
		"fmt.Fprintln": func(ex *Exec, fr *frame, a []value) value { return tuple{ex.C.Const(64, 0), iface{}} },
		"fmt.Fprint":   func(ex *Exec, fr *frame, a []value) value { return tuple{ex.C.Const(64, 0), iface{}} },
		"fmt.Printf":   func(ex *Exec, fr *frame, a []value) value { return tuple{ex.C.Const(64, 0), iface{}} },
		"fmt.Println":  func(ex *Exec, fr *frame, a []value) value { return tuple{ex.C.Const(64, 0), iface{}} },

		// --- runtime ---
		"runtime.KeepAlive":    nop,
		"runtime.SetFinalizer": nop,
		"runtime.Gosched":      nop,
		"runtime.GC":           nop,
		"runtime.GOMAXPROCS":   func(ex *Exec, fr *frame, a []value) value { return ex.C.Const(64, 1) },
		"runtime.NumCPU":       func(ex *Exec, fr *frame, a []value) value { return ex.C.Const(64, 1) },
		"runtime.Caller": func(ex *Exec, fr *frame, a []value) value {
			return tuple{ex.C.Const(64, 0), "", ex.C.Const(64, 0), ex.C.Bool(false)}
		},
		"runtime/debug.Stack": func(ex *Exec, fr *frame, a []value) value { return []value(nil) },

		// --- FIPS service indicator hooks (linknamed runtime functions) ---
		"crypto/internal/fips140.RecordApproved":    nop,
		"crypto/internal/fips140.RecordNonApproved": nop,
		"crypto/internal/fips140.setIndicator":      nop,
		"crypto/internal/fips140.getIndicator":      func(ex *Exec, fr *frame, a []value) value { return ex.C.Const(8, 0) },
		"crypto/internal/fips140.ResetServiceIndicator": nop,
		"crypto/fips140.Enabled":                    func(ex *Exec, fr *frame, a []value) value { return ex.C.Bool(false) },
		"crypto/internal/fips140only.Enabled":       func(ex *Exec, fr *frame, a []value) value { return ex.C.Bool(false) },

		// --- time ---
		"time.Now": func(ex *Exec, fr *frame, a []value) value {
			// wall=0, ext=fakeTime ns since year 1, loc=nil (UTC)
			return structure{ex.C.Const(64, 0), ex.C.Const(64, uint64(ex.fakeTime)), (*value)(nil)}
		},
		"time.Sleep": nop,
		// timers never fire by themselves (timer goroutines are concurrency, outside every claim);
		// harnesses that need expiries replace these with their own fakes
		"time.AfterFunc": func(ex *Exec, fr *frame, a []value) value { return ex.newTimer(false) },
		"time.NewTimer":  func(ex *Exec, fr *frame, a []value) value { return ex.newTimer(true) },
		"time.After": func(ex *Exec, fr *frame, a []value) value {
			return &channel{cap: 1}
		},
		"(*time.Timer).Stop":  func(ex *Exec, fr *frame, a []value) value { return ex.C.Bool(true) },
		"(*time.Timer).Reset": func(ex *Exec, fr *frame, a []value) value { return ex.C.Bool(true) },
		"time.runtimeNano": func(ex *Exec, fr *frame, a []value) value { return ex.C.Const(64, uint64(ex.fakeTime)) },

		// --- crypto/subtle.XORBytes (the real one compares raw pointers to reject inexact overlap) ---
		"crypto/subtle.XORBytes":                  subtleXORBytes,
		"crypto/internal/fips140/subtle.XORBytes": subtleXORBytes,

		// --- internal/bytealg ---
		"internal/bytealg.IndexByte":       bytealgIndexByte,
		"internal/bytealg.IndexByteString": bytealgIndexByte,
		"internal/bytealg.Count":           bytealgCount,
		"internal/bytealg.CountString":     bytealgCount,
		"internal/bytealg.Equal": func(ex *Exec, fr *frame, a []value) value {
			return ex.bytesEq(a[0].([]value), a[1].([]value))
		},
		"internal/bytealg.Compare": func(ex *Exec, fr *frame, a []value) value {
			x, y := a[0].([]value), a[1].([]value)
			sx, sy := make(symstr, len(x)), make(symstr, len(y))
			for i := range x {
				sx[i] = x[i].(*Term)
			}
			for i := range y {
				sy[i] = y[i].(*Term)
			}
			lt, eq := ex.strCompare(sx, sy)
			c := ex.C
			return c.Ite(eq, c.Const(64, 0), c.Ite(lt, c.Const(64, ^uint64(0)), c.Const(64, 1)))
		},
		"internal/bytealg.MakeNoZero": func(ex *Exec, fr *frame, a []value) value {
			n := ex.allocSize(a[0].(*Term), "makeslice: len out of range")
			s := make([]value, n)
			for i := range s {
				s[i] = ex.C.Const(8, 0)
			}
			return s
		},
		"internal/stringslite.Index": nil,

		// --- math ---
		"math.Float64bits":     func(ex *Exec, fr *frame, a []value) value { return ex.C.Const(64, math.Float64bits(a[0].(float64))) },
		"math.Float64frombits": func(ex *Exec, fr *frame, a []value) value { return math.Float64frombits(concU64(a[0])) },
		"math.Float32bits":     func(ex *Exec, fr *frame, a []value) value { return ex.C.Const(32, uint64(math.Float32bits(a[0].(float32)))) },
		"math.Float32frombits": func(ex *Exec, fr *frame, a []value) value { return math.Float32frombits(uint32(concU64(a[0]))) },
		"math.Ceil":            func(ex *Exec, fr *frame, a []value) value { return math.Ceil(a[0].(float64)) },
		"math.Floor":           func(ex *Exec, fr *frame, a []value) value { return math.Floor(a[0].(float64)) },
		"math.Sqrt":            func(ex *Exec, fr *frame, a []value) value { return math.Sqrt(a[0].(float64)) },
		"math.Log":             func(ex *Exec, fr *frame, a []value) value { return math.Log(a[0].(float64)) },
		"math.Abs":             func(ex *Exec, fr *frame, a []value) value { return math.Abs(a[0].(float64)) },

		// --- unsafe-ish string helpers ---
		"unsafe.String":     nil,
		"unsafe.StringData": nil,
		"(*strings.Builder).String": func(ex *Exec, fr *frame, a []value) value {
			p := a[0].(*value)
			st := (*p).(structure)
			buf := st[len(st)-1].([]value)
			s := make(symstr, len(buf))
			for i, b := range buf {
				s[i] = b.(*Term)
			}
			return normStr(s)
		},
		"(*strings.Builder).copyCheck": nop,
		"os.Getenv":                    func(ex *Exec, fr *frame, a []value) value { return "" },
		"os.LookupEnv":                 func(ex *Exec, fr *frame, a []value) value { return tuple{"", ex.C.Bool(false)} },
	}
	for k, v := range intrinsics {
		if v == nil {
			delete(intrinsics, k)
		}
	}
}

func concU64(v value) uint64 {
	t := v.(*Term)
	if !t.IsConst() {
		panic(engineErr("symbolic value where concrete required"))
	}
	return t.V
}

func nop(ex *Exec, fr *frame, a []value) value { return nil }

func genericIntrinsic(fn *ssa.Function) intrinsic {
	name := fn.String()
	if strings.HasPrefix(name, "unsafe.") {
		return nil
	}
	return nil
}

func (ex *Exec) bytesEq(x, y []value) *Term {
	if len(x) != len(y) {
		return ex.C.Bool(false)
	}
	r := ex.C.Bool(true)
	for i := range x {
		r = ex.C.And(r, ex.C.Eq(x[i].(*Term), y[i].(*Term)))
		if r.IsFalse() {
			break
		}
	}
	return r
}

func bytealgIndexByte(ex *Exec, fr *frame, a []value) value {
	var bs []*Term
	switch s := a[0].(type) {
	case []value:
		for _, b := range s {
			bs = append(bs, b.(*Term))
		}
	case string, symstr:
		bs = ex.toSymstr(s)
	}
	c := a[1].(*Term)
	for i, b := range bs {
		if ex.Branch(ex.C.Eq(b, c)) {
			return ex.C.Const(64, uint64(i))
		}
	}
	return ex.C.Const(64, ^uint64(0))
}

// subtleXORBytes: dst[i] = x[i] ^ y[i] for i < min(len(x), len(y)); panics if dst is shorter than that. Exact
// overlap (dst aliasing x or y from the same start) is fine because each element is read before it is written;
// inexact overlap, which the real function refuses with a panic, is not modelled.
func subtleXORBytes(ex *Exec, fr *frame, a []value) value {
	dst, x, y := a[0].([]value), a[1].([]value), a[2].([]value)
	n := len(x)
	if len(y) < n {
		n = len(y)
	}
	if n == 0 {
		return ex.C.Const(64, 0)
	}
	if len(dst) < n {
		ex.rtPanic("subtle.XORBytes: dst too short")
	}
	for i := 0; i < n; i++ {
		dst[i] = ex.C.Bin(OpBvXor, x[i].(*Term), y[i].(*Term))
	}
	return ex.C.Const(64, uint64(n))
}

func bytealgCount(ex *Exec, fr *frame, a []value) value {
	var bs []*Term
	switch s := a[0].(type) {
	case []value:
		for _, b := range s {
			bs = append(bs, b.(*Term))
		}
	case string, symstr:
		bs = ex.toSymstr(s)
	}
	c := a[1].(*Term)
	n := ex.C.Const(64, 0)
	for _, b := range bs {
		n = ex.C.Bin(OpAdd, n, ex.C.Ite(ex.C.Eq(b, c), ex.C.Const(64, 1), ex.C.Const(64, 0)))
	}
	return n
}

// ---- mutexes (sequential semantics; a second Lock on a held mutex is a self-deadlock) ----

func mutexLock(ex *Exec, fr *frame, a []value) value {
	p := a[0].(*value)
	if ex.mutexes[p] != 0 {
		panic(pathAbort{reason: "blocked", detail: "self-deadlock: Lock on held mutex in " + callerName(fr)})
	}
	ex.mutexes[p] = -1
	return nil
}
func mutexTryLock(ex *Exec, fr *frame, a []value) value {
	p := a[0].(*value)
	if ex.mutexes[p] != 0 {
		return ex.C.Bool(false)
	}
	ex.mutexes[p] = -1
	return ex.C.Bool(true)
}
func mutexUnlock(ex *Exec, fr *frame, a []value) value {
	p := a[0].(*value)
	if ex.mutexes[p] != -1 {
		pos, fn := ex.curPos()
		panic(targetPanic{v: ex.runtimeError("sync: unlock of unlocked mutex"), pos: pos, fn: fn})
	}
	ex.mutexes[p] = 0
	return nil
}
func rwRLock(ex *Exec, fr *frame, a []value) value {
	p := a[0].(*value)
	if ex.mutexes[p] == -1 {
		panic(pathAbort{reason: "blocked", detail: "self-deadlock: RLock on write-held mutex in " + callerName(fr)})
	}
	ex.mutexes[p]++
	return nil
}
func rwRUnlock(ex *Exec, fr *frame, a []value) value {
	p := a[0].(*value)
	if ex.mutexes[p] <= 0 {
		pos, fn := ex.curPos()
		panic(targetPanic{v: ex.runtimeError("sync: RUnlock of unlocked RWMutex"), pos: pos, fn: fn})
	}
	ex.mutexes[p]--
	return nil
}

func callerName(fr *frame) string {
	if fr.caller != nil {
		return fr.caller.fn.String()
	}
	return "?"
}

// ---- atomics ----

func atomicLoad(ex *Exec, fr *frame, a []value) value {
	p := a[0].(*value)
	if p == nil {
		ex.rtPanic("invalid memory address or nil pointer dereference")
	}
	return *p
}
func atomicStore(ex *Exec, fr *frame, a []value) value {
	p := a[0].(*value)
	if p == nil {
		ex.rtPanic("invalid memory address or nil pointer dereference")
	}
	*p = a[1]
	return nil
}
func atomicAdd(ex *Exec, fr *frame, a []value) value {
	p := a[0].(*value)
	if p == nil {
		ex.rtPanic("invalid memory address or nil pointer dereference")
	}
	n := ex.C.Bin(OpAdd, (*p).(*Term), a[1].(*Term))
	*p = n
	return n
}
func atomicSwap(ex *Exec, fr *frame, a []value) value {
	p := a[0].(*value)
	old := *p
	*p = a[1]
	return old
}
func atomicCAS(ex *Exec, fr *frame, a []value) value {
	p := a[0].(*value)
	if ex.Branch(ex.equalsTerm(*p, a[1])) {
		*p = a[2]
		return ex.C.Bool(true)
	}
	return ex.C.Bool(false)
}
func atomicAndOr(op Op) intrinsic {
	return func(ex *Exec, fr *frame, a []value) value {
		p := a[0].(*value)
		old := (*p).(*Term)
		*p = ex.C.Bin(op, old, a[1].(*Term))
		return old
	}
}

// ---- errors ----

func (ex *Exec) callMethod(fr *frame, recv iface, name string) (value, bool) {
	if recv.t == nil {
		return nil, false
	}
	ms := ex.P.Prog.MethodSets.MethodSet(recv.t)
	for i := 0; i < ms.Len(); i++ {
		sel := ms.At(i)
		if sel.Obj().Name() == name {
			fn := ex.P.Prog.MethodValue(sel)
			if fn == nil {
				return nil, false
			}
			return fn, true
		}
	}
	return nil, false
}

func errorsIs(ex *Exec, fr *frame, a []value) value {
	err, target := a[0].(iface), a[1].(iface)
	if err.t == nil || target.t == nil {
		return ex.C.Bool(err.t == nil && target.t == nil)
	}
	return ex.C.Bool(ex.errIs(fr, err, target, 0))
}

func (ex *Exec) errIs(fr *frame, err, target iface, depth int) bool {
	if depth > 50 {
		panic(engineErr("errors.Is: chain too deep"))
	}
	for {
		if err.t == nil {
			return false
		}
		if types.Comparable(target.t) && sameType(err.t, target.t) {
			eq := ex.equalsTerm(err.v, target.v)
			if eq.IsTrue() || (!eq.IsFalse() && ex.Branch(eq)) {
				return true
			}
		}
		if fn, ok := ex.callMethod(fr, err, "Is"); ok {
			f := fn.(*ssa.Function)
			sig := f.Signature
			if sig.Params().Len() == 1 && sig.Results().Len() == 1 && types.Identical(sig.Params().At(0).Type(), types.Universe.Lookup("error").Type()) {
				r := ex.call(fr, 0, fn, []value{err.v, target})
				if ex.Branch(r.(*Term)) {
					return true
				}
			}
		}
		fn, ok := ex.callMethod(fr, err, "Unwrap")
		if !ok {
			return false
		}
		f := fn.(*ssa.Function)
		res := f.Signature.Results()
		if res.Len() != 1 || f.Signature.Params().Len() != 0 {
			return false
		}
		r := ex.call(fr, 0, fn, []value{err.v})
		switch r := r.(type) {
		case iface:
			if _, isSlice := res.At(0).Type().Underlying().(*types.Slice); isSlice {
				return false
			}
			err = r
		case []value:
			for _, e := range r {
				if ex.errIs(fr, e.(iface), target, depth+1) {
					return true
				}
			}
			return false
		default:
			return false
		}
	}
}

func errorsAs(ex *Exec, fr *frame, a []value) value {
	err, target := a[0].(iface), a[1].(iface)
	if target.t == nil {
		pos, fn := ex.curPos()
		panic(targetPanic{v: ex.runtimeError("errors: target cannot be nil"), pos: pos, fn: fn})
	}
	pt, ok := target.t.Underlying().(*types.Pointer)
	if !ok {
		pos, fn := ex.curPos()
		panic(targetPanic{v: ex.runtimeError("errors: target must be a non-nil pointer"), pos: pos, fn: fn})
	}
	return ex.C.Bool(ex.errAs(fr, err, target.v.(*value), pt.Elem(), 0))
}

func (ex *Exec) errAs(fr *frame, err iface, dst *value, elemT types.Type, depth int) bool {
	if depth > 50 {
		panic(engineErr("errors.As: chain too deep"))
	}
	for {
		if err.t == nil {
			return false
		}
		if it, ok := elemT.Underlying().(*types.Interface); ok {
			if ex.implements(err.t, it) {
				*dst = err
				return true
			}
		} else if types.Identical(err.t, elemT) {
			*dst = copyVal(err.v)
			return true
		}
		if fn, ok := ex.callMethod(fr, err, "As"); ok {
			f := fn.(*ssa.Function)
			if f.Signature.Params().Len() == 1 && f.Signature.Results().Len() == 1 {
				r := ex.call(fr, 0, fn, []value{err.v, iface{t: types.NewPointer(elemT), v: dst}})
				if ex.Branch(r.(*Term)) {
					return true
				}
			}
		}
		fn, ok := ex.callMethod(fr, err, "Unwrap")
		if !ok {
			return false
		}
		f := fn.(*ssa.Function)
		res := f.Signature.Results()
		if res.Len() != 1 || f.Signature.Params().Len() != 0 {
			return false
		}
		r := ex.call(fr, 0, fn, []value{err.v})
		switch r := r.(type) {
		case iface:
			err = r
		case []value:
			for _, e := range r {
				if ex.errAs(fr, e.(iface), dst, elemT, depth+1) {
					return true
				}
			}
			return false
		default:
			return false
		}
	}
}

func fmtString(v value) value {
	if s, ok := v.(string); ok {
		return s
	}
	return "<fmt>"
}

// fmtErrorf models fmt.Errorf: message text is the raw format; %w operands are wrapped.
func fmtErrorf(ex *Exec, fr *frame, a []value) value {
	format, _ := a[0].(string)
	args, _ := a[1].([]value)
	// find %w verbs and map them to operand indexes (no explicit argument indexes supported)
	var wrapped []iface
	argi := 0
	for i := 0; i < len(format); i++ {
		if format[i] != '%' {
			continue
		}
		i++
		for i < len(format) && strings.ContainsRune("+-# 0123456789.*", rune(format[i])) {
			if format[i] == '*' {
				argi++
			}
			i++
		}
		if i >= len(format) {
			break
		}
		if format[i] == '%' {
			continue
		}
		if format[i] == 'w' && argi < len(args) {
			if e, ok := args[argi].(iface); ok && e.t != nil {
				if ex.implements(e.t, types.Universe.Lookup("error").Type().Underlying().(*types.Interface)) {
					wrapped = append(wrapped, e)
				}
			}
		}
		argi++
	}
	fmtPkg := ex.P.Prog.ImportedPackage("fmt")
	errorsPkg := ex.P.Prog.ImportedPackage("errors")
	switch len(wrapped) {
	case 0:
		if errorsPkg == nil {
			panic(engineErr("fmt.Errorf: errors package not loaded"))
		}
		t := errorsPkg.Type("errorString").Type()
		var cell value = structure{format}
		return iface{t: types.NewPointer(t), v: &cell}
	case 1:
		if fmtPkg == nil {
			panic(engineErr("fmt.Errorf: fmt package not loaded"))
		}
		t := fmtPkg.Type("wrapError").Type()
		var cell value = structure{format, wrapped[0]}
		return iface{t: types.NewPointer(t), v: &cell}
	default:
		t := fmtPkg.Type("wrapErrors").Type()
		var errs []value
		for _, w := range wrapped {
			errs = append(errs, w)
		}
		var cell value = structure{format, errs}
		return iface{t: types.NewPointer(t), v: &cell}
	}
}

var _ = fmt.Sprint

// newTimer builds a *time.Timer that never fires.
func (ex *Exec) newTimer(withChan bool) value {
	tp := ex.P.Prog.ImportedPackage("time")
	if tp == nil || tp.Type("Timer") == nil {
		panic(engineErr("time.Timer type not loaded"))
	}
	v := ex.zero(tp.Type("Timer").Type())
	if withChan {
		v.(structure)[0] = &channel{cap: 1}
	}
	cell := new(value)
	*cell = v
	return cell
}
