package sym

import (
	"fmt"
	"os"
	"os/exec"
	"sync/atomic"
	"regexp"
	"runtime/debug"
	"strings"
	"sync"
	"time"

	"golang.org/x/tools/go/ssa"
)

// RunConfig describes one harness exploration.
type RunConfig struct {
	P         *Program
	Entry     *ssa.Function
	Name      string
	Workers   int
	MaxPaths  int
	Lim       Limits
	Solver    string
	TimeoutMs int
	Fixed     map[string]uint64 // concrete mode: every input takes its value from here (default 0)
	DumpDir   string            // if set, assertion obligations are written as standalone .smt2
	DumpMax   int
	Deadline  time.Time
	Verbose   bool
	NontermIsViolation bool // hitting MaxSteps on a path is reported as a violation (termination obligation)
}

type RunResult struct {
	Stats      *Stats
	Wall       time.Duration
	SolverTime time.Duration
	Observes   []string // concrete mode
	PathsLeft  int
}

type workQueue struct {
	mu      sync.Mutex
	cond    *sync.Cond
	items   [][]Decision
	active  int
	started int
	max     int
	over    bool
	stop    bool
}

func (q *workQueue) push(p []Decision) {
	q.mu.Lock()
	q.items = append(q.items, p)
	q.mu.Unlock()
	q.cond.Signal()
}

func (q *workQueue) pop() ([]Decision, bool) {
	q.mu.Lock()
	defer q.mu.Unlock()
	for {
		if q.stop {
			return nil, false
		}
		if len(q.items) > 0 {
			if q.started >= q.max {
				q.over = true
				q.stop = true
				q.cond.Broadcast()
				return nil, false
			}
			it := q.items[len(q.items)-1]
			q.items = q.items[:len(q.items)-1]
			q.active++
			q.started++
			return it, true
		}
		if q.active == 0 {
			q.cond.Broadcast()
			return nil, false
		}
		q.cond.Wait()
	}
}

func (q *workQueue) done() {
	q.mu.Lock()
	q.active--
	q.mu.Unlock()
	q.cond.Broadcast()
}

var numRe = regexp.MustCompile(`\[[^\]]*\]|[0-9]+`)

func panicClass(v value) string {
	if i, ok := v.(iface); ok {
		if s, ok := i.v.(string); ok && i.t != nil && strings.Contains(i.t.String(), "runtime.") {
			s = numRe.ReplaceAllString(s, "")
			s = strings.Join(strings.Fields(s), " ")
			if j := strings.Index(s, " with "); j >= 0 {
				s = s[:j]
			}
			return s
		}
		if i.t != nil {
			return "explicit panic(" + i.t.String() + ")"
		}
	}
	return "explicit panic"
}

// Explore runs the harness entry over all paths.
func Explore(cfg RunConfig) *RunResult {
	t0 := time.Now()
	q := &workQueue{max: cfg.MaxPaths}
	q.cond = sync.NewCond(&q.mu)
	q.items = append(q.items, nil)
	total := NewStats()
	var mu sync.Mutex
	var solverTime time.Duration
	var observes []string
	workers := cfg.Workers
	if cfg.Fixed != nil || workers < 1 {
		workers = 1
	}
	dumpCount := 0
	var wg sync.WaitGroup
	for w := 0; w < workers; w++ {
		wg.Add(1)
		go func(w int) {
			defer wg.Done()
			var solver *Solver
			if cfg.Fixed == nil {
				s, err := NewSolver(cfg.Solver, cfg.TimeoutMs)
				if err != nil {
					mu.Lock()
					total.EngineErrors = append(total.EngineErrors, "solver start: "+err.Error())
					mu.Unlock()
					return
				}
				solver = s
				defer solver.Close()
			}
			st := NewStats()
			for {
				prefix, ok := q.pop()
				if !ok {
					break
				}
				if !cfg.Deadline.IsZero() && time.Now().After(cfg.Deadline) {
					q.mu.Lock()
					q.stop = true
					q.over = true
					q.mu.Unlock()
					q.cond.Broadcast()
					q.done()
					break
				}
				obs := runPath(&cfg, solver, prefix, q, st, func(kind, label, text string) {
					if cfg.DumpDir == "" {
						return
					}
					mu.Lock()
					defer mu.Unlock()
					if dumpCount >= cfg.DumpMax {
						return
					}
					dumpCount++
					fn := fmt.Sprintf("%s/%s-%04d-%s.smt2", cfg.DumpDir, sanitize(cfg.Name), dumpCount, kind)
					os.WriteFile(fn, []byte("; "+label+"\n"+text), 0o644)
				})
				if cfg.Fixed != nil {
					observes = obs
				}
				q.done()
			}
			mu.Lock()
			if solver != nil {
				solverTime += solver.Time
				for _, e := range solver.Errors {
					st.SolverErrors = append(st.SolverErrors, e)
				}
			}
			total.Merge(st)
			mu.Unlock()
		}(w)
	}
	wg.Wait()
	res := &RunResult{Stats: total, Wall: time.Since(t0), SolverTime: solverTime, Observes: observes}
	q.mu.Lock()
	res.PathsLeft = len(q.items)
	if q.over {
		total.Inconclusive = append(total.Inconclusive, fmt.Sprintf("path budget or deadline exhausted (%d paths started, %d left)", q.started, len(q.items)))
	}
	q.mu.Unlock()
	if len(total.SolverErrors) > 0 {
		total.Inconclusive = append(total.Inconclusive, "solver reported errors: "+total.SolverErrors[0])
	}
	return res
}

func sanitize(s string) string {
	return strings.Map(func(r rune) rune {
		if r >= 'a' && r <= 'z' || r >= 'A' && r <= 'Z' || r >= '0' && r <= '9' || r == '_' || r == '-' {
			return r
		}
		return '_'
	}, s)
}

func runPath(cfg *RunConfig, solver *Solver, prefix []Decision, q *workQueue, st *Stats, dump func(kind, label, text string)) (observes []string) {
	st.Paths++
	ctx := NewCtx()
	if solver != nil {
		solver.Reset()
	}
	ps := &PathState{C: ctx, S: solver, prefix: prefix, emitted: map[int]bool{}, ufDone: map[string]bool{},
		nameCnt: map[string]int{}, lim: &cfg.Lim, stats: st, fixed: cfg.Fixed}
	ps.fork = func(p []Decision) { q.push(p) }
	if cfg.DumpDir != "" {
		ps.smtDump = dump
		ps.fallback = func(script string) Result { return fallbackSolve(cfg, script) }
	}
	ex := &Exec{PathState: ps, P: cfg.P, globals: map[*ssa.Global]*value{}, mutexes: map[*value]int{}}
	defer func() {
		st.Steps += ex.steps
		if len(ps.Trace) > st.MaxDepth {
			st.MaxDepth = len(ps.Trace)
		}
		observes = ex.observes
		r := recover()
		if r == nil {
			return
		}
		switch r := r.(type) {
		case pathAbort:
			st.Aborted[r.reason]++
			if (r.reason == "limit:steps" || r.reason == "limit:decisions") && cfg.NontermIsViolation {
				// the entry declares its instruction / decision budget to be the termination obligation
				where := r.detail
				if r.reason == "limit:decisions" {
					where = func() (fn string) {
						defer func() { recover() }()
						if ex.cur != nil {
							return ex.cur.fn.String()
						}
						return "?"
					}()
				}
				r.detail = where
				label := "nontermination@" + r.detail
				st.Obligations++
				st.AssertLabels[label]++
				v := &Violation{Label: label, Kind: "nontermination", Detail: fmt.Sprintf("more than %d SSA instructions / %d decisions on one path (still running in %s)", cfg.Lim.MaxSteps, cfg.Lim.MaxDecisions, r.detail), Path: ps.traceString()}
				if solver != nil {
					if res := ps.query(ctx.Bool(true)); res == Sat {
						v.Inputs, v.Model = ps.model()
					}
					ps.endQuery()
				}
				st.Violations = append(st.Violations, v)
				return
			}
			if strings.HasPrefix(r.reason, "limit:") {
				st.Inconclusive = append(st.Inconclusive, fmt.Sprintf("%s (%s) on path [%s]", r.reason, r.detail, clip(ps.traceString(), 200)))
			}
			if r.reason == "blocked" {
				st.Covers["blocked: "+r.detail]++
			}
		case engineError:
			st.EngineErrors = append(st.EngineErrors, r.msg+" [at "+posOf(ex)+"]")
		case targetPanic:
			// a Go panic escaped the harness: violation
			label := "panic:" + panicClass(r.v) + "@" + r.fn
			st.PanicSites[label]++
			st.Obligations++
			st.AssertLabels[label]++
			v := &Violation{Label: label, Kind: "panic", Detail: describePanic(r) + " at " + r.pos, Path: ps.traceString()}
			if solver != nil {
				if res := ps.query(ctx.Bool(true)); res == Sat {
					v.Inputs, v.Model = ps.model()
					ps.endQuery()
				} else {
					ps.endQuery()
					st.Inconclusive = append(st.Inconclusive, "could not get model for panic path: "+label)
				}
			} else {
				v.Inputs = nil
			}
			st.Violations = append(st.Violations, v)
		default:
			st.EngineErrors = append(st.EngineErrors, fmt.Sprintf("engine bug: %v [at %s]\n%s", r, posOf(ex), clip(string(debug.Stack()), 1500)))
		}
	}()
	// package initialisation (whitelisted packages only), then the entry
	if cfg.Entry.Pkg != nil {
		if initFn := cfg.Entry.Pkg.Func("init"); initFn != nil {
			ex.call(nil, 0, initFn, nil)
		}
	}
	ex.call(nil, 0, cfg.Entry, nil)
	st.Completed++
	if len(st.SamplePaths) < 3 && solver != nil {
		// witness input for this path
		s := ps.traceString()
		var wit map[string]uint64
		if res := ps.query(ctx.Bool(true)); res == Sat {
			in, _ := ps.model()
			ps.endQuery()
			wit = map[string]uint64{}
			var parts []string
			for i, iv := range in {
				wit[iv.Name] = iv.Val
				if i == 24 {
					parts = append(parts, "...")
				}
				if i < 24 {
					parts = append(parts, fmt.Sprintf("%s=%d", iv.Name, iv.Val))
				}
			}
			s = "decisions[" + clip(s, 300) + "] witness{" + strings.Join(parts, " ") + "}"
		} else {
			ps.endQuery()
		}
		st.SamplePaths = append(st.SamplePaths, s)
		st.SampleWitness = append(st.SampleWitness, wit)
	}
	return
}

func describePanic(tp targetPanic) string {
	if i, ok := tp.v.(iface); ok {
		if s, ok := i.v.(string); ok {
			return s
		}
		if i.t != nil {
			return "panic(" + i.t.String() + ": " + clip(toString(i.v), 200) + ")"
		}
	}
	return "panic"
}

func posOf(ex *Exec) string {
	defer func() { recover() }()
	pos, fn := ex.curPos()
	var chain []string
	for fr := ex.cur; fr != nil && len(chain) < 12; fr = fr.caller {
		chain = append(chain, fr.fn.String())
	}
	return fn + " " + pos + " stack: " + strings.Join(chain, " <- ")
}

func clip(s string, n int) string {
	if len(s) > n {
		return s[:n] + "…"
	}
	return s
}

var fallbackSeq int64

// fallbackSolve asks cvc5 (then z3 5.x) about an obligation the primary solver answered "unknown" to.
func fallbackSolve(cfg *RunConfig, script string) Result {
	n := atomic.AddInt64(&fallbackSeq, 1)
	fn := fmt.Sprintf("%s/fallback-%d-%d.smt2", cfg.DumpDir, os.Getpid(), n)
	if err := os.WriteFile(fn, []byte("(set-logic ALL)\n"+script), 0o644); err != nil {
		return Unknown
	}
	defer os.Remove(fn)
	to := cfg.TimeoutMs * 4
	for _, cmd := range [][]string{
		{"cvc5", "--lang=smt2", fmt.Sprintf("--tlimit=%d", to), fn},
		{"z3-new", fmt.Sprintf("-T:%d", to/1000+1), fn},
	} {
		out, _ := exec.Command(cmd[0], cmd[1:]...).CombinedOutput()
		res := strings.TrimSpace(string(out))
		if strings.HasPrefix(res, "unsat") {
			return Unsat
		}
		if strings.HasPrefix(res, "sat") {
			return Sat
		}
	}
	return Unknown
}
