package sym

import (
	"fmt"
	"sync"
	"go/token"
	"go/types"
	"slices"
	"strings"

	"golang.org/x/tools/go/ssa"
)

// Program is the immutable, shared part: SSA program and harness configuration.
type Program struct {
	Prog        *ssa.Program
	Fset        *token.FileSet
	Replace     map[string]*ssa.Function // full function name -> harness replacement
	InitAllow   func(pkgPath string) bool
	GoPolicy    string // "error", "skip", "inline"
	HarnessPkgs map[*ssa.Package]bool
	RepoPrefix  string
	Params      map[string]int64
	runtimeErrT types.Type
	errorsPkg   *ssa.Package
	fmtPkg      *ssa.Package
}

type targetPanic struct {
	v   value
	pos string
	fn  string
}

type deferred struct {
	fn    value
	args  []value
	instr *ssa.Defer
	tail  *deferred
}

type frame struct {
	ex               *Exec
	caller           *frame
	fn               *ssa.Function
	block, prevBlock *ssa.BasicBlock
	env              map[ssa.Value]value
	locals           []value
	defers           *deferred
	result           value
	panicking        bool
	panic            targetPanic
	curInstr         ssa.Instruction
	phitemps         []value
}

// Exec is the per-path interpreter state.
type Exec struct {
	*PathState
	P        *Program
	globals  map[*ssa.Global]*value
	steps    int64
	depth    int
	top      *frame
	cur      *frame
	observes []string
	mutexes  map[*value]int
	fakeTime int64
}

type continuation int

const (
	kNext continuation = iota
	kReturn
	kJump
)

func (ex *Exec) runtimeError(msg string) value {
	return iface{t: ex.P.runtimeErrT, v: msg}
}

func (ex *Exec) curPos() (string, string) {
	pos, fn := "", ""
	for fr := ex.cur; fr != nil; fr = fr.caller {
		if fr.curInstr != nil && fr.curInstr.Pos().IsValid() && pos == "" {
			p := ex.P.Fset.Position(fr.curInstr.Pos())
			pos = fmt.Sprintf("%s:%d", shortFile(p.Filename), p.Line)
		}
		if fr.fn.Pkg != nil && strings.HasPrefix(fr.fn.Pkg.Pkg.Path(), "github.com/pion/") && !strings.HasPrefix(fr.fn.Name(), "zz") {
			fn = fr.fn.String()
			break
		}
		if fn == "" {
			fn = fr.fn.String()
		}
	}
	return pos, fn
}

func shortFile(f string) string {
	if i := strings.Index(f, "/repo/"); i >= 0 {
		return f[i+6:]
	}
	if i := strings.LastIndex(f, "/pkg/mod/"); i >= 0 {
		return f[i+9:]
	}
	if i := strings.LastIndex(f, "/src/"); i >= 0 {
		return f[i+5:]
	}
	return f
}

// rtPanic raises a Go run-time panic in the interpreted program.
func (ex *Exec) rtPanic(msg string) {
	pos, fn := ex.curPos()
	panic(targetPanic{v: ex.runtimeError(msg), pos: pos, fn: fn})
}

func (fr *frame) get(key ssa.Value) value {
	switch key := key.(type) {
	case nil:
		return nil
	case *ssa.Function:
		return key
	case *ssa.Builtin:
		return key
	case *ssa.Const:
		return fr.ex.constValue(key)
	case *ssa.Global:
		return fr.ex.global(key)
	}
	if r, ok := fr.env[key]; ok {
		return r
	}
	panic(engineErr("get: no value for %T: %v in %s", key, key.Name(), fr.fn))
}

func (ex *Exec) global(g *ssa.Global) *value {
	if r, ok := ex.globals[g]; ok {
		return r
	}
	cell := new(value)
	*cell = ex.zero(deref(g.Type()))
	ex.globals[g] = cell
	return cell
}

func deref(t types.Type) types.Type {
	if p, ok := t.Underlying().(*types.Pointer); ok {
		return p.Elem()
	}
	panic(engineErr("deref of non-pointer %s", t))
}

func (fr *frame) runDefer(d *deferred) {
	ex := fr.ex
	var ok bool
	defer func() {
		if !ok {
			r := recover()
			if tp, isT := r.(targetPanic); isT {
				fr.panicking = true
				fr.panic = tp
				return
			}
			panic(r)
		}
	}()
	ex.call(fr, d.instr.Pos(), d.fn, d.args)
	ok = true
}

func (fr *frame) runDefers() {
	for d := fr.defers; d != nil; d = d.tail {
		fr.runDefer(d)
	}
	fr.defers = nil
	if fr.panicking {
		panic(fr.panic)
	}
}

func (ex *Exec) step(fr *frame, instr ssa.Instruction) {
	ex.steps++
	if ex.steps > ex.lim.MaxSteps {
		panic(pathAbort{reason: "limit:steps", detail: fr.fn.String()})
	}
}

func (ex *Exec) visitInstr(fr *frame, instr ssa.Instruction) continuation {
	fr.curInstr = instr
	ex.step(fr, instr)
	switch instr := instr.(type) {
	case *ssa.DebugRef:

	case *ssa.UnOp:
		fr.env[instr] = ex.unop(fr, instr, fr.get(instr.X))

	case *ssa.BinOp:
		fr.env[instr] = ex.binop(instr.Op, instr.X.Type(), instr.Y.Type(), fr.get(instr.X), fr.get(instr.Y))

	case *ssa.Call:
		fn, args := ex.prepareCall(fr, &instr.Call)
		fr.env[instr] = ex.call(fr, instr.Pos(), fn, args)
		ex.cur = fr

	case *ssa.ChangeInterface:
		fr.env[instr] = fr.get(instr.X)

	case *ssa.ChangeType:
		fr.env[instr] = fr.get(instr.X)

	case *ssa.Convert:
		fr.env[instr] = ex.conv(instr.Type(), instr.X.Type(), fr.get(instr.X))

	case *ssa.SliceToArrayPointer:
		fr.env[instr] = ex.sliceToArrayPointer(instr.Type(), fr.get(instr.X))

	case *ssa.MakeInterface:
		fr.env[instr] = iface{t: instr.X.Type(), v: fr.get(instr.X)}

	case *ssa.Extract:
		fr.env[instr] = fr.get(instr.Tuple).(tuple)[instr.Index]

	case *ssa.Slice:
		fr.env[instr] = ex.slice(instr, fr.get(instr.X), fr.get(instr.Low), fr.get(instr.High), fr.get(instr.Max))

	case *ssa.Return:
		switch len(instr.Results) {
		case 0:
		case 1:
			fr.result = fr.get(instr.Results[0])
		default:
			var res []value
			late := lateLoads(instr)
			for i, r := range instr.Results {
				if late != nil && late[i] {
					// gc evaluates the calls of a return statement before it reads plain variables
					// ("return v, v.Unmarshal(b)"); go/ssa emits the load first. Follow gc.
					p := fr.get(r.(*ssa.UnOp).X).(*value)
					if p == nil {
						ex.rtPanic("invalid memory address or nil pointer dereference")
					}
					res = append(res, copyVal(*p))
					continue
				}
				res = append(res, fr.get(r))
			}
			fr.result = tuple(res)
		}
		fr.block = nil
		return kReturn

	case *ssa.RunDefers:
		fr.runDefers()
		ex.cur = fr

	case *ssa.Panic:
		pos, fn := ex.curPos()
		panic(targetPanic{v: fr.get(instr.X), pos: pos, fn: fn})

	case *ssa.Send:
		ex.chanSend(fr.get(instr.Chan).(*channel), fr.get(instr.X))

	case *ssa.Store:
		addr := fr.get(instr.Addr).(*value)
		if addr == nil {
			ex.rtPanic("invalid memory address or nil pointer dereference")
		}
		storeInPlace(addr, fr.get(instr.Val))

	case *ssa.If:
		succ := 1
		if ex.Branch(fr.get(instr.Cond).(*Term)) {
			succ = 0
		}
		fr.prevBlock, fr.block = fr.block, fr.block.Succs[succ]
		return kJump

	case *ssa.Jump:
		fr.prevBlock, fr.block = fr.block, fr.block.Succs[0]
		return kJump

	case *ssa.Defer:
		fn, args := ex.prepareCall(fr, &instr.Call)
		defers := &fr.defers
		if instr.DeferStack != nil {
			if into := fr.get(instr.DeferStack); into != nil {
				defers = into.(**deferred)
			}
		}
		*defers = &deferred{fn: fn, args: args, instr: instr, tail: *defers}

	case *ssa.Go:
		fn, args := ex.prepareCall(fr, &instr.Call)
		switch ex.P.GoPolicy {
		case "skip":
		case "inline":
			ex.call(fr, instr.Pos(), fn, args)
			ex.cur = fr
		default:
			panic(engineErr("go statement in %s (no policy)", fr.fn))
		}

	case *ssa.MakeChan:
		n := ex.concInt(fr.get(instr.Size), "chan size")
		fr.env[instr] = &channel{cap: int(n), elemT: instr.Type().Underlying().(*types.Chan).Elem()}

	case *ssa.Alloc:
		var addr *value
		if instr.Heap {
			addr = new(value)
			fr.env[instr] = addr
		} else {
			addr = fr.env[instr].(*value)
		}
		*addr = ex.zero(deref(instr.Type()))

	case *ssa.MakeSlice:
		ln := fr.get(instr.Len).(*Term)
		cp := fr.get(instr.Cap).(*Term)
		n := ex.allocSize(ln, "makeslice: len out of range")
		cpn := n
		if cp != ln {
			cpn = ex.allocSize(cp, "makeslice: cap out of range")
			if cpn < n {
				ex.rtPanic("makeslice: cap out of range")
			}
		}
		s := make([]value, cpn)
		tElt := instr.Type().Underlying().(*types.Slice).Elem()
		for i := range s {
			s[i] = ex.zero(tElt)
		}
		fr.env[instr] = s[:n]

	case *ssa.MakeMap:
		fr.env[instr] = &hmap{keyT: instr.Type().Underlying().(*types.Map).Key()}

	case *ssa.Range:
		fr.env[instr] = ex.rangeIter(fr.get(instr.X), instr.X.Type())

	case *ssa.Next:
		fr.env[instr] = fr.get(instr.Iter).(iter).next(ex)

	case *ssa.FieldAddr:
		p := fr.get(instr.X).(*value)
		if p == nil {
			ex.rtPanic("invalid memory address or nil pointer dereference")
		}
		fr.env[instr] = &(*p).(structure)[instr.Field]

	case *ssa.Field:
		fr.env[instr] = fr.get(instr.X).(structure)[instr.Field]

	case *ssa.IndexAddr:
		x := fr.get(instr.X)
		idx := fr.get(instr.Index).(*Term)
		_, signed := intWidth(instr.Index.Type())
		switch x := x.(type) {
		case []value:
			i := ex.index(idx, signed, len(x))
			fr.env[instr] = &x[i]
		case *value:
			if x == nil {
				ex.rtPanic("invalid memory address or nil pointer dereference")
			}
			a := (*x).(array)
			i := ex.index(idx, signed, len(a))
			fr.env[instr] = &a[i]
		default:
			panic(engineErr("unexpected x type in IndexAddr: %T", x))
		}

	case *ssa.Index:
		x := fr.get(instr.X)
		idx := fr.get(instr.Index).(*Term)
		_, signed := intWidth(instr.Index.Type())
		switch x := x.(type) {
		case array:
			fr.env[instr] = ex.indexRead([]value(x), idx, signed)
		case string:
			i := ex.index(idx, signed, len(x))
			fr.env[instr] = ex.C.Const(8, uint64(x[i]))
		case symstr:
			vs := make([]value, len(x))
			for i := range x {
				vs[i] = x[i]
			}
			fr.env[instr] = ex.indexRead(vs, idx, signed)
		default:
			panic(engineErr("unexpected x type in Index: %T", x))
		}

	case *ssa.Lookup:
		fr.env[instr] = ex.lookup(instr, fr.get(instr.X), fr.get(instr.Index))

	case *ssa.MapUpdate:
		m := fr.get(instr.Map).(*hmap)
		if m == nil {
			pos, fn := ex.curPos()
			panic(targetPanic{v: ex.runtimeError("assignment to entry in nil map"), pos: pos, fn: fn})
		}
		ex.mapInsert(m, fr.get(instr.Key), copyVal(fr.get(instr.Value)))

	case *ssa.TypeAssert:
		fr.env[instr] = ex.typeAssert(instr, fr.get(instr.X).(iface))

	case *ssa.MakeClosure:
		var bindings []value
		for _, b := range instr.Bindings {
			bindings = append(bindings, fr.get(b))
		}
		fr.env[instr] = &closure{instr.Fn.(*ssa.Function), bindings}

	case *ssa.Phi:
		panic("unreachable: phi")

	case *ssa.Select:
		fr.env[instr] = ex.selectStmt(fr, instr)

	default:
		panic(engineErr("unexpected instruction: %T", instr))
	}
	return kNext
}

// index checks idx against [0,n) and returns a concrete index (forking over feasible values).
func (ex *Exec) index(idx *Term, signed bool, n int) int {
	if idx.IsConst() {
		var i int64
		if signed {
			i = idx.SignedVal()
		} else {
			if idx.V > uint64(1<<62) {
				i = -1
			} else {
				i = int64(idx.V)
			}
		}
		if i < 0 || i >= int64(n) {
			ex.rtPanic(fmt.Sprintf("index out of range [%d] with length %d", i, n))
		}
		return int(i)
	}
	i64 := ex.widen(idx, signed)
	inb := ex.C.Cmp(OpUlt, i64, ex.C.Const(64, uint64(n)))
	if !ex.Branch(inb) {
		ex.rtPanic(fmt.Sprintf("index out of range [sym] with length %d", n))
	}
	return int(ex.Concretize(i64, "index"))
}

// indexRead reads xs[idx] as a value; for scalar elements a symbolic index gives an ite-chain.
func (ex *Exec) indexRead(xs []value, idx *Term, signed bool) value {
	if idx.IsConst() {
		return xs[ex.index(idx, signed, len(xs))]
	}
	i64 := ex.widen(idx, signed)
	inb := ex.C.Cmp(OpUlt, i64, ex.C.Const(64, uint64(len(xs))))
	if !ex.Branch(inb) {
		ex.rtPanic(fmt.Sprintf("index out of range [sym] with length %d", len(xs)))
	}
	allTerm := len(xs) > 0
	for _, x := range xs {
		if _, ok := x.(*Term); !ok {
			allTerm = false
			break
		}
	}
	if allTerm && len(xs) <= 1024 {
		r := xs[len(xs)-1].(*Term)
		for i := len(xs) - 2; i >= 0; i-- {
			r = ex.C.Ite(ex.C.Eq(i64, ex.C.Const(64, uint64(i))), xs[i].(*Term), r)
		}
		return r
	}
	return xs[int(ex.Concretize(i64, "index"))]
}

func (ex *Exec) widen(t *Term, signed bool) *Term {
	if t.W == 64 {
		return t
	}
	if signed {
		return ex.C.Sext(t, 64)
	}
	return ex.C.Zext(t, 64)
}

// concInt concretises an int-typed value.
func (ex *Exec) concInt(v value, what string) int64 {
	t := v.(*Term)
	if t.IsConst() {
		return t.SignedVal()
	}
	return int64(ex.Concretize(ex.C.Sext(t, 64), what))
}

const maxAlloc = 1 << 24

func (ex *Exec) allocSize(t *Term, msg string) int {
	if t.IsConst() {
		n := t.SignedVal()
		if n < 0 {
			ex.rtPanic(msg)
		}
		if n > maxAlloc {
			panic(pathAbort{reason: "limit:alloc", detail: fmt.Sprint(n)})
		}
		return int(n)
	}
	t64 := ex.C.Sext(t, 64)
	if !ex.Branch(ex.C.Cmp(OpSle, ex.C.Const(64, 0), t64)) {
		ex.rtPanic(msg)
	}
	n := int64(ex.Concretize(t64, "alloc size"))
	if n > maxAlloc {
		panic(pathAbort{reason: "limit:alloc", detail: fmt.Sprint(n)})
	}
	return int(n)
}

func (ex *Exec) prepareCall(fr *frame, call *ssa.CallCommon) (fn value, args []value) {
	v := fr.get(call.Value)
	if call.Method == nil {
		fn = v
	} else {
		recv := v.(iface)
		if recv.t == nil {
			ex.rtPanic("invalid memory address or nil pointer dereference (method call on nil interface)")
		}
		f := ex.P.Prog.LookupMethod(recv.t, call.Method.Pkg(), call.Method.Name())
		if f == nil {
			panic(engineErr("method set for dynamic type %v does not contain %s", recv.t, call.Method))
		}
		fn = f
		args = append(args, recv.v)
	}
	for _, arg := range call.Args {
		args = append(args, fr.get(arg))
	}
	return
}

func (ex *Exec) call(caller *frame, callpos token.Pos, fn value, args []value) value {
	switch fn := fn.(type) {
	case *ssa.Function:
		if fn == nil {
			ex.rtPanic("invalid memory address or nil pointer dereference (call of nil func)")
		}
		return ex.callSSA(caller, callpos, fn, args, nil)
	case *closure:
		if fn == nil {
			ex.rtPanic("invalid memory address or nil pointer dereference (call of nil func)")
		}
		return ex.callSSA(caller, callpos, fn.Fn, args, fn.Env)
	case *ssa.Builtin:
		return ex.callBuiltin(caller, callpos, fn, args)
	}
	panic(engineErr("cannot call %T", fn))
}

const maxDepth = 400

func (ex *Exec) callSSA(caller *frame, callpos token.Pos, fn *ssa.Function, args []value, env []value) value {
	if fn.Parent() == nil {
		name := fn.String()
		if rep, ok := ex.P.Replace[name]; ok && (caller == nil || caller.fn != rep) {
			fn = rep
			name = fn.String()
		}
		if fn.Pkg != nil && fn.Name() == "init" && fn.Signature.Recv() == nil && fn == fn.Pkg.Func("init") {
			if !ex.P.InitAllow(fn.Pkg.Pkg.Path()) {
				return nil
			}
		}
		if strings.HasPrefix(fn.Name(), "zzsym") && len(fn.Blocks) == 0 {
			return ex.harnessIntrinsic(caller, fn, args)
		}
		if ext := intrinsics[name]; ext != nil {
			fr := &frame{ex: ex, caller: caller, fn: fn}
			return ext(ex, fr, args)
		}
		if fn.Blocks == nil {
			if g := genericIntrinsic(fn); g != nil {
				fr := &frame{ex: ex, caller: caller, fn: fn}
				return g(ex, fr, args)
			}
			panic(engineErr("no code for function: %s", name))
		}
	}
	if fn.TypeParams().Len() > 0 && len(fn.TypeArgs()) == 0 {
		panic(engineErr("uninstantiated generic function %s", fn))
	}
	ex.depth++
	if ex.depth > maxDepth {
		panic(pathAbort{reason: "limit:depth", detail: fn.String()})
	}
	defer func() { ex.depth-- }()
	ex.stats.Funcs[fn.String()]++

	fr := &frame{ex: ex, caller: caller, fn: fn}
	fr.env = make(map[ssa.Value]value, 16)
	fr.block = fn.Blocks[0]
	fr.locals = make([]value, len(fn.Locals))
	for i, l := range fn.Locals {
		fr.locals[i] = ex.zero(deref(l.Type()))
		fr.env[l] = &fr.locals[i]
	}
	for i, p := range fn.Params {
		fr.env[p] = args[i]
	}
	for i, fv := range fn.FreeVars {
		fr.env[fv] = env[i]
	}
	ex.cur = fr
	for fr.block != nil {
		ex.runFrame(fr)
	}
	ex.cur = caller
	if fr.result == nil {
		// recovered panic without named results, or no results
		res := fn.Signature.Results()
		switch res.Len() {
		case 0:
		case 1:
			fr.result = ex.zero(res.At(0).Type())
		default:
			fr.result = ex.zero(res)
		}
	}
	return fr.result
}

func (ex *Exec) runFrame(fr *frame) {
	defer func() {
		if fr.block == nil {
			return
		}
		r := recover()
		tp, ok := r.(targetPanic)
		if !ok {
			panic(r) // path abort / engine error / engine bug: do not run target defers
		}
		fr.panicking = true
		fr.panic = tp
		ex.cur = fr
		fr.runDefers()
		fr.block = fr.fn.Recover
		if fr.block == nil {
			fr.result = nil
		}
	}()
	for {
		nonPhis := ex.executePhis(fr)
		for _, instr := range nonPhis {
			if ex.visitInstr(fr, instr) == kReturn {
				return
			}
		}
	}
}

func (ex *Exec) executePhis(fr *frame) []ssa.Instruction {
	firstNonPhi := -1
	for i, instr := range fr.block.Instrs {
		if _, ok := instr.(*ssa.Phi); !ok {
			firstNonPhi = i
			break
		}
	}
	nonPhis := fr.block.Instrs[firstNonPhi:]
	if firstNonPhi > 0 {
		phis := fr.block.Instrs[:firstNonPhi]
		predIndex := slices.Index(fr.block.Preds, fr.prevBlock)
		fr.phitemps = fr.phitemps[:0]
		for _, phi := range phis {
			phi := phi.(*ssa.Phi)
			fr.phitemps = append(fr.phitemps, fr.get(phi.Edges[predIndex]))
		}
		for i, phi := range phis {
			fr.env[phi.(*ssa.Phi)] = fr.phitemps[i]
		}
	}
	return nonPhis
}

func (ex *Exec) doRecover(caller *frame) value {
	if caller != nil && !caller.panicking && caller.caller != nil && caller.caller.panicking {
		caller.caller.panicking = false
		p := caller.caller.panic
		caller.caller.panic = targetPanic{}
		return p.v
	}
	return iface{}
}

func (ex *Exec) typeAssert(instr *ssa.TypeAssert, itf iface) value {
	var v value
	err := ""
	if itf.t == nil {
		err = fmt.Sprintf("interface conversion: interface is nil, not %s", instr.AssertedType)
	} else if idst, ok := instr.AssertedType.Underlying().(*types.Interface); ok && !isTypeParam(instr.AssertedType) {
		v = itf
		if !ex.implements(itf.t, idst) {
			err = fmt.Sprintf("interface conversion: %v is not %v", itf.t, instr.AssertedType)
		}
	} else if types.Identical(itf.t, instr.AssertedType) {
		v = itf.v
	} else {
		err = fmt.Sprintf("interface conversion: interface is %s, not %s", itf.t, instr.AssertedType)
	}
	if err != "" {
		if !instr.CommaOk {
			ex.rtPanic(err)
		}
		return tuple{ex.zero(instr.AssertedType), ex.C.Bool(false)}
	}
	if instr.CommaOk {
		return tuple{v, ex.C.Bool(true)}
	}
	return v
}

func isTypeParam(t types.Type) bool {
	_, ok := types.Unalias(t).(*types.TypeParam)
	return ok
}

func (ex *Exec) implements(t types.Type, it *types.Interface) bool {
	if it.NumMethods() == 0 {
		return true
	}
	return types.Implements(t, it)
}

func (ex *Exec) constValue(c *ssa.Const) value {
	if c.Value == nil {
		return ex.zero(c.Type())
	}
	t := c.Type()
	if tp, ok := types.Unalias(t).(*types.TypeParam); ok {
		_ = tp
		panic(engineErr("constant of type parameter type"))
	}
	if b, ok := t.Underlying().(*types.Basic); ok {
		switch {
		case b.Info()&types.IsBoolean != 0:
			return ex.C.Bool(constBool(c))
		case b.Info()&types.IsInteger != 0:
			w, signed := intWidth(b)
			if signed {
				return ex.C.Const(w, uint64(c.Int64()))
			}
			return ex.C.Const(w, c.Uint64())
		case b.Kind() == types.Float32:
			return float32(c.Float64())
		case b.Kind() == types.Float64 || b.Kind() == types.UntypedFloat:
			return c.Float64()
		case b.Info()&types.IsComplex != 0:
			return c.Complex128()
		case b.Info()&types.IsString != 0:
			return constString(c)
		}
	}
	panic(engineErr("constValue: %s", c))
}

var lateLoadCache sync.Map // *ssa.Return -> []bool

// lateLoads reports which results of a multi-value return are loads (of a local variable or a field
// reached from one) that go/ssa placed before a call evaluated later in the same return statement.
func lateLoads(ret *ssa.Return) []bool {
	if v, ok := lateLoadCache.Load(ret); ok {
		r, _ := v.([]bool)
		return r
	}
	var out []bool
	blk := ret.Block()
	idx := map[ssa.Instruction]int{}
	for i, in := range blk.Instrs {
		idx[in] = i
	}
	for i, r := range ret.Results {
		u, ok := r.(*ssa.UnOp)
		if !ok || u.Op != token.MUL || u.Block() != blk {
			continue
		}
		if refs := u.Referrers(); refs == nil || len(*refs) != 1 {
			continue
		}
		// a call between the load and the return, whose result is also returned
		for j := idx[u] + 1; j < len(blk.Instrs)-1; j++ {
			if _, isCall := blk.Instrs[j].(*ssa.Call); isCall {
				if out == nil {
					out = make([]bool, len(ret.Results))
				}
				out[i] = true
				break
			}
		}
	}
	lateLoadCache.Store(ret, out)
	return out
}

// storeInPlace writes v into *dst. Aggregates are copied element-wise into the existing cells so that
// pointers to fields/elements taken before the store stay valid (go/ssa does emit "&x.f" before "x = T{}").
func storeInPlace(dst *value, v value) {
	switch nv := v.(type) {
	case structure:
		if old, ok := (*dst).(structure); ok && len(old) == len(nv) {
			for i := range nv {
				storeInPlace(&old[i], nv[i])
			}
			return
		}
	case array:
		if old, ok := (*dst).(array); ok && len(old) == len(nv) {
			for i := range nv {
				storeInPlace(&old[i], nv[i])
			}
			return
		}
	}
	*dst = copyVal(v)
}
