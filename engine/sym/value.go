package sym

import (
	"fmt"
	"go/types"
	"strings"

	"golang.org/x/tools/go/ssa"
)

// value is the boxed representation of every interpreted Go value:
//
//	*Term                 bool and all integer kinds (constant or symbolic)
//	float64, float32, complex128   concrete only
//	string                concrete string
//	symstr                string with symbolic bytes (concrete length)
//	*value                pointer (nil pointer = (*value)(nil))
//	array, structure      aggregates (copied on load/store)
//	[]value               slice (native aliasing; concrete offset/len/cap)
//	iface                 interface value with concrete dynamic type
//	*hmap                 map (nil map = (*hmap)(nil))
//	*channel              channel
//	*ssa.Function, *ssa.Builtin, *closure   funcs
//	tuple, iter           multi-results, range state
type value interface{}

type tuple []value
type array []value
type structure []value
type symstr []*Term

type iface struct {
	t types.Type
	v value
}

type closure struct {
	Fn  *ssa.Function
	Env []value
}

type channel struct {
	buf    []value
	cap    int
	closed bool
	elemT  types.Type
}

type mapEntry struct {
	k, v value
}

type hmap struct {
	keyT    types.Type
	entries []*mapEntry
}

type iter interface {
	next(ex *Exec) tuple
}

type bad struct{}

func isIntKind(b *types.Basic) bool { return b.Info()&types.IsInteger != 0 }

func intWidth(t types.Type) (w int, signed bool) {
	b, ok := t.Underlying().(*types.Basic)
	if !ok {
		panic(engineErr("intWidth of %s", t))
	}
	switch b.Kind() {
	case types.Bool, types.UntypedBool:
		return 0, false
	case types.Int8:
		return 8, true
	case types.Int16:
		return 16, true
	case types.Int32, types.UntypedRune:
		return 32, true
	case types.Int64, types.Int, types.UntypedInt:
		return 64, true
	case types.Uint8:
		return 8, false
	case types.Uint16:
		return 16, false
	case types.Uint32:
		return 32, false
	case types.Uint64, types.Uint, types.Uintptr:
		return 64, false
	}
	panic(engineErr("intWidth of %s", t))
}

// zero returns the zero value of type t.
func (ex *Exec) zero(t types.Type) value {
	switch t := t.(type) {
	case *types.Basic:
		if t.Kind() == types.UntypedNil {
			panic("untyped nil has no zero value")
		}
		if t.Info()&types.IsUntyped != 0 {
			t = types.Default(t).(*types.Basic)
		}
		switch {
		case t.Info()&types.IsBoolean != 0:
			return ex.C.Bool(false)
		case t.Info()&types.IsInteger != 0:
			w, _ := intWidth(t)
			return ex.C.Const(w, 0)
		case t.Kind() == types.Float32:
			return float32(0)
		case t.Kind() == types.Float64:
			return float64(0)
		case t.Info()&types.IsComplex != 0:
			return complex128(0)
		case t.Info()&types.IsString != 0:
			return ""
		case t.Kind() == types.UnsafePointer:
			return (*value)(nil)
		}
		panic(engineErr("zero for basic type %s", t))
	case *types.Pointer:
		return (*value)(nil)
	case *types.Array:
		a := make(array, t.Len())
		for i := range a {
			a[i] = ex.zero(t.Elem())
		}
		return a
	case *types.Named:
		return ex.zero(t.Underlying())
	case *types.Alias:
		return ex.zero(types.Unalias(t))
	case *types.Interface:
		return iface{}
	case *types.Slice:
		return []value(nil)
	case *types.Struct:
		s := make(structure, t.NumFields())
		for i := range s {
			s[i] = ex.zero(t.Field(i).Type())
		}
		return s
	case *types.Tuple:
		if t.Len() == 1 {
			return ex.zero(t.At(0).Type())
		}
		s := make(tuple, t.Len())
		for i := range s {
			s[i] = ex.zero(t.At(i).Type())
		}
		return s
	case *types.Chan:
		return (*channel)(nil)
	case *types.Map:
		return (*hmap)(nil)
	case *types.Signature:
		return (*ssa.Function)(nil)
	case *types.TypeParam:
		panic(engineErr("zero of type parameter %s (generic function not instantiated)", t))
	}
	panic(engineErr("zero: unexpected type %T %s", t, t))
}

// copyVal copies aggregates (arrays, structs) recursively; other values are immutable or references.
func copyVal(v value) value {
	switch v := v.(type) {
	case array:
		a := make(array, len(v))
		for i := range v {
			a[i] = copyVal(v[i])
		}
		return a
	case structure:
		s := make(structure, len(v))
		for i := range v {
			s[i] = copyVal(v[i])
		}
		return s
	}
	return v
}

func sameType(x, y types.Type) bool {
	if x == nil {
		return y == nil
	}
	return y != nil && types.Identical(x, y)
}

// equalsTerm returns a Bool term for x == y under Go's comparison rules.
func (ex *Exec) equalsTerm(x, y value) *Term {
	c := ex.C
	switch x := x.(type) {
	case *Term:
		return c.Eq(x, y.(*Term))
	case float64:
		return c.Bool(x == y.(float64))
	case float32:
		return c.Bool(x == y.(float32))
	case complex128:
		return c.Bool(x == y.(complex128))
	case string:
		switch y := y.(type) {
		case string:
			return c.Bool(x == y)
		case symstr:
			return ex.strEq(ex.toSymstr(x), y)
		}
	case symstr:
		return ex.strEq(x, ex.toSymstr(y))
	case *value:
		return c.Bool(x == y.(*value))
	case *channel:
		return c.Bool(x == y.(*channel))
	case *hmap:
		return c.Bool(x == y.(*hmap))
	case structure:
		y := y.(structure)
		r := c.Bool(true)
		for i := range x {
			r = c.And(r, ex.equalsTerm(x[i], y[i]))
			if r.IsFalse() {
				return r
			}
		}
		return r
	case array:
		y := y.(array)
		r := c.Bool(true)
		for i := range x {
			r = c.And(r, ex.equalsTerm(x[i], y[i]))
			if r.IsFalse() {
				return r
			}
		}
		return r
	case iface:
		y := y.(iface)
		if !sameType(x.t, y.t) {
			return c.Bool(false)
		}
		if x.t == nil {
			return c.Bool(true)
		}
		if !types.Comparable(x.t) {
			ex.rtPanic("comparing uncomparable type " + x.t.String())
		}
		return ex.equalsTerm(x.v, y.v)
	case *ssa.Function:
		if yf, ok := y.(*ssa.Function); ok {
			return c.Bool(x == yf)
		}
		return c.Bool(false)
	case *closure:
		if yc, ok := y.(*closure); ok {
			return c.Bool(x == yc)
		}
		return c.Bool(false)
	case []value:
		// only nil comparisons reach here
		yy, _ := y.([]value)
		return c.Bool(x == nil && yy == nil)
	}
	panic(engineErr("equalsTerm: unexpected %T vs %T", x, y))
}

func (ex *Exec) toSymstr(v value) symstr {
	switch v := v.(type) {
	case symstr:
		return v
	case string:
		s := make(symstr, len(v))
		for i := 0; i < len(v); i++ {
			s[i] = ex.C.Const(8, uint64(v[i]))
		}
		return s
	}
	panic(engineErr("toSymstr of %T", v))
}

// normStr turns a symstr with all-constant bytes back into a Go string.
func normStr(s symstr) value {
	for _, b := range s {
		if !b.IsConst() {
			return s
		}
	}
	bs := make([]byte, len(s))
	for i, b := range s {
		bs[i] = byte(b.V)
	}
	return string(bs)
}

func (ex *Exec) strEq(a, b symstr) *Term {
	if len(a) != len(b) {
		return ex.C.Bool(false)
	}
	r := ex.C.Bool(true)
	for i := range a {
		r = ex.C.And(r, ex.C.Eq(a[i], b[i]))
		if r.IsFalse() {
			return r
		}
	}
	return r
}

func strLen(v value) int {
	switch v := v.(type) {
	case string:
		return len(v)
	case symstr:
		return len(v)
	}
	panic(engineErr("strLen of %T", v))
}

func isNilValue(v value) bool {
	switch v := v.(type) {
	case *value:
		return v == nil
	case []value:
		return v == nil
	case *hmap:
		return v == nil
	case *channel:
		return v == nil
	case iface:
		return v.t == nil
	case *ssa.Function:
		return v == nil
	case *closure:
		return v == nil
	case nil:
		return true
	}
	return false
}

func toString(v value) string {
	var b strings.Builder
	writeValue(&b, v, 0)
	return b.String()
}

func writeValue(b *strings.Builder, v value, depth int) {
	if depth > 4 {
		b.WriteString("...")
		return
	}
	switch v := v.(type) {
	case nil:
		b.WriteString("<nil>")
	case *Term:
		if v.IsConst() {
			if v.W == 0 {
				fmt.Fprintf(b, "%v", v.V == 1)
			} else {
				fmt.Fprintf(b, "%d", v.V)
			}
		} else {
			fmt.Fprintf(b, "<sym%d>", v.W)
		}
	case string:
		fmt.Fprintf(b, "%q", v)
	case symstr:
		fmt.Fprintf(b, "<symstr len %d>", len(v))
	case *value:
		fmt.Fprintf(b, "%p", v)
	case array:
		b.WriteString("[")
		for i, e := range v {
			if i > 0 {
				b.WriteString(" ")
			}
			if i > 16 {
				b.WriteString("...")
				break
			}
			writeValue(b, e, depth+1)
		}
		b.WriteString("]")
	case structure:
		b.WriteString("{")
		for i, e := range v {
			if i > 0 {
				b.WriteString(" ")
			}
			writeValue(b, e, depth+1)
		}
		b.WriteString("}")
	case []value:
		b.WriteString("[]{")
		for i, e := range v {
			if i > 0 {
				b.WriteString(" ")
			}
			if i > 16 {
				b.WriteString("...")
				break
			}
			writeValue(b, e, depth+1)
		}
		b.WriteString("}")
	case iface:
		if v.t == nil {
			b.WriteString("<nil iface>")
		} else {
			fmt.Fprintf(b, "(%s)", v.t)
			writeValue(b, v.v, depth+1)
		}
	case tuple:
		b.WriteString("(")
		for i, e := range v {
			if i > 0 {
				b.WriteString(", ")
			}
			writeValue(b, e, depth+1)
		}
		b.WriteString(")")
	default:
		fmt.Fprintf(b, "%T", v)
	}
}
