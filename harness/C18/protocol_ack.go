package protocol

//symgo:pkg github.com/pion/dtls/v3/pkg/protocol
//symgo:param NACK quick=2 thorough=4
//symgo:param NACKEXTRA quick=3 thorough=17

// RFC 9147 section 7:
//
//	struct { uint64 epoch; uint64 sequence_number; } RecordNumber;
//	struct { RecordNumber record_numbers<0..2^16-1>; } ACK;
//
// i.e. a 2-byte big-endian byte count L followed by exactly L bytes, L a multiple of 16.

func zzBE16(b []byte) uint16 { return uint16(b[0])<<8 | uint16(b[1]) }

func zzBE64(b []byte) uint64 {
	var v uint64
	for i := 0; i < 8; i++ {
		v = v<<8 | uint64(b[i])
	}
	return v
}

// ACK round trip: for every list of 0..NACK record numbers with arbitrary 64-bit epoch and sequence
// number, Marshal produces the RFC 9147 layout (2-byte length 16*n, then epoch||seq per record, written
// out here byte by byte) and Unmarshal(Marshal(a)) returns the same list. Every strict prefix of the
// encoding is rejected (truncation) and so is the encoding followed by one extra byte (trailing bytes).
//
//symgo:entry covers=rt_empty,rt_nonempty,prefix_rejected
func zzACKRoundTrip() {
	n := zzsymChoice("nrec", zzsymParam("NACK")+1)
	a := ACK{}
	for i := 0; i < n; i++ {
		a.Records = append(a.Records, RecordNumber{Epoch: zzsymU64("epoch"), SequenceNumber: zzsymU64("seq")})
	}
	raw, err := a.Marshal()
	zzsymAssert(err == nil, "ack_marshal_ok")
	zzsymAssert(len(raw) == 2+16*n, "ack_marshal_len")
	zzsymAssert(zzBE16(raw) == uint16(16*n), "ack_marshal_declared_len")
	for i := 0; i < n; i++ {
		zzsymAssert(zzBE64(raw[2+16*i:]) == a.Records[i].Epoch, "ack_marshal_epoch_layout")
		zzsymAssert(zzBE64(raw[10+16*i:]) == a.Records[i].SequenceNumber, "ack_marshal_seq_layout")
	}
	var b ACK
	zzsymAssert(b.Unmarshal(raw) == nil, "ack_rt_accepts")
	zzsymAssert(len(b.Records) == n, "ack_rt_count")
	for i := 0; i < n; i++ {
		zzsymAssert(b.Records[i].Epoch == a.Records[i].Epoch, "ack_rt_epoch")
		zzsymAssert(b.Records[i].SequenceNumber == a.Records[i].SequenceNumber, "ack_rt_seq")
	}
	if n == 0 {
		zzsymCover("rt_empty")
	} else {
		zzsymCover("rt_nonempty")
	}
	// truncation: every strict prefix is rejected
	for k := 0; k < len(raw); k++ {
		var c ACK
		zzsymAssert(c.Unmarshal(raw[:k]) != nil, "ack_truncated_rejected")
		zzsymCover("prefix_rejected")
	}
	// trailing byte after the declared length is rejected
	var d ACK
	zzsymAssert(d.Unmarshal(append(append([]byte{}, raw...), zzsymU8("extra"))) != nil, "ack_trailing_rejected")
}

// ACK decoder against the RFC 9147 reference on every byte string of length 0..2+16*NACK+NACKEXTRA:
// accepted iff len>=2, the declared length equals the number of remaining bytes exactly (no trailing
// bytes consumed, no truncated input accepted) and is a multiple of 16; decoded record numbers equal the
// big-endian fields at their RFC offsets; re-encoding an accepted input gives the input back (the
// encoding is canonical, so it is a fixed point of decode-then-encode).
//
//symgo:entry covers=accepted_empty,accepted_records,rejected_short,rejected_len_mismatch,rejected_partial_record
func zzACKDecodeRef() {
	max := 2 + 16*zzsymParam("NACK") + zzsymParam("NACKEXTRA")
	ln := zzsymChoice("len", max+1)
	data := zzsymBytes("d", ln)
	var a ACK
	err := a.Unmarshal(data)
	if ln < 2 {
		zzsymAssert(err != nil, "ack_short_rejected")
		zzsymCover("rejected_short")
		return
	}
	declared := int(zzBE16(data))
	if declared != ln-2 {
		// covers both truncation (declared > remaining) and trailing bytes (declared < remaining)
		zzsymAssert(err != nil, "ack_declared_len_mismatch_rejected")
		zzsymCover("rejected_len_mismatch")
		return
	}
	if (ln-2)%16 != 0 {
		zzsymAssert(err != nil, "ack_partial_record_rejected")
		zzsymCover("rejected_partial_record")
		return
	}
	zzsymAssert(err == nil, "ack_wellformed_accepted")
	n := (ln - 2) / 16
	zzsymAssert(len(a.Records) == n, "ack_ref_count")
	for i := 0; i < n; i++ {
		zzsymAssert(a.Records[i].Epoch == zzBE64(data[2+16*i:]), "ack_ref_epoch")
		zzsymAssert(a.Records[i].SequenceNumber == zzBE64(data[10+16*i:]), "ack_ref_seq")
	}
	raw, merr := a.Marshal()
	zzsymAssert(merr == nil, "ack_reencode_ok")
	zzsymAssert(zzsymEqBytes(raw, data), "ack_fixpoint")
	if n == 0 {
		zzsymCover("accepted_empty")
	} else {
		zzsymCover("accepted_records")
	}
}
