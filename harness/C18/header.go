package recordlayer

//symgo:pkg github.com/pion/dtls/v3/pkg/protocol/recordlayer
//symgo:param NCID quick=4 thorough=8

import "github.com/pion/dtls/v3/pkg/protocol"

// Record header: Unmarshal(Marshal(h)) == h for every field value and CID length 0..NCID.
//
//symgo:entry covers=rt_ok,overflow
func zzHeaderRoundTrip() {
	ncid := zzsymChoice("cidlen", zzsymParam("NCID")+1)
	h := Header{
		ContentType:    protocol.ContentType(zzsymU8("ct")),
		ContentLen:     zzsymU16("len"),
		Version:        protocol.Version{Major: zzsymU8("maj"), Minor: zzsymU8("min")},
		Epoch:          zzsymU16("epoch"),
		SequenceNumber: zzsymU64("seq"),
	}
	if ncid > 0 {
		h.ConnectionID = zzsymBytes("cid", ncid)
		zzsymAssume(h.ContentType == protocol.ContentTypeConnectionID)
	} else {
		zzsymAssume(h.ContentType != protocol.ContentTypeConnectionID)
	}
	raw, err := h.Marshal()
	if h.SequenceNumber > MaxSequenceNumber {
		zzsymAssert(err != nil, "marshal_refuses_seq_overflow")
		zzsymCover("overflow")
		return
	}
	zzsymAssert(err == nil, "marshal_ok")
	zzsymAssert(len(raw) == 13+ncid, "marshal_len")
	var g Header
	if ncid > 0 {
		g.ConnectionID = make([]byte, ncid)
	}
	uerr := g.Unmarshal(raw)
	okVersion := zzsymOr(zzsymAnd(h.Version.Major == 0xfe, h.Version.Minor == 0xff), zzsymAnd(h.Version.Major == 0xfe, h.Version.Minor == 0xfd))
	if uerr != nil {
		zzsymAssert(zzsymNot(okVersion), "unmarshal_rejects_only_bad_version")
		return
	}
	zzsymAssert(okVersion, "unmarshal_accepts_only_known_version")
	zzsymAssert(g.ContentType == h.ContentType, "rt_type")
	zzsymAssert(g.ContentLen == h.ContentLen, "rt_len")
	zzsymAssert(g.Version == h.Version, "rt_version")
	zzsymAssert(g.Epoch == h.Epoch, "rt_epoch")
	zzsymAssert(g.SequenceNumber == h.SequenceNumber, "rt_seq")
	zzsymAssert(zzsymEqBytes(g.ConnectionID, h.ConnectionID), "rt_cid")
	zzsymCover("rt_ok")
}
