package recordlayer

//symgo:pkg github.com/pion/dtls/v3/pkg/protocol/recordlayer
//symgo:param NDG13P quick=16 thorough=20
//symgo:param NDG13C quick=22 thorough=30
//symgo:param NDG13CID quick=1 thorough=2
//symgo:param NSTEPOFF quick=2 thorough=4
//symgo:param NSTEPEXTRA quick=2 thorough=4
//symgo:outside arbitrary-byte datagrams longer than NDG13P/NDG13C; longer datagrams are covered (a) by the loop-body lemmas zzUnpack13StepPlain/zzUnpack13StepCipher from an arbitrary offset and (b) by zzUnpackDatagram13Shapes for concatenations of two or three well-formed minimal records with arbitrary contents
//symgo:replace github.com/pion/dtls/v3/pkg/protocol/recordlayer.unmarshalCiphertextDatagramHeader zzUnmarshalCiphertextDatagramHeader
//symgo:stub unmarshalCiphertextDatagramHeader ends in `return header, header.Unmarshal(data)`: the Go spec does not order the read of `header` against the method call; gc reads it after the call, go/ssa (this engine) before it. The stub is the same function with the gc order made explicit (err := header.Unmarshal(data); return header, err); everything it calls is the real code.

// zzUnmarshalCiphertextDatagramHeader: see //symgo:stub above.
func zzUnmarshalCiphertextDatagramHeader(data []byte, cidLength int, cidRequired bool) (UnifiedHeader, error) {
	hasCID := data[0]&UnifiedHeaderCIDBit != 0
	if err := validateCiphertextCIDBit(hasCID, cidLength, cidRequired); err != nil {
		return UnifiedHeader{}, err
	}
	header := UnifiedHeader{}
	if hasCID {
		header.ConnectionID = make([]byte, cidLength)
	}
	err := header.Unmarshal(data)

	return header, err
}

// zzWalk13 is the reference splitter for DTLS 1.3 datagrams (RFC 9147 section 4): DTLSPlaintext
// records (type 21/22/26: 13-byte header, declared length) and DTLSCiphertext records (first byte
// 001CSLEE; header 1 + cid(C) + 1 or 2 (S) + 2 (L); with L the declared length, without L the record
// extends to the end of the datagram). status: 0 well formed, 1 truncated, 2 refused for another
// reason (unknown type, ciphertext not enabled, C bit inconsistent with the negotiated CID,
// encrypted_record outside 16..2^14+256). end is the number of datagram bytes covered by the n
// records; dropped is set when the walk stopped at a ciphertext record whose CID differs from the first
// ciphertext record's ("the rest of the datagram MUST be discarded", RFC 9147 section 4).
func zzWalk13(buf []byte, cidLen int, cidRequired, enabled bool) (status, n, end int, dropped, emptyLast bool) {
	ln := len(buf)
	off := 0
	var first []byte
	firstSet := false
	for off != ln {
		ct := buf[off]
		rem := ln - off
		if zzsymOr(ct == 21, zzsymOr(ct == 22, ct == 26)) {
			if rem < 13 {
				return 1, n, off, false, false
			}
			declared := int(zzBE16(buf[off+11:]))
			if rem < 13+declared {
				return 1, n, off, false, false
			}
			if rem == 13 {
				emptyLast = true
			}
			off += 13 + declared
			n++
			continue
		}
		if !enabled {
			return 2, n, off, false, false
		}
		if ct>>5 != 1 {
			return 2, n, off, false, false
		}
		hasC := ct&0x10 != 0
		if hasC && cidLen == 0 {
			return 2, n, off, false, false
		}
		if !hasC && cidRequired && cidLen > 0 {
			return 2, n, off, false, false
		}
		hs := zzUnifiedSize(ct, cidLen)
		if rem < hs {
			return 1, n, off, false, false
		}
		cid := []byte{}
		if hasC {
			cid = buf[off+1 : off+1+cidLen]
		}
		recEnd := ln
		if ct&0x04 != 0 {
			declared := int(zzBE16(buf[off+hs-2:]))
			if declared < 16 || declared > 16640 {
				return 2, n, off, false, false
			}
			if rem < hs+declared {
				return 1, n, off, false, false
			}
			recEnd = off + hs + declared
		} else if rem-hs < 16 || rem-hs > 16640 {
			return 2, n, off, false, false
		}
		if cidLen > 0 {
			if !firstSet {
				first, firstSet = cid, true
			} else if !zzsymEqBytes(first, cid) {
				return 0, n, off, true, false
			}
		}
		n++
		off = recEnd
	}
	return 0, n, off, false, emptyLast
}

// zzCIDOf returns the connection ID carried by the unified header at the start of rec (empty if the
// C bit is clear).
func zzCIDOf(rec []byte, cidLen int) []byte {
	if rec[0]&0x10 == 0 {
		return []byte{}
	}
	zzsymAssert(len(rec) >= 1+cidLen, "unpack13_cid_within_record")
	return rec[1 : 1+cidLen]
}

// zzCheckUnpack13 runs UnpackDatagram13 on buf in the given decoding context and asserts the C18
// partition property (see the entries below for the statement). It returns nothing; all results are
// assertions and cover labels.
func zzCheckUnpack13(buf []byte, cidLen int, cidRequired, enabled bool) {
	ln := len(buf)
	out, err := UnpackDatagram13(buf, cidLen, cidRequired, enabled)
	status, n, end, dropped, emptyLast := zzWalk13(buf, cidLen, cidRequired, enabled)
	if status == 1 {
		zzsymAssert(err != nil, "unpack13_truncated_rejected")
		zzsymCover("dg13_truncated")
		return
	}
	if err != nil {
		zzsymAssert(zzsymOr(status == 2, emptyLast), "unpack13_rejects_only_for_a_reason")
		if status == 2 {
			zzsymCover("dg13_refused")
		}
		return
	}
	// partition, checked without the walker
	off := 0
	for i, rec := range out {
		zzsymAssert(len(rec) >= 1, "unpack13_record_nonempty")
		zzsymAssert(off+len(rec) <= ln, "unpack13_records_within_datagram")
		zzsymAssert(zzsymEqBytes(rec, buf[off:off+len(rec)]), "unpack13_records_are_consecutive_datagram_bytes")
		ct := rec[0]
		if zzsymOr(ct == 21, zzsymOr(ct == 22, ct == 26)) {
			zzsymAssert(len(rec) >= 13, "unpack13_plaintext_has_header")
			zzsymAssert(len(rec) == 13+int(zzBE16(rec[11:])), "unpack13_plaintext_has_declared_length")
			zzsymCover("dg13_plain")
		} else {
			zzsymAssert(ct>>5 == 1, "unpack13_record_type_known")
			hs := zzUnifiedSize(ct, cidLen)
			zzsymAssert(len(rec) >= hs, "unpack13_ciphertext_has_header")
			if ct&0x04 != 0 {
				zzsymAssert(len(rec) == hs+int(zzBE16(rec[hs-2:])), "unpack13_ciphertext_has_declared_length")
				zzsymCover("dg13_cipher_l")
			} else {
				zzsymAssert(zzsymAnd(i == len(out)-1, off+len(rec) == ln), "unpack13_unsized_ciphertext_reaches_end")
				zzsymCover("dg13_cipher_nol")
			}
		}
		off += len(rec)
	}
	if off != ln {
		// bytes were dropped: only allowed from a ciphertext record on whose CID differs from the CID of
		// the first ciphertext record of the datagram (checked here without the walker)
		zzsymAssert(cidLen > 0, "unpack13_drop_only_with_cid")
		var firstCID []byte
		found := false
		for _, rec := range out {
			if rec[0]>>5 == 1 && !found {
				found = true
				firstCID = zzCIDOf(rec, cidLen)
			}
		}
		zzsymAssert(found, "unpack13_drop_only_after_a_ciphertext_record")
		zzsymAssert(buf[off]>>5 == 1, "unpack13_drop_only_at_ciphertext_record")
		zzsymAssert(zzsymNot(zzsymEqBytes(firstCID, zzCIDOf(buf[off:], cidLen))), "unpack13_drop_only_on_cid_mismatch")
	}
	if status == 0 {
		zzsymAssert(len(out) == n, "unpack13_record_count")
		zzsymAssert(off == end, "unpack13_covered_bytes")
		if dropped {
			zzsymCover("dg13_cid_mismatch_dropped")
		} else {
			zzsymAssert(off == ln, "unpack13_records_cover_datagram")
		}
		if n == 0 {
			zzsymCover("dg13_empty")
		}
		if n == 2 {
			zzsymCover("dg13_two")
		}
		if n == 3 {
			zzsymCover("dg13_three")
		}
		nc := 0
		for _, rec := range out {
			if rec[0]>>5 == 1 {
				nc++
			}
		}
		if nc >= 2 && cidLen > 0 {
			zzsymCover("dg13_cid_match_kept")
		}
	}
}

func zzCtx13() (cidLen int, cidRequired, enabled bool) {
	cidLen = zzsymChoice("cidlen", zzsymParam("NDG13CID")+1)
	cidRequired = zzsymChoice("cidrequired", 2) == 1
	enabled = zzsymChoice("ciphertext", 2) == 1
	return
}

// UnpackDatagram13 partition property (RFC 9147 section 4) on every datagram of 0..NDG13P arbitrary
// bytes whose first record has a plaintext type (21/22/26), in every context (negotiated CID length
// 0..NDG13CID, CID required or not, ciphertext headers enabled or not): when it succeeds the returned
// records are consecutive slices of the datagram starting at byte 0; each plaintext record is 13 + its
// declared length long, each ciphertext record with the L bit is header + declared length long, one
// without L is the last and reaches the end of the datagram; together they cover the whole datagram,
// except that everything from the first ciphertext record whose CID differs from the first ciphertext
// record's CID onward is dropped ("the rest of the datagram MUST be discarded"), and nothing else is
// ever dropped. Truncated datagrams (header or declared body cut short) are rejected. A rejection
// always has a reason (truncation, unknown type / ciphertext disabled / C-bit vs negotiated CID /
// record size limits, or an empty final plaintext record).
//
//symgo:entry covers=dg13_empty,dg13_plain,dg13_truncated,dg13_refused
func zzUnpackDatagram13PlainFirst() {
	cidLen, cidRequired, enabled := zzCtx13()
	ln := zzsymChoice("len", zzsymParam("NDG13P")+1)
	buf := zzsymBytes("d", ln)
	if ln > 0 {
		zzsymAssume(zzsymOr(buf[0] == 21, zzsymOr(buf[0] == 22, buf[0] == 26)))
	}
	zzCheckUnpack13(buf, cidLen, cidRequired, enabled)
}

// Same property as zzUnpackDatagram13PlainFirst on every datagram of 1..NDG13C arbitrary bytes whose
// first byte is NOT a plaintext type (so: a ciphertext record of any C/S/L/epoch combination, or an
// unknown type), in every context.
//
//symgo:entry covers=dg13_cipher_l,dg13_cipher_nol,dg13_truncated,dg13_refused
func zzUnpackDatagram13OtherFirst() {
	cidLen, cidRequired, enabled := zzCtx13()
	ln := zzsymChoice("len", zzsymParam("NDG13C")) + 1
	buf := zzsymBytes("d", ln)
	zzsymAssume(zzsymNot(zzsymOr(buf[0] == 21, zzsymOr(buf[0] == 22, buf[0] == 26))))
	zzCheckUnpack13(buf, cidLen, cidRequired, enabled)
}

// zzRec13 appends one well-formed minimal record of the given kind with symbolic contents:
// 0 = plaintext (symbolic type among 21/22/26, 1-byte body), 1/2 = ciphertext with L bit without/with
// CID (16-byte body), 3/4 = ciphertext without L bit without/with CID (16-byte body, must be last).
func zzRec13(kind int, s16 bool, cidLen int) []byte {
	if kind == 0 {
		r := zzsymBytes("prec", 14)
		zzsymAssume(zzsymOr(r[0] == 21, zzsymOr(r[0] == 22, r[0] == 26)))
		r[11], r[12] = 0, 1 // declared length 1
		return r
	}
	withC := kind == 2 || kind == 4
	withL := kind <= 2
	hs := 2
	bits := byte(0x20)
	if withC {
		hs += cidLen
		bits |= 0x10
	}
	if s16 {
		hs++
		bits |= 0x08
	}
	if withL {
		hs += 2
		bits |= 0x04
	}
	r := zzsymBytes("crec", hs+16)
	r[0] = bits | r[0]&3 // epoch bits stay symbolic
	if withL {
		r[hs-2], r[hs-1] = 0, 16 // declared length 16
	}
	return r
}

// UnpackDatagram13 on datagrams that are the concatenation of two well-formed minimal records plus an
// optional third plaintext record, every combination of record kinds (plaintext; ciphertext with and
// without length, with and without CID, 8- or 16-bit sequence number), arbitrary contents (types, CIDs,
// epochs, sequence numbers, bodies), every context with ciphertext enabled: same partition property
// as zzUnpackDatagram13PlainFirst; in particular the result is exactly the records the datagram was
// built from, cut before the first ciphertext record whose CID differs from the first one's.
//
//symgo:entry covers=dg13_two,dg13_three,dg13_cipher_l,dg13_cipher_nol,dg13_plain,dg13_cid_mismatch_dropped,dg13_cid_match_kept,dg13_refused
func zzUnpackDatagram13Shapes() {
	cidLen := zzsymChoice("cidlen", zzsymParam("NDG13CID")+1)
	cidRequired := zzsymChoice("cidrequired", 2) == 1
	s16 := zzsymChoice("S", 2) == 1
	nk := 3
	if cidLen > 0 {
		nk = 5
	}
	k1 := zzsymChoice("kind1", nk)
	if k1 >= 3 {
		k1 -= 2 // the first record carries a length: kinds 0,1,2
		if k1 == 0 {
			k1 = 1
		}
	}
	k2 := zzsymChoice("kind2", nk)
	third := false
	if k2 <= 2 {
		third = zzsymChoice("third", 2) == 1
	}
	buf := append([]byte{}, zzRec13(k1, s16, cidLen)...)
	buf = append(buf, zzRec13(k2, s16, cidLen)...)
	if third {
		buf = append(buf, zzRec13(0, s16, cidLen)...)
	}
	zzCheckUnpack13(buf, cidLen, cidRequired, true)
}

// Loop body of UnpackDatagram13 for plaintext records, from an arbitrary offset: for every buffer of
// offset+0..13+NSTEPEXTRA+1 bytes and every offset 0..NSTEPOFF (offset < len, as the loop guarantees):
// on success the record is exactly buf[offset:next], next = offset+13+declared length <= len(buf);
// if fewer than 13 header bytes or fewer than the declared body bytes remain, it fails.
//
//symgo:entry covers=stepp_ok,stepp_truncated
func zzUnpack13StepPlain() {
	off := zzsymChoice("offset", zzsymParam("NSTEPOFF")+1)
	rem := zzsymChoice("remaining", 13+zzsymParam("NSTEPEXTRA")+2) + 1
	buf := zzsymBytes("d", off+rem)
	rec, next, err := unpackPlaintextDatagram13Record(buf, off)
	truncated := rem < 13
	if !truncated {
		truncated = rem < 13+int(zzBE16(buf[off+11:]))
	}
	if truncated {
		zzsymAssert(err != nil, "stepp_truncated_rejected")
		zzsymCover("stepp_truncated")
		return
	}
	if err != nil {
		zzsymAssert(rem == 13, "stepp_rejects_only_truncated_or_empty_last_record")
		return
	}
	zzsymAssert(next == off+13+int(zzBE16(buf[off+11:])), "stepp_next_is_declared_end")
	zzsymAssert(zzsymAnd(next > off, next <= len(buf)), "stepp_progress_within_buffer")
	zzsymAssert(len(rec) == next-off, "stepp_record_len")
	zzsymAssert(zzsymEqBytes(rec, buf[off:next]), "stepp_record_bytes")
	zzsymCover("stepp_ok")
}

// Loop body of UnpackDatagram13 for ciphertext records, from an arbitrary offset, in every CID context:
// for every buffer of offset+1..1+cid+4+16+NSTEPEXTRA bytes whose byte at offset has the ciphertext
// fixed bits: on success the record is exactly buf[offset:next]; with the L bit next = offset + header
// + declared length <= len(buf) and the walk continues, without it next = len(buf) and the walk is
// done; the reported CID is the header's CID field; a header or declared body cut short by the end of
// the buffer fails.
//
//symgo:entry covers=stepc_ok_l,stepc_ok_nol,stepc_truncated,stepc_refused
func zzUnpack13StepCipher() {
	cidLen := zzsymChoice("cidlen", zzsymParam("NDG13CID")+1)
	cidRequired := zzsymChoice("cidrequired", 2) == 1
	off := zzsymChoice("offset", zzsymParam("NSTEPOFF")+1)
	rem := zzsymChoice("remaining", 1+cidLen+4+16+zzsymParam("NSTEPEXTRA")) + 1
	buf := zzsymBytes("d", off+rem)
	b := buf[off]
	zzsymAssume(b>>5 == 1)
	rec, cid, next, done, err := unpackCiphertextDatagramRecord(buf, off, cidLen, cidRequired)
	hasC := b&0x10 != 0
	if (hasC && cidLen == 0) || (!hasC && cidRequired && cidLen > 0) {
		zzsymCover("stepc_refused")
		return // policy, not part of the property
	}
	hs := zzUnifiedSize(b, cidLen)
	if rem < hs {
		zzsymAssert(err != nil, "stepc_header_truncated_rejected")
		zzsymCover("stepc_truncated")
		return
	}
	end := len(buf)
	if b&0x04 != 0 {
		declared := int(zzBE16(buf[off+hs-2:]))
		if rem < hs+declared {
			zzsymAssert(err != nil, "stepc_body_truncated_rejected")
			zzsymCover("stepc_truncated")
			return
		}
		end = off + hs + declared
	}
	if err != nil {
		zzsymAssert(end-off-hs < 16, "stepc_rejects_only_truncated_or_short_record")
		return
	}
	zzsymAssert(next == end, "stepc_next_is_declared_end")
	zzsymAssert(done == (b&0x04 == 0), "stepc_done_iff_no_length")
	zzsymAssert(zzsymAnd(next > off, next <= len(buf)), "stepc_progress_within_buffer")
	zzsymAssert(len(rec) == next-off, "stepc_record_len")
	zzsymAssert(zzsymEqBytes(rec, buf[off:next]), "stepc_record_bytes")
	if hasC {
		zzsymAssert(zzsymEqBytes(cid, buf[off+1:off+1+cidLen]), "stepc_cid")
	} else {
		zzsymAssert(len(cid) == 0, "stepc_no_cid")
	}
	if b&0x04 != 0 {
		zzsymCover("stepc_ok_l")
	} else {
		zzsymCover("stepc_ok_nol")
	}
}
