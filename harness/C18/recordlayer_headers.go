package recordlayer

//symgo:pkg github.com/pion/dtls/v3/pkg/protocol/recordlayer
//symgo:param NCIDH quick=3 thorough=8
//symgo:param NUCID quick=3 thorough=8
//symgo:param NUEXTRA quick=2 thorough=4
//symgo:outside unified-header values that are not in the encoder's domain are excluded from the round trip: an 8-bit sequence number field (SeqBit=false) holding a value >255, a Length without LengthBit, EpochLow>3 (the wire format has no room for them)

import "github.com/pion/dtls/v3/pkg/protocol"

func zzBE16(b []byte) uint16 { return uint16(b[0])<<8 | uint16(b[1]) }

func zzBE48(b []byte) uint64 {
	var v uint64
	for i := 0; i < 6; i++ {
		v = v<<8 | uint64(b[i])
	}
	return v
}

// Record header decoder (legacy 13-byte layout of RFC 6347 section 4.1 and the tls12_cid layout of
// RFC 9146 section 4: type(1) version(2) epoch(2) sequence_number(6) [cid(n)] length(2)) against a
// reference written from those layouts, on every byte string of length 0..13+n+2, for every negotiated
// CID length n in 0..NCIDH: input shorter than the header is rejected (truncation); an accepted header
// has exactly the fields found at the RFC offsets, the CID is present iff the type is tls12_cid(25) and
// is exactly the n bytes before the length field; only versions {254,255} and {254,253} are accepted;
// re-encoding an accepted header reproduces the first 13(+n) input bytes (fixed point) and never looks
// at the bytes after the header.
//
//symgo:entry covers=rejected_short,rejected_short_cid,accepted_plain,accepted_cid,rejected_version
func zzHeaderDecodeRef() {
	ncid := zzsymChoice("cidlen", zzsymParam("NCIDH")+1)
	ln := zzsymChoice("len", FixedHeaderSize+ncid+3)
	data := zzsymBytes("d", ln)
	h := Header{ConnectionID: make([]byte, ncid)} // the decoding context: expected CID length
	err := h.Unmarshal(data)
	if ln < FixedHeaderSize {
		zzsymAssert(err != nil, "hdr_truncated_rejected")
		zzsymCover("rejected_short")
		return
	}
	isCID := data[0] == 25
	hs := FixedHeaderSize
	if isCID {
		hs += ncid
		if ln < hs {
			zzsymAssert(err != nil, "hdr_cid_truncated_rejected")
			zzsymCover("rejected_short_cid")
			return
		}
	}
	okVersion := zzsymAnd(data[1] == 254, zzsymOr(data[2] == 255, data[2] == 253))
	if err != nil {
		zzsymAssert(zzsymNot(okVersion), "hdr_rejects_only_bad_version")
		zzsymCover("rejected_version")
		return
	}
	zzsymAssert(okVersion, "hdr_accepts_only_known_version")
	zzsymAssert(byte(h.ContentType) == data[0], "hdr_ref_type")
	zzsymAssert(zzsymAnd(h.Version.Major == data[1], h.Version.Minor == data[2]), "hdr_ref_version")
	zzsymAssert(h.Epoch == zzBE16(data[3:]), "hdr_ref_epoch")
	zzsymAssert(h.SequenceNumber == zzBE48(data[5:]), "hdr_ref_seq")
	zzsymAssert(h.ContentLen == zzBE16(data[hs-2:]), "hdr_ref_len")
	zzsymAssert(h.Size() == hs, "hdr_ref_size")
	if isCID {
		zzsymAssert(zzsymEqBytes(h.ConnectionID, data[11:11+ncid]), "hdr_ref_cid")
		zzsymCover("accepted_cid")
	} else {
		zzsymAssert(len(h.ConnectionID) == 0, "hdr_ref_no_cid")
		zzsymCover("accepted_plain")
	}
	raw, merr := h.Marshal()
	zzsymAssert(merr == nil, "hdr_reencode_ok")
	zzsymAssert(zzsymEqBytes(raw, data[:hs]), "hdr_fixpoint")
}

// tls12_cid record header encoder layout (RFC 9146 section 4), independent of the decoder: for every
// field value and CID length 1..NCIDH the encoding is 13+n bytes:
// 25 | major minor | epoch(2) | seq(6) | cid(n) | length(2), all big endian.
//
//symgo:entry covers=layout_ok
func zzHeaderCIDLayout() {
	ncid := zzsymChoice("cidlen", zzsymParam("NCIDH")) + 1
	cid := zzsymBytes("cid", ncid)
	h := Header{
		ContentType:    protocol.ContentTypeConnectionID,
		ContentLen:     zzsymU16("len"),
		Version:        protocol.Version{Major: zzsymU8("maj"), Minor: zzsymU8("min")},
		Epoch:          zzsymU16("epoch"),
		SequenceNumber: zzsymU64("seq"),
		ConnectionID:   cid,
	}
	zzsymAssume(h.SequenceNumber <= MaxSequenceNumber)
	raw, err := h.Marshal()
	zzsymAssert(err == nil, "cidhdr_marshal_ok")
	zzsymAssert(len(raw) == 13+ncid, "cidhdr_len")
	zzsymAssert(raw[0] == 25, "cidhdr_type")
	zzsymAssert(zzsymAnd(raw[1] == h.Version.Major, raw[2] == h.Version.Minor), "cidhdr_version")
	zzsymAssert(zzBE16(raw[3:]) == h.Epoch, "cidhdr_epoch")
	zzsymAssert(zzBE48(raw[5:]) == h.SequenceNumber, "cidhdr_seq")
	zzsymAssert(zzsymEqBytes(raw[11:11+ncid], cid), "cidhdr_cid")
	zzsymAssert(zzBE16(raw[11+ncid:]) == h.ContentLen, "cidhdr_length")
	zzsymCover("layout_ok")
}

// zzUnifiedRef is the RFC 9147 section 4 unified header layout: 0 0 1 C S L E E | cid(n if C) |
// seq (2 bytes if S else 1) | length (2 bytes if L). Returns the header size for first byte b.
func zzUnifiedSize(b byte, ncid int) int {
	sz := 1
	if b&0x10 != 0 {
		sz += ncid
	}
	if b&0x08 != 0 {
		sz += 2
	} else {
		sz++
	}
	if b&0x04 != 0 {
		sz += 2
	}
	return sz
}

// DTLS 1.3 unified header round trip (RFC 9147 section 4): for every CID of length 0..NUCID, both
// sequence-number widths, length present or absent, every epoch low bits value: Marshal produces
// 001CSLEE | cid | seq | [length] exactly as drawn in the RFC, and Unmarshal (given the negotiated CID
// length as context) returns the same value; Size() equals the encoded size; every strict prefix of
// the encoding is rejected.
//
//symgo:entry covers=rt_cid,rt_nocid,rt_seq16,rt_seq8,rt_len,rt_nolen
func zzUnifiedRoundTrip() {
	ncid := zzsymChoice("cidlen", zzsymParam("NUCID")+1)
	u := UnifiedHeader{
		SequenceNumber: zzsymU16("seq"),
		SeqBit:         zzsymChoice("S", 2) == 1,
		Length:         zzsymU16("length"),
		LengthBit:      zzsymChoice("L", 2) == 1,
		EpochLow:       zzsymU8("epoch"),
	}
	cid := zzsymBytes("cid", ncid)
	u.ConnectionID = cid
	zzsymAssume(u.EpochLow <= 3)
	if !u.SeqBit {
		zzsymAssume(u.SequenceNumber <= 255)
	}
	if !u.LengthBit {
		zzsymAssume(u.Length == 0)
	}
	raw, err := u.Marshal()
	zzsymAssert(err == nil, "uh_marshal_ok")
	// layout oracle
	first := byte(0x20) | u.EpochLow
	want := 1 + ncid
	if ncid > 0 {
		first |= 0x10
	}
	if u.SeqBit {
		first |= 0x08
		want += 2
	} else {
		want++
	}
	if u.LengthBit {
		first |= 0x04
		want += 2
	}
	zzsymAssert(len(raw) == want, "uh_marshal_len")
	zzsymAssert(u.Size() == want, "uh_size")
	zzsymAssert(raw[0] == first, "uh_marshal_first_byte")
	zzsymAssert(zzsymEqBytes(raw[1:1+ncid], cid), "uh_marshal_cid")
	p := 1 + ncid
	if u.SeqBit {
		zzsymAssert(zzBE16(raw[p:]) == u.SequenceNumber, "uh_marshal_seq16")
		p += 2
	} else {
		zzsymAssert(uint16(raw[p]) == u.SequenceNumber, "uh_marshal_seq8")
		p++
	}
	if u.LengthBit {
		zzsymAssert(zzBE16(raw[p:]) == u.Length, "uh_marshal_length")
	}
	g := UnifiedHeader{ConnectionID: make([]byte, ncid)}
	zzsymAssert(g.Unmarshal(raw) == nil, "uh_rt_accepts")
	zzsymAssert(zzsymEqBytes(g.ConnectionID, cid), "uh_rt_cid")
	zzsymAssert(g.SequenceNumber == u.SequenceNumber, "uh_rt_seq")
	zzsymAssert(g.SeqBit == u.SeqBit, "uh_rt_seqbit")
	zzsymAssert(g.Length == u.Length, "uh_rt_length")
	zzsymAssert(g.LengthBit == u.LengthBit, "uh_rt_lengthbit")
	zzsymAssert(g.EpochLow == u.EpochLow, "uh_rt_epoch")
	for k := 0; k < len(raw); k++ {
		t := UnifiedHeader{ConnectionID: make([]byte, ncid)}
		zzsymAssert(t.Unmarshal(raw[:k]) != nil, "uh_truncated_rejected")
	}
	if ncid > 0 {
		zzsymCover("rt_cid")
	} else {
		zzsymCover("rt_nocid")
	}
	if u.SeqBit {
		zzsymCover("rt_seq16")
	} else {
		zzsymCover("rt_seq8")
	}
	if u.LengthBit {
		zzsymCover("rt_len")
	} else {
		zzsymCover("rt_nolen")
	}
}

// DTLS 1.3 unified header decoder against the RFC 9147 section 4 layout on every byte string of length
// 0..1+n+4+NUEXTRA, for every negotiated CID length n in 0..NUCID and an arbitrary previous receiver
// value: accepted iff the first byte is 001xxxxx and the input is at least as long as the header the
// flag bits announce (truncated headers rejected); decoded fields are the bytes at the RFC positions,
// absent fields decode to zero/false/empty; the bytes after the header are never consumed (the decoded
// value and the re-encoding depend only on the header bytes); re-encoding gives a canonical header c
// (equal to the input header bytes unless the C bit was set with a zero-length CID) that decodes to
// the same value and re-encodes to c.
//
//symgo:entry covers=rejected_empty,rejected_type,rejected_truncated,accepted_c,accepted_noc,accepted_l,accepted_s
func zzUnifiedDecodeRef() {
	ncid := zzsymChoice("cidlen", zzsymParam("NUCID")+1)
	ln := zzsymChoice("len", 1+ncid+4+zzsymParam("NUEXTRA")+1)
	data := zzsymBytes("d", ln)
	u := UnifiedHeader{
		ConnectionID:   make([]byte, ncid),
		SequenceNumber: zzsymU16("oldseq"),
		SeqBit:         zzsymBool("oldS"),
		Length:         zzsymU16("oldlen"),
		LengthBit:      zzsymBool("oldL"),
		EpochLow:       zzsymU8("oldepoch"),
	}
	err := u.Unmarshal(data)
	if ln == 0 {
		zzsymAssert(err != nil, "uh_empty_rejected")
		zzsymCover("rejected_empty")
		return
	}
	b := data[0]
	if b>>5 != 1 {
		zzsymAssert(err != nil, "uh_bad_fixed_bits_rejected")
		zzsymCover("rejected_type")
		return
	}
	hs := zzUnifiedSize(b, ncid)
	if ln < hs {
		zzsymAssert(err != nil, "uh_truncated_rejected")
		zzsymCover("rejected_truncated")
		return
	}
	zzsymAssert(err == nil, "uh_wellformed_accepted")
	p := 1
	if b&0x10 != 0 {
		zzsymAssert(zzsymEqBytes(u.ConnectionID, data[1:1+ncid]), "uh_ref_cid")
		p += ncid
		zzsymCover("accepted_c")
	} else {
		zzsymAssert(len(u.ConnectionID) == 0, "uh_ref_no_cid")
		zzsymCover("accepted_noc")
	}
	if b&0x08 != 0 {
		zzsymAssert(zzsymAnd(u.SeqBit, u.SequenceNumber == zzBE16(data[p:])), "uh_ref_seq16")
		p += 2
		zzsymCover("accepted_s")
	} else {
		zzsymAssert(zzsymAnd(!u.SeqBit, u.SequenceNumber == uint16(data[p])), "uh_ref_seq8")
		p++
	}
	if b&0x04 != 0 {
		zzsymAssert(zzsymAnd(u.LengthBit, u.Length == zzBE16(data[p:])), "uh_ref_length")
		p += 2
		zzsymCover("accepted_l")
	} else {
		zzsymAssert(zzsymAnd(!u.LengthBit, u.Length == 0), "uh_ref_no_length")
	}
	zzsymAssert(u.EpochLow == b&3, "uh_ref_epoch")
	zzsymAssert(p == hs, "uh_ref_consumed")
	// canonical re-encoding and fixed point
	c, merr := u.Marshal()
	zzsymAssert(merr == nil, "uh_reencode_ok")
	if zzsymOr(b&0x10 == 0, ncid > 0) {
		zzsymAssert(zzsymEqBytes(c, data[:hs]), "uh_canonical_is_input_header")
	}
	g := UnifiedHeader{ConnectionID: make([]byte, ncid)}
	zzsymAssert(g.Unmarshal(c) == nil, "uh_canonical_accepted")
	same := zzsymAnd(zzsymEqBytes(g.ConnectionID, u.ConnectionID), g.SequenceNumber == u.SequenceNumber)
	same = zzsymAnd(same, zzsymAnd(g.SeqBit == u.SeqBit, g.LengthBit == u.LengthBit))
	same = zzsymAnd(same, zzsymAnd(g.Length == u.Length, g.EpochLow == u.EpochLow))
	zzsymAssert(same, "uh_canonical_same_value")
	c2, _ := g.Marshal()
	zzsymAssert(zzsymEqBytes(c2, c), "uh_fixpoint")
}
