package handshake

//symgo:pkg github.com/pion/dtls/v3/pkg/protocol/handshake
//symgo:param NHVR quick=6 thorough=10
//symgo:param NFIN quick=4 thorough=12
//symgo:param NCV quick=7 thorough=10
//symgo:param NCERT quick=9 thorough=12
//symgo:param NCERTV quick=2 thorough=3

import (
	"github.com/pion/dtls/v3/pkg/crypto/hash"
	"github.com/pion/dtls/v3/pkg/crypto/signature"
	"github.com/pion/dtls/v3/pkg/protocol"
)

// HelloVerifyRequest (RFC 6347 §4.2.1: ProtocolVersion(2) opaque cookie<0..2^8-1>) on every byte
// string of length 0..NHVR. Proved: accepted iff the 3 fixed bytes are present and the declared cookie
// length fits (truncated input rejected); version and cookie are exactly the declared bytes (bytes
// after the cookie are not consumed); the canonical re-encoding is version+len+cookie — i.e. the input
// cut at the declared length — and is a fixed point of decode-then-encode.
//
//symgo:entry covers=hvr_accept_exact,hvr_accept_trailing,hvr_reject
func zzHVRDecode() {
	n := zzsymChoice("len", zzsymParam("NHVR")+1)
	data := zzsymBytes("d", n)
	m := &MessageHelloVerifyRequest{}
	err := m.Unmarshal(data)
	fits := false
	cl := 0
	if n >= 3 {
		cl = int(data[2])
		fits = cl <= n-3
	}
	if !fits {
		zzsymAssert(err != nil, "truncation/HVR")
		zzsymCover("hvr_reject")
		return
	}
	zzsymAssert(err == nil, "ref_equal/HVR_accepts_wellformed")
	zzsymAssert(zzsymAnd(m.Version.Major == data[0], m.Version.Minor == data[1]), "ref_equal/HVR_version")
	zzsymAssert(zzsymEqBytes(m.Cookie, data[3:3+cl]), "declared_len/HVR_cookie")
	c, merr := m.Marshal()
	zzsymAssert(merr == nil, "fixpoint/HVR_marshal_ok")
	zzsymAssert(zzsymEqBytes(c, data[:3+cl]), "fixpoint/HVR_canonical_is_declared_prefix")
	m2 := &MessageHelloVerifyRequest{}
	zzsymAssert(m2.Unmarshal(c) == nil, "fixpoint/HVR_canonical_decodes")
	zzsymAssert(zzsymAnd(m2.Version == m.Version, zzsymEqBytes(m2.Cookie, m.Cookie)), "fixpoint/HVR_value_stable")
	c2, _ := m2.Marshal()
	zzsymAssert(zzsymEqBytes(c2, c), "fixpoint/HVR_canonical_stable")
	if 3+cl == n {
		zzsymCover("hvr_accept_exact")
	} else {
		zzsymCover("hvr_accept_trailing")
	}
}

// HelloVerifyRequest round trip from values: every version, cookie of 0..NHVR bytes: Marshal is the
// RFC layout, Unmarshal(Marshal(v)) == v, every strict prefix is rejected.
//
//symgo:entry covers=hvr_rt
func zzHVRRoundTrip() {
	v := &MessageHelloVerifyRequest{
		Version: protocol.Version{Major: zzsymU8("maj"), Minor: zzsymU8("min")},
		Cookie:  zzsymBytes("cookie", zzsymChoice("clen", zzsymParam("NHVR")+1)),
	}
	raw, err := v.Marshal()
	zzsymAssert(err == nil, "rt/HVR_marshal_ok")
	want := append([]byte{v.Version.Major, v.Version.Minor, byte(len(v.Cookie))}, v.Cookie...)
	zzsymAssert(zzsymEqBytes(raw, want), "ref_equal/HVR_encoding_layout")
	g := &MessageHelloVerifyRequest{}
	zzsymAssert(g.Unmarshal(raw) == nil, "rt/HVR_unmarshal_ok")
	zzsymAssert(zzsymAnd(g.Version == v.Version, zzsymEqBytes(g.Cookie, v.Cookie)), "rt/HVR_equal")
	for k := 0; k < len(raw); k++ {
		t := &MessageHelloVerifyRequest{}
		zzsymAssert(t.Unmarshal(raw[:k]) != nil, "truncation/HVR_prefix")
	}
	zzsymCover("hvr_rt")
}

// Finished (RFC 5246 §7.4.9: opaque verify_data[verify_data_length], no inner length field) on every
// byte string of length 0..NFIN: always accepted, the value is the whole body, Marshal gives the
// input back (every input is canonical), and the decoded value does not alias the input buffer.
//
//symgo:entry covers=fin_ok
func zzFinishedCodec() {
	n := zzsymChoice("len", zzsymParam("NFIN")+1)
	data := zzsymBytes("d", n)
	m := &MessageFinished{}
	zzsymAssert(m.Unmarshal(data) == nil, "ref_equal/Finished_accepts")
	zzsymAssert(zzsymEqBytes(m.VerifyData, data), "rt/Finished_value")
	c, err := m.Marshal()
	zzsymAssert(err == nil, "fixpoint/Finished_marshal_ok")
	zzsymAssert(zzsymEqBytes(c, data), "fixpoint/Finished_canonical")
	g := &MessageFinished{}
	zzsymAssert(g.Unmarshal(c) == nil, "rt/Finished_unmarshal_ok")
	zzsymAssert(zzsymEqBytes(g.VerifyData, m.VerifyData), "rt/Finished_equal")
	zzsymCover("fin_ok")
}

// KeyUpdate (RFC 8446 §4.6.3: one byte, update_not_requested(0) or update_requested(1)) on every byte
// string of length 0..3: accepted iff it is exactly one byte with value 0 or 1 (truncated, trailing
// and unknown values rejected); value and re-encoding equal the input. From values: Marshal refuses
// every request_update other than 0/1 and round-trips those two.
//
//symgo:entry covers=ku_accept,ku_reject,ku_marshal_refused
func zzKeyUpdateCodec() {
	n := zzsymChoice("len", 4)
	data := zzsymBytes("d", n)
	m := &MessageKeyUpdate{}
	err := m.Unmarshal(data)
	ok := false
	if n == 1 {
		ok = data[0] <= 1
	}
	if ok {
		zzsymAssert(err == nil, "ref_equal/KeyUpdate_accepts")
		zzsymAssert(byte(m.RequestUpdate) == data[0], "ref_equal/KeyUpdate_value")
		c, merr := m.Marshal()
		zzsymAssert(merr == nil, "fixpoint/KeyUpdate_marshal_ok")
		zzsymAssert(zzsymEqBytes(c, data), "fixpoint/KeyUpdate_canonical")
		zzsymCover("ku_accept")
	} else {
		zzsymAssert(err != nil, "truncation/KeyUpdate")
		zzsymCover("ku_reject")
	}
	v := &MessageKeyUpdate{RequestUpdate: KeyUpdateRequest(zzsymU8("req"))}
	raw, verr := v.Marshal()
	if v.RequestUpdate > 1 {
		zzsymAssert(verr != nil, "rt/KeyUpdate_marshal_refuses_unknown")
		zzsymCover("ku_marshal_refused")
		return
	}
	zzsymAssert(verr == nil, "rt/KeyUpdate_marshal_ok")
	g := &MessageKeyUpdate{}
	zzsymAssert(g.Unmarshal(raw) == nil, "rt/KeyUpdate_unmarshal_ok")
	zzsymAssert(g.RequestUpdate == v.RequestUpdate, "rt/KeyUpdate_equal")
}

// zzCVIsPSS: the six RSA-PSS SignatureScheme code points 0x0804..0x0806 and 0x0809..0x080b.
func zzCVIsPSS(hi, lo byte) bool {
	return zzsymAnd(hi == 8, zzsymOr(zzsymAnd(lo >= 4, lo <= 6), zzsymAnd(lo >= 9, lo <= 11)))
}

// CertificateVerify (RFC 5246 §7.4.8: SignatureAndHashAlgorithm(2) opaque signature<0..2^16-1>) on
// every byte string of length 0..NCV. Proved: accepted iff 4 header bytes are present, the scheme is
// a known code point and the declared signature length equals the remaining input exactly (truncated
// input and trailing bytes rejected); algorithm and signature are exactly the declared bytes; accepted
// input whose scheme is not RSA-PSS re-encodes to itself. RSA-PSS schemes: see zzCertVerifyPSSFixpoint.
//
//symgo:entry covers=cv_accept,cv_reject,cv_skip_pss
func zzCertVerifyDecode() {
	n := zzsymChoice("len", zzsymParam("NCV")+1)
	data := zzsymBytes("d", n)
	m := &MessageCertificateVerify{}
	err := m.Unmarshal(data)
	ok := false
	if n >= 4 {
		sl := int(data[2])<<8 | int(data[3])
		ok = zzsymAnd(zzSigSchemeKnown(data[0], data[1]), sl == n-4)
	}
	if !ok {
		zzsymAssert(err != nil, "truncation/CertificateVerify")
		zzsymCover("cv_reject")
		return
	}
	zzsymAssert(err == nil, "ref_equal/CertificateVerify_accepts_wellformed")
	zzsymAssert(zzSKESchemeOf(m.HashAlgorithm, m.SignatureAlgorithm) == uint16(data[0])<<8|uint16(data[1]), "ref_equal/CertificateVerify_scheme")
	zzsymAssert(zzsymEqBytes(m.Signature, data[4:]), "declared_len/CertificateVerify_signature")
	if zzCVIsPSS(data[0], data[1]) {
		zzsymCover("cv_skip_pss")
		return
	}
	c, merr := m.Marshal()
	zzsymAssert(merr == nil, "fixpoint/CertificateVerify_marshal_ok")
	zzsymAssert(zzsymEqBytes(c, data), "fixpoint/CertificateVerify_canonical")
	zzsymCover("cv_accept")
}

// CertificateVerify carrying one of the RSA-PSS schemes (0x0804..6, 0x0809..b), signature of
// 0..2 bytes, honest length: the decoder accepts these; the property demands that the accepted
// input re-encodes (to itself).
//
//symgo:entry covers=cv_pss_accepted
func zzCertVerifyPSSFixpoint() {
	sl := zzsymChoice("siglen", 3)
	data := zzsymBytes("d", 4+sl)
	zzsymAssume(zzCVIsPSS(data[0], data[1]))
	zzsymAssume(zzsymAnd(data[2] == 0, data[3] == byte(sl)))
	m := &MessageCertificateVerify{}
	if m.Unmarshal(data) != nil {
		return
	}
	zzsymCover("cv_pss_accepted")
	c, merr := m.Marshal()
	zzsymAssert(merr == nil, "fixpoint/CertificateVerify_pss")
	zzsymAssert(zzsymEqBytes(c, data), "fixpoint/CertificateVerify_pss_canonical")
}

// CertificateVerify round trip from values: one scheme of each non-PSS class, signature 0..NCV bytes:
// RFC layout, Unmarshal(Marshal(v)) == v, every strict prefix rejected.
//
//symgo:entry covers=cv_rt
func zzCertVerifyRoundTrip() {
	alg := zzsymChoice("alg", 3)
	v := &MessageCertificateVerify{Signature: zzsymBytes("sig", zzsymChoice("siglen", zzsymParam("NCV")+1))}
	switch alg {
	case 0:
		v.HashAlgorithm, v.SignatureAlgorithm = hash.SHA256, signature.ECDSA
	case 1:
		v.HashAlgorithm, v.SignatureAlgorithm = hash.Ed25519, signature.Ed25519
	default:
		v.HashAlgorithm, v.SignatureAlgorithm = hash.SHA512, signature.RSA
	}
	raw, err := v.Marshal()
	zzsymAssert(err == nil, "rt/CertificateVerify_marshal_ok")
	want := append([]byte{byte(v.HashAlgorithm), byte(v.SignatureAlgorithm), byte(len(v.Signature) >> 8), byte(len(v.Signature))}, v.Signature...)
	zzsymAssert(zzsymEqBytes(raw, want), "ref_equal/CertificateVerify_encoding_layout")
	g := &MessageCertificateVerify{}
	zzsymAssert(g.Unmarshal(raw) == nil, "rt/CertificateVerify_unmarshal_ok")
	eq := zzsymAnd(g.HashAlgorithm == v.HashAlgorithm, g.SignatureAlgorithm == v.SignatureAlgorithm)
	zzsymAssert(zzsymAnd(eq, zzsymEqBytes(g.Signature, v.Signature)), "rt/CertificateVerify_equal")
	for k := 0; k < len(raw); k++ {
		t := &MessageCertificateVerify{}
		zzsymAssert(t.Unmarshal(raw[:k]) != nil, "truncation/CertificateVerify_prefix")
	}
	zzsymCover("cv_rt")
}

// zzCert12Ref: reference layout of the TLS 1.2 Certificate message (RFC 5246 §7.4.2):
// uint24 total; then ASN.1Cert entries, each uint24 length + bytes, exactly filling total.
// (pion admits zero-length entries; the reference follows it there since that is not a length issue.)
func zzCert12Ref(data []byte) (ok bool, offs, lens []int) {
	n := len(data)
	if n < 3 {
		return false, nil, nil
	}
	total := int(data[0])<<16 | int(data[1])<<8 | int(data[2])
	if total != n-3 {
		return false, nil, nil
	}
	off := 3
	for off < n {
		if n-off < 3 {
			return false, nil, nil
		}
		l := int(data[off])<<16 | int(data[off+1])<<8 | int(data[off+2])
		off += 3
		if l > n-off {
			return false, nil, nil
		}
		offs = append(offs, off)
		lens = append(lens, l)
		off += l
	}
	return true, offs, lens
}

// Certificate (DTLS 1.2) on every byte string of length 0..NCERT. Proved: accepted iff the outer
// uint24 length equals the remaining input and the entries' uint24 lengths partition it exactly
// (truncated entry header, truncated entry, trailing bytes: rejected); the decoded chain has exactly
// the reference entries with exactly their declared bytes; Marshal gives the input back.
//
//symgo:entry covers=cert_accept_empty,cert_accept_one,cert_accept_two,cert_reject
func zzCertificate12Decode() {
	n := zzsymChoice("len", zzsymParam("NCERT")+1)
	data := zzsymBytes("d", n)
	m := &MessageCertificate{}
	err := m.Unmarshal(data)
	ok, offs, lens := zzCert12Ref(data)
	if !ok {
		zzsymAssert(err != nil, "truncation/Certificate12")
		zzsymCover("cert_reject")
		return
	}
	zzsymAssert(err == nil, "ref_equal/Certificate12_accepts_wellformed")
	zzsymAssert(len(m.Certificate) == len(offs), "ref_equal/Certificate12_count")
	for i := range offs {
		zzsymAssert(zzsymEqBytes(m.Certificate[i], data[offs[i]:offs[i]+lens[i]]), "declared_len/Certificate12_entry")
	}
	c, merr := m.Marshal()
	zzsymAssert(merr == nil, "fixpoint/Certificate12_marshal_ok")
	zzsymAssert(zzsymEqBytes(c, data), "fixpoint/Certificate12_canonical")
	switch len(offs) {
	case 0:
		zzsymCover("cert_accept_empty")
	case 1:
		zzsymCover("cert_accept_one")
	case 2:
		zzsymCover("cert_accept_two")
	}
}

// Certificate (DTLS 1.2) round trip from values: chain of 0..2 certificates of 0..NCERTV bytes:
// RFC layout, Unmarshal(Marshal(v)) == v, every strict prefix rejected.
//
//symgo:entry covers=cert_rt
func zzCertificate12RoundTrip() {
	cnt := zzsymChoice("count", 3)
	v := &MessageCertificate{}
	body := []byte{}
	for i := 0; i < cnt; i++ {
		c := zzsymBytes("cert", zzsymChoice("certlen", zzsymParam("NCERTV")+1))
		v.Certificate = append(v.Certificate, c)
		body = append(body, 0, 0, byte(len(c)))
		body = append(body, c...)
	}
	want := append([]byte{0, 0, byte(len(body))}, body...)
	raw, err := v.Marshal()
	zzsymAssert(err == nil, "rt/Certificate12_marshal_ok")
	zzsymAssert(zzsymEqBytes(raw, want), "ref_equal/Certificate12_encoding_layout")
	g := &MessageCertificate{}
	zzsymAssert(g.Unmarshal(raw) == nil, "rt/Certificate12_unmarshal_ok")
	zzsymAssert(len(g.Certificate) == cnt, "rt/Certificate12_count")
	for i := 0; i < cnt; i++ {
		zzsymAssert(zzsymEqBytes(g.Certificate[i], v.Certificate[i]), "rt/Certificate12_entry")
	}
	for k := 0; k < len(raw); k++ {
		t := &MessageCertificate{}
		zzsymAssert(t.Unmarshal(raw[:k]) != nil, "truncation/Certificate12_prefix")
	}
	zzsymCover("cert_rt")
}
