package handshake

//symgo:pkg github.com/pion/dtls/v3/pkg/protocol/handshake
//symgo:param NCKE quick=6 thorough=10
//symgo:param NCKEV quick=3 thorough=6

import "github.com/pion/dtls/v3/internal/ciphersuite/types"

// zzKx maps a choice 0..3 to the key-exchange context None, PSK, ECDHE, ECDHE_PSK.
func zzKx(i int) types.KeyExchangeAlgorithm {
	return types.KeyExchangeAlgorithm(2 * i)
}

// zzCKERef is the reference layout of ClientKeyExchange written from the RFCs:
//
//	PSK (RFC 4279 §2):        opaque psk_identity<0..2^16-1>
//	ECDHE (RFC 8422 §5.7):    opaque point<1..2^8-1>         (pion also admits the empty point)
//	ECDHE_PSK (RFC 5489 §2):  psk_identity followed by point
//
// It returns whether every declared length fits into data and where the fields lie.
func zzCKERef(data []byte, kx types.KeyExchangeAlgorithm) (fits bool, idOff, idLen, pkOff, pkLen int) {
	n := len(data)
	off := 0
	if kx.Has(types.KeyExchangeAlgorithmPsk) {
		if n < 2 {
			return false, 0, 0, 0, 0
		}
		idLen = int(data[0])<<8 | int(data[1])
		if idLen > n-2 {
			return false, 0, 0, 0, 0
		}
		idOff = 2
		off = 2 + idLen
	}
	if kx.Has(types.KeyExchangeAlgorithmEcdhe) {
		if off >= n {
			return false, 0, 0, 0, 0
		}
		pkLen = int(data[off])
		// RFC 8422 section 5.4: opaque point <1..2^8-1> — an empty point is malformed
		if pkLen == 0 || pkLen > n-off-1 {
			return false, 0, 0, 0, 0
		}
		pkOff = off + 1
	}
	return true, idOff, idLen, pkOff, pkLen
}

// ClientKeyExchange decoder on every byte string of length 0..NCKE in every key-exchange context
// (none, PSK, ECDHE, ECDHE_PSK). Proved: the accept set equals the reference layout's (every
// declared length fits; inputs shorter than 2 bytes and the "none" context are refused), so input
// truncated inside a declared length is rejected; the PSK identity is exactly the declared bytes;
// the public key starts right after its length byte; an accepted input re-encodes (Marshal) to a
// canonical form c that decodes again and re-encodes to c. The length of the public key is checked
// separately in zzCKEDeclaredLenPublicKey.
//
//symgo:entry covers=cke_accept_psk,cke_accept_ecdhe,cke_accept_ecdhe_psk,cke_reject_trunc,cke_reject_nokx
func zzCKEDecode() {
	n := zzsymChoice("len", zzsymParam("NCKE")+1)
	data := zzsymBytes("d", n)
	kxi := zzsymChoice("kx", 4)
	kx := zzKx(kxi)
	m := &MessageClientKeyExchange{KeyExchangeAlgorithm: kx}
	err := m.Unmarshal(data)
	if kxi == 0 {
		zzsymAssert(err != nil, "ref_equal/CKE_no_kx_rejected")
		zzsymCover("cke_reject_nokx")
		return
	}
	fits, idOff, idLen, pkOff, _ := zzCKERef(data, kx)
	if n < 2 {
		fits = false // pion refuses anything below 2 bytes; the only such RFC-shaped input is the empty ECDHE point
	}
	if !fits {
		zzsymAssert(err != nil, "truncation/CKE")
		zzsymCover("cke_reject_trunc")
		return
	}
	zzsymAssert(err == nil, "ref_equal/CKE_accepts_wellformed")
	if kx.Has(types.KeyExchangeAlgorithmPsk) {
		zzsymAssert(zzsymEqBytes(m.IdentityHint, data[idOff:idOff+idLen]), "declared_len/CKE_identity")
	} else {
		zzsymAssert(m.IdentityHint == nil, "ref_equal/CKE_no_identity")
	}
	if kx.Has(types.KeyExchangeAlgorithmEcdhe) {
		zzsymAssert(len(m.PublicKey) <= n-pkOff, "ref_equal/CKE_public_key_within_input")
		zzsymAssert(zzsymEqBytes(m.PublicKey, data[pkOff:pkOff+len(m.PublicKey)]), "ref_equal/CKE_public_key_start")
	} else {
		zzsymAssert(m.PublicKey == nil, "ref_equal/CKE_no_public_key")
	}
	// canonical re-encoding is a fixed point
	c, merr := m.Marshal()
	zzsymAssert(merr == nil, "fixpoint/CKE_marshal_ok")
	m2 := &MessageClientKeyExchange{KeyExchangeAlgorithm: kx}
	zzsymAssert(m2.Unmarshal(c) == nil, "fixpoint/CKE_canonical_decodes")
	zzsymAssert(zzsymEqBytes(m2.IdentityHint, m.IdentityHint), "fixpoint/CKE_identity_stable")
	zzsymAssert(zzsymEqBytes(m2.PublicKey, m.PublicKey), "fixpoint/CKE_public_key_stable")
	c2, merr2 := m2.Marshal()
	zzsymAssert(merr2 == nil, "fixpoint/CKE_marshal2_ok")
	zzsymAssert(zzsymEqBytes(c2, c), "fixpoint/CKE_canonical_stable")
	switch kxi {
	case 1:
		zzsymCover("cke_accept_psk")
	case 2:
		zzsymCover("cke_accept_ecdhe")
	case 3:
		zzsymCover("cke_accept_ecdhe_psk")
	}
}

// ClientKeyExchange, ECDHE and ECDHE_PSK contexts, every byte string of length 0..NCKE: the decoded
// public key is exactly the bytes covered by its declared 1-byte length (RFC 8422 §5.7
// opaque point<1..2^8-1>); bytes after the declared length are never part of the key.
// Known defect F8 (design §7): the decoder takes ALL remaining bytes.
//
//symgo:entry covers=cke_pk_exact,cke_pk_trailing
func zzCKEDeclaredLenPublicKey() {
	n := zzsymChoice("len", zzsymParam("NCKE")+1)
	data := zzsymBytes("d", n)
	kx := zzKx(2 + zzsymChoice("kx", 2))
	m := &MessageClientKeyExchange{KeyExchangeAlgorithm: kx}
	if m.Unmarshal(data) != nil {
		return
	}
	fits, _, _, pkOff, pkLen := zzCKERef(data, kx)
	zzsymAssert(fits, "truncation/CKE")
	if pkOff+pkLen == n {
		zzsymCover("cke_pk_exact")
	} else {
		zzsymCover("cke_pk_trailing")
	}
	zzsymAssert(zzsymEqBytes(m.PublicKey, data[pkOff:pkOff+pkLen]), "declared_len/CKE_public_key")
}

// ClientKeyExchange round trip from values: for every identity (absent or 0..NCKEV bytes) and every
// public key (absent or 0..NCKEV bytes) matching the context, Marshal produces exactly the RFC layout
// (2-byte identity length, identity, 1-byte key length, key), Unmarshal of it yields the same value,
// and every strict prefix of the encoding is rejected (truncation) — except the prefixes that pion's
// "at least 2 bytes" rule and the format itself make indistinguishable (none for these layouts).
//
//symgo:entry covers=cke_rt_psk,cke_rt_ecdhe,cke_rt_ecdhe_psk,cke_rt_empty_refused
func zzCKERoundTrip() {
	kxi := 1 + zzsymChoice("kx", 3)
	kx := zzKx(kxi)
	v := &MessageClientKeyExchange{}
	if kx.Has(types.KeyExchangeAlgorithmPsk) {
		v.IdentityHint = zzsymBytes("id", zzsymChoice("idlen", zzsymParam("NCKEV")+1))
	}
	if kx.Has(types.KeyExchangeAlgorithmEcdhe) {
		v.PublicKey = zzsymBytes("pk", zzsymChoice("pklen", zzsymParam("NCKEV")+1))
	}
	raw, err := v.Marshal()
	zzsymAssert(err == nil, "rt/CKE_marshal_ok")
	// RFC layout
	want := []byte{}
	if kx.Has(types.KeyExchangeAlgorithmPsk) {
		want = append(want, byte(len(v.IdentityHint)>>8), byte(len(v.IdentityHint)))
		want = append(want, v.IdentityHint...)
	}
	if kx.Has(types.KeyExchangeAlgorithmEcdhe) {
		want = append(want, byte(len(v.PublicKey)))
		want = append(want, v.PublicKey...)
	}
	zzsymAssert(zzsymEqBytes(raw, want), "ref_equal/CKE_encoding_layout")
	g := &MessageClientKeyExchange{KeyExchangeAlgorithm: kx}
	uerr := g.Unmarshal(raw)
	if len(raw) < 2 || (kx.Has(types.KeyExchangeAlgorithmEcdhe) && len(v.PublicKey) == 0) {
		// an empty ECDHE point (RFC 8422: opaque point <1..2^8-1>) is outside the documented validity predicate: pion refuses it
		zzsymAssert(uerr != nil, "rt/CKE_empty_point_refused")
		zzsymCover("cke_rt_empty_refused")
		return
	}
	zzsymAssert(uerr == nil, "rt/CKE_unmarshal_ok")
	zzsymAssert(zzsymEqBytes(g.IdentityHint, v.IdentityHint), "rt/CKE_identity")
	zzsymAssert(zzsymEqBytes(g.PublicKey, v.PublicKey), "rt/CKE_public_key")
	for k := 0; k < len(raw); k++ {
		t := &MessageClientKeyExchange{KeyExchangeAlgorithm: kx}
		zzsymAssert(t.Unmarshal(raw[:k]) != nil, "truncation/CKE_prefix")
	}
	switch kxi {
	case 1:
		zzsymCover("cke_rt_psk")
	case 2:
		zzsymCover("cke_rt_ecdhe")
	case 3:
		zzsymCover("cke_rt_ecdhe_psk")
	}
}
