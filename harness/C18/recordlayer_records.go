package recordlayer

//symgo:pkg github.com/pion/dtls/v3/pkg/protocol/recordlayer
//symgo:param NINNER quick=4 thorough=8
//symgo:param NZEROS quick=3 thorough=6
//symgo:param NRLBODY quick=18 thorough=34
//symgo:param NRLEXTRA quick=3 thorough=6
//symgo:outside DTLSInnerPlaintext values whose real_type is 0: zero is the padding byte, RFC 9146 section 4 / RFC 8446 section 5.4 define no such content type and the decoder cannot tell it from padding
//symgo:outside RecordLayer / PlaintextRecord13 values with a ConnectionID set: these encoders always write the inner content type, tls12_cid records are assembled from Header and InnerPlaintext instead
//symgo:outside handshake message bodies inside records are limited to Finished (the other handshake codecs have their own C18 harnesses)

import (
	"github.com/pion/dtls/v3/pkg/protocol"
	"github.com/pion/dtls/v3/pkg/protocol/alert"
	"github.com/pion/dtls/v3/pkg/protocol/handshake"
)

// ---------------------------------------------------------------------------------------------
// DTLSInnerPlaintext (RFC 9146 section 4): content || real_type(1, non-zero) || zeros

// InnerPlaintext round trip: for every content of 0..NINNER arbitrary bytes, every non-zero real type
// and 0..NZEROS padding zeros, Marshal gives content||type||0..0 and Unmarshal returns the same value.
//
//symgo:entry covers=ip_rt_pad,ip_rt_nopad
func zzInnerPlaintextRoundTrip() {
	n := zzsymChoice("contentlen", zzsymParam("NINNER")+1)
	z := zzsymChoice("zeros", zzsymParam("NZEROS")+1)
	content := zzsymBytes("content", n)
	p := InnerPlaintext{Content: content, RealType: protocol.ContentType(zzsymU8("type")), Zeros: uint(z)}
	zzsymAssume(p.RealType != 0)
	raw, err := p.Marshal()
	zzsymAssert(err == nil, "ip_marshal_ok")
	zzsymAssert(len(raw) == n+1+z, "ip_marshal_len")
	zzsymAssert(zzsymEqBytes(raw[:n], content), "ip_marshal_content")
	zzsymAssert(raw[n] == byte(p.RealType), "ip_marshal_type")
	zzsymAssert(zzsymEqBytes(raw[n+1:], make([]byte, z)), "ip_marshal_zeros")
	var g InnerPlaintext
	zzsymAssert(g.Unmarshal(raw) == nil, "ip_rt_accepts")
	zzsymAssert(zzsymEqBytes(g.Content, content), "ip_rt_content")
	zzsymAssert(g.RealType == p.RealType, "ip_rt_type")
	zzsymAssert(g.Zeros == uint(z), "ip_rt_zeros")
	if z > 0 {
		zzsymCover("ip_rt_pad")
	} else {
		zzsymCover("ip_rt_nopad")
	}
}

// InnerPlaintext decoder against the reference on every byte string of length 0..NINNER+1+NZEROS and
// an arbitrary previous receiver value: rejected iff it contains no non-zero byte (empty or all
// padding); otherwise real_type is the last non-zero byte, content everything before it, Zeros the
// number of bytes after it; re-encoding gives exactly the input (fixed point).
//
//symgo:entry covers=ip_rejected_empty,ip_rejected_allzero,ip_accepted_pad,ip_accepted_nopad
func zzInnerPlaintextDecodeRef() {
	ln := zzsymChoice("len", zzsymParam("NINNER")+1+zzsymParam("NZEROS")+1)
	data := zzsymBytes("d", ln)
	orig := append([]byte{}, data...)
	p := InnerPlaintext{Content: zzsymBytes("old", 1), RealType: protocol.ContentType(zzsymU8("oldtype")), Zeros: 7}
	err := p.Unmarshal(data)
	// reference: index of last non-zero byte
	last := -1
	for i := 0; i < ln; i++ {
		last = zzsymIteInt(data[i] != 0, i, last) // no fork per byte
	}
	if last < 0 {
		zzsymAssert(err != nil, "ip_no_type_rejected")
		if ln == 0 {
			zzsymCover("ip_rejected_empty")
		} else {
			zzsymCover("ip_rejected_allzero")
		}
		return
	}
	zzsymAssert(err == nil, "ip_wellformed_accepted")
	zzsymAssert(byte(p.RealType) == data[last], "ip_ref_type")
	zzsymAssert(zzsymEqBytes(p.Content, data[:last]), "ip_ref_content")
	zzsymAssert(p.Zeros == uint(ln-1-last), "ip_ref_zeros")
	raw, merr := p.Marshal()
	zzsymAssert(merr == nil, "ip_reencode_ok")
	zzsymAssert(zzsymEqBytes(raw, orig), "ip_fixpoint")
	if last == ln-1 {
		zzsymCover("ip_accepted_nopad")
	} else {
		zzsymCover("ip_accepted_pad")
	}
}

// ---------------------------------------------------------------------------------------------
// Record = header || content

const (
	zzKindCCS = iota
	zzKindAlert
	zzKindApp
	zzKindACK
	zzKindRRC
	zzKindFinished
	zzNKinds
)

// zzContent builds a content value of the given kind with symbolic fields, and returns its expected
// wire encoding written out from the RFC layouts.
func zzContent(kind int) (protocol.Content, []byte) {
	switch kind {
	case zzKindCCS:
		return &protocol.ChangeCipherSpec{}, []byte{1}
	case zzKindAlert:
		l, d := zzsymU8("alevel"), zzsymU8("adesc")
		return &alert.Alert{Level: alert.Level(l), Description: alert.Description(d)}, []byte{l, d}
	case zzKindApp:
		b := zzsymBytes("app", zzsymChoice("applen", 4))
		return &protocol.ApplicationData{Data: b}, b
	case zzKindACK:
		e := zzsymBytes("ackrec", 16)
		a := &protocol.ACK{Records: []protocol.RecordNumber{{Epoch: zzBE64(e), SequenceNumber: zzBE64(e[8:])}}}
		return a, append([]byte{0, 16}, e...)
	case zzKindRRC:
		c := zzsymBytes("rrccookie", 8)
		t := zzsymU8("rrctype")
		zzsymAssume(t <= 2)
		r := &protocol.ReturnRoutabilityCheck{MessageType: protocol.ReturnRoutabilityCheckMessageType(t)}
		copy(r.Cookie[:], c)
		return r, append([]byte{t}, c...)
	}
	v := zzsymBytes("verify", 3)
	ms := zzsymU16("msgseq")
	hs := &handshake.Handshake{Header: handshake.Header{MessageSequence: ms}, Message: &handshake.MessageFinished{VerifyData: v}}
	// RFC 6347 4.2.2: msg_type(1)=20 length(3) message_seq(2) fragment_offset(3)=0 fragment_length(3) body
	return hs, append([]byte{20, 0, 0, 3, byte(ms >> 8), byte(ms), 0, 0, 0, 0, 0, 3}, v...)
}

func zzBE64(b []byte) uint64 {
	var v uint64
	for i := 0; i < 8; i++ {
		v = v<<8 | uint64(b[i])
	}
	return v
}

// zzContentIs asserts that the decoded content has the dynamic type of `kind` and encodes to `wire`
// (all these content encodings are injective, so equal encoding means equal value) and, for the simple
// types, compares the fields directly.
func zzContentEquals(got protocol.Content, kind int, wire []byte) bool {
	switch c := got.(type) {
	case *protocol.ChangeCipherSpec:
		return kind == zzKindCCS
	case *alert.Alert:
		return zzsymAnd(kind == zzKindAlert, zzsymAnd(byte(c.Level) == wire[0], byte(c.Description) == wire[1]))
	case *protocol.ApplicationData:
		return zzsymAnd(kind == zzKindApp, zzsymEqBytes(c.Data, wire))
	case *protocol.ACK:
		if kind != zzKindACK || len(c.Records) != 1 {
			return false
		}
		return zzsymAnd(c.Records[0].Epoch == zzBE64(wire[2:]), c.Records[0].SequenceNumber == zzBE64(wire[10:]))
	case *protocol.ReturnRoutabilityCheck:
		return zzsymAnd(kind == zzKindRRC, zzsymAnd(byte(c.MessageType) == wire[0], zzsymEqBytes(c.Cookie[:], wire[1:])))
	case *handshake.Handshake:
		f, ok := c.Message.(*handshake.MessageFinished)
		if kind != zzKindFinished || !ok {
			return false
		}
		hdrOK := zzsymAnd(c.Header.Type == handshake.TypeFinished, zzsymAnd(c.Header.Length == 3, c.Header.FragmentLength == 3))
		hdrOK = zzsymAnd(hdrOK, zzsymAnd(c.Header.FragmentOffset == 0, c.Header.MessageSequence == zzBE16(wire[4:])))
		return zzsymAnd(hdrOK, zzsymEqBytes(f.VerifyData, wire[12:]))
	}
	return false
}

// DTLS 1.2 RecordLayer round trip (RFC 6347 section 4.1 DTLSPlaintext): for every content kind
// (ChangeCipherSpec, Alert, ApplicationData 0..3 bytes, ACK, RRC, Handshake/Finished) with symbolic
// fields, both accepted record versions, every epoch and 48-bit sequence number: Marshal produces
// type|version|epoch|seq|length|content with length = len(content) and type = the content's type,
// Unmarshal accepts it and returns an equal header and an equal content of the same dynamic type.
//
//symgo:entry covers=rl_ccs,rl_alert,rl_app,rl_ack,rl_rrc,rl_hs
func zzRecordLayerRoundTrip() {
	kind := zzsymChoice("kind", zzNKinds)
	content, wire := zzContent(kind)
	r := RecordLayer{
		Header: Header{
			Version:        protocol.Version{Major: 0xfe, Minor: zzsymIteU8(zzsymBool("v10"), 0xff, 0xfd)},
			Epoch:          zzsymU16("epoch"),
			SequenceNumber: zzsymU64("seq"),
			ContentLen:     zzsymU16("stale_len"),                       // overwritten by Marshal
			ContentType:    protocol.ContentType(zzsymU8("stale_type")), // overwritten by Marshal
		},
		Content: content,
	}
	zzsymAssume(r.Header.SequenceNumber <= MaxSequenceNumber)
	zzsymAssume(r.Header.ContentType != protocol.ContentTypeConnectionID)
	raw, err := r.Marshal()
	zzsymAssert(err == nil, "rl_marshal_ok")
	zzsymAssert(len(raw) == 13+len(wire), "rl_marshal_len")
	zzsymAssert(raw[0] == byte(content.ContentType()), "rl_marshal_type")
	zzsymAssert(zzsymAnd(raw[1] == r.Header.Version.Major, raw[2] == r.Header.Version.Minor), "rl_marshal_version")
	zzsymAssert(zzBE16(raw[3:]) == r.Header.Epoch, "rl_marshal_epoch")
	zzsymAssert(zzBE48(raw[5:]) == r.Header.SequenceNumber, "rl_marshal_seq")
	zzsymAssert(int(zzBE16(raw[11:])) == len(wire), "rl_marshal_declared_len")
	zzsymAssert(zzsymEqBytes(raw[13:], wire), "rl_marshal_content")
	var g RecordLayer
	zzsymAssert(g.Unmarshal(raw) == nil, "rl_rt_accepts")
	zzsymAssert(g.Header.ContentType == content.ContentType(), "rl_rt_type")
	zzsymAssert(int(g.Header.ContentLen) == len(wire), "rl_rt_len")
	zzsymAssert(g.Header.Version == r.Header.Version, "rl_rt_version")
	zzsymAssert(g.Header.Epoch == r.Header.Epoch, "rl_rt_epoch")
	zzsymAssert(g.Header.SequenceNumber == r.Header.SequenceNumber, "rl_rt_seq")
	zzsymAssert(len(g.Header.ConnectionID) == 0, "rl_rt_no_cid")
	zzsymAssert(zzContentEquals(g.Content, kind, wire), "rl_rt_content")
	zzCoverKind(kind)
}

func zzCoverKind(kind int) {
	switch kind {
	case zzKindCCS:
		zzsymCover("rl_ccs")
	case zzKindAlert:
		zzsymCover("rl_alert")
	case zzKindApp:
		zzsymCover("rl_app")
	case zzKindACK:
		zzsymCover("rl_ack")
	case zzKindRRC:
		zzsymCover("rl_rrc")
	case zzKindFinished:
		zzsymCover("rl_hs")
	}
}

// zzRefContentOK is the reference accept predicate for a record body of the given content type,
// written from the RFC layouts (handshake bodies are not judged here: known=false).
func zzRefContentOK(ct byte, body []byte) (ok bool, known bool) {
	switch ct {
	case 20:
		if len(body) != 1 {
			return false, true
		}
		return body[0] == 1, true
	case 21:
		return len(body) == 2, true
	case 23:
		return true, true
	case 26:
		if len(body) < 2 || (len(body)-2)%16 != 0 {
			return false, true
		}
		return int(zzBE16(body)) == len(body)-2, true
	case 27:
		if len(body) == 0 {
			return false, true
		}
		if body[0] > 2 {
			return true, true
		}
		return len(body) == 9, true
	case 22:
		return false, false
	}
	return false, true
}

// DTLS 1.2 RecordLayer decoder against the reference, on every "honest" byte string (declared length
// = number of bytes after the 13-byte header) with 0..NRLBODY body bytes, plus every input shorter
// than a header: rejected if shorter than 13 bytes, if the version is not {254,255}/{254,253}, if the
// content type is not one of 20,21,22,23,26,27, or if the body is not a well-formed message of that
// type per its RFC layout; otherwise accepted with the header fields at their RFC offsets and a content
// of the matching dynamic type. Accepted input re-encodes to a canonical form c with
// Marshal(Unmarshal(c)) = c, and c is the input itself for every type with a single encoding.
// Records of type handshake(22) are excluded here (their bodies are judged by the handshake harnesses;
// the dispatch to the handshake decoder is covered by zzRecordLayerRoundTrip).
//
//symgo:entry covers=rl_short,rl_bad_version,rl_bad_type,rl_bad_body,rl_ok_ccs,rl_ok_alert,rl_ok_app,rl_ok_ack,rl_ok_rrc
func zzRecordLayerDecodeRef() {
	ln := zzsymChoice("len", 13+zzsymParam("NRLBODY")+1)
	data := zzsymBytes("d", ln)
	var r RecordLayer
	if ln < 13 {
		zzsymAssert(r.Unmarshal(data) != nil, "rl_truncated_header_rejected")
		zzsymCover("rl_short")
		return
	}
	zzsymAssume(int(zzBE16(data[11:])) == ln-13) // honest declared length; the dishonest case is zzRecordLayerDeclaredLen
	zzsymAssume(data[0] != 22)                   // handshake bodies: handshake_*.go harnesses and C08
	orig := append([]byte{}, data...)
	err := r.Unmarshal(data)
	if zzsymNot(zzsymAnd(data[1] == 254, zzsymOr(data[2] == 255, data[2] == 253))) {
		zzsymAssert(err != nil, "rl_bad_version_rejected")
		zzsymCover("rl_bad_version")
		return
	}
	ct := data[0]
	ok, known := zzRefContentOK(ct, orig[13:])
	if !known {
		return
	}
	if !ok {
		zzsymAssert(err != nil, "rl_malformed_rejected")
		if zzsymOr(ct < 20, zzsymOr(ct == 24, zzsymOr(ct == 25, ct > 27))) {
			zzsymCover("rl_bad_type")
		} else {
			zzsymCover("rl_bad_body")
		}
		return
	}
	zzsymAssert(err == nil, "rl_wellformed_accepted")
	zzsymAssert(byte(r.Header.ContentType) == ct, "rl_ref_type")
	zzsymAssert(r.Header.Epoch == zzBE16(orig[3:]), "rl_ref_epoch")
	zzsymAssert(r.Header.SequenceNumber == zzBE48(orig[5:]), "rl_ref_seq")
	zzsymAssert(int(r.Header.ContentLen) == ln-13, "rl_ref_len")
	zzsymAssert(r.Content.ContentType() == r.Header.ContentType, "rl_ref_content_dynamic_type")
	c, merr := r.Marshal()
	zzsymAssert(merr == nil, "rl_reencode_ok")
	unknownRRC := false
	switch ct {
	case 20:
		zzsymCover("rl_ok_ccs")
	case 21:
		zzsymCover("rl_ok_alert")
	case 23:
		zzsymCover("rl_ok_app")
	case 26:
		zzsymCover("rl_ok_ack")
	case 27:
		zzsymCover("rl_ok_rrc")
		unknownRRC = orig[13] > 2
	}
	if !unknownRRC {
		zzsymAssert(zzsymEqBytes(c, orig), "rl_canonical_is_input")
	}
	var g RecordLayer
	zzsymAssert(g.Unmarshal(c) == nil, "rl_canonical_accepted")
	c2, merr2 := g.Marshal()
	zzsymAssert(merr2 == nil, "rl_canonical_reencode_ok")
	zzsymAssert(zzsymEqBytes(c2, c), "rl_fixpoint")
}

// DTLS 1.2 RecordLayer and its declared length (RFC 6347 section 4.1: opaque fragment[length]): on
// every byte string of 13+0..NRLEXTRA bytes carrying an application_data or alert record whose
// declared length differs from the number of bytes that follow the header: if fewer bytes follow than
// declared the record must be rejected (truncation); if more bytes follow, the decoder must either
// reject or decode only the declared bytes - the content must never contain bytes beyond the declared
// length.
//
//symgo:entry covers=rl_trunc_case,rl_trailing_case
func zzRecordLayerDeclaredLen() {
	ln := 13 + zzsymChoice("bodylen", zzsymParam("NRLEXTRA")+1)
	data := zzsymBytes("d", ln)
	zzsymAssume(zzsymAnd(data[1] == 254, data[2] == 253))
	isApp := zzsymChoice("ct", 2) == 0
	if isApp {
		zzsymAssume(data[0] == 23)
	} else {
		zzsymAssume(data[0] == 21)
	}
	declared := int(zzBE16(data[11:]))
	zzsymAssume(declared != ln-13)
	var r RecordLayer
	err := r.Unmarshal(data)
	if declared > ln-13 {
		zzsymCover("rl_trunc_case")
		zzsymAssert(err != nil, "declared_len/RecordLayer_ignores_ContentLen")
		return
	}
	zzsymCover("rl_trailing_case")
	if err != nil {
		return // rejecting trailing garbage is fine
	}
	if isApp {
		a, ok := r.Content.(*protocol.ApplicationData)
		zzsymAssert(ok, "rl_declared_dynamic_type")
		zzsymAssert(len(a.Data) == declared, "declared_len/RecordLayer_ignores_ContentLen")
	} else {
		// an alert is 2 bytes: accepted only if exactly the declared 2 bytes were used
		zzsymAssert(declared == 2, "declared_len/RecordLayer_ignores_ContentLen")
	}
}
