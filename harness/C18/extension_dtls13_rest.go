package dtls13

//symgo:pkg github.com/pion/dtls/v3/pkg/protocol/extension/dtls13
//symgo:param NPSKID quick=1 thorough=2
//symgo:param NPSKBL quick=1 thorough=2
//symgo:param NPSKSHORT quick=8 thorough=12
//symgo:param NCA quick=8 thorough=11
//symgo:param NOID quick=10 thorough=12
//symgo:param NMODES quick=4 thorough=6
//symgo:param NRV quick=2 thorough=3

// zzPSKLayout is the result of the reference pre_shared_key (ClientHello) decoder.
type zzPSKLayout struct {
	ok           bool
	idOff, idLen []int // identity bytes
	ageOff       []int // 4-byte obfuscated_ticket_age
	bOff, bLen   []int // binder bytes
}

// zzPSKRef decodes the ClientHello pre_shared_key payload by RFC 8446 §4.2.11:
//
//	struct { opaque identity<1..2^16-1>; uint32 obfuscated_ticket_age; } PskIdentity;
//	opaque PskBinderEntry<32..255>;
//	struct { PskIdentity identities<7..2^16-1>; PskBinderEntry binders<33..2^16-1>; } OfferedPsks;
//
// ok means: the identities vector length fits and is partitioned exactly by well-formed identities
// (non-empty identity, 4 age bytes), the binders vector length equals the rest of the payload exactly
// and is partitioned exactly by binders of 32..255 bytes, and there are as many binders as identities.
func zzPSKRef(data []byte) (l zzPSKLayout) {
	n := len(data)
	if n < 2 {
		return l
	}
	il := int(data[0])<<8 | int(data[1])
	if il == 0 || il > n-2 {
		return l
	}
	p := 2
	end := 2 + il
	for p < end {
		if end-p < 2 {
			return l
		}
		x := int(data[p])<<8 | int(data[p+1])
		p += 2
		if x == 0 || x+4 > end-p {
			return l
		}
		l.idOff, l.idLen, l.ageOff = append(l.idOff, p), append(l.idLen, x), append(l.ageOff, p+x)
		p += x + 4
	}
	if n-p < 2 {
		return l
	}
	bl := int(data[p])<<8 | int(data[p+1])
	p += 2
	if bl == 0 || bl != n-p {
		return l
	}
	for p < n {
		x := int(data[p])
		p++
		if x < 32 || x > n-p {
			return l
		}
		l.bOff, l.bLen = append(l.bOff, p), append(l.bLen, x)
		p += x
	}
	l.ok = len(l.idOff) == len(l.bOff)
	return l
}

// zzPSKCheck runs the real decoder and the reference on data and asserts accept-set equality, exact
// field contents and the re-encoding fixed point. It returns the reference layout.
func zzPSKCheck(data []byte) zzPSKLayout {
	o := &OfferedPSKs{}
	err := o.UnmarshalData(data)
	l := zzPSKRef(data)
	if !l.ok {
		zzsymAssert(err != nil, "truncation/PreSharedKeyOffer")
		return l
	}
	zzsymAssert(err == nil, "ref_equal/PreSharedKeyOffer_accepts_wellformed")
	zzsymAssert(len(o.Identities) == len(l.idOff), "partition/PreSharedKeyOffer_identity_count")
	zzsymAssert(len(o.Binders) == len(l.bOff), "partition/PreSharedKeyOffer_binder_count")
	for i := range l.idOff {
		zzsymAssert(zzsymEqBytes(o.Identities[i].Identity, data[l.idOff[i]:l.idOff[i]+l.idLen[i]]), "declared_len/PreSharedKeyOffer_identity")
		a := l.ageOff[i]
		age := uint32(data[a])<<24 | uint32(data[a+1])<<16 | uint32(data[a+2])<<8 | uint32(data[a+3])
		zzsymAssert(o.Identities[i].ObfuscatedTicketAge == age, "ref_equal/PreSharedKeyOffer_ticket_age")
	}
	for i := range l.bOff {
		zzsymAssert(zzsymEqBytes(o.Binders[i], data[l.bOff[i]:l.bOff[i]+l.bLen[i]]), "declared_len/PreSharedKeyOffer_binder")
	}
	c, merr := o.MarshalData()
	zzsymAssert(merr == nil, "fixpoint/PreSharedKeyOffer_marshal_ok")
	zzsymAssert(zzsymEqBytes(c, data), "fixpoint/PreSharedKeyOffer_canonical")
	return l
}

// zzPSKField appends a big-endian length field of w bytes: the honest value v, or — when free — w
// fully symbolic bytes (every value of the field).
func zzPSKField(out []byte, w, v int, free bool, name string) []byte {
	if free {
		f := zzsymBytes(name, w)
		if w == 2 {
			// concrete case split of the 16-bit value (below 64 / 64 and above): covers every value and
			// keeps the number of slice bounds the engine has to enumerate per path below its cap
			if zzsymChoice("half", 2) == 0 {
				zzsymAssume(zzsymAnd(f[0] == 0, f[1] < 64))
			} else {
				zzsymAssume(zzsymOr(f[0] != 0, f[1] >= 64))
			}
		}
		return append(out, f...)
	}
	if w == 2 {
		return append(out, byte(v>>8), byte(v))
	}
	return append(out, byte(v))
}

// pre_shared_key ClientHello offer, structured inputs: 1..2 identities of 1..NPSKID bytes, 1..2
// binders of 32..31+NPSKBL bytes (so 2 identities + 2 binders fit: up to 2+2·7+2+2·34 bytes), 0..1
// extra byte after the binders; all contents (identities, ticket ages, binders, extra byte) symbolic;
// all length fields honest except ONE that takes every possible value: none / identities<> length /
// first identity length / last identity length / binders<> length / first binder length / last
// binder length. Proved: the decoder accepts exactly when the reference layout holds — every declared
// vector length must be exact (a binders<> length smaller or larger than the remaining bytes, an
// identities<> length cutting an identity, trailing bytes, binder shorter than 32, binder count
// different from identity count: all rejected); decoded identities, ticket ages and binders are
// exactly the declared bytes; an accepted payload re-encodes to itself.
//
//symgo:entry covers=psk_accept_1,psk_accept_2,psk_reject_count,psk_reject_len,psk_reject_trailing,psk_free_binders_len
func zzPSKOfferDecode() {
	k := 1 + zzsymChoice("identities", 2)
	j := 1 + zzsymChoice("binders", 2)
	free := zzsymChoice("free", 7)
	trail := zzsymChoice("trailing", 2)
	idl := make([]int, k)
	il := 0
	for i := range idl {
		idl[i] = 1 + zzsymChoice("idlen", zzsymParam("NPSKID"))
		il += 2 + idl[i] + 4
	}
	bll := make([]int, j)
	bl := 0
	for i := range bll {
		bll[i] = 32 + zzsymChoice("binderlen", zzsymParam("NPSKBL"))
		bl += 1 + bll[i]
	}
	data := zzPSKField(nil, 2, il, free == 1, "f_identities_len")
	for i := range idl {
		data = zzPSKField(data, 2, idl[i], (free == 2 && i == 0) || (free == 3 && i == k-1), "f_identity_len")
		data = append(data, zzsymBytes("identity", idl[i])...)
		data = append(data, zzsymBytes("age", 4)...)
	}
	data = zzPSKField(data, 2, bl, free == 4, "f_binders_len")
	for i := range bll {
		data = zzPSKField(data, 1, bll[i], (free == 5 && i == 0) || (free == 6 && i == j-1), "f_binder_len")
		data = append(data, zzsymBytes("binder", bll[i])...)
	}
	data = append(data, zzsymBytes("extra", trail)...)
	l := zzPSKCheck(data)
	if free == 4 {
		zzsymCover("psk_free_binders_len")
	}
	switch {
	case l.ok && len(l.idOff) == 1:
		zzsymCover("psk_accept_1")
	case l.ok:
		zzsymCover("psk_accept_2")
	case free == 0 && trail == 0 && k != j:
		zzsymCover("psk_reject_count")
	case free == 0 && trail == 1:
		zzsymCover("psk_reject_trailing")
	case free != 0:
		zzsymCover("psk_reject_len")
	}
}

// pre_shared_key ClientHello offer on every byte string of length 0..NPSKSHORT (all bytes symbolic):
// far below the 44-byte minimum (one 1-byte identity + one 32-byte binder), so every such input is
// truncated somewhere and must be rejected without panic.
//
//symgo:entry covers=psk_short_reject
func zzPSKOfferShort() {
	data := zzsymBytes("d", zzsymChoice("len", zzsymParam("NPSKSHORT")+1))
	o := &OfferedPSKs{}
	zzsymAssert(o.UnmarshalData(data) != nil, "truncation/PreSharedKeyOffer_short")
	zzsymCover("psk_short_reject")
}

// pre_shared_key round trip from values: 1..2 identities of 1..NPSKID bytes with any ticket age and
// as many binders of 32..31+NPSKBL bytes: MarshalData emits exactly the RFC layout,
// UnmarshalData(MarshalData(v)) == v, and every strict prefix of the encoding is rejected. MarshalData
// refuses: no identity, binder count ≠ identity count, empty identity, binder of 31 bytes.
// ServerHello form (uint16 selected_identity): exactly 2 bytes accepted, value and re-encoding equal
// the input, every other length 0..4 rejected.
//
//symgo:entry covers=psk_rt,psk_marshal_refused,psk_selected_accept,psk_selected_reject
func zzPSKRoundTrip() {
	switch zzsymChoice("mode", 3) {
	case 0:
		k := 1 + zzsymChoice("identities", 2)
		v := OfferedPSKs{}
		ids := []byte{}
		bs := []byte{}
		for i := 0; i < k; i++ {
			id := PSKIdentity{Identity: zzsymBytes("identity", 1+zzsymChoice("idlen", zzsymParam("NPSKID"))), ObfuscatedTicketAge: zzsymU32("age")}
			b := zzsymBytes("binder", 32+zzsymChoice("binderlen", zzsymParam("NPSKBL")))
			v.Identities = append(v.Identities, id)
			v.Binders = append(v.Binders, PSKBinder(b))
			ids = append(ids, 0, byte(len(id.Identity)))
			ids = append(ids, id.Identity...)
			ids = append(ids, byte(id.ObfuscatedTicketAge>>24), byte(id.ObfuscatedTicketAge>>16), byte(id.ObfuscatedTicketAge>>8), byte(id.ObfuscatedTicketAge))
			bs = append(bs, byte(len(b)))
			bs = append(bs, b...)
		}
		want := append([]byte{0, byte(len(ids))}, ids...)
		want = append(want, 0, byte(len(bs)))
		want = append(want, bs...)
		raw, err := v.MarshalData()
		zzsymAssert(err == nil, "rt/PreSharedKeyOffer_marshal_ok")
		zzsymAssert(zzsymEqBytes(raw, want), "ref_equal/PreSharedKeyOffer_encoding_layout")
		g := &OfferedPSKs{}
		zzsymAssert(g.UnmarshalData(raw) == nil, "rt/PreSharedKeyOffer_unmarshal_ok")
		zzsymAssert(len(g.Identities) == k && len(g.Binders) == k, "rt/PreSharedKeyOffer_count")
		for i := 0; i < k; i++ {
			eq := zzsymAnd(zzsymEqBytes(g.Identities[i].Identity, v.Identities[i].Identity), g.Identities[i].ObfuscatedTicketAge == v.Identities[i].ObfuscatedTicketAge)
			zzsymAssert(zzsymAnd(eq, zzsymEqBytes(g.Binders[i], v.Binders[i])), "rt/PreSharedKeyOffer_entry")
		}
		for p := 0; p < len(raw); p++ {
			t := &OfferedPSKs{}
			zzsymAssert(t.UnmarshalData(raw[:p]) != nil, "truncation/PreSharedKeyOffer_prefix")
		}
		zzsymCover("psk_rt")
	case 1:
		good := PSKIdentity{Identity: zzsymBytes("identity", 1)}
		bad := OfferedPSKs{}
		switch zzsymChoice("why", 4) {
		case 0: // no identity
		case 1: // count mismatch
			bad.Identities = []PSKIdentity{good, good}
			bad.Binders = []PSKBinder{zzsymBytes("binder", 32)}
		case 2: // empty identity
			bad.Identities = []PSKIdentity{{}}
			bad.Binders = []PSKBinder{zzsymBytes("binder", 32)}
		default: // binder below 32 bytes
			bad.Identities = []PSKIdentity{good}
			bad.Binders = []PSKBinder{zzsymBytes("binder", 31)}
		}
		_, err := bad.MarshalData()
		zzsymAssert(err != nil, "rt/PreSharedKeyOffer_marshal_refuses_malformed")
		zzsymCover("psk_marshal_refused")
	default:
		n := zzsymChoice("len", 5)
		data := zzsymBytes("d", n)
		s := &SelectedPSK{}
		err := s.UnmarshalData(data)
		if n != 2 {
			zzsymAssert(err != nil, "truncation/SelectedPSK")
			zzsymCover("psk_selected_reject")
			return
		}
		zzsymAssert(err == nil, "ref_equal/SelectedPSK_accepts")
		zzsymAssert(s.Identity == uint16(data[0])<<8|uint16(data[1]), "ref_equal/SelectedPSK_value")
		c, merr := s.MarshalData()
		zzsymAssert(merr == nil, "fixpoint/SelectedPSK_marshal_ok")
		zzsymAssert(zzsymEqBytes(c, data), "fixpoint/SelectedPSK_canonical")
		g := &SelectedPSK{}
		zzsymAssert(g.UnmarshalData(c) == nil && g.Identity == s.Identity, "rt/SelectedPSK_equal")
		zzsymCover("psk_selected_accept")
	}
}

// psk_key_exchange_modes (RFC 8446 §4.2.9: PskKeyExchangeMode ke_modes<1..255>) on every byte string
// of length 0..NMODES: accepted iff the 1-byte length equals the rest and is non-zero (truncated,
// over-long, empty: rejected); the modes are exactly the declared bytes in order (unknown values
// kept); MarshalData gives the input back. From values: 0..NRV arbitrary modes — empty refused,
// others round-trip through the RFC layout and every strict prefix is rejected.
//
//symgo:entry covers=modes_accept,modes_reject,modes_rt,modes_marshal_refused
func zzPSKModesCodec() {
	if zzsymChoice("mode", 2) == 0 {
		n := zzsymChoice("len", zzsymParam("NMODES")+1)
		data := zzsymBytes("d", n)
		p := &PSKKeyExchangeModes{}
		err := p.UnmarshalData(data)
		ok := false
		if n >= 2 {
			ok = int(data[0]) == n-1
		}
		if !ok {
			zzsymAssert(err != nil, "truncation/PSKKeyExchangeModes")
			zzsymCover("modes_reject")
			return
		}
		zzsymAssert(err == nil, "ref_equal/PSKKeyExchangeModes_accepts_wellformed")
		zzsymAssert(len(p.Modes) == n-1, "ref_equal/PSKKeyExchangeModes_count")
		for i := range p.Modes {
			zzsymAssert(byte(p.Modes[i]) == data[1+i], "declared_len/PSKKeyExchangeModes_value")
		}
		c, merr := p.MarshalData()
		zzsymAssert(merr == nil, "fixpoint/PSKKeyExchangeModes_marshal_ok")
		zzsymAssert(zzsymEqBytes(c, data), "fixpoint/PSKKeyExchangeModes_canonical")
		zzsymCover("modes_accept")
		return
	}
	cnt := zzsymChoice("count", zzsymParam("NRV")+1)
	v := PSKKeyExchangeModes{}
	want := []byte{byte(cnt)}
	for i := 0; i < cnt; i++ {
		m := zzsymU8("m")
		v.Modes = append(v.Modes, PSKKeyExchangeMode(m))
		want = append(want, m)
	}
	raw, err := v.MarshalData()
	if cnt == 0 {
		zzsymAssert(err != nil, "rt/PSKKeyExchangeModes_marshal_refuses_empty")
		zzsymCover("modes_marshal_refused")
		return
	}
	zzsymAssert(err == nil, "rt/PSKKeyExchangeModes_marshal_ok")
	zzsymAssert(zzsymEqBytes(raw, want), "ref_equal/PSKKeyExchangeModes_encoding_layout")
	g := &PSKKeyExchangeModes{}
	zzsymAssert(g.UnmarshalData(raw) == nil, "rt/PSKKeyExchangeModes_unmarshal_ok")
	zzsymAssert(len(g.Modes) == cnt, "rt/PSKKeyExchangeModes_count")
	for i := 0; i < cnt; i++ {
		zzsymAssert(g.Modes[i] == v.Modes[i], "rt/PSKKeyExchangeModes_value")
	}
	for k := 0; k < len(raw); k++ {
		t := &PSKKeyExchangeModes{}
		zzsymAssert(t.UnmarshalData(raw[:k]) != nil, "truncation/PSKKeyExchangeModes_prefix")
	}
	zzsymCover("modes_rt")
}

// early_data (RFC 8446 §4.2.10) and post_handshake_auth (§4.2.6) on every byte string of length 0..6.
// ClientHello / EncryptedExtensions early_data and post_handshake_auth: struct {} — accepted iff the
// payload is empty, encoded as the empty payload. NewSessionTicket early_data: uint32
// max_early_data_size — accepted iff the payload is exactly 4 bytes (shorter = truncated, longer =
// trailing: rejected), value is the big-endian number, MarshalData gives the input back and any uint32
// round-trips.
//
//symgo:entry covers=ed_empty_accept,ed_empty_reject,ed_max_accept,ed_max_reject
func zzEarlyDataPostHandshakeCodec() {
	n := zzsymChoice("len", 7)
	data := zzsymBytes("d", n)
	var e EarlyData
	var p PostHandshakeAuth
	e1, e2 := e.UnmarshalData(data), p.UnmarshalData(data)
	o1, m1 := e.MarshalData()
	o2, m2 := p.MarshalData()
	zzsymAssert(m1 == nil && m2 == nil, "rt/EmptyExt13_marshal_ok")
	zzsymAssert(len(o1) == 0 && len(o2) == 0, "ref_equal/EmptyExt13_encoding_layout")
	if n == 0 {
		zzsymAssert(e1 == nil && e2 == nil, "rt/EmptyExt13_accepts_empty")
		zzsymCover("ed_empty_accept")
	} else {
		zzsymAssert(e1 != nil && e2 != nil, "declared_len/EmptyExt13_rejects_payload")
		zzsymCover("ed_empty_reject")
	}
	m := &MaxEarlyData{}
	err := m.UnmarshalData(data)
	if n != 4 {
		zzsymAssert(err != nil, "truncation/MaxEarlyData")
		zzsymCover("ed_max_reject")
	} else {
		zzsymAssert(err == nil, "ref_equal/MaxEarlyData_accepts")
		zzsymAssert(m.Size == uint32(data[0])<<24|uint32(data[1])<<16|uint32(data[2])<<8|uint32(data[3]), "ref_equal/MaxEarlyData_value")
		c, merr := m.MarshalData()
		zzsymAssert(merr == nil, "fixpoint/MaxEarlyData_marshal_ok")
		zzsymAssert(zzsymEqBytes(c, data), "fixpoint/MaxEarlyData_canonical")
		zzsymCover("ed_max_accept")
	}
	v := MaxEarlyData{Size: zzsymU32("size")}
	raw, verr := v.MarshalData()
	zzsymAssert(verr == nil, "rt/MaxEarlyData_marshal_ok")
	zzsymAssert(zzsymEqBytes(raw, []byte{byte(v.Size >> 24), byte(v.Size >> 16), byte(v.Size >> 8), byte(v.Size)}), "ref_equal/MaxEarlyData_encoding_layout")
	g := &MaxEarlyData{}
	zzsymAssert(g.UnmarshalData(raw) == nil && g.Size == v.Size, "rt/MaxEarlyData_equal")
}

// certificate_authorities (RFC 8446 §4.2.4: DistinguishedName authorities<3..2^16-1>,
// DistinguishedName = opaque<1..2^16-1>) on every byte string of length 0..NCA: accepted iff the uint16
// vector length is non-zero, equals the rest exactly, and the names' declared lengths (each ≥ 1)
// partition it exactly (truncated name header, truncated name, empty name, trailing bytes: rejected);
// each name is exactly its declared bytes; MarshalData gives the input back.
//
//symgo:entry covers=ca_accept_one,ca_accept_two,ca_reject
func zzCertificateAuthoritiesDecode() {
	n := zzsymChoice("len", zzsymParam("NCA")+1)
	data := zzsymBytes("d", n)
	c := &CertificateAuthorities{}
	err := c.UnmarshalData(data)
	ok := n >= 3
	if ok {
		ok = int(data[0])<<8|int(data[1]) == n-2
	}
	var offs, lens []int
	p := 2
	for ok && p < n {
		if n-p < 2 {
			ok = false
			break
		}
		x := int(data[p])<<8 | int(data[p+1])
		p += 2
		if x == 0 || x > n-p {
			ok = false
			break
		}
		offs, lens = append(offs, p), append(lens, x)
		p += x
	}
	if !ok {
		zzsymAssert(err != nil, "truncation/CertificateAuthorities")
		zzsymCover("ca_reject")
		return
	}
	zzsymAssert(err == nil, "ref_equal/CertificateAuthorities_accepts_wellformed")
	zzsymAssert(len(c.Authorities) == len(offs), "partition/CertificateAuthorities_count")
	for i := range offs {
		zzsymAssert(zzsymEqBytes(c.Authorities[i], data[offs[i]:offs[i]+lens[i]]), "declared_len/CertificateAuthorities_name")
	}
	out, merr := c.MarshalData()
	zzsymAssert(merr == nil, "fixpoint/CertificateAuthorities_marshal_ok")
	zzsymAssert(zzsymEqBytes(out, data), "fixpoint/CertificateAuthorities_canonical")
	if len(offs) == 1 {
		zzsymCover("ca_accept_one")
	} else if len(offs) == 2 {
		zzsymCover("ca_accept_two")
	}
}

// oid_filters (RFC 8446 §4.2.5: OIDFilter filters<0..2^16-1>, OIDFilter = { opaque
// certificate_extension_oid<1..2^8-1>; opaque certificate_extension_values<0..2^16-1> }) on every byte
// string of length 0..NOID: accepted iff the uint16 vector length equals the rest exactly, the filters
// partition it exactly (OID non-empty and fitting, 2-byte values length present and fitting) and no
// OID occurs twice (RFC 8446: each OID at most once); OIDs and values are exactly the declared bytes;
// MarshalData gives the input back. The empty filter list is valid.
//
//symgo:entry covers=oid_accept_empty,oid_accept_one,oid_accept_two,oid_reject_framing,oid_reject_duplicate
func zzOIDFiltersDecode() {
	n := zzsymChoice("len", zzsymParam("NOID")+1)
	data := zzsymBytes("d", n)
	o := &OIDFilters{}
	err := o.UnmarshalData(data)
	ok := n >= 2
	if ok {
		ok = int(data[0])<<8|int(data[1]) == n-2
	}
	var oOff, oLen, vOff, vLen []int
	p := 2
	for ok && p < n {
		x := int(data[p])
		p++
		if x == 0 || x > n-p {
			ok = false
			break
		}
		oo := p
		p += x
		if n-p < 2 {
			ok = false
			break
		}
		y := int(data[p])<<8 | int(data[p+1])
		p += 2
		if y > n-p {
			ok = false
			break
		}
		oOff, oLen, vOff, vLen = append(oOff, oo), append(oLen, x), append(vOff, p), append(vLen, y)
		p += y
	}
	if !ok {
		zzsymAssert(err != nil, "truncation/OIDFilters")
		zzsymCover("oid_reject_framing")
		return
	}
	dup := false
	for i := range oOff {
		for k := 0; k < i; k++ {
			if zzsymEqBytes(data[oOff[i]:oOff[i]+oLen[i]], data[oOff[k]:oOff[k]+oLen[k]]) {
				dup = true
			}
		}
	}
	if dup {
		zzsymAssert(err != nil, "ref_equal/OIDFilters_duplicate_rejected")
		zzsymCover("oid_reject_duplicate")
		return
	}
	zzsymAssert(err == nil, "ref_equal/OIDFilters_accepts_wellformed")
	zzsymAssert(len(o.Filters) == len(oOff), "partition/OIDFilters_count")
	for i := range oOff {
		zzsymAssert(zzsymEqBytes(o.Filters[i].OID, data[oOff[i]:oOff[i]+oLen[i]]), "declared_len/OIDFilters_oid")
		zzsymAssert(zzsymEqBytes(o.Filters[i].Values, data[vOff[i]:vOff[i]+vLen[i]]), "declared_len/OIDFilters_values")
	}
	out, merr := o.MarshalData()
	zzsymAssert(merr == nil, "fixpoint/OIDFilters_marshal_ok")
	zzsymAssert(zzsymEqBytes(out, data), "fixpoint/OIDFilters_canonical")
	switch len(oOff) {
	case 0:
		zzsymCover("oid_accept_empty")
	case 1:
		zzsymCover("oid_accept_one")
	case 2:
		zzsymCover("oid_accept_two")
	}
}

// certificate_authorities and oid_filters round trip from values: 0..2 names of 1..NRV bytes
// (empty list refused by MarshalData); 0..2 filters with OID of 1..NRV bytes (distinct OIDs; equal OIDs
// refused by MarshalData) and values of 0..NRV bytes: RFC layout, round trip equal, every strict prefix
// rejected.
//
//symgo:entry covers=ca_rt,ca_marshal_refused,oid_rt,oid_marshal_refused_dup
func zzAuthoritiesOIDRoundTrip() {
	nv := zzsymParam("NRV")
	cnt := zzsymChoice("count", 3)
	if zzsymChoice("kind", 2) == 0 {
		v := CertificateAuthorities{}
		body := []byte{}
		for i := 0; i < cnt; i++ {
			a := zzsymBytes("name", 1+zzsymChoice("namelen", nv))
			v.Authorities = append(v.Authorities, a)
			body = append(body, 0, byte(len(a)))
			body = append(body, a...)
		}
		raw, err := v.MarshalData()
		if cnt == 0 {
			zzsymAssert(err != nil, "rt/CertificateAuthorities_marshal_refuses_empty")
			zzsymCover("ca_marshal_refused")
			return
		}
		zzsymAssert(err == nil, "rt/CertificateAuthorities_marshal_ok")
		zzsymAssert(zzsymEqBytes(raw, append([]byte{0, byte(len(body))}, body...)), "ref_equal/CertificateAuthorities_encoding_layout")
		g := &CertificateAuthorities{}
		zzsymAssert(g.UnmarshalData(raw) == nil, "rt/CertificateAuthorities_unmarshal_ok")
		zzsymAssert(len(g.Authorities) == cnt, "rt/CertificateAuthorities_count")
		for i := 0; i < cnt; i++ {
			zzsymAssert(zzsymEqBytes(g.Authorities[i], v.Authorities[i]), "rt/CertificateAuthorities_name")
		}
		for k := 0; k < len(raw); k++ {
			t := &CertificateAuthorities{}
			zzsymAssert(t.UnmarshalData(raw[:k]) != nil, "truncation/CertificateAuthorities_prefix")
		}
		zzsymCover("ca_rt")
		return
	}
	v := OIDFilters{}
	body := []byte{}
	for i := 0; i < cnt; i++ {
		f := OIDFilter{OID: zzsymBytes("oid", 1+zzsymChoice("oidlen", nv)), Values: zzsymBytes("values", zzsymChoice("vallen", nv+1))}
		v.Filters = append(v.Filters, f)
		body = append(body, byte(len(f.OID)))
		body = append(body, f.OID...)
		body = append(body, 0, byte(len(f.Values)))
		body = append(body, f.Values...)
	}
	raw, err := v.MarshalData()
	if cnt == 2 && zzsymEqBytes(v.Filters[0].OID, v.Filters[1].OID) {
		zzsymAssert(err != nil, "rt/OIDFilters_marshal_refuses_duplicate")
		zzsymCover("oid_marshal_refused_dup")
		return
	}
	zzsymAssert(err == nil, "rt/OIDFilters_marshal_ok")
	zzsymAssert(zzsymEqBytes(raw, append([]byte{0, byte(len(body))}, body...)), "ref_equal/OIDFilters_encoding_layout")
	g := &OIDFilters{}
	zzsymAssert(g.UnmarshalData(raw) == nil, "rt/OIDFilters_unmarshal_ok")
	zzsymAssert(len(g.Filters) == cnt, "rt/OIDFilters_count")
	for i := 0; i < cnt; i++ {
		zzsymAssert(zzsymAnd(zzsymEqBytes(g.Filters[i].OID, v.Filters[i].OID), zzsymEqBytes(g.Filters[i].Values, v.Filters[i].Values)), "rt/OIDFilters_filter")
	}
	for k := 0; k < len(raw); k++ {
		t := &OIDFilters{}
		zzsymAssert(t.UnmarshalData(raw[:k]) != nil, "truncation/OIDFilters_prefix")
	}
	zzsymCover("oid_rt")
}
