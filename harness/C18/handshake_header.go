package handshake

//symgo:pkg github.com/pion/dtls/v3/pkg/protocol/handshake

// Handshake header (RFC 6347 §4.2.2: type(1) length(3) message_seq(2) fragment_offset(3)
// fragment_length(3)): for every field value that fits its wire width, Unmarshal(Marshal(h)) == h,
// the encoding is exactly 12 bytes laid out big-endian as in the RFC, and Marshal(Unmarshal(x)) == x
// for every 12-byte string x (every 12-byte string is canonical).
//
//symgo:entry covers=hdr_rt_ok
func zzHsHeaderRoundTrip() {
	h := Header{
		Type:            Type(zzsymU8("type")),
		Length:          zzsymU32("len"),
		MessageSequence: zzsymU16("seq"),
		FragmentOffset:  zzsymU32("off"),
		FragmentLength:  zzsymU32("flen"),
	}
	// uint24 fields: values that do not fit 24 bits are outside the wire format.
	zzsymAssume(h.Length <= 0xffffff)
	zzsymAssume(h.FragmentOffset <= 0xffffff)
	zzsymAssume(h.FragmentLength <= 0xffffff)
	raw, err := h.Marshal()
	zzsymAssert(err == nil, "rt/HsHeader_marshal_ok")
	zzsymAssert(len(raw) == 12, "rt/HsHeader_len")
	// RFC layout written out independently
	zzsymAssert(raw[0] == byte(h.Type), "ref_equal/HsHeader_type")
	zzsymAssert(uint32(raw[1])<<16|uint32(raw[2])<<8|uint32(raw[3]) == h.Length, "ref_equal/HsHeader_length")
	zzsymAssert(uint16(raw[4])<<8|uint16(raw[5]) == h.MessageSequence, "ref_equal/HsHeader_seq")
	zzsymAssert(uint32(raw[6])<<16|uint32(raw[7])<<8|uint32(raw[8]) == h.FragmentOffset, "ref_equal/HsHeader_fragoff")
	zzsymAssert(uint32(raw[9])<<16|uint32(raw[10])<<8|uint32(raw[11]) == h.FragmentLength, "ref_equal/HsHeader_fraglen")
	var g Header
	zzsymAssert(g.Unmarshal(raw) == nil, "rt/HsHeader_unmarshal_ok")
	zzsymAssert(g == h, "rt/HsHeader_equal")
	zzsymCover("hdr_rt_ok")
}

// Handshake header decoder on arbitrary input of length 0..12+2: inputs shorter than 12 bytes are
// rejected (truncation); otherwise exactly the first 12 bytes are used (bytes beyond are never
// consumed: re-encoding gives the first 12 bytes back, which is the canonical fixed point).
//
//symgo:entry covers=hdr_short,hdr_ok
func zzHsHeaderDecode() {
	n := zzsymChoice("len", HeaderLength+3)
	data := zzsymBytes("d", n)
	var h Header
	err := h.Unmarshal(data)
	if n < HeaderLength {
		zzsymAssert(err != nil, "truncation/HsHeader")
		zzsymCover("hdr_short")
		return
	}
	zzsymAssert(err == nil, "ref_equal/HsHeader_accepts_12")
	c, merr := h.Marshal()
	zzsymAssert(merr == nil, "fixpoint/HsHeader_marshal_ok")
	zzsymAssert(zzsymEqBytes(c, data[:HeaderLength]), "fixpoint/HsHeader_canonical_is_prefix")
	zzsymCover("hdr_ok")
}
