package recordlayer

//symgo:pkg github.com/pion/dtls/v3/pkg/protocol/recordlayer
//symgo:param NP13BODY quick=18 thorough=34
//symgo:param NP13EXTRA quick=2 thorough=4
//symgo:param NCTCID quick=2 thorough=4
//symgo:param NCTEXTRA quick=2 thorough=4
//symgo:outside DTLSPlaintext (1.3) records carrying a ClientHello are round-tripped for one minimal ClientHello shape only (no session id, cookie or extensions, one suite); the ClientHello codec itself is checked in the handshake harnesses
//symgo:outside encrypted_record longer than the harness bound; the 2^14+256 upper limit is exercised with one concrete all-zero record of 16640 and one of 16641 bytes

import (
	"time"

	"github.com/pion/dtls/v3/pkg/protocol"
	"github.com/pion/dtls/v3/pkg/protocol/handshake"
)

// DTLS 1.3 DTLSPlaintext round trip (RFC 9147 section 4: type(1) legacy_record_version(2) epoch(2)=0
// sequence_number(6) length(2) fragment[length]) for content kinds Alert, ACK and Handshake/Finished
// with symbolic fields, every epoch, every 48-bit sequence number and record version zero-value,
// {254,255}, {254,253} or {254,252}: whenever Marshal succeeds, the bytes have that layout with
// length = len(fragment), Unmarshal accepts them and returns an equal header (as left by Marshal) and
// an equal content; every strict prefix and every one-byte extension is rejected. Marshal succeeds at
// least for epoch 0 with version {254,253} or the zero value.
//
//symgo:entry covers=p13_alert,p13_ack,p13_hs,p13_refused,p13_default_version
func zzPlaintext13RoundTrip() {
	kind := []int{zzKindAlert, zzKindACK, zzKindFinished}[zzsymChoice("kind", 3)]
	content, wire := zzContent(kind)
	var ver protocol.Version
	vsel := zzsymChoice("version", 4)
	switch vsel {
	case 1:
		ver = protocol.Version1_0
	case 2:
		ver = protocol.Version1_2
	case 3:
		ver = protocol.Version1_3
	}
	r := PlaintextRecord13{
		Header: Header{
			Version:        ver,
			Epoch:          zzsymU16("epoch"),
			SequenceNumber: zzsymU64("seq"),
			ContentLen:     zzsymU16("stale_len"),
		},
		Content: content,
	}
	zzsymAssume(r.Header.SequenceNumber <= MaxSequenceNumber)
	epoch := r.Header.Epoch
	raw, err := r.Marshal()
	if err != nil {
		// the encoder must at least serve the normal case
		zzsymAssert(zzsymNot(zzsymAnd(epoch == 0, zzsymOr(vsel == 0, vsel == 2))), "p13_normal_case_encodes")
		zzsymCover("p13_refused")
		return
	}
	if vsel == 0 {
		zzsymCover("p13_default_version")
	}
	zzsymAssert(len(raw) == 13+len(wire), "p13_marshal_len")
	zzsymAssert(raw[0] == byte(content.ContentType()), "p13_marshal_type")
	zzsymAssert(zzsymAnd(raw[1] == r.Header.Version.Major, raw[2] == r.Header.Version.Minor), "p13_marshal_version")
	zzsymAssert(zzBE16(raw[3:]) == epoch, "p13_marshal_epoch")
	zzsymAssert(zzBE48(raw[5:]) == r.Header.SequenceNumber, "p13_marshal_seq")
	zzsymAssert(int(zzBE16(raw[11:])) == len(wire), "p13_marshal_declared_len")
	zzsymAssert(zzsymEqBytes(raw[13:], wire), "p13_marshal_content")
	var g PlaintextRecord13
	zzsymAssert(g.Unmarshal(raw) == nil, "p13_rt_accepts")
	zzsymAssert(g.Header.ContentType == content.ContentType(), "p13_rt_type")
	zzsymAssert(int(g.Header.ContentLen) == len(wire), "p13_rt_len")
	zzsymAssert(g.Header.Version == r.Header.Version, "p13_rt_version")
	zzsymAssert(g.Header.Epoch == epoch, "p13_rt_epoch")
	zzsymAssert(g.Header.SequenceNumber == r.Header.SequenceNumber, "p13_rt_seq")
	zzsymAssert(len(g.Header.ConnectionID) == 0, "p13_rt_no_cid")
	zzsymAssert(zzContentEquals(g.Content, kind, wire), "p13_rt_content")
	for k := 0; k < len(raw); k++ {
		var t PlaintextRecord13
		zzsymAssert(t.Unmarshal(raw[:k]) != nil, "p13_truncated_rejected")
	}
	var t PlaintextRecord13
	zzsymAssert(t.Unmarshal(append(append([]byte{}, raw...), zzsymU8("extra"))) != nil, "p13_trailing_rejected")
	switch kind {
	case zzKindAlert:
		zzsymCover("p13_alert")
	case zzKindACK:
		zzsymCover("p13_ack")
	case zzKindFinished:
		zzsymCover("p13_hs")
	}
}

// DTLS 1.3 DTLSPlaintext carrying a ClientHello with legacy_record_version {254,255} (the only case
// in which RFC 9147 lets a sender use that version): for a minimal ClientHello with symbolic random,
// cipher suite, message sequence and record sequence number, whenever Marshal succeeds the record has
// the RFC layout (type 22, version {254,255}, epoch 0, length = fragment size, fragment starting with
// msg_type 1), Unmarshal accepts it with an equal header, the decoded content is a ClientHello handshake
// message with the same fields, and re-encoding the decoded record gives the same bytes.
//
//symgo:entry covers=p13_ch_v10_ok,p13_ch_v10_refused
func zzPlaintext13ClientHelloLegacyVersion() {
	ch := &handshake.MessageClientHello{
		Version:            protocol.Version1_2,
		CipherSuiteIDs:     []uint16{zzsymU16("suite")},
		CompressionMethods: []*protocol.CompressionMethod{{}},
	}
	copy(ch.Random.RandomBytes[:], zzsymBytes("rand", handshake.RandomBytesLength))
	ch.Random.GMTUnixTime = time.Unix(int64(zzsymU32("gmt")), 0)
	hs := &handshake.Handshake{Header: handshake.Header{MessageSequence: zzsymU16("msgseq")}, Message: ch}
	r := PlaintextRecord13{Header: Header{Version: protocol.Version1_0, SequenceNumber: zzsymU64("seq")}, Content: hs}
	zzsymAssume(r.Header.SequenceNumber <= MaxSequenceNumber)
	raw, err := r.Marshal()
	if err != nil {
		zzsymCover("p13_ch_v10_refused")
		return
	}
	zzsymAssert(len(raw) >= 13+12, "p13_ch_len")
	zzsymAssert(raw[0] == 22, "p13_ch_type")
	zzsymAssert(zzsymAnd(raw[1] == 254, raw[2] == 255), "p13_ch_version")
	zzsymAssert(zzBE16(raw[3:]) == 0, "p13_ch_epoch")
	zzsymAssert(zzBE48(raw[5:]) == r.Header.SequenceNumber, "p13_ch_seq")
	zzsymAssert(int(zzBE16(raw[11:])) == len(raw)-13, "p13_ch_declared_len")
	zzsymAssert(raw[13] == 1, "p13_ch_msg_type")
	zzsymAssert(zzBE16(raw[13+4:]) == hs.Header.MessageSequence, "p13_ch_msg_seq")
	var g PlaintextRecord13
	zzsymAssert(g.Unmarshal(raw) == nil, "p13_ch_rt_accepts")
	zzsymAssert(g.Header.Version == protocol.Version1_0, "p13_ch_rt_version")
	zzsymAssert(g.Header.SequenceNumber == r.Header.SequenceNumber, "p13_ch_rt_seq")
	zzsymAssert(int(g.Header.ContentLen) == len(raw)-13, "p13_ch_rt_len")
	gh, ok := g.Content.(*handshake.Handshake)
	zzsymAssert(ok, "p13_ch_rt_content_type")
	gch, ok2 := gh.Message.(*handshake.MessageClientHello)
	zzsymAssert(ok2, "p13_ch_rt_message_type")
	zzsymAssert(gh.Header.MessageSequence == hs.Header.MessageSequence, "p13_ch_rt_msg_seq")
	zzsymAssert(zzsymAnd(len(gch.CipherSuiteIDs) == 1, gch.Version == protocol.Version1_2), "p13_ch_rt_fields")
	zzsymAssert(gch.CipherSuiteIDs[0] == ch.CipherSuiteIDs[0], "p13_ch_rt_suite")
	zzsymAssert(gch.Random.RandomBytes == ch.Random.RandomBytes, "p13_ch_rt_random")
	c, merr := g.Marshal()
	zzsymAssert(merr == nil, "p13_ch_reencode_ok")
	zzsymAssert(zzsymEqBytes(c, raw), "p13_ch_fixpoint")
	zzsymCover("p13_ch_v10_ok")
}

// DTLS 1.3 DTLSPlaintext decoder against the RFC 9147 reference on every byte string of length
// 0..13+NP13BODY (declared length arbitrary, honest or not): rejected when shorter than 13 bytes, when
// epoch != 0, when the declared length differs from the number of bytes after the header (truncated
// input and trailing bytes alike), when the type is not alert(21)/handshake(22)/ack(26) or when the body
// is malformed for its type; the legacy_record_version is ignored (RFC 9147 section 4.1: MUST be
// ignored); otherwise accepted with header fields from the RFC offsets. Accepted alert/ACK records
// whose version is {254,253} re-encode to the input itself (fixed point); accepted records with any
// other (ignored) legacy version must still be re-encodable to a canonical form that is a fixed point
// (own label). Records of type handshake(22) are excluded here (bodies judged by the handshake
// harnesses; the dispatch is covered by zzPlaintext13RoundTrip and zzPlaintext13ClientHelloLegacyVersion).
//
//symgo:entry covers=p13_short,p13_bad_epoch,p13_len_mismatch_trunc,p13_len_mismatch_trailing,p13_bad_type,p13_bad_body,p13_ok_alert,p13_ok_ack,p13_other_version_accepted
func zzPlaintext13DecodeRef() {
	ln := zzsymChoice("len", 13+zzsymParam("NP13BODY")+1)
	data := zzsymBytes("d", ln)
	if ln > 0 {
		zzsymAssume(data[0] != 22) // handshake bodies: handshake_*.go harnesses and C08
	}
	orig := append([]byte{}, data...)
	var r PlaintextRecord13
	err := r.Unmarshal(data)
	if ln < 13 {
		zzsymAssert(err != nil, "p13_truncated_header_rejected")
		zzsymCover("p13_short")
		return
	}
	if zzBE16(orig[3:]) != 0 {
		zzsymAssert(err != nil, "p13_nonzero_epoch_rejected")
		zzsymCover("p13_bad_epoch")
		return
	}
	declared := int(zzBE16(orig[11:]))
	if declared > ln-13 {
		zzsymAssert(err != nil, "p13_truncated_rejected")
		zzsymCover("p13_len_mismatch_trunc")
		return
	}
	if declared < ln-13 {
		zzsymAssert(err != nil, "p13_trailing_rejected")
		zzsymCover("p13_len_mismatch_trailing")
		return
	}
	ct := orig[0]
	if zzsymNot(zzsymOr(ct == 21, ct == 26)) {
		zzsymAssert(err != nil, "p13_bad_type_rejected")
		zzsymCover("p13_bad_type")
		return
	}
	ok, known := zzRefContentOK(ct, orig[13:])
	if !known {
		return
	}
	if !ok {
		zzsymAssert(err != nil, "p13_malformed_rejected")
		zzsymCover("p13_bad_body")
		return
	}
	zzsymAssert(err == nil, "p13_wellformed_accepted")
	zzsymAssert(byte(r.Header.ContentType) == ct, "p13_ref_type")
	zzsymAssert(zzsymAnd(r.Header.Version.Major == orig[1], r.Header.Version.Minor == orig[2]), "p13_ref_version")
	zzsymAssert(r.Header.Epoch == 0, "p13_ref_epoch")
	zzsymAssert(r.Header.SequenceNumber == zzBE48(orig[5:]), "p13_ref_seq")
	zzsymAssert(int(r.Header.ContentLen) == declared, "p13_ref_len")
	zzsymAssert(len(r.Header.ConnectionID) == 0, "p13_ref_no_cid")
	zzsymAssert(r.Content.ContentType() == r.Header.ContentType, "p13_ref_content_dynamic_type")
	if ct == 21 {
		zzsymCover("p13_ok_alert")
	} else {
		zzsymCover("p13_ok_ack")
	}
	c, merr := r.Marshal()
	if zzsymAnd(orig[1] == 254, orig[2] == 253) {
		zzsymAssert(merr == nil, "p13_reencode_ok")
		zzsymAssert(zzsymEqBytes(c, orig), "p13_fixpoint")
		return
	}
	// The decoder ignores legacy_record_version (RFC 9147 4.1) and keeps it in the value; the property
	// demands that every accepted input can be re-encoded to a canonical form.
	zzsymCover("p13_other_version_accepted")
	zzsymAssert(merr == nil, "fixpoint/Plaintext13_foreign_legacy_version_not_reencodable")
	var g PlaintextRecord13
	zzsymAssert(g.Unmarshal(c) == nil, "p13_canonical_accepted")
	c2, _ := g.Marshal()
	zzsymAssert(zzsymEqBytes(c2, c), "p13_fixpoint")
}

// DTLS 1.3 DTLSCiphertext round trip (RFC 9147 section 4: unified header, then encrypted_record): for
// every CID of length 0..NCTCID, every 16-bit sequence number, epoch low bits and encrypted_record of
// 16..16+NCTEXTRA arbitrary bytes: Marshal writes 001C11EE | cid | seq(2) | length(2) | record with
// length = len(record); Unmarshal (given the negotiated CID length) accepts and returns an equal value;
// every strict prefix and one-byte extension is rejected. A record shorter than 16 bytes is refused by
// the encoder; 16640 zero bytes round-trip and 16641 are refused (the length field cannot overflow).
//
//symgo:entry covers=ct_rt_cid,ct_rt_nocid,ct_short_refused
func zzCiphertext13RoundTrip() {
	ncid := zzsymChoice("cidlen", zzsymParam("NCTCID")+1)
	extra := zzsymChoice("reclen", zzsymParam("NCTEXTRA")+2) - 1 // -1 => a 15-byte record
	cid := zzsymBytes("cid", ncid)
	rec := zzsymBytes("rec", 16+extra)
	r := CiphertextRecord13{
		Header: UnifiedHeader{
			ConnectionID:   cid,
			SequenceNumber: zzsymU16("seq"),
			EpochLow:       zzsymU8("epoch"),
			SeqBit:         zzsymBool("stale_S"),
			LengthBit:      zzsymBool("stale_L"),
			Length:         zzsymU16("stale_len"),
		},
		EncryptedRecord: rec,
	}
	zzsymAssume(r.Header.EpochLow <= 3)
	raw, err := r.Marshal()
	if extra < 0 {
		zzsymAssert(err != nil, "ct_short_record_refused")
		zzsymCover("ct_short_refused")
		return
	}
	zzsymAssert(err == nil, "ct_marshal_ok")
	first := byte(0x2c) | r.Header.EpochLow
	if ncid > 0 {
		first |= 0x10
	}
	zzsymAssert(len(raw) == 1+ncid+4+len(rec), "ct_marshal_len")
	zzsymAssert(raw[0] == first, "ct_marshal_first_byte")
	zzsymAssert(zzsymEqBytes(raw[1:1+ncid], cid), "ct_marshal_cid")
	zzsymAssert(zzBE16(raw[1+ncid:]) == r.Header.SequenceNumber, "ct_marshal_seq")
	zzsymAssert(int(zzBE16(raw[3+ncid:])) == len(rec), "ct_marshal_declared_len")
	zzsymAssert(zzsymEqBytes(raw[5+ncid:], rec), "ct_marshal_record")
	g := CiphertextRecord13{Header: UnifiedHeader{ConnectionID: make([]byte, ncid)}}
	zzsymAssert(g.Unmarshal(raw) == nil, "ct_rt_accepts")
	zzsymAssert(zzsymEqBytes(g.Header.ConnectionID, cid), "ct_rt_cid")
	zzsymAssert(g.Header.SequenceNumber == r.Header.SequenceNumber, "ct_rt_seq")
	zzsymAssert(g.Header.EpochLow == r.Header.EpochLow, "ct_rt_epoch")
	zzsymAssert(zzsymAnd(g.Header.SeqBit, g.Header.LengthBit), "ct_rt_bits")
	zzsymAssert(int(g.Header.Length) == len(rec), "ct_rt_length")
	zzsymAssert(zzsymEqBytes(g.EncryptedRecord, rec), "ct_rt_record")
	for k := 0; k < len(raw); k++ {
		t := CiphertextRecord13{Header: UnifiedHeader{ConnectionID: make([]byte, ncid)}}
		zzsymAssert(t.Unmarshal(raw[:k]) != nil, "ct_truncated_rejected")
	}
	t := CiphertextRecord13{Header: UnifiedHeader{ConnectionID: make([]byte, ncid)}}
	zzsymAssert(t.Unmarshal(append(append([]byte{}, raw...), zzsymU8("extra"))) != nil, "ct_trailing_rejected")
	if ncid > 0 {
		zzsymCover("ct_rt_cid")
	} else {
		zzsymCover("ct_rt_nocid")
	}
}

// Upper limit of DTLSCiphertext.encrypted_record (2^14+256, RFC 9147 section 4 / RFC 8446 5.2) with
// concrete all-zero records: 16640 bytes round-trip with the length field 0x4100, 16641 are refused by
// the encoder and, when offered to the decoder with an honest length field, rejected.
//
//symgo:entry covers=ct_max_ok,ct_over_refused
func zzCiphertext13MaxLen() {
	r := CiphertextRecord13{EncryptedRecord: make([]byte, 16640)}
	raw, err := r.Marshal()
	zzsymAssert(err == nil, "ct_max_marshal_ok")
	zzsymAssert(len(raw) == 5+16640, "ct_max_len")
	zzsymAssert(zzBE16(raw[3:]) == 16640, "ct_max_declared_len")
	var g CiphertextRecord13
	zzsymAssert(g.Unmarshal(raw) == nil, "ct_max_rt_accepts")
	zzsymAssert(len(g.EncryptedRecord) == 16640, "ct_max_rt_len")
	zzsymCover("ct_max_ok")
	r2 := CiphertextRecord13{EncryptedRecord: make([]byte, 16641)}
	_, err2 := r2.Marshal()
	zzsymAssert(err2 != nil, "ct_over_max_refused")
	over := append([]byte{0x2c, 0, 0, 0x41, 0x01}, make([]byte, 16641)...)
	var g2 CiphertextRecord13
	zzsymAssert(g2.Unmarshal(over) != nil, "ct_over_max_rejected")
	zzsymCover("ct_over_refused")
}

// DTLS 1.3 DTLSCiphertext decoder against the RFC 9147 reference on every byte string of length
// 0..1+n+4+16+NCTEXTRA for every negotiated CID length n in 0..NCTCID: rejected unless the first byte
// is 001xxxxx and the header announced by the C/S/L bits fits; with the L bit the declared length must
// equal the number of bytes after the header exactly (truncated input and trailing bytes rejected),
// without it the record extends to the end of the input; the record must have at least 16 bytes.
// Accepted input yields the header fields of the RFC layout and encrypted_record = exactly the bytes
// after the header; it re-encodes to a canonical form c (S and L bits set) that decodes to the same
// record and re-encodes to c; c is the input itself when the input already had C(iff n>0), S and L.
//
//symgo:entry covers=ct_rejected_type,ct_rejected_hdr_trunc,ct_rejected_len_trunc,ct_rejected_len_trailing,ct_rejected_too_short,ct_accepted_l,ct_accepted_nol,ct_canonical_input
func zzCiphertext13DecodeRef() {
	ncid := zzsymChoice("cidlen", zzsymParam("NCTCID")+1)
	ln := zzsymChoice("len", 1+ncid+4+16+zzsymParam("NCTEXTRA")+1)
	data := zzsymBytes("d", ln)
	orig := append([]byte{}, data...)
	r := CiphertextRecord13{Header: UnifiedHeader{ConnectionID: make([]byte, ncid)}}
	err := r.Unmarshal(data)
	if ln == 0 {
		zzsymAssert(err != nil, "ct_empty_rejected")
		return
	}
	b := orig[0]
	if b>>5 != 1 {
		zzsymAssert(err != nil, "ct_bad_fixed_bits_rejected")
		zzsymCover("ct_rejected_type")
		return
	}
	hs := zzUnifiedSize(b, ncid)
	if ln < hs {
		zzsymAssert(err != nil, "ct_header_truncated_rejected")
		zzsymCover("ct_rejected_hdr_trunc")
		return
	}
	hasL := b&0x04 != 0
	if hasL {
		declared := int(zzBE16(orig[hs-2:]))
		if declared > ln-hs {
			zzsymAssert(err != nil, "ct_truncated_rejected")
			zzsymCover("ct_rejected_len_trunc")
			return
		}
		if declared < ln-hs {
			zzsymAssert(err != nil, "ct_trailing_rejected")
			zzsymCover("ct_rejected_len_trailing")
			return
		}
	}
	if ln-hs < 16 {
		zzsymAssert(err != nil, "ct_short_record_rejected")
		zzsymCover("ct_rejected_too_short")
		return
	}
	zzsymAssert(err == nil, "ct_wellformed_accepted")
	zzsymAssert(zzsymEqBytes(r.EncryptedRecord, orig[hs:]), "ct_ref_record")
	p := 1
	if b&0x10 != 0 {
		zzsymAssert(zzsymEqBytes(r.Header.ConnectionID, orig[1:1+ncid]), "ct_ref_cid")
		p += ncid
	} else {
		zzsymAssert(len(r.Header.ConnectionID) == 0, "ct_ref_no_cid")
	}
	if b&0x08 != 0 {
		zzsymAssert(r.Header.SequenceNumber == zzBE16(orig[p:]), "ct_ref_seq16")
	} else {
		zzsymAssert(r.Header.SequenceNumber == uint16(orig[p]), "ct_ref_seq8")
	}
	zzsymAssert(r.Header.EpochLow == b&3, "ct_ref_epoch")
	if hasL {
		zzsymCover("ct_accepted_l")
	} else {
		zzsymCover("ct_accepted_nol")
	}
	// canonical form and fixed point
	c, merr := r.Marshal()
	zzsymAssert(merr == nil, "ct_reencode_ok")
	if b&0x0c == 0x0c && (b&0x10 != 0) == (ncid > 0) {
		zzsymAssert(zzsymEqBytes(c, orig), "ct_canonical_is_input")
		zzsymCover("ct_canonical_input")
	}
	g := CiphertextRecord13{Header: UnifiedHeader{ConnectionID: make([]byte, ncid)}}
	zzsymAssert(g.Unmarshal(c) == nil, "ct_canonical_accepted")
	same := zzsymAnd(zzsymEqBytes(g.EncryptedRecord, r.EncryptedRecord), zzsymEqBytes(g.Header.ConnectionID, r.Header.ConnectionID))
	same = zzsymAnd(same, zzsymAnd(g.Header.SequenceNumber == r.Header.SequenceNumber, g.Header.EpochLow == r.Header.EpochLow))
	zzsymAssert(same, "ct_canonical_same_value")
	c2, _ := g.Marshal()
	zzsymAssert(zzsymEqBytes(c2, c), "ct_fixpoint")
}
