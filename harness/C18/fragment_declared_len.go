package fragmentbuffer

//symgo:pkg github.com/pion/dtls/v3/internal/fragmentbuffer
//symgo:param NFRAGBODY quick=3 thorough=5
//symgo:outside reassembly (C12); buffer limits (C08)

// The handshake-fragment decoder inside FragmentBuffer.Push honours declared lengths for EVERY fragment of a
// record, whatever message it belongs to: a record (legacy header, content type handshake, arbitrary epoch /
// sequence number) carries one handshake fragment header of 12 arbitrary bytes followed by 0..NFRAGBODY body
// bytes, while the buffer is waiting for message_seq 0, 1 or 2 (so the fragment may belong to a future message, the
// current one or one already delivered). Proved: if the declared fragment_length exceeds the bytes that follow the
// header - truncated input - Push returns an error (and reports neither "handshake consumed" nor
// "retransmission", which would make the connection mark the record valid and answer it); a header shorter than 12
// bytes is an error too.
//
//symgo:entry covers=truncated_fragment_rejected,fragment_within_record,old_message_fragment
func zzFragPushDeclaredLength() {
	fb := New()
	cur := uint16(zzsymChoice("current_message_seq", 3))
	fb.AdvanceTo(cur)
	n := zzsymChoice("body", zzsymParam("NFRAGBODY")+1)
	hdr := zzsymBytes("fragment_header", 12)
	body := zzsymBytes("fragment_body", n)
	payload := append(append([]byte{}, hdr...), body...)
	rec := []byte{22, 0xfe, 0xfd, zzsymU8("e0"), zzsymU8("e1"), 0, 0, 0, 0, 0, zzsymU8("rseq"), byte(len(payload) >> 8), byte(len(payload))}
	rec = append(rec, payload...)
	fragLen := int(hdr[9])<<16 | int(hdr[10])<<8 | int(hdr[11])
	mseq := uint16(hdr[4])<<8 | uint16(hdr[5])
	isHS, isRetx, err := fb.Push(rec)
	if fragLen > n {
		zzsymAssert(err != nil, "truncation/HandshakeFragment_declared_length_beyond_record")
		zzsymAssert(!isHS && !isRetx, "truncation/HandshakeFragment_not_reported_as_consumed")
		zzsymCover("truncated_fragment_rejected")
		if mseq < cur {
			zzsymCover("old_message_fragment")
		}

		return
	}
	if err == nil {
		zzsymCover("fragment_within_record")
	}
}
