package handshake

//symgo:pkg github.com/pion/dtls/v3/pkg/protocol/handshake
//symgo:param NEE quick=8 thorough=11
//symgo:param NNST quick=5 thorough=8
//symgo:param NC13 quick=11 thorough=14
//symgo:param NCR13 quick=11 thorough=15
//symgo:param NXC quick=3 thorough=4
//symgo:param NXV quick=1 thorough=2

import (
	"github.com/pion/dtls/v3/pkg/protocol/extension"
)

// zzExtFixpoint: the decoded extension values re-encode (MarshalList) to a block c that the same
// context decodes again, to values that re-encode to c.
func zzExtFixpoint(vals []extension.Value, ctx extensionContext, label string) {
	c, merr := extension.MarshalList(vals)
	zzsymAssert(merr == nil, "fixpoint/"+label+"_marshal_ok")
	vals2, derr := decodeExtensionList(c, ctx)
	zzsymAssert(derr == nil, "fixpoint/"+label+"_canonical_decodes")
	c2, merr2 := extension.MarshalList(vals2)
	zzsymAssert(merr2 == nil, "fixpoint/"+label+"_marshal2_ok")
	zzsymAssert(zzsymEqBytes(c2, c), "fixpoint/"+label+"_canonical_stable")
}

// Extension block decoder in each of the eight message contexts (ClientHello, ServerHello 1.2,
// ServerHello 1.3, HelloRetryRequest, EncryptedExtensions, CertificateRequest, CertificateEntry,
// NewSessionTicket): a block holding one extension of ANY type (all 65536, so every typed payload
// decoder is reached in every context that admits it) with 0..NXC arbitrary payload bytes and an
// arbitrary declared payload length, plus the empty block. Proved: a block whose framing is broken
// (outer or inner length not matching) is rejected; an accepted block yields exactly one value of the
// framed type (payload kept verbatim when the library has no codec for the type); the accepted values
// re-encode to a canonical block that the same context decodes again and that re-encodes to itself.
// Blocks refused for policy (type not allowed in the context, dependency rules, malformed payload)
// are counted, not judged.
//
//symgo:entry covers=xc_accept_typed,xc_accept_raw,xc_accept_empty,xc_reject_framing,xc_reject_policy
func zzExtContextDecode() {
	ctx := extensionContext(zzsymChoice("ctx", 8))
	var data []byte
	if zzsymChoice("empty", 2) == 1 {
		data = zzsymBytes("d", 2)
	} else {
		data = zzsymBytes("d", 6+zzsymChoice("plen", zzsymParam("NXC")+1))
	}
	vals, err := decodeExtensionList(data, ctx)
	ok, typs, offs, lens := zzExtBlockRef(data, 0)
	if !ok {
		zzsymAssert(err != nil, "truncation/ExtContext")
		zzsymCover("xc_reject_framing")
		return
	}
	if err != nil {
		// contexts with a mandatory extension refuse the empty block too (HRR, CertificateRequest)
		zzsymCover("xc_reject_policy")
		return
	}
	zzCheckExtValues(vals, data, typs, offs, lens, "ExtContext")
	zzExtFixpoint(vals, ctx, "ExtContext")
	switch {
	case len(typs) == 0:
		zzsymCover("xc_accept_empty")
	default:
		if _, isRaw := vals[0].(extension.Raw); isRaw {
			zzsymCover("xc_accept_raw")
		} else {
			zzsymCover("xc_accept_typed")
		}
	}
}

// EncryptedExtensions (RFC 8446 §4.3.1: Extension extensions<0..2^16-1>) on every byte string of
// length 0..NEE. Proved: broken framing (short, outer/inner length mismatch, trailing bytes) is
// rejected; a well-formed block without extensions is accepted; accepted input yields one value per
// framed entry with the framed type (verbatim payload when no codec); accepted input re-encodes to a
// canonical form that decodes again and re-encodes to itself.
//
//symgo:entry covers=ee_accept_empty,ee_accept_ext,ee_reject_framing,ee_reject_policy
func zzEncryptedExtensionsDecode() {
	n := zzsymChoice("len", zzsymParam("NEE")+1)
	data := zzsymBytes("d", n)
	m := &MessageEncryptedExtensions{}
	err := m.Unmarshal(data)
	ok, typs, offs, lens := zzExtBlockRef(data, 0)
	if !ok {
		zzsymAssert(err != nil, "truncation/EncryptedExtensions")
		zzsymCover("ee_reject_framing")
		return
	}
	if err != nil {
		zzsymAssert(len(typs) > 0, "ref_equal/EncryptedExtensions_accepts_wellformed_without_extensions")
		zzsymCover("ee_reject_policy")
		return
	}
	zzCheckExtValues(m.Extensions, data, typs, offs, lens, "EncryptedExtensions")
	c, merr := m.Marshal()
	zzsymAssert(merr == nil, "fixpoint/EncryptedExtensions_marshal_ok")
	m2 := &MessageEncryptedExtensions{}
	zzsymAssert(m2.Unmarshal(c) == nil, "fixpoint/EncryptedExtensions_canonical_decodes")
	c2, merr2 := m2.Marshal()
	zzsymAssert(merr2 == nil, "fixpoint/EncryptedExtensions_marshal2_ok")
	zzsymAssert(zzsymEqBytes(c2, c), "fixpoint/EncryptedExtensions_canonical_stable")
	if len(typs) == 0 {
		zzsymCover("ee_accept_empty")
	} else {
		zzsymCover("ee_accept_ext")
	}
}

// zzOneUnknownExt builds 0 or 1 extension of a type without payload codec and returns it with its
// RFC encoding (including the 2-byte block length).
func zzOneUnknownExt() ([]extension.Value, []byte) {
	if zzsymChoice("ext", 2) == 0 {
		return nil, []byte{0, 0}
	}
	r := extension.Raw{Type: extension.Type(zzsymU16("xtype")), Data: zzsymBytes("xdata", zzsymChoice("xlen", zzsymParam("NXV")+1))}
	zzsymAssume(zzExtTypeUnknown(uint16(r.Type)))
	enc := []byte{0, byte(4 + len(r.Data)), byte(r.Type >> 8), byte(r.Type), 0, byte(len(r.Data))}
	return []extension.Value{r}, append(enc, r.Data...)
}

func zzExtValuesEqual(a, b []extension.Value) bool {
	if len(a) != len(b) {
		return false
	}
	r := true
	for i := range a {
		x, okx := a[i].(extension.Raw)
		y, oky := b[i].(extension.Raw)
		if !okx || !oky {
			return false
		}
		r = zzsymAnd(r, zzsymAnd(x.Type == y.Type, zzsymEqBytes(x.Data, y.Data)))
	}
	return r
}

// EncryptedExtensions / NewSessionTicket / Certificate (1.3) / CertificateRequest (1.3) round trip
// from values (0..1 extension without payload codec, payload 0..NXV bytes; ticket nonce 0..NXV,
// ticket 1..NXV+1 bytes; request context 0..NXV bytes; 0..2 certificate entries of 1..NXV+1 bytes;
// CertificateRequest always carries signature_algorithms with one scheme): Marshal emits exactly the
// RFC layout, Unmarshal gives the same value, every strict prefix of the encoding is rejected.
//
//symgo:entry covers=ee_rt,nst_rt,c13_rt,cr13_rt
func zzExtMessagesRoundTrip() {
	nv := zzsymParam("NXV")
	switch zzsymChoice("msg", 4) {
	case 0:
		exts, enc := zzOneUnknownExt()
		v := &MessageEncryptedExtensions{Extensions: exts}
		raw, err := v.Marshal()
		zzsymAssert(err == nil, "rt/EncryptedExtensions_marshal_ok")
		zzsymAssert(zzsymEqBytes(raw, enc), "ref_equal/EncryptedExtensions_encoding_layout")
		g := &MessageEncryptedExtensions{}
		zzsymAssert(g.Unmarshal(raw) == nil, "rt/EncryptedExtensions_unmarshal_ok")
		zzsymAssert(zzExtValuesEqual(g.Extensions, exts), "rt/EncryptedExtensions_equal")
		for k := 0; k < len(raw); k++ {
			t := &MessageEncryptedExtensions{}
			zzsymAssert(t.Unmarshal(raw[:k]) != nil, "truncation/EncryptedExtensions_prefix")
		}
		zzsymCover("ee_rt")
	case 1:
		exts, enc := zzOneUnknownExt()
		v := &MessageNewSessionTicket{
			TicketLifetime: zzsymU32("life"), TicketAgeAdd: zzsymU32("age"),
			TicketNonce: zzsymBytes("nonce", zzsymChoice("noncelen", nv+1)),
			Ticket:      zzsymBytes("ticket", 1+zzsymChoice("ticketlen", nv+1)),
			Extensions:  exts,
		}
		want := []byte{byte(v.TicketLifetime >> 24), byte(v.TicketLifetime >> 16), byte(v.TicketLifetime >> 8), byte(v.TicketLifetime),
			byte(v.TicketAgeAdd >> 24), byte(v.TicketAgeAdd >> 16), byte(v.TicketAgeAdd >> 8), byte(v.TicketAgeAdd), byte(len(v.TicketNonce))}
		want = append(want, v.TicketNonce...)
		want = append(want, 0, byte(len(v.Ticket)))
		want = append(want, v.Ticket...)
		want = append(want, enc...)
		raw, err := v.Marshal()
		zzsymAssert(err == nil, "rt/NewSessionTicket_marshal_ok")
		zzsymAssert(zzsymEqBytes(raw, want), "ref_equal/NewSessionTicket_encoding_layout")
		g := &MessageNewSessionTicket{}
		zzsymAssert(g.Unmarshal(raw) == nil, "rt/NewSessionTicket_unmarshal_ok")
		eq := zzsymAnd(g.TicketLifetime == v.TicketLifetime, g.TicketAgeAdd == v.TicketAgeAdd)
		eq = zzsymAnd(eq, zzsymAnd(zzsymEqBytes(g.TicketNonce, v.TicketNonce), zzsymEqBytes(g.Ticket, v.Ticket)))
		zzsymAssert(zzsymAnd(eq, zzExtValuesEqual(g.Extensions, exts)), "rt/NewSessionTicket_equal")
		for k := 0; k < len(raw); k++ {
			t := &MessageNewSessionTicket{}
			zzsymAssert(t.Unmarshal(raw[:k]) != nil, "truncation/NewSessionTicket_prefix")
		}
		zzsymCover("nst_rt")
	case 2:
		v := &MessageCertificate13{CertificateRequestContext: zzsymBytes("ctx", zzsymChoice("ctxlen", nv+1)), CertificateList: []CertificateEntry13{}}
		list := []byte{}
		cnt := zzsymChoice("count", 3)
		for i := 0; i < cnt; i++ {
			exts, enc := zzOneUnknownExt()
			e := CertificateEntry13{CertificateData: zzsymBytes("cert", 1+zzsymChoice("certlen", nv+1)), Extensions: exts}
			v.CertificateList = append(v.CertificateList, e)
			list = append(list, 0, 0, byte(len(e.CertificateData)))
			list = append(list, e.CertificateData...)
			list = append(list, enc...)
		}
		want := append([]byte{byte(len(v.CertificateRequestContext))}, v.CertificateRequestContext...)
		want = append(want, 0, 0, byte(len(list)))
		want = append(want, list...)
		raw, err := v.Marshal()
		zzsymAssert(err == nil, "rt/Certificate13_marshal_ok")
		zzsymAssert(zzsymEqBytes(raw, want), "ref_equal/Certificate13_encoding_layout")
		g := &MessageCertificate13{}
		zzsymAssert(g.Unmarshal(raw) == nil, "rt/Certificate13_unmarshal_ok")
		zzsymAssert(zzsymEqBytes(g.CertificateRequestContext, v.CertificateRequestContext), "rt/Certificate13_context")
		zzsymAssert(len(g.CertificateList) == cnt, "rt/Certificate13_count")
		for i := 0; i < cnt; i++ {
			zzsymAssert(zzsymEqBytes(g.CertificateList[i].CertificateData, v.CertificateList[i].CertificateData), "rt/Certificate13_cert_data")
			zzsymAssert(zzExtValuesEqual(g.CertificateList[i].Extensions, v.CertificateList[i].Extensions), "rt/Certificate13_extensions")
		}
		for k := 0; k < len(raw); k++ {
			t := &MessageCertificate13{}
			zzsymAssert(t.Unmarshal(raw[:k]) != nil, "truncation/Certificate13_prefix")
		}
		zzsymCover("c13_rt")
	default:
		scheme := zzsymU16("scheme")
		exts := []extension.Value{&extension.SignatureAlgorithms{Schemes: []uint16{scheme}}}
		enc := []byte{0, 13, 0, 4, 0, 2, byte(scheme >> 8), byte(scheme)}
		if zzsymChoice("ext", 2) == 1 {
			r := extension.Raw{Type: extension.Type(zzsymU16("xtype")), Data: zzsymBytes("xdata", zzsymChoice("xlen", nv+1))}
			zzsymAssume(zzExtTypeUnknown(uint16(r.Type)))
			exts = append(exts, r)
			enc = append(enc, byte(r.Type>>8), byte(r.Type), 0, byte(len(r.Data)))
			enc = append(enc, r.Data...)
		}
		v := &MessageCertificateRequest13{CertificateRequestContext: zzsymBytes("ctx", zzsymChoice("ctxlen", nv+1)), Extensions: exts}
		want := append([]byte{byte(len(v.CertificateRequestContext))}, v.CertificateRequestContext...)
		want = append(want, 0, byte(len(enc)))
		want = append(want, enc...)
		raw, err := v.Marshal()
		zzsymAssert(err == nil, "rt/CertificateRequest13_marshal_ok")
		zzsymAssert(zzsymEqBytes(raw, want), "ref_equal/CertificateRequest13_encoding_layout")
		g := &MessageCertificateRequest13{}
		zzsymAssert(g.Unmarshal(raw) == nil, "rt/CertificateRequest13_unmarshal_ok")
		zzsymAssert(zzsymEqBytes(g.CertificateRequestContext, v.CertificateRequestContext), "rt/CertificateRequest13_context")
		zzsymAssert(len(g.Extensions) == len(exts), "rt/CertificateRequest13_extension_count")
		sa, isSA := g.Extensions[0].(*extension.SignatureAlgorithms)
		zzsymAssert(isSA, "rt/CertificateRequest13_sigalgs_kind")
		zzsymAssert(len(sa.Schemes) == 1 && sa.Schemes[0] == scheme, "rt/CertificateRequest13_sigalgs")
		if len(exts) == 2 {
			zzsymAssert(zzExtValuesEqual(g.Extensions[1:], exts[1:]), "rt/CertificateRequest13_extension")
		}
		for k := 0; k < len(raw); k++ {
			t := &MessageCertificateRequest13{}
			zzsymAssert(t.Unmarshal(raw[:k]) != nil, "truncation/CertificateRequest13_prefix")
		}
		zzsymCover("cr13_rt")
	}
}

// NewSessionTicket (RFC 8446 §4.6.1: lifetime(4) age_add(4) opaque nonce<0..255> opaque
// ticket<1..2^16-1> extensions<0..2^16-2>) on every byte string of length 0..13+NNST. The values of
// the nonce and ticket length fields are split into concrete cases covering every value. Proved:
// input cut inside the fixed part, the nonce, the ticket or the extension block, a zero-length ticket
// and broken extension framing are rejected; well-formed input without extensions is accepted; every
// field is exactly its declared bytes; accepted input re-encodes to a canonical form that decodes
// again and re-encodes to itself.
//
//symgo:entry covers=nst_accept_noext,nst_accept_ext,nst_reject_framing,nst_reject_policy,nst_nonce
func zzNewSessionTicketDecode() {
	n := zzsymChoice("len", 14+zzsymParam("NNST"))
	data := zzsymBytes("d", n)
	names := []string{"nonce", "ticket"}
	widths := []int{1, 2}
	var fOff, fLen [2]int
	ok := n >= 13 // pion's stated minimum; anything shorter cannot hold the fixed fields plus a ticket byte
	off := 8
	for i := 0; i < 2 && ok; i++ {
		w := widths[i]
		if off+w > n {
			ok = false
			break
		}
		declared := int(data[off])
		if w == 2 {
			declared = int(data[off])<<8 | int(data[off+1])
		}
		room := n - off - w
		c := zzsymChoice(names[i], room+2)
		if c <= room {
			zzsymAssume(declared == c)
			fOff[i], fLen[i] = off+w, c
			off += w + c
		} else {
			zzsymAssume(declared > room)
			ok = false
		}
	}
	if ok && fLen[1] == 0 {
		ok = false // ticket<1..2^16-1>
	}
	m := &MessageNewSessionTicket{}
	err := m.Unmarshal(data)
	var typs []uint16
	var offs, lens []int
	if ok {
		ok, typs, offs, lens = zzExtBlockRef(data, off)
	}
	if !ok {
		zzsymAssert(err != nil, "truncation/NewSessionTicket")
		zzsymCover("nst_reject_framing")
		return
	}
	if err != nil {
		zzsymAssert(len(typs) > 0, "ref_equal/NewSessionTicket_accepts_wellformed_without_extensions")
		zzsymCover("nst_reject_policy")
		return
	}
	zzsymAssert(m.TicketLifetime == uint32(data[0])<<24|uint32(data[1])<<16|uint32(data[2])<<8|uint32(data[3]), "ref_equal/NewSessionTicket_lifetime")
	zzsymAssert(m.TicketAgeAdd == uint32(data[4])<<24|uint32(data[5])<<16|uint32(data[6])<<8|uint32(data[7]), "ref_equal/NewSessionTicket_age_add")
	zzsymAssert(zzsymEqBytes(m.TicketNonce, data[fOff[0]:fOff[0]+fLen[0]]), "declared_len/NewSessionTicket_nonce")
	zzsymAssert(zzsymEqBytes(m.Ticket, data[fOff[1]:fOff[1]+fLen[1]]), "declared_len/NewSessionTicket_ticket")
	zzCheckExtValues(m.Extensions, data, typs, offs, lens, "NewSessionTicket")
	c, merr := m.Marshal()
	zzsymAssert(merr == nil, "fixpoint/NewSessionTicket_marshal_ok")
	m2 := &MessageNewSessionTicket{}
	zzsymAssert(m2.Unmarshal(c) == nil, "fixpoint/NewSessionTicket_canonical_decodes")
	c2, merr2 := m2.Marshal()
	zzsymAssert(merr2 == nil, "fixpoint/NewSessionTicket_marshal2_ok")
	zzsymAssert(zzsymEqBytes(c2, c), "fixpoint/NewSessionTicket_canonical_stable")
	if fLen[0] > 0 {
		zzsymCover("nst_nonce")
	}
	if len(typs) == 0 {
		zzsymCover("nst_accept_noext")
	} else {
		zzsymCover("nst_accept_ext")
	}
}

// Certificate (DTLS 1.3, RFC 8446 §4.4.2: opaque certificate_request_context<0..255>, uint24
// certificate_list of { opaque cert_data<1..2^24-1>, Extension extensions<0..2^16-1> }) on every byte
// string of length 0..NC13. Proved: the context must fit, the uint24 list length must equal the rest
// exactly, and the entries must partition the list (cert_data non-empty and fitting, extension block
// framed exactly) — otherwise the input is rejected; an accepted input has exactly the reference
// entries with exactly their declared bytes; it re-encodes to a canonical form that decodes again and
// re-encodes to itself. Entries refused because an extension is not allowed in a CertificateEntry are
// counted, not judged.
//
//symgo:entry covers=c13_accept_empty,c13_accept_one,c13_reject_framing,c13_ctx
func zzCertificate13Decode() {
	n := zzsymChoice("len", zzsymParam("NC13")+1)
	data := zzsymBytes("d", n)
	ok := n >= 4
	ctxLen := 0
	if ok {
		room := n - 1
		c := zzsymChoice("ctxlen", room+2)
		if c <= room {
			zzsymAssume(int(data[0]) == c)
			ctxLen = c
		} else {
			zzsymAssume(int(data[0]) > room)
			ok = false
		}
	}
	m := &MessageCertificate13{}
	err := m.Unmarshal(data)
	off := 1 + ctxLen
	if ok && n-off < 3 {
		ok = false
	}
	if ok {
		ok = int(data[off])<<16|int(data[off+1])<<8|int(data[off+2]) == n-off-3
		off += 3
	}
	var cOff, cLen []int
	extCount := 0
	for ok && off < n {
		if n-off < 3 {
			ok = false
			break
		}
		l := int(data[off])<<16 | int(data[off+1])<<8 | int(data[off+2])
		off += 3
		if l == 0 || l > n-off {
			ok = false
			break
		}
		cOff, cLen = append(cOff, off), append(cLen, l)
		off += l
		if n-off < 2 {
			ok = false
			break
		}
		xl := int(data[off])<<8 | int(data[off+1])
		if xl > n-off-2 {
			ok = false
			break
		}
		xok, typs, _, _ := zzExtBlockRef(data[:off+2+xl], off)
		if !xok {
			ok = false
			break
		}
		extCount += len(typs)
		off += 2 + xl
	}
	if !ok {
		zzsymAssert(err != nil, "truncation/Certificate13")
		zzsymCover("c13_reject_framing")
		return
	}
	if err != nil {
		zzsymAssert(extCount > 0, "ref_equal/Certificate13_accepts_wellformed_without_extensions")
		return
	}
	zzsymAssert(zzsymEqBytes(m.CertificateRequestContext, data[1:1+ctxLen]), "declared_len/Certificate13_context")
	zzsymAssert(len(m.CertificateList) == len(cOff), "partition/Certificate13_count")
	for i := range cOff {
		zzsymAssert(zzsymEqBytes(m.CertificateList[i].CertificateData, data[cOff[i]:cOff[i]+cLen[i]]), "declared_len/Certificate13_cert_data")
	}
	c, merr := m.Marshal()
	zzsymAssert(merr == nil, "fixpoint/Certificate13_marshal_ok")
	m2 := &MessageCertificate13{}
	zzsymAssert(m2.Unmarshal(c) == nil, "fixpoint/Certificate13_canonical_decodes")
	c2, merr2 := m2.Marshal()
	zzsymAssert(merr2 == nil, "fixpoint/Certificate13_marshal2_ok")
	zzsymAssert(zzsymEqBytes(c2, c), "fixpoint/Certificate13_canonical_stable")
	if ctxLen > 0 {
		zzsymCover("c13_ctx")
	}
	if len(cOff) == 0 {
		zzsymCover("c13_accept_empty")
	} else {
		zzsymCover("c13_accept_one")
	}
}

// CertificateRequest (DTLS 1.3, RFC 8446 §4.3.2: opaque certificate_request_context<0..255>,
// Extension extensions<2..2^16-1>) on every byte string of length 0..NCR13. Proved: the context must
// fit and the extension block must be framed exactly up to the end of the input — otherwise the input
// is rejected; accepted input always carries signature_algorithms (mandatory); the context is exactly
// its declared bytes and the values match the framed entries; accepted input re-encodes to a canonical
// form that decodes again and re-encodes to itself.
//
//symgo:entry covers=cr13_accept,cr13_reject_framing,cr13_reject_policy
func zzCertificateRequest13Decode() {
	n := zzsymChoice("len", zzsymParam("NCR13")+1)
	data := zzsymBytes("d", n)
	ok := n >= 3
	ctxLen := 0
	if ok {
		room := n - 1
		c := zzsymChoice("ctxlen", room+2)
		if c <= room {
			zzsymAssume(int(data[0]) == c)
			ctxLen = c
		} else {
			zzsymAssume(int(data[0]) > room)
			ok = false
		}
	}
	m := &MessageCertificateRequest13{}
	err := m.Unmarshal(data)
	var typs []uint16
	var offs, lens []int
	if ok {
		ok, typs, offs, lens = zzExtBlockRef(data, 1+ctxLen)
	}
	if !ok {
		zzsymAssert(err != nil, "truncation/CertificateRequest13")
		zzsymCover("cr13_reject_framing")
		return
	}
	if err != nil {
		zzsymCover("cr13_reject_policy")
		return
	}
	hasSA := false
	for _, t := range typs {
		if t == 13 {
			hasSA = true
		}
	}
	zzsymAssert(hasSA, "ref_equal/CertificateRequest13_requires_signature_algorithms")
	zzsymAssert(zzsymEqBytes(m.CertificateRequestContext, data[1:1+ctxLen]), "declared_len/CertificateRequest13_context")
	zzCheckExtValues(m.Extensions, data, typs, offs, lens, "CertificateRequest13")
	c, merr := m.Marshal()
	zzsymAssert(merr == nil, "fixpoint/CertificateRequest13_marshal_ok")
	m2 := &MessageCertificateRequest13{}
	zzsymAssert(m2.Unmarshal(c) == nil, "fixpoint/CertificateRequest13_canonical_decodes")
	c2, merr2 := m2.Marshal()
	zzsymAssert(merr2 == nil, "fixpoint/CertificateRequest13_marshal2_ok")
	zzsymAssert(zzsymEqBytes(c2, c), "fixpoint/CertificateRequest13_canonical_stable")
	zzsymCover("cr13_accept")
}
