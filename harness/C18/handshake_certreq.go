package handshake

//symgo:pkg github.com/pion/dtls/v3/pkg/protocol/handshake
//symgo:param NCRQ quick=2 thorough=3
//symgo:param NCRQA quick=5 thorough=8
//symgo:param NCRQV quick=1 thorough=2
//symgo:param NCRQODD quick=1 thorough=2

import (
	"github.com/pion/dtls/v3/pkg/crypto/clientcertificate"
	"github.com/pion/dtls/v3/pkg/crypto/hash"
	"github.com/pion/dtls/v3/pkg/crypto/signature"
	"github.com/pion/dtls/v3/pkg/crypto/signaturehash"
)

// zzCRQLayout: reference layout of the DTLS 1.2 CertificateRequest (RFC 5246 §7.4.4):
// ClientCertificateType certificate_types<1..2^8-1>; SignatureAndHashAlgorithm
// supported_signature_algorithms<2..2^16-2>; DistinguishedName certificate_authorities<0..2^16-1>
// with DistinguishedName = opaque<1..2^16-1>. The value of each of the three vector length fields is
// split into concrete cases (exact value that fits, or "larger than what is left") covering every
// value; all offsets are therefore concrete.
type zzCRQLayout struct {
	ok         bool
	fOff, fLen [3]int
	caOff      []int
	caLen      []int
}

func zzCRQRef(data []byte) (l zzCRQLayout) {
	n := len(data)
	names := []string{"types", "sigalgs", "cas"}
	widths := []int{1, 2, 2}
	off := 0
	ok := true
	for i := 0; i < 3 && ok; i++ {
		w := widths[i]
		if off+w > n {
			ok = false
			break
		}
		declared := int(data[off])
		if w == 2 {
			declared = int(data[off])<<8 | int(data[off+1])
		}
		room := n - off - w
		c := zzsymChoice(names[i], room+2)
		if c <= room {
			zzsymAssume(declared == c)
			l.fOff[i], l.fLen[i] = off+w, c
			off += w + c
		} else {
			zzsymAssume(declared > room)
			ok = false
		}
	}
	if !ok {
		return l
	}
	// DistinguishedName entries partition the certificate_authorities vector
	p := l.fOff[2]
	end := p + l.fLen[2]
	for p < end {
		if end-p < 2 {
			return l
		}
		dl := int(data[p])<<8 | int(data[p+1])
		p += 2
		if dl > end-p {
			return l
		}
		l.caOff, l.caLen = append(l.caOff, p), append(l.caLen, dl)
		p += dl
	}
	l.ok = true
	return l
}

// CertificateRequest (DTLS 1.2) on every byte string of length 0..5+NCRQ whose declared
// supported_signature_algorithms length is even. Proved: input cut inside the certificate_types,
// signature-algorithm or certificate_authorities vectors, or inside a DistinguishedName, is rejected
// (as is anything below pion's 5-byte minimum); well-formed input is accepted; the decoded
// certificate types are exactly the known code points (1 rsa_sign, 64 ecdsa_sign) of the declared
// vector in order, the decoded algorithms exactly the known code points of the declared pairs in
// order, the authorities exactly the declared names; bytes after the authorities vector are not
// consumed; accepted input re-encodes to a canonical form that decodes to the same value and
// re-encodes to itself. Odd declared signature-algorithm lengths: see zzCertificateRequestOddSigAlgs.
//
// (The quick bound is too short for a non-empty authorities vector; zzCertificateRequestDecodeCAs
// covers that slice.)
//
//symgo:entry covers=crq_accept_min,crq_accept_type,crq_accept_alg,crq_accept_trailing,crq_reject,crq_skip_odd
func zzCertificateRequestDecode() {
	n := zzsymChoice("len", 6+zzsymParam("NCRQ"))
	data := zzsymBytes("d", n)
	zzCRQDecodeBody(data)
}

// CertificateRequest (DTLS 1.2), the slice of the input space with empty certificate_types and
// signature-algorithm vectors (leading bytes 00 00 00) followed by 2..2+NCRQA arbitrary bytes (the
// certificate_authorities length and vector, with or without trailing bytes): same claims as
// zzCertificateRequestDecode, exercising the DistinguishedName partition.
//
//symgo:entry covers=crq_accept_ca,crq_accept_two_cas,crq_accept_trailing,crq_reject
func zzCertificateRequestDecodeCAs() {
	n := 5 + zzsymChoice("len", zzsymParam("NCRQA")+1)
	data := zzsymBytes("d", n)
	zzsymAssume(zzsymAnd(data[0] == 0, zzsymAnd(data[1] == 0, data[2] == 0)))
	zzCRQDecodeBody(data)
}

func zzCRQDecodeBody(data []byte) {
	n := len(data)
	l := zzCRQRef(data)
	if n < 5 {
		l.ok = false
	}
	if l.fLen[1]%2 == 1 {
		zzsymCover("crq_skip_odd")
		return
	}
	m := &MessageCertificateRequest{}
	err := m.Unmarshal(data)
	if !l.ok {
		zzsymAssert(err != nil, "truncation/CertificateRequest")
		zzsymCover("crq_reject")
		return
	}
	zzsymAssert(err == nil, "ref_equal/CertificateRequest_accepts_wellformed")
	zzCRQCheckFields(m, data, l)
	c, merr := m.Marshal()
	zzsymAssert(merr == nil, "fixpoint/CertificateRequest_marshal_ok")
	m2 := &MessageCertificateRequest{}
	zzsymAssert(m2.Unmarshal(c) == nil, "fixpoint/CertificateRequest_canonical_decodes")
	zzsymAssert(zzCRQEqual(m, m2), "fixpoint/CertificateRequest_value_stable")
	c2, merr2 := m2.Marshal()
	zzsymAssert(merr2 == nil, "fixpoint/CertificateRequest_marshal2_ok")
	zzsymAssert(zzsymEqBytes(c2, c), "fixpoint/CertificateRequest_canonical_stable")
	if len(m.CertificateTypes) > 0 {
		zzsymCover("crq_accept_type")
	}
	if len(m.SignatureHashAlgorithms) > 0 {
		zzsymCover("crq_accept_alg")
	}
	if len(l.caOff) > 0 {
		zzsymCover("crq_accept_ca")
	}
	if len(l.caOff) > 1 {
		zzsymCover("crq_accept_two_cas")
	}
	if l.fOff[2]+l.fLen[2] < n {
		zzsymCover("crq_accept_trailing")
	}
	if n == 5 {
		zzsymCover("crq_accept_min")
	}
}

func zzCRQCheckFields(m *MessageCertificateRequest, data []byte, l zzCRQLayout) {
	// certificate types: known code points of the declared vector, in order
	k := 0
	for i := 0; i < l.fLen[0]; i++ {
		b := data[l.fOff[0]+i]
		if zzsymOr(b == 1, b == 64) {
			zzsymAssert(k < len(m.CertificateTypes) && byte(m.CertificateTypes[k]) == b, "declared_len/CertificateRequest_type")
			k++
		}
	}
	zzsymAssert(len(m.CertificateTypes) == k, "declared_len/CertificateRequest_type_count")
	// signature algorithms: known code points of the declared pairs, in order
	k = 0
	for i := 0; i+1 < l.fLen[1]; i += 2 {
		hi, lo := data[l.fOff[1]+i], data[l.fOff[1]+i+1]
		if zzSigSchemeKnown(hi, lo) {
			zzsymAssert(k < len(m.SignatureHashAlgorithms), "declared_len/CertificateRequest_sigalg_count")
			a := m.SignatureHashAlgorithms[k]
			zzsymAssert(zzSKESchemeOf(a.Hash, a.Signature) == uint16(hi)<<8|uint16(lo), "declared_len/CertificateRequest_sigalg")
			k++
		}
	}
	zzsymAssert(len(m.SignatureHashAlgorithms) == k, "declared_len/CertificateRequest_sigalg_count")
	zzsymAssert(len(m.CertificateAuthoritiesNames) == len(l.caOff), "partition/CertificateRequest_ca_count")
	for i := range l.caOff {
		zzsymAssert(zzsymEqBytes(m.CertificateAuthoritiesNames[i], data[l.caOff[i]:l.caOff[i]+l.caLen[i]]), "declared_len/CertificateRequest_ca_name")
	}
}

func zzCRQEqual(a, b *MessageCertificateRequest) bool {
	if len(a.CertificateTypes) != len(b.CertificateTypes) || len(a.SignatureHashAlgorithms) != len(b.SignatureHashAlgorithms) ||
		len(a.CertificateAuthoritiesNames) != len(b.CertificateAuthoritiesNames) {
		return false
	}
	r := true
	for i := range a.CertificateTypes {
		r = zzsymAnd(r, a.CertificateTypes[i] == b.CertificateTypes[i])
	}
	for i := range a.SignatureHashAlgorithms {
		r = zzsymAnd(r, a.SignatureHashAlgorithms[i] == b.SignatureHashAlgorithms[i])
	}
	for i := range a.CertificateAuthoritiesNames {
		r = zzsymAnd(r, zzsymEqBytes(a.CertificateAuthoritiesNames[i], b.CertificateAuthoritiesNames[i]))
	}
	return r
}

// CertificateRequest (DTLS 1.2) whose declared supported_signature_algorithms length is ODD (1; thorough: 1 or 3)
// and whose other vectors are empty / fit, length 6..8. A SignatureAndHashAlgorithm is 2 bytes, so the
// last byte of an odd-length vector cannot form an element; the property requires that bytes beyond the
// declared length are never consumed, i.e. an accepted input must yield only algorithms made of bytes
// inside the declared vector (at most floor(len/2) of them).
//
//symgo:entry covers=crq_odd_decided
func zzCertificateRequestOddSigAlgs() {
	odd := 1 + 2*zzsymChoice("odd", zzsymParam("NCRQODD"))
	// 00 | 00 odd | <odd bytes> | caLen(2) = 00 00
	data := zzsymBytes("d", 5+odd)
	zzsymAssume(data[0] == 0)
	zzsymAssume(zzsymAnd(data[1] == 0, data[2] == byte(odd)))
	m := &MessageCertificateRequest{}
	if m.Unmarshal(data) != nil {
		zzsymCover("crq_odd_decided") // refusing a list of odd length is the repaired behaviour
		return
	}
	zzsymCover("crq_odd_decided")
	zzsymAssert(len(m.SignatureHashAlgorithms) <= odd/2, "declared_len/CertificateRequest_sigalgs_odd")
}

// CertificateRequest (DTLS 1.2) round trip from values: 0..2 certificate types out of {rsa_sign,
// ecdsa_sign}, 0..2 signature algorithms (one of each class incl. RSA-PSS), 0..2 authorities of
// 1..NCRQV+1 bytes: RFC layout, Unmarshal(Marshal(v)) == v, every strict prefix rejected.
//
//symgo:entry covers=crq_rt
func zzCertificateRequestRoundTrip() {
	v := &MessageCertificateRequest{}
	nt := zzsymChoice("types", 3)
	want := []byte{byte(nt)}
	for i := 0; i < nt; i++ {
		t := clientcertificate.RSASign
		if zzsymChoice("type", 2) == 1 {
			t = clientcertificate.ECDSASign
		}
		v.CertificateTypes = append(v.CertificateTypes, t)
		want = append(want, byte(t))
	}
	na := zzsymChoice("algs", 3)
	want = append(want, 0, byte(2*na))
	for i := 0; i < na; i++ {
		var a signaturehash.Algorithm
		switch zzsymChoice("alg", 3) {
		case 0:
			a = signaturehash.Algorithm{Hash: hash.SHA256, Signature: signature.ECDSA}
			want = append(want, 4, 3)
		case 1:
			a = signaturehash.Algorithm{Hash: hash.Ed25519, Signature: signature.Ed25519}
			want = append(want, 8, 7)
		default:
			a = signaturehash.Algorithm{Hash: hash.SHA512, Signature: signature.RSA_PSS_RSAE_SHA512}
			want = append(want, 8, 6)
		}
		v.SignatureHashAlgorithms = append(v.SignatureHashAlgorithms, a)
	}
	nc := zzsymChoice("cas", 3)
	cas := []byte{}
	for i := 0; i < nc; i++ {
		name := zzsymBytes("ca", 1+zzsymChoice("calen", zzsymParam("NCRQV")+1))
		v.CertificateAuthoritiesNames = append(v.CertificateAuthoritiesNames, name)
		cas = append(cas, 0, byte(len(name)))
		cas = append(cas, name...)
	}
	want = append(want, 0, byte(len(cas)))
	want = append(want, cas...)
	raw, err := v.Marshal()
	zzsymAssert(err == nil, "rt/CertificateRequest_marshal_ok")
	zzsymAssert(zzsymEqBytes(raw, want), "ref_equal/CertificateRequest_encoding_layout")
	g := &MessageCertificateRequest{}
	zzsymAssert(g.Unmarshal(raw) == nil, "rt/CertificateRequest_unmarshal_ok")
	zzsymAssert(zzCRQEqual(g, v), "rt/CertificateRequest_equal")
	for k := 0; k < len(raw); k++ {
		t := &MessageCertificateRequest{}
		zzsymAssert(t.Unmarshal(raw[:k]) != nil, "truncation/CertificateRequest_prefix")
	}
	zzsymCover("crq_rt")
}
