package dtls13

//symgo:pkg github.com/pion/dtls/v3/pkg/protocol/extension/dtls13
//symgo:param NSV quick=7 thorough=9
//symgo:param NCK quick=6 thorough=10
//symgo:param NKS quick=12 thorough=14
//symgo:param NKSV quick=2 thorough=3

import (
	"github.com/pion/dtls/v3/pkg/crypto/elliptic"
	"github.com/pion/dtls/v3/pkg/protocol"
)

// supported_versions (RFC 8446 §4.2.1) on every byte string of length 0..NSV.
// ClientHello form (ProtocolVersion versions<2..254>): accepted iff the 1-byte length equals the rest,
// is even and non-zero; the decoded list is exactly the declared version pairs in order (unknown
// versions kept); MarshalData gives the input back. ServerHello/HRR form (selected_version): accepted
// iff the payload is exactly 2 bytes. Truncated, odd and over-long inputs are rejected.
//
//symgo:entry covers=sv_offer_one,sv_offer_two,sv_offer_reject,sv_sel_accept,sv_sel_reject
func zzSupportedVersionsDecode() {
	n := zzsymChoice("len", zzsymParam("NSV")+1)
	data := zzsymBytes("d", n)
	if zzsymChoice("ctx", 2) == 1 {
		s := &SelectedVersion{}
		err := s.UnmarshalData(data)
		if n != 2 {
			zzsymAssert(err != nil, "truncation/SelectedVersion")
			zzsymCover("sv_sel_reject")
			return
		}
		zzsymAssert(err == nil, "ref_equal/SelectedVersion_accepts")
		zzsymAssert(zzsymAnd(s.Version.Major == data[0], s.Version.Minor == data[1]), "ref_equal/SelectedVersion_value")
		c, merr := s.MarshalData()
		zzsymAssert(merr == nil, "fixpoint/SelectedVersion_marshal_ok")
		zzsymAssert(zzsymEqBytes(c, data), "fixpoint/SelectedVersion_canonical")
		zzsymCover("sv_sel_accept")
		return
	}
	o := &OfferedVersions{}
	err := o.UnmarshalData(data)
	ok := false
	if n >= 3 && n%2 == 1 {
		ok = int(data[0]) == n-1
	}
	if !ok {
		zzsymAssert(err != nil, "truncation/OfferedVersions")
		zzsymCover("sv_offer_reject")
		return
	}
	zzsymAssert(err == nil, "ref_equal/OfferedVersions_accepts_wellformed")
	zzsymAssert(len(o.Versions) == (n-1)/2, "ref_equal/OfferedVersions_count")
	for i := range o.Versions {
		zzsymAssert(zzsymAnd(o.Versions[i].Major == data[1+2*i], o.Versions[i].Minor == data[2+2*i]), "declared_len/OfferedVersions_value")
	}
	c, merr := o.MarshalData()
	zzsymAssert(merr == nil, "fixpoint/OfferedVersions_marshal_ok")
	zzsymAssert(zzsymEqBytes(c, data), "fixpoint/OfferedVersions_canonical")
	if len(o.Versions) == 1 {
		zzsymCover("sv_offer_one")
	} else if len(o.Versions) == 2 {
		zzsymCover("sv_offer_two")
	}
}

// supported_versions round trip from values: 0..3 arbitrary versions (offer) and one (selection):
// RFC layout, round trip equal, strict prefixes rejected, empty offer refused by MarshalData.
//
//symgo:entry covers=sv_rt,sv_marshal_refused
func zzSupportedVersionsRoundTrip() {
	cnt := zzsymChoice("count", 4)
	v := OfferedVersions{}
	body := []byte{byte(2 * cnt)}
	for i := 0; i < cnt; i++ {
		ver := protocol.Version{Major: zzsymU8("maj"), Minor: zzsymU8("min")}
		v.Versions = append(v.Versions, ver)
		body = append(body, ver.Major, ver.Minor)
	}
	raw, err := v.MarshalData()
	if cnt == 0 {
		zzsymAssert(err != nil, "rt/OfferedVersions_marshal_refuses_empty")
		zzsymCover("sv_marshal_refused")
		return
	}
	zzsymAssert(err == nil, "rt/OfferedVersions_marshal_ok")
	zzsymAssert(zzsymEqBytes(raw, body), "ref_equal/OfferedVersions_encoding_layout")
	g := &OfferedVersions{}
	zzsymAssert(g.UnmarshalData(raw) == nil, "rt/OfferedVersions_unmarshal_ok")
	zzsymAssert(len(g.Versions) == cnt, "rt/OfferedVersions_count")
	for i := 0; i < cnt; i++ {
		zzsymAssert(g.Versions[i] == v.Versions[i], "rt/OfferedVersions_value")
	}
	for k := 0; k < len(raw); k++ {
		t := &OfferedVersions{}
		zzsymAssert(t.UnmarshalData(raw[:k]) != nil, "truncation/OfferedVersions_prefix")
	}
	s := SelectedVersion{Version: v.Versions[0]}
	sraw, serr := s.MarshalData()
	zzsymAssert(serr == nil, "rt/SelectedVersion_marshal_ok")
	zzsymAssert(zzsymEqBytes(sraw, []byte{s.Version.Major, s.Version.Minor}), "ref_equal/SelectedVersion_encoding_layout")
	gs := &SelectedVersion{}
	zzsymAssert(gs.UnmarshalData(sraw) == nil, "rt/SelectedVersion_unmarshal_ok")
	zzsymAssert(gs.Version == s.Version, "rt/SelectedVersion_equal")
	zzsymCover("sv_rt")
}

// cookie extension (RFC 8446 §4.2.2: opaque cookie<1..2^16-1>) on every byte string of length 0..NCK:
// accepted iff the uint16 length is non-zero and equals the rest exactly; the cookie is exactly the
// declared bytes; MarshalData gives the input back. From values: cookie of 0..NCK bytes — empty is
// refused by MarshalData, others round-trip through the RFC layout and every strict prefix is rejected.
//
//symgo:entry covers=ck_accept,ck_reject,ck_rt,ck_marshal_refused
func zzCookieExtCodec() {
	n := zzsymChoice("len", zzsymParam("NCK")+1)
	if zzsymChoice("mode", 2) == 0 {
		data := zzsymBytes("d", n)
		c := &Cookie{}
		err := c.UnmarshalData(data)
		ok := false
		if n >= 3 {
			ok = int(data[0])<<8|int(data[1]) == n-2
		}
		if !ok {
			zzsymAssert(err != nil, "truncation/CookieExt")
			zzsymCover("ck_reject")
			return
		}
		zzsymAssert(err == nil, "ref_equal/CookieExt_accepts_wellformed")
		zzsymAssert(zzsymEqBytes(c.Cookie, data[2:]), "declared_len/CookieExt_cookie")
		out, merr := c.MarshalData()
		zzsymAssert(merr == nil, "fixpoint/CookieExt_marshal_ok")
		zzsymAssert(zzsymEqBytes(out, data), "fixpoint/CookieExt_canonical")
		zzsymCover("ck_accept")
		return
	}
	v := Cookie{Cookie: zzsymBytes("cookie", n)}
	raw, err := v.MarshalData()
	if n == 0 {
		zzsymAssert(err != nil, "rt/CookieExt_marshal_refuses_empty")
		zzsymCover("ck_marshal_refused")
		return
	}
	zzsymAssert(err == nil, "rt/CookieExt_marshal_ok")
	zzsymAssert(zzsymEqBytes(raw, append([]byte{0, byte(n)}, v.Cookie...)), "ref_equal/CookieExt_encoding_layout")
	g := &Cookie{}
	zzsymAssert(g.UnmarshalData(raw) == nil, "rt/CookieExt_unmarshal_ok")
	zzsymAssert(zzsymEqBytes(g.Cookie, v.Cookie), "rt/CookieExt_equal")
	for k := 0; k < len(raw); k++ {
		t := &Cookie{}
		zzsymAssert(t.UnmarshalData(raw[:k]) != nil, "truncation/CookieExt_prefix")
	}
	zzsymCover("ck_rt")
}

// zzKeyShareEntriesRef: RFC 8446 §4.2.8 — entries NamedGroup(2) opaque key_exchange<1..2^16-1> filling
// data exactly; a group may appear only once ("Clients MUST NOT offer multiple KeyShareEntry values
// for the same group").
func zzKeyShareEntriesRef(data []byte, start int) (ok bool, groups []uint16, offs, lens []int) {
	n := len(data)
	off := start
	for off < n {
		if n-off < 4 {
			return false, nil, nil, nil
		}
		g := uint16(data[off])<<8 | uint16(data[off+1])
		l := int(data[off+2])<<8 | int(data[off+3])
		off += 4
		if l == 0 || l > n-off {
			return false, nil, nil, nil
		}
		for _, h := range groups {
			if h == g {
				return false, nil, nil, nil
			}
		}
		groups = append(groups, g)
		offs = append(offs, off)
		lens = append(lens, l)
		off += l
	}
	return true, groups, offs, lens
}

// key_share payloads on every byte string of length 0..NKS in the three contexts: ClientHello
// (uint16-length-prefixed list of entries, possibly empty), ServerHello (exactly one entry),
// HelloRetryRequest (selected_group, exactly 2 bytes). Proved: accepted iff the reference framing
// holds (truncated entry header / key, zero-length key, duplicate group, wrong list length, trailing
// bytes: rejected); every entry's group and key_exchange are exactly the declared bytes (unknown
// groups kept); MarshalData gives the input back.
//
//symgo:entry covers=ks_client_empty,ks_client_one,ks_client_two,ks_client_reject,ks_server_accept,ks_server_reject,ks_hrr_accept,ks_hrr_reject
func zzKeyShareDecode() {
	n := zzsymChoice("len", zzsymParam("NKS")+1)
	data := zzsymBytes("d", n)
	ctx := zzsymChoice("ctx", 3)
	if ctx == 2 {
		r := &RetryKeyShare{}
		err := r.UnmarshalData(data)
		if n != 2 {
			zzsymAssert(err != nil, "truncation/RetryKeyShare")
			zzsymCover("ks_hrr_reject")
			return
		}
		zzsymAssert(err == nil, "ref_equal/RetryKeyShare_accepts")
		zzsymAssert(uint16(r.SelectedGroup) == uint16(data[0])<<8|uint16(data[1]), "ref_equal/RetryKeyShare_value")
		c, merr := r.MarshalData()
		zzsymAssert(merr == nil, "fixpoint/RetryKeyShare_marshal_ok")
		zzsymAssert(zzsymEqBytes(c, data), "fixpoint/RetryKeyShare_canonical")
		zzsymCover("ks_hrr_accept")
		return
	}
	var err, merr error
	var shares []KeyShareEntry
	var c []byte
	ok := false
	var groups []uint16
	var offs, lens []int
	if ctx == 0 {
		k := &ClientKeyShare{}
		err = k.UnmarshalData(data)
		shares = k.Shares
		if err == nil {
			c, merr = k.MarshalData()
		}
		if n >= 2 {
			if int(data[0])<<8|int(data[1]) == n-2 {
				ok, groups, offs, lens = zzKeyShareEntriesRef(data, 2)
			}
		}
		if !ok {
			zzsymAssert(err != nil, "truncation/ClientKeyShare")
			zzsymCover("ks_client_reject")
			return
		}
	} else {
		k := &ServerKeyShare{}
		err = k.UnmarshalData(data)
		shares = []KeyShareEntry{k.Share}
		if err == nil {
			c, merr = k.MarshalData()
		}
		ok, groups, offs, lens = zzKeyShareEntriesRef(data, 0)
		if !ok || len(groups) != 1 {
			zzsymAssert(err != nil, "truncation/ServerKeyShare")
			zzsymCover("ks_server_reject")
			return
		}
	}
	zzsymAssert(err == nil, "ref_equal/KeyShare_accepts_wellformed")
	zzsymAssert(len(shares) == len(groups), "ref_equal/KeyShare_count")
	for i := range groups {
		zzsymAssert(uint16(shares[i].Group) == groups[i], "ref_equal/KeyShare_group")
		zzsymAssert(zzsymEqBytes(shares[i].KeyExchange, data[offs[i]:offs[i]+lens[i]]), "declared_len/KeyShare_key_exchange")
	}
	zzsymAssert(merr == nil, "fixpoint/KeyShare_marshal_ok")
	zzsymAssert(zzsymEqBytes(c, data), "fixpoint/KeyShare_canonical")
	switch {
	case ctx == 1:
		zzsymCover("ks_server_accept")
	case len(groups) == 0:
		zzsymCover("ks_client_empty")
	case len(groups) == 1:
		zzsymCover("ks_client_one")
	case len(groups) == 2:
		zzsymCover("ks_client_two")
	}
}

// key_share round trip from values: 0..2 entries with distinct arbitrary groups and keys of
// 1..NKSV bytes (ClientHello list; single entry also as ServerHello share; group as HRR selection):
// RFC layout, round trip equal, strict prefixes rejected; duplicate groups and empty keys are refused
// by MarshalData.
//
//symgo:entry covers=ks_rt,ks_marshal_refused_dup,ks_marshal_refused_empty
func zzKeyShareRoundTrip() {
	cnt := zzsymChoice("count", 3)
	v := ClientKeyShare{}
	body := []byte{}
	emptyKey := false
	for i := 0; i < cnt; i++ {
		e := KeyShareEntry{Group: elliptic.Curve(zzsymU16("group")), KeyExchange: zzsymBytes("kx", zzsymChoice("kxlen", zzsymParam("NKSV")+1))}
		if len(e.KeyExchange) == 0 {
			emptyKey = true
		}
		v.Shares = append(v.Shares, e)
		body = append(body, byte(e.Group>>8), byte(e.Group), 0, byte(len(e.KeyExchange)))
		body = append(body, e.KeyExchange...)
	}
	raw, err := v.MarshalData()
	if cnt == 2 && v.Shares[0].Group == v.Shares[1].Group {
		zzsymAssert(err != nil, "rt/KeyShare_marshal_refuses_duplicate")
		zzsymCover("ks_marshal_refused_dup")
		return
	}
	if emptyKey {
		zzsymAssert(err != nil, "rt/KeyShare_marshal_refuses_empty_key")
		zzsymCover("ks_marshal_refused_empty")
		return
	}
	zzsymAssert(err == nil, "rt/KeyShare_marshal_ok")
	zzsymAssert(zzsymEqBytes(raw, append([]byte{0, byte(len(body))}, body...)), "ref_equal/KeyShare_encoding_layout")
	g := &ClientKeyShare{}
	zzsymAssert(g.UnmarshalData(raw) == nil, "rt/KeyShare_unmarshal_ok")
	zzsymAssert(len(g.Shares) == cnt, "rt/KeyShare_count")
	for i := 0; i < cnt; i++ {
		zzsymAssert(zzsymAnd(g.Shares[i].Group == v.Shares[i].Group, zzsymEqBytes(g.Shares[i].KeyExchange, v.Shares[i].KeyExchange)), "rt/KeyShare_entry")
	}
	for k := 0; k < len(raw); k++ {
		t := &ClientKeyShare{}
		zzsymAssert(t.UnmarshalData(raw[:k]) != nil, "truncation/KeyShare_prefix")
	}
	if cnt == 1 {
		s := ServerKeyShare{Share: v.Shares[0]}
		sraw, serr := s.MarshalData()
		zzsymAssert(serr == nil, "rt/ServerKeyShare_marshal_ok")
		zzsymAssert(zzsymEqBytes(sraw, body), "ref_equal/ServerKeyShare_encoding_layout")
		gs := &ServerKeyShare{}
		zzsymAssert(gs.UnmarshalData(sraw) == nil, "rt/ServerKeyShare_unmarshal_ok")
		zzsymAssert(zzsymAnd(gs.Share.Group == s.Share.Group, zzsymEqBytes(gs.Share.KeyExchange, s.Share.KeyExchange)), "rt/ServerKeyShare_equal")
		for k := 0; k < len(sraw); k++ {
			t := &ServerKeyShare{}
			zzsymAssert(t.UnmarshalData(sraw[:k]) != nil, "truncation/ServerKeyShare_prefix")
		}
		r := RetryKeyShare{SelectedGroup: s.Share.Group}
		rraw, rerr := r.MarshalData()
		zzsymAssert(rerr == nil, "rt/RetryKeyShare_marshal_ok")
		zzsymAssert(zzsymEqBytes(rraw, body[:2]), "ref_equal/RetryKeyShare_encoding_layout")
		gr := &RetryKeyShare{}
		zzsymAssert(gr.UnmarshalData(rraw) == nil, "rt/RetryKeyShare_unmarshal_ok")
		zzsymAssert(gr.SelectedGroup == r.SelectedGroup, "rt/RetryKeyShare_equal")
	}
	zzsymCover("ks_rt")
}
