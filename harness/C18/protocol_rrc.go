package protocol

//symgo:pkg github.com/pion/dtls/v3/pkg/protocol
//symgo:param NRRC quick=12 thorough=24
//symgo:param NAPP quick=6 thorough=16
//symgo:outside return_routability_check values with an unknown msg_type (>2) and a non-zero cookie: RFC 9853 defines no body for them and the decoder deliberately drops the cookie (section 4.2 "parse and gracefully ignore"); for these only msg_type is required to survive the round trip

// RFC 9853 section 4:
//
//	enum { path_challenge(0), path_response(1), path_drop(2), (255) } rrc_msg_type;
//	opaque Cookie[8];
//	struct { rrc_msg_type msg_type; select (msg_type) { case 0,1,2: Cookie; }; } return_routability_check;
//
// i.e. exactly 9 bytes for the three defined types.

// RRC round trip: for every msg_type byte and every 8-byte cookie, Marshal writes msg_type||cookie
// (9 bytes) and Unmarshal accepts it. For the three RFC-defined types the decoded value equals the
// encoded one; for unknown types the type survives and the cookie is cleared (documented contract).
// For defined types every strict prefix and every one-byte extension of the encoding is rejected.
//
//symgo:entry covers=rt_known,rt_unknown,prefix_rejected
func zzRRCRoundTrip() {
	r := ReturnRoutabilityCheck{MessageType: ReturnRoutabilityCheckMessageType(zzsymU8("type"))}
	cookie := zzsymBytes("cookie", ReturnRoutabilityCheckCookieLength)
	copy(r.Cookie[:], cookie)
	raw, err := r.Marshal()
	zzsymAssert(err == nil, "rrc_marshal_ok")
	zzsymAssert(len(raw) == 9, "rrc_marshal_len")
	zzsymAssert(raw[0] == byte(r.MessageType), "rrc_marshal_type_layout")
	zzsymAssert(zzsymEqBytes(raw[1:], cookie), "rrc_marshal_cookie_layout")
	var g ReturnRoutabilityCheck
	zzsymAssert(g.Unmarshal(raw) == nil, "rrc_rt_accepts")
	zzsymAssert(g.MessageType == r.MessageType, "rrc_rt_type")
	if r.MessageType <= ReturnRoutabilityCheckPathDrop {
		zzsymAssert(zzsymEqBytes(g.Cookie[:], cookie), "rrc_rt_cookie")
		zzsymCover("rt_known")
		for k := 0; k < len(raw); k++ {
			var t ReturnRoutabilityCheck
			zzsymAssert(t.Unmarshal(raw[:k]) != nil, "rrc_truncated_rejected")
			zzsymCover("prefix_rejected")
		}
		var t ReturnRoutabilityCheck
		zzsymAssert(t.Unmarshal(append(append([]byte{}, raw...), zzsymU8("extra"))) != nil, "rrc_trailing_rejected")
	} else {
		zzsymAssert(zzsymEqBytes(g.Cookie[:], make([]byte, 8)), "rrc_unknown_type_cookie_cleared")
		zzsymCover("rt_unknown")
	}
}

// RRC decoder against the RFC 9853 reference on every byte string of length 0..NRRC, starting from an
// arbitrary previous value of the receiver: empty input is rejected; a defined msg_type (0..2) is
// accepted iff the input is exactly 9 bytes and then the cookie is bytes 1..8; an unknown msg_type is
// accepted at any length with a cleared cookie. Re-encoding an accepted input yields a 9-byte canonical
// form c that decodes to the same value and re-encodes to c (fixed point); for defined types c is the input.
//
//symgo:entry covers=rejected_empty,accepted_known,rejected_known_badlen,accepted_unknown
func zzRRCDecodeRef() {
	ln := zzsymChoice("len", zzsymParam("NRRC")+1)
	data := zzsymBytes("d", ln)
	r := ReturnRoutabilityCheck{MessageType: ReturnRoutabilityCheckMessageType(zzsymU8("oldtype"))}
	copy(r.Cookie[:], zzsymBytes("oldcookie", 8))
	err := r.Unmarshal(data)
	if ln == 0 {
		zzsymAssert(err != nil, "rrc_empty_rejected")
		zzsymCover("rejected_empty")
		return
	}
	if data[0] <= 2 {
		if ln != 9 {
			zzsymAssert(err != nil, "rrc_known_type_wrong_len_rejected")
			zzsymCover("rejected_known_badlen")
			return
		}
		zzsymAssert(err == nil, "rrc_known_type_accepted")
		zzsymAssert(byte(r.MessageType) == data[0], "rrc_ref_type")
		zzsymAssert(zzsymEqBytes(r.Cookie[:], data[1:9]), "rrc_ref_cookie")
		zzsymCover("accepted_known")
	} else {
		zzsymAssert(err == nil, "rrc_unknown_type_accepted")
		zzsymAssert(byte(r.MessageType) == data[0], "rrc_ref_type")
		zzsymAssert(zzsymEqBytes(r.Cookie[:], make([]byte, 8)), "rrc_unknown_type_cookie_cleared")
		zzsymCover("accepted_unknown")
	}
	c, merr := r.Marshal()
	zzsymAssert(merr == nil, "rrc_reencode_ok")
	zzsymAssert(len(c) == 9, "rrc_canonical_len")
	if data[0] <= 2 {
		zzsymAssert(zzsymEqBytes(c, data), "rrc_known_type_canonical_is_input")
	}
	var g ReturnRoutabilityCheck
	zzsymAssert(g.Unmarshal(c) == nil, "rrc_canonical_accepted")
	zzsymAssert(zzsymAnd(g.MessageType == r.MessageType, g.Cookie == r.Cookie), "rrc_canonical_same_value")
	c2, _ := g.Marshal()
	zzsymAssert(zzsymEqBytes(c2, c), "rrc_fixpoint")
}

// ApplicationData is opaque: every byte string of length 0..NAPP is accepted, decodes to exactly those
// bytes and re-encodes to exactly those bytes (round trip and fixed point in one); the decoded value
// does not alias the input buffer.
//
//symgo:entry covers=app_empty,app_nonempty
func zzAppDataCodec() {
	ln := zzsymChoice("len", zzsymParam("NAPP")+1)
	data := zzsymBytes("d", ln)
	orig := append([]byte{}, data...)
	var a ApplicationData
	zzsymAssert(a.Unmarshal(data) == nil, "app_accepts_all")
	zzsymAssert(zzsymEqBytes(a.Data, orig), "app_decoded_is_input")
	raw, err := a.Marshal()
	zzsymAssert(err == nil, "app_marshal_ok")
	zzsymAssert(zzsymEqBytes(raw, orig), "app_fixpoint")
	b := ApplicationData{Data: orig}
	raw2, _ := b.Marshal()
	var g ApplicationData
	zzsymAssert(g.Unmarshal(raw2) == nil, "app_rt_accepts")
	zzsymAssert(zzsymEqBytes(g.Data, orig), "app_rt")
	zzsymAssert(a.ContentType() == ContentTypeApplicationData, "app_content_type")
	if ln == 0 {
		zzsymCover("app_empty")
		return
	}
	// no aliasing: overwriting the wire buffer afterwards does not change the decoded value
	data[0] ^= 0xff
	zzsymAssert(zzsymEqBytes(a.Data, orig), "app_no_alias")
	zzsymCover("app_nonempty")
}

// ChangeCipherSpec (RFC 5246 section 7.1: a single byte of value 1): Marshal gives exactly {1};
// on every byte string of length 0..4 Unmarshal accepts iff the input is exactly {1}, so truncated
// (empty) input, a wrong value and trailing bytes are all rejected; accepted input re-encodes to itself.
//
//symgo:entry covers=ccs_accepted,ccs_rejected_len,ccs_rejected_value
func zzCCSCodec() {
	var c ChangeCipherSpec
	raw, err := c.Marshal()
	zzsymAssert(err == nil, "ccs_marshal_ok")
	zzsymAssert(zzsymEqBytes(raw, []byte{1}), "ccs_marshal_layout")
	zzsymAssert(c.Unmarshal(raw) == nil, "ccs_rt")
	zzsymAssert(c.ContentType() == ContentTypeChangeCipherSpec, "ccs_content_type")
	ln := zzsymChoice("len", 5)
	data := zzsymBytes("d", ln)
	uerr := c.Unmarshal(data)
	if ln != 1 {
		zzsymAssert(uerr != nil, "ccs_wrong_len_rejected")
		zzsymCover("ccs_rejected_len")
		return
	}
	if data[0] != 1 {
		zzsymAssert(uerr != nil, "ccs_wrong_value_rejected")
		zzsymCover("ccs_rejected_value")
		return
	}
	zzsymAssert(uerr == nil, "ccs_accepted")
	zzsymAssert(zzsymEqBytes(raw, data), "ccs_fixpoint")
	zzsymCover("ccs_accepted")
}
