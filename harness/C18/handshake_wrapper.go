package handshake

//symgo:pkg github.com/pion/dtls/v3/pkg/protocol/handshake
//symgo:param NHB quick=3 thorough=5
//symgo:param NHBV quick=3 thorough=8

// zzHsTypeKnown: handshake types the decoder has a body codec for (RFC 5246 §7.4, RFC 8446 §4, RFC
// 9147 §5.2: client_hello 1, server_hello 2, hello_verify_request 3, new_session_ticket 4,
// encrypted_extensions 8, request_connection_id 9, new_connection_id 10, certificate 11,
// server_key_exchange 12, certificate_request 13, server_hello_done 14, certificate_verify 15,
// client_key_exchange 16, finished 20, key_update 24).
func zzHsTypeKnown(t byte) bool {
	r := zzsymOr(zzsymAnd(t >= 1, t <= 4), zzsymAnd(t >= 8, t <= 16))
	return zzsymOr(r, zzsymOr(t == 20, t == 24))
}

// Handshake message (12-byte DTLS handshake header + body) on every byte string of length
// 0..12+NHB in every key-exchange context. Proved: input shorter than the header is rejected; the
// declared length must equal the body length exactly and fragment_length must equal length (shorter
// or longer bodies — truncation and trailing bytes — are rejected); unknown message types are
// rejected; on acceptance the header fields are exactly the RFC 6347 §4.2.2 positions and the body
// codec selected is the one of the declared type; an accepted unfragmented message (fragment_offset
// 0) re-encodes to a canonical form that decodes again and re-encodes to itself. Accepted messages
// with a non-zero fragment_offset: see zzHandshakeFragmentOffsetFixpoint. Bodies accepted in the
// degenerate ServerKeyExchange / RSA-PSS CertificateVerify shapes (own entries) are excluded from the
// re-encoding claim here.
//
//symgo:entry covers=hs_accept,hs_accept_finished,hs_reject_short,hs_reject_length,hs_reject_type,hs_reject_body,hs_skip_offset
func zzHandshakeDecode() {
	n := zzsymChoice("len", HeaderLength+zzsymParam("NHB")+1)
	data := zzsymBytes("d", n)
	kx := zzKx(zzsymChoice("kx", 4))
	h := &Handshake{KeyExchangeAlgorithm: kx}
	err := h.Unmarshal(data)
	if n < HeaderLength {
		zzsymAssert(err != nil, "truncation/Handshake_header")
		zzsymCover("hs_reject_short")
		return
	}
	length := uint32(data[1])<<16 | uint32(data[2])<<8 | uint32(data[3])
	fragOff := uint32(data[6])<<16 | uint32(data[7])<<8 | uint32(data[8])
	fragLen := uint32(data[9])<<16 | uint32(data[10])<<8 | uint32(data[11])
	if !zzsymAnd(length == uint32(n-HeaderLength), fragLen == length) {
		zzsymAssert(err != nil, "declared_len/Handshake_length")
		zzsymCover("hs_reject_length")
		return
	}
	if !zzHsTypeKnown(data[0]) {
		zzsymAssert(err != nil, "ref_equal/Handshake_unknown_type_rejected")
		zzsymCover("hs_reject_type")
		return
	}
	if err != nil {
		zzsymCover("hs_reject_body") // the body codec refused (each body codec has its own entries)
		return
	}
	zzsymAssert(byte(h.Header.Type) == data[0], "ref_equal/Handshake_type")
	zzsymAssert(h.Header.Length == length, "ref_equal/Handshake_length")
	zzsymAssert(h.Header.MessageSequence == uint16(data[4])<<8|uint16(data[5]), "ref_equal/Handshake_seq")
	zzsymAssert(h.Header.FragmentOffset == fragOff, "ref_equal/Handshake_fragment_offset")
	zzsymAssert(h.Header.FragmentLength == fragLen, "ref_equal/Handshake_fragment_length")
	zzsymAssert(h.Message != nil && byte(h.Message.Type()) == data[0], "ref_equal/Handshake_body_codec")
	if fragOff != 0 {
		zzsymCover("hs_skip_offset")
		return
	}
	if data[0] == byte(TypeServerKeyExchange) || data[0] == byte(TypeCertificateVerify) {
		return // degenerate re-encodings of these two bodies are reported by their own entries
	}
	c, merr := h.Marshal()
	zzsymAssert(merr == nil, "fixpoint/Handshake_marshal_ok")
	h2 := &Handshake{KeyExchangeAlgorithm: kx}
	zzsymAssert(h2.Unmarshal(c) == nil, "fixpoint/Handshake_canonical_decodes")
	c2, merr2 := h2.Marshal()
	zzsymAssert(merr2 == nil, "fixpoint/Handshake_marshal2_ok")
	zzsymAssert(zzsymEqBytes(c2, c), "fixpoint/Handshake_canonical_stable")
	if data[0] == byte(TypeFinished) {
		zzsymAssert(zzsymEqBytes(c, data), "fixpoint/Handshake_finished_canonical_is_input")
		zzsymCover("hs_accept_finished")
	}
	zzsymCover("hs_accept")
}

// Handshake message carrying a Finished body of 0..2 bytes, honest length fields, and a NON-ZERO
// fragment_offset: such a header describes bytes beyond the declared message length
// (fragment_offset + fragment_length > length). The decoder accepts it; the property demands that an
// accepted input re-encodes to a canonical form.
//
//symgo:entry covers=hs_offset_accepted
func zzHandshakeFragmentOffsetFixpoint() {
	nb := zzsymChoice("body", 3)
	data := zzsymBytes("d", HeaderLength+nb)
	zzsymAssume(data[0] == byte(TypeFinished))
	zzsymAssume(zzsymAnd(zzsymAnd(data[1] == 0, data[2] == 0), data[3] == byte(nb)))
	zzsymAssume(zzsymAnd(zzsymAnd(data[9] == 0, data[10] == 0), data[11] == byte(nb)))
	zzsymAssume(zzsymOr(zzsymOr(data[6] != 0, data[7] != 0), data[8] != 0))
	h := &Handshake{}
	if h.Unmarshal(data) != nil {
		return
	}
	zzsymCover("hs_offset_accepted")
	_, merr := h.Marshal()
	zzsymAssert(merr == nil, "fixpoint/Handshake_fragment_offset")
}

// Handshake round trip from values: any message_seq, Finished body of 0..NHBV bytes (and a KeyUpdate
// and a HelloVerifyRequest body): Marshal emits type, length, seq, fragment_offset 0, fragment_length
// = length, body; Unmarshal gives the same header and body; every strict prefix is rejected; Marshal
// refuses a nil body and a non-zero fragment offset.
//
//symgo:entry covers=hs_rt_finished,hs_rt_keyupdate,hs_rt_hvr,hs_marshal_refused
func zzHandshakeRoundTrip() {
	seq := zzsymU16("seq")
	h := &Handshake{Header: Header{MessageSequence: seq}}
	var body []byte
	var typ Type
	kind := zzsymChoice("kind", 4)
	switch kind {
	case 0:
		body = zzsymBytes("verify", zzsymChoice("blen", zzsymParam("NHBV")+1))
		h.Message = &MessageFinished{VerifyData: body}
		typ = TypeFinished
	case 1:
		req := zzsymU8("req")
		zzsymAssume(req <= 1)
		body = []byte{req}
		h.Message = &MessageKeyUpdate{RequestUpdate: KeyUpdateRequest(req)}
		typ = TypeKeyUpdate
	case 2:
		ck := zzsymBytes("cookie", zzsymChoice("blen", 3))
		hv := &MessageHelloVerifyRequest{Cookie: ck}
		hv.Version.Major, hv.Version.Minor = zzsymU8("maj"), zzsymU8("min")
		body = append([]byte{hv.Version.Major, hv.Version.Minor, byte(len(ck))}, ck...)
		h.Message = hv
		typ = TypeHelloVerifyRequest
	default:
		if zzsymChoice("why", 2) == 0 {
			h.Message = nil
		} else {
			h.Message = &MessageFinished{}
			h.Header.FragmentOffset = zzsymU32("off")
			zzsymAssume(h.Header.FragmentOffset != 0)
		}
		_, err := h.Marshal()
		zzsymAssert(err != nil, "rt/Handshake_marshal_refuses")
		zzsymCover("hs_marshal_refused")
		return
	}
	raw, err := h.Marshal()
	zzsymAssert(err == nil, "rt/Handshake_marshal_ok")
	want := []byte{byte(typ), 0, 0, byte(len(body)), byte(seq >> 8), byte(seq), 0, 0, 0, 0, 0, byte(len(body))}
	want = append(want, body...)
	zzsymAssert(zzsymEqBytes(raw, want), "ref_equal/Handshake_encoding_layout")
	g := &Handshake{}
	zzsymAssert(g.Unmarshal(raw) == nil, "rt/Handshake_unmarshal_ok")
	zzsymAssert(g.Header == Header{Type: typ, Length: uint32(len(body)), MessageSequence: seq, FragmentLength: uint32(len(body))}, "rt/Handshake_header_equal")
	gb, gerr := g.Message.Marshal()
	zzsymAssert(gerr == nil && g.Message.Type() == typ, "rt/Handshake_body_kind")
	zzsymAssert(zzsymEqBytes(gb, body), "rt/Handshake_body_equal")
	for k := 0; k < len(raw); k++ {
		t := &Handshake{}
		zzsymAssert(t.Unmarshal(raw[:k]) != nil, "truncation/Handshake_prefix")
	}
	switch kind {
	case 0:
		zzsymCover("hs_rt_finished")
	case 1:
		zzsymCover("hs_rt_keyupdate")
	case 2:
		zzsymCover("hs_rt_hvr")
	}
}
