package dtls12

//symgo:pkg github.com/pion/dtls/v3/pkg/protocol/extension/dtls12
//symgo:param NPF quick=4 thorough=6

import "github.com/pion/dtls/v3/pkg/crypto/elliptic"

// ec_point_formats (RFC 8422 §5.1.2: ECPointFormat ec_point_format_list<1..2^8-1>) on every byte string
// of length 0..NPF: accepted iff the 1-byte length equals the rest exactly (empty payload, truncated and
// over-long lists rejected; pion also admits the zero-length list); the decoded list is exactly the
// uncompressed(0) entries of the declared vector (the only format pion knows; others are dropped, all
// inside the declared length); the accepted value re-encodes to the canonical list of its uncompressed
// entries, which decodes to the same value and re-encodes to itself. From values: 0..3 uncompressed
// formats round-trip through the RFC layout and every strict prefix is rejected.
//
//symgo:entry covers=pf_accept,pf_accept_dropped,pf_reject,pf_rt
func zzPointFormatsCodec() {
	if zzsymChoice("mode", 2) == 0 {
		n := zzsymChoice("len", zzsymParam("NPF")+1)
		data := zzsymBytes("d", n)
		s := &SupportedPointFormats{}
		err := s.UnmarshalData(data)
		ok := false
		if n >= 1 {
			ok = int(data[0]) == n-1
		}
		if !ok {
			zzsymAssert(err != nil, "truncation/SupportedPointFormats")
			zzsymCover("pf_reject")
			return
		}
		zzsymAssert(err == nil, "ref_equal/SupportedPointFormats_accepts_wellformed")
		zeros := 0
		for i := 1; i < n; i++ {
			if data[i] == 0 {
				zeros++
			}
		}
		zzsymAssert(len(s.PointFormats) == zeros, "declared_len/SupportedPointFormats_count")
		for _, f := range s.PointFormats {
			zzsymAssert(f == elliptic.CurvePointFormatUncompressed, "ref_equal/SupportedPointFormats_value")
		}
		c, merr := s.MarshalData()
		zzsymAssert(merr == nil, "fixpoint/SupportedPointFormats_marshal_ok")
		want := make([]byte, 1+zeros)
		want[0] = byte(zeros)
		zzsymAssert(zzsymEqBytes(c, want), "ref_equal/SupportedPointFormats_encoding_layout")
		s2 := &SupportedPointFormats{}
		zzsymAssert(s2.UnmarshalData(c) == nil, "fixpoint/SupportedPointFormats_canonical_decodes")
		zzsymAssert(len(s2.PointFormats) == zeros, "fixpoint/SupportedPointFormats_value_stable")
		c2, _ := s2.MarshalData()
		zzsymAssert(zzsymEqBytes(c2, c), "fixpoint/SupportedPointFormats_canonical_stable")
		if zeros == n-1 {
			zzsymCover("pf_accept")
		} else {
			zzsymCover("pf_accept_dropped")
		}
		return
	}
	cnt := zzsymChoice("count", 4)
	v := SupportedPointFormats{}
	for i := 0; i < cnt; i++ {
		v.PointFormats = append(v.PointFormats, elliptic.CurvePointFormatUncompressed)
	}
	raw, err := v.MarshalData()
	zzsymAssert(err == nil, "rt/SupportedPointFormats_marshal_ok")
	want := make([]byte, 1+cnt)
	want[0] = byte(cnt)
	zzsymAssert(zzsymEqBytes(raw, want), "ref_equal/SupportedPointFormats_encoding_layout")
	g := &SupportedPointFormats{}
	zzsymAssert(g.UnmarshalData(raw) == nil, "rt/SupportedPointFormats_unmarshal_ok")
	zzsymAssert(len(g.PointFormats) == cnt, "rt/SupportedPointFormats_equal")
	for k := 0; k < len(raw); k++ {
		t := &SupportedPointFormats{}
		zzsymAssert(t.UnmarshalData(raw[:k]) != nil, "truncation/SupportedPointFormats_prefix")
	}
	zzsymCover("pf_rt")
}

// extended_master_secret (RFC 7627 §5.1: empty extension_data) on every byte string of length 0..3:
// accepted iff empty, encoded as the empty payload.
//
//symgo:entry covers=ems_accept,ems_reject
func zzExtendedMasterSecretCodec() {
	n := zzsymChoice("len", 4)
	data := zzsymBytes("d", n)
	var e ExtendedMasterSecret
	err := e.UnmarshalData(data)
	out, merr := e.MarshalData()
	zzsymAssert(merr == nil, "rt/ExtendedMasterSecret_marshal_ok")
	zzsymAssert(len(out) == 0, "ref_equal/ExtendedMasterSecret_encoding_layout")
	if n == 0 {
		zzsymAssert(err == nil, "rt/ExtendedMasterSecret_accepts_empty")
		zzsymCover("ems_accept")
	} else {
		zzsymAssert(err != nil, "declared_len/ExtendedMasterSecret_rejects_payload")
		zzsymCover("ems_reject")
	}
}

// renegotiation_info as pion models it (a single byte, no renegotiation support) on every byte string
// of length 0..3: accepted iff exactly one byte (empty and longer payloads rejected), the value is that
// byte, MarshalData gives the input back, and every value round-trips. Whether the accepted byte honours
// the RFC 5746 layout is checked in zzRenegotiationInfoDeclaredLen.
//
//symgo:entry covers=ri_accept,ri_reject
func zzRenegotiationInfoCodec() {
	n := zzsymChoice("len", 4)
	data := zzsymBytes("d", n)
	r := &RenegotiationInfo{}
	err := r.UnmarshalData(data)
	if n != 1 {
		zzsymAssert(err != nil, "truncation/RenegotiationInfo")
		zzsymCover("ri_reject")
	} else {
		zzsymAssert(err == nil, "ref_equal/RenegotiationInfo_accepts_one_byte")
		zzsymAssert(r.RenegotiatedConnection == data[0], "ref_equal/RenegotiationInfo_value")
		c, merr := r.MarshalData()
		zzsymAssert(merr == nil, "fixpoint/RenegotiationInfo_marshal_ok")
		zzsymAssert(zzsymEqBytes(c, data), "fixpoint/RenegotiationInfo_canonical")
		zzsymCover("ri_accept")
	}
	v := RenegotiationInfo{RenegotiatedConnection: zzsymU8("v")}
	raw, verr := v.MarshalData()
	zzsymAssert(verr == nil && len(raw) == 1 && raw[0] == v.RenegotiatedConnection, "ref_equal/RenegotiationInfo_encoding_layout")
	g := &RenegotiationInfo{}
	zzsymAssert(g.UnmarshalData(raw) == nil && g.RenegotiatedConnection == v.RenegotiatedConnection, "rt/RenegotiationInfo_equal")
}

// renegotiation_info against the RFC 5746 §3.2 layout (struct { opaque renegotiated_connection<0..255>; }):
// the single payload byte pion accepts is the LENGTH of renegotiated_connection, so an accepted 1-byte
// payload must declare length 0 — any other value declares bytes that are not there (truncated input).
//
//symgo:entry covers=ri_len_zero,ri_len_nonzero
func zzRenegotiationInfoDeclaredLen() {
	data := zzsymBytes("d", 1)
	r := &RenegotiationInfo{}
	if r.UnmarshalData(data) != nil {
		return
	}
	if data[0] == 0 {
		zzsymCover("ri_len_zero")
	} else {
		zzsymCover("ri_len_nonzero")
	}
	zzsymAssert(data[0] == 0, "truncation/RenegotiationInfo_declared_len")
}
