package handshake

//symgo:pkg github.com/pion/dtls/v3/pkg/protocol/handshake
//symgo:param NCH quick=6 thorough=9
//symgo:param NSH quick=6 thorough=9
//symgo:param NHV quick=1 thorough=2
//symgo:outside ClientHello inputs whose declared cipher_suites length exceeds the remaining input by more than 4 bytes (decodeCipherSuiteIDs allocates count entries before checking; the engine cannot enumerate 32768 allocation sizes; such inputs take the same buffer-too-small exit as the covered ones)

import (
	"time"

	"github.com/pion/dtls/v3/pkg/protocol"
	"github.com/pion/dtls/v3/pkg/protocol/extension"
)

// zzExtBlockRef is the reference framing of an extension block (RFC 5246 §7.4.1.4 / RFC 8446 §4.2):
// uint16 total length equal to the rest of data[start:], then entries extension_type(2)
// opaque extension_data<0..2^16-1> filling the block exactly.
func zzExtBlockRef(data []byte, start int) (ok bool, typs []uint16, offs, lens []int) {
	n := len(data)
	if n-start < 2 {
		return false, nil, nil, nil
	}
	if int(data[start])<<8|int(data[start+1]) != n-start-2 {
		return false, nil, nil, nil
	}
	off := start + 2
	for off < n {
		if n-off < 4 {
			return false, nil, nil, nil
		}
		t := uint16(data[off])<<8 | uint16(data[off+1])
		l := int(data[off+2])<<8 | int(data[off+3])
		off += 4
		if l > n-off {
			return false, nil, nil, nil
		}
		typs = append(typs, t)
		offs = append(offs, off)
		lens = append(lens, l)
		off += l
	}
	return true, typs, offs, lens
}

// zzCheckExtValues: the decoded extension list has one value per framed entry, in order, with the
// framed type; entries of a type the library has no payload codec for are kept verbatim (exactly the
// declared payload bytes).
func zzCheckExtValues(vals []extension.Value, data []byte, typs []uint16, offs, lens []int, label string) {
	zzsymAssert(len(vals) == len(typs), "partition/"+label+"_extension_count")
	for i := range typs {
		zzsymAssert(uint16(vals[i].ExtensionType()) == typs[i], "ref_equal/"+label+"_extension_type")
		if r, isRaw := vals[i].(extension.Raw); isRaw {
			zzsymAssert(zzsymEqBytes(r.Data, data[offs[i]:offs[i]+lens[i]]), "declared_len/"+label+"_extension_payload")
		}
	}
}

func zzRandomEq(r *Random, wire []byte) bool {
	sec := uint32(wire[0])<<24 | uint32(wire[1])<<16 | uint32(wire[2])<<8 | uint32(wire[3])
	return zzsymAnd(uint32(r.GMTUnixTime.Unix()) == sec, zzsymEqBytes(r.RandomBytes[:], wire[4:32]))
}

// ClientHello (RFC 6347 §4.2.1: version(2) random(32) session_id<0..32> cookie<0..2^8-1>
// cipher_suites<2..2^16-2> compression_methods<1..2^8-1> extensions<0..2^16-1>) on every byte string
// of length 0..39+NCH (39 = fixed part + the four length bytes; pion additionally needs the 2-byte
// extensions length). Proved: if any declared length (session id, cookie, cipher suites, compression
// methods, extension block, extension payload) exceeds the input, the input is rejected; an input
// whose framing is well-formed and carries no extension is accepted; every decoded field is exactly
// its declared bytes (an odd trailing cipher-suite byte is skipped, unknown compression methods are
// dropped — both inside their declared vectors); extensions are one value per framed entry with the
// framed type; an accepted input re-encodes to a canonical form c that decodes again and re-encodes to
// c. Inputs with well-formed framing that pion refuses for extension policy (not allowed in
// ClientHello, duplicates, dependency rules, malformed payload) are counted, not judged.
//
//symgo:entry covers=ch_accept_noext,ch_accept_ext,ch_reject_framing,ch_reject_policy,ch_sid,ch_cookie,ch_suite
func zzClientHelloDecode() {
	n := zzsymChoice("len", 40+zzsymParam("NCH"))
	data := zzsymBytes("d", n)
	// Reference walk over the four length-prefixed vectors that precede the extensions. The value of
	// each length field is split into concrete cases (0..room exactly, or "larger than what is left"):
	// a case split that covers every value of the field (except the stated cipher_suites bound) and
	// keeps all offsets concrete.
	names := []string{"sid", "cookie", "suites", "compr"}
	widths := []int{1, 1, 2, 1}
	var fOff, fLen [4]int
	ok := true
	off := 34
	for i := 0; i < 4 && ok; i++ {
		w := widths[i]
		if off+w > n {
			ok = false // the length field itself is cut off
			break
		}
		declared := int(data[off])
		if w == 2 {
			declared = int(data[off])<<8 | int(data[off+1])
		}
		room := n - off - w
		c := zzsymChoice(names[i], room+2)
		if c <= room {
			zzsymAssume(declared == c)
			fOff[i], fLen[i] = off+w, c
			off += w + c
		} else {
			zzsymAssume(declared > room)
			if w == 2 {
				zzsymAssume(declared <= room+4) // bound, see //symgo:outside
			}
			ok = false
		}
	}
	sidOff, sidLen, ckOff, ckLen, csOff, csLen, cmOff, cmLen := fOff[0], fLen[0], fOff[1], fLen[1], fOff[2], fLen[2], fOff[3], fLen[3]
	m := &MessageClientHello{}
	err := m.Unmarshal(data)
	var typs []uint16
	var offs, lens []int
	if ok {
		ok, typs, offs, lens = zzExtBlockRef(data, off)
	}
	if !ok {
		zzsymAssert(err != nil, "truncation/ClientHello")
		zzsymCover("ch_reject_framing")
		return
	}
	if err != nil {
		zzsymAssert(len(typs) > 0, "ref_equal/ClientHello_accepts_wellformed_without_extensions")
		zzsymCover("ch_reject_policy")
		return
	}
	zzsymAssert(zzsymAnd(m.Version.Major == data[0], m.Version.Minor == data[1]), "ref_equal/ClientHello_version")
	zzsymAssert(zzRandomEq(&m.Random, data[2:34]), "ref_equal/ClientHello_random")
	zzsymAssert(zzsymEqBytes(m.SessionID, data[sidOff:sidOff+sidLen]), "declared_len/ClientHello_session_id")
	zzsymAssert(zzsymEqBytes(m.Cookie, data[ckOff:ckOff+ckLen]), "declared_len/ClientHello_cookie")
	zzsymAssert(len(m.CipherSuiteIDs) == csLen/2, "declared_len/ClientHello_cipher_suites_count")
	for i := range m.CipherSuiteIDs {
		zzsymAssert(m.CipherSuiteIDs[i] == uint16(data[csOff+2*i])<<8|uint16(data[csOff+2*i+1]), "declared_len/ClientHello_cipher_suite")
	}
	nulls := 0
	for i := 0; i < cmLen; i++ {
		if data[cmOff+i] == 0 {
			nulls++
		}
	}
	zzsymAssert(len(m.CompressionMethods) == nulls, "declared_len/ClientHello_compression_methods")
	zzCheckExtValues(m.Extensions, data, typs, offs, lens, "ClientHello")

	c, merr := m.Marshal()
	zzsymAssert(merr == nil, "fixpoint/ClientHello_marshal_ok")
	m2 := &MessageClientHello{}
	zzsymAssert(m2.Unmarshal(c) == nil, "fixpoint/ClientHello_canonical_decodes")
	c2, merr2 := m2.Marshal()
	zzsymAssert(merr2 == nil, "fixpoint/ClientHello_marshal2_ok")
	zzsymAssert(zzsymEqBytes(c2, c), "fixpoint/ClientHello_canonical_stable")
	if sidLen > 0 {
		zzsymCover("ch_sid")
	}
	if ckLen > 0 {
		zzsymCover("ch_cookie")
	}
	if csLen >= 2 {
		zzsymCover("ch_suite")
	}
	if len(typs) > 0 {
		zzsymCover("ch_accept_ext")
	} else {
		zzsymCover("ch_accept_noext")
	}
}

// ClientHello round trip from values: any version and random, session id / cookie of 0..NHV bytes,
// 0..2 cipher suites, 0..1 null compression method, 0..1 extension of a type without payload codec
// (0..NHV payload bytes): Marshal emits exactly the RFC layout, Unmarshal gives the same value, every
// strict prefix of the encoding is rejected.
//
//symgo:entry covers=ch_rt
func zzClientHelloRoundTrip() {
	nv := zzsymParam("NHV")
	v := &MessageClientHello{
		Version:   protocol.Version{Major: zzsymU8("maj"), Minor: zzsymU8("min")},
		SessionID: zzsymBytes("sid", zzsymChoice("sidlen", nv+1)),
		Cookie:    zzsymBytes("cookie", zzsymChoice("cklen", nv+1)),
	}
	sec := zzsymU32("gmt")
	v.Random.GMTUnixTime = time.Unix(int64(sec), 0)
	rb := zzsymBytes("rand", RandomBytesLength)
	copy(v.Random.RandomBytes[:], rb)
	want := []byte{v.Version.Major, v.Version.Minor, byte(sec >> 24), byte(sec >> 16), byte(sec >> 8), byte(sec)}
	want = append(want, rb...)
	want = append(want, byte(len(v.SessionID)))
	want = append(want, v.SessionID...)
	want = append(want, byte(len(v.Cookie)))
	want = append(want, v.Cookie...)
	ncs := zzsymChoice("suites", 3)
	want = append(want, 0, byte(2*ncs))
	for i := 0; i < ncs; i++ {
		id := zzsymU16("suite")
		v.CipherSuiteIDs = append(v.CipherSuiteIDs, id)
		want = append(want, byte(id>>8), byte(id))
	}
	ncm := zzsymChoice("compr", 2)
	want = append(want, byte(ncm))
	for i := 0; i < ncm; i++ {
		v.CompressionMethods = append(v.CompressionMethods, &protocol.CompressionMethod{})
		want = append(want, 0)
	}
	var ext extension.Raw
	if zzsymChoice("ext", 2) == 1 {
		ext = extension.Raw{Type: extension.Type(zzsymU16("xtype")), Data: zzsymBytes("xdata", zzsymChoice("xlen", nv+1))}
		zzsymAssume(zzExtTypeUnknown(uint16(ext.Type)))
		v.Extensions = []extension.Value{ext}
		want = append(want, 0, byte(4+len(ext.Data)), byte(ext.Type>>8), byte(ext.Type), 0, byte(len(ext.Data)))
		want = append(want, ext.Data...)
	} else {
		want = append(want, 0, 0)
	}
	raw, err := v.Marshal()
	zzsymAssert(err == nil, "rt/ClientHello_marshal_ok")
	zzsymAssert(zzsymEqBytes(raw, want), "ref_equal/ClientHello_encoding_layout")
	g := &MessageClientHello{}
	zzsymAssert(g.Unmarshal(raw) == nil, "rt/ClientHello_unmarshal_ok")
	eq := zzsymAnd(g.Version == v.Version, zzRandomEq(&g.Random, want[2:34]))
	eq = zzsymAnd(eq, zzsymEqBytes(g.SessionID, v.SessionID))
	eq = zzsymAnd(eq, zzsymEqBytes(g.Cookie, v.Cookie))
	zzsymAssert(eq, "rt/ClientHello_scalars_equal")
	zzsymAssert(len(g.CipherSuiteIDs) == ncs, "rt/ClientHello_suite_count")
	for i := 0; i < ncs; i++ {
		zzsymAssert(g.CipherSuiteIDs[i] == v.CipherSuiteIDs[i], "rt/ClientHello_suite")
	}
	zzsymAssert(len(g.CompressionMethods) == ncm, "rt/ClientHello_compression")
	zzsymAssert(len(g.Extensions) == len(v.Extensions), "rt/ClientHello_extension_count")
	if len(v.Extensions) == 1 {
		r, isRaw := g.Extensions[0].(extension.Raw)
		zzsymAssert(isRaw, "rt/ClientHello_extension_kind")
		zzsymAssert(zzsymAnd(r.Type == ext.Type, zzsymEqBytes(r.Data, ext.Data)), "rt/ClientHello_extension")
	}
	for k := 0; k < len(raw); k++ {
		t := &MessageClientHello{}
		zzsymAssert(t.Unmarshal(raw[:k]) != nil, "truncation/ClientHello_prefix")
	}
	zzsymCover("ch_rt")
}

// zzExtTypeUnknown: the extension type is none of the IANA code points the library has a payload
// codec for (list written out from the IANA registry values used by pion).
func zzExtTypeUnknown(t uint16) bool {
	known := []uint16{0, 10, 11, 13, 14, 16, 23, 41, 42, 43, 44, 45, 47, 48, 49, 50, 51, 54, 61, 65281}
	r := true
	for _, k := range known {
		r = zzsymAnd(r, t != k)
	}
	return r
}

// ServerHello (RFC 5246 §7.4.1.3 / RFC 8446 §4.1.3: version(2) random(32) session_id<0..32>
// cipher_suite(2) compression_method(1) [extensions<0..2^16-1>]) on every byte string of length
// 0..38+NSH. Proved: truncated input (inside the fixed part, the session id, or an extension block
// whose declared lengths do not partition the rest) and unknown compression methods are rejected;
// well-formed input without extensions (block absent or empty) is accepted unless the random is the
// HelloRetryRequest marker (which demands supported_versions); every decoded field is exactly its
// declared bytes; an accepted input re-encodes to a canonical form that decodes again and re-encodes
// to itself.
//
//symgo:entry covers=sh_accept_noblock,sh_accept_emptyblock,sh_accept_ext,sh_reject_framing,sh_reject_policy,sh_sid
func zzServerHelloDecode() {
	n := zzsymChoice("len", 39+zzsymParam("NSH"))
	data := zzsymBytes("d", n)
	m := &MessageServerHello{}
	err := m.Unmarshal(data)
	ok := n >= 35
	sidOff, sidLen, off := 35, 0, 0
	if ok {
		sidLen = int(data[34])
		off = sidOff + sidLen
		ok = off+3 <= n
	}
	if ok {
		ok = data[off+2] == 0 // only the null compression method exists
		off += 3
	}
	var typs []uint16
	var offs, lens []int
	hasBlock := false
	if ok && off < n {
		hasBlock = true
		ok, typs, offs, lens = zzExtBlockRef(data, off)
	}
	if !ok {
		zzsymAssert(err != nil, "truncation/ServerHello")
		zzsymCover("sh_reject_framing")
		return
	}
	if err != nil {
		isHRR := zzsymEqBytes(data[2:34], HelloRetryRequestRandom())
		zzsymAssert(zzsymOr(len(typs) > 0, isHRR), "ref_equal/ServerHello_accepts_wellformed_without_extensions")
		zzsymCover("sh_reject_policy")
		return
	}
	zzsymAssert(zzsymAnd(m.Version.Major == data[0], m.Version.Minor == data[1]), "ref_equal/ServerHello_version")
	zzsymAssert(zzRandomEq(&m.Random, data[2:34]), "ref_equal/ServerHello_random")
	zzsymAssert(zzsymEqBytes(m.SessionID, data[sidOff:sidOff+sidLen]), "declared_len/ServerHello_session_id")
	zzsymAssert(m.CipherSuiteID != nil && *m.CipherSuiteID == uint16(data[sidOff+sidLen])<<8|uint16(data[sidOff+sidLen+1]), "ref_equal/ServerHello_cipher_suite")
	zzsymAssert(m.CompressionMethod != nil && m.CompressionMethod.ID == 0, "ref_equal/ServerHello_compression")
	zzCheckExtValues(m.Extensions, data, typs, offs, lens, "ServerHello")
	c, merr := m.Marshal()
	zzsymAssert(merr == nil, "fixpoint/ServerHello_marshal_ok")
	m2 := &MessageServerHello{}
	zzsymAssert(m2.Unmarshal(c) == nil, "fixpoint/ServerHello_canonical_decodes")
	c2, merr2 := m2.Marshal()
	zzsymAssert(merr2 == nil, "fixpoint/ServerHello_marshal2_ok")
	zzsymAssert(zzsymEqBytes(c2, c), "fixpoint/ServerHello_canonical_stable")
	if sidLen > 0 {
		zzsymCover("sh_sid")
	}
	switch {
	case !hasBlock:
		zzsymCover("sh_accept_noblock")
	case len(typs) == 0:
		zzsymCover("sh_accept_emptyblock")
	default:
		zzsymCover("sh_accept_ext")
	}
}

// ServerHello round trip from values: any version, random (not the HRR marker), cipher suite, session
// id of 0..NHV bytes, 0..1 extension without payload codec: RFC layout (pion always writes the
// extension block), Unmarshal gives the same value, every strict prefix is rejected except the one
// that ends right before the extension block (RFC 5246 allows the block to be absent, so that prefix
// is a complete extension-less ServerHello).
//
//symgo:entry covers=sh_rt
func zzServerHelloRoundTrip() {
	nv := zzsymParam("NHV")
	suite := zzsymU16("suite")
	v := &MessageServerHello{
		Version:           protocol.Version{Major: zzsymU8("maj"), Minor: zzsymU8("min")},
		SessionID:         zzsymBytes("sid", zzsymChoice("sidlen", nv+1)),
		CipherSuiteID:     &suite,
		CompressionMethod: &protocol.CompressionMethod{},
	}
	sec := zzsymU32("gmt")
	v.Random.GMTUnixTime = time.Unix(int64(sec), 0)
	rb := zzsymBytes("rand", RandomBytesLength)
	copy(v.Random.RandomBytes[:], rb)
	zzsymAssume(sec != 0xCF21AD74) // not the HelloRetryRequest marker
	want := []byte{v.Version.Major, v.Version.Minor, byte(sec >> 24), byte(sec >> 16), byte(sec >> 8), byte(sec)}
	want = append(want, rb...)
	want = append(want, byte(len(v.SessionID)))
	want = append(want, v.SessionID...)
	want = append(want, byte(suite>>8), byte(suite), 0)
	noBlockEnd := len(want) // a message ending here is the complete extension-less ServerHello of RFC 5246
	var ext extension.Raw
	if zzsymChoice("ext", 2) == 1 {
		ext = extension.Raw{Type: extension.Type(zzsymU16("xtype")), Data: zzsymBytes("xdata", zzsymChoice("xlen", nv+1))}
		zzsymAssume(zzExtTypeUnknown(uint16(ext.Type)))
		v.Extensions = []extension.Value{ext}
		want = append(want, 0, byte(4+len(ext.Data)), byte(ext.Type>>8), byte(ext.Type), 0, byte(len(ext.Data)))
		want = append(want, ext.Data...)
	} else {
		want = append(want, 0, 0)
	}
	raw, err := v.Marshal()
	zzsymAssert(err == nil, "rt/ServerHello_marshal_ok")
	zzsymAssert(zzsymEqBytes(raw, want), "ref_equal/ServerHello_encoding_layout")
	g := &MessageServerHello{}
	zzsymAssert(g.Unmarshal(raw) == nil, "rt/ServerHello_unmarshal_ok")
	eq := zzsymAnd(g.Version == v.Version, zzRandomEq(&g.Random, want[2:34]))
	eq = zzsymAnd(eq, zzsymEqBytes(g.SessionID, v.SessionID))
	eq = zzsymAnd(eq, *g.CipherSuiteID == suite)
	zzsymAssert(eq, "rt/ServerHello_scalars_equal")
	zzsymAssert(g.CompressionMethod != nil && g.CompressionMethod.ID == 0, "rt/ServerHello_compression")
	zzsymAssert(len(g.Extensions) == len(v.Extensions), "rt/ServerHello_extension_count")
	if len(v.Extensions) == 1 {
		r, isRaw := g.Extensions[0].(extension.Raw)
		zzsymAssert(isRaw, "rt/ServerHello_extension_kind")
		zzsymAssert(zzsymAnd(r.Type == ext.Type, zzsymEqBytes(r.Data, ext.Data)), "rt/ServerHello_extension")
	}
	for k := 0; k < len(raw); k++ {
		if k == noBlockEnd {
			continue
		}
		t := &MessageServerHello{}
		zzsymAssert(t.Unmarshal(raw[:k]) != nil, "truncation/ServerHello_prefix")
	}
	zzsymCover("sh_rt")
}
