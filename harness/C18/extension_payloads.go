package extension

//symgo:pkg github.com/pion/dtls/v3/pkg/protocol/extension
//symgo:param NALPN quick=7 thorough=10
//symgo:param NSRTP quick=8 thorough=10
//symgo:param NU16L quick=8 thorough=10
//symgo:param NSNI quick=10 thorough=12
//symgo:param NPV quick=2 thorough=3

import "github.com/pion/dtls/v3/pkg/crypto/elliptic"

// zzALPNRef: RFC 7301 §3.1 — uint16 list length equal to the rest, list non-empty, entries
// opaque ProtocolName<1..2^8-1> filling it exactly.
func zzALPNRef(data []byte) (ok bool, offs, lens []int) {
	n := len(data)
	if n < 3 {
		return false, nil, nil
	}
	if int(data[0])<<8|int(data[1]) != n-2 {
		return false, nil, nil
	}
	off := 2
	for off < n {
		l := int(data[off])
		off++
		if l == 0 || l > n-off {
			return false, nil, nil
		}
		offs = append(offs, off)
		lens = append(lens, l)
		off += l
	}
	return true, offs, lens
}

// ALPN payloads on every byte string of length 0..NALPN, both contexts (ClientHello offer: any
// non-empty list; server selection: exactly one name). Proved: accepted iff the reference framing
// holds (and, for the selection, the list has one entry); truncated names, empty names, wrong list
// length are rejected; each protocol name is exactly its declared bytes; MarshalData gives the input
// back (accepted input is canonical).
//
//symgo:entry covers=alpn_offer_one,alpn_offer_two,alpn_sel_accept,alpn_sel_reject_two,alpn_reject
func zzALPNDecode() {
	n := zzsymChoice("len", zzsymParam("NALPN")+1)
	data := zzsymBytes("d", n)
	sel := zzsymChoice("ctx", 2) == 1
	ok, offs, lens := false, []int(nil), []int(nil)
	var err error
	var got []string
	var c []byte
	var merr error
	if sel {
		a := &ALPNSelection{}
		err = a.UnmarshalData(data)
		ok, offs, lens = zzALPNRef(data)
		if ok && len(offs) != 1 {
			zzsymAssert(err != nil, "ref_equal/ALPNSelection_needs_exactly_one")
			zzsymCover("alpn_sel_reject_two")
			return
		}
		got = []string{a.Protocol}
		if err == nil {
			c, merr = a.MarshalData()
		}
	} else {
		a := &ALPNOffer{}
		err = a.UnmarshalData(data)
		ok, offs, lens = zzALPNRef(data)
		got = a.Protocols
		if err == nil {
			c, merr = a.MarshalData()
		}
	}
	if !ok {
		zzsymAssert(err != nil, "truncation/ALPN")
		zzsymCover("alpn_reject")
		return
	}
	zzsymAssert(err == nil, "ref_equal/ALPN_accepts_wellformed")
	zzsymAssert(len(got) == len(offs), "ref_equal/ALPN_count")
	for i := range offs {
		zzsymAssert(zzsymEqStr(got[i], string(data[offs[i]:offs[i]+lens[i]])), "declared_len/ALPN_name")
	}
	zzsymAssert(merr == nil, "fixpoint/ALPN_marshal_ok")
	zzsymAssert(zzsymEqBytes(c, data), "fixpoint/ALPN_canonical")
	switch {
	case sel:
		zzsymCover("alpn_sel_accept")
	case len(offs) == 1:
		zzsymCover("alpn_offer_one")
	case len(offs) == 2:
		zzsymCover("alpn_offer_two")
	}
}

// ALPN round trip from values: 1..2 protocol names of 1..NPV bytes: RFC layout,
// UnmarshalData(MarshalData(v)) == v, strict prefixes rejected; the empty list and an empty name are
// refused by MarshalData.
//
//symgo:entry covers=alpn_rt,alpn_marshal_refused
func zzALPNRoundTrip() {
	cnt := zzsymChoice("count", 3)
	names := []string{}
	body := []byte{}
	bad := cnt == 0
	for i := 0; i < cnt; i++ {
		s := zzsymString("name", zzsymChoice("nlen", zzsymParam("NPV")+1))
		if len(s) == 0 {
			bad = true
		}
		names = append(names, s)
		body = append(body, byte(len(s)))
		body = append(body, s...)
	}
	v := ALPNOffer{Protocols: names}
	raw, err := v.MarshalData()
	if bad {
		zzsymAssert(err != nil, "rt/ALPN_marshal_refuses_empty")
		zzsymCover("alpn_marshal_refused")
		return
	}
	zzsymAssert(err == nil, "rt/ALPN_marshal_ok")
	zzsymAssert(zzsymEqBytes(raw, append([]byte{0, byte(len(body))}, body...)), "ref_equal/ALPN_encoding_layout")
	g := &ALPNOffer{}
	zzsymAssert(g.UnmarshalData(raw) == nil, "rt/ALPN_unmarshal_ok")
	zzsymAssert(len(g.Protocols) == cnt, "rt/ALPN_count")
	for i := 0; i < cnt; i++ {
		zzsymAssert(zzsymEqStr(g.Protocols[i], names[i]), "rt/ALPN_name")
	}
	if cnt == 1 {
		s := ALPNSelection{Protocol: names[0]}
		sraw, serr := s.MarshalData()
		zzsymAssert(serr == nil, "rt/ALPNSelection_marshal_ok")
		zzsymAssert(zzsymEqBytes(sraw, raw), "ref_equal/ALPNSelection_encoding_layout")
		gs := &ALPNSelection{}
		zzsymAssert(gs.UnmarshalData(sraw) == nil, "rt/ALPNSelection_unmarshal_ok")
		zzsymAssert(zzsymEqStr(gs.Protocol, names[0]), "rt/ALPNSelection_equal")
	}
	for k := 0; k < len(raw); k++ {
		t := &ALPNOffer{}
		zzsymAssert(t.UnmarshalData(raw[:k]) != nil, "truncation/ALPN_prefix")
	}
	zzsymCover("alpn_rt")
}

// use_srtp payloads (RFC 5764 §4.1.1: SRTPProtectionProfiles<2..2^16-1> of uint16, opaque
// srtp_mki<0..255>) on every byte string of length 0..NSRTP, both contexts (offer: ≥1 profile;
// selection: exactly one). Proved: accepted iff the profile vector length is even, non-zero, fits, and
// the MKI length byte equals the rest exactly; profiles and MKI are exactly the declared bytes;
// MarshalData gives the input back.
//
//symgo:entry covers=srtp_offer_accept,srtp_offer_two,srtp_sel_accept,srtp_sel_reject_two,srtp_reject,srtp_mki
func zzSRTPDecode() {
	n := zzsymChoice("len", zzsymParam("NSRTP")+1)
	data := zzsymBytes("d", n)
	sel := zzsymChoice("ctx", 2) == 1
	var err, merr error
	var profiles []SRTPProtectionProfile
	var mki, c []byte
	if sel {
		s := &SRTPSelection{}
		err = s.UnmarshalData(data)
		profiles, mki = []SRTPProtectionProfile{s.ProtectionProfile}, s.MasterKeyIdentifier
		if err == nil {
			c, merr = s.MarshalData()
		}
	} else {
		s := &SRTPOffer{}
		err = s.UnmarshalData(data)
		profiles, mki = s.ProtectionProfiles, s.MasterKeyIdentifier
		if err == nil {
			c, merr = s.MarshalData()
		}
	}
	ok := false
	pl := 0
	if n >= 3 {
		pl = int(data[0])<<8 | int(data[1])
		if pl != 0 && pl%2 == 0 && 2+pl < n {
			ok = int(data[2+pl]) == n-3-pl
		}
	}
	if !ok {
		zzsymAssert(err != nil, "truncation/UseSRTP")
		zzsymCover("srtp_reject")
		return
	}
	if sel && pl != 2 {
		zzsymAssert(err != nil, "ref_equal/SRTPSelection_needs_exactly_one")
		zzsymCover("srtp_sel_reject_two")
		return
	}
	zzsymAssert(err == nil, "ref_equal/UseSRTP_accepts_wellformed")
	zzsymAssert(len(profiles) == pl/2, "ref_equal/UseSRTP_count")
	for i := 0; i < pl/2; i++ {
		zzsymAssert(uint16(profiles[i]) == uint16(data[2+2*i])<<8|uint16(data[3+2*i]), "declared_len/UseSRTP_profile")
	}
	zzsymAssert(zzsymEqBytes(mki, data[3+pl:]), "declared_len/UseSRTP_mki")
	zzsymAssert(merr == nil, "fixpoint/UseSRTP_marshal_ok")
	zzsymAssert(zzsymEqBytes(c, data), "fixpoint/UseSRTP_canonical")
	if n-3-pl > 0 {
		zzsymCover("srtp_mki")
	}
	switch {
	case sel:
		zzsymCover("srtp_sel_accept")
	case pl == 4:
		zzsymCover("srtp_offer_two")
	default:
		zzsymCover("srtp_offer_accept")
	}
}

// use_srtp round trip from values: 0..2 profiles (any uint16), MKI of 0..NPV bytes: RFC layout,
// round trip equal, strict prefixes rejected, empty profile list refused by MarshalData.
//
//symgo:entry covers=srtp_rt,srtp_marshal_refused
func zzSRTPRoundTrip() {
	cnt := zzsymChoice("count", 3)
	v := SRTPOffer{MasterKeyIdentifier: zzsymBytes("mki", zzsymChoice("mkilen", zzsymParam("NPV")+1))}
	body := []byte{0, byte(2 * cnt)}
	for i := 0; i < cnt; i++ {
		p := zzsymU16("profile")
		v.ProtectionProfiles = append(v.ProtectionProfiles, SRTPProtectionProfile(p))
		body = append(body, byte(p>>8), byte(p))
	}
	body = append(body, byte(len(v.MasterKeyIdentifier)))
	body = append(body, v.MasterKeyIdentifier...)
	raw, err := v.MarshalData()
	if cnt == 0 {
		zzsymAssert(err != nil, "rt/UseSRTP_marshal_refuses_empty")
		zzsymCover("srtp_marshal_refused")
		return
	}
	zzsymAssert(err == nil, "rt/UseSRTP_marshal_ok")
	zzsymAssert(zzsymEqBytes(raw, body), "ref_equal/UseSRTP_encoding_layout")
	g := &SRTPOffer{}
	zzsymAssert(g.UnmarshalData(raw) == nil, "rt/UseSRTP_unmarshal_ok")
	zzsymAssert(len(g.ProtectionProfiles) == cnt, "rt/UseSRTP_count")
	for i := 0; i < cnt; i++ {
		zzsymAssert(g.ProtectionProfiles[i] == v.ProtectionProfiles[i], "rt/UseSRTP_profile")
	}
	zzsymAssert(zzsymEqBytes(g.MasterKeyIdentifier, v.MasterKeyIdentifier), "rt/UseSRTP_mki")
	if cnt == 1 {
		s := SRTPSelection{ProtectionProfile: v.ProtectionProfiles[0], MasterKeyIdentifier: v.MasterKeyIdentifier}
		sraw, serr := s.MarshalData()
		zzsymAssert(serr == nil, "rt/SRTPSelection_marshal_ok")
		zzsymAssert(zzsymEqBytes(sraw, raw), "ref_equal/SRTPSelection_encoding_layout")
		gs := &SRTPSelection{}
		zzsymAssert(gs.UnmarshalData(sraw) == nil, "rt/SRTPSelection_unmarshal_ok")
		zzsymAssert(zzsymAnd(gs.ProtectionProfile == s.ProtectionProfile, zzsymEqBytes(gs.MasterKeyIdentifier, s.MasterKeyIdentifier)), "rt/SRTPSelection_equal")
	}
	for k := 0; k < len(raw); k++ {
		t := &SRTPOffer{}
		zzsymAssert(t.UnmarshalData(raw[:k]) != nil, "truncation/UseSRTP_prefix")
	}
	zzsymCover("srtp_rt")
}

// supported_groups (RFC 8422 §5.1.1 NamedCurveList<2..2^16-1>), signature_algorithms and
// signature_algorithms_cert (RFC 8446 §4.2.3 SignatureScheme list<2..2^16-2>) on every byte string of
// length 0..NU16L. Proved for all three: accepted iff the uint16 length equals the rest, is even and
// non-zero (odd, truncated, trailing: rejected); the decoded list is exactly the declared 16-bit code
// points in order, unknown values kept; MarshalData gives the input back.
//
//symgo:entry covers=u16l_accept_one,u16l_accept_two,u16l_reject
func zzUint16ListDecode() {
	n := zzsymChoice("len", zzsymParam("NU16L")+1)
	data := zzsymBytes("d", n)
	kind := zzsymChoice("kind", 3)
	var err, merr error
	var vals []uint16
	var c []byte
	switch kind {
	case 0:
		s := &SupportedGroups{}
		err = s.UnmarshalData(data)
		for _, g := range s.Groups {
			vals = append(vals, uint16(g))
		}
		if err == nil {
			c, merr = s.MarshalData()
		}
	case 1:
		s := &SignatureAlgorithms{}
		err = s.UnmarshalData(data)
		vals = s.Schemes
		if err == nil {
			c, merr = s.MarshalData()
		}
	default:
		s := &CertificateSignatureAlgorithms{}
		err = s.UnmarshalData(data)
		vals = s.Schemes
		if err == nil {
			c, merr = s.MarshalData()
		}
	}
	ok := false
	if n >= 4 && n%2 == 0 {
		ok = int(data[0])<<8|int(data[1]) == n-2
	}
	if !ok {
		zzsymAssert(err != nil, "truncation/Uint16List")
		zzsymCover("u16l_reject")
		return
	}
	zzsymAssert(err == nil, "ref_equal/Uint16List_accepts_wellformed")
	zzsymAssert(len(vals) == (n-2)/2, "ref_equal/Uint16List_count")
	for i := range vals {
		zzsymAssert(vals[i] == uint16(data[2+2*i])<<8|uint16(data[3+2*i]), "declared_len/Uint16List_value")
	}
	zzsymAssert(merr == nil, "fixpoint/Uint16List_marshal_ok")
	zzsymAssert(zzsymEqBytes(c, data), "fixpoint/Uint16List_canonical")
	if len(vals) == 1 {
		zzsymCover("u16l_accept_one")
	} else if len(vals) == 2 {
		zzsymCover("u16l_accept_two")
	}
}

// supported_groups / signature_algorithms round trip from values: 0..3 arbitrary 16-bit values: RFC
// layout, round trip equal, strict prefixes rejected, the empty list refused by MarshalData.
//
//symgo:entry covers=u16l_rt,u16l_marshal_refused
func zzUint16ListRoundTrip() {
	cnt := zzsymChoice("count", 4)
	kind := zzsymChoice("kind", 2)
	vals := []uint16{}
	groups := []elliptic.Curve{}
	body := []byte{0, byte(2 * cnt)}
	for i := 0; i < cnt; i++ {
		x := zzsymU16("v")
		vals = append(vals, x)
		groups = append(groups, elliptic.Curve(x))
		body = append(body, byte(x>>8), byte(x))
	}
	var raw []byte
	var err error
	if kind == 0 {
		raw, err = SupportedGroups{Groups: groups}.MarshalData()
	} else {
		raw, err = SignatureAlgorithms{Schemes: vals}.MarshalData()
	}
	if cnt == 0 {
		zzsymAssert(err != nil, "rt/Uint16List_marshal_refuses_empty")
		zzsymCover("u16l_marshal_refused")
		return
	}
	zzsymAssert(err == nil, "rt/Uint16List_marshal_ok")
	zzsymAssert(zzsymEqBytes(raw, body), "ref_equal/Uint16List_encoding_layout")
	if kind == 0 {
		g := &SupportedGroups{}
		zzsymAssert(g.UnmarshalData(raw) == nil, "rt/Uint16List_unmarshal_ok")
		zzsymAssert(len(g.Groups) == cnt, "rt/Uint16List_count")
		for i := 0; i < cnt; i++ {
			zzsymAssert(g.Groups[i] == groups[i], "rt/Uint16List_value")
		}
	} else {
		g := &SignatureAlgorithms{}
		zzsymAssert(g.UnmarshalData(raw) == nil, "rt/Uint16List_unmarshal_ok")
		zzsymAssert(len(g.Schemes) == cnt, "rt/Uint16List_count")
		for i := 0; i < cnt; i++ {
			zzsymAssert(g.Schemes[i] == vals[i], "rt/Uint16List_value")
		}
	}
	for k := 0; k < len(raw); k++ {
		t := &SignatureAlgorithms{}
		zzsymAssert(t.UnmarshalData(raw[:k]) != nil, "truncation/Uint16List_prefix")
		t2 := &SupportedGroups{}
		zzsymAssert(t2.UnmarshalData(raw[:k]) != nil, "truncation/Uint16List_prefix")
	}
	zzsymCover("u16l_rt")
}

// server_name offer (RFC 6066 §3: ServerNameList<1..2^16-1> of {name_type(1), opaque HostName<1..2^16-1>})
// on every byte string of length 0..NSNI. Proved: accepted iff the list length equals the rest, every
// entry's declared length is non-zero and fits (truncation rejected), exactly one host_name(0) entry
// is present and it does not end in '.'; the decoded name is exactly that entry's declared bytes;
// the accepted value re-encodes to the canonical single-entry list, which decodes to the same name and
// re-encodes to itself.
//
//symgo:entry covers=sni_accept,sni_accept_with_other_type,sni_reject
func zzServerNameDecode() {
	n := zzsymChoice("len", zzsymParam("NSNI")+1)
	data := zzsymBytes("d", n)
	s := &ServerNameOffer{}
	err := s.UnmarshalData(data)
	ok := n >= 3
	if ok {
		ok = int(data[0])<<8|int(data[1]) == n-2
	}
	hostOff, hostLen, hosts, others := 0, 0, 0, 0
	off := 2
	for ok && off < n {
		if n-off < 3 {
			ok = false
			break
		}
		t := data[off]
		l := int(data[off+1])<<8 | int(data[off+2])
		off += 3
		if l == 0 || l > n-off {
			ok = false
			break
		}
		if t == 0 {
			hosts++
			hostOff, hostLen = off, l
			if hosts > 1 || data[off+l-1] == '.' {
				ok = false
				break
			}
		} else {
			others++
		}
		off += l
	}
	if ok && hosts != 1 {
		ok = false
	}
	if !ok {
		zzsymAssert(err != nil, "truncation/ServerName")
		zzsymCover("sni_reject")
		return
	}
	zzsymAssert(err == nil, "ref_equal/ServerName_accepts_wellformed")
	zzsymAssert(zzsymEqStr(s.ServerName, string(data[hostOff:hostOff+hostLen])), "declared_len/ServerName_host")
	c, merr := s.MarshalData()
	zzsymAssert(merr == nil, "fixpoint/ServerName_marshal_ok")
	want := append([]byte{0, byte(3 + hostLen), 0, 0, byte(hostLen)}, data[hostOff:hostOff+hostLen]...)
	zzsymAssert(zzsymEqBytes(c, want), "ref_equal/ServerName_encoding_layout")
	s2 := &ServerNameOffer{}
	zzsymAssert(s2.UnmarshalData(c) == nil, "fixpoint/ServerName_canonical_decodes")
	zzsymAssert(zzsymEqStr(s2.ServerName, s.ServerName), "fixpoint/ServerName_value_stable")
	c2, _ := s2.MarshalData()
	zzsymAssert(zzsymEqBytes(c2, c), "fixpoint/ServerName_canonical_stable")
	if others > 0 {
		zzsymCover("sni_accept_with_other_type")
	} else {
		zzsymCover("sni_accept")
	}
}

// ALPN encoder at the two-byte list-length boundary: 255 names of 255 bytes plus a last name of 252..255 bytes and,
// optionally, one more 1-byte name (encoded list of 65533..65538 bytes), and a single name of 255 / 256 bytes. Either
// the encoder refuses, or its output is a well-formed RFC 7301 list (declared length = bytes that follow, every
// name 1..255 bytes) that the decoder accepts and maps back to the same names.
//
//symgo:entry covers=alpn_big_refused,alpn_big_encoded
func zzALPNEncodeAtLengthBoundary() {
	var names []string
	mk := func(n int, c byte) string {
		b := make([]byte, n)
		for i := range b {
			b[i] = c
		}
		return string(b)
	}
	if zzsymChoice("single_long_name", 2) == 1 {
		names = []string{mk(255+zzsymChoice("extra", 2), 'x')}
	} else {
		for i := 0; i < 255; i++ {
			names = append(names, mk(255, 'a'))
		}
		names = append(names, mk(252+zzsymChoice("last_len", 4), 'b'))
		if zzsymChoice("one_more", 2) == 1 {
			names = append(names, "c")
		}
	}
	out, err := ALPNOffer{Protocols: names}.MarshalData()
	if err != nil {
		zzsymCover("alpn_big_refused")
		return
	}
	ok, offs, lens := zzALPNRef(out)
	zzsymAssert(ok, "alpn_encoder_output_is_well_formed")
	zzsymAssert(len(offs) == len(names), "alpn_encoder_keeps_every_name")
	for i := range offs {
		zzsymAssert(lens[i] == len(names[i]), "alpn_encoder_name_lengths")
	}
	back := &ALPNOffer{}
	zzsymAssert(back.UnmarshalData(out) == nil && len(back.Protocols) == len(names), "alpn_decoder_accepts_encoder_output")
	zzsymCover("alpn_big_encoded")
}
