package extension

//symgo:pkg github.com/pion/dtls/v3/pkg/protocol/extension
//symgo:param NXL quick=10 thorough=12
//symgo:param NXLV quick=2 thorough=3
//symgo:param NCIDX quick=5 thorough=9

// zzExtListRef is the reference framing of an extension block (RFC 5246 §7.4.1.4 / RFC 8446 §4.2):
// uint16 total length equal to the rest of the input, then entries extension_type(2)
// opaque extension_data<0..2^16-1>, filling the block exactly.
func zzExtListRef(data []byte) (ok bool, typs []uint16, offs, lens []int) {
	n := len(data)
	if n < 2 {
		return false, nil, nil, nil
	}
	if int(data[0])<<8|int(data[1]) != n-2 {
		return false, nil, nil, nil
	}
	off := 2
	for off < n {
		if n-off < 4 {
			return false, nil, nil, nil
		}
		t := uint16(data[off])<<8 | uint16(data[off+1])
		l := int(data[off+2])<<8 | int(data[off+3])
		off += 4
		if l > n-off {
			return false, nil, nil, nil
		}
		typs = append(typs, t)
		offs = append(offs, off)
		lens = append(lens, l)
		off += l
	}
	return true, typs, offs, lens
}

// Extension list framing (ParseList / MarshalRawList) on every byte string of length 0..NXL.
// Proved: accepted iff the outer uint16 length equals the remaining input and the entries' declared
// lengths partition it exactly (truncated header, truncated payload, wrong outer length: rejected);
// the parsed list has exactly the reference entries in order (duplicates and unknown types kept) with
// exactly their declared payload bytes; MarshalRawList gives the input back, so every accepted input
// is canonical and a fixed point.
//
//symgo:entry covers=xl_accept_empty,xl_accept_one,xl_accept_two,xl_reject
func zzExtListDecode() {
	n := zzsymChoice("len", zzsymParam("NXL")+1)
	data := zzsymBytes("d", n)
	raws, err := ParseList(data)
	ok, typs, offs, lens := zzExtListRef(data)
	if !ok {
		zzsymAssert(err != nil, "truncation/ExtList")
		zzsymCover("xl_reject")
		return
	}
	zzsymAssert(err == nil, "ref_equal/ExtList_accepts_wellformed")
	zzsymAssert(len(raws) == len(typs), "partition/ExtList_count")
	for i := range typs {
		zzsymAssert(uint16(raws[i].Type) == typs[i], "ref_equal/ExtList_type")
		zzsymAssert(zzsymEqBytes(raws[i].Data, data[offs[i]:offs[i]+lens[i]]), "declared_len/ExtList_payload")
	}
	c, merr := MarshalRawList(raws)
	zzsymAssert(merr == nil, "fixpoint/ExtList_marshal_ok")
	zzsymAssert(zzsymEqBytes(c, data), "fixpoint/ExtList_canonical")
	switch len(typs) {
	case 0:
		zzsymCover("xl_accept_empty")
	case 1:
		zzsymCover("xl_accept_one")
	case 2:
		zzsymCover("xl_accept_two")
	}
}

// Extension list round trip from values: 0..2 raw extensions of any type with 0..NXLV payload bytes
// (equal types allowed): MarshalList emits the RFC framing, ParseList returns the same list, every
// strict prefix of the encoding is rejected, and a nil entry is refused by MarshalList.
//
//symgo:entry covers=xl_rt,xl_nil_refused
func zzExtListRoundTrip() {
	cnt := zzsymChoice("count", 3)
	vals := []Value{}
	raws := []Raw{}
	body := []byte{}
	for i := 0; i < cnt; i++ {
		r := Raw{Type: Type(zzsymU16("type")), Data: zzsymBytes("data", zzsymChoice("dlen", zzsymParam("NXLV")+1))}
		raws = append(raws, r)
		vals = append(vals, r)
		body = append(body, byte(r.Type>>8), byte(r.Type), 0, byte(len(r.Data)))
		body = append(body, r.Data...)
	}
	if zzsymChoice("withnil", 2) == 1 {
		_, err := MarshalList(append(vals, nil))
		zzsymAssert(err != nil, "rt/ExtList_nil_refused")
		zzsymCover("xl_nil_refused")
		return
	}
	want := append([]byte{0, byte(len(body))}, body...)
	raw, err := MarshalList(vals)
	zzsymAssert(err == nil, "rt/ExtList_marshal_ok")
	zzsymAssert(zzsymEqBytes(raw, want), "ref_equal/ExtList_encoding_layout")
	got, perr := ParseList(raw)
	zzsymAssert(perr == nil, "rt/ExtList_parse_ok")
	zzsymAssert(len(got) == cnt, "rt/ExtList_count")
	for i := 0; i < cnt; i++ {
		zzsymAssert(zzsymAnd(got[i].Type == raws[i].Type, zzsymEqBytes(got[i].Data, raws[i].Data)), "rt/ExtList_entry")
	}
	for k := 0; k < len(raw); k++ {
		_, terr := ParseList(raw[:k])
		zzsymAssert(terr != nil, "truncation/ExtList_prefix")
	}
	zzsymCover("xl_rt")
}

// Raw extension payload codec: UnmarshalData stores a copy of exactly the given bytes, MarshalData
// returns a copy of them (lossless both ways) for every payload of 0..NXL bytes and every type.
//
//symgo:entry covers=raw_ok
func zzRawCodec() {
	data := zzsymBytes("d", zzsymChoice("len", zzsymParam("NXL")+1))
	r := Raw{Type: Type(zzsymU16("type"))}
	zzsymAssert(r.UnmarshalData(data) == nil, "ref_equal/Raw_accepts")
	zzsymAssert(zzsymEqBytes(r.Data, data), "rt/Raw_value")
	c, err := r.MarshalData()
	zzsymAssert(err == nil, "fixpoint/Raw_marshal_ok")
	zzsymAssert(zzsymEqBytes(c, data), "fixpoint/Raw_canonical")
	zzsymAssert(r.ExtensionType() == r.Type, "rt/Raw_type")
	zzsymCover("raw_ok")
}

// connection_id extension payload (RFC 9146 §3: opaque cid<0..2^8-1>) on every byte string of length
// 0..NCIDX: accepted iff the 1-byte declared length equals the remaining input exactly (empty,
// truncated and over-long input rejected); the CID is exactly the declared bytes; MarshalData gives
// the input back. From values: CID of 0..NCIDX bytes round-trips through the RFC layout and every
// strict prefix is rejected.
//
//symgo:entry covers=cidx_accept,cidx_reject,cidx_rt
func zzConnectionIDExtCodec() {
	n := zzsymChoice("len", zzsymParam("NCIDX")+1)
	if zzsymChoice("mode", 2) == 0 {
		data := zzsymBytes("d", n)
		c := &ConnectionID{}
		err := c.UnmarshalData(data)
		ok := false
		if n >= 1 {
			ok = int(data[0]) == n-1
		}
		if !ok {
			zzsymAssert(err != nil, "truncation/ConnectionIDExt")
			zzsymCover("cidx_reject")
			return
		}
		zzsymAssert(err == nil, "ref_equal/ConnectionIDExt_accepts_wellformed")
		zzsymAssert(zzsymEqBytes(c.CID, data[1:]), "declared_len/ConnectionIDExt_cid")
		out, merr := c.MarshalData()
		zzsymAssert(merr == nil, "fixpoint/ConnectionIDExt_marshal_ok")
		zzsymAssert(zzsymEqBytes(out, data), "fixpoint/ConnectionIDExt_canonical")
		zzsymCover("cidx_accept")
		return
	}
	v := ConnectionID{CID: zzsymBytes("cid", n)}
	raw, err := v.MarshalData()
	zzsymAssert(err == nil, "rt/ConnectionIDExt_marshal_ok")
	zzsymAssert(zzsymEqBytes(raw, append([]byte{byte(n)}, v.CID...)), "ref_equal/ConnectionIDExt_encoding_layout")
	g := &ConnectionID{}
	zzsymAssert(g.UnmarshalData(raw) == nil, "rt/ConnectionIDExt_unmarshal_ok")
	zzsymAssert(zzsymEqBytes(g.CID, v.CID), "rt/ConnectionIDExt_equal")
	for k := 0; k < len(raw); k++ {
		t := &ConnectionID{}
		zzsymAssert(t.UnmarshalData(raw[:k]) != nil, "truncation/ConnectionIDExt_prefix")
	}
	zzsymCover("cidx_rt")
}

// Empty-payload extensions (rrc per RFC 9853, server_name acknowledgement per RFC 6066 §3): accepted
// iff the payload is empty, encoded as the empty payload, for every byte string of length 0..3.
//
//symgo:entry covers=empty_accept,empty_reject
func zzEmptyPayloadExtCodec() {
	n := zzsymChoice("len", 4)
	data := zzsymBytes("d", n)
	var r ReturnRoutabilityCheck
	var s ServerNameAck
	e1 := r.UnmarshalData(data)
	e2 := s.UnmarshalData(data)
	o1, m1 := r.MarshalData()
	o2, m2 := s.MarshalData()
	zzsymAssert(m1 == nil && m2 == nil, "rt/EmptyExt_marshal_ok")
	zzsymAssert(len(o1) == 0 && len(o2) == 0, "ref_equal/EmptyExt_encoding_layout")
	if n == 0 {
		zzsymAssert(e1 == nil && e2 == nil, "rt/EmptyExt_accepts_empty")
		zzsymCover("empty_accept")
	} else {
		zzsymAssert(e1 != nil && e2 != nil, "declared_len/EmptyExt_rejects_payload")
		zzsymCover("empty_reject")
	}
}
