package handshake

//symgo:pkg github.com/pion/dtls/v3/pkg/protocol/handshake
//symgo:param NSKE quick=7 thorough=12
//symgo:param NSKES quick=1 thorough=3
//symgo:param NSKEP quick=5 thorough=8
//symgo:param NSKEEP quick=7 thorough=11
//symgo:param NSKET quick=6 thorough=10
//symgo:param NSKEV quick=2 thorough=4

import (
	"github.com/pion/dtls/v3/internal/ciphersuite/types"
	"github.com/pion/dtls/v3/pkg/crypto/elliptic"
	"github.com/pion/dtls/v3/pkg/crypto/hash"
	"github.com/pion/dtls/v3/pkg/crypto/signature"
)

// zzSigSchemeKnown is the set of 2-byte SignatureAndHashAlgorithm / SignatureScheme code points the
// library knows (written out from the IANA tables, independently of signaturehash.Algorithm.Unmarshal):
// the six RSA-PSS schemes 0x0804..0x0806, 0x0809..0x080b; otherwise hash byte in {1..6, 8} and
// signature byte in {0 anonymous, 1 rsa, 3 ecdsa, 7 ed25519}.
func zzSigSchemeKnown(hi, lo byte) bool {
	pss := zzsymAnd(hi == 8, zzsymOr(zzsymAnd(lo >= 4, lo <= 6), zzsymAnd(lo >= 9, lo <= 11)))
	h := zzsymOr(zzsymAnd(hi >= 1, hi <= 6), hi == 8)
	s := zzsymOr(zzsymOr(lo == 0, lo == 1), zzsymOr(lo == 3, lo == 7))
	return zzsymOr(pss, zzsymAnd(h, s))
}

// zzSKELayout is the result of the reference ServerKeyExchange decoder.
type zzSKELayout struct {
	ok                 bool
	hintTruncated      bool // PSK context and the declared hint length exceeds the input
	hasHint            bool
	hintOff, hintLen   int
	hasEC              bool
	curveHi, curveLo   byte
	pkOff, pkLen       int
	hasSig             bool
	schemeHi, schemeLo byte
	sigOff, sigLen     int
}

// zzSKERef decodes ServerKeyExchange by the RFC layouts:
//
//	PSK (RFC 4279 §2):       opaque psk_identity_hint<0..2^16-1>                        (nothing else)
//	ECDHE (RFC 8422 §5.4):   curve_type(1)=3 named_curve(2) opaque point<1..2^8-1>
//	                         [ SignatureAndHashAlgorithm(2) opaque signature<0..2^16-1> ]   (absent: anonymous)
//	ECDHE_PSK (RFC 5489 §2): psk_identity_hint followed by the ECDHE parameters
//
// "ok" means every declared length fits into data, the curve type / named curve / signature scheme are
// known code points, and (PSK only) nothing follows the hint. Trailing bytes after the signature are
// tolerated (pion ignores them; the property only requires that they are not consumed).
func zzSKERef(data []byte, kx types.KeyExchangeAlgorithm) (l zzSKELayout) {
	n := len(data)
	off := 0
	if n < 2 {
		return l
	}
	if kx.Has(types.KeyExchangeAlgorithmPsk) {
		l.hintLen = int(data[0])<<8 | int(data[1])
		if l.hintLen > n-2 {
			l.hintTruncated = true
			return l
		}
		l.hasHint = true
		l.hintOff = 2
		off = 2 + l.hintLen
	}
	if kx == types.KeyExchangeAlgorithmPsk {
		l.ok = off == n
		return l
	}
	// ECParameters + ECPoint
	if n-off < 4 {
		return l
	}
	if data[off] != 3 {
		return l
	}
	l.curveHi, l.curveLo = data[off+1], data[off+2]
	c := uint16(l.curveHi)<<8 | uint16(l.curveLo)
	if !zzsymOr(zzsymOr(c == 0x0017, c == 0x0018), zzsymOr(c == 0x001d, c == 0x11ec)) {
		return l
	}
	l.pkLen = int(data[off+3])
	l.pkOff = off + 4
	if l.pkLen > n-l.pkOff {
		return l
	}
	l.hasEC = true
	off = l.pkOff + l.pkLen
	if off == n {
		l.ok = true // anonymous: no signature block
		return l
	}
	if n-off < 4 {
		return l
	}
	l.schemeHi, l.schemeLo = data[off], data[off+1]
	if !zzSigSchemeKnown(l.schemeHi, l.schemeLo) {
		return l
	}
	l.sigLen = int(data[off+2])<<8 | int(data[off+3])
	l.sigOff = off + 4
	if l.sigLen > n-l.sigOff {
		return l
	}
	l.hasSig = true
	l.ok = true
	return l
}

// zzSKESchemeOf is the wire code point of a decoded (hash, signature) pair: RSA-PSS schemes carry the
// whole 16-bit code in the signature field, everything else is hash byte then signature byte.
func zzSKESchemeOf(h hash.Algorithm, s signature.Algorithm) uint16 {
	if s >= 0x0100 {
		return uint16(s)
	}
	return uint16(h)<<8 | uint16(s)
}

// zzSKEDegenerate says whether a decoded ServerKeyExchange is one of the three degenerate shapes whose
// re-encoding is examined separately in zzSKEFixpointDegenerate: empty public key, a signature block
// with an empty signature, or a signature block whose signature algorithm byte is 0 (anonymous).
func zzSKEDegenerate(l zzSKELayout) bool {
	if !l.hasEC {
		return false
	}
	if l.pkLen == 0 {
		return true
	}
	if l.hasSig {
		if l.sigLen == 0 {
			return true
		}
		if l.schemeLo == 0 { // no RSA-PSS code point ends in 00, so this is hash byte + anonymous(0)
			return true
		}
	}
	return false
}

// ServerKeyExchange decoder on every byte string of length 0..NSKEP in the PSK context and in the
// "none" context. Proved: without a key-exchange context everything is refused; in the PSK context
// (RFC 4279: the message is exactly opaque psk_identity_hint<0..2^16-1>) the input is accepted iff the
// declared hint length equals the remaining input (truncated input and trailing bytes are rejected),
// the hint is exactly the declared bytes, and the accepted input is its own canonical form.
//
//symgo:entry covers=ske_accept_psk,ske_reject,ske_reject_nokx
func zzSKEDecodePSK() {
	n := zzsymChoice("len", zzsymParam("NSKEP")+1)
	data := zzsymBytes("d", n)
	zzSKEDecodeBody(data, zzsymChoice("kx", 2))
}

// ServerKeyExchange decoder on every byte string of length 0..NSKE in the ECDHE context.
// Proved: the accept set equals the reference layout's (RFC 8422 §5.4; input truncated inside any
// declared length, unknown curve type / named curve / signature scheme are rejected); every decoded
// field (named curve, public key, hash/signature algorithm, signature) is exactly the bytes the RFC
// layout assigns to it — no field contains bytes beyond its declared length; and a non-degenerate
// accepted input re-encodes to a canonical form c with Unmarshal(c) equal to the value and
// Marshal(Unmarshal(c)) == c. Degenerate values have their own entry (zzSKEFixpointDegenerate).
//
// (In the quick tier NSKE is too short for a signed message with non-empty key and signature; that
// shape is covered by zzSKEDecodeECDHESigned.)
//
//symgo:entry covers=ske_accept_anon,ske_reject,ske_skip_degenerate
func zzSKEDecodeECDHE() {
	n := zzsymChoice("len", zzsymParam("NSKE")+1)
	data := zzsymBytes("d", n)
	zzSKEDecodeBody(data, 2)
}

// ServerKeyExchange decoder, ECDHE context, the slice of the input space that starts with curve type 3,
// curve x25519 and a 1-byte public key, followed by 4..4+NSKES arbitrary bytes (the signature block: every
// scheme code point, every declared signature length, truncated or with trailing bytes) — same claims
// as zzSKEDecodeECDHE. The restriction to this slice is a bound, not an assumption about pion.
//
//symgo:entry covers=ske_accept_signed,ske_reject,ske_skip_degenerate
func zzSKEDecodeECDHESigned() {
	n := 9 + zzsymChoice("len", zzsymParam("NSKES")+1)
	data := zzsymBytes("d", n)
	zzsymAssume(data[0] == 3)
	zzsymAssume(zzsymAnd(data[1] == 0x00, data[2] == 0x1d))
	zzsymAssume(data[3] == 1)
	zzSKEDecodeBody(data, 2)
}

// ServerKeyExchange decoder on every byte string of length 0..NSKEEP in the ECDHE_PSK context
// (RFC 5489 §2: hint, then ECDHE parameters): same claims as zzSKEDecodeECDHE plus "the hint is
// exactly the declared bytes". Input whose hint length exceeds the input has its own entry
// (zzSKETruncatedHint).
//
//symgo:entry covers=ske_accept_ecdhe_psk,ske_reject,ske_skip_hint,ske_skip_degenerate
func zzSKEDecodeECDHEPSK() {
	n := zzsymChoice("len", zzsymParam("NSKEEP")+1)
	data := zzsymBytes("d", n)
	zzSKEDecodeBody(data, 3)
}

func zzSKEDecodeBody(data []byte, kxi int) {
	kx := zzKx(kxi)
	m := &MessageServerKeyExchange{KeyExchangeAlgorithm: kx}
	err := m.Unmarshal(data)
	if kxi == 0 {
		zzsymAssert(err != nil, "ref_equal/SKE_no_kx_rejected")
		zzsymCover("ske_reject_nokx")
		return
	}
	l := zzSKERef(data, kx)
	if kxi == 3 && l.hintTruncated {
		zzsymCover("ske_skip_hint")
		return
	}
	if !l.ok {
		zzsymAssert(err != nil, "truncation/SKE")
		zzsymCover("ske_reject")
		return
	}
	zzsymAssert(err == nil, "ref_equal/SKE_accepts_wellformed")
	zzSKECheckFields(m, data, l)
	if zzSKEDegenerate(l) {
		zzsymCover("ske_skip_degenerate")
		return
	}
	zzSKECheckFixpoint(m, kx)
	switch {
	case kxi == 1:
		zzsymCover("ske_accept_psk")
	case kxi == 3:
		zzsymCover("ske_accept_ecdhe_psk")
	case l.hasSig:
		zzsymCover("ske_accept_signed")
	default:
		zzsymCover("ske_accept_anon")
	}
}

func zzSKECheckFields(m *MessageServerKeyExchange, data []byte, l zzSKELayout) {
	if l.hasHint {
		zzsymAssert(zzsymEqBytes(m.IdentityHint, data[l.hintOff:l.hintOff+l.hintLen]), "declared_len/SKE_hint")
	} else {
		zzsymAssert(m.IdentityHint == nil, "ref_equal/SKE_no_hint")
	}
	if !l.hasEC {
		zzsymAssert(len(m.PublicKey) == 0, "ref_equal/SKE_no_public_key")
		zzsymAssert(len(m.Signature) == 0, "ref_equal/SKE_no_signature")
		return
	}
	zzsymAssert(m.EllipticCurveType == elliptic.CurveTypeNamedCurve, "ref_equal/SKE_curve_type")
	zzsymAssert(uint16(m.NamedCurve) == uint16(l.curveHi)<<8|uint16(l.curveLo), "ref_equal/SKE_named_curve")
	zzsymAssert(zzsymEqBytes(m.PublicKey, data[l.pkOff:l.pkOff+l.pkLen]), "declared_len/SKE_public_key")
	if !l.hasSig {
		zzsymAssert(len(m.Signature) == 0, "ref_equal/SKE_anon_no_signature")
		zzsymAssert(zzsymAnd(m.HashAlgorithm == hash.None, m.SignatureAlgorithm == signature.Anonymous), "ref_equal/SKE_anon_no_alg")
		return
	}
	zzsymAssert(zzSKESchemeOf(m.HashAlgorithm, m.SignatureAlgorithm) == uint16(l.schemeHi)<<8|uint16(l.schemeLo), "ref_equal/SKE_sig_scheme")
	zzsymAssert(zzsymEqBytes(m.Signature, data[l.sigOff:l.sigOff+l.sigLen]), "declared_len/SKE_signature")
}

func zzSKECheckFixpoint(m *MessageServerKeyExchange, kx types.KeyExchangeAlgorithm) {
	c, merr := m.Marshal()
	zzsymAssert(merr == nil, "fixpoint/SKE_marshal_ok")
	m2 := &MessageServerKeyExchange{KeyExchangeAlgorithm: kx}
	zzsymAssert(m2.Unmarshal(c) == nil, "fixpoint/SKE_canonical_decodes")
	zzsymAssert(zzSKEEqual(m, m2), "fixpoint/SKE_value_stable")
	c2, merr2 := m2.Marshal()
	zzsymAssert(merr2 == nil, "fixpoint/SKE_marshal2_ok")
	zzsymAssert(zzsymEqBytes(c2, c), "fixpoint/SKE_canonical_stable")
}

func zzSKEEqual(a, b *MessageServerKeyExchange) bool {
	r := zzsymEqBytes(a.IdentityHint, b.IdentityHint)
	r = zzsymAnd(r, a.EllipticCurveType == b.EllipticCurveType)
	r = zzsymAnd(r, a.NamedCurve == b.NamedCurve)
	r = zzsymAnd(r, zzsymEqBytes(a.PublicKey, b.PublicKey))
	r = zzsymAnd(r, a.HashAlgorithm == b.HashAlgorithm)
	r = zzsymAnd(r, a.SignatureAlgorithm == b.SignatureAlgorithm)
	r = zzsymAnd(r, zzsymEqBytes(a.Signature, b.Signature))
	return r
}

// ServerKeyExchange in the ECDHE_PSK context, every byte string of length 2..NSKET whose leading
// 2-byte psk_identity_hint length exceeds the remaining input: such input is truncated inside a
// declared length and must be rejected (RFC 5489 §2: the hint always comes first).
//
//symgo:entry covers=ske_trunc_hint_rejected
func zzSKETruncatedHint() {
	n := 2 + zzsymChoice("len", zzsymParam("NSKET")-1)
	data := zzsymBytes("d", n)
	hintLen := int(data[0])<<8 | int(data[1])
	zzsymAssume(hintLen > n-2)
	m := &MessageServerKeyExchange{KeyExchangeAlgorithm: zzKx(3)}
	err := m.Unmarshal(data)
	if err != nil {
		zzsymCover("ske_trunc_hint_rejected")
	}
	zzsymAssert(err != nil, "truncation/SKE_ecdhe_psk_hint")
}

// ServerKeyExchange, ECDHE context, the three degenerate shapes the decoder accepts (all other bytes
// arbitrary): (0) 03 curve 00 — empty public key; (1) 03 curve 01 P scheme 00 00 — signature block with
// an empty signature; (2) 03 curve 01 P hash 00 00 01 S — signature algorithm byte 0 "anonymous" inside
// a signature block. The property demands that every accepted input re-encodes to a canonical form
// that decodes again to the same value.
//
//symgo:entry covers=ske_degenerate_pk,ske_degenerate_sig,ske_degenerate_alg
func zzSKEFixpointDegenerate() {
	shape := zzsymChoice("shape", 3)
	n := 4
	if shape == 1 {
		n = 9
	} else if shape == 2 {
		n = 10
	}
	data := zzsymBytes("d", n)
	zzsymAssume(data[0] == 3)
	switch shape {
	case 0:
		zzsymAssume(data[3] == 0)
	case 1:
		zzsymAssume(data[3] == 1)
		zzsymAssume(zzsymAnd(data[7] == 0, data[8] == 0))
	case 2:
		zzsymAssume(data[3] == 1)
		zzsymAssume(data[6] == 0)
		zzsymAssume(zzsymAnd(data[7] == 0, data[8] == 1))
	}
	kx := zzKx(2)
	m := &MessageServerKeyExchange{KeyExchangeAlgorithm: kx}
	if m.Unmarshal(data) != nil {
		return
	}
	l := zzSKERef(data, kx)
	zzsymAssert(l.ok, "truncation/SKE")
	zzsymAssert(zzSKEDegenerate(l), "harness/SKE_degenerate_shape")
	c, merr := m.Marshal()
	m2 := &MessageServerKeyExchange{KeyExchangeAlgorithm: kx}
	switch shape {
	case 0:
		zzsymCover("ske_degenerate_pk")
		zzsymAssert(merr == nil, "fixpoint/SKE_empty_public_key_marshal")
		zzsymAssert(m2.Unmarshal(c) == nil, "fixpoint/SKE_empty_public_key")
		zzsymAssert(zzSKEEqual(m, m2), "fixpoint/SKE_empty_public_key_value")
	case 1:
		zzsymCover("ske_degenerate_sig")
		zzsymAssert(merr == nil, "fixpoint/SKE_empty_signature")
		zzsymAssert(m2.Unmarshal(c) == nil, "fixpoint/SKE_empty_signature_decodes")
		zzsymAssert(zzSKEEqual(m, m2), "fixpoint/SKE_empty_signature_value")
	default:
		zzsymCover("ske_degenerate_alg")
		zzsymAssert(merr == nil, "fixpoint/SKE_anonymous_sigalg")
		zzsymAssert(m2.Unmarshal(c) == nil, "fixpoint/SKE_anonymous_sigalg_decodes")
		zzsymAssert(zzSKEEqual(m, m2), "fixpoint/SKE_anonymous_sigalg_value")
	}
}

// zzSKEAlg picks one representative of each class of signature scheme.
func zzSKEAlg(i int) (hash.Algorithm, signature.Algorithm) {
	switch i {
	case 0:
		return hash.SHA256, signature.ECDSA
	case 1:
		return hash.Ed25519, signature.Ed25519
	case 2:
		return hash.SHA384, signature.RSA_PSS_RSAE_SHA384
	}
	return hash.SHA1, signature.RSA
}

func zzSKECurve(i int) elliptic.Curve {
	switch i {
	case 0:
		return elliptic.X25519
	case 1:
		return elliptic.P256
	case 2:
		return elliptic.P384
	}
	return elliptic.X25519MLKEM768
}

// ServerKeyExchange round trip from values, every context: hint of 0..NSKEV bytes (PSK contexts), the
// four named curves, public key of 1..NSKEV+1 bytes, anonymous or signed with one scheme of each class
// and a signature of 1..NSKEV+1 bytes. Proved: Marshal emits exactly the RFC layout, Unmarshal of it
// gives the same value, and every strict prefix of the encoding is rejected except the one ending
// right after the public key, which by RFC 8422 is the complete anonymous form of the same message.
//
//symgo:entry covers=ske_rt_psk,ske_rt_anon,ske_rt_signed,ske_rt_ecdhe_psk
func zzSKERoundTrip() {
	kxi := 1 + zzsymChoice("kx", 3)
	kx := zzKx(kxi)
	nv := zzsymParam("NSKEV")
	v := &MessageServerKeyExchange{}
	want := []byte{}
	if kx.Has(types.KeyExchangeAlgorithmPsk) {
		v.IdentityHint = zzsymBytes("hint", zzsymChoice("hintlen", nv+1))
		want = append(want, byte(len(v.IdentityHint)>>8), byte(len(v.IdentityHint)))
		want = append(want, v.IdentityHint...)
	}
	anonEnd := -1
	signed := false
	if kx.Has(types.KeyExchangeAlgorithmEcdhe) {
		v.EllipticCurveType = elliptic.CurveTypeNamedCurve
		v.NamedCurve = zzSKECurve(zzsymChoice("curve", 4))
		v.PublicKey = zzsymBytes("pk", 1+zzsymChoice("pklen", nv+1))
		want = append(want, 3, byte(v.NamedCurve>>8), byte(v.NamedCurve), byte(len(v.PublicKey)))
		want = append(want, v.PublicKey...)
		anonEnd = len(want)
		if zzsymChoice("signed", 2) == 1 {
			signed = true
			v.HashAlgorithm, v.SignatureAlgorithm = zzSKEAlg(zzsymChoice("alg", 4))
			v.Signature = zzsymBytes("sig", 1+zzsymChoice("siglen", nv+1))
			sc := zzSKESchemeOf(v.HashAlgorithm, v.SignatureAlgorithm)
			want = append(want, byte(sc>>8), byte(sc), byte(len(v.Signature)>>8), byte(len(v.Signature)))
			want = append(want, v.Signature...)
		}
	}
	raw, err := v.Marshal()
	zzsymAssert(err == nil, "rt/SKE_marshal_ok")
	zzsymAssert(zzsymEqBytes(raw, want), "ref_equal/SKE_encoding_layout")
	g := &MessageServerKeyExchange{KeyExchangeAlgorithm: kx}
	zzsymAssert(g.Unmarshal(raw) == nil, "rt/SKE_unmarshal_ok")
	zzsymAssert(zzSKEEqual(g, v), "rt/SKE_equal")
	for k := 0; k < len(raw); k++ {
		if k == anonEnd {
			continue
		}
		t := &MessageServerKeyExchange{KeyExchangeAlgorithm: kx}
		zzsymAssert(t.Unmarshal(raw[:k]) != nil, "truncation/SKE_prefix")
	}
	switch {
	case kxi == 1:
		zzsymCover("ske_rt_psk")
	case kxi == 3:
		zzsymCover("ske_rt_ecdhe_psk")
	case signed:
		zzsymCover("ske_rt_signed")
	default:
		zzsymCover("ske_rt_anon")
	}
}
