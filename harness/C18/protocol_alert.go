package alert

//symgo:pkg github.com/pion/dtls/v3/pkg/protocol/alert

import "github.com/pion/dtls/v3/pkg/protocol"

// RFC 5246 section 7.2: struct { AlertLevel level; AlertDescription description; } Alert;  (2 bytes)

// Alert round trip: for every level and description byte Marshal gives exactly {level, description}
// and Unmarshal(Marshal(a)) == a; every strict prefix and the encoding plus one byte are rejected.
//
//symgo:entry covers=alert_rt
func zzAlertRoundTrip() {
	a := Alert{Level: Level(zzsymU8("level")), Description: Description(zzsymU8("desc"))}
	raw, err := a.Marshal()
	zzsymAssert(err == nil, "alert_marshal_ok")
	zzsymAssert(len(raw) == 2, "alert_marshal_len")
	zzsymAssert(zzsymAnd(raw[0] == byte(a.Level), raw[1] == byte(a.Description)), "alert_marshal_layout")
	var g Alert
	zzsymAssert(g.Unmarshal(raw) == nil, "alert_rt_accepts")
	zzsymAssert(zzsymAnd(g.Level == a.Level, g.Description == a.Description), "alert_rt")
	zzsymAssert(a.ContentType() == protocol.ContentTypeAlert, "alert_content_type")
	var t Alert
	zzsymAssert(t.Unmarshal(raw[:0]) != nil, "alert_truncated_rejected")
	zzsymAssert(t.Unmarshal(raw[:1]) != nil, "alert_truncated_rejected")
	zzsymAssert(t.Unmarshal(append(append([]byte{}, raw...), zzsymU8("extra"))) != nil, "alert_trailing_rejected")
	zzsymCover("alert_rt")
}

// Alert decoder on every byte string of length 0..5: accepted iff exactly 2 bytes (so truncated input
// and trailing bytes are rejected); decoded level/description are bytes 0/1; re-encoding gives the input.
//
//symgo:entry covers=alert_accepted,alert_rejected
func zzAlertDecodeRef() {
	ln := zzsymChoice("len", 6)
	data := zzsymBytes("d", ln)
	var a Alert
	err := a.Unmarshal(data)
	if ln != 2 {
		zzsymAssert(err != nil, "alert_wrong_len_rejected")
		zzsymCover("alert_rejected")
		return
	}
	zzsymAssert(err == nil, "alert_two_bytes_accepted")
	zzsymAssert(zzsymAnd(byte(a.Level) == data[0], byte(a.Description) == data[1]), "alert_ref_fields")
	raw, merr := a.Marshal()
	zzsymAssert(merr == nil, "alert_reencode_ok")
	zzsymAssert(zzsymEqBytes(raw, data), "alert_fixpoint")
	zzsymCover("alert_accepted")
}
