package recordlayer

//symgo:pkg github.com/pion/dtls/v3/pkg/protocol/recordlayer
//symgo:param NDG quick=29 thorough=44
//symgo:param NDGCID quick=2 thorough=3
//symgo:outside datagrams longer than the bound (so: at most two or three minimal records per datagram); the splitters are loops whose body is the same for every record, each iteration is covered from an arbitrary offset reached by the previous one

// zzWalk12 is the reference splitter for DTLS 1.2 datagrams written from RFC 6347 4.1 / RFC 9146 4:
// a record is a 13(+cid for type 25 when aware) byte header whose last two bytes declare the number of
// body bytes that follow. Returns status 0 = well formed (n records), 1 = truncated (a header or a body
// is cut short by the end of the datagram); emptyLast reports a well-formed datagram whose final record
// has a zero-length body.
func zzWalk12(buf []byte, aware bool, cidLen int) (status int, n int, emptyLast bool) {
	ln := len(buf)
	off := 0
	for off != ln {
		hs := 13
		if aware && buf[off] == 25 {
			hs += cidLen
		}
		rem := ln - off
		if rem < hs {
			return 1, n, false
		}
		declared := int(zzBE16(buf[off+hs-2:]))
		if rem < hs+declared {
			return 1, n, false
		}
		if rem == hs {
			emptyLast = true
		}
		off += hs + declared
		n++
	}
	return 0, n, emptyLast
}

// zzPartition12 checks, without the reference walker, that `out` exactly partitions buf into records
// that each have the length their own header declares.
func zzPartition12(buf []byte, out [][]byte, aware bool, cidLen int) {
	off := 0
	for _, rec := range out {
		zzsymAssert(len(rec) >= 13, "unpack_record_has_header")
		zzsymAssert(off+len(rec) <= len(buf), "unpack_records_within_datagram")
		zzsymAssert(zzsymEqBytes(rec, buf[off:off+len(rec)]), "unpack_records_are_consecutive_datagram_bytes")
		hs := 13
		if aware && rec[0] == 25 {
			hs += cidLen
		}
		zzsymAssert(len(rec) >= hs, "unpack_record_has_cid_header")
		zzsymAssert(len(rec) == hs+int(zzBE16(rec[hs-2:])), "unpack_record_has_declared_length")
		off += len(rec)
	}
	zzsymAssert(off == len(buf), "unpack_records_cover_datagram")
}

// UnpackDatagram partition property on every datagram of 0..NDG arbitrary bytes: when it succeeds the
// returned records are consecutive slices that concatenate to exactly the datagram and each is 13 +
// its declared length long; a datagram in which a header or a declared body is cut short is rejected;
// a rejection has a reason: truncation, or (implementation strictness, not required by the property) a
// final record with an empty body. The number of records equals the reference walker's.
//
//symgo:entry covers=dg_empty,dg_one,dg_two,dg_truncated
func zzUnpackDatagramPartition() {
	ln := zzsymChoice("len", zzsymParam("NDG")+1)
	buf := zzsymBytes("d", ln)
	out, err := UnpackDatagram(buf)
	status, n, emptyLast := zzWalk12(buf, false, 0)
	if status == 1 {
		zzsymAssert(err != nil, "unpack_truncated_rejected")
		zzsymCover("dg_truncated")
		return
	}
	if err != nil {
		zzsymAssert(emptyLast, "unpack_rejects_only_truncated_or_empty_last_record")
		return
	}
	zzPartition12(buf, out, false, 0)
	zzsymAssert(len(out) == n, "unpack_record_count")
	switch n {
	case 0:
		zzsymCover("dg_empty")
	case 1:
		zzsymCover("dg_one")
	case 2:
		zzsymCover("dg_two")
	}
}

// ContentAwareUnpackDatagram partition property on every datagram of 0..NDG bytes and negotiated CID
// length 0..NDGCID: as zzUnpackDatagramPartition, with tls12_cid (type 25) records carrying the CID
// between sequence number and length (RFC 9146 section 4), so their header is 13+cid bytes.
//
//symgo:entry covers=cdg_empty,cdg_one_plain,cdg_one_cid,cdg_two,cdg_truncated
func zzContentAwareUnpackPartition() {
	cidLen := zzsymChoice("cidlen", zzsymParam("NDGCID")+1)
	ln := zzsymChoice("len", zzsymParam("NDG")+1)
	buf := zzsymBytes("d", ln)
	out, err := ContentAwareUnpackDatagram(buf, cidLen)
	status, n, emptyLast := zzWalk12(buf, true, cidLen)
	if status == 1 {
		zzsymAssert(err != nil, "cunpack_truncated_rejected")
		zzsymCover("cdg_truncated")
		return
	}
	if err != nil {
		zzsymAssert(emptyLast, "cunpack_rejects_only_truncated_or_empty_last_record")
		return
	}
	zzPartition12(buf, out, true, cidLen)
	zzsymAssert(len(out) == n, "cunpack_record_count")
	switch n {
	case 0:
		zzsymCover("cdg_empty")
	case 1:
		if zzsymAnd(buf[0] == 25, cidLen > 0) {
			zzsymCover("cdg_one_cid")
		} else {
			zzsymCover("cdg_one_plain")
		}
	case 2:
		zzsymCover("cdg_two")
	}
}
