package dtlshandshake

//symgo:pkg github.com/pion/dtls/v3/internal/handshake

import dtlsconfig "github.com/pion/dtls/v3/internal/config"

// ZZC03VerifyServerIdentity exposes the DTLS 1.3 client's verifyServerIdentity (run by processCertificateVerify on
// the server's flight) to the C03 harness in package dtls.
func ZZC03VerifyServerIdentity(cfg *dtlsconfig.HandshakeConfig, certs [][]byte) error {
	f := protectedHandshakeFlight{cfg: cfg, peerCertificates: certs}

	return f.verifyPeerIdentity(false) // the peer is the server: this is the path processCertificateVerify takes on a client
}
