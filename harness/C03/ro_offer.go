package flight12

// GENERATED from harness/C14/offer.go (plus zzRaw / zzClientKey / zzHS from resume.go and store.go) (identifiers renamed zz -> zzRo; only zzClientResumeDecision is kept as an entry).
// C03: a resumed connection is authenticated by the stored master secret alone (no Certificate, no signature, no PSK
// exchange), so "no established session without the required credential" needs the client to key an abbreviated
// handshake from exactly the secret its store returned for the offered id - also after one or two cookie rounds.
// A client that empties the secret on a repeated HelloVerifyRequest accepts a Finished anyone can compute (seed C03k-1).

//symgo:pkg github.com/pion/dtls/v3/internal/flight/flight12
//symgo:param OID quick=2 thorough=3
//symgo:param OSEC quick=2 thorough=3
//symgo:stub the cipher suite is a harness fake recording Init; the session store is an abstract list of (key, id, secret) entries that logs its calls; crypto/rand.Reader returns constant bytes (randoms are not part of these two claims)
//symgo:outside the Finished check that follows the resumption decision (resume_client_fin), the rest of the full handshake after the fallback

import (
	"crypto/rand"

	dtlsflight "github.com/pion/dtls/v3/internal/flight"
	"github.com/pion/dtls/v3/pkg/protocol"
	"github.com/pion/dtls/v3/pkg/protocol/alert"
	"github.com/pion/dtls/v3/pkg/protocol/handshake"
)

type zzRoConstReader struct{}

func (zzRoConstReader) Read(p []byte) (int, error) {
	for i := range p {
		p[i] = 0x5a
	}

	return len(p), nil
}

// The client's offer: flight1Generate for {no store, empty store, store holding a session (id of 1..OID
// arbitrary bytes, secret of 0..OSEC arbitrary bytes) under the connection's session key, store holding a
// session only under ANOTHER key, failing store}. Proved: the ClientHello carries a session id if and only
// if the store returned a session for exactly the connection's session key ("<remote address>_<server name>"),
// the id is the stored one and the connection's master secret is preset to the stored secret; in every other
// non-failing case the session id is empty and no master secret is set (nothing can be resumed); the store
// is asked once, with the session key, and never written; a failing store aborts with a fatal
// internal_error alert and no ClientHello. Consequence used by fatal_drops_session: once the entry under the
// session key is deleted, the session is not offered any more.
//
func zzRoClientOffer() {
	rand.Reader = zzRoConstReader{}
	client := zzRoNewPeer(true)
	client.conn = zzRoConn{key: zzRoClientKey}
	store := &zzRoStore{}
	mode := zzsymChoice("store", 5) // 0 none, 1 empty, 2 this key, 3 other key, 4 Get fails
	if mode != 0 {
		store.attach(client.cfg)
	}
	var id, secret []byte
	if mode == 2 || mode == 3 {
		id = zzsymBytes("stored_id", 1+zzsymChoice("idlen", zzsymParam("OID")))
		secret = zzsymBytes("stored_secret", zzsymChoice("seclen", zzsymParam("OSEC")+1))
		key := zzRoClientKey
		if mode == 3 {
			key = []byte("10.0.0.1:4444_other")
		}
		store.put(key, id, secret)
	}
	store.failGet = mode == 4

	gen, _, _ := GetGenerator(Flight1)
	pkts, a, err := gen(client.conn, client.state, client.cache, client.cfg)

	zzsymAssert(len(store.setKeys) == 0 && len(store.dels) == 0, "offer_never_writes_store")
	if mode == 0 {
		zzsymAssert(len(store.gets) == 0, "no_store_no_lookup")
	} else {
		zzsymAssert(len(store.gets) == 1 && zzsymEqBytes(store.gets[0], zzRoClientKey), "store_asked_once_with_session_key")
	}
	if mode == 4 {
		a = zzRoAlertOf(a, err)
		zzsymAssert(len(pkts) == 0 && err != nil, "store_error_no_client_hello")
		zzsymAssert(a != nil && a.Level == alert.Fatal && a.Description == alert.InternalError, "store_error_fatal_alert")
		zzsymCover("store_error")

		return
	}
	zzsymAssert(a == nil && err == nil && len(pkts) == 1, "client_hello_generated")
	h, _ := pkts[0].Record.Content.(*handshake.Handshake)
	ch, _ := h.Message.(*handshake.MessageClientHello)
	zzsymAssert(ch != nil, "flight1_is_client_hello")
	if mode == 2 {
		zzsymAssert(zzsymEqBytes(ch.SessionID, id), "offered_id_is_stored_id")
		zzsymAssert(zzsymEqBytes(client.state.MasterSecret, secret), "master_secret_preset_to_stored_secret")
		if len(secret) == 0 {
			zzsymCover("offered_empty_secret")
		}
		zzsymCover("offered")

		return
	}
	zzsymAssert(len(ch.SessionID) == 0, "nothing_offered_without_stored_session")
	zzsymAssert(len(client.state.MasterSecret) == 0, "no_master_secret_without_stored_session")
	switch mode {
	case 0:
		zzsymCover("no_store")
	case 1:
		zzsymCover("empty_store")
	default:
		zzsymCover("other_key")
	}
}

// The client's resumption decision: real flight1Generate (offering a stored session: id of 1..OID arbitrary
// bytes, secret of 1..OSEC arbitrary bytes; or offering nothing) followed by flight1Parse/flight3Parse on a
// ServerHello (built with the real encoder: version 1.2, the offered cipher suite, no extensions) whose
// session id is ARBITRARY: 0..OID arbitrary bytes. The parser runs once for the datagram with the ServerHello,
// once more for a datagram that brings nothing new (it is run for every datagram), and once more when the
// ServerHelloDone of a full (PSK) server flight has arrived. Proved: the client takes the abbreviated path
// (record keys initialised from the stored secret, then waits for the server's Finished) if and only if the
// ServerHello's session id is non-empty and byte-for-byte the id the client offered - on the first run and
// on every repeated run; for any other ServerHello it initialises no keys at any point, and once the full
// server flight is complete it goes on with Flight5 with the stored secret dropped (empty master secret) and the
// server's new session id adopted - so a server that does not know (or does not want) the session can never
// make the client key the connection from the stored secret.
//
//symgo:entry covers=abbreviated,full_other_id,full_empty_id,full_nothing_offered,full_other_length,after_cookie_round
func zzRoClientResumeDecision() {
	rand.Reader = zzRoConstReader{}
	client := zzRoNewPeer(true)
	client.conn = zzRoConn{key: zzRoClientKey}
	store := &zzRoStore{}
	store.attach(client.cfg)
	offered := zzsymChoice("client_has_session", 2) == 1
	var id, secret []byte
	if offered {
		id = zzsymBytes("stored_id", 1+zzsymChoice("idlen", zzsymParam("OID")))
		secret = zzsymBytes("stored_secret", 1+zzsymChoice("seclen", zzsymParam("OSEC")))
		store.put(zzRoClientKey, id, secret)
	}
	server := zzRoNewPeer(false) // only a cache to receive the ClientHello
	if _, a, err := zzRoSend(client, server, Flight1, nil); a != nil || err != nil {
		zzsymFail("client_hello_failed")
	}

	// 0, 1 or 2 cookie rounds first (a peer may answer the retried ClientHello with ANOTHER HelloVerifyRequest):
	// each HelloVerifyRequest (arbitrary 3-byte cookie) makes the client send its ClientHello again, and must leave
	// the offered session - id and secret - exactly as loaded from the store (seed C03k-1: an "abandoned attempt"
	// clean-up that empties the master secret lets any peer that echoes the id complete the abbreviated handshake
	// from an EMPTY secret, i.e. without knowing anything)
	rounds := zzsymChoice("hello_verify_rounds", 3)
	cur := Flight1
	for r := 0; r < rounds; r++ {
		hvr := &handshake.Handshake{Message: &handshake.MessageHelloVerifyRequest{
			Version: protocol.Version1_2, Cookie: zzsymBytes("cookie", 3),
		}}
		hvr.Header.MessageSequence = uint16(r)
		client.cache.Push(zzRoRaw(hvr), 0, uint16(r), handshake.TypeHelloVerifyRequest, false)
		next, a, err := zzRoRecv(client, cur)
		zzsymAssert(next == Flight3 && a == nil && err == nil, "hello_verify_request_restarts_with_flight3")
		cur = Flight3
		if _, a, err := zzRoSend(client, server, Flight3, nil); a != nil || err != nil {
			zzsymFail("client_hello_retry_failed")
		}
		if offered {
			zzsymAssert(zzsymEqBytes(client.state.SessionID, id), "cookie_round_keeps_offered_session_id")
			zzsymAssert(zzsymEqBytes(client.state.MasterSecret, secret), "cookie_round_keeps_stored_secret")
		}
		zzsymCover("after_cookie_round")
	}

	shID := zzsymBytes("server_hello_session_id", zzsymChoice("shidlen", zzsymParam("OID")+1))
	suiteID := uint16(0xff01)
	sh := &handshake.Handshake{Message: &handshake.MessageServerHello{
		Version:           protocol.Version1_2,
		SessionID:         shID,
		CipherSuiteID:     &suiteID,
		CompressionMethod: dtlsflight.DefaultCompressionMethods()[0],
	}}
	sh.Header.MessageSequence = uint16(rounds)
	client.cache.Push(zzRoRaw(sh), 0, uint16(rounds), handshake.TypeServerHello, false)

	next, a, err := zzRoRecv(client, cur)
	// neither path can finish here: the server's Finished / ServerHelloDone have not arrived
	zzsymAssert(next == 0 && a == nil && err == nil, "client_waits_for_rest_of_server_flight")

	echo := zzsymAnd(len(shID) > 0, zzsymEqBytes(shID, id))
	if client.suite.inits > 0 {
		zzsymAssert(echo, "abbreviated_only_if_server_echoes_offered_id")
		zzsymAssert(client.suite.inits == 1 && zzsymEqBytes(client.suite.ms, secret), "abbreviated_keys_from_stored_secret")
		zzsymAssert(zzsymEqBytes(client.state.MasterSecret, secret), "abbreviated_keeps_stored_secret")
		zzsymAssert(len(store.dels) == 0 && len(store.setKeys) == 0, "abbreviated_leaves_store")
		zzsymCover("abbreviated")

		return
	}
	zzsymAssert(zzsymNot(echo), "echoed_id_takes_abbreviated_path")

	// a second datagram with nothing new: the decision must not change
	next, a, err = zzRoRecv(client, cur)
	zzsymAssert(next == 0 && a == nil && err == nil, "client_still_waits")
	zzsymAssert(client.suite.inits == 0, "repeated_parse_initialises_no_keys")

	// the rest of a full PSK server flight: ServerHelloDone
	client.cache.Push(zzRoHS(uint16(rounds+1), &handshake.MessageServerHelloDone{}), 0, uint16(rounds+1), handshake.TypeServerHelloDone, false)
	next, a, err = zzRoRecv(client, cur)
	zzsymAssert(next == Flight5 && a == nil && err == nil, "client_continues_full_handshake")
	zzsymAssert(client.suite.inits == 0, "full_handshake_no_keys_from_store")
	zzsymAssert(len(client.state.MasterSecret) == 0, "full_handshake_drops_stored_secret")
	zzsymAssert(zzsymEqBytes(client.state.SessionID, shID), "full_handshake_adopts_server_session_id")
	zzsymAssert(len(store.setKeys) == 0, "nothing_stored_before_finished")
	switch {
	case !offered:
		zzsymCover("full_nothing_offered")
	case len(shID) == 0:
		zzsymCover("full_empty_id")
	case len(shID) != len(id):
		zzsymCover("full_other_length")
	default:
		zzsymCover("full_other_id")
	}
}

func zzRoRaw(h *handshake.Handshake) []byte {
	raw, err := h.Marshal()
	if err != nil {
		zzsymFail("harness_marshal_failed")
	}

	return raw
}

var zzRoClientKey = []byte("10.0.0.1:4444_srv")

func zzRoHS(seq uint16, m handshake.Message) []byte {
	h := &handshake.Handshake{Message: m}
	h.Header.MessageSequence = seq

	return zzRoRaw(h)
}

