package dtlshandshake

//symgo:pkg github.com/pion/dtls/v3/internal/handshake
//symgo:outside what the flight parsers verify once the client's final flight has arrived (hs13_auth.go); timers (C17)

import (
	"time"

	dtlsconfig "github.com/pion/dtls/v3/internal/config"
	dtlsflight "github.com/pion/dtls/v3/internal/flight"
	dtlsflight13 "github.com/pion/dtls/v3/internal/flight/flight13"
	dtlsstate "github.com/pion/dtls/v3/internal/state"
	"github.com/pion/dtls/v3/pkg/protocol"
	"github.com/pion/dtls/v3/pkg/protocol/handshake"
	"github.com/pion/dtls/v3/pkg/protocol/recordlayer"
)

// An ACK - which any anonymous peer that got as far as the handshake keys can send - never makes a DTLS 1.3 endpoint
// report the handshake finished while it still waits for the peer's authentication messages: fsm13.transitionAfterACK
// for every flight 0..5, an ACK result with or without progress, empty or not, 0..1 fragments still unacknowledged,
// peer retransmission or not, retransmit flag on or off. FINISHED is entered only from the client's final flight 5
// (which the client sends AFTER verifying the server's Certificate / CertificateVerify / Finished) with everything
// acknowledged; in particular a server in flight 4, whose records were all acknowledged, keeps waiting for the
// client's Certificate / CertificateVerify / Finished (flight4Parse is where those are checked).
//
//symgo:entry covers=ack_finishes_client_final_flight,ack_keeps_server_waiting
func zzAckNeverFinishesBeforePeerAuthentication13() {
	f := []dtlsflight13.Flight{
		dtlsflight13.Flight0, dtlsflight13.Flight1, dtlsflight13.Flight2,
		dtlsflight13.Flight3, dtlsflight13.Flight4, dtlsflight13.Flight5,
	}[zzsymChoice("flight", 6)]
	isClient := f == dtlsflight13.Flight1 || f == dtlsflight13.Flight3 || f == dtlsflight13.Flight5
	mk := func() *dtlsflight.Packet {
		return &dtlsflight.Packet{Record: &recordlayer.RecordLayer{
			Header:  recordlayer.Header{Version: protocol.Version1_2},
			Content: &handshake.Handshake{Message: &handshake.MessageFinished{VerifyData: []byte{1}}},
		}}
	}
	flights := []*dtlsflight.Packet{mk(), mk()}
	flag := zzsymChoice("retransmitFlag", 2) == 1
	cfg := &dtlsconfig.HandshakeConfig{InitialRetransmitInterval: time.Second, Log: zzA13Log{}}
	st := dtlsstate.NewState13(isClient)
	hc := handshakeContext{state: &st, cache: dtlsflight.NewCache(), cfg: cfg, transcript: NewTranscript()}
	fsm := &fsm13{
		currentFlight: f, flights: flights, retransmit: flag, retransmitInterval: time.Second,
		handshakeContext: hc, closed: make(chan struct{}), establishment: NewEstablishment(),
		postHandshake: newPostHandshake(hc),
	}
	fsm.prepareFlightACKTracking(flights, flag)
	pending := zzsymChoice("pending", 2)
	if pending == 1 {
		fsm.flightACK.pending[SentHandshakeFragment{MessageSequence: 1, Length: 1}] = struct{}{}
	}
	res := ACKResult{Empty: zzsymChoice("emptyACK", 2) == 1}
	progress := zzsymChoice("progress", 2) == 1
	if progress {
		res.Messages = []MessageACKProgress{{MessageSequence: 0, Changed: true, Complete: true}}
	}
	tr := fsm.transitionAfterACK(res, zzsymChoice("peerRetransmit", 2) == 1)
	if tr.state == StateFinished {
		zzsymAssert(f == dtlsflight13.Flight5, "ack_finishes_only_the_clients_final_flight")
		zzsymAssert(pending == 0 && progress, "ack_finishes_only_when_everything_is_acknowledged")
		zzsymCover("ack_finishes_client_final_flight")
	}
	if f == dtlsflight13.Flight4 && pending == 0 && progress {
		zzsymAssert(tr.state != StateFinished, "acknowledged_server_flight_still_waits_for_client_authentication")
		zzsymCover("ack_keeps_server_waiting")
	}
}
