package flight12

//symgo:pkg github.com/pion/dtls/v3/internal/flight/flight12
//symgo:param SRVCERTS quick=3 thorough=4
//symgo:param SRVEMS quick=1 thorough=2
//symgo:param SRVFIN quick=4 thorough=5
//symgo:replace github.com/pion/dtls/v3/internal/handshakecrypto.VerifyCertificateVerify zzSrvVerifyCV
//symgo:replace github.com/pion/dtls/v3/internal/handshakecrypto.VerifyClientCert zzSrvVerifyClientCert
//symgo:replace github.com/pion/dtls/v3/pkg/crypto/prf.PreMasterSecret zzSrvECDH
//symgo:replace github.com/pion/dtls/v3/pkg/crypto/prf.MasterSecret zzSrvMasterSecret
//symgo:replace github.com/pion/dtls/v3/pkg/crypto/prf.ExtendedMasterSecret zzSrvExtMasterSecret
//symgo:replace github.com/pion/dtls/v3/pkg/crypto/prf.VerifyDataClient zzSrvVerifyDataClient
//symgo:stub prf.VerifyDataClient (used by flight4Parse since the fix of finding F5 to check the client's Finished) is an uninterpreted function of (master secret, transcript) that records the master secret it is keyed with
//symgo:stub handshakecrypto.VerifyCertificateVerify (X.509 leaf parsing + signature verification, Go std) and handshakecrypto.VerifyClientCert (x509 chain building against the ClientCAs pool) are recorders that return an ARBITRARY verdict chosen by the solver; what they are asked to verify (message bytes, certificate list, pool) is recorded and asserted on. zzHcVerifySignature / zzHcVerifyChain (crypto_wrappers.go) check the wrappers themselves down to the std calls
//symgo:stub prf.PreMasterSecret (ECDH) is an uninterpreted function of (peer public key, own private key, curve); prf.MasterSecret / prf.ExtendedMasterSecret record the pre-master secret they receive and return a marker value; the cipher suite is a harness fake whose Init records the master secret and the authentication facts established so far
//symgo:stub LocalPSKCallback, VerifyPeerCertificate and VerifyConnection are harness callbacks with arbitrary verdicts that record their arguments
//symgo:assume messages reach flight4Parse through the handshake cache as complete, unfragmented messages whose 12-byte header agrees with the cache metadata (what Conn stores after reassembly); a cache item at epoch 1 is a message that was decrypted with the keys installed by CipherSuite.Init (record protection is C05)
//symgo:outside a live rogue peer; which messages the client's Finished verify_data covers (C04, finding F5); ClientAuth values outside the five defined policies (WithClientAuth refuses them) are only checked for the policy-independent part

import (
	"context"
	"crypto/x509"
	"errors"
	"hash"

	"github.com/pion/dtls/v3/internal/ciphersuite"
	dtlsconfig "github.com/pion/dtls/v3/internal/config"
	dtlsflight "github.com/pion/dtls/v3/internal/flight"
	dtlsstate "github.com/pion/dtls/v3/internal/state"
	"github.com/pion/dtls/v3/pkg/crypto/clientcertificate"
	"github.com/pion/dtls/v3/pkg/crypto/elliptic"
	dtlshash "github.com/pion/dtls/v3/pkg/crypto/hash"
	"github.com/pion/dtls/v3/pkg/crypto/prf"
	"github.com/pion/dtls/v3/pkg/crypto/signature"
	"github.com/pion/dtls/v3/pkg/crypto/signaturehash"
	"github.com/pion/dtls/v3/pkg/protocol"
	"github.com/pion/dtls/v3/pkg/protocol/handshake"
	"github.com/pion/dtls/v3/pkg/protocol/recordlayer"
)

// ---------------------------------------------------------------------------------------------
// recorder shared by the stubs of this file (reset at the start of every entry)

type zzSrvRec struct {
	// CertificateVerify
	cvCalls              int
	cvOK                 bool
	cvMsg, cvSig         []byte
	cvHash               dtlshash.Algorithm
	cvAlg                signature.Algorithm
	cvCerts              [][]byte
	// chain verification
	chainCalls           int
	chainOK              bool
	chainCerts           [][]byte
	chainRoots           *x509.CertPool
	// VerifyPeerCertificate callback
	vpcCalls             int
	vpcOK                bool
	vpcCerts             [][]byte
	vpcGotChain          bool
	// VerifyConnection callback
	vconnCalls           int
	vconnOK              bool
	// PSK callback
	pskCalls             int
	pskOK                bool
	pskHint, psk         []byte
	// key derivation
	preMaster            []byte
	msCalls              int
	// Init
	initCalls            int
	initMaster           []byte
	initAfterCV          bool // at Init time: the last CertificateVerify verdict was OK
	initAfterChain       bool // at Init time: the last chain verdict was OK
	initAfterVPC         bool
	initCVCalls          int
	initChainCalls       int
	initVPCCalls         int
	queuedCalls          int
	queuedBeforeInit     bool
	// client Finished check (present since the F5 fix)
	vdcCalls             int
	vdcMaster, vdcWant   []byte
}

var zzSrv zzSrvRec

var zzSrvErr = errors.New("zz: verification failed")

var zzSrvLeaf = new(x509.Certificate)

var zzSrvMasterMarker = []byte{0xa5, 0x5a, 0x77}

func zzSrvVerifyCV(msg []byte, h dtlshash.Algorithm, s signature.Algorithm, sig []byte, certs [][]byte) error {
	zzSrv.cvCalls++
	zzSrv.cvMsg, zzSrv.cvHash, zzSrv.cvAlg, zzSrv.cvSig, zzSrv.cvCerts = msg, h, s, sig, certs
	zzSrv.cvOK = zzsymBool("cv_ok")
	if !zzSrv.cvOK {
		return zzSrvErr
	}

	return nil
}

func zzSrvVerifyClientCert(certs [][]byte, roots *x509.CertPool, _ []signaturehash.Algorithm) ([][]*x509.Certificate, error) {
	zzSrv.chainCalls++
	zzSrv.chainCerts, zzSrv.chainRoots = certs, roots
	zzSrv.chainOK = zzsymBool("chain_ok")
	if !zzSrv.chainOK {
		return nil, zzSrvErr
	}

	return [][]*x509.Certificate{{zzSrvLeaf}}, nil
}

func zzSrvCurveBytes(c elliptic.Curve) []byte { return []byte{byte(c >> 8), byte(c)} }

func zzSrvECDH(pub, priv []byte, c elliptic.Curve) ([]byte, error) {
	return zzsymUF("ECDH", 4, pub, priv, zzSrvCurveBytes(c)), nil
}

func zzSrvMasterSecret(pre, _, _ []byte, _ prf.HashFunc) ([]byte, error) {
	zzSrv.msCalls++
	zzSrv.preMaster = pre

	return zzSrvMasterMarker, nil
}

func zzSrvVerifyDataClient(master, transcript []byte, _ prf.HashFunc) ([]byte, error) {
	zzSrv.vdcCalls++
	zzSrv.vdcMaster = master
	zzSrv.vdcWant = zzsymUF("VerifyDataClient", 12, master, transcript)

	return zzSrv.vdcWant, nil
}

func zzSrvExtMasterSecret(pre, _ []byte, _ prf.HashFunc) ([]byte, error) {
	zzSrv.msCalls++
	zzSrv.preMaster = pre

	return zzSrvMasterMarker, nil
}

// zzSrvHash: H(data) uninterpreted (only used for the extended-master-secret session hash).
type zzSrvHash struct{ buf []byte }

func (h *zzSrvHash) Write(p []byte) (int, error) { h.buf = append(h.buf, p...); return len(p), nil }
func (h *zzSrvHash) Sum(b []byte) []byte         { return append(b, zzsymUF("H", 4, h.buf)...) }
func (h *zzSrvHash) Reset()                      { h.buf = nil }
func (h *zzSrvHash) Size() int                   { return 4 }
func (h *zzSrvHash) BlockSize() int              { return 8 }

func zzSrvNewHash() hash.Hash { return &zzSrvHash{} }

// zzSrvSuite: a cipher suite without cryptography whose authentication / key-exchange kind is chosen by the
// entry. Init is the "keys installed" event.
type zzSrvSuite struct {
	auth        ciphersuite.AuthenticationType
	kx          ciphersuite.KeyExchangeAlgorithm
	initialized bool
}

func (s *zzSrvSuite) String() string                          { return "zzSrvSuite" }
func (s *zzSrvSuite) ID() ciphersuite.ID                      { return ciphersuite.TLS_ECDHE_ECDSA_WITH_AES_128_GCM_SHA256 }
func (s *zzSrvSuite) CertificateType() clientcertificate.Type { return clientcertificate.ECDSASign }
func (s *zzSrvSuite) HashFunc() func() hash.Hash              { return zzSrvNewHash }
func (s *zzSrvSuite) AuthenticationType() ciphersuite.AuthenticationType {
	return s.auth
}
func (s *zzSrvSuite) KeyExchangeAlgorithm() ciphersuite.KeyExchangeAlgorithm { return s.kx }
func (s *zzSrvSuite) ECC() bool                                              { return true }
func (s *zzSrvSuite) Init(master, _, _ []byte, _ bool) error {
	zzSrv.initCalls++
	zzSrv.initMaster = master
	zzSrv.initAfterCV, zzSrv.initCVCalls = zzSrv.cvOK, zzSrv.cvCalls
	zzSrv.initAfterChain, zzSrv.initChainCalls = zzSrv.chainOK, zzSrv.chainCalls
	zzSrv.initAfterVPC, zzSrv.initVPCCalls = zzSrv.vpcOK, zzSrv.vpcCalls
	s.initialized = true

	return nil
}
func (s *zzSrvSuite) IsInitialized() bool                                    { return s.initialized }
func (s *zzSrvSuite) Decrypt(_ recordlayer.Header, in []byte) ([]byte, error) { return in, nil }
func (s *zzSrvSuite) Encrypt(_ *recordlayer.RecordLayer, raw []byte) ([]byte, error) {
	return raw, nil
}

type zzSrvLog struct{}

func (zzSrvLog) Trace(string)          {}
func (zzSrvLog) Tracef(string, ...any) {}
func (zzSrvLog) Debug(string)          {}
func (zzSrvLog) Debugf(string, ...any) {}
func (zzSrvLog) Info(string)           {}
func (zzSrvLog) Infof(string, ...any)  {}
func (zzSrvLog) Warn(string)           {}
func (zzSrvLog) Warnf(string, ...any)  {}
func (zzSrvLog) Error(string)          {}
func (zzSrvLog) Errorf(string, ...any) {}

// zzSrvConn: HandleQueuedPackets is where the real Conn decrypts the records that arrived before the keys
// existed; the harness can deliver the client's Finished there.
type zzSrvConn struct{ onQueued func() }

func (c *zzSrvConn) HandleQueuedPackets(context.Context) error {
	zzSrv.queuedCalls++
	if zzSrv.initCalls == 0 {
		zzSrv.queuedBeforeInit = true
	}
	if c.onQueued != nil {
		c.onQueued()
		c.onQueued = nil
	}

	return nil
}
func (c *zzSrvConn) SessionKey() []byte { return nil }

// ---------------------------------------------------------------------------------------------
// wire layouts written by hand (RFC 6347 4.2.2 handshake header, RFC 5246 7.4.2 / 7.4.7 / 7.4.8 bodies)

// zzSrvMsg: msg_type(1) length(3) message_seq(2) fragment_offset(3)=0 fragment_length(3)=length, body.
func zzSrvMsg(typ handshake.Type, seq int, body []byte) []byte {
	n := len(body)
	hdr := []byte{byte(typ), byte(n >> 16), byte(n >> 8), byte(n), byte(seq >> 8), byte(seq), 0, 0, 0, byte(n >> 16), byte(n >> 8), byte(n)}

	return append(hdr, body...)
}

// zzSrvCertBody: certificate_list<0..2^24-1> of ASN.1Cert<1..2^24-1>.
func zzSrvCertBody(certs [][]byte) []byte {
	list := []byte{}
	for _, c := range certs {
		list = append(list, 0, 0, byte(len(c)))
		list = append(list, c...)
	}

	return append([]byte{0, 0, byte(len(list))}, list...)
}

// zzSrvCVBody: SignatureAndHashAlgorithm(hash, signature) + opaque signature<0..2^16-1>.
func zzSrvCVBody(h, s byte, sig []byte) []byte {
	return append([]byte{h, s, 0, byte(len(sig))}, sig...)
}

func zzSrvEqCerts(a, b [][]byte) bool {
	if len(a) != len(b) {
		return false
	}
	ok := true
	for i := range a {
		ok = zzsymAnd(ok, zzsymEqBytes(a[i], b[i]))
	}

	return ok
}

// zzSrvScenario is everything one entry run fixes: configuration, cache contents and the oracle's view of them.
type zzSrvScenario struct {
	cfg        *dtlsconfig.HandshakeConfig
	state      *dtlsstate.State12
	cache      *dtlsflight.Cache
	conn       *zzSrvConn
	suite      *zzSrvSuite
	clientAuth int
	certs      [][]byte // certificates on the wire (nil: no Certificate message or an empty one)
	certMsg    bool     // a client Certificate message is present (possibly empty)
	hasCV      bool
	cvHashByte byte
	cvSigByte  byte
	cvSig      []byte
	transcript []byte // RFC 5246 7.4.8 handshake_messages: ClientHello(2nd) .. ClientKeyExchange
	ckeIdent   []byte
	ckePub     []byte
	finished   int
	hasVPC     bool
	hasVConn   bool
	nextSeq    int
	finRaw     []byte
	verifyData []byte
}

const (
	zzSrvFinNone     = 0 // the client's Finished never arrives
	zzSrvFinEpoch1   = 1 // Finished (epoch 1, i.e. decrypted with the new keys) already cached
	zzSrvFinQueued   = 2 // Finished (epoch 1) is delivered by HandleQueuedPackets once the keys exist
	zzSrvFinEpoch0   = 3 // a Finished sent in the clear (epoch 0): what a peer without the keys can produce
	zzSrvFinSecond   = 4 // Finished (epoch 1) arrives after flight4Parse returned once; flight4Parse runs again
	zzSrvSuiteCert   = 0
	zzSrvSuitePSK    = 1
	zzSrvSuiteECPSK  = 2
	zzSrvSuiteAnon   = 3
	zzSrvCertNone    = 0
	zzSrvCertEmpty   = 1
	zzSrvCertOne     = 2
	zzSrvCertTwo     = 3
	zzSrvSchemeECDSA = 0 // ecdsa_secp256r1_sha256, in the server's list
	zzSrvSchemeEd    = 1 // ed25519, in the server's list
	zzSrvSchemeRSA   = 2 // rsa_pkcs1_sha384, NOT in the server's list
)

func zzSrvReset() { zzSrv = zzSrvRec{} }

// zzSrvBuild constructs the server as flight4Generate leaves it and fills the cache with the handshake so far.
// suiteKind, certShape, hasCV, finished and callbacks are concrete (enumerated by the caller).
func zzSrvBuild(suiteKind, certShape int, hasCV bool, schemeHash, schemeSig byte, finished int, callbacks bool, ems bool) *zzSrvScenario {
	sc := &zzSrvScenario{hasCV: hasCV, finished: finished, cvHashByte: schemeHash, cvSigByte: schemeSig}
	sc.suite = &zzSrvSuite{}
	switch suiteKind {
	case zzSrvSuiteCert:
		sc.suite.auth, sc.suite.kx = ciphersuite.AuthenticationTypeCertificate, ciphersuite.KeyExchangeAlgorithmEcdhe
	case zzSrvSuitePSK:
		sc.suite.auth, sc.suite.kx = ciphersuite.AuthenticationTypePreSharedKey, ciphersuite.KeyExchangeAlgorithmPsk
	case zzSrvSuiteECPSK:
		sc.suite.auth = ciphersuite.AuthenticationTypePreSharedKey
		sc.suite.kx = ciphersuite.KeyExchangeAlgorithmPsk | ciphersuite.KeyExchangeAlgorithmEcdhe
	default:
		sc.suite.auth, sc.suite.kx = ciphersuite.AuthenticationTypeAnonymous, ciphersuite.KeyExchangeAlgorithmEcdhe
	}

	sc.clientAuth = zzsymInt("client_auth")
	sc.cfg = &dtlsconfig.HandshakeConfig{
		ClientAuth: dtlsconfig.ClientAuthType(sc.clientAuth),
		LocalSignatureSchemes: []signaturehash.Algorithm{
			{Hash: dtlshash.SHA256, Signature: signature.ECDSA},
			{Hash: dtlshash.Ed25519, Signature: signature.Ed25519},
		},
		ClientCAs: new(x509.CertPool),
		Log:       zzSrvLog{},
	}
	if zzsymChoice("client_cas_unset", 2) == 1 {
		sc.cfg.ClientCAs = nil // no pool configured means "the host's roots", not "skip the chain check"
	}
	if callbacks {
		sc.hasVPC, sc.hasVConn = true, true
		sc.cfg.VerifyPeerCertificate = func(raw [][]byte, chains [][]*x509.Certificate) error {
			zzSrv.vpcCalls++
			zzSrv.vpcCerts = raw
			zzSrv.vpcGotChain = len(chains) == 1 && len(chains[0]) == 1 && chains[0][0] == zzSrvLeaf
			zzSrv.vpcOK = zzsymBool("vpc_ok")
			if !zzSrv.vpcOK {
				return zzSrvErr
			}

			return nil
		}
		sc.cfg.VerifyConnection = func(dtlsstate.Active) error {
			zzSrv.vconnCalls++
			zzSrv.vconnOK = zzsymBool("vconn_ok")
			if !zzSrv.vconnOK {
				return zzSrvErr
			}

			return nil
		}
	}
	if sc.suite.auth == ciphersuite.AuthenticationTypePreSharedKey {
		sc.cfg.LocalPSKCallback = func(hint []byte) ([]byte, error) {
			zzSrv.pskCalls++
			zzSrv.pskHint = hint
			zzSrv.psk = zzsymBytes("psk", 2)
			zzSrv.pskOK = zzsymBool("psk_known")
			if !zzSrv.pskOK {
				return nil, zzSrvErr
			}

			return zzSrv.psk, nil
		}
	}

	sc.state = &dtlsstate.State12{
		Common: &dtlsstate.Common{IsClient: false, LocalVersion: protocol.Version1_2, CipherSuite: sc.suite},
		LocalKeypair: &elliptic.Keypair{
			Curve: elliptic.X25519, PublicKey: []byte{7, 7}, PrivateKey: zzsymBytes("server_priv", 2),
		},
		NamedCurve:            elliptic.X25519,
		ExtendedMasterSecret:  ems,
		HandshakeRecvSequence: 2,
	}
	sc.cache = dtlsflight.NewCache()
	sc.conn = &zzSrvConn{}

	// the handshake so far; bodies are opaque to flight4Parse (only the client's last flight is decoded)
	push := func(raw []byte, epoch uint16, seq int, typ handshake.Type, isClient bool, inTranscript bool) {
		sc.cache.Push(raw, epoch, uint16(seq), typ, isClient)
		if inTranscript {
			sc.transcript = append(sc.transcript, raw...)
		}
	}
	opaque := func(name string, typ handshake.Type, seq int) []byte {
		return zzSrvMsg(typ, seq, zzsymBytes(name, 2))
	}
	push(opaque("ch0", handshake.TypeClientHello, 0), 0, 0, handshake.TypeClientHello, true, false)
	push(opaque("hvr", handshake.TypeHelloVerifyRequest, 0), 0, 0, handshake.TypeHelloVerifyRequest, false, false)
	push(opaque("ch1", handshake.TypeClientHello, 1), 0, 1, handshake.TypeClientHello, true, true)
	push(opaque("sh", handshake.TypeServerHello, 1), 0, 1, handshake.TypeServerHello, false, true)
	srvSeq := 2
	if suiteKind == zzSrvSuiteCert {
		push(opaque("scert", handshake.TypeCertificate, srvSeq), 0, srvSeq, handshake.TypeCertificate, false, true)
		srvSeq++
	}
	if suiteKind != zzSrvSuitePSK {
		push(opaque("ske", handshake.TypeServerKeyExchange, srvSeq), 0, srvSeq, handshake.TypeServerKeyExchange, false, true)
		srvSeq++
	}
	if suiteKind == zzSrvSuiteCert {
		push(opaque("creq", handshake.TypeCertificateRequest, srvSeq), 0, srvSeq, handshake.TypeCertificateRequest, false, true)
		srvSeq++
	}
	push(zzSrvMsg(handshake.TypeServerHelloDone, srvSeq, nil), 0, srvSeq, handshake.TypeServerHelloDone, false, true)

	// the client's flight
	seq := 2
	if certShape != zzSrvCertNone {
		sc.certMsg = true
		switch certShape {
		case zzSrvCertOne:
			sc.certs = [][]byte{zzsymBytes("cert0", 2)}
		case zzSrvCertTwo:
			sc.certs = [][]byte{zzsymBytes("cert0", 2), zzsymBytes("cert1", 1)}
		}
		push(zzSrvMsg(handshake.TypeCertificate, seq, zzSrvCertBody(sc.certs)), 0, seq, handshake.TypeCertificate, true, true)
		seq++
	}
	var cke []byte
	if sc.suite.kx.Has(ciphersuite.KeyExchangeAlgorithmPsk) {
		sc.ckeIdent = zzsymBytes("psk_identity", 1)
		cke = append([]byte{0, byte(len(sc.ckeIdent))}, sc.ckeIdent...) // opaque psk_identity<0..2^16-1>
	}
	if sc.suite.kx.Has(ciphersuite.KeyExchangeAlgorithmEcdhe) {
		sc.ckePub = zzsymBytes("client_pub", 2)
		cke = append(append(cke, byte(len(sc.ckePub))), sc.ckePub...) // opaque ecdh_Yc<1..2^8-1>
	}
	push(zzSrvMsg(handshake.TypeClientKeyExchange, seq, cke), 0, seq, handshake.TypeClientKeyExchange, true, true)
	seq++
	if hasCV {
		sc.cvSig = zzsymBytes("cv_signature", 2)
		push(zzSrvMsg(handshake.TypeCertificateVerify, seq, zzSrvCVBody(schemeHash, schemeSig, sc.cvSig)), 0, seq,
			handshake.TypeCertificateVerify, true, false)
		seq++
	}
	sc.nextSeq = seq
	sc.verifyData = zzsymBytes("verify_data", 12)
	sc.finRaw = zzSrvMsg(handshake.TypeFinished, seq, sc.verifyData)
	switch finished {
	case zzSrvFinEpoch1:
		sc.cache.Push(sc.finRaw, 1, uint16(seq), handshake.TypeFinished, true)
	case zzSrvFinEpoch0:
		sc.cache.Push(sc.finRaw, 0, uint16(seq), handshake.TypeFinished, true)
	case zzSrvFinQueued:
		sc.conn.onQueued = func() { sc.cache.Push(sc.finRaw, 1, uint16(seq), handshake.TypeFinished, true) }
	}

	return sc
}

// zzSrvRun calls the real flight4Parse (twice in the zzSrvFinSecond scenario, as the handshake FSM does when
// more records arrive) and returns whether the server moved on to Flight6 (its own Finished: the handshake
// is reported successful once that flight is sent).
func zzSrvRun(sc *zzSrvScenario) bool {
	next, a, err := flight4Parse(context.Background(), sc.conn, sc.state, sc.cache, sc.cfg)
	if sc.finished == zzSrvFinSecond && next == 0 && a == nil && err == nil {
		sc.cache.Push(sc.finRaw, 1, uint16(sc.nextSeq), handshake.TypeFinished, true)
		next, a, err = flight4Parse(context.Background(), sc.conn, sc.state, sc.cache, sc.cfg)
	}
	if next == Flight6 {
		zzsymAssert(zzsymAnd(a == nil, err == nil), "srv12_flight6_without_alert")

		return true
	}
	zzsymAssert(next == 0, "srv12_no_other_flight")

	return false
}

// zzSrvCheckInit: whenever CipherSuite.Init ran (keys installed, queued encrypted records processed), the
// certificate checks had already succeeded for a client that presented a certificate.
func zzSrvCheckInit(sc *zzSrvScenario) {
	if zzSrv.initCalls == 0 {
		return
	}
	zzsymAssert(zzSrv.initCalls == 1, "srv12_keys_installed_once")
	zzsymAssert(!zzSrv.queuedBeforeInit, "srv12_no_encrypted_input_before_keys")
	if len(sc.certs) != 0 {
		zzsymAssert(zzsymAnd(zzSrv.initCVCalls >= 1, zzSrv.initAfterCV), "srv12_no_keys_before_certificate_verify_ok")
		if sc.clientAuth >= int(dtlsconfig.VerifyClientCertIfGiven) {
			zzsymAssert(zzsymAnd(zzSrv.initChainCalls >= 1, zzSrv.initAfterChain), "srv12_no_keys_before_chain_ok")
		}
		if sc.hasVPC {
			zzsymAssert(zzsymAnd(zzSrv.initVPCCalls >= 1, zzSrv.initAfterVPC), "srv12_no_keys_before_peer_certificate_callback_ok")
		}
	}
}

// zzSrvCheckAccepted is the policy predicate of the property for an accepted handshake (Flight6 reached).
func zzSrvCheckAccepted(sc *zzSrvScenario) {
	// the client's Finished was read under the new keys (a cleartext Finished does not count)
	zzsymAssert(sc.finished != zzSrvFinNone && sc.finished != zzSrvFinEpoch0, "srv12_accept_needs_protected_finished")
	zzsymAssert(zzSrv.initCalls == 1, "srv12_accept_needs_keys")
	if zzSrv.vdcCalls > 0 {
		// when the client's Finished is checked (C04), it is checked against the secret this handshake derived
		zzsymAssert(zzsymEqBytes(zzSrv.vdcMaster, zzSrvMasterMarker), "srv12_client_finished_keyed_with_derived_master_secret")
		zzsymAssert(zzsymEqBytes(sc.verifyData, zzSrv.vdcWant), "srv12_client_finished_matches")
	}

	present := len(sc.certs) != 0
	pol := dtlsconfig.ClientAuthType(sc.clientAuth)
	if sc.suite.auth != ciphersuite.AuthenticationTypeAnonymous {
		if pol == dtlsconfig.RequireAnyClientCert || pol == dtlsconfig.RequireAndVerifyClientCert {
			zzsymAssert(present, "srv12_required_certificate_present")
		}
	}
	if present {
		// possession of the leaf key: CertificateVerify over ClientHello..ClientKeyExchange with THIS certificate list
		zzsymAssert(sc.hasCV, "srv12_certificate_needs_certificate_verify")
		zzsymAssert(zzsymAnd(zzSrv.cvCalls >= 1, zzSrv.cvOK), "srv12_certificate_verify_ok")
		zzsymAssert(zzsymEqBytes(zzSrv.cvMsg, sc.transcript), "srv12_certificate_verify_covers_transcript")
		zzsymAssert(zzSrvEqCerts(zzSrv.cvCerts, sc.certs), "srv12_certificate_verify_uses_presented_certificate")
		zzsymAssert(zzsymEqBytes(zzSrv.cvSig, sc.cvSig), "srv12_certificate_verify_uses_wire_signature")
		zzsymAssert(zzsymAnd(byte(zzSrv.cvHash) == sc.cvHashByte, byte(zzSrv.cvAlg) == sc.cvSigByte), "srv12_certificate_verify_uses_wire_scheme")
		// the identity reported to the application is the verified one
		zzsymAssert(zzSrvEqCerts(sc.state.PeerCertificates, sc.certs), "srv12_reported_certificate_is_presented_one")
		if pol == dtlsconfig.VerifyClientCertIfGiven || pol == dtlsconfig.RequireAndVerifyClientCert {
			zzsymAssert(zzsymAnd(zzSrv.chainCalls >= 1, zzSrv.chainOK), "srv12_chain_verified")
			zzsymAssert(zzSrvEqCerts(zzSrv.chainCerts, sc.certs), "srv12_chain_of_presented_certificate")
			zzsymAssert(zzSrv.chainRoots == sc.cfg.ClientCAs, "srv12_chain_against_client_cas")
			zzsymAssert(sc.state.PeerCertificatesVerified, "srv12_verified_flag_set")
		}
		if sc.hasVPC {
			zzsymAssert(zzsymAnd(zzSrv.vpcCalls >= 1, zzSrv.vpcOK), "srv12_peer_certificate_callback_ok")
			zzsymAssert(zzSrvEqCerts(zzSrv.vpcCerts, sc.certs), "srv12_peer_certificate_callback_sees_presented_certificate")
			if sc.clientAuth >= int(dtlsconfig.VerifyClientCertIfGiven) {
				zzsymAssert(zzSrv.vpcGotChain, "srv12_peer_certificate_callback_sees_verified_chain")
			}
		}
	} else {
		zzsymAssert(len(sc.state.PeerCertificates) == 0, "srv12_no_identity_reported_without_certificate")
		zzsymAssert(!sc.state.PeerCertificatesVerified, "srv12_no_verified_flag_without_certificate")
	}
	if sc.hasVConn {
		zzsymAssert(zzsymAnd(zzSrv.vconnCalls >= 1, zzSrv.vconnOK), "srv12_verify_connection_ok")
	}
}

func zzSrvScheme(i int) (byte, byte) {
	switch i {
	case zzSrvSchemeECDSA:
		return 4, 3
	case zzSrvSchemeEd:
		return 8, 7
	}

	return 5, 1
}

// DTLS 1.2 server, certificate cipher suite: the real flight4Parse on the client's last flight, for EVERY value
// of cfg.ClientAuth (a symbolic int), every flight shape {no Certificate, empty Certificate, Certificate with
// one (thorough: also two) arbitrary certificates} x {no CertificateVerify, CertificateVerify with arbitrary
// signature bytes and a scheme that is / is not in the server's list} x {Finished never arrives, already cached
// at epoch 1, delivered by HandleQueuedPackets after the keys exist, sent in the clear at epoch 0, (thorough:
// arriving before a second flight4Parse call)} x {VerifyPeerCertificate + VerifyConnection callbacks
// configured or not}, with arbitrary verdicts of signature verification, chain verification and both callbacks,
// arbitrary (2-byte) bodies of all earlier handshake messages. Proved: Flight6 (handshake success) is returned
// only if (1) the client's Finished was read at epoch 1; (2) under RequireAnyClientCert /
// RequireAndVerifyClientCert a non-empty Certificate was presented; (3) whenever a certificate was presented,
// a CertificateVerify was present and VerifyCertificateVerify returned OK on exactly the byte string
// ClientHello(with cookie) | ServerHello | Certificate | ServerKeyExchange | CertificateRequest |
// ServerHelloDone | client Certificate | ClientKeyExchange (the first ClientHello and HelloVerifyRequest
// excluded), with the presented certificate list, the wire signature and scheme; (4) under
// VerifyClientCertIfGiven / RequireAndVerifyClientCert the presented chain verified against cfg.ClientCAs;
// (5) configured callbacks returned OK and saw the presented certificates (and the verified chain);
// (6) state.PeerCertificates is the presented list. Also: CipherSuite.Init (key installation) happens at most
// once, never before (3)-(5) succeeded for a presented certificate, and queued encrypted packets are not
// processed before it.
//
//symgo:entry covers=accepted_no_cert,accepted_cert_unverified_chain,accepted_cert_verified_chain,rejected_required_missing,rejected_bad_signature,rejected_bad_chain,rejected_callback,rejected_cv_without_cert,rejected_scheme,waiting_for_cv,waiting_for_finished,cleartext_finished_ignored,accepted_undefined_policy,accepted_queued_finished
func zzSrv12PolicyCert() {
	zzSrvReset()
	certShape := zzsymChoice("cert_shape", zzsymParam("SRVCERTS"))
	hasCV := zzsymChoice("has_cv", 2) == 1
	scheme := 0
	if hasCV {
		scheme = zzsymChoice("cv_scheme", 3)
	}
	finished := zzsymChoice("finished", zzsymParam("SRVFIN"))
	callbacks := zzsymChoice("callbacks", 2) == 1
	ems := zzsymChoice("ems", zzsymParam("SRVEMS")) == 1
	h, s := zzSrvScheme(scheme)
	sc := zzSrvBuild(zzSrvSuiteCert, certShape, hasCV, h, s, finished, callbacks, ems)

	accepted := zzSrvRun(sc)
	zzSrvCheckInit(sc)
	present := len(sc.certs) != 0
	pol := dtlsconfig.ClientAuthType(sc.clientAuth)
	if accepted {
		zzSrvCheckAccepted(sc)
		switch {
		case sc.clientAuth < 0 || sc.clientAuth > 4:
			zzsymCover("accepted_undefined_policy")
		case !present:
			zzsymCover("accepted_no_cert")
		case pol >= dtlsconfig.VerifyClientCertIfGiven:
			zzsymCover("accepted_cert_verified_chain")
		default:
			zzsymCover("accepted_cert_unverified_chain")
		}
		if finished == zzSrvFinQueued {
			zzsymCover("accepted_queued_finished")
		}

		return
	}
	// not accepted: witnesses for each reason
	switch {
	case present && !hasCV:
		zzsymCover("waiting_for_cv")
	case !present && hasCV:
		zzsymCover("rejected_cv_without_cert")
	case present && scheme == zzSrvSchemeRSA:
		zzsymCover("rejected_scheme")
	case present && zzSrv.cvCalls > 0 && !zzSrv.cvOK:
		zzsymCover("rejected_bad_signature")
	case present && zzSrv.chainCalls > 0 && !zzSrv.chainOK:
		zzsymCover("rejected_bad_chain")
	case zzSrv.vpcCalls > 0 && !zzSrv.vpcOK, zzSrv.vconnCalls > 0 && !zzSrv.vconnOK:
		zzsymCover("rejected_callback")
	case finished == zzSrvFinNone:
		zzsymCover("waiting_for_finished")
	case finished == zzSrvFinEpoch0:
		zzsymCover("cleartext_finished_ignored")
	case !present && (pol == dtlsconfig.RequireAnyClientCert || pol == dtlsconfig.RequireAndVerifyClientCert):
		zzsymCover("rejected_required_missing")
	}
}

// RFC 4279 section 2: "if the PSK is N octets long, concatenate a uint16 with the value N, N zero octets, a
// second uint16 with the value N, and the PSK itself".
func zzSrvRefPSKPreMaster(psk []byte) []byte {
	n := len(psk)
	out := []byte{byte(n >> 8), byte(n)}
	out = append(out, make([]byte, n)...)
	out = append(out, byte(n>>8), byte(n))

	return append(out, psk...)
}

// RFC 5489 section 2: uint16 length of Z, Z (the ECDH shared secret), uint16 length of the PSK, the PSK.
func zzSrvRefECDHEPSKPreMaster(z, psk []byte) []byte {
	out := []byte{byte(len(z) >> 8), byte(len(z))}
	out = append(out, z...)
	out = append(out, byte(len(psk)>>8), byte(len(psk)))

	return append(out, psk...)
}

// DTLS 1.2 server, PSK and ECDHE_PSK cipher suites: the real flight4Parse on ClientKeyExchange (arbitrary
// 1-byte identity, arbitrary 2-byte ECDH share) [+ optionally Certificate and CertificateVerify] + Finished in
// the four (thorough: five) delivery variants of zzSrv12PolicyCert, every cfg.ClientAuth, callbacks configured
// or not, a PSK callback that fails or returns an arbitrary 2-byte key. Proved: Flight6 is returned only if the
// PSK callback was asked for exactly the identity on the wire and succeeded, the pre-master secret handed to
// the master-secret derivation is the RFC 4279 (plain PSK: N, N zero bytes, N, PSK) or RFC 5489 (ECDHE_PSK:
// len Z, Z = ECDH(client share from the wire, server private key), len PSK, PSK) layout of THAT key, the keys
// installed by CipherSuite.Init come from that derivation, and the client's Finished was read at epoch 1,
// i.e. under those keys - a Finished sent in the clear is not accepted. The certificate rules of
// zzSrv12PolicyCert hold here too when a client sends a certificate on a PSK suite.
//
//symgo:entry covers=accepted_psk,accepted_ecdhe_psk,rejected_unknown_identity,cleartext_finished_ignored,waiting_for_finished,accepted_with_cert,rejected_required_missing
func zzSrv12PolicyPSK() {
	zzSrvReset()
	suiteKind := zzSrvSuitePSK + zzsymChoice("ecdhe", 2)
	withCert := zzsymChoice("with_cert", 2) == 1
	certShape := zzSrvCertNone
	if withCert {
		certShape = zzSrvCertOne
	}
	finished := zzsymChoice("finished", zzsymParam("SRVFIN"))
	callbacks := zzsymChoice("callbacks", 2) == 1
	ems := zzsymChoice("ems", zzsymParam("SRVEMS")) == 1
	sc := zzSrvBuild(suiteKind, certShape, withCert, 4, 3, finished, callbacks, ems)

	accepted := zzSrvRun(sc)
	zzSrvCheckInit(sc)
	if zzSrv.initCalls > 0 {
		zzsymAssert(zzsymAnd(zzSrv.pskCalls >= 1, zzSrv.pskOK), "srv12_no_keys_without_psk")
	}
	pol := dtlsconfig.ClientAuthType(sc.clientAuth)
	if !accepted {
		switch {
		case zzSrv.pskCalls > 0 && !zzSrv.pskOK:
			zzsymCover("rejected_unknown_identity")
		case finished == zzSrvFinNone:
			zzsymCover("waiting_for_finished")
		case finished == zzSrvFinEpoch0:
			zzsymCover("cleartext_finished_ignored")
		case !withCert && (pol == dtlsconfig.RequireAnyClientCert || pol == dtlsconfig.RequireAndVerifyClientCert):
			zzsymCover("rejected_required_missing")
		}

		return
	}
	zzSrvCheckAccepted(sc)
	zzsymAssert(zzsymAnd(zzSrv.pskCalls >= 1, zzSrv.pskOK), "srv12_psk_known")
	zzsymAssert(zzsymEqBytes(zzSrv.pskHint, sc.ckeIdent), "srv12_psk_looked_up_for_wire_identity")
	zzsymAssert(zzsymEqBytes(sc.state.IdentityHint, sc.ckeIdent), "srv12_reported_identity_is_wire_identity")
	var want []byte
	if suiteKind == zzSrvSuitePSK {
		want = zzSrvRefPSKPreMaster(zzSrv.psk)
	} else {
		z := zzsymUF("ECDH", 4, sc.ckePub, sc.state.LocalKeypair.PrivateKey, zzSrvCurveBytes(elliptic.X25519))
		want = zzSrvRefECDHEPSKPreMaster(z, zzSrv.psk)
	}
	zzsymAssert(zzSrv.msCalls == 1, "srv12_master_secret_derived_once")
	zzsymAssert(zzsymEqBytes(zzSrv.preMaster, want), "srv12_premaster_built_from_callback_psk")
	zzsymAssert(zzsymEqBytes(zzSrv.initMaster, zzSrvMasterMarker), "srv12_keys_from_that_master_secret")
	if withCert {
		zzsymCover("accepted_with_cert")
	}
	if suiteKind == zzSrvSuitePSK {
		zzsymCover("accepted_psk")
	} else {
		zzsymCover("accepted_ecdhe_psk")
	}
}

// DTLS 1.2 server, certificate suite, fixed flight Certificate(1 certificate) + ClientKeyExchange +
// CertificateVerify + Finished(epoch 1), RequireAndVerifyClientCert, all verifications succeeding: the two
// SignatureAndHashAlgorithm bytes of the CertificateVerify are ARBITRARY. Proved: whenever Flight6 is
// returned, VerifyCertificateVerify was called with the (hash, signature) pair that the two wire bytes denote
// (RFC 5246 7.4.1.4.1: hash byte, signature byte; RFC 8446 4.2.3 for the rsa_pss code points 0x0804..0x0806,
// 0x0809..0x080b), i.e. the signature is checked under the scheme the client named, and that pair is one of
// the server's configured schemes.
//
//symgo:entry covers=accepted,rejected
func zzSrv12CVSchemeBytes() {
	zzSrvReset()
	h, s := zzsymU8("cv_hash"), zzsymU8("cv_sig")
	sc := zzSrvBuild(zzSrvSuiteCert, zzSrvCertOne, true, h, s, zzSrvFinEpoch1, false, false)
	zzsymAssume(sc.clientAuth == int(dtlsconfig.RequireAndVerifyClientCert))
	if !zzSrvRun(sc) {
		zzsymCover("rejected")

		return
	}
	zzsymAssert(zzsymAnd(zzSrv.cvCalls == 1, zzSrv.cvOK), "srv12_certificate_verify_ok")
	wire := uint16(h)<<8 | uint16(s)
	pss := zzsymOr(zzsymAnd(wire >= 0x0804, wire <= 0x0806), zzsymAnd(wire >= 0x0809, wire <= 0x080b))
	wantSig := zzsymIteU16(pss, wire, uint16(s))
	pssHash := zzsymIteU16(zzsymOr(wire == 0x0804, wire == 0x0809), 4, zzsymIteU16(zzsymOr(wire == 0x0805, wire == 0x080a), 5, 6))
	wantHash := zzsymIteU16(pss, pssHash, uint16(h))
	zzsymAssert(zzsymAnd(uint16(zzSrv.cvAlg) == wantSig, uint16(zzSrv.cvHash) == wantHash), "srv12_signature_checked_under_named_scheme")
	listed := zzsymOr(zzsymAnd(wantHash == 4, wantSig == 3), zzsymAnd(wantHash == 8, wantSig == 7))
	zzsymAssert(listed, "srv12_named_scheme_is_configured")
	zzsymCover("accepted")
}

// DTLS 1.2 server with an anonymous (custom, unauthenticated) cipher suite: flight4Parse accepts after
// ClientKeyExchange + Finished(epoch 1) and the optional VerifyConnection callback; no certificate policy
// applies because the server flight of such a suite carries no CertificateRequest. Proved: Flight6 only after
// a Finished read at epoch 1 and, when configured, VerifyConnection returning OK; a certificate a client sends
// anyway is still subject to CertificateVerify / chain verification (zzSrvCheckAccepted). NOT asserted, only
// witnessed (cover anon_accepts_despite_require_policy): with such a suite cfg.ClientAuth = Require* is not
// enforced - flight4Parse returns before the policy switch. Anonymous suites exist only as user-supplied
// CustomCipherSuites and are not a credential type of the property; reported as a remark.
//
//symgo:entry covers=accepted,rejected_callback,cleartext_finished_ignored,anon_accepts_despite_require_policy
func zzSrv12PolicyAnon() {
	zzSrvReset()
	finished := zzsymChoice("finished", zzsymParam("SRVFIN"))
	callbacks := zzsymChoice("callbacks", 2) == 1
	sc := zzSrvBuild(zzSrvSuiteAnon, zzSrvCertNone, false, 4, 3, finished, callbacks, false)
	accepted := zzSrvRun(sc)
	zzSrvCheckInit(sc)
	if accepted {
		zzSrvCheckAccepted(sc)
		zzsymCover("accepted")
		if sc.clientAuth == int(dtlsconfig.RequireAndVerifyClientCert) {
			zzsymCover("anon_accepts_despite_require_policy")
		}

		return
	}
	if zzSrv.vconnCalls > 0 && !zzSrv.vconnOK {
		zzsymCover("rejected_callback")
	}
	if finished == zzSrvFinEpoch0 {
		zzsymCover("cleartext_finished_ignored")
	}
}
