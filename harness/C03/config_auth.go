package dtls

//symgo:pkg github.com/pion/dtls/v3
//symgo:outside how the application chooses its policy; cipher-suite filtering by credential kind (C11 zzSuiteParse: PSK suites only with a PSK callback, certificate suites only with includeCertificate)

import (
	"crypto/x509"

	dtlsconfig "github.com/pion/dtls/v3/internal/config"
)

// Public configuration -> handshake configuration, the link between what the application asks for and what the
// flight handlers of srv12_policy.go / cli12_auth.go / hs13_auth.go enforce. (1) WithClientAuth, for EVERY int:
// it is refused unless it is one of the five defined policies, and an accepted value is stored unchanged - so
// cfg.ClientAuth in a running server is always NoClientCert..RequireAndVerifyClientCert. (2) the five public
// constants denote the internal policies of the same name. (3) newHandshakeConfig copies ClientAuth,
// InsecureSkipVerify, RootCAs, ClientCAs, the effective server name and the VerifyPeerCertificate callback
// unchanged, and configures VerifyConnection exactly when the application did.
//
//symgo:entry covers=policy_accepted,policy_refused,skip_verify_on,skip_verify_off
func zzCfgAuthPolicyMapping() {
	v := zzsymInt("client_auth")
	cfg := &dtlsConfig{}
	err := WithClientAuth(ClientAuthType(v)).applyServer(cfg)
	if v < 0 || v > 4 {
		zzsymAssert(err != nil, "cfg_undefined_client_auth_refused")
		zzsymAssert(cfg.ClientAuth == NoClientCert, "cfg_refused_policy_not_stored")
		zzsymCover("policy_refused")

		return
	}
	zzsymAssert(err == nil, "cfg_defined_client_auth_accepted")
	zzsymAssert(int(cfg.ClientAuth) == v, "cfg_client_auth_stored")
	zzsymCover("policy_accepted")

	zzsymAssert(dtlsconfig.ClientAuthType(NoClientCert) == dtlsconfig.NoClientCert, "cfg_const_no_client_cert")
	zzsymAssert(dtlsconfig.ClientAuthType(RequestClientCert) == dtlsconfig.RequestClientCert, "cfg_const_request")
	zzsymAssert(dtlsconfig.ClientAuthType(RequireAnyClientCert) == dtlsconfig.RequireAnyClientCert, "cfg_const_require_any")
	zzsymAssert(dtlsconfig.ClientAuthType(VerifyClientCertIfGiven) == dtlsconfig.VerifyClientCertIfGiven, "cfg_const_verify_if_given")
	zzsymAssert(dtlsconfig.ClientAuthType(RequireAndVerifyClientCert) == dtlsconfig.RequireAndVerifyClientCert, "cfg_const_require_and_verify")

	cfg.InsecureSkipVerify = zzsymChoice("skip_verify", 2) == 1
	cfg.RootCAs, cfg.ClientCAs = new(x509.CertPool), new(x509.CertPool)
	vpcCalls := 0
	cfg.VerifyPeerCertificate = func([][]byte, [][]*x509.Certificate) error { vpcCalls++; return nil }
	withVConn := zzsymChoice("verify_connection", 2) == 1
	if withVConn {
		cfg.verifyConnection = func(*State) error { return nil }
	}
	name := zzsymString("server_name", 3)
	hc := newHandshakeConfig(cfg, connConfigValues{serverName: name}, nil)
	zzsymAssert(int(hc.ClientAuth) == v, "cfg_handshake_client_auth")
	zzsymAssert(hc.InsecureSkipVerify == cfg.InsecureSkipVerify, "cfg_handshake_skip_verify")
	zzsymAssert(hc.RootCAs == cfg.RootCAs, "cfg_handshake_root_cas")
	zzsymAssert(hc.ClientCAs == cfg.ClientCAs, "cfg_handshake_client_cas")
	zzsymAssert(hc.RootCAs != hc.ClientCAs, "cfg_pools_not_mixed_up")
	zzsymAssert(zzsymEqStr(hc.ServerName, name), "cfg_handshake_server_name")
	zzsymAssert(hc.VerifyPeerCertificate != nil, "cfg_handshake_peer_certificate_callback")
	_ = hc.VerifyPeerCertificate(nil, nil)
	zzsymAssert(vpcCalls == 1, "cfg_handshake_peer_certificate_callback_is_applications")
	zzsymAssert((hc.VerifyConnection != nil) == withVConn, "cfg_handshake_verify_connection_iff_configured")
	if cfg.InsecureSkipVerify {
		zzsymCover("skip_verify_on")
	} else {
		zzsymCover("skip_verify_off")
	}
}
