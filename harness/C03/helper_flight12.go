package flight12

//symgo:pkg github.com/pion/dtls/v3/internal/flight/flight12

import (
	dtlsconfig "github.com/pion/dtls/v3/internal/config"
	dtlsflight "github.com/pion/dtls/v3/internal/flight"
	dtlsstate "github.com/pion/dtls/v3/internal/state"
	"github.com/pion/dtls/v3/pkg/protocol/alert"
	"github.com/pion/dtls/v3/pkg/protocol/handshake"
)

// ZZC03InitializeCipherSuite exposes the DTLS 1.2 client's initializeCipherSuite (server authentication + key
// installation, called by flight5Generate) to the C03 harness in package dtls.
func ZZC03InitializeCipherSuite(
	state *dtlsstate.State12, cache *dtlsflight.Cache, cfg *dtlsconfig.HandshakeConfig,
	ske *handshake.MessageServerKeyExchange, sending []byte,
) (*alert.Alert, error) {
	return initializeCipherSuite(state, cache, cfg, ske, sending)
}
