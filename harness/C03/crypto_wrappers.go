package handshakecrypto

//symgo:pkg github.com/pion/dtls/v3/internal/handshakecrypto
//symgo:replace crypto/x509.ParseCertificate zzHcParseCertificate
//symgo:replace crypto/ed25519.Verify zzHcEd25519Verify
//symgo:replace crypto/ecdsa.Verify zzHcECDSAVerify
//symgo:replace crypto/rsa.VerifyPKCS1v15 zzHcVerifyPKCS1v15
//symgo:replace crypto/rsa.VerifyPSS zzHcVerifyPSS
//symgo:replace encoding/asn1.Unmarshal zzHcAsn1Unmarshal
//symgo:replace (*crypto/x509.Certificate).Verify zzHcCertVerify
//symgo:replace crypto/x509.NewCertPool zzHcNewCertPool
//symgo:replace (*crypto/x509.CertPool).AddCert zzHcAddCert
//symgo:replace crypto/md5.Sum zzHcMD5
//symgo:replace crypto/sha1.Sum zzHcSHA1
//symgo:replace crypto/sha256.Sum224 zzHcSHA224
//symgo:replace crypto/sha256.Sum256 zzHcSHA256
//symgo:replace crypto/sha512.Sum384 zzHcSHA384
//symgo:replace crypto/sha512.Sum512 zzHcSHA512
//symgo:stub the Go standard library is cut off at its API: x509.ParseCertificate returns (arbitrarily) an error or a harness certificate object whose public key type is enumerated; ed25519.Verify, ecdsa.Verify, rsa.VerifyPKCS1v15, rsa.VerifyPSS and (*x509.Certificate).Verify record their arguments and return an arbitrary verdict; asn1.Unmarshal yields an arbitrary ECDSA (r, s) pair or fails, and for the RSA-PSS OID check an arbitrary one of the two RSA key OIDs; x509.NewCertPool / AddCert record pool membership; the six std hash functions behind (hash.Algorithm).Digest (md5.Sum, sha1.Sum, sha256.Sum224/Sum256, sha512.Sum384/Sum512) are uninterpreted functions of the right output size, so the real Digest code - including what it returns for hash None, Ed25519 and unknown values - is executed
//symgo:assume zzHcSchemeFitsKey: a (hash, signature) pair whose signature is an RSA-PSS code point carries the hash of that code point - signaturehash.Algorithm.Unmarshal, the only decoder of the wire field, derives the hash from the code point
//symgo:assume the Go standard library verifies signatures and certificate chains correctly (design: "all signature/x509 routines assumed correct in Go's std")
//symgo:outside what x509 chain building accepts (expiry, name constraints, EKU evaluation): only the inputs handed to it are checked

import (
	"crypto"
	"crypto/ecdsa"
	"crypto/ed25519"
	"crypto/rsa"
	"crypto/x509"
	"crypto/x509/pkix"
	"encoding/asn1"
	"errors"
	"math/big"

	"github.com/pion/dtls/v3/pkg/crypto/hash"
	"github.com/pion/dtls/v3/pkg/crypto/signature"
	"github.com/pion/dtls/v3/pkg/crypto/signaturehash"
)

type zzHcPoolEntry struct {
	pool *x509.CertPool
	cert *x509.Certificate
}

type zzHcRec struct {
	keyKind    int
	parsedDER  [][]byte
	parsed     []*x509.Certificate
	parseFails bool

	primCalls int // calls of any signature primitive
	primOK    bool
	primKey   any
	primMsg   []byte
	primSig   []byte
	primHash  crypto.Hash
	primPSS   bool
	primR     *big.Int
	primS     *big.Int
	asn1Sig   []byte
	asn1R     *big.Int
	asn1S     *big.Int
	pssOID    int

	verifyCalls int
	verifyOK    bool
	verifyRecv  *x509.Certificate
	verifyOpts  x509.VerifyOptions
	pools       []zzHcPoolEntry
	chainAlg    x509.SignatureAlgorithm
}

var zzHc zzHcRec

var zzHcErr = errors.New("zz: std refused")

const (
	zzHcKeyEd25519 = 0
	zzHcKeyECDSA   = 1
	zzHcKeyRSA     = 2
	zzHcKeyOther   = 3
)

func zzHcMD5(b []byte) (out [16]byte)    { copy(out[:], zzsymUF("MD5", 16, b)); return out }
func zzHcSHA1(b []byte) (out [20]byte)   { copy(out[:], zzsymUF("SHA1", 20, b)); return out }
func zzHcSHA224(b []byte) (out [28]byte) { copy(out[:], zzsymUF("SHA224", 28, b)); return out }
func zzHcSHA256(b []byte) (out [32]byte) { copy(out[:], zzsymUF("SHA256", 32, b)); return out }
func zzHcSHA384(b []byte) (out [48]byte) { copy(out[:], zzsymUF("SHA384", 48, b)); return out }
func zzHcSHA512(b []byte) (out [64]byte) { copy(out[:], zzsymUF("SHA512", 64, b)); return out }

// zzHcDigest is the ORACLE: the IANA TLS HashAlgorithm registry (RFC 5246 7.4.1.4.1) - 1 md5, 2 sha1, 3 sha224,
// 4 sha256, 5 sha384, 6 sha512; every other value (0 none, 8 Intrinsic/Ed25519, unassigned) names no hash
// function and yields nil.
func zzHcDigest(a hash.Algorithm, b []byte) []byte {
	switch a {
	case 1:
		return zzsymUF("MD5", 16, b)
	case 2:
		return zzsymUF("SHA1", 20, b)
	case 3:
		return zzsymUF("SHA224", 28, b)
	case 4:
		return zzsymUF("SHA256", 32, b)
	case 5:
		return zzsymUF("SHA384", 48, b)
	case 6:
		return zzsymUF("SHA512", 64, b)
	}

	return nil
}

func zzHcIsPSS(s signature.Algorithm) bool {
	return (s >= 0x0804 && s <= 0x0806) || (s >= 0x0809 && s <= 0x080b)
}

// zzHcCheckFit: a successful verification proves possession of the leaf key only if (1) the scheme the peer named
// is one for the leaf's key type - Ed25519 key: ed25519 (hash 8 "Intrinsic", signature 7); ECDSA key: signature 3
// with a real hash; RSA key: signature 1 with a real hash or an rsa_pss code point - and (2) what the ECDSA / RSA
// primitive verified is the non-empty digest of the signed message under the hash the scheme names.
func zzHcCheckFit(h hash.Algorithm, s signature.Algorithm, msg []byte) {
	realHash := h >= 1 && h <= 6
	if zzHc.keyKind == zzHcKeyECDSA || zzHc.keyKind == zzHcKeyRSA {
		zzsymAssert(len(zzHc.primMsg) > 0, "hc_digest_never_empty")
		zzsymAssert(zzsymEqBytes(zzHc.primMsg, zzHcDigest(h, msg)), "hc_digest_of_named_hash_over_message")
	}
	switch zzHc.keyKind {
	case zzHcKeyEd25519:
		zzsymAssert(s == signature.Ed25519 && h == hash.Ed25519, "hc_scheme_must_fit_leaf_key_type")
	case zzHcKeyECDSA:
		zzsymAssert(s == signature.ECDSA && realHash, "hc_scheme_must_fit_leaf_key_type")
	case zzHcKeyRSA:
		zzsymAssert((s == signature.RSA || zzHcIsPSS(s)) && realHash, "hc_scheme_must_fit_leaf_key_type")
	}
}

func zzHcParseCertificate(der []byte) (*x509.Certificate, error) {
	zzHc.parsedDER = append(zzHc.parsedDER, der)
	if !zzsymBool("der_parses") {
		zzHc.parseFails = true

		return nil, zzHcErr
	}
	c := &x509.Certificate{Raw: der, SignatureAlgorithm: zzHc.chainAlg}
	switch zzHc.keyKind {
	case zzHcKeyEd25519:
		c.PublicKey = ed25519.PublicKey(make([]byte, 32))
	case zzHcKeyECDSA:
		c.PublicKey = &ecdsa.PublicKey{}
	case zzHcKeyRSA:
		c.PublicKey = &rsa.PublicKey{}
	default:
		c.PublicKey = "unsupported key type"
	}
	zzHc.parsed = append(zzHc.parsed, c)

	return c, nil
}

func zzHcPrim(key any, msg, sig []byte) bool {
	zzHc.primCalls++
	zzHc.primKey, zzHc.primMsg, zzHc.primSig = key, msg, sig
	zzHc.primOK = zzsymBool("signature_valid")

	return zzHc.primOK
}

func zzHcEd25519Verify(pub ed25519.PublicKey, msg, sig []byte) bool { return zzHcPrim(pub, msg, sig) }

func zzHcECDSAVerify(pub *ecdsa.PublicKey, digest []byte, r, s *big.Int) bool {
	zzHc.primR, zzHc.primS = r, s

	return zzHcPrim(pub, digest, nil)
}

func zzHcVerifyPKCS1v15(pub *rsa.PublicKey, h crypto.Hash, digest, sig []byte) error {
	zzHc.primHash = h
	if !zzHcPrim(pub, digest, sig) {
		return zzHcErr
	}

	return nil
}

func zzHcVerifyPSS(pub *rsa.PublicKey, h crypto.Hash, digest, sig []byte, _ *rsa.PSSOptions) error {
	zzHc.primHash, zzHc.primPSS = h, true
	if !zzHcPrim(pub, digest, sig) {
		return zzHcErr
	}

	return nil
}

// zzHcAsn1Unmarshal serves the two uses in this package: the ECDSA-Sig-Value (r, s) of a signature and the
// SubjectPublicKeyInfo algorithm OID for the RSA-PSS consistency check.
func zzHcAsn1Unmarshal(b []byte, val any) ([]byte, error) {
	switch v := val.(type) {
	case *ecdsaSignature:
		zzHc.asn1Sig = b
		switch zzsymChoice("ecdsa_sig_value", 4) {
		case 0:
			return nil, zzHcErr
		case 1:
			v.R, v.S = big.NewInt(5), big.NewInt(0)
		case 2:
			v.R, v.S = big.NewInt(-3), big.NewInt(7)
		default:
			v.R, v.S = big.NewInt(5), big.NewInt(7)
		}
		zzHc.asn1R, zzHc.asn1S = v.R, v.S

		return nil, nil
	case *struct {
		Algorithm pkix.AlgorithmIdentifier
		PublicKey asn1.BitString
	}:
		zzHc.pssOID = zzsymChoice("spki_oid", 2)
		if zzHc.pssOID == 0 {
			v.Algorithm.Algorithm = asn1.ObjectIdentifier{1, 2, 840, 113549, 1, 1, 1} // rsaEncryption
		} else {
			v.Algorithm.Algorithm = asn1.ObjectIdentifier{1, 2, 840, 113549, 1, 1, 10} // id-RSASSA-PSS
		}

		return nil, nil
	}

	return nil, zzHcErr
}

func zzHcCertVerify(c *x509.Certificate, opts x509.VerifyOptions) ([][]*x509.Certificate, error) {
	zzHc.verifyCalls++
	zzHc.verifyRecv, zzHc.verifyOpts = c, opts
	zzHc.verifyOK = zzsymBool("chain_valid")
	if !zzHc.verifyOK {
		return nil, zzHcErr
	}
	root := &x509.Certificate{SignatureAlgorithm: x509.MD5WithRSA} // the trust anchor's own signature is never checked

	return [][]*x509.Certificate{{c, root}}, nil
}

func zzHcNewCertPool() *x509.CertPool { return new(x509.CertPool) }

func zzHcAddCert(p *x509.CertPool, c *x509.Certificate) {
	zzHc.pools = append(zzHc.pools, zzHcPoolEntry{p, c})
}

func zzHcScheme(i int) (hash.Algorithm, signature.Algorithm) {
	switch i {
	case 0:
		return hash.Ed25519, signature.Ed25519
	case 1:
		return hash.SHA256, signature.ECDSA
	case 2:
		return hash.SHA384, signature.RSA
	case 3:
		return hash.SHA256, signature.RSA_PSS_RSAE_SHA256
	}

	return hash.SHA512, signature.RSA_PSS_PSS_SHA512
}

func zzHcCryptoHash(h hash.Algorithm) crypto.Hash {
	switch h {
	case hash.SHA256:
		return crypto.SHA256
	case hash.SHA384:
		return crypto.SHA384
	case hash.SHA512:
		return crypto.SHA512
	}

	return 0
}

// handshakecrypto.VerifyKeySignature and VerifyCertificateVerify (the real code) on an arbitrary 3-byte message,
// 2-byte signature, a certificate list of 0, 1 or 2 arbitrary 2-byte entries, leaf key type Ed25519 / ECDSA /
// RSA / unsupported, scheme ed25519 / ecdsa_sha256 / rsa_pkcs1_sha384 / rsa_pss_rsae_sha256 /
// rsa_pss_pss_sha512, with the Go standard library cut off at its API (arbitrary verdicts). Proved: nil is
// returned only if the list is non-empty, its FIRST entry parsed, and exactly one std verification primitive
// was called with the parsed leaf's public key and returned "valid": ed25519.Verify on the message itself and
// the signature bytes; ecdsa.Verify on Digest_hash(message) with the (r, s) decoded from the signature bytes,
// both strictly positive; rsa.VerifyPKCS1v15 / VerifyPSS on Digest_hash(message), the signature bytes and the
// scheme's hash identifier, PSS exactly for the rsa_pss code points and only when the certificate's key OID
// matches the code point family (rsaEncryption for RSAE, id-RSASSA-PSS for PSS). An empty list, an unparsable
// leaf, an unsupported key type, a non-positive r or s, or a "invalid" verdict give an error.
//
//symgo:entry covers=ok_ed25519,ok_ecdsa,ok_rsa_pkcs1,ok_rsa_pss,refused_empty_list,refused_unparsable,refused_invalid,refused_key_type,refused_nonpositive,refused_pss_oid
func zzHcVerifySignature() {
	zzHc = zzHcRec{}
	zzHc.keyKind = zzsymChoice("leaf_key", 4)
	nCerts := zzsymChoice("ncerts", 3)
	scheme := zzsymChoice("scheme", 5)
	viaCV := zzsymChoice("certificate_verify", 2) == 1
	msg := zzsymBytes("message", 3)
	sig := zzsymBytes("signature", 2)
	certs := [][]byte{}
	for i := 0; i < nCerts; i++ {
		certs = append(certs, zzsymBytes("der", 2))
	}
	h, s := zzHcScheme(scheme)

	var err error
	if viaCV {
		err = VerifyCertificateVerify(msg, h, s, sig, certs)
	} else {
		err = VerifyKeySignature(msg, sig, h, s, certs)
	}
	if err != nil {
		switch {
		case nCerts == 0:
			zzsymAssert(zzHc.primCalls == 0, "hc_nothing_verified_without_certificate")
			zzsymCover("refused_empty_list")
		case zzHc.parseFails:
			zzsymCover("refused_unparsable")
		case zzHc.keyKind == zzHcKeyOther:
			zzsymCover("refused_key_type")
		case zzHc.primCalls == 0 && !zzHcFits(zzHc.keyKind, h, s):
			zzsymCover("refused_scheme_mismatch")
		case zzHc.primCalls == 1 && !zzHc.primOK:
			zzsymCover("refused_invalid")
		case zzHc.keyKind == zzHcKeyECDSA && zzHc.asn1R != nil && (zzHc.asn1R.Sign() <= 0 || zzHc.asn1S.Sign() <= 0):
			zzsymCover("refused_nonpositive")
		case scheme >= 3 && zzHc.primCalls == 0:
			zzsymCover("refused_pss_oid")
		}

		return
	}
	zzsymAssert(nCerts >= 1, "hc_ok_needs_certificate")
	zzsymAssert(len(zzHc.parsedDER) == 1, "hc_only_leaf_parsed")
	zzsymAssert(zzsymEqBytes(zzHc.parsedDER[0], certs[0]), "hc_leaf_is_first_certificate")
	zzsymAssert(!zzHc.parseFails, "hc_leaf_parsed")
	zzsymAssert(zzsymAnd(zzHc.primCalls == 1, zzHc.primOK), "hc_signature_primitive_says_valid")
	zzHcCheckFit(h, s, msg)
	leaf := zzHc.parsed[0]
	isPSS := scheme >= 3
	if isPSS {
		zzsymAssert((scheme == 3 && zzHc.pssOID == 0) || (scheme == 4 && zzHc.pssOID == 1), "hc_pss_family_matches_key_oid")
	}
	switch zzHc.keyKind {
	case zzHcKeyEd25519:
		k, ok := zzHc.primKey.(ed25519.PublicKey)
		zzsymAssert(ok && &k[0] == &leaf.PublicKey.(ed25519.PublicKey)[0], "hc_verified_with_leaf_key")
		zzsymAssert(zzsymEqBytes(zzHc.primMsg, msg), "hc_ed25519_over_message")
		zzsymAssert(zzsymEqBytes(zzHc.primSig, sig), "hc_wire_signature")
		zzsymCover("ok_ed25519")
	case zzHcKeyECDSA:
		k, ok := zzHc.primKey.(*ecdsa.PublicKey)
		zzsymAssert(ok && k == leaf.PublicKey.(*ecdsa.PublicKey), "hc_verified_with_leaf_key")
		zzsymAssert(zzsymEqBytes(zzHc.primMsg, zzHcDigest(h, msg)), "hc_ecdsa_over_digest_of_message")
		zzsymAssert(zzsymEqBytes(zzHc.asn1Sig, sig), "hc_wire_signature")
		zzsymAssert(zzHc.primR == zzHc.asn1R && zzHc.primS == zzHc.asn1S, "hc_ecdsa_r_s_from_signature")
		zzsymAssert(zzHc.primR.Sign() > 0 && zzHc.primS.Sign() > 0, "hc_ecdsa_r_s_positive")
		zzsymCover("ok_ecdsa")
	case zzHcKeyRSA:
		k, ok := zzHc.primKey.(*rsa.PublicKey)
		zzsymAssert(ok && k == leaf.PublicKey.(*rsa.PublicKey), "hc_verified_with_leaf_key")
		zzsymAssert(zzsymEqBytes(zzHc.primMsg, zzHcDigest(h, msg)), "hc_rsa_over_digest_of_message")
		zzsymAssert(zzsymEqBytes(zzHc.primSig, sig), "hc_wire_signature")
		zzsymAssert(zzHc.primHash == zzHcCryptoHash(h), "hc_rsa_hash_identifier")
		zzsymAssert(zzHc.primPSS == isPSS, "hc_pss_iff_pss_scheme")
		if isPSS {
			zzsymCover("ok_rsa_pss")
		} else {
			zzsymCover("ok_rsa_pkcs1")
		}
	default:
		zzsymFail("hc_unsupported_key_type_accepted")
	}
}

func zzHcInPool(p *x509.CertPool, c *x509.Certificate) bool {
	for _, e := range zzHc.pools {
		if e.pool == p && e.cert == c {
			return true
		}
	}

	return false
}

// handshakecrypto.VerifyServerCert and VerifyClientCert (the real code) on a certificate list of 0..3 arbitrary
// 2-byte entries, an arbitrary 3-byte server name, a signature_algorithms_cert policy {none, ecdsa_sha256 only}
// and leaf certificates signed with ECDSA-SHA256 or SHA1-RSA, with x509 cut off at its API. Proved: chains are
// returned without error only if the list is non-empty, EVERY entry parsed, and (*x509.Certificate).Verify was
// called once, on the parsed FIRST entry, with Roots = the pool passed in (cfg.RootCAs / cfg.ClientCAs),
// Intermediates = a fresh pool holding exactly the parsed remaining entries, and - server - DNSName = the
// configured server name and default key usage (server authentication), - client - no DNS name and key usage
// ClientAuth; it returned a chain; and under a signature_algorithms_cert policy the chain's non-root
// certificates are signed with a listed algorithm.
//
//symgo:entry covers=server_ok,client_ok,refused_empty_list,refused_unparsable,refused_chain,refused_cert_alg
func zzHcVerifyChain() {
	zzHc = zzHcRec{}
	zzHc.keyKind = zzHcKeyECDSA
	nCerts := zzsymChoice("ncerts", 4)
	server := zzsymChoice("server", 2) == 1
	zzHc.chainAlg = x509.ECDSAWithSHA256
	if zzsymChoice("leaf_sig_alg", 2) == 1 {
		zzHc.chainAlg = x509.SHA1WithRSA
	}
	var policy []signaturehash.Algorithm
	if zzsymChoice("cert_alg_policy", 2) == 1 {
		policy = []signaturehash.Algorithm{{Hash: hash.SHA256, Signature: signature.ECDSA}}
	}
	name := zzsymString("server_name", 3)
	roots := new(x509.CertPool)
	certs := [][]byte{}
	for i := 0; i < nCerts; i++ {
		certs = append(certs, zzsymBytes("der", 2))
	}

	var chains [][]*x509.Certificate
	var err error
	if server {
		chains, err = VerifyServerCert(certs, roots, name, policy)
	} else {
		chains, err = VerifyClientCert(certs, roots, policy)
	}
	if err != nil {
		zzsymAssert(chains == nil, "hc_no_chain_with_error")
		switch {
		case nCerts == 0:
			zzsymAssert(zzHc.verifyCalls == 0, "hc_nothing_verified_without_certificate")
			zzsymCover("refused_empty_list")
		case zzHc.parseFails:
			zzsymAssert(zzHc.verifyCalls == 0, "hc_nothing_verified_when_unparsable")
			zzsymCover("refused_unparsable")
		case zzHc.verifyCalls == 1 && !zzHc.verifyOK:
			zzsymCover("refused_chain")
		default:
			zzsymAssert(policy != nil && zzHc.chainAlg == x509.SHA1WithRSA, "hc_only_policy_refuses_valid_chain")
			zzsymCover("refused_cert_alg")
		}

		return
	}
	zzsymAssert(nCerts >= 1, "hc_ok_needs_certificate")
	zzsymAssert(len(zzHc.parsedDER) == nCerts && len(zzHc.parsed) == nCerts, "hc_every_certificate_parsed")
	for i := 0; i < nCerts; i++ {
		zzsymAssert(zzsymEqBytes(zzHc.parsedDER[i], certs[i]), "hc_parsed_in_order")
	}
	zzsymAssert(zzsymAnd(zzHc.verifyCalls == 1, zzHc.verifyOK), "hc_chain_valid")
	zzsymAssert(zzHc.verifyRecv == zzHc.parsed[0], "hc_chain_built_for_leaf")
	zzsymAssert(zzHc.verifyOpts.Roots == roots, "hc_chain_to_configured_roots")
	inter := zzHc.verifyOpts.Intermediates
	zzsymAssert(inter != nil && inter != roots, "hc_separate_intermediate_pool")
	zzsymAssert(len(zzHc.pools) == nCerts-1, "hc_only_presented_intermediates")
	for i := 1; i < nCerts; i++ {
		zzsymAssert(zzHcInPool(inter, zzHc.parsed[i]), "hc_intermediates_are_rest_of_list")
	}
	zzsymAssert(!zzHcInPool(roots, zzHc.parsed[0]), "hc_peer_certificates_never_become_roots")
	zzsymAssert(len(chains) == 1 && chains[0][0] == zzHc.parsed[0], "hc_returned_chain_starts_at_leaf")
	if policy != nil {
		zzsymAssert(zzHc.chainAlg == x509.ECDSAWithSHA256, "hc_certificate_signature_algorithm_allowed")
	}
	if server {
		zzsymAssert(zzsymEqStr(zzHc.verifyOpts.DNSName, name), "hc_server_name_checked")
		zzsymAssert(len(zzHc.verifyOpts.KeyUsages) == 0, "hc_server_default_key_usage")
		zzsymCover("server_ok")
	} else {
		zzsymAssert(zzHc.verifyOpts.DNSName == "", "hc_client_no_dns_name")
		zzsymAssert(len(zzHc.verifyOpts.KeyUsages) == 1 && zzHc.verifyOpts.KeyUsages[0] == x509.ExtKeyUsageClientAuth, "hc_client_key_usage")
		zzsymCover("client_ok")
	}
}


// zzHcFits: the oracle predicate of zzHcCheckFit as a plain function (concrete arguments).
func zzHcFits(key int, h hash.Algorithm, s signature.Algorithm) bool {
	realHash := h >= 1 && h <= 6
	switch key {
	case zzHcKeyEd25519:
		return s == signature.Ed25519 && h == hash.Ed25519
	case zzHcKeyECDSA:
		return s == signature.ECDSA && realHash
	case zzHcKeyRSA:
		return (s == signature.RSA || zzHcIsPSS(s)) && realHash
	}

	return false
}

// handshakecrypto.VerifyKeySignature / VerifyCertificateVerify on a one-certificate list whose leaf key is
// Ed25519, ECDSA or RSA, for EVERY (hash, signature) pair - both 16-bit values symbolic, so including 8/7
// (ed25519), 0/x (hash none), unassigned values and the rsa_pss code points - an arbitrary 3-byte message and
// 2-byte signature, std primitives cut off at their API. Proved: nil (signature accepted) is returned only if
// the pair is a scheme for the leaf's key type [label hc_scheme_must_fit_leaf_key_type] and, for ECDSA and RSA
// keys, the primitive was handed a non-empty digest [hc_digest_never_empty] equal to Hash_h(message) for the hash
// function h names in the IANA registry. Counter-example this excludes: ECDSA leaf, scheme ed25519 (8, 7), for
// which Digest returns nil and ecdsa.Verify on an empty digest accepts a signature anyone can compute from the
// public key (r = (uQ).x, s = r/u).
//
//symgo:entry covers=ok_ed25519,ok_ecdsa,ok_rsa_pkcs1,ok_rsa_pss,refused_mismatch,refused_invalid
func zzHcSchemeFitsKey() {
	zzHc = zzHcRec{}
	zzHc.keyKind = zzsymChoice("leaf_key", 3)
	viaCV := zzsymChoice("certificate_verify", 2) == 1
	h := hash.Algorithm(zzsymU16("hash_algorithm"))
	s := signature.Algorithm(zzsymU16("signature_algorithm"))
	pss := zzHcIsPSS(s)
	if pss {
		want := hash.SHA512
		switch s {
		case signature.RSA_PSS_RSAE_SHA256, signature.RSA_PSS_PSS_SHA256:
			want = hash.SHA256
		case signature.RSA_PSS_RSAE_SHA384, signature.RSA_PSS_PSS_SHA384:
			want = hash.SHA384
		}
		zzsymAssume(h == want)
	}
	msg := zzsymBytes("message", 3)
	sig := zzsymBytes("signature", 2)
	certs := [][]byte{zzsymBytes("der", 2)}

	var err error
	if viaCV {
		err = VerifyCertificateVerify(msg, h, s, sig, certs)
	} else {
		err = VerifyKeySignature(msg, sig, h, s, certs)
	}
	if err != nil {
		if zzHc.primCalls == 1 && !zzHc.primOK {
			zzsymCover("refused_invalid")
		} else if !zzHc.parseFails && zzHc.primCalls == 0 && !zzHcFits(zzHc.keyKind, h, s) {
			zzsymCover("refused_mismatch")
		}

		return
	}
	zzsymAssert(zzsymAnd(zzHc.primCalls == 1, zzHc.primOK), "hc_signature_primitive_says_valid")
	zzHcCheckFit(h, s, msg)
	switch {
	case zzHc.keyKind == zzHcKeyEd25519:
		zzsymAssert(zzsymEqBytes(zzHc.primMsg, msg), "hc_ed25519_over_message")
		zzsymCover("ok_ed25519")
	case zzHc.keyKind == zzHcKeyECDSA:
		zzsymCover("ok_ecdsa")
	case pss:
		zzsymAssert(zzHc.primPSS, "hc_pss_iff_pss_scheme")
		zzsymCover("ok_rsa_pss")
	default:
		zzsymAssert(!zzHc.primPSS, "hc_pss_iff_pss_scheme")
		zzsymCover("ok_rsa_pkcs1")
	}
}
