package dtls

// GENERATED from harness/C11/suite.go (only zzSuiteParse is kept as an entry). C03 relies on it: the client handlers
// authenticate the server by certificate only when the negotiated suite is a certificate suite and by the pre-shared
// key only when a PSK callback exists - so a suite whose credential kind is NOT configured must never be in the
// endpoint's list (a certificate-only client that kept TLS_ECDHE_PSK_* would complete an unauthenticated handshake).

//symgo:pkg github.com/pion/dtls/v3
//symgo:param NID quick=6 thorough=21
//symgo:param NLIST quick=2 thorough=2
//symgo:param NMATCHID quick=6 thorough=9
//symgo:stub private keys are harness fakes implementing crypto.Signer whose Public() returns a zero ed25519/ecdsa/rsa public key (only the dynamic type is inspected by the code under test)
//symgo:outside custom (user supplied) CipherSuite implementations; cipher-suite lists longer than NLIST entries
//symgo:outside DTLS 1.3 suite selection inside flight13 (only the version filters and the offer/enable intersection are covered for the three TLS 1.3 IDs)

import (
	"crypto"
	"crypto/ecdsa"
	"crypto/ed25519"
	"crypto/rsa"
	"crypto/tls"
	"io"

	"github.com/pion/dtls/v3/internal/ciphersuite"
	dtlsflight "github.com/pion/dtls/v3/internal/flight"
	"github.com/pion/dtls/v3/pkg/protocol"
)

// ---- independent oracle: the IANA registry entries of the 20 IDs pion/dtls knows (+1 unknown) --------------

const (
	zzAuthCert = 1 // certificate authenticated (ECDHE_ECDSA / ECDHE_RSA)
	zzAuthPSK  = 2 // PSK / ECDHE_PSK
	zzAuthNone = 3 // TLS 1.3 suite: AEAD+hash only, no authentication/key-exchange bound to the ID

	zzKeyNone  = 0
	zzKeyECDSA = 1 // ECDHE_ECDSA_*: needs an ECDSA or EdDSA key (RFC 8422 5.3)
	zzKeyRSA   = 2 // ECDHE_RSA_*: needs an RSA key
)

type zzSuiteInfo struct {
	id    uint16
	auth  int
	key   int
	v13   bool // TLS 1.3 registry entry (usable only with DTLS 1.3); all others only with DTLS 1.2
	known bool
}

// The first six rows are one representative per class (quick tier); the thorough tier uses all 21 rows.
func zzSuiteTable() []zzSuiteInfo {
	return []zzSuiteInfo{
		{0xc02b, zzAuthCert, zzKeyECDSA, false, true}, // TLS_ECDHE_ECDSA_WITH_AES_128_GCM_SHA256
		{0xc02f, zzAuthCert, zzKeyRSA, false, true},   // TLS_ECDHE_RSA_WITH_AES_128_GCM_SHA256
		{0x00a8, zzAuthPSK, zzKeyNone, false, true},   // TLS_PSK_WITH_AES_128_GCM_SHA256
		{0x1301, zzAuthNone, zzKeyNone, true, true},   // TLS_AES_128_GCM_SHA256
		{0x0005, 0, 0, false, false},                  // TLS_RSA_WITH_RC4_128_SHA: not implemented by pion/dtls
		{0xc037, zzAuthPSK, zzKeyNone, false, true},   // TLS_ECDHE_PSK_WITH_AES_128_CBC_SHA256
		{0xc0ac, zzAuthCert, zzKeyECDSA, false, true}, // TLS_ECDHE_ECDSA_WITH_AES_128_CCM
		{0xc0ae, zzAuthCert, zzKeyECDSA, false, true}, // TLS_ECDHE_ECDSA_WITH_AES_128_CCM_8
		{0xc02c, zzAuthCert, zzKeyECDSA, false, true}, // TLS_ECDHE_ECDSA_WITH_AES_256_GCM_SHA384
		{0xc030, zzAuthCert, zzKeyRSA, false, true},   // TLS_ECDHE_RSA_WITH_AES_256_GCM_SHA384
		{0xc00a, zzAuthCert, zzKeyECDSA, false, true}, // TLS_ECDHE_ECDSA_WITH_AES_256_CBC_SHA
		{0xc014, zzAuthCert, zzKeyRSA, false, true},   // TLS_ECDHE_RSA_WITH_AES_256_CBC_SHA
		{0xc0a4, zzAuthPSK, zzKeyNone, false, true},   // TLS_PSK_WITH_AES_128_CCM
		{0xc0a8, zzAuthPSK, zzKeyNone, false, true},   // TLS_PSK_WITH_AES_128_CCM_8
		{0xc0a9, zzAuthPSK, zzKeyNone, false, true},   // TLS_PSK_WITH_AES_256_CCM_8
		{0x00ae, zzAuthPSK, zzKeyNone, false, true},   // TLS_PSK_WITH_AES_128_CBC_SHA256
		{0xcca9, zzAuthCert, zzKeyECDSA, false, true}, // TLS_ECDHE_ECDSA_WITH_CHACHA20_POLY1305_SHA256
		{0xcca8, zzAuthCert, zzKeyRSA, false, true},   // TLS_ECDHE_RSA_WITH_CHACHA20_POLY1305_SHA256
		{0xccab, zzAuthPSK, zzKeyNone, false, true},   // TLS_PSK_WITH_CHACHA20_POLY1305_SHA256
		{0x1302, zzAuthNone, zzKeyNone, true, true},   // TLS_AES_256_GCM_SHA384
		{0x1303, zzAuthNone, zzKeyNone, true, true},   // TLS_CHACHA20_POLY1305_SHA256
	}
}

func zzSuiteLookup(id uint16) zzSuiteInfo {
	for _, row := range zzSuiteTable() {
		if row.id == id {
			return row
		}
	}

	return zzSuiteInfo{id: id}
}

// zzSupportsLevel: does the registry entry work with DTLS 1.2 (level 2) / DTLS 1.3 (level 3)?
func zzSupportsLevel(info zzSuiteInfo, level int) bool {
	if !info.known {
		return false
	}
	if info.v13 {
		return level == 3
	}

	return level == 2
}

// zzPickIDs forks over every list of 0..maxLen IDs drawn from the first nid table rows.
func zzPickIDs(name string, maxLen, nid int) []CipherSuiteID {
	n := zzsymChoice(name+"_len", maxLen+1)
	ids := make([]CipherSuiteID, 0, n)
	table := zzSuiteTable()
	for i := 0; i < n; i++ {
		ids = append(ids, CipherSuiteID(table[zzsymChoice(name+"_id", nid)].id))
	}

	return ids
}

func zzContainsID(ids []CipherSuiteID, id CipherSuiteID) bool {
	for _, x := range ids {
		if x == id {
			return true
		}
	}

	return false
}

func zzSuitesContain(suites []ciphersuite.CipherSuite, id CipherSuiteID) bool {
	for _, s := range suites {
		if s.ID() == id {
			return true
		}
	}

	return false
}

// zzSuitesFor builds real suite objects for the known IDs of the list (unknown IDs have no object).
func zzSuitesFor(ids []CipherSuiteID) []ciphersuite.CipherSuite {
	out := []ciphersuite.CipherSuite{}
	for _, id := range ids {
		if s := ciphersuite.ForID(id, nil); s != nil {
			out = append(out, s)
		}
	}

	return out
}

func zzVersionOfLevel(level int) protocol.Version {
	if level == 3 {
		return protocol.Version1_3
	}

	return protocol.Version1_2
}

// fake private keys: only the dynamic type of Public() matters to the code under test
type zzSigner struct{ pub crypto.PublicKey }

func (k zzSigner) Public() crypto.PublicKey { return k.pub }
func (k zzSigner) Sign(io.Reader, []byte, crypto.SignerOpts) ([]byte, error) {
	return []byte{1}, nil
}

const (
	zzCertNone      = 0 // no certificate configured (nil)
	zzCertECDSA     = 1
	zzCertEd25519   = 2
	zzCertRSA       = 3
	zzCertNoPrivKey = 4 // certificate without private key
	zzCertKinds     = 5
)

func zzCertificate(kind int) *tls.Certificate {
	switch kind {
	case zzCertECDSA:
		return &tls.Certificate{PrivateKey: zzSigner{pub: &ecdsa.PublicKey{}}}
	case zzCertEd25519:
		return &tls.Certificate{PrivateKey: zzSigner{pub: ed25519.PublicKey{}}}
	case zzCertRSA:
		return &tls.Certificate{PrivateKey: zzSigner{pub: &rsa.PublicKey{}}}
	case zzCertNoPrivKey:
		return &tls.Certificate{}
	}

	return nil
}

// zzKeyFits: the suite's registry key class fits the configured key kind.
func zzKeyFits(info zzSuiteInfo, certKind int) bool {
	switch info.key {
	case zzKeyECDSA:
		return certKind == zzCertECDSA || certKind == zzCertEd25519
	case zzKeyRSA:
		return certKind == zzCertRSA
	}

	return true
}

// Endpoint policy -> enabled suite list. parseCipherSuitesForVersions for every explicit ID list of 0..NLIST
// entries from NID registry rows (and the nil "defaults" list), every reachable certificate/PSK inclusion
// combination and every ordered version range: whenever it succeeds the result is non-empty, contains only IDs
// the user listed (when a list was given), only suites usable with some version inside the endpoint's range,
// and only suites whose authentication kind the endpoint can perform (certificate suites need
// includeCertificate, PSK suites need a PSK callback). Unknown IDs are refused.
//
//symgo:entry covers=parsed_user,parsed_default,refused_unknown,refused_empty,dropped_out_of_range
func zzSuiteParse() {
	nid := zzsymParam("NID")
	var user []CipherSuiteID
	if zzsymChoice("user_given", 2) == 1 {
		user = zzPickIDs("user", zzsymParam("NLIST"), nid)
	}
	// includeCertificateSuites() is true whenever psk == nil, so (false,false) is unreachable
	var includeCert, includePSK bool
	switch zzsymChoice("auth", 3) {
	case 0:
		includeCert = true
	case 1:
		includePSK = true
	default:
		includeCert, includePSK = true, true
	}
	// effectiveProtocolVersionRange always yields an ordered range of the two known versions
	lo, hi := 2, 2
	switch zzsymChoice("range", 3) {
	case 1:
		hi = 3
	case 2:
		lo, hi = 3, 3
	}
	suites, err := parseCipherSuitesForVersions(user, nil, includeCert, includePSK,
		zzVersionOfLevel(lo), zzVersionOfLevel(hi))

	anyUnknown := false
	for _, id := range user {
		if !zzSuiteLookup(uint16(id)).known {
			anyUnknown = true
		}
	}
	if err != nil {
		zzsymAssert(suites == nil, "error_returns_no_suites")
		if anyUnknown {
			zzsymCover("refused_unknown")
		} else {
			zzsymCover("refused_empty")
		}

		return
	}
	zzsymAssert(!anyUnknown, "unknown_id_refused")
	zzsymAssert(len(suites) > 0, "success_is_non_empty")
	for _, s := range suites {
		info := zzSuiteLookup(uint16(s.ID()))
		zzsymAssert(info.known, "enabled_suite_is_registered")
		if user != nil {
			zzsymAssert(zzContainsID(user, s.ID()), "enabled_suite_was_listed_by_user")
		}
		zzsymAssert((lo <= 2 && 2 <= hi && zzSupportsLevel(info, 2)) || (lo <= 3 && 3 <= hi && zzSupportsLevel(info, 3)),
			"enabled_suite_supports_a_version_in_range")
		zzsymAssert(info.auth != zzAuthCert || includeCert, "certificate_suite_only_with_certificate_policy")
		zzsymAssert(info.auth != zzAuthPSK || includePSK, "psk_suite_only_with_psk_policy")
	}
	if user != nil {
		zzsymCover("parsed_user")
		if len(suites) < len(user) {
			zzsymCover("dropped_out_of_range")
		}
	} else {
		zzsymCover("parsed_default")
	}
}

// The three list filters applied in Conn.HandshakeContext. For every list of 0..NLIST known suites, every
// server key kind (none, ECDSA, Ed25519, RSA, certificate without key) and both versions:
// filterCipherSuitesForCertificate, filterCipherSuitesForVersion and filterCipherSuitesForVersions only ever
// remove entries (output IDs are a subset of the input); after the certificate filter every remaining
// certificate-authenticated suite fits the server's key type (when a key is configured); after the version
// filters every remaining suite supports the negotiated version / some version of the range.
//
func zzSuiteFilters() {
	ids := zzPickIDs("in", zzsymParam("NLIST"), zzsymParam("NID"))
	in := zzSuitesFor(ids)
	certKind := zzsymChoice("cert", zzCertKinds)
	hasKey := certKind == zzCertECDSA || certKind == zzCertEd25519 || certKind == zzCertRSA

	byCert := filterCipherSuitesForCertificate(zzCertificate(certKind), in)
	for _, s := range byCert {
		zzsymAssert(zzSuitesContain(in, s.ID()), "cert_filter_adds_nothing")
		info := zzSuiteLookup(uint16(s.ID()))
		if hasKey {
			zzsymAssert(zzKeyFits(info, certKind), "suite_fits_server_key_type")
			if info.auth == zzAuthCert {
				zzsymCover("kept_fitting")
			}
		}
	}
	if hasKey && len(byCert) < len(in) {
		zzsymCover("removed_misfit")
	}
	if !hasKey {
		zzsymAssert(len(byCert) == len(in), "no_key_no_filtering")
		zzsymCover("no_key_keeps_all")
	}
	// the filter must not drop suites that do fit (else "no common suite" failures would be spurious) —
	// not part of C11, not asserted.

	level := 2 + zzsymChoice("version", 2)
	byVersion := filterCipherSuitesForVersion(byCert, zzVersionOfLevel(level))
	for _, s := range byVersion {
		zzsymAssert(zzSuitesContain(byCert, s.ID()), "version_filter_adds_nothing")
		zzsymAssert(zzSupportsLevel(zzSuiteLookup(uint16(s.ID())), level), "suite_supports_negotiated_version")
	}
	if len(byVersion) < len(byCert) {
		zzsymCover("removed_wrong_version")
	}

	lo, hi := 2, 2
	switch zzsymChoice("range", 3) {
	case 1:
		hi = 3
	case 2:
		lo, hi = 3, 3
	}
	byRange := filterCipherSuitesForVersions(in, zzVersionOfLevel(lo), zzVersionOfLevel(hi))
	for _, s := range byRange {
		zzsymAssert(zzSuitesContain(in, s.ID()), "range_filter_adds_nothing")
		info := zzSuiteLookup(uint16(s.ID()))
		zzsymAssert((lo <= 2 && 2 <= hi && zzSupportsLevel(info, 2)) || (lo <= 3 && 3 <= hi && zzSupportsLevel(info, 3)),
			"suite_supports_a_version_in_range")
	}
}

// The selection itself. FindMatchingCipherSuite(client offer, server enabled) for every pair of lists of
// 0..NLIST suites from NMATCHID registry rows: a match is reported iff the two lists share an ID, and the
// selected suite's ID is in the client's offer AND in the server's enabled list.
//
func zzSuiteMatch() {
	nid := zzsymParam("NMATCHID")
	offerIDs := zzPickIDs("offer", zzsymParam("NLIST"), nid)
	enabledIDs := zzPickIDs("enabled", zzsymParam("NLIST"), nid)
	offer, enabled := zzSuitesFor(offerIDs), zzSuitesFor(enabledIDs)

	common := false
	for _, a := range offer {
		if zzSuitesContain(enabled, a.ID()) {
			common = true
		}
	}
	sel, ok := dtlsflight.FindMatchingCipherSuite(offer, enabled)
	if !ok {
		zzsymAssert(!common, "no_match_only_without_common_suite")
		zzsymAssert(sel == nil, "no_match_returns_nil")
		zzsymCover("no_intersection")

		return
	}
	zzsymAssert(common, "match_needs_common_suite")
	zzsymAssert(zzContainsID(offerIDs, sel.ID()), "selected_suite_offered_by_client")
	zzsymAssert(zzContainsID(enabledIDs, sel.ID()), "selected_suite_enabled_on_server")
	zzsymCover("matched")
}
