package dtls

//symgo:pkg github.com/pion/dtls/v3
//symgo:replace github.com/pion/dtls/v3/internal/handshakecrypto.VerifyServerCert zzSNVerifyServerCert
//symgo:replace github.com/pion/dtls/v3/internal/handshakecrypto.VerifyKeySignature zzSNVerifyKeySignature
//symgo:replace github.com/pion/dtls/v3/pkg/crypto/prf.MasterSecret zzSNMasterSecret
//symgo:replace crypto/fips140.Enabled zzSNFipsEnabled
//symgo:stub crypto/fips140.Enabled (reads a GODEBUG setting through internal/godebug, whose package state the interpreter does not initialise) returns false
//symgo:stub handshakecrypto.VerifyServerCert records the server name (and root pool) it is asked to verify the chain for and succeeds; VerifyKeySignature succeeds; prf.MasterSecret returns a constant; the cipher suite and the logger factory are harness fakes
//symgo:outside what x509 does with the name (crypto_wrappers.go zzHcVerifyChain: it becomes VerifyOptions.DNSName, which crypto/x509 matches against IP SANs when it is an IP literal); the encoding of the server_name extension (C18)

import (
	"strings"
	"crypto/x509"
	"hash"

	"github.com/pion/dtls/v3/internal/ciphersuite"
	dtlsflight "github.com/pion/dtls/v3/internal/flight"
	"github.com/pion/dtls/v3/internal/flight/flight12"
	dtlshandshake "github.com/pion/dtls/v3/internal/handshake"
	dtlsstate "github.com/pion/dtls/v3/internal/state"
	"github.com/pion/dtls/v3/pkg/crypto/clientcertificate"
	"github.com/pion/dtls/v3/pkg/crypto/elliptic"
	dtlshash "github.com/pion/dtls/v3/pkg/crypto/hash"
	"github.com/pion/dtls/v3/pkg/crypto/prf"
	"github.com/pion/dtls/v3/pkg/crypto/signature"
	"github.com/pion/dtls/v3/pkg/crypto/signaturehash"
	"github.com/pion/dtls/v3/pkg/protocol"
	"github.com/pion/dtls/v3/pkg/protocol/handshake"
	"github.com/pion/dtls/v3/pkg/protocol/recordlayer"
	"github.com/pion/logging"
)

var (
	zzSNCalls int
	zzSNName  string
	zzSNRoots *x509.CertPool
)

func zzSNVerifyServerCert(_ [][]byte, roots *x509.CertPool, name string, _ []signaturehash.Algorithm) ([][]*x509.Certificate, error) {
	zzSNCalls++
	zzSNName, zzSNRoots = name, roots

	return nil, nil
}

func zzSNVerifyKeySignature(_, _ []byte, _ dtlshash.Algorithm, _ signature.Algorithm, _ [][]byte) error {
	return nil
}

func zzSNFipsEnabled() bool { return false }

func zzSNMasterSecret(_, _, _ []byte, _ prf.HashFunc) ([]byte, error) { return []byte{1}, nil }

type zzSNSuite struct{ initialized bool }

func (s *zzSNSuite) String() string                          { return "zzSNSuite" }
func (s *zzSNSuite) ID() ciphersuite.ID                      { return ciphersuite.TLS_ECDHE_ECDSA_WITH_AES_128_GCM_SHA256 }
func (s *zzSNSuite) CertificateType() clientcertificate.Type { return clientcertificate.ECDSASign }
func (s *zzSNSuite) HashFunc() func() hash.Hash              { return nil }
func (s *zzSNSuite) AuthenticationType() ciphersuite.AuthenticationType {
	return ciphersuite.AuthenticationTypeCertificate
}
func (s *zzSNSuite) KeyExchangeAlgorithm() ciphersuite.KeyExchangeAlgorithm {
	return ciphersuite.KeyExchangeAlgorithmEcdhe
}
func (s *zzSNSuite) ECC() bool                                               { return true }
func (s *zzSNSuite) Init(_, _, _ []byte, _ bool) error                       { s.initialized = true; return nil }
func (s *zzSNSuite) IsInitialized() bool                                     { return s.initialized }
func (s *zzSNSuite) Decrypt(_ recordlayer.Header, in []byte) ([]byte, error) { return in, nil }
func (s *zzSNSuite) Encrypt(_ *recordlayer.RecordLayer, r []byte) ([]byte, error) {
	return r, nil
}

type zzSNLog struct{}

func (zzSNLog) Trace(string)          {}
func (zzSNLog) Tracef(string, ...any) {}
func (zzSNLog) Debug(string)          {}
func (zzSNLog) Debugf(string, ...any) {}
func (zzSNLog) Info(string)           {}
func (zzSNLog) Infof(string, ...any)  {}
func (zzSNLog) Warn(string)           {}
func (zzSNLog) Warnf(string, ...any)  {}
func (zzSNLog) Error(string)          {}
func (zzSNLog) Errorf(string, ...any) {}

type zzSNLogFactory struct{}

func (zzSNLogFactory) NewLogger(string) logging.LeveledLogger { return zzSNLog{} }

func zzSNConfigured(i int) string {
	switch i {
	case 0:
		return "example.com"
	case 1:
		return "192.0.2.1"
	case 2:
		return "2001:db8::1"
	case 4:
		return strings.Repeat("a", 255) // longest DNS name by RFC 1035; still an ordinary string to the verifier
	case 5:
		return strings.Repeat("b", 300) + ".example" // too long for DNS: must still be the name that is verified, never ""
	}

	return ""
}

// A client configured through the real option path - WithServerName(name), WithRootCAs(pool), then
// newConnConfigValues (effectiveServerName) and newHandshakeConfig - for name = a DNS name ("example.com"), an
// IPv4 literal ("192.0.2.1"), an IPv6 literal ("2001:db8::1"), the empty string and names of 255 and 308 octets. The resulting handshake
// configuration is then given to the real DTLS 1.2 client authentication step (flight12.initializeCipherSuite,
// run by flight5Generate) and to the real DTLS 1.3 one (protectedHandshakeFlight.verifyServerIdentity) with
// handshakecrypto.VerifyServerCert replaced by a recorder. Proved: in both protocol versions the chain of the
// server is verified once, against the configured root pool and FOR EXACTLY THE CONFIGURED NAME
// [cfg_verification_name_is_configured_server_name] - in particular an IP literal is not replaced by the empty
// name (which would disable the name check: any certificate chaining to the roots would be accepted) - while
// the name the ClientHello generators read for the server_name extension (HandshakeConfig.ServerName) is
// empty for IP literals (RFC 6066 section 3) and the configured name otherwise [cfg_no_sni_for_ip_literal].
//
//symgo:entry covers=dns_name,ipv4_literal,ipv6_literal,empty_name,long_name,dtls12,dtls13
func zzCfgServerNameForVerification() {
	zzSNCalls, zzSNName, zzSNRoots = 0, "", nil
	kind := zzsymChoice("configured_name", 6)
	name := zzSNConfigured(kind)
	roots := new(x509.CertPool)
	cfg := &dtlsConfig{LoggerFactory: zzSNLogFactory{}}
	zzsymAssert(WithServerName(name).applyClient(cfg) == nil, "cfg_server_name_option_ok")
	zzsymAssert(WithRootCAs(roots).applyClient(cfg) == nil, "cfg_root_cas_option_ok")
	values, err := newConnConfigValues(cfg)
	zzsymAssert(err == nil, "cfg_conn_values_ok")
	hc := newHandshakeConfig(cfg, values, nil)

	// SNI: flight1Generate / flight3Generate offer server_name iff len(cfg.ServerName) > 0, with that value
	if kind == 1 || kind == 2 {
		zzsymAssert(hc.ServerName == "", "cfg_no_sni_for_ip_literal")
	} else if kind < 4 { // whether a name that is no valid DNS host name (over-long, over-long label) is offered as SNI is not the property's business
		zzsymAssert(hc.ServerName == name, "cfg_sni_is_configured_dns_name")
	}

	if zzsymChoice("dtls13", 2) == 0 {
		suite := &zzSNSuite{}
		state := &dtlsstate.State12{
			Common:          &dtlsstate.Common{IsClient: true, LocalVersion: protocol.Version1_2, CipherSuite: suite},
			PreMasterSecret: []byte{1},
		}
		state.PeerCertificates = [][]byte{{0x30}}
		ske := &handshake.MessageServerKeyExchange{
			EllipticCurveType: elliptic.CurveTypeNamedCurve, NamedCurve: elliptic.X25519, PublicKey: []byte{9},
			HashAlgorithm: dtlshash.SHA256, SignatureAlgorithm: signature.ECDSA, Signature: []byte{0x51},
		}
		a, ierr := flight12.ZZC03InitializeCipherSuite(state, dtlsflight.NewCache(), hc, ske, nil)
		zzsymAssert(a == nil && ierr == nil, "cfg_dtls12_authentication_runs")
		zzsymAssert(suite.initialized, "cfg_dtls12_keys_installed")
		zzsymCover("dtls12")
	} else {
		zzsymAssert(dtlshandshake.ZZC03VerifyServerIdentity(hc, [][]byte{{0x30}}) == nil, "cfg_dtls13_authentication_runs")
		zzsymCover("dtls13")
	}
	zzsymAssert(zzSNCalls == 1, "cfg_chain_verified_once")
	zzsymAssert(zzSNRoots == roots, "cfg_chain_against_configured_roots")
	zzsymAssert(zzSNName == name, "cfg_verification_name_is_configured_server_name")
	switch kind {
	case 0:
		zzsymCover("dns_name")
	case 1:
		zzsymCover("ipv4_literal")
	case 2:
		zzsymCover("ipv6_literal")
	case 3:
		zzsymCover("empty_name")
	default:
		zzsymCover("long_name")
	}
}

func zzSNConfigured2(i int) string {
	if i == 6 {
		return "192.0.2.2" // a second IPv4 literal: same (empty) SNI value as "192.0.2.1", different verification name
	}
	if i == 7 {
		return "other.example"
	}

	return zzSNConfigured(i)
}

type zzSNAddr struct{}

func (zzSNAddr) Network() string { return "udp" }
func (zzSNAddr) String() string  { return "198.51.100.7:4444" }

// The key under which a CLIENT stores and looks up its resumable session (Conn.sessionKey, the real method, on a
// Conn whose handshake configuration came through the real option path as above) for two connections to the SAME
// remote address configured with names i and j of the menu {DNS name, two IPv4 literals, IPv6 literal, empty,
// 255-octet name, a second DNS name}: whenever the names the server chain is VERIFIED for differ, the keys differ
// [cfg_client_session_key_separates_verification_names]. Otherwise a session authenticated for name i is offered -
// and, if the server still holds it, resumed WITHOUT any certificate check - by a connection whose policy
// requires a certificate valid for name j (abbreviated handshakes skip Certificate / ServerKeyExchange, so the
// session key is the only place where the name enters). Equal names give equal keys (resumption works at all).
//
//symgo:entry covers=same_name_same_key,different_names,ip_literal_pair
func zzCfgClientSessionKeySeparatesNames() {
	key := func(name string) []byte {
		cfg := &dtlsConfig{LoggerFactory: zzSNLogFactory{}}
		zzsymAssert(WithServerName(name).applyClient(cfg) == nil, "cfg_server_name_option_ok")
		values, err := newConnConfigValues(cfg)
		zzsymAssert(err == nil, "cfg_conn_values_ok")
		hc := newHandshakeConfig(cfg, values, nil)
		c := &Conn{
			state:           &dtlsstate.State12{Common: &dtlsstate.Common{IsClient: true, LocalVersion: protocol.Version1_2}},
			handshakeConfig: hc,
			rAddr:           zzSNAddr{},
		}

		return c.sessionKey()
	}
	i, j := zzsymChoice("name_i", 8), zzsymChoice("name_j", 8)
	if i == 5 || j == 5 {
		return
	}
	ni, nj := zzSNConfigured2(i), zzSNConfigured2(j)
	ki, kj := key(ni), key(nj)
	if ni == nj {
		zzsymAssert(string(ki) == string(kj), "cfg_client_session_key_same_name_same_key")
		zzsymCover("same_name_same_key")

		return
	}
	zzsymAssert(string(ki) != string(kj), "cfg_client_session_key_separates_verification_names")
	zzsymCover("different_names")
	if (i == 1 && j == 6) || (i == 6 && j == 1) {
		zzsymCover("ip_literal_pair")
	}
}
