package flight12

// GENERATED from harness/C14/common.go (identifiers renamed zz -> zzRo; only zzClientResumeDecision is kept as an entry).
// C03: a resumed connection is authenticated by the stored master secret alone (no Certificate, no signature, no PSK
// exchange), so "no established session without the required credential" needs the client to key an abbreviated
// handshake from exactly the secret its store returned for the offered id - also after one or two cookie rounds.
// A client that empties the secret on a repeated HelloVerifyRequest accepts a Finished anyone can compute (seed C03k-1).

//symgo:pkg github.com/pion/dtls/v3/internal/flight/flight12

// Shared helpers of the C14 (session resumption) harnesses in package flight12. No entries here.

import (
	"context"
	"errors"
	"hash"

	"github.com/pion/dtls/v3/internal/ciphersuite"
	dtlsconfig "github.com/pion/dtls/v3/internal/config"
	dtlsflight "github.com/pion/dtls/v3/internal/flight"
	dtlsstate "github.com/pion/dtls/v3/internal/state"
	"github.com/pion/dtls/v3/pkg/crypto/clientcertificate"
	"github.com/pion/dtls/v3/pkg/crypto/elliptic"
	"github.com/pion/dtls/v3/pkg/protocol"
	"github.com/pion/dtls/v3/pkg/protocol/alert"
	"github.com/pion/dtls/v3/pkg/protocol/handshake"
	"github.com/pion/dtls/v3/pkg/protocol/recordlayer"
)

// zzRoLog is a silent logging.LeveledLogger.
type zzRoLog struct{}

func (zzRoLog) Trace(string)          {}
func (zzRoLog) Tracef(string, ...any) {}
func (zzRoLog) Debug(string)          {}
func (zzRoLog) Debugf(string, ...any) {}
func (zzRoLog) Info(string)           {}
func (zzRoLog) Infof(string, ...any)  {}
func (zzRoLog) Warn(string)           {}
func (zzRoLog) Warnf(string, ...any)  {}
func (zzRoLog) Error(string)          {}
func (zzRoLog) Errorf(string, ...any) {}

// zzRoSuite is a cipher suite without cryptography: a custom (private-use id 0xff01) plain-PSK suite, so that
// ciphersuite.ForID hands out THIS instance (through CustomCipherSuites) and no certificate or key pair is
// needed in the hello flights. It records the arguments of every Init call, i.e. the (master secret, client
// random, server random) triple the record keys are derived from.
type zzRoSuite struct {
	inits    int
	ms       []byte
	cr, sr   []byte
	asClient bool
}

func (s *zzRoSuite) String() string                          { return "zzRoSuite" }
func (s *zzRoSuite) ID() ciphersuite.ID                      { return ciphersuite.ID(0xff01) }
func (s *zzRoSuite) CertificateType() clientcertificate.Type { return clientcertificate.Type(0) }
func (s *zzRoSuite) HashFunc() func() hash.Hash              { return nil }
func (s *zzRoSuite) AuthenticationType() ciphersuite.AuthenticationType {
	return ciphersuite.AuthenticationTypePreSharedKey
}
func (s *zzRoSuite) KeyExchangeAlgorithm() ciphersuite.KeyExchangeAlgorithm {
	return ciphersuite.KeyExchangeAlgorithmPsk
}
func (s *zzRoSuite) ECC() bool { return false }
func (s *zzRoSuite) Init(ms, cr, sr []byte, isClient bool) error {
	s.inits++
	s.ms = append([]byte{}, ms...)
	s.cr = append([]byte{}, cr...)
	s.sr = append([]byte{}, sr...)
	s.asClient = isClient

	return nil
}
func (s *zzRoSuite) IsInitialized() bool                                     { return s.inits > 0 }
func (s *zzRoSuite) Decrypt(_ recordlayer.Header, in []byte) ([]byte, error) { return in, nil }
func (s *zzRoSuite) Encrypt(_ *recordlayer.RecordLayer, raw []byte) ([]byte, error) {
	return raw, nil
}

// zzRoStore is an abstract session store: a list of (key, id, secret) entries plus a log of every call made
// on it. failGet makes Get fail. Del removes the entries with exactly that key.
type zzRoStore struct {
	keys, ids, secrets [][]byte
	failGet            bool
	gets, dels         [][]byte
	setKeys, setIDs    [][]byte
	setSecrets         [][]byte
	calls              []string
}

var zzRoErrStore = errors.New("zzRo store failure")

func (s *zzRoStore) put(key, id, secret []byte) {
	s.keys, s.ids, s.secrets = append(s.keys, key), append(s.ids, id), append(s.secrets, secret)
}

func (s *zzRoStore) get(key []byte) ([]byte, []byte, error) {
	s.calls = append(s.calls, "get")
	s.gets = append(s.gets, append([]byte{}, key...))
	if s.failGet {
		return nil, nil, zzRoErrStore
	}
	for i := range s.keys {
		if s.keys[i] != nil && zzsymEqBytes(s.keys[i], key) {
			return s.ids[i], s.secrets[i], nil
		}
	}

	return nil, nil, nil
}

func (s *zzRoStore) set(key, id, secret []byte) error {
	s.calls = append(s.calls, "set")
	s.setKeys, s.setIDs, s.setSecrets = append(s.setKeys, key), append(s.setIDs, id), append(s.setSecrets, secret)
	s.put(key, id, secret)

	return nil
}

func (s *zzRoStore) del(key []byte) error {
	s.calls = append(s.calls, "del")
	s.dels = append(s.dels, append([]byte{}, key...))
	for i := range s.keys {
		if s.keys[i] != nil && zzsymEqBytes(s.keys[i], key) {
			s.keys[i] = nil
		}
	}

	return nil
}

// attach wires the store into a handshake config the way newHandshakeConfig (config.go) does.
func (s *zzRoStore) attach(cfg *dtlsconfig.HandshakeConfig) {
	cfg.HasSessionStore = true
	cfg.GetSession, cfg.SetSession, cfg.DelSession = s.get, s.set, s.del
}

// zzRoConn is the flight.Conn the handlers see: a fixed client session key, no queued packets.
type zzRoConn struct {
	key    []byte
	queued *int
}

func (c zzRoConn) HandleQueuedPackets(context.Context) error {
	if c.queued != nil {
		*c.queued++
	}

	return nil
}
func (c zzRoConn) SessionKey() []byte { return c.key }

// zzRoCfg: a DTLS 1.2 PSK endpoint configuration using the harness suite.
func zzRoCfg(suite *zzRoSuite) *dtlsconfig.HandshakeConfig {
	return &dtlsconfig.HandshakeConfig{
		LocalPSKCallback:        func([]byte) ([]byte, error) { return []byte{1, 2, 3}, nil },
		LocalCipherSuites:       []dtlsconfig.CipherSuite{suite},
		CustomCipherSuites:      func() []dtlsconfig.CipherSuite { return []dtlsconfig.CipherSuite{suite} },
		EllipticCurves:          []elliptic.Curve{elliptic.X25519},
		InsecureSkipHelloVerify: true,
		Log:                     zzRoLog{},
		MinVersion:              protocol.Version1_2,
		MaxVersion:              protocol.Version1_2,
	}
}

func zzRoState(isClient bool) *dtlsstate.State12 {
	return &dtlsstate.State12{Common: &dtlsstate.Common{IsClient: isClient, LocalVersion: protocol.Version1_2}}
}

// zzRoAlertOf extracts the alert the way flight12.Parse / the FSM do.
func zzRoAlertOf(a *alert.Alert, err error) *alert.Alert {
	if a == nil && err != nil {
		errors.As(err, &a)
	}

	return a
}

// zzRoPeer is one endpoint of a two-endpoint run.
type zzRoPeer struct {
	isClient bool
	cfg      *dtlsconfig.HandshakeConfig
	state    *dtlsstate.State12
	cache    *dtlsflight.Cache
	suite    *zzRoSuite
	conn     zzRoConn
	wire     []*zzRoWire // every handshake message this endpoint has put on the wire
}

// zzRoWire is one handshake message as sent: cache metadata plus whether the peer has received it.
type zzRoWire struct {
	raw       []byte
	epoch     uint16
	seq       uint16
	typ       handshake.Type
	delivered bool
}

// zzRoRetransmit delivers every message of p that the peer has not received yet (the retransmission timer of
// handshakeFSM12 resends the prepared flight unchanged).
func zzRoRetransmit(p, peer *zzRoPeer) {
	for _, w := range p.wire {
		if !w.delivered {
			peer.cache.Push(w.raw, w.epoch, w.seq, w.typ, p.isClient)
			w.delivered = true
		}
	}
}

func zzRoNewPeer(isClient bool) *zzRoPeer {
	suite := &zzRoSuite{}

	return &zzRoPeer{isClient: isClient, cfg: zzRoCfg(suite), state: zzRoState(isClient), cache: dtlsflight.NewCache(), suite: suite}
}

// zzRoSend runs flight generator f of p the way handshakeFSM12.prepare does (stamp message_sequence, marshal)
// and delivers every handshake message to both caches with the epoch of its record, unless drop[i] is set for
// the i-th handshake message (loss: the sender keeps it in its own cache, the peer never sees it).
// It returns the handshake messages in order.
func zzRoSend(p, peer *zzRoPeer, f Flight, drop []bool) ([]*handshake.Handshake, *alert.Alert, error) {
	gen, _, ok := GetGenerator(f)
	if !ok {
		zzsymFail("harness_bad_flight")
	}
	pkts, a, err := gen(p.conn, p.state, p.cache, p.cfg)
	if a = zzRoAlertOf(a, err); a != nil || err != nil {
		return nil, a, err
	}
	msgs := []*handshake.Handshake{}
	for _, pkt := range pkts {
		h, isHandshake := pkt.Record.Content.(*handshake.Handshake)
		if !isHandshake {
			continue
		}
		h.Header.MessageSequence = uint16(p.state.HandshakeSendSequence)
		p.state.HandshakeSendSequence++
		raw, merr := h.Marshal()
		if merr != nil {
			zzsymFail("harness_marshal_failed")
		}
		epoch := pkt.Record.Header.Epoch
		p.cache.Push(raw, epoch, h.Header.MessageSequence, h.Header.Type, p.isClient)
		w := &zzRoWire{raw: raw, epoch: epoch, seq: h.Header.MessageSequence, typ: h.Header.Type}
		p.wire = append(p.wire, w)
		if len(drop) <= len(msgs) || !drop[len(msgs)] {
			peer.cache.Push(raw, epoch, h.Header.MessageSequence, h.Header.Type, p.isClient)
			w.delivered = true
		}
		msgs = append(msgs, h)
	}

	return msgs, nil, nil
}

func zzRoRecv(p *zzRoPeer, f Flight) (Flight, *alert.Alert, error) {
	next, a, err, ok := Parse(context.Background(), f, p.conn, p.state, p.cache, p.cfg)
	if !ok {
		zzsymFail("harness_bad_flight")
	}

	return next, a, err
}
