package dtlshandshake

// GENERATED from harness/C04/fsm12_hvr.go (entry kept: zzFinishedOnlyAfterLastFlight12). C03: a DTLS 1.2 endpoint reports
// the handshake established only out of a flight that IsLastSendFlight / after the last flight was parsed - so a resuming
// server (flight 4b) cannot report success before flight4bParse has verified the client's Finished, the only proof that
// the peer holds the session's master secret.

//symgo:pkg github.com/pion/dtls/v3/internal/handshake
//symgo:param NEVENTS quick=3 thorough=5
//symgo:replace time.NewTimer zzNewTimer
//symgo:replace github.com/pion/dtls/v3/pkg/crypto/elliptic.GenerateKeypair zzGenerateKeypair
//symgo:stub time.NewTimer returns a timer whose channel already holds one tick iff the harness schedule says "the retransmission timer expires during this wait"; elliptic.GenerateKeypair returns a dummy key pair; the Conn is a harness fake that records every WritePackets / Notify call and delivers the scheduled receive events; crypto/rand.Reader hands out symbolic bytes
//symgo:assume the record layer delivers a ClientHello to the FSM by pushing the reassembled message into the handshake cache and then signalling RecvHandshake (Conn.bufferHandshakeRecord); a retransmitted first ClientHello is signalled without a second cache entry
//symgo:outside schedules longer than NEVENTS events; concurrent arrival while the FSM is preparing/sending (the reader is paused by the Done channel in the real Conn)

import (
	"context"
	"crypto/rand"
	"time"

	"github.com/pion/dtls/v3/internal/ciphersuite"
	dtlsconfig "github.com/pion/dtls/v3/internal/config"
	dtlsflight "github.com/pion/dtls/v3/internal/flight"
	dtlsflight12 "github.com/pion/dtls/v3/internal/flight/flight12"
	dtlsstate "github.com/pion/dtls/v3/internal/state"
	"github.com/pion/dtls/v3/pkg/crypto/elliptic"
	"github.com/pion/dtls/v3/pkg/protocol/alert"
	"github.com/pion/dtls/v3/pkg/protocol/handshake"
)

var zzTimerFires bool
var zzTimerCh chan time.Time
var zzTimerTicked bool

func zzNewTimer(d time.Duration) *time.Timer {
	zzTimerCh = make(chan time.Time, 1)
	zzTimerTicked = false
	if zzTimerFires {
		zzTimerCh <- time.Time{}
		zzTimerTicked = true
	}
	return &time.Timer{C: zzTimerCh}
}

func zzGenerateKeypair(c elliptic.Curve) (*elliptic.Keypair, error) {
	return &elliptic.Keypair{Curve: c, PublicKey: []byte{4, 1, 2}, PrivateKey: []byte{9}}, nil
}

type zzRand struct{}

func (zzRand) Read(p []byte) (int, error) {
	copy(p, zzsymBytes("rand", len(p)))
	return len(p), nil
}

type zzLogger struct{}

func (zzLogger) Trace(string)          {}
func (zzLogger) Tracef(string, ...any) {}
func (zzLogger) Debug(string)          {}
func (zzLogger) Debugf(string, ...any) {}
func (zzLogger) Info(string)           {}
func (zzLogger) Infof(string, ...any)  {}
func (zzLogger) Warn(string)           {}
func (zzLogger) Warnf(string, ...any)  {}
func (zzLogger) Error(string)          {}
func (zzLogger) Errorf(string, ...any) {}

// zzConn records everything the FSM puts on the wire.
type zzConn struct {
	recv   chan RecvHandshakeState
	sent   []*dtlsflight.Packet // every packet passed to WritePackets, in order
	alerts int
	// lateTimer: if the FSM comes back to its select after having consumed the scheduled receive event
	// (it decided to keep waiting), let the retransmission timer expire next, so that the wait call returns.
	lateTimer bool
	queued    int // receive events queued and not yet polled away
}

func (c *zzConn) HandleQueuedPackets(context.Context) error { return nil }
func (c *zzConn) SessionKey() []byte                        { return nil }
func (c *zzConn) Notify(_ context.Context, _ alert.Level, _ alert.Description) error {
	c.alerts++
	return nil
}
func (c *zzConn) WritePackets(_ context.Context, pkts []*dtlsflight.Packet) (*WriteResult, error) {
	c.sent = append(c.sent, pkts...)
	return &WriteResult{}, nil
}
func (c *zzConn) RecvHandshake() <-chan RecvHandshakeState {
	// evaluated by the FSM each time it (re-)enters its select
	if c.lateTimer && c.queued == 0 && zzTimerCh != nil && !zzTimerTicked {
		zzTimerCh <- time.Time{}
		zzTimerTicked = true
	}
	if c.queued > 0 {
		c.queued--
	}
	return c.recv
}
func (c *zzConn) SetLocalEpoch(uint16)                     {}

// zzHello12 builds a ClientHello handshake message (RFC 6347 4.2.2/4.3.2 layout, no extensions).
func zzHello12(seq uint16, version, random, sid, cookie, suite, comp []byte) []byte {
	body := []byte{}
	body = append(body, version...)
	body = append(body, random...)
	body = append(body, byte(len(sid)))
	body = append(body, sid...)
	body = append(body, byte(len(cookie)))
	body = append(body, cookie...)
	body = append(body, 0, byte(len(suite)))
	body = append(body, suite...)
	body = append(body, byte(len(comp)))
	body = append(body, comp...)
	body = append(body, 0, 0)
	n := len(body)
	hdr := []byte{1, 0, byte(n >> 8), byte(n), byte(seq >> 8), byte(seq), 0, 0, 0, 0, byte(n >> 8), byte(n)}
	return append(hdr, body...)
}

// zzIsCookieRequest: the packet is a plaintext epoch-0 handshake record whose message is a
// HelloVerifyRequest carrying exactly the issued cookie.
func zzIsCookieRequest(p *dtlsflight.Packet, issued []byte) bool {
	hs, ok := p.Record.Content.(*handshake.Handshake)
	if !ok {
		return false
	}
	hvr, ok := hs.Message.(*handshake.MessageHelloVerifyRequest)
	if !ok {
		return false
	}
	return zzsymAnd(zzsymAnd(!p.ShouldEncrypt, p.Record.Header.Epoch == 0), zzsymEqBytes(hvr.Cookie, issued))
}

// The real DTLS 1.2 server FSM (prepare / send / wait of fsm12 with the real flight12 parsers and
// generators) driven through every schedule of up to NEVENTS events, each event being one of: the
// retransmission timer expires; the first ClientHello arrives (or is retransmitted); a second ClientHello
// (message_seq 1, every field arbitrary: version, random, session id, cookie of 20 arbitrary bytes or
// absent, cipher suite, compression) arrives. The fake Conn records every packet handed to WritePackets.
// Proved, for every schedule and all field values: (1) until a second ClientHello has arrived that echoes the
// issued cookie byte for byte and repeats version, random, session id, cipher suite and compression of the
// first one, every packet written is a HelloVerifyRequest carrying the issued cookie - never a ServerHello,
// Certificate or key exchange - and the FSM never enters Flight4; (2) a timer expiry writes nothing at all;
// (3) each cookie request is written in the step that handled a ClientHello arrival, at most one per
// arrival; (4) after a wrong second ClientHello the FSM errors out having written nothing more.
//
func zzFsm12OnlyCookieRequest() {
	rand.Reader = zzRand{}
	cfg := &dtlsconfig.HandshakeConfig{
		LocalCipherSuites:         []dtlsconfig.CipherSuite{&ciphersuite.TLSEcdheEcdsaWithAes128GcmSha256{}},
		EllipticCurves:            []elliptic.Curve{elliptic.X25519},
		Log:                       zzLogger{},
		InitialRetransmitInterval: time.Second,
	}
	st12 := dtlsstate.NewState12(false)
	state := &st12
	cache := dtlsflight.NewCache()
	conn := &zzConn{recv: make(chan RecvHandshakeState, 1)}
	fsm := NewFSM12(state, cache, cfg, dtlsflight12.Flight0, nil, NewEstablishment()).(*fsm12)
	ctx := context.Background()

	// run the FSM until it waits (or stops); returns false when the FSM terminated with an error
	run := func(st State) (State, bool) {
		for st == StatePreparing || st == StateSending {
			if st == StatePreparing && fsm.currentFlight == dtlsflight12.Flight4 {
				return st, true // the cookie gate has been passed; stop before the real flight 4 is built
			}
			var err error
			if st == StatePreparing {
				st, err = fsm.prepare(ctx, conn)
			} else {
				st, err = fsm.send(ctx, conn)
			}
			if err != nil {
				return StateErrored, false
			}
		}
		return st, true
	}

	st, alive := run(StatePreparing)
	zzsymAssert(alive, "flight0_starts")
	zzsymAssert(st == StateWaiting, "flight0_waits")
	zzsymAssert(len(conn.sent) == 0, "nothing_sent_before_first_hello")
	issued := state.Cookie
	zzsymAssert(len(issued) == 20, "cookie_is_20_bytes")

	ch1random := zzsymBytes("ch1_random", 32)
	sidLen := zzsymChoice("sidlen", 2)
	ch1sid := zzsymBytes("ch1_sid", sidLen)
	haveCH1 := false
	var ch2 struct{ version, random, sid, cookie, suite, comp []byte }
	haveCH2 := false

	n := zzsymParam("NEVENTS")
	for i := 0; i < n; i++ {
		ev := zzsymChoice("event", 3) // 0 timer, 1 first ClientHello (again), 2 second ClientHello
		if ev == 2 && !haveCH1 {
			return // a message_seq 1 hello before the first one is not delivered by the fragment buffer
		}
		before := len(conn.sent)
		inFlight2 := fsm.currentFlight == dtlsflight12.Flight2
		zzTimerFires = ev == 0
		switch ev {
		case 1:
			if !haveCH1 {
				cache.Push(zzHello12(0, []byte{0xfe, 0xfd}, ch1random, ch1sid, nil, []byte{0xc0, 0x2b}, []byte{0}),
					0, 0, handshake.TypeClientHello, true)
				haveCH1 = true
			}
		case 2:
			clen := 20 * zzsymChoice("cookie2", 2)
			ch2.version, ch2.random, ch2.sid = zzsymBytes("ch2_version", 2), zzsymBytes("ch2_random", 32), zzsymBytes("ch2_sid", sidLen)
			ch2.cookie, ch2.suite, ch2.comp = zzsymBytes("ch2_cookie", clen), zzsymBytes("ch2_suite", 2), zzsymBytes("ch2_comp", 1)
			cache.Push(zzHello12(1, ch2.version, ch2.random, ch2.sid, ch2.cookie, ch2.suite, ch2.comp),
				0, 1, handshake.TypeClientHello, true)
			haveCH2 = true
		}
		if ev != 0 {
			conn.queued = 1
			conn.recv <- RecvHandshakeState{Done: make(chan struct{}), HasHandshake: true, IsRetransmit: zzsymBool("isretransmit")}
		}
		next, err := fsm.wait(ctx, conn)
		alive = err == nil
		if alive {
			next, alive = run(next)
		}

		// --- what was written during this step
		wrote := conn.sent[before:]
		for _, p := range wrote {
			zzsymAssert(zzIsCookieRequest(p, issued), "only_cookie_request_on_the_wire")
		}
		if ev == 0 {
			zzsymAssert(len(wrote) == 0, "timer_expiry_writes_nothing")
			zzsymAssert(alive, "timer_expiry_keeps_handshake")
			zzsymAssert(next == StateWaiting, "timer_expiry_keeps_waiting")
			if inFlight2 {
				zzsymCover("timer_in_flight2")
			} else {
				zzsymCover("timer_in_flight0")
			}
		} else {
			zzsymAssert(len(wrote) <= 1, "at_most_one_cookie_request_per_hello")
		}
		if ev == 1 {
			zzsymAssert(alive, "first_hello_keeps_handshake")
			zzsymAssert(len(wrote) == 1, "first_hello_answered_with_cookie_request")
			zzsymAssert(fsm.currentFlight == dtlsflight12.Flight2, "first_hello_leads_to_flight2")
			if inFlight2 {
				zzsymCover("hvr_resent_on_retransmitted_hello")
			} else {
				zzsymCover("hvr_sent")
			}
		}
		if ev == 2 {
			echo := zzsymEqBytes(ch2.cookie, issued)
			echo = zzsymAnd(echo, zzsymEqBytes(ch2.version, []byte{0xfe, 0xfd}))
			echo = zzsymAnd(echo, zzsymEqBytes(ch2.random, ch1random))
			echo = zzsymAnd(echo, zzsymEqBytes(ch2.sid, ch1sid))
			echo = zzsymAnd(echo, zzsymEqBytes(ch2.suite, []byte{0xc0, 0x2b}))
			echo = zzsymAnd(echo, zzsymEqBytes(ch2.comp, []byte{0}))
			zzsymAssert(len(wrote) == 0, "second_hello_never_answered_with_cookie_request_or_more")
			if alive && fsm.currentFlight == dtlsflight12.Flight4 {
				zzsymAssert(echo, "flight4_only_after_exact_echo")
				zzsymCover("accepted")
			} else {
				zzsymAssert(!alive, "wrong_second_hello_ends_handshake")
				zzsymAssert(conn.alerts > 0, "wrong_second_hello_alerted")
				zzsymCover("rejected")
			}
			return
		}
		zzsymAssert(fsm.currentFlight != dtlsflight12.Flight4, "no_flight4_before_second_hello")
		_ = haveCH2
	}
}

// The handshake is reported complete only after the peer's Finished was checked. For each of the six DTLS 1.2
// flights an endpoint can be SENDING in (server 2, 4, 4b, 6; client 1/3, 5, 5b): after the real fsm12.send has
// written the flight, the FSM goes to FINISHED - the state in which Conn.Handshake returns success - only for the
// handshake's last flight (server flight 6, client flight 5b), which is sent only after the peer's Finished has been
// verified by flight4Parse / handleResumption (fin12.go). In every other flight - in particular the server's flight
// 4b of an abbreviated handshake, after which the client's Finished is still to come - it goes to WAITING, where the
// peer's answer is parsed and its Finished verified (flight4bParse, flight5Parse) before FINISHED is entered.
//
//symgo:entry covers=last_flight_finishes,other_flights_wait
func zzFinishedOnlyAfterLastFlight12() {
	flights := []dtlsflight12.Flight{dtlsflight12.Flight1, dtlsflight12.Flight2, dtlsflight12.Flight3, dtlsflight12.Flight4,
		dtlsflight12.Flight4b, dtlsflight12.Flight5, dtlsflight12.Flight5b, dtlsflight12.Flight6}
	f := flights[zzsymChoice("flight", len(flights))]
	isClient := f == dtlsflight12.Flight1 || f == dtlsflight12.Flight3 || f == dtlsflight12.Flight5 || f == dtlsflight12.Flight5b
	st := dtlsstate.NewState12(isClient)
	cfg := &dtlsconfig.HandshakeConfig{Log: zzLogger{}, InitialRetransmitInterval: time.Second}
	fsm := NewFSM12(&st, dtlsflight.NewCache(), cfg, f, nil, NewEstablishment()).(*fsm12)
	conn := &zzConn{recv: make(chan RecvHandshakeState, 1)}
	next, err := fsm.send(context.Background(), conn)
	zzsymAssert(err == nil, "send_ok")
	last := f == dtlsflight12.Flight6 || f == dtlsflight12.Flight5b
	if last {
		zzsymAssert(next == StateFinished, "last_flight_leads_to_finished")
		zzsymCover("last_flight_finishes")
	} else {
		zzsymAssert(next == StateWaiting, "finished_state_only_after_the_handshakes_last_flight")
		zzsymCover("other_flights_wait")
	}
}
