package dtlshandshake

//symgo:pkg github.com/pion/dtls/v3/internal/handshake
//symgo:outside the flight generators (gen13_counters.go) and the connection's numbering of the records it writes (seq.go)

import (
	dtlsflight "github.com/pion/dtls/v3/internal/flight"
	dtlsstate "github.com/pion/dtls/v3/internal/state"
	"github.com/pion/dtls/v3/pkg/protocol"
	"github.com/pion/dtls/v3/pkg/protocol/handshake"
	"github.com/pion/dtls/v3/pkg/protocol/recordlayer"
)

// The DTLS 1.3 state machine's preparation of a generated flight (prepareFlightPackets: epochs, message sequence
// numbers) leaves the per-epoch record counters alone, whatever flags the packets carry - in particular the
// ResetLocalSequenceNumber flag every generator sets on the first packet of a flight: the client has already sent
// ACK records in epoch 2 when its final flight is prepared, so winding that counter back re-issues (2, 0..) under the
// same handshake traffic key. Arbitrary counters for epochs 0..3, two packets (hello in epoch 0 or a protected
// message in epoch 2), flags arbitrary.
//
//symgo:entry covers=prepared13
func zzPrepareFlight13LeavesCounters() {
	st := dtlsstate.NewState13(zzsymChoice("client", 2) == 1)
	st.LocalSequenceNumber = []uint64{zzsymU64("ctr0"), zzsymU64("ctr1"), zzsymU64("ctr2"), zzsymU64("ctr3")}
	before := append([]uint64{}, st.LocalSequenceNumber...)
	mk := func(tag string) *dtlsflight.Packet {
		protected := zzsymChoice(tag+"_protected", 2) == 1
		p := &dtlsflight.Packet{
			Record: &recordlayer.RecordLayer{
				Header:  recordlayer.Header{Version: protocol.Version1_2},
				Content: &handshake.Handshake{Message: &handshake.MessageFinished{VerifyData: []byte{1}}},
			},
			ShouldEncrypt:            protected,
			ResetLocalSequenceNumber: zzsymChoice(tag+"_reset_flag", 2) == 1,
		}
		if protected {
			p.Record.Header.Epoch = 2
		}
		return p
	}
	flights := []*dtlsflight.Packet{mk("p0"), mk("p1")}
	prepareFlightPackets(&st, 0, flights)
	zzsymAssert(len(st.LocalSequenceNumber) >= len(before), "prepare13_keeps_record_counter_table")
	for i := range before {
		zzsymAssert(st.LocalSequenceNumber[i] == before[i], "prepare13_leaves_record_counters_alone")
	}
	zzsymCover("prepared13")
}
