package dtls

//symgo:pkg github.com/pion/dtls/v3
//symgo:param NPACK quick=4 thorough=5
//symgo:outside more than NPACK records per call, record sizes above 4 bytes (the function looks only at lengths; the MTU ranges over every value that separates the length sums reachable with these sizes)

// "Sequence numbers per epoch strictly increase in EMISSION order": the records of one write are numbered in slice order
// by processPacket / processHandshakePacket (zzSeqOnWire* entries) and then packed into datagrams by
// Conn.compactPreparedRecords, which are written in slice order. Proved here for every 1..NPACK records of 1..4
// arbitrary bytes each and every MTU 1..14: the datagrams, concatenated in the order they are written, are exactly
// the records concatenated in the order they were numbered - packing is an order-preserving partition (no record is
// moved ahead of an earlier one, dropped, duplicated or split) - and no datagram is empty. Seed C09k-2 (first-fit
// packing puts a short trailing record into an earlier datagram).
//
//symgo:entry covers=one_datagram,several_datagrams,record_larger_than_mtu
func zzPackingPreservesEmissionOrder() {
	n := 1 + zzsymChoice("records", zzsymParam("NPACK"))
	mtu := 1 + zzsymChoice("mtu", 14)
	c := &Conn{maximumTransmissionUnit: mtu}
	var records []preparedRecord
	var want []byte
	big := false
	for i := 0; i < n; i++ {
		l := 1 + zzsymChoice("len", 4)
		raw := zzsymBytes("record", l)
		if l >= mtu {
			big = true
		}
		records = append(records, preparedRecord{raw: raw})
		want = append(want, raw...)
	}
	datagrams := c.compactPreparedRecords(records)
	var got []byte
	for _, d := range datagrams {
		zzsymAssert(len(d.raw) > 0, "no_empty_datagram")
		got = append(got, d.raw...)
	}
	zzsymAssert(len(got) == len(want), "packing_keeps_every_byte_once")
	zzsymAssert(zzsymEqBytes(got, want), "packing_preserves_emission_order")
	if len(datagrams) == 1 {
		zzsymCover("one_datagram")
	} else {
		zzsymCover("several_datagrams")
	}
	if big {
		zzsymCover("record_larger_than_mtu")
	}
}
