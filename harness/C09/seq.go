package dtls

//symgo:pkg github.com/pion/dtls/v3
//symgo:param NPAY quick=3 thorough=6
//symgo:stub CipherSuite is a harness fake whose Encrypt returns its input and records the header it was given
//symgo:outside concurrent writers: the claim assumes prepareRawPacketsTracked is serialised by the existing locks

import (
	"hash"

	"github.com/pion/dtls/v3/internal/ciphersuite/types"
	dtlsflight "github.com/pion/dtls/v3/internal/flight"
	dtlsstate "github.com/pion/dtls/v3/internal/state"
	"github.com/pion/dtls/v3/pkg/crypto/clientcertificate"
	"github.com/pion/dtls/v3/pkg/protocol"
	"github.com/pion/dtls/v3/pkg/protocol/handshake"
	"github.com/pion/dtls/v3/pkg/protocol/recordlayer"
)

type zzFakeSuite struct {
	seenSeq   []uint64
	seenEpoch []uint16
}

func (s *zzFakeSuite) String() string                               { return "zzFake" }
func (s *zzFakeSuite) ID() CipherSuiteID                            { return TLS_ECDHE_ECDSA_WITH_AES_128_GCM_SHA256 }
func (s *zzFakeSuite) CertificateType() clientcertificate.Type      { return clientcertificate.ECDSASign }
func (s *zzFakeSuite) HashFunc() func() hash.Hash                   { return nil }
func (s *zzFakeSuite) AuthenticationType() types.AuthenticationType { return types.AuthenticationTypeCertificate }
func (s *zzFakeSuite) KeyExchangeAlgorithm() types.KeyExchangeAlgorithm {
	return types.KeyExchangeAlgorithmEcdhe
}
func (s *zzFakeSuite) ECC() bool                                       { return true }
func (s *zzFakeSuite) Init(ms, cr, sr []byte, isClient bool) error     { return nil }
func (s *zzFakeSuite) IsInitialized() bool                             { return true }
func (s *zzFakeSuite) Decrypt(h recordlayer.Header, in []byte) ([]byte, error) { return in, nil }
func (s *zzFakeSuite) Encrypt(pkt *recordlayer.RecordLayer, raw []byte) ([]byte, error) {
	s.seenSeq = append(s.seenSeq, pkt.Header.SequenceNumber)
	s.seenEpoch = append(s.seenEpoch, pkt.Header.Epoch)
	return raw, nil
}

func zzConn12(suite *zzFakeSuite) *Conn {
	c := &Conn{
		state:                   dtlsstate.NewActive(true),
		maximumTransmissionUnit: 1200,
		paddingLengthGenerator:  func(uint) uint { return 0 },
	}
	common := dtlsstate.CommonState(c.state)
	common.CipherSuite = suite
	common.LocalVersion = protocol.Version1_2
	return c
}

// Allocation step from an arbitrary counter: returns the pre-value and leaves pre+1, or fails iff pre > 2^48-1.
//
//symgo:entry covers=alloc_ok,alloc_overflow
func zzSeqStep() {
	c := zzConn12(&zzFakeSuite{})
	common := dtlsstate.CommonState(c.state)
	nep := zzsymChoice("nepochs", 3)
	for i := 0; i < nep; i++ {
		common.LocalSequenceNumber = append(common.LocalSequenceNumber, zzsymU64("ctr"))
	}
	epoch := uint16(zzsymChoice("epoch", 3))
	var pre uint64
	if int(epoch) < nep {
		pre = common.LocalSequenceNumber[epoch]
	}
	zzsymAssume(pre < ^uint64(0))
	seq, err := c.nextLocalSequenceNumber(epoch)
	if pre > recordlayer.MaxSequenceNumber {
		zzsymAssert(err != nil, "overflow_refused")
		zzsymCover("alloc_overflow")
		return
	}
	zzsymAssert(err == nil, "alloc_ok")
	zzsymAssert(seq == pre, "returns_pre_value")
	zzsymAssert(common.LocalSequenceNumber[epoch] == pre+1, "counter_incremented")
	seq2, err2 := c.nextLocalSequenceNumber(epoch)
	if err2 == nil {
		zzsymAssert(seq2 == seq+1, "strictly_increasing")
	}
	zzsymCover("alloc_ok")
}

// processPacket: the sequence number written on the wire and handed to the cipher equals the one just
// allocated, for plain and CID-wrapped application records.
//
//symgo:entry covers=plain,cid
func zzSeqOnWireAppData() {
	suite := &zzFakeSuite{}
	c := zzConn12(suite)
	common := dtlsstate.CommonState(c.state)
	epoch := uint16(1)
	common.LocalSequenceNumber = []uint64{0, zzsymU64("ctr")}
	pre := common.LocalSequenceNumber[1]
	zzsymAssume(pre <= recordlayer.MaxSequenceNumber)
	wrap := zzsymChoice("wrapcid", 2) == 1
	if wrap {
		common.RemoteConnectionID = zzsymBytes("rcid", zzsymChoice("cidlen", 3)+1)
	}
	pkt := &dtlsflight.Packet{
		Record: &recordlayer.RecordLayer{
			Header:  recordlayer.Header{Epoch: epoch, Version: protocol.Version1_2},
			Content: &protocol.ApplicationData{Data: zzsymBytes("pay", zzsymParam("NPAY"))},
		},
		ShouldEncrypt: true,
		ShouldWrapCID: wrap,
	}
	raw, err := c.processPacket(pkt)
	zzsymAssert(err == nil, "process_ok")
	var h recordlayer.Header
	if wrap {
		h.ConnectionID = make([]byte, len(common.RemoteConnectionID))
		zzsymCover("cid")
	} else {
		zzsymCover("plain")
	}
	zzsymAssert(h.Unmarshal(raw) == nil, "wire_header_parses")
	zzsymAssert(h.SequenceNumber == pre, "wire_seq_is_allocated")
	zzsymAssert(h.Epoch == epoch, "wire_epoch")
	zzsymAssert(len(suite.seenSeq) == 1 && suite.seenSeq[0] == pre, "cipher_seq_is_allocated")
	zzsymAssert(common.LocalSequenceNumber[1] == pre+1, "counter_advanced_once")
	if wrap {
		zzsymAssert(zzsymEqBytes(h.ConnectionID, common.RemoteConnectionID), "wire_cid_is_peer_cid")
	}
}

// processHandshakePacket: every emitted fragment record carries the sequence number allocated for it;
// consecutive records strictly increase.
//
//symgo:entry covers=hs_plain,hs_cid
func zzSeqOnWireHandshake() {
	suite := &zzFakeSuite{}
	c := zzConn12(suite)
	common := dtlsstate.CommonState(c.state)
	epoch := uint16(zzsymChoice("epoch", 2))
	common.LocalSequenceNumber = []uint64{zzsymU64("ctr0"), zzsymU64("ctr1")}
	pre := common.LocalSequenceNumber[epoch]
	zzsymAssume(pre <= recordlayer.MaxSequenceNumber-4)
	wrap := zzsymChoice("wrapcid", 2) == 1
	if wrap {
		common.RemoteConnectionID = zzsymBytes("rcid", 2)
	}
	body := zzsymBytes("verify", 4)
	c.maximumTransmissionUnit = 2 // two fragments of 2 body bytes
	hs := &handshake.Handshake{Message: &handshake.MessageFinished{VerifyData: body}}
	pkt := &dtlsflight.Packet{
		Record: &recordlayer.RecordLayer{
			Header:  recordlayer.Header{Epoch: epoch, Version: protocol.Version1_2, ContentType: protocol.ContentTypeHandshake},
			Content: hs,
		},
		ShouldEncrypt: epoch > 0,
		ShouldWrapCID: wrap,
		// the flight handlers set this flag on the packet that carries Finished; it must never rewind the counter
		ResetLocalSequenceNumber: zzsymChoice("reset_flag", 2) == 1,
	}
	raws, err := c.processHandshakePacket(pkt, hs)
	zzsymAssert(err == nil, "process_ok")
	zzsymAssert(len(raws) == 2, "two_fragments")
	for i, raw := range raws {
		var h recordlayer.Header
		if wrap {
			h.ConnectionID = make([]byte, 2)
		}
		zzsymAssert(h.Unmarshal(raw) == nil, "wire_header_parses")
		zzsymAssert(h.SequenceNumber == pre+uint64(i), "wire_seq_is_allocated")
		if epoch > 0 {
			zzsymAssert(suite.seenSeq[i] == pre+uint64(i), "cipher_seq_is_allocated")
		}
	}
	if wrap {
		zzsymCover("hs_cid")
	} else {
		zzsymCover("hs_plain")
	}
	zzsymAssert(common.LocalSequenceNumber[epoch] == pre+uint64(len(raws)), "counter_advanced_per_record")
}

// Export point: generateState -> serialize -> deserialize carries the next unused sequence number of the current
// epoch unchanged for every 64-bit counter value (including values past 2^48-1, which must keep refusing writes after
// an import) and every epoch index in range. The remaining half (generateInternalState storing it back) is C19.
//
//symgo:entry covers=exported
func zzSeqExportContinuity() {
	st := &dtlsstate.State12{Common: &dtlsstate.Common{IsClient: zzsymChoice("isClient", 2) == 1, LocalVersion: protocol.Version1_2}}
	st.CipherSuite = &zzFakeSuite{}
	epoch := uint16(1 + zzsymChoice("epoch", 2))
	st.SetLocalEpoch(epoch)
	for i := 0; i <= int(epoch); i++ {
		st.LocalSequenceNumber = append(st.LocalSequenceNumber, zzsymU64("ctr"))
	}
	next := st.LocalSequenceNumber[epoch]
	s, err := generateState(st)
	zzsymAssert(err == nil, "export_ok")
	zzsymAssert(s.sequenceNumber == next, "exported_next_sequence_number")
	ser, err := s.serialize()
	zzsymAssert(err == nil, "serialize_ok")
	zzsymAssert(ser.SequenceNumber == next, "serialized_next_sequence_number")
	var back State
	back.deserialize(*ser)
	zzsymAssert(back.sequenceNumber == next, "imported_next_sequence_number")
	zzsymAssert(back.localEpoch == epoch, "imported_epoch")
	zzsymCover("exported")
}
