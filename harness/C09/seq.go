package dtls

//symgo:pkg github.com/pion/dtls/v3
//symgo:param NPAY quick=3 thorough=6
//symgo:stub CipherSuite is a harness fake whose Encrypt returns its input and records the header it was given
//symgo:outside concurrent writers: the claim assumes prepareRawPacketsTracked is serialised by the existing locks

import (
	"hash"

	"github.com/pion/dtls/v3/internal/ciphersuite/types"
	dtlsflight "github.com/pion/dtls/v3/internal/flight"
	dtlsstate "github.com/pion/dtls/v3/internal/state"
	"github.com/pion/dtls/v3/pkg/crypto/clientcertificate"
	"github.com/pion/dtls/v3/pkg/protocol"
	"github.com/pion/dtls/v3/pkg/protocol/alert"
	"github.com/pion/dtls/v3/pkg/protocol/handshake"
	"github.com/pion/dtls/v3/pkg/protocol/recordlayer"
)

type zzFakeSuite struct {
	seenSeq   []uint64
	seenEpoch []uint16
}

func (s *zzFakeSuite) String() string                               { return "zzFake" }
func (s *zzFakeSuite) ID() CipherSuiteID                            { return TLS_ECDHE_ECDSA_WITH_AES_128_GCM_SHA256 }
func (s *zzFakeSuite) CertificateType() clientcertificate.Type      { return clientcertificate.ECDSASign }
func (s *zzFakeSuite) HashFunc() func() hash.Hash                   { return nil }
func (s *zzFakeSuite) AuthenticationType() types.AuthenticationType { return types.AuthenticationTypeCertificate }
func (s *zzFakeSuite) KeyExchangeAlgorithm() types.KeyExchangeAlgorithm {
	return types.KeyExchangeAlgorithmEcdhe
}
func (s *zzFakeSuite) ECC() bool                                       { return true }
func (s *zzFakeSuite) Init(ms, cr, sr []byte, isClient bool) error     { return nil }
func (s *zzFakeSuite) IsInitialized() bool                             { return true }
func (s *zzFakeSuite) Decrypt(h recordlayer.Header, in []byte) ([]byte, error) { return in, nil }
func (s *zzFakeSuite) Encrypt(pkt *recordlayer.RecordLayer, raw []byte) ([]byte, error) {
	s.seenSeq = append(s.seenSeq, pkt.Header.SequenceNumber)
	s.seenEpoch = append(s.seenEpoch, pkt.Header.Epoch)
	return raw, nil
}

func zzConn12(suite *zzFakeSuite) *Conn {
	c := &Conn{
		state:                   dtlsstate.NewActive(true),
		maximumTransmissionUnit: 1200,
		paddingLengthGenerator:  func(uint) uint { return 0 },
	}
	common := dtlsstate.CommonState(c.state)
	common.CipherSuite = suite
	common.LocalVersion = protocol.Version1_2
	return c
}

// Allocation step from an arbitrary counter: returns the pre-value and leaves pre+1, or fails iff pre > 2^48-1.
//
//symgo:entry covers=alloc_ok,alloc_overflow
func zzSeqStep() {
	c := zzConn12(&zzFakeSuite{})
	common := dtlsstate.CommonState(c.state)
	nep := zzsymChoice("nepochs", 3)
	for i := 0; i < nep; i++ {
		common.LocalSequenceNumber = append(common.LocalSequenceNumber, zzsymU64("ctr"))
	}
	epoch := uint16(zzsymChoice("epoch", 3))
	var pre uint64
	if int(epoch) < nep {
		pre = common.LocalSequenceNumber[epoch]
	}
	zzsymAssume(pre < ^uint64(0))
	seq, err := c.nextLocalSequenceNumber(epoch)
	if pre > recordlayer.MaxSequenceNumber {
		zzsymAssert(err != nil, "overflow_refused")
		// exhausted stays exhausted: the refusal hands out no number and does not wind the counter back into the
		// 48-bit space (a counter set to 2^48-1 here would re-issue the last number to the next writer, e.g. the
		// close_notify of Close or a connection resumed from a state exported afterwards)
		zzsymAssert(common.LocalSequenceNumber[epoch] > recordlayer.MaxSequenceNumber, "overflow_keeps_counter_beyond_the_sequence_space")
		_, err2 := c.nextLocalSequenceNumber(epoch)
		zzsymAssert(err2 != nil, "overflow_refused_again")
		zzsymCover("alloc_overflow")
		return
	}
	zzsymAssert(err == nil, "alloc_ok")
	zzsymAssert(seq == pre, "returns_pre_value")
	zzsymAssert(common.LocalSequenceNumber[epoch] == pre+1, "counter_incremented")
	seq2, err2 := c.nextLocalSequenceNumber(epoch)
	if err2 == nil {
		zzsymAssert(seq2 == seq+1, "strictly_increasing")
	}
	zzsymCover("alloc_ok")
}

// processPacket: the sequence number written on the wire and handed to the cipher equals the one just
// allocated, for plain and CID-wrapped application records.
//
//symgo:entry covers=plain,cid
func zzSeqOnWireAppData() {
	suite := &zzFakeSuite{}
	c := zzConn12(suite)
	common := dtlsstate.CommonState(c.state)
	epoch := uint16(1)
	common.LocalSequenceNumber = []uint64{0, zzsymU64("ctr")}
	pre := common.LocalSequenceNumber[1]
	zzsymAssume(pre <= recordlayer.MaxSequenceNumber)
	wrap := zzsymChoice("wrapcid", 2) == 1
	if wrap {
		common.RemoteConnectionID = zzsymBytes("rcid", zzsymChoice("cidlen", 3)+1)
	}
	pkt := &dtlsflight.Packet{
		Record: &recordlayer.RecordLayer{
			Header:  recordlayer.Header{Epoch: epoch, Version: protocol.Version1_2},
			Content: &protocol.ApplicationData{Data: zzsymBytes("pay", zzsymParam("NPAY"))},
		},
		ShouldEncrypt: true,
		ShouldWrapCID: wrap,
	}
	raw, err := c.processPacket(pkt)
	zzsymAssert(err == nil, "process_ok")
	var h recordlayer.Header
	if wrap {
		h.ConnectionID = make([]byte, len(common.RemoteConnectionID))
		zzsymCover("cid")
	} else {
		zzsymCover("plain")
	}
	zzsymAssert(h.Unmarshal(raw) == nil, "wire_header_parses")
	zzsymAssert(h.SequenceNumber == pre, "wire_seq_is_allocated")
	zzsymAssert(h.Epoch == epoch, "wire_epoch")
	zzsymAssert(len(suite.seenSeq) == 1 && suite.seenSeq[0] == pre, "cipher_seq_is_allocated")
	zzsymAssert(common.LocalSequenceNumber[1] == pre+1, "counter_advanced_once")
	if wrap {
		zzsymAssert(zzsymEqBytes(h.ConnectionID, common.RemoteConnectionID), "wire_cid_is_peer_cid")
	}
}

// processHandshakePacket: every emitted fragment record carries the sequence number allocated for it;
// consecutive records strictly increase.
//
//symgo:entry covers=hs_plain,hs_cid
func zzSeqOnWireHandshake() {
	suite := &zzFakeSuite{}
	c := zzConn12(suite)
	common := dtlsstate.CommonState(c.state)
	epoch := uint16(zzsymChoice("epoch", 2))
	common.LocalSequenceNumber = []uint64{zzsymU64("ctr0"), zzsymU64("ctr1")}
	pre := common.LocalSequenceNumber[epoch]
	zzsymAssume(pre <= recordlayer.MaxSequenceNumber-4)
	wrap := zzsymChoice("wrapcid", 2) == 1
	if wrap {
		common.RemoteConnectionID = zzsymBytes("rcid", 2)
	}
	body := zzsymBytes("verify", 4)
	c.maximumTransmissionUnit = 2 // two fragments of 2 body bytes
	hs := &handshake.Handshake{Message: &handshake.MessageFinished{VerifyData: body}}
	pkt := &dtlsflight.Packet{
		Record: &recordlayer.RecordLayer{
			Header:  recordlayer.Header{Epoch: epoch, Version: protocol.Version1_2, ContentType: protocol.ContentTypeHandshake},
			Content: hs,
		},
		ShouldEncrypt: epoch > 0,
		ShouldWrapCID: wrap,
		// the flight handlers set this flag on the packet that carries Finished; it must never rewind the counter
		ResetLocalSequenceNumber: zzsymChoice("reset_flag", 2) == 1,
	}
	raws, err := c.processHandshakePacket(pkt, hs)
	zzsymAssert(err == nil, "process_ok")
	zzsymAssert(len(raws) == 2, "two_fragments")
	for i, raw := range raws {
		var h recordlayer.Header
		if wrap {
			h.ConnectionID = make([]byte, 2)
		}
		zzsymAssert(h.Unmarshal(raw) == nil, "wire_header_parses")
		zzsymAssert(h.SequenceNumber == pre+uint64(i), "wire_seq_is_allocated")
		if epoch > 0 {
			zzsymAssert(suite.seenSeq[i] == pre+uint64(i), "cipher_seq_is_allocated")
		}
	}
	if wrap {
		zzsymCover("hs_cid")
	} else {
		zzsymCover("hs_plain")
	}
	zzsymAssert(common.LocalSequenceNumber[epoch] == pre+uint64(len(raws)), "counter_advanced_per_record")
}

// Re-sent final flight: Finished, an application record, the same Finished packet again (timer or FINISHED-state
// re-send; every flight generator sets ResetLocalSequenceNumber on it) and one more application record. All four
// records of the epoch carry distinct, increasing numbers from an arbitrary counter, so the application record written
// after the re-send is not mistaken for a replay by the peer ("application data then flows in both directions").
//
//symgo:entry covers=resent_final_flight
func zzAppDataAfterResentFinished() {
	suite := &zzFakeSuite{}
	c := zzConn12(suite)
	common := dtlsstate.CommonState(c.state)
	common.LocalSequenceNumber = []uint64{zzsymU64("ctr0"), zzsymU64("ctr1")}
	pre := common.LocalSequenceNumber[1]
	zzsymAssume(pre <= recordlayer.MaxSequenceNumber-4)
	hs := &handshake.Handshake{Message: &handshake.MessageFinished{VerifyData: zzsymBytes("verify", 2)}}
	fin := &dtlsflight.Packet{
		Record: &recordlayer.RecordLayer{
			Header:  recordlayer.Header{Epoch: 1, Version: protocol.Version1_2, ContentType: protocol.ContentTypeHandshake},
			Content: hs,
		},
		ShouldEncrypt:            true,
		ResetLocalSequenceNumber: true,
	}
	app := func() uint64 {
		raw, err := c.processPacket(&dtlsflight.Packet{
			Record: &recordlayer.RecordLayer{
				Header:  recordlayer.Header{Epoch: 1, Version: protocol.Version1_2},
				Content: &protocol.ApplicationData{Data: zzsymBytes("pay", 1)},
			},
			ShouldEncrypt: true,
		})
		zzsymAssert(err == nil, "app_ok")
		var h recordlayer.Header
		zzsymAssert(h.Unmarshal(raw) == nil, "wire_header_parses")
		return h.SequenceNumber
	}
	finSeq := func() uint64 {
		raws, err := c.processHandshakePacket(fin, hs)
		zzsymAssert(err == nil && len(raws) == 1, "finished_ok")
		var h recordlayer.Header
		zzsymAssert(h.Unmarshal(raws[0]) == nil, "wire_header_parses")
		return h.SequenceNumber
	}
	s0 := finSeq()
	s1 := app()
	s2 := finSeq()
	s3 := app()
	zzsymAssert(s0 == pre && s1 == pre+1, "first_transmission_numbers")
	zzsymAssert(s2 == pre+2, "resent_finished_takes_a_fresh_number")
	zzsymAssert(s3 == pre+3, "application_record_after_resend_takes_a_fresh_number")
	zzsymCover("resent_final_flight")
}

// Export point: generateState -> serialize -> deserialize carries the next unused sequence number of the current
// epoch unchanged for every 64-bit counter value (including values past 2^48-1, which must keep refusing writes after
// an import) and every epoch index in range. The remaining half (generateInternalState storing it back) is C19.
//
//symgo:entry covers=exported
func zzSeqExportContinuity() {
	st := &dtlsstate.State12{Common: &dtlsstate.Common{IsClient: zzsymChoice("isClient", 2) == 1, LocalVersion: protocol.Version1_2}}
	st.CipherSuite = &zzFakeSuite{}
	epoch := uint16(1 + zzsymChoice("epoch", 2))
	st.SetLocalEpoch(epoch)
	for i := 0; i <= int(epoch); i++ {
		st.LocalSequenceNumber = append(st.LocalSequenceNumber, zzsymU64("ctr"))
	}
	next := st.LocalSequenceNumber[epoch]
	s, err := generateState(st)
	zzsymAssert(err == nil, "export_ok")
	zzsymAssert(s.sequenceNumber == next, "exported_next_sequence_number")
	ser, err := s.serialize()
	zzsymAssert(err == nil, "serialize_ok")
	zzsymAssert(ser.SequenceNumber == next, "serialized_next_sequence_number")
	var back State
	back.deserialize(*ser)
	zzsymAssert(back.sequenceNumber == next, "imported_next_sequence_number")
	zzsymAssert(back.localEpoch == epoch, "imported_epoch")
	zzsymCover("exported")
}

type zzSeal9 struct {
	epoch  uint16
	seqs   *[]uint64
	epochs *[]uint16
	hdrSeq *[]uint16
}

func (p *zzSeal9) Seal(h recordlayer.UnifiedHeader, seq uint64, ct protocol.ContentType, pt []byte) (recordlayer.CiphertextRecord13, error) {
	*p.seqs = append(*p.seqs, seq)
	*p.epochs = append(*p.epochs, p.epoch)
	*p.hdrSeq = append(*p.hdrSeq, h.SequenceNumber)
	out := make([]byte, len(pt)+17)
	h.Length = uint16(len(out))
	return recordlayer.CiphertextRecord13{Header: h, EncryptedRecord: out}, nil
}
func (p *zzSeal9) Open(recordlayer.UnifiedHeader, uint64, []byte) (recordlayer.InnerPlaintext, error) {
	return recordlayer.InnerPlaintext{}, nil
}
func (p *zzSeal9) UnmaskSequenceNumber(h recordlayer.UnifiedHeader, _ []byte) (recordlayer.UnifiedHeader, error) {
	return h, nil
}

// DTLS 1.3 send path (processPacket -> processProtectedPacket -> sealRecordContent) with write generations retained for
// epochs 3 and 4 (4 is current) and arbitrary per-epoch counters: a record for packet epoch e (3 or 4; application
// data, alert or ACK) is sealed by the generation OF EPOCH e with the FULL 64-bit record number just allocated from
// epoch e's counter (that number is what the AEAD nonce is built from; the header carries its low 16 bits), the counter
// of e advances by one and the other epoch's counter is untouched; two consecutive records get consecutive numbers. So
// the pair (key generation, record number) never repeats, also beyond 2^16 records and for a record of a superseded
// epoch emitted after a key update.
//
//symgo:entry covers=current_epoch,superseded_epoch
func zzSeqOnWire13() {
	c := zzConn12(&zzFakeSuite{})
	st := dtlsstate.Activate13(c.state)
	c.state = st
	st.LocalVersion = protocol.Version1_3
	var seqs []uint64
	var epochs, hdr []uint16
	st.TrafficKeys.Install(&dtlsstate.TrafficGeneration{Epoch: 3, Protection: &zzSeal9{epoch: 3, seqs: &seqs, epochs: &epochs, hdrSeq: &hdr}}, nil)
	st.TrafficKeys.Install(&dtlsstate.TrafficGeneration{Epoch: 4, Generation: 1, Protection: &zzSeal9{epoch: 4, seqs: &seqs, epochs: &epochs, hdrSeq: &hdr}}, nil)
	st.SetLocalEpoch(4)
	st.LocalSequenceNumber = []uint64{0, 0, 0, zzsymU64("ctr3"), zzsymU64("ctr4")}
	e := uint16(3 + zzsymChoice("packet_epoch", 2))
	pre, other := st.LocalSequenceNumber[e], st.LocalSequenceNumber[7-e]
	zzsymAssume(pre <= recordlayer.MaxSequenceNumber-2)
	mk := func() *dtlsflight.Packet {
		var content protocol.Content = &protocol.ApplicationData{Data: zzsymBytes("pay", 2)}
		if zzsymChoice("kind", 2) == 1 {
			content = &protocol.ACK{}
		}
		return &dtlsflight.Packet{
			Record:        &recordlayer.RecordLayer{Header: recordlayer.Header{Epoch: e, Version: protocol.Version1_2}, Content: content},
			ShouldEncrypt: true,
		}
	}
	_, err := c.processPacket(mk())
	zzsymAssert(err == nil, "seal_ok")
	zzsymAssert(len(seqs) == 1, "one_seal")
	zzsymAssert(epochs[0] == e, "sealed_by_generation_of_packet_epoch")
	zzsymAssert(seqs[0] == pre, "aead_record_number_is_full_allocated_number")
	zzsymAssert(hdr[0] == uint16(pre), "header_carries_low_16_bits")
	zzsymAssert(st.LocalSequenceNumber[e] == pre+1, "counter_advanced_once")
	zzsymAssert(st.LocalSequenceNumber[7-e] == other, "other_epoch_counter_untouched")
	_, err = c.processPacket(mk())
	zzsymAssert(err == nil && len(seqs) == 2, "second_seal_ok")
	zzsymAssert(epochs[1] == e && seqs[1] == pre+1, "second_record_gets_next_number_same_generation")
	if e == 4 {
		zzsymCover("current_epoch")
	} else {
		zzsymCover("superseded_epoch")
	}
}

// DTLS 1.3 records that leave UNPROTECTED (ShouldEncrypt not set: ClientHello / ServerHello / HelloRetryRequest in
// epoch 0, and an alert raised before the handshake is established, which carries the endpoint's current epoch 0 or
// 2): processPacket puts on the wire exactly the pair (packet epoch, number just allocated from THAT epoch's
// counter), for arbitrary per-epoch counters; the counter of that epoch advances by one and no other counter moves; a
// second record gets the next number. So an unprotected record never borrows a number from one epoch's counter and
// shows it under another epoch (which would repeat a pair already used there).
//
//symgo:entry covers=plain13_epoch0,plain13_epoch2
func zzSeqOnWire13Unprotected() {
	c := zzConn12(&zzFakeSuite{})
	st := dtlsstate.Activate13(c.state)
	c.state = st
	st.LocalVersion = protocol.Version1_3
	st.LocalSequenceNumber = []uint64{zzsymU64("ctr0"), zzsymU64("ctr1"), zzsymU64("ctr2")}
	e := uint16(2 * zzsymChoice("packet_epoch", 2))
	st.SetLocalEpoch(e)
	before := append([]uint64{}, st.LocalSequenceNumber...)
	zzsymAssume(before[e] <= recordlayer.MaxSequenceNumber-2)
	for k := 0; k < 2; k++ {
		pkt := &dtlsflight.Packet{Record: &recordlayer.RecordLayer{
			Header:  recordlayer.Header{Epoch: e, Version: protocol.Version1_2},
			Content: &alert.Alert{Level: alert.Level(zzsymU8("lvl")), Description: alert.Description(zzsymU8("desc"))},
		}}
		raw, err := c.processPacket(pkt)
		zzsymAssert(err == nil, "process_ok")
		var h recordlayer.Header
		zzsymAssert(h.Unmarshal(raw) == nil, "wire_header_parses")
		zzsymAssert(h.Epoch == e, "wire_epoch_is_packet_epoch")
		zzsymAssert(h.SequenceNumber == before[e]+uint64(k), "wire_seq_is_allocated_from_wire_epoch")
	}
	for i := range before {
		want := before[i]
		if i == int(e) {
			want += 2
		}
		zzsymAssert(st.LocalSequenceNumber[i] == want, "only_the_wire_epochs_counter_advances")
	}
	if e == 0 {
		zzsymCover("plain13_epoch0")
	} else {
		zzsymCover("plain13_epoch2")
	}
}

// DTLS 1.3 protected HANDSHAKE records (processProtectedHandshakePacketTracked: the handshake flights of epoch 2,
// NewSessionTicket / KeyUpdate of the application epochs), first transmission and retransmission: write
// generations for epochs 2 and 3 are both installed (the client installs its epoch-3 keys right after the first
// send of its final flight, whose retransmissions still belong to epoch 2), per-epoch counters are arbitrary. A
// handshake message of 2 bytes sent in packet epoch e (2 or 3) as one or two fragments, then sent AGAIN: every record
// is sealed by the generation of epoch e with the number just allocated from EPOCH e's counter, the tracked record
// number is that pair, consecutive records (also across the two transmissions) get consecutive numbers, and the
// other epoch's counter does not move. So a retransmitted flight never re-uses a number of its epoch.
//
//symgo:entry covers=hs13_epoch2_while_epoch3_is_current,hs13_current_epoch
func zzSeqOnWire13Handshake() {
	c := zzConn12(&zzFakeSuite{})
	st := dtlsstate.Activate13(c.state)
	c.state = st
	st.LocalVersion = protocol.Version1_3
	var seqs []uint64
	var epochs, hdr []uint16
	st.TrafficKeys.Install(&dtlsstate.TrafficGeneration{Epoch: 2, Protection: &zzSeal9{epoch: 2, seqs: &seqs, epochs: &epochs, hdrSeq: &hdr}}, nil)
	st.TrafficKeys.Install(&dtlsstate.TrafficGeneration{Epoch: 3, Generation: 1, Protection: &zzSeal9{epoch: 3, seqs: &seqs, epochs: &epochs, hdrSeq: &hdr}}, nil)
	st.SetLocalEpoch(3)
	st.LocalSequenceNumber = []uint64{0, 0, zzsymU64("ctr2"), zzsymU64("ctr3")}
	e := uint16(2 + zzsymChoice("packet_epoch", 2))
	pre, other := st.LocalSequenceNumber[e], st.LocalSequenceNumber[5-e]
	zzsymAssume(pre <= recordlayer.MaxSequenceNumber-4)
	c.maximumTransmissionUnit = 1 + zzsymChoice("mtu", 2) // 1: two fragments, 2: one
	n := 0
	for round := 0; round < 2; round++ {
		hs := &handshake.Handshake{Message: &handshake.MessageFinished{VerifyData: zzsymBytes("verify", 2)}}
		pkt := &dtlsflight.Packet{
			Record:         &recordlayer.RecordLayer{Header: recordlayer.Header{Epoch: e, Version: protocol.Version1_2}, Content: hs},
			ShouldEncrypt:  true,
			ShouldTrackACK: true,
			// the generators set this flag on the first packet of flights 4 and 5; no writer may act on it
			ResetLocalSequenceNumber: zzsymChoice("reset_flag", 2) == 1,
		}
		recs, err := c.processProtectedHandshakePacketTracked(pkt, hs)
		zzsymAssert(err == nil && len(recs) >= 1, "handshake13_send_ok")
		for _, r := range recs {
			zzsymAssert(n < len(seqs), "every_record_sealed")
			zzsymAssert(epochs[n] == e, "sealed_by_the_generation_of_the_packet_epoch")
			zzsymAssert(seqs[n] == pre+uint64(n), "handshake13_seq_allocated_from_packet_epochs_counter")
			zzsymAssert(r.tracked != nil && r.tracked.Number.Epoch == uint64(e) && r.tracked.Number.SequenceNumber == pre+uint64(n),
				"tracked_record_number_is_the_pair_on_the_wire")
			n++
		}
	}
	zzsymAssert(st.LocalSequenceNumber[e] == pre+uint64(n), "packet_epochs_counter_advanced_per_record")
	zzsymAssert(st.LocalSequenceNumber[5-e] == other, "other_epochs_counter_untouched")
	if e == 2 {
		zzsymCover("hs13_epoch2_while_epoch3_is_current")
	} else {
		zzsymCover("hs13_current_epoch")
	}
}
