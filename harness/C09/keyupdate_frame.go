package dtlshandshake

//symgo:pkg github.com/pion/dtls/v3/internal/handshake
//symgo:param NEPOCH9 quick=6 thorough=8
//symgo:replace github.com/pion/dtls/v3/internal/handshake.deriveNextApplicationTrafficSecret zzNextSecret9
//symgo:stub deriveNextApplicationTrafficSecret is the identity on the secret bytes and the suite's record protection is a dummy (key derivation: C10 / C20); the claim here is about the SEND COUNTERS only
//symgo:outside the write path (seq.go); concurrent writers

import (
	"context"
	"hash"

	"github.com/pion/dtls/v3/internal/ciphersuite"
	dtlsconfig "github.com/pion/dtls/v3/internal/config"
	dtlsflight "github.com/pion/dtls/v3/internal/flight"
	dtlsstate "github.com/pion/dtls/v3/internal/state"
	"github.com/pion/dtls/v3/pkg/protocol"
	"github.com/pion/dtls/v3/pkg/protocol/alert"
	"github.com/pion/dtls/v3/pkg/protocol/handshake"
)

func zzNextSecret9(_ func() hash.Hash, secret []byte) ([]byte, error) {
	return append([]byte{}, secret...), nil
}

type zzProt9 struct{ ciphersuite.RecordProtection13 }

type zzSuite9 struct{ ciphersuite.TLS13CipherSuite }

func (s *zzSuite9) String() string             { return "zzSuite9" }
func (s *zzSuite9) ID() ciphersuite.ID         { return ciphersuite.TLS_AES_128_GCM_SHA256 }
func (s *zzSuite9) HashFunc() func() hash.Hash { return nil }
func (s *zzSuite9) NewRecordProtection([]byte) (ciphersuite.RecordProtection13, error) {
	return &zzProt9{}, nil
}

type zzConn9 struct{ alerts int }

func (c *zzConn9) HandleQueuedPackets(context.Context) error { return nil }
func (c *zzConn9) SessionKey() []byte                        { return nil }
func (c *zzConn9) RecvHandshake() <-chan RecvHandshakeState  { return nil }
func (c *zzConn9) SetLocalEpoch(uint16)                      {}
func (c *zzConn9) TakePendingACKs() []protocol.RecordNumber  { return nil }
func (c *zzConn9) Notify(context.Context, alert.Level, alert.Description) error {
	c.alerts++

	return nil
}
func (c *zzConn9) WritePackets(context.Context, []*dtlsflight.Packet) (*WriteResult, error) {
	return &WriteResult{}, nil
}
func (c *zzConn9) CommitLocalKeyUpdate(*dtlsstate.TrafficGeneration) error { return nil }

// Receiving never rewinds a send counter. A DTLS 1.3 endpoint whose per-epoch SEND counters hold arbitrary values
// for epochs 0..NEPOCH9-1 (it may already be sending in the epoch number the peer is about to move to: both sides
// update their keys independently) processes a KeyUpdate of the peer through the real handleKeyUpdate - valid
// (read generation advances) or refused. Proved: every send counter is exactly what it was; only the read side
// (read generation, remote epoch) changes. A counter set back to 0 would make the endpoint emit (epoch, 0),
// (epoch, 1), ... a second time under the same write key.
//
//symgo:entry covers=peer_update_accepted,peer_update_refused,same_epoch_number_in_use
func zzPeerKeyUpdateKeepsSendCounters() {
	n := zzsymParam("NEPOCH9")
	st := dtlsstate.NewState13(zzsymChoice("client", 2) == 1)
	st.CipherSuite = &zzSuite9{}
	p := newPostHandshake(handshakeContext{
		state: &st,
		cache: dtlsflight.NewCache(),
		cfg:   &dtlsconfig.HandshakeConfig{InitialRetransmitInterval: 1000},
	})
	p.initialized = true
	before := make([]uint64, n)
	st.LocalSequenceNumber = make([]uint64, n)
	for i := range before {
		before[i] = zzsymU64("send_counter")
		st.LocalSequenceNumber[i] = before[i]
	}
	readEpoch := uint16(3 + zzsymChoice("read_epoch", n-4)) // 3..n-2, so that readEpoch+1 < n
	local := uint16(3 + zzsymChoice("local_epoch", n-3))
	st.SetLocalEpoch(local)
	st.TrafficKeys.Install(
		&dtlsstate.TrafficGeneration{Epoch: local, Secret: zzsymBytes("wsecret", 4), Protection: &zzProt9{}},
		&dtlsstate.TrafficGeneration{Epoch: readEpoch, Secret: zzsymBytes("rsecret", 4), Protection: &zzProt9{}},
	)
	st.SetRemoteEpoch(readEpoch)
	msgEpoch := readEpoch
	if zzsymChoice("stale_message_epoch", 2) == 1 {
		msgEpoch = readEpoch - 1
	}
	request := handshake.KeyUpdateNotRequested
	if zzsymChoice("request", 2) == 1 {
		request = handshake.KeyUpdateRequested
	}
	conn := &zzConn9{}
	err := p.handleKeyUpdate(context.Background(), conn, &handshake.MessageKeyUpdate{RequestUpdate: request}, msgEpoch)

	zzsymAssert(len(st.LocalSequenceNumber) == n, "send_counter_table_not_resized_by_receive")
	for i := range before {
		zzsymAssert(st.LocalSequenceNumber[i] == before[i], "peer_keyupdate_leaves_every_send_counter")
	}
	zzsymAssert(st.LocalEpoch() == local, "peer_keyupdate_leaves_sending_epoch")
	if err == nil && st.RemoteEpoch() == readEpoch+1 {
		zzsymCover("peer_update_accepted")
		if local == readEpoch+1 {
			zzsymCover("same_epoch_number_in_use")
		}
	} else {
		zzsymCover("peer_update_refused")
	}
}
