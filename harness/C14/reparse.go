package flight12

//symgo:pkg github.com/pion/dtls/v3/internal/flight/flight12
//symgo:param PID quick=2 thorough=3
//symgo:replace github.com/pion/dtls/v3/pkg/crypto/prf.VerifyDataClient zzVerifyDataClient
//symgo:replace github.com/pion/dtls/v3/pkg/crypto/prf.VerifyDataServer zzVerifyDataServer
//symgo:stub prf.VerifyDataClient / prf.VerifyDataServer are modelled with uninterpreted functions, zzsymUF(...) in zzPRF of resume.go: PRF_label(master secret, H(transcript)); the cipher suite is a harness fake recording the arguments of Init; crypto/rand.Reader returns constant bytes
//symgo:stub the client is the real flight1Generate / flight1Parse / flight3Parse / handleResumption driven as handshakeFSM12.wait drives them: Parse is called once per received datagram that carries handshake records, and again on the next datagram as long as it returned no flight
//symgo:assume an epoch-1 handshake record reaches the client's handshake cache if it decrypts under the record keys the client has initialised (Conn.handleQueuedPackets / handleIncomingPacket); the harness pushes the Finished into the cache directly. In the failing runs those keys were derived from an EMPTY master secret and the two public hello randoms, so every party that saw the hellos can produce such a record.
//symgo:outside the rest of the handshake after the decision; record-layer encoding of the injected Finished

import (
	"crypto/rand"

	dtlsflight "github.com/pion/dtls/v3/internal/flight"
	"github.com/pion/dtls/v3/pkg/protocol"
	"github.com/pion/dtls/v3/pkg/protocol/handshake"
)

// A ServerHello is parsed more than once. The client (real flight1Generate; session store configured or not;
// a stored session - id of 1..PID arbitrary bytes, secret of 2 arbitrary bytes - offered or nothing offered)
// receives a ServerHello with an ARBITRARY non-empty session id of 1..PID bytes and nothing else of the
// server flight; the FSM calls the flight parser for that datagram, then again for the next datagram, which
// carries nothing new for epoch 0 (a retransmitted ServerHello, or the second half of a full server flight
// that is still incomplete) and optionally an epoch-1 Finished with 12 ARBITRARY bytes. The claim of C14 for
// this history: the client takes the abbreviated path - initialises record keys, accepts a Finished, answers
// with Flight5b and is established - only with the secret it has STORED for the session id it OFFERED, i.e.
// only if the ServerHello echoes the offered id. Two labels carry this claim:
//   - defect_reparsed_server_hello_keys_not_from_store: whenever the record keys are initialised during the hello
//     phase, the master secret is the stored secret of the offered, echoed session;
//   - defect_reparsed_server_hello_established_without_stored_secret: Flight5b is returned only for the offered,
//     echoed session.
//
// Both labels failed on the tree before commit a92be95 (flight3Parse adopted the ServerHello's session id and
// cleared the master secret on its first run, so that its second run "resumed" with an EMPTY master secret and
// accepted a Finished anybody can compute); they are kept as the regression check of that fix.
//
//symgo:entry covers=echoed_session_resumes,other_id_first_parse_falls_back,no_store_falls_back
func zzClientReparseServerHello() {
	rand.Reader = zzConstReader{}
	client := zzNewPeer(true)
	client.conn = zzConn{key: zzClientKey}
	store := &zzStore{}
	hasStore := zzsymChoice("client_has_store", 2) == 1
	if hasStore {
		store.attach(client.cfg)
	}
	offered := hasStore && zzsymChoice("client_has_session", 2) == 1
	var id, secret []byte
	if offered {
		id = zzsymBytes("stored_id", 1+zzsymChoice("idlen", zzsymParam("PID")))
		secret = zzsymBytes("stored_secret", 2)
		store.put(zzClientKey, id, secret)
	}
	sink := zzNewPeer(false) // only a cache that receives the ClientHello
	sent, a, err := zzSend(client, sink, Flight1, nil)
	if a != nil || err != nil {
		zzsymFail("client_hello_failed")
	}

	shID := zzsymBytes("server_hello_session_id", 1+zzsymChoice("shidlen", zzsymParam("PID")))
	suiteID := uint16(0xff01)
	sh := &handshake.Handshake{Message: &handshake.MessageServerHello{
		Version:           protocol.Version1_2,
		SessionID:         shID,
		CipherSuiteID:     &suiteID,
		CompressionMethod: dtlsflight.DefaultCompressionMethods()[0],
	}}
	shRaw := zzRaw(sh)
	client.cache.Push(shRaw, 0, 0, handshake.TypeServerHello, false)
	legit := zzsymAnd(offered, zzsymEqBytes(shID, id))

	// datagram 1: ServerHello only
	next, a, err := zzRecv(client, Flight1)
	zzsymAssert(next == 0 && a == nil && err == nil, "client_waits_for_rest_of_server_flight")
	if client.suite.inits > 0 {
		zzsymAssert(legit, "first_parse_abbreviated_only_for_echoed_offer")
	} else if hasStore {
		zzsymCover("other_id_first_parse_falls_back")
	} else {
		zzsymCover("no_store_falls_back")
	}

	// datagram 2: nothing new for epoch 0; optionally a Finished in epoch 1
	inject := zzsymChoice("finished_in_second_datagram", 2) == 1
	var vd []byte
	if inject {
		vd = zzsymBytes("verify_data", 12)
		client.cache.Push(zzMsg(handshake.TypeFinished, 1, vd), 1, 1, handshake.TypeFinished, false)
	}
	next, a, err = zzRecv(client, Flight1)

	if next == Flight5b {
		zzsymAssert(legit, "defect_reparsed_server_hello_established_without_stored_secret")
		transcript := append(append([]byte{}, zzRaw(sent[0])...), shRaw...)
		zzsymAssert(zzsymEqBytes(vd, zzPRF("server_finished", secret, transcript)), "finished_is_prf_of_stored_secret")
		zzsymCover("echoed_session_resumes")
	}
	if client.suite.inits > 0 {
		zzsymAssert(legit, "defect_reparsed_server_hello_keys_not_from_store")
		zzsymAssert(client.suite.inits == 1 && zzsymEqBytes(client.suite.ms, secret), "keys_from_stored_secret")
	}
}
