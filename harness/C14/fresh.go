package flight12

//symgo:pkg github.com/pion/dtls/v3/internal/flight/flight12
//symgo:replace github.com/pion/dtls/v3/pkg/crypto/prf.VerifyDataClient zzVerifyDataClient
//symgo:replace github.com/pion/dtls/v3/pkg/crypto/prf.VerifyDataServer zzVerifyDataServer
//symgo:stub prf.VerifyDataClient / prf.VerifyDataServer are uninterpreted functions of (master secret, transcript), zzsymUF(...) in zzPRF of resume.go; the cipher suite is a harness fake recording Init; crypto/rand.Reader and the connection-ID generators hand out fresh unconstrained bytes and log them
//symgo:stub both endpoints are the real flight12 handlers driven the way handshakeFSM12 drives them (see resume.go)
//symgo:outside connection IDs of other lengths than 2 bytes; CID use on the record layer after the handshake (property C15)

import (
	"crypto/rand"

	dtlsstate "github.com/pion/dtls/v3/internal/state"
	"github.com/pion/dtls/v3/pkg/crypto/elliptic"
	"github.com/pion/dtls/v3/pkg/protocol/extension"
	"github.com/pion/dtls/v3/pkg/protocol/handshake"
)

// zzCIDGen is a connection-ID generator handing out fresh arbitrary 2-byte IDs and logging them.
type zzCIDGen struct{ log [][]byte }

func (g *zzCIDGen) next() []byte {
	b := zzsymBytes("generated_cid", 2)
	g.log = append(g.log, b)

	return b
}

func zzFindCID(values []extension.Value) (*extension.ConnectionID, int) {
	var found *extension.ConnectionID
	n := 0
	for _, v := range values {
		if c, ok := v.(*extension.ConnectionID); ok {
			found = c
			n++
		}
	}

	return found, n
}

// zzStale fills the connection-ID state with leftovers of an earlier connection.
func zzStale(st *dtlsstate.State12, tag string) {
	st.SetLocalConnectionID(zzsymBytes(tag+"_stale_local_cid", 2))
	st.RemoteConnectionID = zzsymBytes(tag+"_stale_remote_cid", 2)
	st.LocalCIDOffered, st.RemoteCIDOffered, st.RRCNegotiated = true, true, true
}

func zzNoCIDs(st *dtlsstate.State12) bool {
	return len(st.LocalConnectionID()) == 0 && len(st.RemoteConnectionID) == 0 &&
		!st.LocalCIDOffered && !st.RemoteCIDOffered && !st.RRCNegotiated
}

// fresh_ids: a complete abbreviated handshake between two real DTLS 1.2 endpoints that hold the same stored
// secret (2 arbitrary bytes) for the offered session id, for every combination of {client has a connection-ID
// generator or not} x {server has one or not}, where BOTH state objects start with stale connection-ID state
// (arbitrary local and remote CIDs, all CID / return-routability flags set) and an old master secret.
// Proved: the server's flight0Parse clears every piece of connection-ID state before it decides to resume;
// the client's flight1Generate clears it before it builds the ClientHello and offers exactly the ID its
// generator produced during this ClientHello (one call); the ServerHello of the abbreviated flight carries a
// connection_id extension iff both sides have a generator, and its value is the one the server's generator
// produced during this flight (one call); when both sides are established each side's local CID is its own
// freshly generated value and its remote CID is the peer's freshly generated value, and the return-
// routability flag is renegotiated; if either side has no generator no connection-ID state is left at all
// (nothing stale survives). The hello randoms of the resumed connection are the bytes read from the entropy
// source during this connection, and the record keys are initialised from them (fresh record keys from
// the stored secret).
//
//symgo:entry covers=cid_both,cid_client_only,cid_server_only,cid_none
func zzResumeFreshIDs() {
	var log [][]byte
	rand.Reader = zzRandLog{&log}
	client, server := zzNewPeer(true), zzNewPeer(false)
	client.conn = zzConn{key: zzClientKey}
	cstore, sstore := &zzStore{}, &zzStore{}
	cstore.attach(client.cfg)
	sstore.attach(server.cfg)
	id := zzsymBytes("session_id", 1)
	secret := zzsymBytes("stored_secret", 2)
	cstore.put(zzClientKey, id, secret)
	sstore.put(id, id, secret)

	cgen, sgen := &zzCIDGen{}, &zzCIDGen{}
	clientCID, serverCID := zzsymChoice("client_generator", 2) == 1, zzsymChoice("server_generator", 2) == 1
	if clientCID {
		client.cfg.ConnectionIDGenerator = cgen.next
	}
	if serverCID {
		server.cfg.ConnectionIDGenerator = sgen.next
	}
	zzStale(client.state, "client")
	zzStale(server.state, "server")
	client.state.MasterSecret = []byte{0xde, 0xad}
	server.state.MasterSecret = []byte{0xbe, 0xef}

	if _, a, err := zzSend(server, client, Flight0, nil); a != nil || err != nil {
		zzsymFail("server_start_failed")
	}
	server.state.LocalKeypair = &elliptic.Keypair{PublicKey: []byte{9}}
	serverRandom := server.state.LocalRandom.MarshalFixed()
	zzsymAssert(len(log) >= 1 && zzsymEqBytes(serverRandom[4:], log[len(log)-1]), "server_random_is_fresh_entropy")

	// ClientHello
	n0 := len(log)
	sent, a, err := zzSend(client, server, Flight1, nil)
	zzsymAssert(a == nil && err == nil && len(sent) == 1, "client_hello_sent")
	ch, _ := sent[0].Message.(*handshake.MessageClientHello)
	clientRandom := ch.Random.MarshalFixed()
	zzsymAssert(len(log) == n0+1 && zzsymEqBytes(clientRandom[4:], log[n0]), "client_random_is_fresh_entropy")
	zzsymAssert(zzNoCIDs(client.state), "client_hello_clears_stale_cid_state")
	offer, noffer := zzFindCID(ch.Extensions)
	if clientCID {
		zzsymAssert(len(cgen.log) == 1, "client_generator_called_once")
		zzsymAssert(noffer == 1 && zzsymEqBytes(offer.CID, cgen.log[0]), "client_offers_freshly_generated_cid")
	} else {
		zzsymAssert(noffer == 0, "no_cid_offer_without_generator")
	}

	// server: parse, abbreviated flight
	next, a, err := zzRecv(server, Flight0)
	zzsymAssert(a == nil && err == nil && next == Flight4b, "server_resumes")
	zzsymAssert(zzNoCIDs(server.state), "server_parse_clears_stale_cid_state")
	msgs, a, err := zzSend(server, client, Flight4b, nil)
	zzsymAssert(a == nil && err == nil && len(msgs) == 2, "abbreviated_flight_sent")
	sh, _ := msgs[0].Message.(*handshake.MessageServerHello)
	answer, nanswer := zzFindCID(sh.Extensions)
	both := clientCID && serverCID
	if both {
		zzsymAssert(len(sgen.log) == 1, "server_generator_called_once")
		zzsymAssert(nanswer == 1 && zzsymEqBytes(answer.CID, sgen.log[0]), "server_answers_freshly_generated_cid")
	} else {
		zzsymAssert(nanswer == 0, "no_cid_answer_unless_both_generators")
		zzsymAssert(len(sgen.log) == 0, "server_generator_not_called")
	}

	// client: verify, Finished; server: verify
	cnext, ca, cerr := zzRecv(client, Flight1)
	zzsymAssert(ca == nil && cerr == nil && cnext == Flight5b, "client_resumes")
	if _, a, err = zzSend(client, server, Flight5b, nil); a != nil || err != nil {
		zzsymFail("client_finished_failed")
	}
	snext, sa, serr := zzRecv(server, Flight4b)
	zzsymAssert(sa == nil && serr == nil && snext == Flight4b, "server_completes")

	if both {
		zzsymAssert(zzsymEqBytes(client.state.LocalConnectionID(), cgen.log[0]), "client_local_cid_is_fresh")
		zzsymAssert(zzsymEqBytes(client.state.RemoteConnectionID, sgen.log[0]), "client_remote_cid_is_servers_fresh")
		zzsymAssert(zzsymEqBytes(server.state.LocalConnectionID(), sgen.log[0]), "server_local_cid_is_fresh")
		zzsymAssert(zzsymEqBytes(server.state.RemoteConnectionID, cgen.log[0]), "server_remote_cid_is_clients_fresh")
		zzsymAssert(client.state.RRCNegotiated && server.state.RRCNegotiated, "rrc_renegotiated")
		zzsymCover("cid_both")
	} else {
		zzsymAssert(zzNoCIDs(client.state), "client_keeps_no_stale_cid")
		zzsymAssert(zzNoCIDs(server.state), "server_keeps_no_stale_cid")
		switch {
		case clientCID:
			zzsymCover("cid_client_only")
		case serverCID:
			zzsymCover("cid_server_only")
		default:
			zzsymCover("cid_none")
		}
	}

	// fresh record keys: stored secret + this connection's randoms, on both sides
	zzsymAssert(client.suite.inits == 1 && server.suite.inits == 1, "keys_initialised_once_per_side")
	zzsymAssert(zzsymAnd(zzsymEqBytes(client.suite.ms, secret), zzsymEqBytes(server.suite.ms, secret)), "keys_from_stored_secret")
	zzsymAssert(zzsymAnd(zzsymEqBytes(client.suite.cr, clientRandom[:]), zzsymEqBytes(server.suite.cr, clientRandom[:])), "keys_from_fresh_client_random")
	zzsymAssert(zzsymAnd(zzsymEqBytes(client.suite.sr, serverRandom[:]), zzsymEqBytes(server.suite.sr, serverRandom[:])), "keys_from_fresh_server_random")
}

// Loss and retransmission of the abbreviated flights, both endpoints holding the same stored secret (2
// arbitrary bytes): every subset of {ServerHello, server Finished} is lost on first transmission, then the
// retransmission delivers the missing messages; the client's Finished is lost or not, then retransmitted.
// Proved: while a message is missing the receiver neither advances nor alerts nor completes; the client
// initialises keys only once it has the ServerHello; after the retransmission the handshake completes on both
// sides with the same (stored secret, client random, server random) as without loss, keys initialised exactly
// once per side (no re-keying by the repeated parse).
//
//symgo:entry covers=no_loss,lost_hello,lost_finished,lost_both,lost_client_finished
func zzResumeLossRecovery() {
	var log [][]byte
	rand.Reader = zzRandLog{&log}
	client, server := zzNewPeer(true), zzNewPeer(false)
	client.conn = zzConn{key: zzClientKey}
	cstore, sstore := &zzStore{}, &zzStore{}
	cstore.attach(client.cfg)
	sstore.attach(server.cfg)
	id := zzsymBytes("session_id", 1)
	secret := zzsymBytes("stored_secret", 2)
	cstore.put(zzClientKey, id, secret)
	sstore.put(id, id, secret)

	if _, a, err := zzSend(server, client, Flight0, nil); a != nil || err != nil {
		zzsymFail("server_start_failed")
	}
	server.state.LocalKeypair = &elliptic.Keypair{PublicKey: []byte{9}}
	if _, a, err := zzSend(client, server, Flight1, nil); a != nil || err != nil {
		zzsymFail("client_hello_failed")
	}
	next, a, err := zzRecv(server, Flight0)
	zzsymAssert(a == nil && err == nil && next == Flight4b, "server_resumes")

	loseSH, loseFin := zzsymChoice("lose_server_hello", 2) == 1, zzsymChoice("lose_server_finished", 2) == 1
	if _, a, err = zzSend(server, client, Flight4b, []bool{loseSH, loseFin}); a != nil || err != nil {
		zzsymFail("abbreviated_flight_failed")
	}
	if loseSH || loseFin {
		cnext, ca, cerr := zzRecv(client, Flight1)
		zzsymAssert(cnext == 0 && ca == nil && cerr == nil, "client_waits_for_lost_message")
		zzsymAssert(loseSH == (client.suite.inits == 0), "client_keys_only_after_server_hello")
		// the server meanwhile sees nothing new
		snext, sa, serr := zzRecv(server, Flight4b)
		zzsymAssert(snext == 0 && sa == nil && serr == nil, "server_waits")
		zzRetransmit(server, client)
	}
	cnext, ca, cerr := zzRecv(client, Flight1)
	zzsymAssert(ca == nil && cerr == nil && cnext == Flight5b, "client_resumes_after_retransmission")

	loseCFin := zzsymChoice("lose_client_finished", 2) == 1
	if _, a, err = zzSend(client, server, Flight5b, []bool{loseCFin}); a != nil || err != nil {
		zzsymFail("client_finished_failed")
	}
	if loseCFin {
		snext, sa, serr := zzRecv(server, Flight4b)
		zzsymAssert(snext == 0 && sa == nil && serr == nil, "server_waits_for_lost_finished")
		zzRetransmit(client, server)
		zzsymCover("lost_client_finished")
	}
	snext, sa, serr := zzRecv(server, Flight4b)
	zzsymAssert(sa == nil && serr == nil && snext == Flight4b, "server_completes_after_retransmission")

	zzsymAssert(client.suite.inits == 1 && server.suite.inits == 1, "keys_initialised_once_per_side")
	zzsymAssert(zzsymAnd(zzsymEqBytes(client.suite.ms, secret), zzsymEqBytes(server.suite.ms, secret)), "keys_from_stored_secret")
	zzsymAssert(zzsymAnd(zzsymEqBytes(client.suite.cr, server.suite.cr), zzsymEqBytes(client.suite.sr, server.suite.sr)), "both_sides_same_randoms")
	switch {
	case loseSH && loseFin:
		zzsymCover("lost_both")
	case loseSH:
		zzsymCover("lost_hello")
	case loseFin:
		zzsymCover("lost_finished")
	default:
		zzsymCover("no_loss")
	}
}
