package flight12

//symgo:pkg github.com/pion/dtls/v3/internal/flight/flight12
//symgo:replace github.com/pion/dtls/v3/pkg/crypto/prf.PreMasterSecret zzStPreMasterSecret
//symgo:replace github.com/pion/dtls/v3/pkg/crypto/prf.MasterSecret zzStMasterSecret
//symgo:replace github.com/pion/dtls/v3/pkg/crypto/prf.VerifyDataClient zzVerifyDataClient
//symgo:replace github.com/pion/dtls/v3/internal/handshakecrypto.VerifyCertificateVerify zzStVerifyCertificateVerify
//symgo:replace github.com/pion/dtls/v3/internal/handshakecrypto.VerifyClientCert zzSpVerifyClientCert
//symgo:stub prf.PreMasterSecret / prf.MasterSecret / prf.VerifyDataClient are uninterpreted functions, zzsymUF(...) in store.go and zzPRF of resume.go; handshakecrypto.VerifyCertificateVerify and handshakecrypto.VerifyClientCert (x509 chain) return verdicts chosen by the harness; the cipher suite is a harness fake (certificate-authenticated ECDHE, custom id) that records Init
//symgo:assume the handshake cache holds complete, unfragmented messages with consistent headers (see fin.go)
//symgo:outside VerifyPeerCertificate callback (nil here); PSK and anonymous suites; what a later connection does with a stored session (resume_lookup: whatever is in the store under the offered id is resumed, so everything written here is resumable)

import (
	"context"
	"crypto/x509"

	dtlsconfig "github.com/pion/dtls/v3/internal/config"
	dtlsflight "github.com/pion/dtls/v3/internal/flight"
	dtlsstate "github.com/pion/dtls/v3/internal/state"
	"github.com/pion/dtls/v3/pkg/crypto/elliptic"
	dtlshash "github.com/pion/dtls/v3/pkg/crypto/hash"
	"github.com/pion/dtls/v3/pkg/crypto/signature"
	"github.com/pion/dtls/v3/pkg/crypto/signaturehash"
	"github.com/pion/dtls/v3/pkg/protocol/handshake"
)

var zzSpChainOK bool

func zzSpVerifyClientCert(_ [][]byte, _ *x509.CertPool, _ []signaturehash.Algorithm) ([][]*x509.Certificate, error) {
	if zzSpChainOK {
		return nil, nil
	}

	return nil, zzErrStore
}

// session_stored_only_after_handshake_checks_pass: the real flight4Parse (server, full handshake, session
// store configured, 1-byte arbitrary session id as sent in the ServerHello, certificate-authenticated suite)
// over: every ClientAuth policy (NoClientCert, RequestClientCert, RequireAnyClientCert, VerifyClientCertIfGiven,
// RequireAndVerifyClientCert) x client flight {ClientKeyExchange alone; Certificate + ClientKeyExchange;
// Certificate + ClientKeyExchange + CertificateVerify with arbitrary signature and chain verdicts} x client
// Finished {absent; present with 12 ARBITRARY bytes, i.e. wrong or right} x VerifyConnection {none, accepts,
// rejects}. Whatever is written to the session store can be resumed later by anybody who knows the master
// secret (resume_lookup, resume_server_fin), so C14 needs: SetSession is called only in a run of flight4Parse
// that returns Flight6 - the client's Finished verified against this connection's master secret, the
// client-authentication policy satisfied and VerifyConnection passed - and then exactly once with
// (id, id, this connection's master secret); a client that presented a certificate is never stored. The
// conditions under which Flight6 may be returned are re-stated independently in the harness.
//
//symgo:entry covers=stored_at_flight6,not_stored_no_finished,not_stored_wrong_finished,not_stored_policy_refused,not_stored_verify_connection_refused,not_stored_client_cert,not_stored_waiting_for_certificate_verify
func zzSessionStoredOnlyAfterChecks() {
	base := &zzSuite{}
	suite := zzCertSuite{base}
	cfg := zzCfg(base)
	cfg.LocalCipherSuites = []dtlsconfig.CipherSuite{suite}
	cfg.LocalPSKCallback = nil
	policy := dtlsconfig.ClientAuthType(zzsymChoice("client_auth", 5))
	cfg.ClientAuth = policy
	cfg.LocalSignatureSchemes = []signaturehash.Algorithm{{Hash: dtlshash.SHA256, Signature: signature.ECDSA}}
	vcMode := zzsymChoice("verify_connection", 3) // 0 none, 1 accepts, 2 rejects
	vcCalls := 0
	if vcMode != 0 {
		cfg.VerifyConnection = func(dtlsstate.Active) error {
			vcCalls++
			if vcMode == 2 {
				return zzErrStore
			}

			return nil
		}
	}
	store := &zzStore{}
	store.attach(cfg)
	state := zzState(false)
	state.CipherSuite = suite
	state.LocalKeypair = &elliptic.Keypair{Curve: elliptic.X25519, PublicKey: []byte{9}, PrivateKey: []byte{7}}
	sid := zzsymBytes("session_id", 1)
	state.SessionID = sid
	state.HandshakeRecvSequence = 1

	cache := dtlsflight.NewCache()
	ch := zzMsg(handshake.TypeClientHello, 0, zzsymBytes("ch_body", 2))
	cache.Push(ch, 0, 0, handshake.TypeClientHello, true)
	sh := zzMsg(handshake.TypeServerHello, 0, zzsymBytes("sh_body", 2))
	cache.Push(sh, 0, 0, handshake.TypeServerHello, false)
	transcript := append(append([]byte{}, ch...), sh...)

	kind := zzsymChoice("client_flight", 3) // 0 CKE, 1 Cert+CKE+CertVerify, 2 Cert+CKE
	hasCert := kind != 0
	seq := uint16(1)
	if hasCert {
		m := zzHS(seq, &handshake.MessageCertificate{Certificate: [][]byte{{0x30, 0x00}}})
		cache.Push(m, 0, seq, handshake.TypeCertificate, true)
		transcript = append(transcript, m...)
		seq++
	}
	cke := zzMsg(handshake.TypeClientKeyExchange, seq, []byte{2, 4, 5}) // RFC 8422 5.7: opaque point<1..255>
	cache.Push(cke, 0, seq, handshake.TypeClientKeyExchange, true)
	transcript = append(transcript, cke...)
	seq++
	zzStSigOK, zzSpChainOK = true, true
	if kind == 1 {
		cv := zzHS(seq, &handshake.MessageCertificateVerify{HashAlgorithm: dtlshash.SHA256, SignatureAlgorithm: signature.ECDSA, Signature: []byte{1}})
		cache.Push(cv, 0, seq, handshake.TypeCertificateVerify, true)
		transcript = append(transcript, cv...)
		seq++
		zzStSigOK = zzsymChoice("signature_valid", 2) == 1
		zzSpChainOK = zzsymChoice("chain_valid", 2) == 1
	}
	hasFin := zzsymChoice("client_finished", 2) == 1
	var vd []byte
	if hasFin {
		vd = zzsymBytes("client_verify_data", 12)
		cache.Push(zzMsg(handshake.TypeFinished, seq, vd), 1, seq, handshake.TypeFinished, true)
	}

	next, a, err := flight4Parse(context.Background(), zzConn{}, state, cache, cfg)

	// the claim
	stored := len(store.setKeys) > 0
	if stored {
		zzsymAssert(next == Flight6, "session_stored_only_after_handshake_checks_pass")
	}

	// independent statement of when the handshake checks pass (RFC 5246 7.4.9 Finished; ClientAuthType doc)
	verified := kind == 1 && zzStSigOK && zzSpChainOK && policy >= dtlsconfig.VerifyClientCertIfGiven
	policyOK := true
	switch policy {
	case dtlsconfig.RequireAnyClientCert:
		policyOK = hasCert
	case dtlsconfig.VerifyClientCertIfGiven:
		policyOK = !hasCert || verified
	case dtlsconfig.RequireAndVerifyClientCert:
		policyOK = hasCert && verified
	}
	if next == Flight6 {
		zzsymAssert(a == nil && err == nil, "flight6_without_alert")
		zzsymAssert(hasFin, "flight6_needs_client_finished")
		zzsymAssert(zzsymEqBytes(vd, zzPRF("client_finished", base.ms, transcript)), "flight6_needs_verified_finished")
		zzsymAssert(policyOK, "flight6_needs_client_auth_policy")
		zzsymAssert(vcMode != 2, "flight6_needs_verify_connection")
		zzsymAssert(kind != 2 && (kind != 1 || zzStSigOK), "flight6_needs_valid_certificate_verify")
		if hasCert {
			zzsymAssert(!stored && len(state.SessionID) == 0, "client_cert_session_not_stored")
			zzsymCover("not_stored_client_cert")

			return
		}
		zzsymAssert(len(store.setKeys) == 1, "session_written_once")
		zzsymAssert(zzsymAnd(zzsymEqBytes(store.setKeys[0], sid), zzsymEqBytes(store.setIDs[0], sid)), "session_written_under_its_id")
		zzsymAssert(base.inits == 1 && zzsymEqBytes(store.setSecrets[0], base.ms), "stored_secret_is_the_connections_master_secret")
		zzsymCover("stored_at_flight6")

		return
	}
	zzsymAssert(!stored, "nothing_stored_unless_flight6")
	switch {
	case kind == 2:
		zzsymCover("not_stored_waiting_for_certificate_verify")
	case !hasFin:
		zzsymCover("not_stored_no_finished")
	case !policyOK:
		zzsymCover("not_stored_policy_refused")
	case vcMode == 2:
		zzsymCover("not_stored_verify_connection_refused")
	case kind == 0 && a != nil:
		zzsymCover("not_stored_wrong_finished")
	}
	_ = vcCalls
}
