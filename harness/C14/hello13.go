package flight13

// GENERATED from harness/C01/handshake13.go with one more assertion. C14: a client (DTLS 1.3-only or dual-stack: the same
// generator writes the ClientHello) that loaded no session from its store offers NO session id and keeps none in its
// state - the DTLS 1.2 ServerHello parser treats "ServerHello.session_id == the id in my state" as an accepted
// resumption and would then key the abbreviated handshake from a master secret that was never loaded.

//symgo:pkg github.com/pion/dtls/v3/internal/flight/flight13
//symgo:param H3VARY quick=1 thorough=2
//symgo:param H3SRTP quick=2 thorough=3
//symgo:param H3CID quick=3 thorough=4
//symgo:param H3HRR quick=2 thorough=2
//symgo:replace github.com/pion/dtls/v3/pkg/crypto/elliptic.GenerateKeypair zzH3GenerateKeypair
//symgo:replace github.com/pion/dtls/v3/pkg/crypto/elliptic.GenerateKeypairForPeer zzH3GenerateKeypairForPeer
//symgo:replace github.com/pion/dtls/v3/pkg/crypto/prf.PreMasterSecret zzH3PreMasterSecret
//symgo:replace crypto/rand.Read zzH3RandRead
//symgo:stub key agreement: toy group - private key = 2 fresh symbolic bytes, public key = copy; prf.PreMasterSecret(pub, priv) is the uninterpreted symmetric function DH_<group>(pub XOR priv, pub AND priv) (DH(pubA,privB) = DH(pubB,privA)); calls are logged
//symgo:stub the ParseHooks of the handshake layer (transcript, handshake traffic secrets, record protection, CertificateVerify / Finished verification of the protected flight) are harness callbacks that record their arguments and accept: the DTLS 1.3 key schedule and Finished check are outside this entry (C10 / C17)
//symgo:stub the server certificate key is a harness crypto.Signer of Ed25519 key type; CertificateVerify.Signature and Finished.VerifyData, which the handshake layer fills in when it protects the flight, are set to fixed dummy bytes by the harness transport
//symgo:stub transport: in-order, loss-free, unfragmented delivery; messages are marshalled by the real codec and pushed into both handshake caches (epoch 0 for hellos, epoch 2 for the protected flight, already decrypted as Conn does before caching)
//symgo:outside DTLS 1.3 key schedule, transcript hash, Finished and CertificateVerify verification, exporter secret agreement, PSK / resumption, post-handshake messages, delivery schedules

import (
	"context"
	"crypto"
	"crypto/ed25519"
	"crypto/tls"
	"io"

	"github.com/pion/dtls/v3/internal/ciphersuite"
	dtlsconfig "github.com/pion/dtls/v3/internal/config"
	dtlsflight "github.com/pion/dtls/v3/internal/flight"
	dtlsstate "github.com/pion/dtls/v3/internal/state"
	"github.com/pion/dtls/v3/pkg/crypto/elliptic"
	dtlshash "github.com/pion/dtls/v3/pkg/crypto/hash"
	"github.com/pion/dtls/v3/pkg/crypto/signature"
	"github.com/pion/dtls/v3/pkg/crypto/signaturehash"
	"github.com/pion/dtls/v3/pkg/protocol"
	"github.com/pion/dtls/v3/pkg/protocol/extension"
	"github.com/pion/dtls/v3/pkg/protocol/handshake"
)

type zzH3Log struct{}

func (zzH3Log) Trace(string)          {}
func (zzH3Log) Tracef(string, ...any) {}
func (zzH3Log) Debug(string)          {}
func (zzH3Log) Debugf(string, ...any) {}
func (zzH3Log) Info(string)           {}
func (zzH3Log) Infof(string, ...any)  {}
func (zzH3Log) Warn(string)           {}
func (zzH3Log) Warnf(string, ...any)  {}
func (zzH3Log) Error(string)          {}
func (zzH3Log) Errorf(string, ...any) {}

type zzH3Conn struct{ queued int }

func (c *zzH3Conn) HandleQueuedPackets(context.Context) error { c.queued++; return nil }
func (c *zzH3Conn) SessionKey() []byte                        { return nil }

type zzH3Signer struct{}

func (zzH3Signer) Public() crypto.PublicKey { return ed25519.PublicKey(make([]byte, 32)) }
func (zzH3Signer) Sign(_ io.Reader, msg []byte, _ crypto.SignerOpts) ([]byte, error) {
	return []byte{1, 2, 3, 4}, nil
}

type zzH3DH struct {
	pub, priv []byte
	group     elliptic.Curve
}

var zzH3DHLog []zzH3DH

func zzH3Clone(b []byte) []byte { return append([]byte{}, b...) }

func zzH3RandRead(b []byte) (int, error) {
	copy(b, zzsymBytes("rand", len(b)))
	return len(b), nil
}

func zzH3GenerateKeypair(c elliptic.Curve) (*elliptic.Keypair, error) {
	k := zzsymBytes("ecdh_private", 2)
	return &elliptic.Keypair{Curve: c, PublicKey: zzH3Clone(k), PrivateKey: zzH3Clone(k)}, nil
}

func zzH3GenerateKeypairForPeer(c elliptic.Curve, peer []byte) (*elliptic.Keypair, error) {
	return zzH3GenerateKeypair(c)
}

func zzH3Itoa(n int) string {
	if n == 0 {
		return "0"
	}
	s := ""
	for n > 0 {
		s = string(rune('0'+n%10)) + s
		n /= 10
	}
	return s
}

func zzH3PreMasterSecret(publicKey, privateKey []byte, group elliptic.Curve) ([]byte, error) {
	zzH3DHLog = append(zzH3DHLog, zzH3DH{pub: zzH3Clone(publicKey), priv: zzH3Clone(privateKey), group: group})
	if len(publicKey) != 2 || len(privateKey) != 2 {
		return nil, io.ErrUnexpectedEOF
	}
	x := []byte{publicKey[0] ^ privateKey[0], publicKey[1] ^ privateKey[1]}
	a := []byte{publicKey[0] & privateKey[0], publicKey[1] & privateKey[1]}
	return zzsymUF("DH_"+zzH3Itoa(int(group)), 4, x, a), nil
}

// ---------------------------------------------------------------------------------------------

type zzH3Peer struct {
	isClient  bool
	ctx       *handshakeContext
	conn      *zzH3Conn
	protected [][]dtlsflight.DecodedHandshakeCacheItem // arguments of the ProtectedHandshake hook
	inbound   int
	derived   int
	initRP    int
}

func zzH3NewPeer(isClient bool, cfg *dtlsconfig.HandshakeConfig) *zzH3Peer {
	st := dtlsstate.NewState13(isClient)
	p := &zzH3Peer{isClient: isClient, conn: &zzH3Conn{}}
	p.ctx = newHandshakeContext(ParseDependencies{
		State: &st, Cache: dtlsflight.NewCache(), Config: cfg,
		Hooks: ParseHooks{
			InboundHandshake: func(dtlsconfig.CipherSuite, []dtlsflight.DecodedHandshakeCacheItem) error { p.inbound++; return nil },
			ProtectedHandshake: func(_ dtlsconfig.CipherSuite, items []dtlsflight.DecodedHandshakeCacheItem) error {
				p.protected = append(p.protected, items)
				return nil
			},
			HandshakeTrafficSecretDeriver:        func(*dtlsstate.State13) error { p.derived++; return nil },
			HandshakeRecordProtectionInitializer: func(*dtlsstate.State13) error { p.initRP++; return nil },
		},
	})
	return p
}

// zzH3Send: see the transport stub above.
func zzH3Send(from, to *zzH3Peer, pkts []*dtlsflight.Packet) {
	for _, p := range pkts {
		h, ok := p.Record.Content.(*handshake.Handshake)
		if !ok {
			continue
		}
		switch m := h.Message.(type) {
		case *handshake.MessageCertificateVerify:
			if len(m.Signature) == 0 {
				m.Signature = []byte{1, 2, 3, 4}
			}
		case *handshake.MessageFinished:
			if len(m.VerifyData) == 0 {
				m.VerifyData = []byte{5, 6, 7, 8}
			}
		}
		h.Header.MessageSequence = uint16(from.ctx.state.HandshakeSendSequence)
		from.ctx.state.HandshakeSendSequence++
		raw, err := h.Marshal()
		zzsymAssert(err == nil, "h3/message_marshals")
		from.ctx.cache.Push(raw, p.Record.Header.Epoch, h.Header.MessageSequence, h.Header.Type, from.isClient)
		to.ctx.cache.Push(raw, p.Record.Header.Epoch, h.Header.MessageSequence, h.Header.Type, from.isClient)
	}
}

func zzH3SuiteMenu(pick int) []dtlsconfig.CipherSuite {
	menu := [][]ciphersuite.ID{
		{ciphersuite.TLS_AES_128_GCM_SHA256},
		{ciphersuite.TLS_AES_256_GCM_SHA384, ciphersuite.TLS_AES_128_GCM_SHA256},
		{ciphersuite.TLS_CHACHA20_POLY1305_SHA256, ciphersuite.TLS_AES_256_GCM_SHA384},
		{ciphersuite.TLS_CHACHA20_POLY1305_SHA256},
	}
	out := []dtlsconfig.CipherSuite{}
	for _, id := range menu[pick] {
		out = append(out, ciphersuite.ForID(id, nil))
	}
	return out
}

func zzH3GroupMenu(pick int) []elliptic.Curve {
	return [][]elliptic.Curve{
		{elliptic.X25519, elliptic.P256},
		{elliptic.P256, elliptic.X25519},
		{elliptic.P256},
		{elliptic.P384},
	}[pick]
}

func zzH3HasSuite(list []dtlsconfig.CipherSuite, id ciphersuite.ID) bool {
	for _, s := range list {
		if s.ID() == id {
			return true
		}
	}
	return false
}

func zzH3HasGroup(list []elliptic.Curve, g elliptic.Curve) bool {
	for _, x := range list {
		if x == g {
			return true
		}
	}
	return false
}

func zzH3Profiles(name string, n int) []extension.SRTPProtectionProfile {
	out := []extension.SRTPProtectionProfile{}
	for i := 0; i < n; i++ {
		out = append(out, extension.SRTPProtectionProfile(zzsymU16(name)))
	}
	return out
}

func zzH3ProfileIn(list []extension.SRTPProtectionProfile, p extension.SRTPProtectionProfile) bool {
	in := false
	for _, x := range list {
		in = zzsymOr(in, x == p)
	}
	return in
}

func zzH3CIDGen(name string, mode int) func() []byte {
	switch mode {
	case 1:
		cid := zzsymBytes(name, 2)
		return func() []byte { return zzH3Clone(cid) }
	case 2:
		return func() []byte { return nil } // what the library's own OnlySendCIDGenerator() returns
	case 3:
		return func() []byte { return []byte{} }
	}
	return nil
}

const (
	zzH3DimSuite = iota
	zzH3DimGroup
	zzH3DimSRTP
	zzH3DimCID
	zzH3DimMisc
	zzH3DimCount
)

var zzH3Focus, zzH3Focus2 int

func zzH3Dim(name string, dim, n, dflt int) int {
	if zzH3Focus == dim || zzH3Focus2 == dim {
		return zzsymChoice(name, n)
	}
	if dflt >= n {
		return n - 1
	}
	return dflt
}

// DTLS 1.3 hello-level agreement (flight13). A DTLS 1.3 client and server are configured independently along
// five dimensions - TLS 1.3 cipher-suite lists (4 menus per side), key-exchange group lists (4 menus per side:
// x25519/P-256 in both orders, P-256 only, P-384 only), SRTP profile lists (0..H3SRTP-1 arbitrary codes per
// side), connection-id generators (none / 2 arbitrary bytes / send-only generator returning nil; thorough: empty slice) per side, and cookie exchange
// (HelloRetryRequest) on/off with client-certificate request on/off; quick varies one dimension at a time,
// thorough every pair. The real flight0Generate, flight1Generate, flight0Parse, [flight2Generate, flight1Parse,
// flight3Generate, flight2Parse,] flight4Generate and flight3Parse run over the real codecs and caches; the
// handshake-layer hooks (transcript, key schedule, CertificateVerify / Finished verification) accept. Proved:
// whenever the server produces flight 4 and the client accepts it (next flight 5), both State13 values hold the
// same TLS 1.3 cipher suite (from both lists), the same key-exchange group (from both lists), the same key
// agreement secret (each side used its own private key with the share the peer sent for that group), mirrored
// randoms, LocalVersion 1.3, mirrored connection ids with mirrored directional CID state and the same RRC
// decision, the same SRTP profile (from both lists), the same (empty) ALPN result, and the Certificate message
// handed to the client's verification hook carries byte-for-byte the chain the server's callback returned.
//
//symgo:entry covers=client_hello13_checked,agreed13,server_rejects_hello13,hrr,no_hrr,cid_on,cid_off,srtp_on,srtp_off,client_cert_requested
func zzHello13OffersNoSessionID() {
	zzH3DHLog = nil
	if zzsymParam("H3VARY") <= 1 {
		zzH3Focus = zzsymChoice("focus_dimension", zzH3DimCount)
		zzH3Focus2 = zzH3Focus
	} else {
		k := zzsymChoice("focus_pair", zzH3DimCount*(zzH3DimCount+1)/2)
		for i := 0; i < zzH3DimCount; i++ {
			for j := i; j < zzH3DimCount; j++ {
				if k == 0 {
					zzH3Focus, zzH3Focus2 = i, j
				}
				k--
			}
		}
	}
	clientSuites := zzH3SuiteMenu(zzH3Dim("client_suites", zzH3DimSuite, 4, 1))
	serverSuites := zzH3SuiteMenu(zzH3Dim("server_suites", zzH3DimSuite, 4, 2))
	clientGroups := zzH3GroupMenu(zzH3Dim("client_groups", zzH3DimGroup, 4, 0))
	serverGroups := zzH3GroupMenu(zzH3Dim("server_groups", zzH3DimGroup, 4, 1))
	clientProfiles := zzH3Profiles("client_srtp_profile", zzH3Dim("client_nsrtp", zzH3DimSRTP, zzsymParam("H3SRTP"), 1))
	serverProfiles := zzH3Profiles("server_srtp_profile", zzH3Dim("server_nsrtp", zzH3DimSRTP, zzsymParam("H3SRTP"), 1))
	clientCIDMode := zzH3Dim("client_cid_mode", zzH3DimCID, zzsymParam("H3CID"), 1)
	serverCIDMode := zzH3Dim("server_cid_mode", zzH3DimCID, zzsymParam("H3CID"), 1)
	cookie := zzH3Dim("cookie_exchange", zzH3DimMisc, zzsymParam("H3HRR"), 0) == 1
	wantClientCert := zzH3Dim("client_auth", zzH3DimMisc, 2, 0) == 1
	chain := [][]byte{zzsymBytes("server_cert", 3)}
	for i := []int{0, 1, 4}[zzsymChoice("server_chain_issuers", 3)]; i > 0; i-- {
		chain = append(chain, zzsymBytes("issuer_cert", 2)) // leaf + 0, 1 or 4 issuers: every presented entry reaches the client's view
	}
	sigs := []signaturehash.Algorithm{{Hash: dtlshash.Ed25519, Signature: signature.Ed25519}}

	ccfg := &dtlsconfig.HandshakeConfig{
		LocalCipherSuites:            clientSuites,
		LocalSignatureSchemes:        sigs,
		LocalSRTPProtectionProfiles:  clientProfiles,
		LocalSRTPMasterKeyIdentifier: zzsymBytes("client_mki", 1),
		SupportedProtocols:           []string{"a"},
		EllipticCurves:               clientGroups,
		ConnectionIDGenerator:        zzH3CIDGen("client_cid", clientCIDMode),
		MinVersion:                   protocol.Version1_3,
		MaxVersion:                   protocol.Version1_3,
		Log:                          zzH3Log{},
	}
	scfg := &dtlsconfig.HandshakeConfig{
		LocalCipherSuites:            serverSuites,
		LocalSignatureSchemes:        sigs,
		LocalSRTPProtectionProfiles:  serverProfiles,
		LocalSRTPMasterKeyIdentifier: zzsymBytes("server_mki", 1),
		SupportedProtocols:           []string{"a"},
		EllipticCurves:               serverGroups,
		ConnectionIDGenerator:        zzH3CIDGen("server_cid", serverCIDMode),
		InsecureSkipHelloVerify:      !cookie,
		MinVersion:                   protocol.Version1_3,
		MaxVersion:                   protocol.Version1_3,
		Log:                          zzH3Log{},
		LocalGetCertificate: func(*dtlsconfig.ClientHelloInfo) (*tls.Certificate, error) {
			return &tls.Certificate{Certificate: chain, PrivateKey: zzH3Signer{}}, nil
		},
	}
	if wantClientCert {
		scfg.ClientAuth = dtlsconfig.RequireAnyClientCert
	}
	c, s := zzH3NewPeer(true, ccfg), zzH3NewPeer(false, scfg)
	bg := context.Background()

	_, a, err := flight0Generate(s.conn, s.ctx)
	zzsymAssert(zzsymAnd(a == nil, err == nil), "h3/flight0_generate_ok")
	pkts, a, err := flight1Generate(c.conn, c.ctx)
	zzsymAssert(zzsymAnd(a == nil, err == nil), "h3/flight1_generate_ok")
	zzsymAssert(len(c.ctx.state.SessionID) == 0, "r13/no_session_id_in_state_without_a_loaded_session")
	for _, p := range pkts {
		if h, ok := p.Record.Content.(*handshake.Handshake); ok {
			if ch, ok := h.Message.(*handshake.MessageClientHello); ok {
				zzsymAssert(len(ch.SessionID) == 0, "r13/no_session_id_offered_without_a_loaded_session")
				zzsymCover("client_hello13_checked")
			}
		}
	}
	zzH3Send(c, s, pkts)
	next, a, err := flight0Parse(bg, s.conn, s.ctx)
	if a != nil || err != nil {
		zzsymCover("server_rejects_hello13")
		return
	}
	if next == Flight2 {
		pkts, a, err = flight2Generate(s.conn, s.ctx)
		if a != nil || err != nil {
			zzsymCover("server_cannot_retry")
			return
		}
		zzH3Send(s, c, pkts)
		cnext, a, err := flight1Parse(bg, c.conn, c.ctx)
		if a != nil || err != nil {
			zzsymCover("client_rejects_retry")
			return
		}
		zzsymAssert(cnext == Flight3, "h3/client_answers_retry")
		pkts, a, err = flight3Generate(c.conn, c.ctx)
		if a != nil || err != nil {
			zzsymCover("client_cannot_retry")
			return
		}
		zzH3Send(c, s, pkts)
		next, a, err = flight2Parse(bg, s.conn, s.ctx)
		if a != nil || err != nil {
			zzsymCover("server_rejects_second_hello")
			return
		}
		zzsymCover("hrr")
	} else {
		zzsymCover("no_hrr")
	}
	zzsymAssert(next == Flight4, "h3/server_goes_to_flight4")
	pkts, a, err = flight4Generate(s.conn, s.ctx)
	if a != nil || err != nil {
		zzsymCover("server_aborts_flight4_13")
		return
	}
	zzH3Send(s, c, pkts)
	var cnext Flight
	if c.ctx.state.HelloRetryRequest.HasCookie || c.ctx.state.HelloRetryRequest.HasSelectedGroup {
		cnext, a, err = flight3Parse(bg, c.conn, c.ctx)
	} else {
		cnext, a, err = flight1Parse(bg, c.conn, c.ctx)
	}
	if a != nil || err != nil {
		zzsymCover("client_rejects_server_flight13")
		return
	}
	zzsymAssert(cnext == Flight5, "h3/client_goes_to_flight5")

	// ---- agreement ----
	cs, ss := c.ctx.state, s.ctx.state
	zzsymAssert(cs.CipherSuite != nil && ss.CipherSuite != nil, "a13/suite_set")
	zzsymAssert(cs.CipherSuite.ID() == ss.CipherSuite.ID(), "a13/same_cipher_suite")
	zzsymAssert(zzH3HasSuite(clientSuites, cs.CipherSuite.ID()) && zzH3HasSuite(serverSuites, cs.CipherSuite.ID()), "a13/suite_in_both_lists")
	zzsymAssert(ciphersuite.IDSupportsVersion(cs.CipherSuite.ID(), protocol.Version1_3), "a13/suite_is_tls13")
	zzsymAssert(cs.LocalVersion == protocol.Version1_3 && ss.LocalVersion == protocol.Version1_3, "a13/same_version")

	cl, cr := cs.LocalRandom.MarshalFixed(), cs.RemoteRandom.MarshalFixed()
	sl, sr := ss.LocalRandom.MarshalFixed(), ss.RemoteRandom.MarshalFixed()
	zzsymAssert(zzsymEqBytes(cl[:], sr[:]), "a13/client_random_mirrored")
	zzsymAssert(zzsymEqBytes(cr[:], sl[:]), "a13/server_random_mirrored")

	zzsymAssert(cs.SelectedGroup == ss.SelectedGroup, "a13/same_group")
	zzsymAssert(zzH3HasGroup(clientGroups, cs.SelectedGroup) && zzH3HasGroup(serverGroups, cs.SelectedGroup), "a13/group_in_both_lists")
	zzsymAssert(len(cs.KeyAgreementSecret) > 0, "a13/key_agreement_secret_set")
	zzsymAssert(zzsymEqBytes(cs.KeyAgreementSecret, ss.KeyAgreementSecret), "a13/same_key_agreement_secret")
	zzsymAssert(len(zzH3DHLog) == 2, "a13/one_key_agreement_per_side")
	ds, dc := zzH3DHLog[0], zzH3DHLog[1] // the server computes first
	zzsymAssert(zzsymEqBytes(ds.priv, ss.LocalKeypair.PrivateKey), "a13/server_uses_own_private_key")
	zzsymAssert(zzsymEqBytes(dc.pub, ss.LocalKeypair.PublicKey), "a13/client_uses_server_share")
	ckp := cs.LocalKeypairs[cs.SelectedGroup]
	zzsymAssert(ckp != nil, "a13/client_has_key_for_group")
	zzsymAssert(zzsymEqBytes(dc.priv, ckp.PrivateKey), "a13/client_uses_own_private_key")
	zzsymAssert(zzsymEqBytes(ds.pub, ckp.PublicKey), "a13/server_uses_client_share")
	zzsymAssert(ds.group == dc.group && ds.group == cs.SelectedGroup, "a13/key_agreement_on_selected_group")

	// connection ids
	zzsymAssert(zzsymEqBytes(cs.LocalConnectionID(), ss.RemoteConnectionID), "a13/client_local_cid_is_server_remote_cid")
	zzsymAssert(zzsymEqBytes(cs.RemoteConnectionID, ss.LocalConnectionID()), "a13/client_remote_cid_is_server_local_cid")
	zzsymAssert(cs.RRCNegotiated == ss.RRCNegotiated, "a13/same_rrc_decision")
	zzsymAssert(cs.CID.Negotiated == ss.CID.Negotiated, "a13/same_cid_negotiated_flag")
	zzsymAssert(zzsymEqBytes(cs.CID.Send.Active, ss.LocalConnectionID()), "a13/client_sends_server_cid")
	zzsymAssert(zzsymEqBytes(ss.CID.Send.Active, cs.LocalConnectionID()), "a13/server_sends_client_cid")
	zzsymAssert(cs.CID.Send.UseCID == ss.CID.Receive.Expected && ss.CID.Send.UseCID == cs.CID.Receive.Expected, "a13/cid_directions_mirrored")
	zzsymAssert(len(cs.CID.Send.Active) == ss.CID.Receive.Length && len(ss.CID.Send.Active) == cs.CID.Receive.Length, "a13/cid_lengths_mirrored")
	if clientCIDMode != 0 && serverCIDMode != 0 {
		zzsymAssert(cs.CID.Negotiated, "a13/cid_negotiated_when_both_configured")
		zzsymAssert(zzsymEqBytes(cs.LocalConnectionID(), ccfg.ConnectionIDGenerator()), "a13/client_cid_is_generated_one")
		zzsymAssert(zzsymEqBytes(ss.LocalConnectionID(), scfg.ConnectionIDGenerator()), "a13/server_cid_is_generated_one")
		zzsymCover("cid_on")
	} else {
		zzsymAssert(!cs.CID.Negotiated, "a13/no_cid_unless_both_configured")
		zzsymCover("cid_off")
	}

	// SRTP, ALPN
	cp, sp := cs.SRTPProtectionProfile(), ss.SRTPProtectionProfile()
	zzsymAssert(cp == sp, "a13/same_srtp_profile")
	if cp != 0 {
		zzsymAssert(zzH3ProfileIn(clientProfiles, cp) && zzH3ProfileIn(serverProfiles, cp), "a13/srtp_profile_in_both_lists")
		zzsymCover("srtp_on")
	} else {
		zzsymAssert(len(clientProfiles) == 0 || len(serverProfiles) == 0, "a13/no_srtp_only_if_one_side_has_none")
		zzsymCover("srtp_off")
	}
	zzsymAssert(zzsymEqStr(cs.NegotiatedProtocol, ss.NegotiatedProtocol), "a13/same_alpn_protocol")

	// the protected server flight reached the client's verification hook exactly once and carries the presented chain
	zzsymAssert(len(c.protected) == 1, "a13/client_verified_one_protected_flight")
	sawCert, sawReq := false, false
	for _, it := range c.protected[0] {
		switch m := it.Parsed.Message.(type) {
		case *handshake.MessageCertificate13:
			sawCert = true
			zzsymAssert(len(m.CertificateList) == len(chain), "a13/client_sees_server_chain_length")
			for i := range chain {
				zzsymAssert(zzsymEqBytes(m.CertificateList[i].CertificateData, chain[i]), "a13/client_sees_presented_server_chain")
			}
		case *handshake.MessageCertificateRequest13:
			sawReq = true
		}
	}
	zzsymAssert(sawCert, "a13/certificate_reached_verification")
	zzsymAssert(sawReq == wantClientCert, "a13/certificate_request_iff_configured")
	zzsymAssert((cs.RemoteCertificateRequest != nil) == wantClientCert, "a13/client_knows_certificate_was_requested")
	if wantClientCert {
		zzsymCover("client_cert_requested")
	}
	zzsymAssert(c.derived == 1 && c.initRP == 1, "a13/client_installed_handshake_keys_once")
	zzsymCover("agreed13")
}
