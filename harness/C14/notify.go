package dtls

//symgo:pkg github.com/pion/dtls/v3
//symgo:param NKEY quick=2 thorough=3
//symgo:stub nextConn is a fake netctx.PacketConn that records written datagrams; the remote address is a harness net.Addr with a fixed String(); the cipher suite is a harness fake whose Encrypt returns its input; the session store is an abstract list of (key, id, secret) entries that logs Del calls in one event log shared with the network fake
//symgo:outside concurrent notify calls; what a store implementation does on Del (the model store removes the entry with exactly that key)

import (
	"context"
	"errors"
	"hash"
	"net"

	"github.com/pion/dtls/v3/internal/ciphersuite/types"
	"github.com/pion/dtls/v3/internal/closer"
	dtlsconfig "github.com/pion/dtls/v3/internal/config"
	dtlsflight "github.com/pion/dtls/v3/internal/flight"
	dtlsfragmentbuffer "github.com/pion/dtls/v3/internal/fragmentbuffer"
	dtlshandshake "github.com/pion/dtls/v3/internal/handshake"
	dtlsstate "github.com/pion/dtls/v3/internal/state"
	"github.com/pion/dtls/v3/pkg/crypto/clientcertificate"
	"github.com/pion/dtls/v3/pkg/protocol"
	"github.com/pion/dtls/v3/pkg/protocol/alert"
	"github.com/pion/dtls/v3/pkg/protocol/recordlayer"
)

var zzErrN = errors.New("zz notify harness")

type zzNSuite struct{}

func (s *zzNSuite) String() string                          { return "zzN" }
func (s *zzNSuite) ID() CipherSuiteID                       { return TLS_PSK_WITH_AES_128_GCM_SHA256 }
func (s *zzNSuite) CertificateType() clientcertificate.Type { return clientcertificate.Type(0) }
func (s *zzNSuite) HashFunc() func() hash.Hash              { return nil }
func (s *zzNSuite) AuthenticationType() types.AuthenticationType {
	return types.AuthenticationTypePreSharedKey
}
func (s *zzNSuite) KeyExchangeAlgorithm() types.KeyExchangeAlgorithm {
	return types.KeyExchangeAlgorithmPsk
}
func (s *zzNSuite) ECC() bool                                               { return false }
func (s *zzNSuite) Init(_, _, _ []byte, _ bool) error                       { return nil }
func (s *zzNSuite) IsInitialized() bool                                     { return true }
func (s *zzNSuite) Decrypt(_ recordlayer.Header, in []byte) ([]byte, error) { return in, nil }
func (s *zzNSuite) Encrypt(_ *recordlayer.RecordLayer, raw []byte) ([]byte, error) {
	return raw, nil
}

// zzNEvents is the common event log: "del" (store) and "write" (network), in the order they happen.
type zzNEvents struct{ log []string }

type zzNNet struct {
	ev      *zzNEvents
	written [][]byte
}

func (n *zzNNet) ReadFromContext(context.Context, []byte) (int, net.Addr, error) {
	return 0, nil, zzErrN
}
func (n *zzNNet) WriteToContext(_ context.Context, b []byte, _ net.Addr) (int, error) {
	n.ev.log = append(n.ev.log, "write")
	n.written = append(n.written, append([]byte{}, b...))

	return len(b), nil
}
func (n *zzNNet) Close() error         { return nil }
func (n *zzNNet) LocalAddr() net.Addr  { return nil }
func (n *zzNNet) Conn() net.PacketConn { return nil }

type zzNAddr struct{}

func (zzNAddr) Network() string { return "udp" }
func (zzNAddr) String() string  { return "10.0.0.9:5684" }

type zzNLog struct{}

func (zzNLog) Trace(string)          {}
func (zzNLog) Tracef(string, ...any) {}
func (zzNLog) Debug(string)          {}
func (zzNLog) Debugf(string, ...any) {}
func (zzNLog) Info(string)           {}
func (zzNLog) Infof(string, ...any)  {}
func (zzNLog) Warn(string)           {}
func (zzNLog) Warnf(string, ...any)  {}
func (zzNLog) Error(string)          {}
func (zzNLog) Errorf(string, ...any) {}

// zzNStore: abstract session store with one entry; Del removes the entry with exactly the given key.
type zzNStore struct {
	ev      *zzNEvents
	key     []byte // nil: empty
	id, sec []byte
	dels    [][]byte
	sets    int
	failDel bool
}

func (s *zzNStore) Set(key []byte, v Session) error {
	s.sets++
	s.key, s.id, s.sec = key, v.ID, v.Secret

	return nil
}

func (s *zzNStore) Get(key []byte) (Session, error) {
	if s.key != nil && zzsymEqBytes(s.key, key) {
		return Session{ID: s.id, Secret: s.sec}, nil
	}

	return Session{}, nil
}

func (s *zzNStore) Del(key []byte) error {
	s.ev.log = append(s.ev.log, "del")
	s.dels = append(s.dels, append([]byte{}, key...))
	if s.failDel {
		return zzErrN
	}
	if s.key != nil && zzsymEqBytes(s.key, key) {
		s.key = nil
	}

	return nil
}

// zzNHandshakeConfig wires a SessionStore into the handshake configuration exactly as newHandshakeConfig
// (config.go) does.
func zzNHandshakeConfig(store SessionStore, serverName string) *dtlsconfig.HandshakeConfig {
	cfg := &dtlsconfig.HandshakeConfig{ServerName: serverName, Log: zzNLog{}}
	if store != nil {
		// a connection created by a handshake, or one imported from an exported state (ResumeWithOptions passes the
		// internal state here): the store is wired in the same way for both, so the imported connection invalidates
		// its session on a fatal alert like any other
		var resume *dtlsstate.State
		if zzsymChoice("imported_connection", 2) == 1 {
			resume = &dtlsstate.State{}
		}
		hc := newHandshakeConfig(&dtlsConfig{sessionStore: store}, connConfigValues{serverName: serverName, logger: zzNLog{}}, resume)
		cfg.HasSessionStore = hc.HasSessionStore
		cfg.GetSession, cfg.SetSession, cfg.DelSession = hc.GetSession, hc.SetSession, hc.DelSession
	}

	return cfg
}

func zzNConn(isClient bool, nw *zzNNet, cfg *dtlsconfig.HandshakeConfig) *Conn {
	c := &Conn{
		state:                   dtlsstate.NewActive(isClient),
		nextConn:                nw,
		fragmentBuffer:          dtlsfragmentbuffer.New(),
		handshakeCache:          dtlsflight.NewCache(),
		decrypted:               make(chan any, 1),
		log:                     zzNLog{},
		closed:                  closer.NewCloser(),
		handshakeEstablished:    dtlshandshake.NewEstablishment(),
		maximumTransmissionUnit: 1200,
		paddingLengthGenerator:  func(uint) uint { return 0 },
		rAddr:                   zzNAddr{},
		handshakeConfig:         cfg,
	}
	common := dtlsstate.CommonState(c.state)
	common.CipherSuite = &zzNSuite{}
	common.LocalVersion = protocol.Version1_2

	return c
}

// fatal_drops_session: Conn.notify (the only place an endpoint emits an alert) for an ARBITRARY alert level
// and description byte, during the handshake or after it completed, on a client or a server, DTLS 1.2 or DTLS 1.3 state, with or without a session store
// (wired through the real newHandshakeConfig), with a connection session id of 0..NKEY-1 arbitrary bytes, and
// a store that holds the connection's session (under the connection's session key) or a session under
// another arbitrary key. Proved: if the level is fatal, the connection has a session id, a store is
// configured and the connection is DTLS 1.2, then Del is called exactly once, with the connection's session
// key (client: "<remote address>_<server name>", server: the session id), BEFORE the alert datagram is handed
// to the network, and afterwards a lookup under the session key finds nothing - the session can no longer be
// offered (client, flight1Generate looks up the same key) or resumed (server, handleHelloResume looks up the
// offered id). In every other case (warning or any non-fatal level, no session id, no store, DTLS 1.3) the
// store is not touched at all and exactly one alert record is written. The session key used by notify is
// the one the flight handlers use for Get/Set (handshakeConn.SessionKey).
//
//symgo:entry covers=alert_after_establishment,alert_during_handshake,client_dropped,server_dropped,warning_keeps,no_id_keeps,no_store,dtls13_keeps,other_key_untouched,del_fails
func zzFatalDropsSession() {
	ev := &zzNEvents{}
	nw := &zzNNet{ev: ev}
	isClient := zzsymChoice("is_client", 2) == 1
	hasStore := zzsymChoice("has_store", 2) == 1
	store := &zzNStore{ev: ev}
	var cfg *dtlsconfig.HandshakeConfig
	if hasStore {
		cfg = zzNHandshakeConfig(store, "srv.example")
	} else {
		cfg = zzNHandshakeConfig(nil, "srv.example")
	}
	c := zzNConn(isClient, nw, cfg)
	common := dtlsstate.CommonState(c.state)
	// session ids as this library issues them (32 bytes), shorter ones, and the longer ones the hello codecs and the
	// resumption paths accept as well (up to 255): whatever can be resumed must be invalidated
	sid := zzsymBytes("session_id", []int{0, 1, 2, 32, 33, 255}[zzsymChoice("sidlen", 3+zzsymParam("NKEY"))])
	common.SessionID = sid
	v13 := zzsymChoice("dtls13", 2) == 1
	if v13 {
		c.state = dtlsstate.Activate13(c.state)
		common.LocalVersion = protocol.Version1_3
	}

	// the key under which this endpoint's flight handlers read and write the store
	var wantKey []byte
	if isClient {
		wantKey = []byte("10.0.0.9:5684_srv.example")
	} else {
		wantKey = sid
	}
	zzsymAssert(zzsymEqBytes(adaptFlightConn(c).SessionKey(), wantKey), "flight_handlers_use_same_session_key")

	// store content: this connection's session, or a session under some other key
	mine := zzsymChoice("store_holds_this_session", 2) == 1
	if mine {
		store.key = wantKey
	} else {
		store.key = zzsymBytes("other_key", 2)
	}
	store.id, store.sec = []byte{7}, []byte{8}
	other := store.key
	store.failDel = hasStore && zzsymChoice("del_fails", 2) == 1

	// the alert may be raised during the handshake or on the established connection (a record-level error, the
	// application closing with an error alert): the session goes in both cases
	if !v13 && zzsymChoice("established", 2) == 1 { // (a DTLS 1.3 alert after establishment needs write keys: not the subject, sessions are DTLS 1.2 only)
		dtlshandshake.ZZMarkEstablished(c.handshakeEstablished)
		zzsymCover("alert_after_establishment")
	} else {
		zzsymCover("alert_during_handshake")
	}

	level := alert.Level(zzsymU8("level"))
	desc := alert.Description(zzsymU8("description"))
	err := c.notify(context.Background(), level, desc)

	must := zzsymAnd(level == alert.Fatal, len(sid) > 0 && hasStore && !v13)
	if must {
		zzsymAssert(len(store.dels) == 1, "fatal_alert_deletes_session_once")
		zzsymAssert(zzsymEqBytes(store.dels[0], wantKey), "deleted_key_is_session_key")
		zzsymAssert(len(ev.log) >= 1 && ev.log[0] == "del", "delete_happens_before_alert_is_written")
		if store.failDel {
			zzsymAssert(err != nil, "store_failure_reported")
			zzsymCover("del_fails")

			return
		}
		zzsymAssert(err == nil, "notify_ok")
		zzsymAssert(len(ev.log) == 2 && ev.log[1] == "write" && len(nw.written) == 1, "one_alert_written_after_delete")
		got, gerr := store.Get(wantKey)
		zzsymAssert(gerr == nil && got.ID == nil, "session_no_longer_in_store")
		if !mine {
			if zzsymNot(zzsymEqBytes(other, wantKey)) {
				zzsymAssert(store.key != nil, "other_sessions_stay")
				zzsymCover("other_key_untouched")
			}
		}
		if isClient {
			zzsymCover("client_dropped")
		} else {
			zzsymCover("server_dropped")
		}

		return
	}
	zzsymAssert(err == nil, "notify_ok")
	zzsymAssert(len(store.dels) == 0 && store.sets == 0, "non_fatal_or_sessionless_alert_leaves_store")
	zzsymAssert(len(ev.log) == 1 && ev.log[0] == "write" && len(nw.written) == 1, "exactly_one_alert_written")
	switch {
	case !hasStore:
		zzsymCover("no_store")
	case v13:
		zzsymCover("dtls13_keeps")
	case len(sid) == 0:
		zzsymCover("no_id_keeps")
	default:
		zzsymCover("warning_keeps")
	}
}

// The glue between the application's SessionStore and the flight handlers (newHandshakeConfig, config.go) is
// transparent: for a stored entry with an id of 0..3 and a secret of 0..3 ARBITRARY bytes (lengths chosen
// independently: truncated, empty and odd-sized secrets included - "every store content"), GetSession hands the
// handlers exactly the stored (id, secret) pair, byte for byte and with the stored lengths; for a key the store
// does not know it reports "no session" (nil id); SetSession and DelSession pass key, id and secret through
// unchanged. The handlers decide on what the store really holds: an entry is never reported as present while its
// secret is withheld (which would let both sides agree on an EMPTY master secret), and a mismatch in the real
// secrets always reaches the Finished checks of fin.go.
//
//symgo:entry covers=adapter_hit,adapter_miss,adapter_set_del
func zzStoreAdapterIsTransparent() {
	ev := &zzNEvents{}
	store := &zzNStore{ev: ev}
	hc := newHandshakeConfig(&dtlsConfig{sessionStore: store}, connConfigValues{logger: zzNLog{}}, nil)
	zzsymAssert(hc.HasSessionStore, "adapter_reports_store")
	key := zzsymBytes("key", 2)
	id := zzsymBytes("stored_id", zzsymChoice("idlen", 4))
	sec := zzsymBytes("stored_secret", zzsymChoice("seclen", 4))
	if zzsymChoice("stored", 2) == 1 {
		store.key, store.id, store.sec = append([]byte{}, key...), id, sec
		gid, gsec, err := hc.GetSession(key)
		zzsymAssert(err == nil, "adapter_get_ok")
		zzsymAssert(len(gid) == len(id) && zzsymEqBytes(gid, id), "adapter_returns_the_stored_id")
		zzsymAssert(len(gsec) == len(sec) && zzsymEqBytes(gsec, sec), "adapter_returns_the_stored_secret_whatever_its_length")
		zzsymCover("adapter_hit")
	} else {
		gid, gsec, err := hc.GetSession(key)
		// the handlers test "id != nil" (handleHelloResume, flight1Generate): "no session" must be a nil id, not an
		// empty one - an empty non-nil id would make the server resume a session it never issued, from an empty secret
		zzsymAssert(err == nil && gid == nil && gsec == nil, "adapter_unknown_key_is_no_session")
		zzsymCover("adapter_miss")
	}
	zzsymAssert(hc.SetSession(key, id, sec) == nil && store.sets == 1, "adapter_set_called_once")
	zzsymAssert(zzsymEqBytes(store.key, key) && zzsymEqBytes(store.id, id) && zzsymEqBytes(store.sec, sec) &&
		len(store.id) == len(id) && len(store.sec) == len(sec), "adapter_set_passes_key_id_secret_unchanged")
	zzsymAssert(hc.DelSession(key) == nil && len(store.dels) == 1 && zzsymEqBytes(store.dels[0], key), "adapter_del_passes_key_unchanged")
	zzsymCover("adapter_set_del")
}
