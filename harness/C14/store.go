package flight12

//symgo:pkg github.com/pion/dtls/v3/internal/flight/flight12
//symgo:param SSID quick=2 thorough=3
//symgo:replace github.com/pion/dtls/v3/pkg/crypto/prf.PreMasterSecret zzStPreMasterSecret
//symgo:replace github.com/pion/dtls/v3/pkg/crypto/prf.MasterSecret zzStMasterSecret
//symgo:replace github.com/pion/dtls/v3/pkg/crypto/prf.VerifyDataServer zzVerifyDataServer
//symgo:replace github.com/pion/dtls/v3/pkg/crypto/prf.VerifyDataClient zzVerifyDataClient
//symgo:replace github.com/pion/dtls/v3/internal/handshakecrypto.VerifyCertificateVerify zzStVerifyCertificateVerify
//symgo:stub prf.PreMasterSecret (ECDH) and prf.MasterSecret / prf.VerifyDataServer (TLS PRF) are uninterpreted functions of their byte arguments; handshakecrypto.VerifyCertificateVerify returns an arbitrary verdict chosen by the harness; the cipher suite is a harness fake (certificate-authenticated ECDHE, custom id) that records Init
//symgo:assume the handshake cache holds complete, unfragmented messages with consistent headers (see fin.go)
//symgo:outside validation of the client certificate chain (ClientAuth below VerifyClientCertIfGiven is used so that x509 is not involved); what the client-auth policy does after the client Finished arrived (property C03)

import (
	"context"

	"github.com/pion/dtls/v3/internal/ciphersuite"
	dtlsconfig "github.com/pion/dtls/v3/internal/config"
	dtlsflight "github.com/pion/dtls/v3/internal/flight"
	"github.com/pion/dtls/v3/pkg/crypto/elliptic"
	dtlshash "github.com/pion/dtls/v3/pkg/crypto/hash"
	"github.com/pion/dtls/v3/pkg/crypto/prf"
	"github.com/pion/dtls/v3/pkg/crypto/signature"
	"github.com/pion/dtls/v3/pkg/crypto/signaturehash"
	"github.com/pion/dtls/v3/pkg/protocol/alert"
	"github.com/pion/dtls/v3/pkg/protocol/handshake"
)

func zzStPreMasterSecret(publicKey, privateKey []byte, _ elliptic.Curve) ([]byte, error) {
	return zzsymUF("ECDH", 2, publicKey, privateKey), nil
}

func zzStMasterSecret(pre, cr, sr []byte, _ prf.HashFunc) ([]byte, error) {
	return zzsymUF("PRF_master_secret", 3, pre, cr, sr), nil
}

var zzStSigOK bool

func zzStVerifyCertificateVerify(_ []byte, _ dtlshash.Algorithm, _ signature.Algorithm, _ []byte, _ [][]byte) error {
	if zzStSigOK {
		return nil
	}

	return zzErrStore
}

// zzCertSuite: the recording fake as a certificate-authenticated ECDHE suite.
type zzCertSuite struct{ *zzSuite }

func (s zzCertSuite) AuthenticationType() ciphersuite.AuthenticationType {
	return ciphersuite.AuthenticationTypeCertificate
}
func (s zzCertSuite) KeyExchangeAlgorithm() ciphersuite.KeyExchangeAlgorithm {
	return ciphersuite.KeyExchangeAlgorithmEcdhe
}
func (s zzCertSuite) ECC() bool { return true }

func zzHS(seq uint16, m handshake.Message) []byte {
	h := &handshake.Handshake{Message: m}
	h.Header.MessageSequence = seq

	return zzRaw(h)
}

// cert_disables_resume and the content of the server's store write: flight4Parse (server, full handshake,
// session store configured, client certificate optional (RequestClientCert), session id of 1..SSID arbitrary
// bytes as sent in the ServerHello) on a client flight that is ClientKeyExchange alone, or Certificate +
// ClientKeyExchange + CertificateVerify (signature verdict arbitrary), or Certificate + ClientKeyExchange with
// the CertificateVerify still missing, followed by a client Finished of 12 ARBITRARY bytes. Proved:
//   - without a client certificate, a handshake that reaches Flight6 has written the session exactly once as
//     Set(key = session id, id = session id, secret = the master secret this connection's record keys are
//     initialised from) - so what a later handleHelloResume finds under that id is the secret of THIS connection;
//   - when the client presents a certificate the session id is cleared and NOTHING is written to the store at
//     any point, whatever the signature verdict and the Finished: the session cannot be resumed (a later lookup
//     of the id misses and resume_lookup shows a miss means full handshake);
//   - a failed CertificateVerify gives a fatal bad_certificate alert and no keys; a missing one leaves the server
//     waiting without keys.
//
// (WHEN the write may happen relative to the Finished / policy checks is the subject of
// zzSessionStoredOnlyAfterChecks in store_policy.go.)
//
//symgo:entry covers=stored_without_cert,cert_not_stored,cert_bad_signature,cert_waiting
func zzCertDisablesResume() {
	base := &zzSuite{}
	suite := zzCertSuite{base}
	cfg := zzCfg(base)
	cfg.LocalCipherSuites = []dtlsconfig.CipherSuite{suite}
	cfg.LocalPSKCallback = nil
	cfg.ClientAuth = dtlsconfig.RequestClientCert
	cfg.LocalSignatureSchemes = []signaturehash.Algorithm{{Hash: dtlshash.SHA256, Signature: signature.ECDSA}}
	store := &zzStore{}
	store.attach(cfg)
	state := zzState(false)
	state.CipherSuite = suite
	state.LocalKeypair = &elliptic.Keypair{Curve: elliptic.X25519, PublicKey: []byte{9}, PrivateKey: zzsymBytes("server_private", 1)}
	var cr, sr [32]byte
	copy(cr[:], zzsymBytes("client_random", 32))
	copy(sr[:], zzsymBytes("server_random", 32))
	state.RemoteRandom.UnmarshalFixed(cr)
	state.LocalRandom.UnmarshalFixed(sr)
	sid := zzsymBytes("session_id", 1+zzsymChoice("sidlen", zzsymParam("SSID")))
	state.SessionID = sid
	state.HandshakeRecvSequence = 1

	cache := dtlsflight.NewCache()
	kind := zzsymChoice("client_flight", 3) // 0 CKE, 1 Cert+CKE+CertVerify, 2 Cert+CKE
	seq := uint16(1)
	if kind != 0 {
		cache.Push(zzHS(seq, &handshake.MessageCertificate{Certificate: [][]byte{zzsymBytes("client_cert", 2)}}), 0, seq, handshake.TypeCertificate, true)
		seq++
	}
	pub := zzsymBytes("client_public", 2)
	// RFC 8422 5.7: ClientKeyExchange = opaque point<1..2^8-1>
	cache.Push(zzMsg(handshake.TypeClientKeyExchange, seq, append([]byte{2}, pub...)), 0, seq, handshake.TypeClientKeyExchange, true)
	seq++
	if kind == 1 {
		cv := &handshake.MessageCertificateVerify{HashAlgorithm: dtlshash.SHA256, SignatureAlgorithm: signature.ECDSA, Signature: zzsymBytes("cv_signature", 1)}
		cache.Push(zzHS(seq, cv), 0, seq, handshake.TypeCertificateVerify, true)
		seq++
	}
	zzStSigOK = zzsymChoice("signature_valid", 2) == 1
	cache.Push(zzMsg(handshake.TypeFinished, seq, zzsymBytes("client_verify_data", 12)), 1, seq, handshake.TypeFinished, true)

	next, a, err := flight4Parse(context.Background(), zzConn{}, state, cache, cfg)

	zzsymAssert(len(store.gets) == 0 && len(store.dels) == 0, "full_handshake_only_writes")
	switch {
	case kind == 0:
		if next != Flight6 {
			return // wrong Finished: see zzSessionStoredOnlyAfterChecks
		}
		zzsymAssert(a == nil && err == nil, "no_cert_flight_ok")
		want := zzsymUF("PRF_master_secret", 3, zzsymUF("ECDH", 2, pub, state.LocalKeypair.PrivateKey), cr[:], sr[:])
		zzsymAssert(base.inits == 1 && zzsymEqBytes(base.ms, want), "keys_from_this_handshakes_master_secret")
		zzsymAssert(len(store.setKeys) == 1, "session_written_once")
		zzsymAssert(zzsymAnd(zzsymEqBytes(store.setKeys[0], sid), zzsymEqBytes(store.setIDs[0], sid)), "session_written_under_its_id")
		zzsymAssert(zzsymEqBytes(store.setSecrets[0], base.ms), "stored_secret_is_the_connections_master_secret")
		_, found, _ := store.get(sid)
		zzsymAssert(zzsymEqBytes(found, base.ms), "later_lookup_finds_this_secret")
		zzsymCover("stored_without_cert")
	case kind == 2:
		zzsymAssert(next == 0 && a == nil && err == nil, "waits_for_certificate_verify")
		zzsymAssert(base.inits == 0, "no_keys_before_certificate_verify")
		zzsymAssert(len(store.setKeys) == 0 && len(state.SessionID) == 0, "client_cert_session_not_stored")
		zzsymCover("cert_waiting")
	case !zzStSigOK:
		a = zzAlertOf(a, err)
		zzsymAssert(next == 0 && a != nil && a.Level == alert.Fatal && a.Description == alert.BadCertificate, "bad_signature_fatal_bad_certificate")
		zzsymAssert(base.inits == 0, "no_keys_after_bad_signature")
		zzsymAssert(len(store.setKeys) == 0 && len(state.SessionID) == 0, "client_cert_session_not_stored")
		zzsymCover("cert_bad_signature")
	default:
		zzsymAssert(base.inits == 1, "keys_initialised")
		zzsymAssert(len(store.setKeys) == 0, "client_cert_session_not_stored")
		zzsymAssert(len(state.SessionID) == 0, "client_cert_clears_session_id")
		id, _, _ := store.get(sid)
		zzsymAssert(id == nil, "client_cert_session_cannot_be_looked_up")
		if next == Flight6 {
			zzsymCover("cert_not_stored")
		}
	}
}

// The client's store write: flight5Parse (client, full handshake, session store configured) with a session id
// of 0..SSID arbitrary bytes taken from the ServerHello, a master secret of 2 arbitrary bytes, a cache with
// ClientHello, ServerHello, ServerHelloDone, ClientKeyExchange and the client's Finished (2 arbitrary body
// bytes each; 12 for the Finished) and a server Finished with 12 ARBITRARY bytes. Proved: the session is written
// only after the server's Finished verified against this connection's master secret, exactly once, as
// Set(key = the connection's session key, id = the ServerHello's session id, secret = this connection's master
// secret); a Finished that does not verify gives a fatal handshake_failure alert and leaves the store
// untouched; without a session id nothing is written. (That the verified value covers the whole
// transcript is property C04's subject; here the expected value is PRF_server_finished(master secret,
// ClientHello||ServerHello||ServerHelloDone||ClientKeyExchange||client Finished).)
//
//symgo:entry covers=stored_after_verify,not_stored_bad_finished,not_stored_without_id
func zzClientStoresVerifiedSession() {
	suite := &zzSuite{}
	cfg := zzCfg(suite)
	store := &zzStore{}
	store.attach(cfg)
	state := zzState(true)
	state.CipherSuite = suite
	ms := zzsymBytes("master_secret", 2)
	state.MasterSecret = ms
	sid := zzsymBytes("session_id", zzsymChoice("sidlen", zzsymParam("SSID")+1))
	state.SessionID = sid

	cache := dtlsflight.NewCache()
	ch := zzMsg(handshake.TypeClientHello, 0, zzsymBytes("ch_body", 2))
	cache.Push(ch, 0, 0, handshake.TypeClientHello, true)
	sh := zzMsg(handshake.TypeServerHello, 0, zzsymBytes("sh_body", 2))
	cache.Push(sh, 0, 0, handshake.TypeServerHello, false)
	shd := zzMsg(handshake.TypeServerHelloDone, 1, nil)
	cache.Push(shd, 0, 1, handshake.TypeServerHelloDone, false)
	cke := zzMsg(handshake.TypeClientKeyExchange, 1, zzsymBytes("cke_body", 2))
	cache.Push(cke, 0, 1, handshake.TypeClientKeyExchange, true)
	cfin := zzMsg(handshake.TypeFinished, 2, zzsymBytes("client_verify_data", 12))
	cache.Push(cfin, 1, 2, handshake.TypeFinished, true)
	vd := zzsymBytes("server_verify_data", 12)
	cache.Push(zzMsg(handshake.TypeFinished, 2, vd), 1, 2, handshake.TypeFinished, false)
	state.HandshakeRecvSequence = 2

	next, a, err := flight5Parse(context.Background(), zzConn{key: zzClientKey}, state, cache, cfg)

	transcript := append(append(append(append(append([]byte{}, ch...), sh...), shd...), cke...), cfin...)
	want := zzPRF("server_finished", ms, transcript)
	zzsymAssert(len(store.gets) == 0 && len(store.dels) == 0, "finished_check_only_writes")
	if next == Flight5 {
		zzsymAssert(a == nil && err == nil, "verified_without_alert")
		zzsymAssert(zzsymEqBytes(vd, want), "accepted_only_if_finished_verifies")
		if len(sid) == 0 {
			zzsymAssert(len(store.setKeys) == 0, "nothing_stored_without_session_id")
			zzsymCover("not_stored_without_id")

			return
		}
		zzsymAssert(len(store.setKeys) == 1, "session_written_once")
		zzsymAssert(zzsymEqBytes(store.setKeys[0], zzClientKey), "session_written_under_session_key")
		zzsymAssert(zzsymEqBytes(store.setIDs[0], sid), "stored_id_is_server_hello_id")
		zzsymAssert(zzsymEqBytes(store.setSecrets[0], ms), "stored_secret_is_the_connections_master_secret")
		zzsymCover("stored_after_verify")

		return
	}
	zzsymAssert(zzsymNot(zzsymEqBytes(vd, want)), "correct_finished_is_accepted")
	zzsymAssert(next == 0, "rejected_no_flight")
	a = zzAlertOf(a, err)
	zzsymAssert(a != nil && a.Level == alert.Fatal && a.Description == alert.HandshakeFailure, "rejected_fatal_handshake_failure")
	zzsymAssert(len(store.setKeys) == 0, "unverified_session_never_stored")
	zzsymCover("not_stored_bad_finished")
}
