package flight12

//symgo:pkg github.com/pion/dtls/v3/internal/flight/flight12
//symgo:param RID quick=2 thorough=4
//symgo:param RSEC quick=2 thorough=4
//symgo:replace github.com/pion/dtls/v3/pkg/crypto/prf.VerifyDataClient zzVerifyDataClient
//symgo:replace github.com/pion/dtls/v3/pkg/crypto/prf.VerifyDataServer zzVerifyDataServer
//symgo:stub prf.VerifyDataClient / prf.VerifyDataServer (TLS 1.2 PRF over the transcript hash) are modelled as PRF_client_finished / PRF_server_finished (master secret, H(transcript bytes)) with uninterpreted functions PRF_* (12-byte result) and H (32-byte result): equal inputs give equal outputs, nothing else is known. The PRF construction itself is property C10's subject.
//symgo:stub the cipher suite is a harness fake (custom id 0xff01, plain PSK key exchange) that records the arguments of Init; crypto/rand.Reader hands out fresh unconstrained bytes and logs them; time.Now is the engine constant
//symgo:stub both endpoints are the real flight12 handlers driven the way handshakeFSM12 drives them (Generate, stamp message_sequence, marshal, push into both caches with the record's epoch, Parse); the record layer, retransmission timers and the transport are not involved
//symgo:assume NAMED ASSUMPTION key separation of the PRF: for one transcript, two different master secrets (different length or different bytes) give different 12-byte Finished values. It is stated once per run as an implication between the two harness-side applications of the same uninterpreted function. (The converse implication that is also stated - equal secrets give equal values - holds for every function and only spares z3 a slow congruence proof.)
//symgo:outside histories of several connections on one pair of stores, concurrent handshakes on one store, retransmission timing; a ServerHello that names a different cipher suite than the stored session used (pion stores only id and secret, the suite is renegotiated)

import (
	"crypto/rand"

	"github.com/pion/dtls/v3/pkg/crypto/elliptic"
	"github.com/pion/dtls/v3/pkg/crypto/prf"
	"github.com/pion/dtls/v3/pkg/protocol/alert"
	"github.com/pion/dtls/v3/pkg/protocol/handshake"
)

// zzPRF models RFC 5246 7.4.9 verify_data = PRF(master_secret, finished_label, Hash(handshake_messages))[0..11]
// with two uninterpreted functions: the transcript hash H and one keyed function per label.
func zzPRF(label string, ms, transcript []byte) []byte {
	return zzsymUF("PRF_"+label, 12, ms, zzsymUF("H", 32, transcript))
}

func zzVerifyDataClient(ms, transcript []byte, _ prf.HashFunc) ([]byte, error) {
	return zzPRF("client_finished", ms, transcript), nil
}

func zzVerifyDataServer(ms, transcript []byte, _ prf.HashFunc) ([]byte, error) {
	return zzPRF("server_finished", ms, transcript), nil
}

// zzRandLog is the entropy source: every Read returns fresh unconstrained bytes and logs them.
type zzRandLog struct{ log *[][]byte }

func (r zzRandLog) Read(p []byte) (int, error) {
	b := zzsymBytes("rand", len(p))
	copy(p, b)
	*r.log = append(*r.log, b)

	return len(p), nil
}

func zzRaw(h *handshake.Handshake) []byte {
	raw, err := h.Marshal()
	if err != nil {
		zzsymFail("harness_marshal_failed")
	}

	return raw
}

var zzClientKey = []byte("10.0.0.1:4444_srv")

// Abbreviated handshake between two REAL DTLS 1.2 endpoints (client flight1Generate / flight1Parse ->
// flight3Parse -> handleResumption / flight5bGenerate, server flight0Generate / flight0Parse -> handleHelloResume /
// flight4bGenerate / flight4bParse) that each have their own session store with ARBITRARY content: the client
// store holds nothing or (id of 1..RID arbitrary bytes, secret of 1..RSEC arbitrary bytes) under the
// connection's session key; the server store holds nothing or one entry whose key is arbitrary bytes (equal
// to the client's id or not: stale / unknown session) with a secret of 1..RSEC arbitrary bytes (equal,
// different, or of another length: swapped / truncated). Loss: the server's abbreviated flight is delivered
// completely, without its Finished, or without its ServerHello; the client's Finished is delivered or lost.
// Hello verification is on or off.
// Proved, under the named PRF key-separation assumption:
//   - the server answers with the abbreviated flight if and only if its store knows the offered id (also when
//     hello verification is on: a known session skips the cookie exchange); otherwise it goes on
//     with the full handshake (Flight4, or Flight2 cookie request) with no master secret and no keys, and a client
//     that gets a full-handshake ServerHello drops the stored secret (empty master secret, no keys) and continues
//     with Flight5;
//   - the server's Finished is PRF(server's stored secret, "server finished", ClientHello||ServerHello) and the
//     client reaches Flight5b (= established on the client) ONLY IF the two stored secrets are equal; with
//     different secrets the client stops with a fatal handshake_failure alert, sends no Finished, and the server
//     never completes;
//   - when both sides complete, both initialised their record keys exactly once from the SAME (master secret,
//     client random, server random), the randoms being the ones read from the entropy source during THIS
//     connection's ClientHello / server start (fresh keys);
//   - lost messages of the abbreviated flights leave the receiver waiting (no flight, no alert, not
//     established).
//
//symgo:entry covers=established,established_with_hello_verify,mismatch_rejected,truncated_rejected,fallback_unknown_id,fallback_no_offer,fallback_empty_server_store,lost_server_finished,lost_server_hello,lost_client_finished,fallback_cookie_request paths=20000
func zzResumeTwoEndpoints() {
	var log [][]byte
	rand.Reader = zzRandLog{&log}
	client, server := zzNewPeer(true), zzNewPeer(false)
	client.conn = zzConn{key: zzClientKey}
	cstore, sstore := &zzStore{}, &zzStore{}
	cstore.attach(client.cfg)
	sstore.attach(server.cfg)
	verify := zzsymChoice("hello_verify", 2) == 1
	server.cfg.InsecureSkipHelloVerify = !verify
	nsec := zzsymParam("RSEC")

	// store contents
	idLen := 1 + zzsymChoice("idlen", zzsymParam("RID"))
	offered := zzsymChoice("client_has_session", 2) == 1
	var cid, csec []byte
	if offered {
		cid = zzsymBytes("client_stored_id", idLen)
		csec = zzsymBytes("client_stored_secret", 1+zzsymChoice("cseclen", nsec))
		cstore.put(zzClientKey, cid, csec)
	}
	serverHas := zzsymChoice("server_has_session", 2) == 1
	var skey, ssec []byte
	if serverHas {
		skey = zzsymBytes("server_stored_key", idLen)
		ssec = zzsymBytes("server_stored_secret", 1+zzsymChoice("sseclen", nsec))
		sstore.put(skey, skey, ssec)
	}

	// stale state of an earlier use of the same state objects must not survive
	client.state.MasterSecret = nil

	// server start, ClientHello
	if _, a, err := zzSend(server, client, Flight0, nil); a != nil || err != nil {
		zzsymFail("server_start_failed")
	}
	server.state.LocalKeypair = &elliptic.Keypair{PublicKey: []byte{9}} // spares the real key generation in flight0Parse (unused by PSK)
	serverRandom := server.state.LocalRandom.MarshalFixed()
	n0 := len(log)
	zzsymAssert(n0 >= 1 && len(log[n0-1]) == 28 && zzsymEqBytes(serverRandom[4:], log[n0-1]), "server_random_is_fresh_entropy")
	sent, a, err := zzSend(client, server, Flight1, nil)
	zzsymAssert(a == nil && err == nil && len(sent) == 1, "client_hello_sent")
	ch, _ := sent[0].Message.(*handshake.MessageClientHello)
	clientRandom := ch.Random.MarshalFixed()
	zzsymAssert(len(log) == n0+1 && len(log[n0]) == 28, "client_random_read_for_this_connection")
	zzsymAssert(zzsymEqBytes(clientRandom[4:], log[n0]), "client_hello_random_is_fresh_entropy")
	if offered {
		zzsymAssert(zzsymEqBytes(ch.SessionID, cid), "client_offers_stored_id")
		zzsymAssert(zzsymEqBytes(client.state.MasterSecret, csec), "client_takes_stored_secret")
		zzsymAssert(len(cstore.gets) == 1 && zzsymEqBytes(cstore.gets[0], zzClientKey), "client_store_asked_with_session_key")
	} else {
		zzsymAssert(len(ch.SessionID) == 0, "no_offer_without_stored_session")
	}

	// server decision
	next, a, err := zzRecv(server, Flight0)
	zzsymAssert(a == nil && err == nil, "server_accepts_client_hello")
	known := offered && serverHas && zzsymEqBytes(skey, cid)
	if next != Flight4b {
		zzsymAssert(!known, "known_session_is_resumed")
		zzsymAssert(len(server.state.MasterSecret) == 0, "fallback_server_has_no_master_secret")
		zzsymAssert(server.suite.inits == 0, "fallback_server_has_no_keys")
		if verify {
			zzsymAssert(next == Flight2, "fallback_is_cookie_request")
			zzsymCover("fallback_cookie_request")

			return
		}
		zzsymAssert(next == Flight4, "fallback_is_full_handshake")
		if _, a, err = zzSend(server, client, Flight4, nil); a != nil || err != nil {
			zzsymFail("server_full_flight_failed")
		}
		cnext, ca, cerr := zzRecv(client, Flight1)
		zzsymAssert(ca == nil && cerr == nil && cnext == Flight5, "client_follows_full_handshake")
		zzsymAssert(len(client.state.MasterSecret) == 0, "fallback_client_drops_stored_secret")
		zzsymAssert(client.suite.inits == 0, "fallback_client_has_no_keys_from_store")
		switch {
		case !offered:
			zzsymCover("fallback_no_offer")
		case !serverHas:
			zzsymCover("fallback_empty_server_store")
		default:
			zzsymCover("fallback_unknown_id")
		}

		return
	}
	zzsymAssert(known, "abbreviated_only_for_known_session")

	// abbreviated server flight: ServerHello, [ChangeCipherSpec], Finished; loss pattern
	loss := zzsymChoice("server_flight_loss", 3) // 0 none, 1 Finished lost, 2 ServerHello lost
	msgs, a, err := zzSend(server, client, Flight4b, []bool{loss == 2, loss == 1})
	zzsymAssert(a == nil && err == nil && len(msgs) == 2, "abbreviated_flight_sent")
	sh, _ := msgs[0].Message.(*handshake.MessageServerHello)
	sfin, _ := msgs[1].Message.(*handshake.MessageFinished)
	zzsymAssert(sh != nil && sfin != nil, "abbreviated_flight_is_server_hello_finished")
	zzsymAssert(zzsymEqBytes(sh.SessionID, cid), "server_hello_echoes_session_id")
	shRandom := sh.Random.MarshalFixed()
	zzsymAssert(zzsymEqBytes(shRandom[:], serverRandom[:]), "server_hello_random_is_this_connections")

	// RFC 5246 7.4.9 / RFC 6347 4.2.6: server Finished covers ClientHello || ServerHello of the resumed handshake
	transcript := append(append([]byte{}, zzRaw(sent[0])...), zzRaw(msgs[0])...)
	vdServer := zzPRF("server_finished", ssec, transcript)
	vdClient := zzPRF("server_finished", csec, transcript)
	same := zzsymEqBytes(csec, ssec)
	zzsymAssume(zzsymImplies(zzsymNot(same), zzsymNot(zzsymEqBytes(vdServer, vdClient)))) // named assumption
	// Not an assumption: equal keys give equal values for ANY function (congruence). Stated explicitly because
	// z3 4.8 needs > 30 s to find this out by itself on the wide bit-vector arguments.
	zzsymAssume(zzsymImplies(same, zzsymEqBytes(vdServer, vdClient)))
	zzsymAssert(zzsymEqBytes(sfin.VerifyData, vdServer), "server_finished_is_prf_of_stored_secret")

	cnext, ca, cerr := zzRecv(client, Flight1)
	if loss != 0 {
		zzsymAssert(cnext == 0 && ca == nil && cerr == nil, "client_waits_for_lost_message")
		zzsymAssert(client.suite.inits == 0 || loss == 1, "no_client_keys_before_server_hello")
		if loss == 1 {
			zzsymCover("lost_server_finished")
		} else {
			zzsymCover("lost_server_hello")
		}

		return
	}
	if cnext != Flight5b {
		zzsymAssert(!same, "same_secret_resumes")
		zzsymAssert(cnext == 0, "mismatch_no_flight")
		ca = zzAlertOf(ca, cerr)
		zzsymAssert(ca != nil && ca.Level == alert.Fatal && ca.Description == alert.HandshakeFailure, "mismatch_fatal_handshake_failure")
		// the client has nothing to send; the server keeps waiting and never completes
		snext, sa, serr := zzRecv(server, Flight4b)
		zzsymAssert(snext == 0 && sa == nil && serr == nil, "mismatch_server_never_completes")
		if len(csec) != len(ssec) {
			zzsymCover("truncated_rejected")
		} else {
			zzsymCover("mismatch_rejected")
		}

		return
	}
	zzsymAssert(ca == nil && cerr == nil, "client_resumes_without_alert")
	zzsymAssert(same, "client_completes_only_with_same_secret")

	// client Finished
	lost := zzsymChoice("client_finished_lost", 2) == 1
	msgs2, a, err := zzSend(client, server, Flight5b, []bool{lost})
	zzsymAssert(a == nil && err == nil && len(msgs2) == 1, "client_finished_sent")
	snext, sa, serr := zzRecv(server, Flight4b)
	if lost {
		zzsymAssert(snext == 0 && sa == nil && serr == nil, "server_waits_for_lost_finished")
		zzsymCover("lost_client_finished")

		return
	}
	zzsymAssert(snext == Flight4b && sa == nil && serr == nil, "server_completes")

	// both established: keyed from the same secret and this connection's randoms
	zzsymAssert(client.suite.inits == 1 && server.suite.inits == 1, "keys_initialised_once_per_side")
	zzsymAssert(zzsymEqBytes(client.suite.ms, server.suite.ms), "both_sides_same_master_secret")
	zzsymAssert(zzsymEqBytes(client.suite.ms, csec), "keys_from_stored_secret")
	zzsymAssert(zzsymAnd(zzsymEqBytes(client.suite.cr, clientRandom[:]), zzsymEqBytes(server.suite.cr, clientRandom[:])), "keys_from_fresh_client_random")
	zzsymAssert(zzsymAnd(zzsymEqBytes(client.suite.sr, serverRandom[:]), zzsymEqBytes(server.suite.sr, serverRandom[:])), "keys_from_fresh_server_random")
	zzsymAssert(client.suite.asClient && !server.suite.asClient, "roles")
	if verify {
		zzsymCover("established_with_hello_verify")
	}
	zzsymCover("established")
}
