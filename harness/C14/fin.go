package flight12

//symgo:pkg github.com/pion/dtls/v3/internal/flight/flight12
//symgo:param FBODY quick=2 thorough=4
//symgo:param FSEC quick=2 thorough=4
//symgo:replace github.com/pion/dtls/v3/pkg/crypto/prf.VerifyDataClient zzFinVerifyDataClient
//symgo:replace github.com/pion/dtls/v3/pkg/crypto/prf.VerifyDataServer zzFinVerifyDataServer
//symgo:stub prf.VerifyDataClient / prf.VerifyDataServer are uninterpreted functions PRF_client_finished / PRF_server_finished of (master secret, transcript bytes) with a 12-byte result (the PRF construction is property C10's subject); the cipher suite is a harness fake recording Init
//symgo:assume the handshake cache holds complete, unfragmented messages whose 12-byte handshake header is consistent with the cache metadata (type, sequence number, length) - what Conn stores after reassembly; ClientHello / ServerHello bodies are FBODY arbitrary bytes (they are not decoded by the code under test, only hashed)
//symgo:outside Finished messages longer than 13 bytes; more than two ClientHellos in the cache

import (
	"context"
	"crypto/rand"

	dtlsconfig "github.com/pion/dtls/v3/internal/config"
	dtlsflight "github.com/pion/dtls/v3/internal/flight"
	"github.com/pion/dtls/v3/pkg/crypto/prf"
	"github.com/pion/dtls/v3/pkg/protocol"
	"github.com/pion/dtls/v3/pkg/protocol/alert"
	"github.com/pion/dtls/v3/pkg/protocol/handshake"
)

func zzFinVerifyDataClient(ms, transcript []byte, _ prf.HashFunc) ([]byte, error) {
	return zzsymUF("PRF_client_finished", 12, ms, transcript), nil
}

func zzFinVerifyDataServer(ms, transcript []byte, _ prf.HashFunc) ([]byte, error) {
	return zzsymUF("PRF_server_finished", 12, ms, transcript), nil
}

// zzMsg builds a complete handshake message as it sits in the cache (RFC 6347 4.2.2):
// msg_type(1) length(3) message_seq(2) fragment_offset(3)=0 fragment_length(3)=length body.
func zzMsg(typ handshake.Type, seq uint16, body []byte) []byte {
	n := len(body)
	hdr := []byte{byte(typ), byte(n >> 16), byte(n >> 8), byte(n), byte(seq >> 8), byte(seq), 0, 0, 0, byte(n >> 16), byte(n >> 8), byte(n)}

	return append(hdr, body...)
}

// zzVDLen maps a choice to the Finished body lengths of interest: 12 (RFC 5246 7.4.9), 11, 13, 0.
func zzVDLen(i int) int {
	switch i {
	case 0:
		return 12
	case 1:
		return 11
	case 2:
		return 13
	}

	return 0
}

// resume_client_fin: handleResumption (client, after a ServerHello that echoes the offered session id) with a
// stored master secret of 0..FSEC arbitrary bytes, a cache holding one or two ClientHellos (the second one
// after a HelloVerifyRequest) and the ServerHello with FBODY arbitrary body bytes each, and a server Finished
// that is absent, present in epoch 1 with an ARBITRARY body of 12/11/13/0 bytes, or present only as a
// plaintext (epoch 0) record. Proved: Flight5b (the client's own Finished; the client is then established) is
// returned if and only if an epoch-1 Finished with the sequence number after the ServerHello is cached and
// its body equals PRF_server_finished(stored secret, last ClientHello || ServerHello) (RFC 5246 7.4.9 with the
// RFC 6347 4.2.6 rule that the first ClientHello and the HelloVerifyRequest are left out); any other Finished
// gives a fatal handshake_failure alert and no flight; a missing or plaintext Finished leaves the client
// waiting. Record keys are initialised from the stored secret before queued (encrypted) records are handled.
//
//symgo:entry covers=accepted,accepted_after_hvr,rejected_value,rejected_length,waiting_absent,waiting_plaintext
func zzResumeClientFin() {
	suite := &zzSuite{}
	cfg := zzCfg(suite)
	state := zzState(true)
	state.CipherSuite = suite
	secret := zzsymBytes("client_stored_secret", zzsymChoice("seclen", zzsymParam("FSEC")+1))
	state.MasterSecret = secret
	cache := dtlsflight.NewCache()
	nb := zzsymParam("FBODY")

	nch := 1 + zzsymChoice("client_hellos", 2)
	var lastCH []byte
	for i := 0; i < nch; i++ {
		lastCH = zzMsg(handshake.TypeClientHello, uint16(i), zzsymBytes("ch_body", nb))
		cache.Push(lastCH, 0, uint16(i), handshake.TypeClientHello, true)
	}
	shSeq := uint16(nch - 1) // HelloVerifyRequest took server sequence 0 when there were two ClientHellos
	sh := zzMsg(handshake.TypeServerHello, shSeq, zzsymBytes("sh_body", nb))
	cache.Push(sh, 0, shSeq, handshake.TypeServerHello, false)
	state.HandshakeRecvSequence = int(shSeq)

	fin := zzsymChoice("finished", 3) // 0 absent, 1 epoch 1, 2 epoch 0 (never decrypted)
	var vd []byte
	if fin != 0 {
		vd = zzsymBytes("verify_data", zzVDLen(zzsymChoice("vdlen", 4)))
		epoch := uint16(1)
		if fin == 2 {
			epoch = 0
		}
		cache.Push(zzMsg(handshake.TypeFinished, shSeq+1, vd), epoch, shSeq+1, handshake.TypeFinished, false)
	}
	queued := 0
	initsAtQueue := -1
	conn := zzConnHook{fn: func() { queued++; initsAtQueue = suite.inits }}

	next, a, err := handleResumption(context.Background(), conn, state, cache, cfg)

	zzsymAssert(suite.inits == 1 && zzsymEqBytes(suite.ms, secret), "client_keys_from_stored_secret")
	zzsymAssert(queued == 1 && initsAtQueue == 1, "queued_records_handled_after_key_init")
	want := zzsymUF("PRF_server_finished", 12, secret, append(append([]byte{}, lastCH...), sh...))
	if fin != 1 {
		zzsymAssert(next == 0 && a == nil && err == nil, "client_waits_without_encrypted_finished")
		if fin == 0 {
			zzsymCover("waiting_absent")
		} else {
			zzsymCover("waiting_plaintext")
		}

		return
	}
	if next == Flight5b {
		zzsymAssert(a == nil && err == nil, "accepted_without_alert")
		zzsymAssert(zzsymEqBytes(vd, want), "client_accepts_only_prf_of_stored_secret")
		if nch == 2 {
			zzsymCover("accepted_after_hvr")
		}
		zzsymCover("accepted")

		return
	}
	zzsymAssert(zzsymNot(zzsymEqBytes(vd, want)), "correct_finished_is_accepted")
	zzsymAssert(next == 0, "rejected_no_flight")
	a = zzAlertOf(a, err)
	zzsymAssert(a != nil && a.Level == alert.Fatal && a.Description == alert.HandshakeFailure, "rejected_fatal_handshake_failure")
	if len(vd) == 12 {
		zzsymCover("rejected_value")
	} else {
		zzsymCover("rejected_length")
	}
}

// zzConnHook is a flight.Conn whose HandleQueuedPackets calls back into the harness.
type zzConnHook struct{ fn func() }

func (c zzConnHook) HandleQueuedPackets(context.Context) error { c.fn(); return nil }
func (c zzConnHook) SessionKey() []byte                        { return nil }

// resume_server_fin: flight4bParse (server, after it sent ServerHello + Finished of the abbreviated handshake)
// with a stored master secret of 0..FSEC arbitrary bytes, a cache holding ClientHello, ServerHello (FBODY
// arbitrary body bytes each), the server's own Finished (12 arbitrary bytes) and a client Finished that is
// absent, present in epoch 1 with an ARBITRARY body of 12/11/13/0 bytes, or present only as a plaintext (epoch 0)
// record. Proved: Flight4b is returned (= the server's handshake completes) if and only if an epoch-1 client
// Finished with the expected sequence number is cached and its body equals
// PRF_client_finished(stored secret, ClientHello || ServerHello || server Finished) (RFC 5246 7.4.9: all
// messages of this handshake up to but not including this one); any other Finished gives a fatal
// handshake_failure alert and no completion; a missing or plaintext Finished leaves the server waiting; the
// server's session store is never written by the abbreviated handshake (no resurrection of a deleted session).
//
//symgo:entry covers=accepted,rejected_value,rejected_length,waiting_absent,waiting_plaintext
func zzResumeServerFin() {
	suite := &zzSuite{}
	cfg := zzCfg(suite)
	state := zzState(false)
	state.CipherSuite = suite
	secret := zzsymBytes("server_stored_secret", zzsymChoice("seclen", zzsymParam("FSEC")+1))
	state.MasterSecret = secret
	// the session being resumed, as flight0Parse left it after the store lookup; the store itself may have lost
	// the entry since (a sibling connection sharing the session sent a fatal alert)
	state.SessionID = zzsymBytes("resumed_session_id", 2)
	store := &zzStore{}
	store.attach(cfg)
	cache := dtlsflight.NewCache()
	nb := zzsymParam("FBODY")

	ch := zzMsg(handshake.TypeClientHello, 0, zzsymBytes("ch_body", nb))
	cache.Push(ch, 0, 0, handshake.TypeClientHello, true)
	sh := zzMsg(handshake.TypeServerHello, 0, zzsymBytes("sh_body", nb))
	cache.Push(sh, 0, 0, handshake.TypeServerHello, false)
	sfin := zzMsg(handshake.TypeFinished, 1, zzsymBytes("server_verify_data", 12))
	cache.Push(sfin, 1, 1, handshake.TypeFinished, false)
	state.HandshakeRecvSequence = 1 // flight0Parse consumed ClientHello (sequence 0)

	fin := zzsymChoice("finished", 3) // 0 absent, 1 epoch 1, 2 epoch 0
	var vd []byte
	if fin != 0 {
		vd = zzsymBytes("verify_data", zzVDLen(zzsymChoice("vdlen", 4)))
		epoch := uint16(1)
		if fin == 2 {
			epoch = 0
		}
		cache.Push(zzMsg(handshake.TypeFinished, 1, vd), epoch, 1, handshake.TypeFinished, true)
	}

	next, a, err := flight4bParse(context.Background(), zzConn{}, state, cache, cfg)

	// store invariant behind "a session on which a fatal alert was sent is no longer offered": the server side of
	// an abbreviated handshake never WRITES the store (entries are created only by a full handshake, under a
	// freshly generated id - zzSessionStoredOnlyAfterChecks / zzResumeFreshIDs), so an entry deleted by a fatal
	// alert on any connection cannot come back under the same id
	zzsymAssert(len(store.setKeys) == 0, "abbreviated_handshake_never_writes_server_store")

	transcript := append(append(append([]byte{}, ch...), sh...), sfin...)
	want := zzsymUF("PRF_client_finished", 12, secret, transcript)
	if fin != 1 {
		zzsymAssert(next == 0 && a == nil && err == nil, "server_waits_without_encrypted_finished")
		if fin == 0 {
			zzsymCover("waiting_absent")
		} else {
			zzsymCover("waiting_plaintext")
		}

		return
	}
	if next == Flight4b {
		zzsymAssert(a == nil && err == nil, "accepted_without_alert")
		zzsymAssert(zzsymEqBytes(vd, want), "server_accepts_only_prf_of_stored_secret")
		zzsymCover("accepted")

		return
	}
	zzsymAssert(zzsymNot(zzsymEqBytes(vd, want)), "correct_finished_is_accepted")
	zzsymAssert(next == 0, "rejected_no_completion")
	a = zzAlertOf(a, err)
	zzsymAssert(a != nil && a.Level == alert.Fatal && a.Description == alert.HandshakeFailure, "rejected_fatal_handshake_failure")
	if len(vd) == 12 {
		zzsymCover("rejected_value")
	} else {
		zzsymCover("rejected_length")
	}
}

// The client aborts an abbreviated handshake and the session must go. The real flight1Generate offers a stored
// session (id of 2 arbitrary bytes, secret of 2 arbitrary bytes); a ServerHello echoing that id arrives together
// with an epoch-1 server Finished of 12 ARBITRARY bytes; the real flight1Parse / flight3Parse / handleResumption
// run. Whenever the client refuses (fatal alert: the Finished is not the PRF of the stored secret over the
// transcript), state.SessionID is STILL the offered, non-empty id when the parser returns - the FSM calls
// Conn.notify afterwards, and notify deletes the stored session only for a connection that has a session id
// (zzFatalDropsSession): together "a session on which the client sent a fatal alert is no longer offered".
//
//symgo:entry covers=client_abort_keeps_id_for_invalidation,client_accepts,client_abort_missing_ems
func zzClientAbortLeavesSessionIDForNotify() {
	rand.Reader = zzConstReader{}
	client := zzNewPeer(true)
	client.conn = zzConn{key: zzClientKey}
	store := &zzStore{}
	store.attach(client.cfg)
	id, secret := zzsymBytes("stored_id", 2), zzsymBytes("stored_secret", 2)
	store.put(zzClientKey, id, secret)
	// second cause of a client abort on this path (seed C14k-2): the client REQUIRES the extended master secret and
	// the resuming ServerHello does not carry the extension - fatal insufficient_security before any Finished check
	requireEMS := zzsymChoice("client_requires_ems", 2) == 1
	if requireEMS {
		client.cfg.ExtendedMasterSecret = dtlsconfig.RequireExtendedMasterSecret
	}
	server := zzNewPeer(false) // only a cache to receive the ClientHello
	if _, a, err := zzSend(client, server, Flight1, nil); a != nil || err != nil {
		zzsymFail("client_hello_failed")
	}
	zzsymAssert(zzsymEqBytes(client.state.SessionID, id), "client_offers_stored_session")

	suiteID := uint16(0xff01)
	sh := &handshake.Handshake{Message: &handshake.MessageServerHello{
		Version:           protocol.Version1_2,
		SessionID:         append([]byte{}, id...),
		CipherSuiteID:     &suiteID,
		CompressionMethod: dtlsflight.DefaultCompressionMethods()[0],
	}}
	client.cache.Push(zzRaw(sh), 0, 0, handshake.TypeServerHello, false)
	client.cache.Push(zzMsg(handshake.TypeFinished, 1, zzsymBytes("verify_data", 12)), 1, 1, handshake.TypeFinished, false)

	next, a, err := zzRecv(client, Flight1)
	if a = zzAlertOf(a, err); a == nil && err == nil {
		zzsymAssert(!requireEMS, "client_requiring_ems_never_resumes_without_it")
		zzsymAssert(next == Flight5b, "accepted_means_flight5b")
		zzsymCover("client_accepts")

		return
	}
	zzsymAssert(a != nil && a.Level == alert.Fatal, "client_abort_is_fatal")
	if requireEMS {
		zzsymAssert(a.Description == alert.InsufficientSecurity, "missing_ems_is_insufficient_security")
		zzsymCover("client_abort_missing_ems")
	}
	zzsymAssert(zzsymEqBytes(client.state.SessionID, id), "aborting_client_still_names_the_session_for_notify")
	zzsymAssert(len(store.setKeys) == 0, "aborting_client_stores_nothing")
	zzsymCover("client_abort_keeps_id_for_invalidation")
}
