package flight12

//symgo:pkg github.com/pion/dtls/v3/internal/flight/flight12
//symgo:param NSID quick=2 thorough=3
//symgo:param NSEC quick=2 thorough=4
//symgo:stub the cipher suite is a harness fake that records the arguments of Init (master secret, client random, server random, role); the session store is an abstract list of (key, id, secret) entries that logs its calls
//symgo:outside histories of several connections on one store (the lookup is a pure function of the store content at the time of the ClientHello, which is arbitrary here)

import (
	"github.com/pion/dtls/v3/pkg/protocol/alert"
)

// resume_lookup: handleHelloResume (the server's decision between the full and the abbreviated handshake) for
// every configuration {no session store, store} x offered session id of 0..NSID arbitrary bytes x store
// content {empty, one entry whose key is 1..NSID arbitrary bytes (equal to the offered id or not) with a
// stored secret of 0..NSEC arbitrary bytes, Get fails} x fallback flight {Flight2, Flight4}. Proved:
// Flight4b (abbreviated handshake) is chosen if and only if a store is configured, the offered id is
// non-empty and the store returned a session for exactly that id; in that case the connection's master
// secret is the STORED secret, the session id is the offered one, and the record keys are initialised exactly
// once from (stored secret, this connection's client random, this connection's server random) in the server
// role. In every other non-failing case the fallback flight (full handshake) is returned and neither master
// secret, session id nor cipher state is touched; the store is asked only with the offered id, never written.
// A failing store aborts with a fatal internal_error alert and no flight.
//
//symgo:entry covers=resumed,no_store,empty_id,miss_empty_store,miss_other_key,store_error,resumed_empty_secret
func zzResumeLookup() {
	suite := &zzSuite{}
	cfg := zzCfg(suite)
	state := zzState(false)
	state.CipherSuite = suite
	var cr, sr [32]byte
	copy(cr[:], zzsymBytes("client_random", 32))
	copy(sr[:], zzsymBytes("server_random", 32))
	state.RemoteRandom.UnmarshalFixed(cr)
	state.LocalRandom.UnmarshalFixed(sr)
	oldSecret := []byte{0xde, 0xad}
	state.MasterSecret = oldSecret

	store := &zzStore{}
	mode := zzsymChoice("store", 4) // 0 none, 1 empty, 2 one entry, 3 Get fails
	if mode != 0 {
		store.attach(cfg)
	}
	var key, secret []byte
	if mode == 2 {
		key = zzsymBytes("stored_key", zzsymChoice("klen", zzsymParam("NSID"))+1)
		secret = zzsymBytes("stored_secret", zzsymChoice("seclen", zzsymParam("NSEC")+1))
		store.put(key, key, secret)
	}
	store.failGet = mode == 3
	sid := zzsymBytes("offered_id", zzsymChoice("sidlen", zzsymParam("NSID")+1))
	fallback := Flight2
	if zzsymChoice("fallback", 2) == 1 {
		fallback = Flight4
	}

	next, a, err := handleHelloResume(sid, state, cfg, fallback)

	consulted := mode != 0 && len(sid) > 0
	// the store is only read, and only with the offered id
	zzsymAssert(len(store.setKeys) == 0 && len(store.dels) == 0, "lookup_never_writes_store")
	if consulted {
		zzsymAssert(len(store.gets) == 1, "store_asked_once")
		zzsymAssert(zzsymEqBytes(store.gets[0], sid), "store_asked_for_offered_id")
	} else {
		zzsymAssert(len(store.gets) == 0, "store_not_asked_without_id_or_store")
	}

	if consulted && mode == 3 {
		zzsymAssert(next == 0, "store_error_no_flight")
		zzsymAssert(err != nil, "store_error_reported")
		zzsymAssert(a != nil && a.Level == alert.Fatal && a.Description == alert.InternalError, "store_error_fatal_alert")
		zzsymAssert(suite.inits == 0, "store_error_no_keys")
		zzsymCover("store_error")

		return
	}
	zzsymAssert(a == nil && err == nil, "lookup_no_failure")

	known := consulted && mode == 2 && zzsymEqBytes(key, sid)
	if next == Flight4b {
		zzsymAssert(known, "abbreviated_only_for_known_session")
		zzsymAssert(zzsymEqBytes(state.MasterSecret, secret), "master_secret_is_stored_secret")
		zzsymAssert(zzsymEqBytes(state.SessionID, sid), "session_id_is_offered_id")
		zzsymAssert(suite.inits == 1, "keys_initialised_once")
		zzsymAssert(zzsymEqBytes(suite.ms, secret), "keys_from_stored_secret")
		zzsymAssert(zzsymEqBytes(suite.cr, cr[:]), "keys_from_this_client_random")
		zzsymAssert(zzsymEqBytes(suite.sr, sr[:]), "keys_from_this_server_random")
		zzsymAssert(!suite.asClient, "keys_in_server_role")
		if len(secret) == 0 {
			zzsymCover("resumed_empty_secret")
		}
		zzsymCover("resumed")

		return
	}
	zzsymAssert(!known, "known_session_is_resumed")
	zzsymAssert(next == fallback, "unknown_session_falls_back_to_full_handshake")
	zzsymAssert(zzsymEqBytes(state.MasterSecret, oldSecret), "fallback_leaves_master_secret")
	zzsymAssert(len(state.SessionID) == 0, "fallback_leaves_session_id")
	zzsymAssert(suite.inits == 0, "fallback_no_keys")
	switch {
	case mode == 0:
		zzsymCover("no_store")
	case len(sid) == 0:
		zzsymCover("empty_id")
	case mode == 1:
		zzsymCover("miss_empty_store")
	default:
		zzsymCover("miss_other_key")
	}
}
