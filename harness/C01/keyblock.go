package ciphersuite

//symgo:pkg github.com/pion/dtls/v3/internal/ciphersuite
//symgo:param NKB quick=4 thorough=17
//symgo:replace github.com/pion/dtls/v3/pkg/crypto/prf.PHash zzKbPHash
//symgo:replace github.com/pion/dtls/v3/pkg/crypto/ciphersuite.NewGCM zzKbNewGCM
//symgo:replace github.com/pion/dtls/v3/pkg/crypto/ciphersuite.NewCCM zzKbNewCCM
//symgo:replace github.com/pion/dtls/v3/pkg/crypto/ciphersuite.NewCBC zzKbNewCBC
//symgo:replace github.com/pion/dtls/v3/pkg/crypto/ciphersuite.NewChaCha20Poly1305 zzKbNewChaCha
//symgo:replace crypto/sha256.New zzKbSHA256
//symgo:replace crypto/sha512.New384 zzKbSHA384
//symgo:replace crypto/sha1.New zzKbSHA1
//symgo:stub prf.PHash is an uninterpreted function P_<hash>_<length>(secret, seed) that also logs its request; prf.GenerateEncryptionKeys (the partitioning of the key block) is the real code
//symgo:stub the record-protection constructors NewGCM / NewCCM / NewCBC / NewChaCha20Poly1305 of pkg/crypto/ciphersuite are recorders: they log (algorithm, tag length, MAC hash, local key/IV/MAC key, remote key/IV/MAC key) and return an empty cipher value
//symgo:stub sha256.New / sha512.New384 / sha1.New return name-carrying fakes so that the PRF hash and the CBC MAC hash chosen by each side are observable
//symgo:outside equality of the real AES/ChaCha/HMAC computations given equal keys (primitives are not interpreted); DTLS 1.3 suites (their key schedule is not Init-based)

import (
	"hash"

	cryptosuite "github.com/pion/dtls/v3/pkg/crypto/ciphersuite"
	"github.com/pion/dtls/v3/pkg/crypto/prf"
)

// ---- fakes -------------------------------------------------------------------------------------

type zzKbHash struct {
	name string
	size int
}

func (h *zzKbHash) Write(p []byte) (int, error) { return len(p), nil }
func (h *zzKbHash) Sum(b []byte) []byte         { return append(b, make([]byte, h.size)...) }
func (h *zzKbHash) Reset()                      {}
func (h *zzKbHash) Size() int                   { return h.size }
func (h *zzKbHash) BlockSize() int              { return 64 }

func zzKbSHA256() hash.Hash { return &zzKbHash{"sha256", 32} }
func zzKbSHA384() hash.Hash { return &zzKbHash{"sha384", 48} }
func zzKbSHA1() hash.Hash   { return &zzKbHash{"sha1", 20} }

func zzKbHashName(h func() hash.Hash) string {
	if h == nil {
		return ""
	}
	f, ok := h().(*zzKbHash)
	if !ok {
		return "?"
	}
	return f.name
}

func zzKbItoa(n int) string {
	if n == 0 {
		return "0"
	}
	s := ""
	for n > 0 {
		s = string(rune('0'+n%10)) + s
		n /= 10
	}
	return s
}

// zzKbPRFCall is one logged PHash request.
type zzKbPRFCall struct {
	secret, seed []byte
	length       int
	hash         string
}

var zzKbPRFLog []zzKbPRFCall

func zzKbPHash(secret, seed []byte, requestedLength int, hashFunc prf.HashFunc) ([]byte, error) {
	name := zzKbHashName(hashFunc)
	zzKbPRFLog = append(zzKbPRFLog, zzKbPRFCall{
		secret: append([]byte{}, secret...), seed: append([]byte{}, seed...), length: requestedLength, hash: name,
	})
	return zzsymUF("P_"+name+"_"+zzKbItoa(requestedLength), requestedLength, secret, seed), nil
}

// zzKbCipher is one logged record-protection constructor call.
type zzKbCipher struct {
	alg                             string
	tagLen                          int
	macHash                         string
	localKey, localIV, localMAC     []byte
	remoteKey, remoteIV, remoteMAC  []byte
}

var zzKbCipherLog []zzKbCipher

func zzKbClone(b []byte) []byte { return append([]byte{}, b...) }

func zzKbNewGCM(localKey, localWriteIV, remoteKey, remoteWriteIV []byte) (*cryptosuite.GCM, error) {
	zzKbCipherLog = append(zzKbCipherLog, zzKbCipher{alg: "gcm", tagLen: 16,
		localKey: zzKbClone(localKey), localIV: zzKbClone(localWriteIV),
		remoteKey: zzKbClone(remoteKey), remoteIV: zzKbClone(remoteWriteIV)})
	return &cryptosuite.GCM{}, nil
}

func zzKbNewCCM(tagLen cryptosuite.CCMTagLen, localKey, localWriteIV, remoteKey, remoteWriteIV []byte) (*cryptosuite.CCM, error) {
	zzKbCipherLog = append(zzKbCipherLog, zzKbCipher{alg: "ccm", tagLen: int(tagLen),
		localKey: zzKbClone(localKey), localIV: zzKbClone(localWriteIV),
		remoteKey: zzKbClone(remoteKey), remoteIV: zzKbClone(remoteWriteIV)})
	return &cryptosuite.CCM{}, nil
}

func zzKbNewChaCha(localKey, localWriteIV, remoteKey, remoteWriteIV []byte) (*cryptosuite.ChaCha20Poly1305, error) {
	zzKbCipherLog = append(zzKbCipherLog, zzKbCipher{alg: "chacha", tagLen: 16,
		localKey: zzKbClone(localKey), localIV: zzKbClone(localWriteIV),
		remoteKey: zzKbClone(remoteKey), remoteIV: zzKbClone(remoteWriteIV)})
	return &cryptosuite.ChaCha20Poly1305{}, nil
}

func zzKbNewCBC(localKey, localWriteIV, localMac, remoteKey, remoteWriteIV, remoteMac []byte, hashFunc prf.HashFunc) (*cryptosuite.CBC, error) {
	zzKbCipherLog = append(zzKbCipherLog, zzKbCipher{alg: "cbc", macHash: zzKbHashName(hashFunc),
		localKey: zzKbClone(localKey), localIV: zzKbClone(localWriteIV), localMAC: zzKbClone(localMac),
		remoteKey: zzKbClone(remoteKey), remoteIV: zzKbClone(remoteWriteIV), remoteMAC: zzKbClone(remoteMac)})
	return &cryptosuite.CBC{}, nil
}

// zzKbSuites: the 17 DTLS 1.2 suites ForID knows, one representative of each record-protection family
// (GCM, CCM, CBC, ChaCha20-Poly1305) first so that the quick tier (NKB=4) sees every family.
func zzKbSuites() []ID {
	return []ID{
		TLS_ECDHE_ECDSA_WITH_AES_128_GCM_SHA256,
		TLS_ECDHE_ECDSA_WITH_AES_128_CCM,
		TLS_ECDHE_ECDSA_WITH_AES_256_CBC_SHA,
		TLS_ECDHE_ECDSA_WITH_CHACHA20_POLY1305_SHA256,
		TLS_ECDHE_RSA_WITH_AES_128_GCM_SHA256,
		TLS_ECDHE_ECDSA_WITH_AES_256_GCM_SHA384,
		TLS_ECDHE_RSA_WITH_AES_256_GCM_SHA384,
		TLS_PSK_WITH_AES_128_GCM_SHA256,
		TLS_ECDHE_ECDSA_WITH_AES_128_CCM_8,
		TLS_PSK_WITH_AES_128_CCM,
		TLS_PSK_WITH_AES_128_CCM_8,
		TLS_PSK_WITH_AES_256_CCM_8,
		TLS_ECDHE_RSA_WITH_AES_256_CBC_SHA,
		TLS_PSK_WITH_AES_128_CBC_SHA256,
		TLS_ECDHE_PSK_WITH_AES_128_CBC_SHA256,
		TLS_ECDHE_RSA_WITH_CHACHA20_POLY1305_SHA256,
		TLS_PSK_WITH_CHACHA20_POLY1305_SHA256,
	}
}

// keyblock_mirror. For a DTLS 1.2 cipher suite returned by ForID (quick: one suite of each family GCM / CCM /
// CBC / ChaCha20-Poly1305; thorough: all 17), a symbolic 48-byte master secret and symbolic 32-byte client and
// server randoms, a client-side instance runs Init(ms, cr, sr, true) and a server-side instance runs
// Init(ms, cr, sr, false). P_hash is uninterpreted, the key-block partitioning (prf.GenerateEncryptionKeys)
// and the per-suite Init code are real, the record-protection constructors are recorders. Proved: both sides
// issue the same PRF request - secret = master secret, seed = "key expansion" || server_random || client_random
// (RFC 5246 section 6.3), same length, same PRF hash; the client's (write key, write IV, write MAC key) are the
// server's (read key, read IV, read MAC key) and vice versa; both sides pick the same algorithm, AEAD tag
// length and MAC hash.
//
//symgo:entry covers=gcm,ccm,cbc,chacha,keys_nonempty
func zzKeyblockMirror() {
	zzKbPRFLog, zzKbCipherLog = nil, nil
	ids := zzKbSuites()
	id := ids[zzsymChoice("suite", zzsymParam("NKB"))]
	ms := zzsymBytes("master_secret", 48)
	cr := zzsymBytes("client_random", 32)
	sr := zzsymBytes("server_random", 32)

	client := ForID(id, nil)
	server := ForID(id, nil)
	zzsymAssert(client != nil && server != nil, "kb/suite_known")
	zzsymAssert(client != server, "kb/separate_instances")
	zzsymAssert(client.Init(ms, cr, sr, true) == nil, "kb/client_init_ok")
	zzsymAssert(server.Init(ms, cr, sr, false) == nil, "kb/server_init_ok")
	zzsymAssert(client.IsInitialized(), "kb/client_initialized")
	zzsymAssert(server.IsInitialized(), "kb/server_initialized")

	// same PRF request on both sides, and it is the RFC 5246 6.3 one
	zzsymAssert(len(zzKbPRFLog) == 2, "kb/one_prf_request_per_side")
	pc, ps := zzKbPRFLog[0], zzKbPRFLog[1]
	want := append(append([]byte("key expansion"), sr...), cr...)
	zzsymAssert(zzsymEqBytes(pc.secret, ms), "kb/client_prf_secret_is_master_secret")
	zzsymAssert(zzsymEqBytes(ps.secret, ms), "kb/server_prf_secret_is_master_secret")
	zzsymAssert(zzsymEqBytes(pc.seed, want), "kb/client_prf_seed")
	zzsymAssert(zzsymEqBytes(ps.seed, want), "kb/server_prf_seed")
	zzsymAssert(pc.length == ps.length, "kb/same_prf_length")
	zzsymAssert(pc.hash == ps.hash, "kb/same_prf_hash")
	zzsymAssert(pc.hash == "sha256" || pc.hash == "sha384", "kb/prf_hash_observed")

	// mirrored keys
	zzsymAssert(len(zzKbCipherLog) == 2, "kb/one_cipher_per_side")
	c, s := zzKbCipherLog[0], zzKbCipherLog[1]
	zzsymAssert(c.alg == s.alg, "kb/same_algorithm")
	zzsymAssert(c.tagLen == s.tagLen, "kb/same_tag_length")
	zzsymAssert(c.macHash == s.macHash, "kb/same_mac_hash")
	zzsymAssert(zzsymEqBytes(c.localKey, s.remoteKey), "kb/client_write_key_is_server_read_key")
	zzsymAssert(zzsymEqBytes(c.localIV, s.remoteIV), "kb/client_write_iv_is_server_read_iv")
	zzsymAssert(zzsymEqBytes(c.localMAC, s.remoteMAC), "kb/client_write_mac_is_server_read_mac")
	zzsymAssert(zzsymEqBytes(s.localKey, c.remoteKey), "kb/server_write_key_is_client_read_key")
	zzsymAssert(zzsymEqBytes(s.localIV, c.remoteIV), "kb/server_write_iv_is_client_read_iv")
	zzsymAssert(zzsymEqBytes(s.localMAC, c.remoteMAC), "kb/server_write_mac_is_client_read_mac")

	// the whole requested key block is handed out: mac + key + iv for both directions
	zzsymAssert(2*(len(c.localMAC)+len(c.localKey)+len(c.localIV)) == pc.length, "kb/key_block_fully_partitioned")
	if len(c.localKey) > 0 && len(c.remoteKey) > 0 {
		zzsymCover("keys_nonempty")
	}
	switch c.alg {
	case "gcm":
		zzsymCover("gcm")
	case "ccm":
		zzsymCover("ccm")
	case "cbc":
		zzsymAssert(c.macHash == "sha1" || c.macHash == "sha256", "kb/cbc_mac_hash_observed")
		zzsymAssert(len(c.localMAC) > 0, "kb/cbc_has_mac_key")
		zzsymCover("cbc")
	case "chacha":
		zzsymCover("chacha")
	}
}
