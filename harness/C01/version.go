package config

//symgo:pkg github.com/pion/dtls/v3/internal/config
//symgo:outside remote version lists that an honest peer never sends (entries other than DTLS 1.2 / 1.3); fixed-version endpoints that never call SelectVersion (MaxVersion 1.2 or MinVersion 1.3 enter the flight12 / flight13 handlers directly)

import "github.com/pion/dtls/v3/pkg/protocol"

func zzVaVersion(name string) protocol.Version {
	return protocol.Version{Major: zzsymU8(name + "_major"), Minor: zzsymU8(name + "_minor")}
}

// zzVaIs13: the harness' own reading of a configured bound: DTLS 1.3 is {0xfe,0xfc}; every other value means
// DTLS 1.2 (documented behaviour of the MinVersion/MaxVersion options).
func zzVaIs13(v protocol.Version) bool {
	return zzsymAnd(v.Major == 0xfe, v.Minor == 0xfc)
}

// version_agree. Client and server are configured with arbitrary MinVersion/MaxVersion values (all 2^64
// combinations of the eight bytes). Both normalise their range (NormalizeProtocolVersionRange). The client
// offers SupportedVersionsRange(min,max) in supported_versions; the server runs SelectVersion on that offer
// (Conn.pickVersionFromClientHello) and answers with the single selected version; the client runs
// SelectVersion on that answer (Conn.pickVersionFromServerHello / selectRemoteVersion). Proved: whenever the
// server selects a version, the client accepts it and both sides hold the same LocalVersion, it is DTLS 1.2 or
// DTLS 1.3, it lies inside both configured ranges, and it is DTLS 1.3 whenever both ranges contain 1.3; a
// DTLS 1.2-only client that sends no supported_versions (offer = ClientHello.Version) agrees in the same way.
//
//symgo:entry covers=agreed_13,agreed_12,no_common_version,legacy_hello_version
func zzVersionAgree() {
	cMinRaw, cMaxRaw := zzVaVersion("client_min"), zzVaVersion("client_max")
	sMinRaw, sMaxRaw := zzVaVersion("server_min"), zzVaVersion("server_max")
	cMin, cMax := NormalizeProtocolVersionRange(cMinRaw, cMaxRaw)
	sMin, sMax := NormalizeProtocolVersionRange(sMinRaw, sMaxRaw)

	// abstract ranges: does each side allow 1.2 / 1.3? (min 1.3 excludes 1.2; max != 1.3 excludes 1.3)
	c13 := zzVaIs13(cMaxRaw)
	c12 := zzsymNot(zzVaIs13(cMinRaw))
	s13 := zzVaIs13(sMaxRaw)
	s12 := zzsymNot(zzVaIs13(sMinRaw))

	offer := SupportedVersionsRange(cMin, cMax)
	legacy := false
	if zzsymChoice("legacy_client_hello", 2) == 1 {
		// a client whose range is exactly DTLS 1.2 may omit supported_versions: the server then uses ClientHello.Version
		zzsymAssume(zzsymAnd(c12, zzsymNot(c13)))
		offer = []protocol.Version{protocol.Version1_2}
		legacy = true
	}

	serverVersion, ok := SelectVersion(offer, sMin, sMax)
	if !ok {
		zzsymAssert(zzsymNot(zzsymOr(zzsymAnd(c13, s13), zzsymAnd(c12, s12))), "va/server_fails_only_without_common_version")
		zzsymCover("no_common_version")
		return
	}
	clientVersion, cok := SelectVersion([]protocol.Version{serverVersion}, cMin, cMax)
	zzsymAssert(cok, "va/client_accepts_server_version")
	zzsymAssert(clientVersion == serverVersion, "va/same_version")
	is13 := serverVersion == protocol.Version1_3
	zzsymAssert(zzsymOr(is13, serverVersion == protocol.Version1_2), "va/known_version")
	zzsymAssert(zzsymImplies(is13, zzsymAnd(c13, s13)), "va/13_inside_both_ranges")
	zzsymAssert(zzsymImplies(!is13, zzsymAnd(c12, s12)), "va/12_inside_both_ranges")
	zzsymAssert(zzsymImplies(zzsymAnd(c13, s13), is13), "va/highest_common_version")
	if legacy {
		zzsymCover("legacy_hello_version")
	}
	if is13 {
		zzsymCover("agreed_13")
	} else {
		zzsymCover("agreed_12")
	}
}
