package state

//symgo:pkg github.com/pion/dtls/v3/internal/state
//symgo:param NCID quick=3 thorough=5
//symgo:outside connection IDs longer than NCID-1 bytes (the code copies them with bytes.Clone, length-generic); CID changes after the handshake (RequestConnectionID / NewConnectionID in DTLS 1.3)
//symgo:assume the ClientHello reaches the server unmodified (the server snapshot is RecordWire of the bytes the client's FinalizeClientHello produced) and the ServerHello reaches the client unmodified (the client decodes the bytes the server's FinalizeServerHello accepted); an attacker changing them is caught by Finished, which is outside this entry

import (
	"github.com/pion/dtls/v3/internal/negotiation"
	"github.com/pion/dtls/v3/pkg/protocol"
	"github.com/pion/dtls/v3/pkg/protocol/extension"
	"github.com/pion/dtls/v3/pkg/protocol/handshake"
)

// zzCidCommitter abstracts over the DTLS 1.2 (Common) and DTLS 1.3 (State13) commit functions.
type zzCidSide struct {
	common *Common
	s13    *State13 // nil for DTLS 1.2
}

func zzCidNewSide(isClient, v13 bool) *zzCidSide {
	if v13 {
		st := NewState13(isClient)
		return &zzCidSide{common: st.Common, s13: &st}
	}
	st := NewState12(isClient)
	return &zzCidSide{common: st.Common}
}

func (s *zzCidSide) commit(d *negotiation.ConnectionID) {
	if s.s13 != nil {
		s.s13.CommitNegotiatedExtensions(d)
		return
	}
	s.common.CommitNegotiatedExtensions(d)
}

// cid_mirror. One client and one server state (DTLS 1.2: Common.CommitNegotiatedExtensions, DTLS 1.3:
// State13.CommitNegotiatedExtensions) negotiate connection IDs over the real message codecs. Client: a
// ClientHello that offers connection_id (or not) with a symbolic CID of 0..NCID-1 bytes and
// return_routability_check (or not; offering it without connection_id is refused by the codec) goes through the real FinalizeClientHello and RecordLocalClientHello.
// Server: the marshalled ClientHello handshake message is recorded with RecordWire (as flight0Parse does); the
// server answers connection_id (or not) with a symbolic CID of 0..NCID-1 bytes and
// return_routability_check (or not) - all four combinations, i.e. including answers a ServerHello hook could
// inject - through the real FinalizeServerHello, DecideConnectionID and CommitNegotiatedExtensions. The
// client decodes the marshalled ServerHello and runs ValidateServerHello12Context, ValidateServerHelloResponse,
// DecideConnectionID, CommitNegotiatedExtensions (the flight3Parse sequence). Proved, whenever neither side
// aborts: client.local CID = server.remote CID, client.remote CID = server.local CID, RRCNegotiated equal,
// "CID offered" flags mirrored; CIDs are in use iff the client offered and the server answered, and then they
// are exactly the offered / answered bytes; RRC is negotiated iff CIDs are and both sent the RRC extension;
// for DTLS 1.3 the directional CID state (send CID, expected receive length) is mirrored as well; the pending
// client CID used for inbound records before the ServerHello is the offered one and is cleared by the commit.
//
//symgo:entry covers=client_refuses_rrc_without_cid,both_cid,no_offer,no_answer,empty_client_cid,empty_server_cid,rrc_on,rrc_off,server_rejects_unsolicited,v12,v13
func zzCidMirror() {
	v13 := zzsymChoice("dtls13", 2) == 1
	offered := zzsymChoice("client_offers_cid", 2) == 1
	rrcOffered := zzsymChoice("client_offers_rrc", 2) == 1
	answered := zzsymChoice("server_answers_cid", 2) == 1
	rrcAnswered := zzsymChoice("server_answers_rrc", 2) == 1
	clientCID := zzsymBytes("client_cid", zzsymChoice("client_cid_len", zzsymParam("NCID")))
	serverCID := zzsymBytes("server_cid", zzsymChoice("server_cid_len", zzsymParam("NCID")))

	client := zzCidNewSide(true, v13)
	server := zzCidNewSide(false, v13)

	// ---- client: ClientHello ----
	var chExt []extension.Value
	if offered {
		chExt = append(chExt, &extension.ConnectionID{CID: clientCID})
	}
	if rrcOffered {
		chExt = append(chExt, &extension.ReturnRoutabilityCheck{})
	}
	hello := &handshake.MessageClientHello{
		Version:            protocol.Version1_2,
		CipherSuiteIDs:     []uint16{0xc02b},
		CompressionMethods: []*protocol.CompressionMethod{{}},
		Extensions:         chExt,
	}
	finalHello, snap, err := negotiation.FinalizeClientHello(hello, nil)
	if err != nil {
		// the ClientHello codec refuses return_routability_check without connection_id (RFC 9853): no handshake
		zzsymAssert(rrcOffered && !offered, "cid/client_hello_refused_only_for_rrc_without_cid")
		zzsymCover("client_refuses_rrc_without_cid")
		return
	}
	zzsymAssert(client.common.RecordLocalClientHello(snap) == nil, "cid/client_hello_recorded")
	if offered {
		zzsymAssert(zzsymEqBytes(client.common.LocalConnectionIDForInboundRecords(), clientCID), "cid/pending_inbound_cid_is_offer")
	}
	wire, err := (&handshake.Handshake{Message: finalHello}).Marshal()
	zzsymAssert(err == nil, "cid/client_hello_marshals")

	// ---- server: record offer, answer ----
	zzsymAssert(server.common.RemoteClientHelloSnapshots.RecordWire(wire) == nil, "cid/server_records_wire_hello")
	offer := server.common.RemoteClientHelloSnapshots.Current()
	var shExt []extension.Value
	if answered {
		shExt = append(shExt, &extension.ConnectionID{CID: serverCID})
	}
	if rrcAnswered {
		shExt = append(shExt, &extension.ReturnRoutabilityCheck{})
	}
	suite := uint16(0xc02b)
	sh := &handshake.MessageServerHello{
		Version:           protocol.Version1_2,
		CipherSuiteID:     &suite,
		CompressionMethod: &protocol.CompressionMethod{},
		Extensions:        shExt,
	}
	finalSH, err := negotiation.FinalizeServerHello(sh, nil, offer)
	if err != nil {
		// the server refuses to send an extension the client did not ask for
		zzsymAssert(zzsymOr(zzsymAnd(answered, !offered), zzsymAnd(rrcAnswered, !rrcOffered)), "cid/server_rejects_only_unsolicited")
		zzsymCover("server_rejects_unsolicited")
		return
	}
	zzsymAssert(zzsymAnd(zzsymImplies(answered, offered), zzsymImplies(rrcAnswered, rrcOffered)), "cid/server_never_sends_unsolicited")
	server.commit(negotiation.DecideConnectionID(offer, finalSH.Extensions))

	// ---- client: decode ServerHello, validate, commit (flight3Parse order) ----
	shWire, err := finalSH.Marshal()
	zzsymAssert(err == nil, "cid/server_hello_marshals")
	var got handshake.MessageServerHello
	zzsymAssert(got.Unmarshal(shWire) == nil, "cid/server_hello_decodes")
	cOffer := client.common.LocalClientHelloSnapshots.Current()
	zzsymAssert(negotiation.ValidateServerHello12Context(&got) == nil, "cid/client_accepts_context")
	zzsymAssert(negotiation.ValidateServerHelloResponse(cOffer, &got) == nil, "cid/client_accepts_honest_answer")
	client.commit(negotiation.DecideConnectionID(cOffer, got.Extensions))

	// ---- agreement ----
	c, s := client.common, server.common
	zzsymAssert(zzsymEqBytes(c.LocalConnectionID(), s.RemoteConnectionID), "cid/client_local_is_server_remote")
	zzsymAssert(zzsymEqBytes(c.RemoteConnectionID, s.LocalConnectionID()), "cid/client_remote_is_server_local")
	zzsymAssert(c.RRCNegotiated == s.RRCNegotiated, "cid/rrc_agreed")
	zzsymAssert(c.LocalCIDOffered == s.RemoteCIDOffered, "cid/offered_flags_mirrored_cs")
	zzsymAssert(c.RemoteCIDOffered == s.LocalCIDOffered, "cid/offered_flags_mirrored_sc")
	zzsymAssert(zzsymEqBytes(c.LocalConnectionIDForInboundRecords(), c.LocalConnectionID()), "cid/pending_cid_cleared_by_commit")

	// ---- oracle (RFC 9146 section 3): in use iff offered and answered; each side sends with the CID the peer chose ----
	negotiated := offered && answered
	if negotiated {
		zzsymAssert(zzsymEqBytes(c.LocalConnectionID(), clientCID), "cid/client_receives_with_its_own_cid")
		zzsymAssert(zzsymEqBytes(s.LocalConnectionID(), serverCID), "cid/server_receives_with_its_own_cid")
		zzsymAssert(c.LocalCIDOffered && c.RemoteCIDOffered, "cid/negotiated_flags")
		zzsymCover("both_cid")
		if len(clientCID) == 0 {
			zzsymCover("empty_client_cid")
		}
		if len(serverCID) == 0 {
			zzsymCover("empty_server_cid")
		}
	} else {
		zzsymAssert(len(c.LocalConnectionID()) == 0 && len(c.RemoteConnectionID) == 0, "cid/not_negotiated_no_client_cids")
		zzsymAssert(len(s.LocalConnectionID()) == 0 && len(s.RemoteConnectionID) == 0, "cid/not_negotiated_no_server_cids")
		zzsymAssert(!c.LocalCIDOffered && !c.RemoteCIDOffered && !s.LocalCIDOffered && !s.RemoteCIDOffered, "cid/not_negotiated_flags")
		if !offered {
			zzsymCover("no_offer")
		} else {
			zzsymCover("no_answer")
		}
	}
	wantRRC := negotiated && rrcOffered && rrcAnswered
	zzsymAssert(c.RRCNegotiated == wantRRC, "cid/rrc_iff_cid_and_both_sent_rrc")
	if wantRRC {
		zzsymCover("rrc_on")
	} else {
		zzsymCover("rrc_off")
	}

	if v13 {
		cc, sc := client.s13.CID, server.s13.CID
		zzsymAssert(cc.Negotiated == negotiated && sc.Negotiated == negotiated, "cid/13_negotiated_flag")
		zzsymAssert(zzsymEqBytes(cc.Send.Active, s.LocalConnectionID()), "cid/13_client_sends_server_cid")
		zzsymAssert(zzsymEqBytes(sc.Send.Active, c.LocalConnectionID()), "cid/13_server_sends_client_cid")
		zzsymAssert(cc.Send.UseCID == sc.Receive.Expected, "cid/13_client_send_matches_server_receive")
		zzsymAssert(sc.Send.UseCID == cc.Receive.Expected, "cid/13_server_send_matches_client_receive")
		zzsymAssert(len(cc.Send.Active) == sc.Receive.Length, "cid/13_client_send_len_is_server_receive_len")
		zzsymAssert(len(sc.Send.Active) == cc.Receive.Length, "cid/13_server_send_len_is_client_receive_len")
		zzsymCover("v13")
	} else {
		zzsymCover("v12")
	}
}
