package dtlshandshake

// GENERATED from harness/C03/hs13_auth.go (tools: see DESIGN 10.5): the same scenario builder and judge, reused for
// C01's clause "each side's view of the peer certificate chain is exactly what the peer presented" in DTLS 1.3:
// state.PeerCertificates and what VerifyPeerCertificate / VerifyConnection see equal the presented list, also
// when chain verification builds a different path (the chain verifier stub returns a path whose certificates are
// NOT the presented bytes).

//symgo:pkg github.com/pion/dtls/v3/internal/handshake
//symgo:param HSSEQ quick=4 thorough=5
//symgo:replace github.com/pion/dtls/v3/internal/handshakecrypto.VerifyCertificateVerify zzA13VerifyCV
//symgo:replace github.com/pion/dtls/v3/internal/handshakecrypto.VerifyServerCert zzA13VerifyServerCert
//symgo:replace github.com/pion/dtls/v3/internal/handshakecrypto.VerifyClientCert zzA13VerifyClientCert
//symgo:replace github.com/pion/dtls/v3/internal/handshake.verifyFinishedData zzA13VerifyFinished
//symgo:replace crypto/sha256.Sum256 zzA13Sum256
//symgo:stub handshakecrypto.VerifyCertificateVerify / VerifyServerCert / VerifyClientCert are recorders with an ARBITRARY verdict (an empty certificate list is always refused, as the real wrappers do first - crypto_wrappers.go); verifyFinishedData (HMAC comparison of verify_data, proved against RFC 8446 4.4.4 in C10 zzT13Finished) is a recorder of (base key, transcript hash, verify_data) with an arbitrary verdict; the transcript hash is an uninterpreted function of the hashed bytes; sha256.Sum256 (transcript de-duplication fingerprint) is uninterpreted; the cipher suite is a harness fake
//symgo:assume the handshake cache holds complete, unfragmented messages whose header agrees with the cache metadata; items at epoch 2 were decrypted with the handshake traffic keys (C05); the handshake traffic keys come from an unauthenticated (EC)DHE exchange, so ANY peer can produce epoch-2 records and a valid Finished - only Certificate + CertificateVerify authenticate the server
//symgo:outside ServerHello processing and key schedule (C10/C13); DTLS 1.3 PSK modes (not implemented by the library: every DTLS 1.3 handshake is certificate-authenticated)

import (
	"context"
	"crypto/x509"
	"errors"
	"hash"

	"github.com/pion/dtls/v3/internal/ciphersuite"
	dtlsconfig "github.com/pion/dtls/v3/internal/config"
	dtlsflight "github.com/pion/dtls/v3/internal/flight"
	dtlsflight13 "github.com/pion/dtls/v3/internal/flight/flight13"
	dtlsstate "github.com/pion/dtls/v3/internal/state"
	"github.com/pion/dtls/v3/pkg/crypto/clientcertificate"
	dtlshash "github.com/pion/dtls/v3/pkg/crypto/hash"
	"github.com/pion/dtls/v3/pkg/crypto/signature"
	"github.com/pion/dtls/v3/pkg/crypto/signaturehash"
	"github.com/pion/dtls/v3/pkg/protocol"
	"github.com/pion/dtls/v3/pkg/protocol/handshake"
	"github.com/pion/dtls/v3/pkg/protocol/recordlayer"
)

type zzA13Rec struct {
	cvCalls              int
	cvOK                 bool
	cvInput, cvSig       []byte
	cvHash               dtlshash.Algorithm
	cvAlg                signature.Algorithm
	cvCerts              [][]byte
	chainCalls           int
	chainOK              bool
	chainServer          bool
	chainCerts           [][]byte
	chainRoots           *x509.CertPool
	chainName            string
	vpcCalls             int
	vpcOK                bool
	vpcCerts             [][]byte
	vpcGotChain          bool
	vconnCalls           int
	vconnOK              bool
	vconnCerts           [][]byte
	finCalls             int
	finOK                bool
	finKey, finTH, finVD []byte
	finAfterCV           bool // when Finished was checked, a CertificateVerify had been verified OK
}

var zzA13 zzA13Rec

var zzA13Err = errors.New("zz: verification failed")

var zzA13Leaf = new(x509.Certificate)

func zzA13VerifyCV(input []byte, h dtlshash.Algorithm, s signature.Algorithm, sig []byte, certs [][]byte) error {
	zzA13.cvCalls++
	zzA13.cvInput, zzA13.cvHash, zzA13.cvAlg, zzA13.cvSig, zzA13.cvCerts = input, h, s, sig, certs
	zzA13.cvOK = false
	if len(certs) == 0 {
		return zzA13Err
	}
	zzA13.cvOK = zzsymBool("cv_ok")
	if !zzA13.cvOK {
		return zzA13Err
	}

	return nil
}

func zzA13Chain(server bool, certs [][]byte, roots *x509.CertPool, name string) ([][]*x509.Certificate, error) {
	zzA13.chainCalls++
	zzA13.chainServer, zzA13.chainCerts, zzA13.chainRoots, zzA13.chainName = server, certs, roots, name
	zzA13.chainOK = false
	if len(certs) == 0 {
		return nil, zzA13Err
	}
	zzA13.chainOK = zzsymBool("chain_ok")
	if !zzA13.chainOK {
		return nil, zzA13Err
	}

	return [][]*x509.Certificate{{zzA13Leaf}}, nil
}

func zzA13VerifyServerCert(certs [][]byte, roots *x509.CertPool, name string, _ []signaturehash.Algorithm) ([][]*x509.Certificate, error) {
	return zzA13Chain(true, certs, roots, name)
}

func zzA13VerifyClientCert(certs [][]byte, roots *x509.CertPool, _ []signaturehash.Algorithm) ([][]*x509.Certificate, error) {
	return zzA13Chain(false, certs, roots, "")
}

func zzA13VerifyFinished(_ func() hash.Hash, baseKey, transcriptHash, verifyData []byte) error {
	zzA13.finCalls++
	zzA13.finKey, zzA13.finTH, zzA13.finVD = baseKey, transcriptHash, verifyData
	zzA13.finAfterCV = zzA13.cvCalls > 0 && zzA13.cvOK
	zzA13.finOK = zzsymBool("finished_ok")
	if !zzA13.finOK {
		return zzA13Err
	}

	return nil
}

func zzA13Sum256(b []byte) [32]byte {
	var out [32]byte
	if n := len(b); n > 4096 {
		copy(out[:], zzsymUF("fingerprintLong", 32, []byte{byte(n >> 16), byte(n >> 8), byte(n)}, b[:64], b[n-64:]))

		return out
	}
	copy(out[:], zzsymUF("fingerprint", 32, b))

	return out
}

// transcript hash: uninterpreted function of the bytes written
type zzA13Hash struct{ buf []byte }

func (h *zzA13Hash) Write(p []byte) (int, error) { h.buf = append(h.buf, p...); return len(p), nil }
func (h *zzA13Hash) Sum(b []byte) []byte         { return append(b, zzA13TH(h.buf)...) }
func (h *zzA13Hash) Reset()                      { h.buf = nil }
func (h *zzA13Hash) Size() int                   { return 4 }
func (h *zzA13Hash) BlockSize() int              { return 8 }

// Long inputs (only the big-chain entry produces them) are abstracted to (length, first 64 bytes, last 64 bytes):
// an uninterpreted function of the whole 64 KiB vector is beyond the solver's term size; the big-chain entry asserts
// only which certificate list is reported and handed to the verifiers, not transcript coverage.
func zzA13TH(data []byte) []byte {
	if n := len(data); n > 4096 {
		return zzsymUF("TranscriptHashLong", 4, []byte{byte(n >> 16), byte(n >> 8), byte(n)}, data[:64], data[n-64:])
	}

	return zzsymUF("TranscriptHash", 4, data)
}

func zzA13NewHash() hash.Hash { return &zzA13Hash{} }

type zzA13Suite struct{}

func (zzA13Suite) String() string                          { return "zzA13Suite" }
func (zzA13Suite) ID() ciphersuite.ID                      { return ciphersuite.TLS_AES_128_GCM_SHA256 }
func (zzA13Suite) CertificateType() clientcertificate.Type { return 0 }
func (zzA13Suite) HashFunc() func() hash.Hash              { return zzA13NewHash }
func (zzA13Suite) AuthenticationType() ciphersuite.AuthenticationType {
	return ciphersuite.AuthenticationTypeAnonymous
}
func (zzA13Suite) KeyExchangeAlgorithm() ciphersuite.KeyExchangeAlgorithm {
	return ciphersuite.KeyExchangeAlgorithmEcdhe
}
func (zzA13Suite) ECC() bool                                                  { return true }
func (zzA13Suite) Init(_, _, _ []byte, _ bool) error                          { return nil }
func (zzA13Suite) IsInitialized() bool                                        { return true }
func (zzA13Suite) Decrypt(_ recordlayer.Header, in []byte) ([]byte, error)    { return in, nil }
func (zzA13Suite) Encrypt(_ *recordlayer.RecordLayer, r []byte) ([]byte, error) { return r, nil }

type zzA13Log struct{}

func (zzA13Log) Trace(string)          {}
func (zzA13Log) Tracef(string, ...any) {}
func (zzA13Log) Debug(string)          {}
func (zzA13Log) Debugf(string, ...any) {}
func (zzA13Log) Info(string)           {}
func (zzA13Log) Infof(string, ...any)  {}
func (zzA13Log) Warn(string)           {}
func (zzA13Log) Warnf(string, ...any)  {}
func (zzA13Log) Error(string)          {}
func (zzA13Log) Errorf(string, ...any) {}

type zzA13Conn struct{}

func (zzA13Conn) HandleQueuedPackets(context.Context) error { return nil }
func (zzA13Conn) SessionKey() []byte                        { return nil }

// message kinds of a protected flight
const (
	zzA13EE        = 0 // EncryptedExtensions, no extensions
	zzA13CR        = 1 // CertificateRequest with signature_algorithms
	zzA13CertEmpty = 2 // Certificate with an empty certificate_list
	zzA13Cert      = 3 // Certificate with one entry (arbitrary 2-byte cert_data)
	zzA13CV        = 4 // CertificateVerify, ecdsa_secp256r1_sha256, arbitrary 2-byte signature
	zzA13Fin       = 5 // Finished, arbitrary 4-byte verify_data
)

type zzA13Scenario struct {
	peerIsClient bool // sender of the flight under test
	cfg          *dtlsconfig.HandshakeConfig
	state        *dtlsstate.State13
	cache        *dtlsflight.Cache
	hctx         *handshakeContext
	clientAuth   int
	skipVerify   bool
	hasVPC       bool
	hasVConn     bool
	serverName   string
	prior        []byte // canonical transcript before the flight (ClientHello, ServerHello [, server flight])
	clientSecret []byte
	serverSecret []byte
	kinds        []int
	canon        [][]byte // canonical (TLS 1.3) form of each pushed message
	payload      [][]byte // per message: cert_data / signature / verify_data (nil otherwise)
	chain        [][]byte // presented certificate_list when the Certificate was stored by zzA13PushChain
	certs        [][]byte // certificate list of the flight's Certificate message (set by zzA13Flight)
	cvSig        []byte
	verifyData   []byte
}

// zzA13Body: RFC 8446 section 4.3.1 / 4.3.2 / 4.4.2 / 4.4.3 / 4.4.4 message bodies written by hand.
func zzA13Body(kind int) (typ handshake.Type, body, payload []byte) {
	switch kind {
	case zzA13EE:
		return handshake.TypeEncryptedExtensions, []byte{0, 0}, nil // Extension extensions<0..2^16-1>
	case zzA13CR:
		// certificate_request_context<0..255>, extensions<2..2^16-1> = signature_algorithms{ecdsa_secp256r1_sha256}
		return handshake.TypeCertificateRequest, []byte{0, 0, 8, 0, 13, 0, 4, 0, 2, 4, 3}, nil
	case zzA13CertEmpty:
		return handshake.TypeCertificate, []byte{0, 0, 0, 0}, nil // context<0>, certificate_list<0>
	case zzA13Cert:
		c := zzsymBytes("cert_data", 2)
		// context<0>, certificate_list{ cert_data<1..2^24-1>, extensions<0..2^16-1> }
		return handshake.TypeCertificate, []byte{0, 0, 0, 7, 0, 0, 2, c[0], c[1], 0, 0}, c
	case zzA13CV:
		sig := zzsymBytes("cv_signature", 2)

		return handshake.TypeCertificateVerify, []byte{4, 3, 0, 2, sig[0], sig[1]}, sig
	}
	vd := zzsymBytes("verify_data", 4)

	return handshake.TypeFinished, vd, vd
}

// zzA13Push stores message #i of the flight at the next message_seq, epoch 2 (DTLS header: msg_type length(3)
// message_seq(2) fragment_offset(3)=0 fragment_length(3)=length) and remembers its TLS 1.3 transcript form
// (msg_type length(3) body, RFC 9147 5.2).
func zzA13Push(sc *zzA13Scenario, kind int) {
	typ, body, payload := zzA13Body(kind)
	zzA13PushBody(sc, kind, typ, body, payload)
}

func zzA13PushBody(sc *zzA13Scenario, kind int, typ handshake.Type, body, payload []byte) {
	seq := sc.state.HandshakeRecvSequence + len(sc.kinds)
	n := len(body)
	raw := []byte{byte(typ), byte(n >> 16), byte(n >> 8), byte(n), byte(seq >> 8), byte(seq), 0, 0, 0, byte(n >> 16), byte(n >> 8), byte(n)}
	raw = append(raw, body...)
	sc.cache.Push(raw, dtlsflight13.EpochHandshake, uint16(seq), typ, sc.peerIsClient)
	sc.kinds = append(sc.kinds, kind)
	sc.payload = append(sc.payload, payload)
	sc.canon = append(sc.canon, append([]byte{byte(typ), byte(n >> 16), byte(n >> 8), byte(n)}, body...))
}

// zzA13PushChain stores a Certificate message whose certificate_list has one entry per element of certs (RFC 8446
// 4.4.2: context<0>, certificate_list{ cert_data<1..2^24-1>, extensions<0..2^16-1> = empty } ...), recorded as kind
// zzA13Cert with the presented list in sc.chain.
func zzA13PushChain(sc *zzA13Scenario, certs [][]byte) {
	var list []byte
	for _, c := range certs {
		list = append(list, byte(len(c)>>16), byte(len(c)>>8), byte(len(c)))
		list = append(list, c...)
		list = append(list, 0, 0)
	}
	body := append([]byte{0, byte(len(list) >> 16), byte(len(list) >> 8), byte(len(list))}, list...)
	sc.chain = certs
	zzA13PushBody(sc, zzA13Cert, handshake.TypeCertificate, body, nil)
}

func zzA13Build(peerIsClient, skipVerify, callbacks bool) *zzA13Scenario {
	zzA13 = zzA13Rec{}
	sc := &zzA13Scenario{peerIsClient: peerIsClient, skipVerify: skipVerify}
	sc.serverName = zzsymString("server_name", 3)
	sc.clientAuth = zzsymInt("client_auth")
	sc.cfg = &dtlsconfig.HandshakeConfig{
		LocalSignatureSchemes: []signaturehash.Algorithm{{Hash: dtlshash.SHA256, Signature: signature.ECDSA}},
		InsecureSkipVerify:    skipVerify,
		ClientAuth:            dtlsconfig.ClientAuthType(sc.clientAuth),
		RootCAs:               new(x509.CertPool),
		ClientCAs:             new(x509.CertPool),
		ServerName:            sc.serverName,
		Log:                   zzA13Log{},
	}
	if callbacks {
		sc.hasVPC, sc.hasVConn = true, true
		sc.cfg.VerifyPeerCertificate = func(raw [][]byte, chains [][]*x509.Certificate) error {
			zzA13.vpcCalls++
			zzA13.vpcCerts = raw
			zzA13.vpcGotChain = len(chains) == 1 && len(chains[0]) == 1 && chains[0][0] == zzA13Leaf
			zzA13.vpcOK = zzsymBool("vpc_ok")
			if !zzA13.vpcOK {
				return zzA13Err
			}

			return nil
		}
		sc.cfg.VerifyConnection = func(st dtlsstate.Active) error {
			zzA13.vconnCalls++
			zzA13.vconnCerts = st.CommonFields().PeerCertificates
			zzA13.vconnOK = zzsymBool("vconn_ok")
			if !zzA13.vconnOK {
				return zzA13Err
			}

			return nil
		}
	}
	sc.clientSecret, sc.serverSecret = zzsymBytes("client_hs_secret", 4), zzsymBytes("server_hs_secret", 4)
	sc.state = &dtlsstate.State13{Common: &dtlsstate.Common{
		IsClient: !peerIsClient, LocalVersion: protocol.Version1_3, CipherSuite: zzA13Suite{},
	}}
	sc.state.SetRemoteEpoch(dtlsflight13.EpochHandshake)
	sc.state.SetLocalEpoch(dtlsflight13.EpochHandshake)
	sc.state.KeySchedule.HandshakeTraffic = dtlsstate.TrafficSecrets{Client: sc.clientSecret, Server: sc.serverSecret}
	sc.state.HandshakeRecvSequence = 1
	sc.cache = dtlsflight.NewCache()

	// transcript so far: ClientHello, ServerHello (and, on the server, its own flight) in canonical form
	tr := NewTranscript()
	zzsymAssert(tr.selectHash(zzA13NewHash) == nil, "harness_select_hash")
	add := func(sender transcriptSender, seq uint16, typ handshake.Type, name string) {
		m := append([]byte{byte(typ), 0, 0, 2}, zzsymBytes(name, 2)...)
		zzsymAssert(tr.appendCanonical(transcriptMessageID{sender: sender, Seq: seq}, m) == nil, "harness_transcript")
		sc.prior = append(sc.prior, m...)
	}
	add(transcriptSenderClient, 0, handshake.TypeClientHello, "client_hello")
	add(transcriptSenderServer, 0, handshake.TypeServerHello, "server_hello")
	if peerIsClient {
		add(transcriptSenderServer, 1, handshake.TypeEncryptedExtensions, "own_flight")
	}
	sc.hctx = &handshakeContext{state: sc.state, cache: sc.cache, cfg: sc.cfg, transcript: tr}

	return sc
}

// zzA13Run: the real flight13 parser of the receiving side (client: flight3Parse, server: flight4Parse) with the
// real hooks of handshakeContext (VerifyAndAppendProtectedHandshakeCacheItems). Accepted = the parser moves to
// the flight that completes the handshake (client: Flight5 = send own Finished; server: Flight4 = last
// receive flight done).
func zzA13Run(sc *zzA13Scenario) bool {
	cur, done := dtlsflight13.Flight3, dtlsflight13.Flight5
	if sc.peerIsClient {
		cur, done = dtlsflight13.Flight4, dtlsflight13.Flight4
	}
	next, a, err, ok := dtlsflight13.Parse(context.Background(), cur, zzA13Conn{}, sc.hctx.parseDependencies())
	zzsymAssert(ok, "harness_parser_exists")
	if next == done {
		zzsymAssert(zzsymAnd(a == nil, err == nil), "hs13_accept_without_alert")

		return true
	}
	zzsymAssert(next == 0, "hs13_no_other_flight")

	return false
}

func zzA13EqCerts(a, b [][]byte) bool {
	if len(a) != len(b) {
		return false
	}
	ok := true
	for i := range a {
		ok = zzsymAnd(ok, zzsymEqBytes(a[i], b[i]))
	}

	return ok
}

// zzA13Index: position of the first message of the given kind within the flight, i.e. not after the first
// Finished (a flight ends with Finished; later cache entries are not part of it and are left unread).
func zzA13Index(sc *zzA13Scenario, kind int) int {
	for i, k := range sc.kinds {
		if k == kind {
			return i
		}
		if k == zzA13Fin {
			break
		}
	}

	return -1
}

// zzA13TranscriptBefore: prior transcript followed by the canonical form of flight messages 0..i-1.
func zzA13TranscriptBefore(sc *zzA13Scenario, i int) []byte {
	out := append([]byte{}, sc.prior...)
	for j := 0; j < i; j++ {
		out = append(out, sc.canon[j]...)
	}

	return out
}

// RFC 8446 4.4.3: 64 x 0x20, context string, 0x00, Transcript-Hash(messages before CertificateVerify).
func zzA13RefCVInput(senderIsClient bool, th []byte) []byte {
	out := make([]byte, 0, 128)
	for i := 0; i < 64; i++ {
		out = append(out, 0x20)
	}
	if senderIsClient {
		out = append(out, "TLS 1.3, client CertificateVerify"...)
	} else {
		out = append(out, "TLS 1.3, server CertificateVerify"...)
	}
	out = append(out, 0)

	return append(out, th...)
}

// zzA13CheckAccepted: the property's predicate for a DTLS 1.3 flight that was accepted.
func zzA13CheckAccepted(sc *zzA13Scenario) {
	iCert, iCV, iFin := zzA13Index(sc, zzA13Cert), zzA13Index(sc, zzA13CV), zzA13Index(sc, zzA13Fin)
	if iFin >= 0 {
		sc.verifyData = sc.payload[iFin]
	}
	if iCert >= 0 {
		sc.certs = [][]byte{sc.payload[iCert]}
		if sc.chain != nil {
			sc.certs = sc.chain
		}
	}
	if iCV >= 0 {
		sc.cvSig = sc.payload[iCV]
	}

	// Finished: verified with the SENDER's handshake traffic secret over everything before it
	zzsymAssert(iFin >= 0, "hs13_accept_needs_finished")
	zzsymAssert(zzsymAnd(zzA13.finCalls == 1, zzA13.finOK), "hs13_finished_ok")
	wantKey := sc.serverSecret
	if sc.peerIsClient {
		wantKey = sc.clientSecret
	}
	zzsymAssert(zzsymEqBytes(zzA13.finKey, wantKey), "hs13_finished_keyed_with_sender_secret")
	zzsymAssert(zzsymEqBytes(zzA13.finTH, zzA13TH(zzA13TranscriptBefore(sc, iFin))), "hs13_finished_covers_transcript")
	zzsymAssert(zzsymEqBytes(zzA13.finVD, sc.verifyData), "hs13_finished_wire_verify_data")

	present := iCert >= 0
	pol := dtlsconfig.ClientAuthType(sc.clientAuth)
	if !sc.peerIsClient {
		// (whether a server flight WITHOUT Certificate may be accepted is C03's concern; C01 only asks that the
		// reported chain is the presented one, here: empty)
		_ = present
	} else if pol == dtlsconfig.RequireAnyClientCert || pol == dtlsconfig.RequireAndVerifyClientCert {
		zzsymAssert(present, "hs13_required_client_certificate_present")
	}
	if !present {
		zzsymAssert(len(sc.state.PeerCertificates) == 0, "hs13_no_identity_reported_without_certificate")

		return
	}
	zzsymAssert(iCV > iCert && iFin > iCV, "hs13_certificate_then_verify_then_finished")
	zzsymAssert(zzsymAnd(zzA13.cvCalls == 1, zzA13.cvOK), "hs13_certificate_verify_ok")
	zzsymAssert(zzA13.finAfterCV, "hs13_finished_checked_after_certificate_verify")
	zzsymAssert(zzsymEqBytes(zzA13.cvInput, zzA13RefCVInput(sc.peerIsClient, zzA13TH(zzA13TranscriptBefore(sc, iCV)))),
		"hs13_certificate_verify_covers_transcript")
	zzsymAssert(zzA13EqCerts(zzA13.cvCerts, sc.certs), "hs13_certificate_verify_uses_presented_certificate")
	zzsymAssert(zzsymEqBytes(zzA13.cvSig, sc.cvSig), "hs13_certificate_verify_wire_signature")
	zzsymAssert(zzA13.cvHash == dtlshash.SHA256 && zzA13.cvAlg == signature.ECDSA, "hs13_certificate_verify_wire_scheme")
	zzsymAssert(zzA13EqCerts(sc.state.PeerCertificates, sc.certs), "hs13_reported_certificate_is_presented_one")

	needChain := !sc.skipVerify
	if sc.peerIsClient {
		needChain = sc.clientAuth >= int(dtlsconfig.VerifyClientCertIfGiven)
	}
	if needChain {
		zzsymAssert(zzsymAnd(zzA13.chainCalls == 1, zzA13.chainOK), "hs13_chain_verified")
		zzsymAssert(zzA13EqCerts(zzA13.chainCerts, sc.certs), "hs13_chain_of_presented_certificate")
		if sc.peerIsClient {
			zzsymAssert(!zzA13.chainServer && zzA13.chainRoots == sc.cfg.ClientCAs, "hs13_client_chain_against_client_cas")
		} else {
			zzsymAssert(zzA13.chainServer && zzA13.chainRoots == sc.cfg.RootCAs, "hs13_server_chain_against_root_cas")
			zzsymAssert(zzsymEqStr(zzA13.chainName, sc.serverName), "hs13_server_chain_for_configured_name")
		}
	}
	if sc.hasVPC {
		zzsymAssert(zzsymAnd(zzA13.vpcCalls == 1, zzA13.vpcOK), "hs13_peer_certificate_callback_ok")
		zzsymAssert(zzA13EqCerts(zzA13.vpcCerts, sc.certs), "hs13_peer_certificate_callback_sees_presented_certificate")
		if needChain {
			zzsymAssert(zzA13.vpcGotChain, "hs13_peer_certificate_callback_sees_verified_chain")
		}
	}
	if sc.hasVConn {
		zzsymAssert(zzsymAnd(zzA13.vconnCalls == 1, zzA13.vconnOK), "hs13_verify_connection_ok")
		zzsymAssert(zzA13EqCerts(zzA13.vconnCerts, sc.certs), "hs13_verify_connection_sees_presented_certificate")
	}
}

// DTLS 1.3 client: the real flight13 flight3Parse (handshake keys already installed) with the real
// VerifyAndAppendProtectedHandshakeCacheItems on every server flight that is a sub-sequence of
// EncryptedExtensions, CertificateRequest, Certificate {empty list | one arbitrary certificate},
// CertificateVerify, Finished stored at consecutive message_seq (2 x 2 x 3 x 2 x 2 shapes), arbitrary earlier
// transcript, signature bytes, verify_data, handshake traffic secrets and 3-byte server name,
// InsecureSkipVerify on/off, VerifyPeerCertificate + VerifyConnection configured or not, arbitrary verdicts of
// the signature check, chain verification, Finished check and callbacks. Proved: Flight5 (the client completes
// the handshake and sends its own Finished) is returned only if the Finished was verified OK with the server
// handshake traffic secret over the hash of the whole transcript before it; the flight contains a non-empty
// Certificate [label hs13_server_flight_without_certificate_accepted - FAILS on the unfixed tree, finding F9];
// a CertificateVerify after it was verified OK over 64 x 0x20 | "TLS 1.3, server CertificateVerify" | 00 |
// Hash(transcript up to Certificate) with the presented certificate; the chain was verified against
// cfg.RootCAs for cfg.ServerName unless InsecureSkipVerify; the callbacks returned OK; and
// state.PeerCertificates is the presented list.
//
//symgo:entry covers=accepted_authenticated,accepted_skip_verify,rejected_empty_certificate,rejected_bad_signature,rejected_bad_chain,rejected_bad_finished,rejected_callback,rejected_certificate_without_verify,rejected_verify_without_certificate,incomplete_flight,accepted_with_certificate_request
func zzPeerChain13ServerFlight() {
	skipVerify := zzsymChoice("skip_verify", 2) == 1
	callbacks := zzsymChoice("callbacks", 2) == 1
	sc := zzA13Build(false, skipVerify, callbacks)
	if zzsymChoice("ee", 2) == 1 {
		zzA13Push(sc, zzA13EE)
	}
	if zzsymChoice("cr", 2) == 1 {
		zzA13Push(sc, zzA13CR)
	}
	switch zzsymChoice("cert", 3) {
	case 1:
		zzA13Push(sc, zzA13CertEmpty)
	case 2:
		zzA13Push(sc, zzA13Cert)
	}
	if zzsymChoice("cv", 2) == 1 {
		zzA13Push(sc, zzA13CV)
	}
	if zzsymChoice("fin", 2) == 1 {
		zzA13Push(sc, zzA13Fin)
	}
	zzHs13Judge(sc)
}

func zzHs13Judge(sc *zzA13Scenario) {
	accepted := zzA13Run(sc)
	hasCert, hasEmpty := zzA13Index(sc, zzA13Cert) >= 0, zzA13Index(sc, zzA13CertEmpty) >= 0
	hasCV, hasFin := zzA13Index(sc, zzA13CV) >= 0, zzA13Index(sc, zzA13Fin) >= 0
	if accepted {
		zzA13CheckAccepted(sc)
		switch {
		case !hasCert:
			zzsymCover("accepted_without_certificate")
		case sc.skipVerify && !sc.peerIsClient:
			zzsymCover("accepted_skip_verify")
		default:
			zzsymCover("accepted_authenticated")
		}
		if zzA13Index(sc, zzA13CR) >= 0 {
			zzsymCover("accepted_with_certificate_request")
		}

		return
	}
	pol := dtlsconfig.ClientAuthType(sc.clientAuth)
	switch {
	case !hasFin:
		zzsymCover("incomplete_flight")
	case zzA13.cvCalls > 0 && !zzA13.cvOK:
		zzsymCover("rejected_bad_signature")
	case zzA13.chainCalls > 0 && !zzA13.chainOK:
		zzsymCover("rejected_bad_chain")
	case zzA13.vpcCalls > 0 && !zzA13.vpcOK, zzA13.vconnCalls > 0 && !zzA13.vconnOK:
		zzsymCover("rejected_callback")
	case zzA13.finCalls > 0 && !zzA13.finOK:
		zzsymCover("rejected_bad_finished")
	case hasEmpty && !sc.peerIsClient:
		zzsymCover("rejected_empty_certificate")
	case hasCert && !hasCV:
		zzsymCover("rejected_certificate_without_verify")
	case hasCV && !hasCert:
		zzsymCover("rejected_verify_without_certificate")
	case sc.peerIsClient && !hasCert && (pol == dtlsconfig.RequireAnyClientCert || pol == dtlsconfig.RequireAndVerifyClientCert):
		zzsymCover("rejected_required_missing")
	}
}

// DTLS 1.3 server: the real flight13 flight4Parse + VerifyAndAppendProtectedHandshakeCacheItems on every client
// flight that is a sub-sequence of Certificate {empty | one arbitrary certificate}, CertificateVerify, Finished,
// for EVERY value of cfg.ClientAuth (symbolic int), callbacks configured or not, arbitrary verdicts. Proved:
// Flight4 (handshake complete) is returned only if the client's Finished verified OK with the client handshake
// traffic secret over the whole transcript; under RequireAnyClientCert / RequireAndVerifyClientCert a non-empty
// Certificate was presented; whenever one was presented, CertificateVerify verified OK over 64 x 0x20 |
// "TLS 1.3, client CertificateVerify" | 00 | Hash(transcript up to Certificate) with that certificate and, under
// VerifyClientCertIfGiven / RequireAndVerifyClientCert, the chain verified against cfg.ClientCAs; callbacks OK;
// state.PeerCertificates is the presented list (empty when none was presented).
//
//symgo:entry covers=accepted_authenticated,accepted_without_certificate,rejected_required_missing,rejected_bad_signature,rejected_bad_chain,rejected_bad_finished,rejected_callback,rejected_certificate_without_verify,rejected_verify_without_certificate,incomplete_flight
func zzPeerChain13ClientFlight() {
	callbacks := zzsymChoice("callbacks", 2) == 1
	sc := zzA13Build(true, zzsymChoice("server_sets_insecure_skip_verify", 2) == 1, callbacks) // InsecureSkipVerify is a client option: it must not switch off a server's ClientCAs check
	switch zzsymChoice("cert", 3) {
	case 1:
		zzA13Push(sc, zzA13CertEmpty)
	case 2:
		zzA13Push(sc, zzA13Cert)
	}
	if zzsymChoice("cv", 2) == 1 {
		zzA13Push(sc, zzA13CV)
	}
	if zzsymChoice("fin", 2) == 1 {
		zzA13Push(sc, zzA13Fin)
	}
	zzHs13Judge(sc)
}

// Both DTLS 1.3 roles, certificate chains whose total size crosses 2^16 bytes (round 9 left this outside the
// bounds; seed C01h-2): the flight EncryptedExtensions (server only), Certificate, CertificateVerify, Finished
// where the certificate_list has 2 or 3 entries - a leaf of 239 / 240 bytes (Certificate body of 255 / 256 bytes:
// the one-byte boundary of the message length) or of 65533, 65534 or 70000 bytes (fixed filler, one arbitrary
// byte in the middle) followed by one or two arbitrary 2-byte certificates, so the running total is 65535, 65536
// or beyond after the second entry -, every verification succeeding or not. Same predicate as the
// small entries; the part that matters here: state.PeerCertificates and the lists handed to CertificateVerify,
// the chain check and the callbacks are the WHOLE presented list. The transcript hash of inputs above 4 KiB is
// abstracted (zzA13TH), so transcript coverage is not claimed by this entry.
//
//symgo:entry covers=big_chain_accepted_client_view,big_chain_accepted_server_view,big_chain_rejected
func zzPeerChain13BigChain() {
	peerIsClient := zzsymChoice("peer_is_client", 2) == 1
	sc := zzA13Build(peerIsClient, false, zzsymChoice("callbacks", 2) == 1)
	leafLen := []int{239, 240, 65533, 65534, 70000}[zzsymChoice("leaf_len", 5)]
	leaf := make([]byte, leafLen)
	for i := range leaf {
		leaf[i] = byte(i*7 + 1)
	}
	leaf[leafLen/2] = zzsymU8("leaf_mark")
	certs := [][]byte{leaf, zzsymBytes("intermediate", 2)}
	if zzsymChoice("entries", 2) == 1 {
		certs = append(certs, zzsymBytes("root", 2))
	}
	if !peerIsClient {
		zzA13Push(sc, zzA13EE)
	}
	zzA13PushChain(sc, certs)
	zzA13Push(sc, zzA13CV)
	zzA13Push(sc, zzA13Fin)
	if !zzA13Run(sc) {
		zzsymCover("big_chain_rejected")

		return
	}
	zzA13CheckAccepted(sc)
	if peerIsClient {
		zzsymCover("big_chain_accepted_server_view")
	} else {
		zzsymCover("big_chain_accepted_client_view")
	}
}

// Both DTLS 1.3 roles, EVERY sequence of 1..HSSEQ messages (quick 4, thorough 5) drawn with repetition from
// {EncryptedExtensions, CertificateRequest, Certificate(empty), Certificate(one certificate), CertificateVerify,
// Finished} stored at consecutive message_seq at epoch 2, in any order: the real flight parser (PullSequential
// with the flight's rule list, then VerifyAndAppendProtectedHandshakeCacheItems) decides. Same predicate as
// zzHs13ServerFlight / zzHs13ClientFlight, in particular: no order, omission or repetition of messages lets a
// flight be accepted whose reported certificate was not the one CertificateVerify and the chain check were
// run on, or whose Finished was checked before CertificateVerify. Chain verification on, no callbacks.
//
func zzHs13AnySequence() {
	peerIsClient := zzsymChoice("peer_is_client", 2) == 1
	sc := zzA13Build(peerIsClient, false, false)
	n := 1 + zzsymChoice("length", zzsymParam("HSSEQ"))
	for i := 0; i < n; i++ {
		zzA13Push(sc, zzsymChoice("kind", 6))
	}
	// the oracle looks at the flight = the messages up to the first Finished; whatever follows stays unread
	accepted := zzA13Run(sc)
	if !accepted {
		zzsymCover("rejected")

		return
	}
	zzA13CheckAccepted(sc)
	if peerIsClient {
		zzsymCover("accepted_client_flight")
	} else {
		zzsymCover("accepted_server_flight")
	}
}

// zzA13Item builds one decoded cache item the way pullProtectedHandshakeFlight does (raw cache entry + the
// message decoded from its body), for calling VerifyAndAppendProtectedHandshakeCacheItems directly.
func zzA13Item(sc *zzA13Scenario, kind int) dtlsflight.DecodedHandshakeCacheItem {
	typ, body, payload := zzA13Body(kind)
	seq := sc.state.HandshakeRecvSequence + len(sc.kinds)
	n := len(body)
	raw := append([]byte{byte(typ), 0, 0, byte(n), byte(seq >> 8), byte(seq), 0, 0, 0, 0, 0, byte(n)}, body...)
	var msg handshake.Message
	switch typ {
	case handshake.TypeEncryptedExtensions:
		msg = &handshake.MessageEncryptedExtensions{}
	case handshake.TypeCertificate:
		msg = &handshake.MessageCertificate13{}
	case handshake.TypeCertificateVerify:
		msg = &handshake.MessageCertificateVerify{}
	default:
		msg = &handshake.MessageFinished{}
	}
	zzsymAssert(msg.Unmarshal(body) == nil, "harness_decode")
	var hdr handshake.Header
	zzsymAssert(hdr.Unmarshal(raw) == nil, "harness_header")
	sc.kinds = append(sc.kinds, kind)
	sc.payload = append(sc.payload, payload)

	return dtlsflight.DecodedHandshakeCacheItem{
		Raw: &dtlsflight.HandshakeCacheItem{
			Typ: typ, IsClient: sc.peerIsClient, Epoch: dtlsflight13.EpochHandshake, MessageSequence: uint16(seq), Data: raw,
		},
		Parsed: &handshake.Handshake{Header: hdr, Message: msg},
	}
}

// REMARK, not a property check (no assertion about the library; only reachability witnesses): called directly,
// i.e. without the flight parser's PullSequential in front, VerifyAndAppendProtectedHandshakeCacheItems accepts
// the server item lists (a) EncryptedExtensions, Certificate(A), CertificateVerify, Certificate(B), Finished and
// (b) EncryptedExtensions, Certificate(A), CertificateVerify, Finished, Certificate(B) with all verifications
// succeeding for A, and reports B - a certificate no check was run on - in state.PeerCertificates. The
// function's protection against certificate substitution is therefore the caller's rule list (one message per
// type, Finished last), which zzHs13AnySequence exercises: there every cache sequence containing two
// Certificate messages or anything between CertificateVerify and Finished is rejected by the real parser.
//
func zzHs13ProcessOrderRemark() {
	sc := zzA13Build(false, false, false)
	late := zzsymChoice("second_certificate_after_finished", 2) == 1
	items := []dtlsflight.DecodedHandshakeCacheItem{
		zzA13Item(sc, zzA13EE), zzA13Item(sc, zzA13Cert), zzA13Item(sc, zzA13CV),
	}
	if late {
		items = append(items, zzA13Item(sc, zzA13Fin), zzA13Item(sc, zzA13Cert))
	} else {
		items = append(items, zzA13Item(sc, zzA13Cert), zzA13Item(sc, zzA13Fin))
	}
	certA, certB := sc.payload[1], sc.payload[3]
	if late {
		certB = sc.payload[4]
	}
	err := VerifyAndAppendProtectedHandshakeCacheItems(sc.hctx.transcript, sc.state, sc.cfg, zzA13Suite{}, items)
	if err != nil {
		return
	}
	reportedB := len(sc.state.PeerCertificates) == 1 && zzsymEqBytes(sc.state.PeerCertificates[0], certB)
	verifiedA := len(zzA13.cvCerts) == 1 && zzsymEqBytes(zzA13.cvCerts[0], certA) && zzA13.cvCalls == 1
	if reportedB && verifiedA && !zzsymEqBytes(certA, certB) {
		if late {
			zzsymCover("process_alone_accepts_substitution_after_finished")
		} else {
			zzsymCover("process_alone_accepts_substitution_before_finished")
		}
	}
}
