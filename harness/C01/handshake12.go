package flight12

//symgo:pkg github.com/pion/dtls/v3/internal/flight/flight12
//symgo:param HSVARY quick=1 thorough=2
//symgo:param HSAUTH quick=3 thorough=3
//symgo:param HSSUITE quick=3 thorough=5
//symgo:param HSEMS quick=2 thorough=3
//symgo:param HSSRTP quick=2 thorough=3
//symgo:param HSALPN quick=2 thorough=3
//symgo:param HSCID quick=3 thorough=4
//symgo:param HSHVR quick=2 thorough=2
//symgo:replace github.com/pion/dtls/v3/pkg/crypto/elliptic.GenerateKeypair zzHsGenerateKeypair
//symgo:replace github.com/pion/dtls/v3/pkg/crypto/prf.PreMasterSecret zzHsPreMasterSecret
//symgo:replace github.com/pion/dtls/v3/pkg/crypto/prf.PHash zzHsPHash
//symgo:replace github.com/pion/dtls/v3/internal/handshakecrypto.VerifyKeySignature zzHsVerifyKeySignature
//symgo:replace github.com/pion/dtls/v3/internal/handshakecrypto.VerifyServerCert zzHsVerifyServerCert
//symgo:replace github.com/pion/dtls/v3/internal/handshakecrypto.VerifyCertificateVerify zzHsVerifyCertificateVerify
//symgo:replace github.com/pion/dtls/v3/internal/handshakecrypto.VerifyClientCert zzHsVerifyClientCert
//symgo:replace github.com/pion/dtls/v3/pkg/crypto/ciphersuite.NewGCM zzHsNewGCM
//symgo:replace github.com/pion/dtls/v3/pkg/crypto/ciphersuite.NewCCM zzHsNewCCM
//symgo:replace github.com/pion/dtls/v3/pkg/crypto/ciphersuite.NewCBC zzHsNewCBC
//symgo:replace github.com/pion/dtls/v3/pkg/crypto/ciphersuite.NewChaCha20Poly1305 zzHsNewChaCha
//symgo:replace crypto/sha256.New zzHsSHA256
//symgo:replace crypto/sha512.New384 zzHsSHA384
//symgo:replace crypto/rand.Read zzHsRandRead
//symgo:stub elliptic.GenerateKeypair: toy group - the private key is 2 fresh symbolic bytes and the public key is a copy of it; prf.PreMasterSecret(pub, priv) is the uninterpreted function DH(pub XOR priv, pub AND priv), which is symmetric in the two key pairs exactly like Diffie-Hellman (DH(pubA,privB) = DH(pubB,privA)) and different for other pairings as far as the solver can tell; every call is logged
//symgo:stub prf.PHash is the uninterpreted function P_<hash>_<length>(secret, seed) and logs its requests; hash constructors are name-carrying fakes whose Sum is an uninterpreted function of the written bytes (session hash)
//symgo:stub signing: the server / client certificate private key is a harness crypto.Signer with an Ed25519 public key type whose Sign returns the uninterpreted function SIG(message); VerifyKeySignature, VerifyServerCert, VerifyCertificateVerify, VerifyClientCert are recorders that accept (certificate and signature validity is not part of C01)
//symgo:stub record-protection constructors are recorders (see keyblock.go); crypto/rand.Read hands out fresh symbolic bytes
//symgo:stub transport: zzHsSend stamps message_seq from HandshakeSendSequence, marshals each handshake message with the real Handshake.Marshal and pushes the bytes into both handshake caches - in-order, loss-free, unfragmented delivery
//symgo:outside delivery schedules (loss, duplication, reordering, fragmentation, MTU), session-store histories, the Finished exchange (flight5Parse / flight6), certificate chain validation, real cryptography

import (
	"context"
	"crypto"
	"crypto/ed25519"
	"crypto/tls"
	"crypto/x509"
	"hash"
	"io"

	"github.com/pion/dtls/v3/internal/ciphersuite"
	dtlsconfig "github.com/pion/dtls/v3/internal/config"
	dtlsflight "github.com/pion/dtls/v3/internal/flight"
	dtlsstate "github.com/pion/dtls/v3/internal/state"
	cryptosuite "github.com/pion/dtls/v3/pkg/crypto/ciphersuite"
	"github.com/pion/dtls/v3/pkg/crypto/elliptic"
	dtlshash "github.com/pion/dtls/v3/pkg/crypto/hash"
	"github.com/pion/dtls/v3/pkg/crypto/prf"
	"github.com/pion/dtls/v3/pkg/crypto/signature"
	"github.com/pion/dtls/v3/pkg/crypto/signaturehash"
	"github.com/pion/dtls/v3/pkg/protocol"
	"github.com/pion/dtls/v3/pkg/protocol/extension"
	"github.com/pion/dtls/v3/pkg/protocol/handshake"
)

// ---------------------------------------------------------------------------------------------
// stubs and fakes

type zzHsLog struct{}

func (zzHsLog) Trace(string)          {}
func (zzHsLog) Tracef(string, ...any) {}
func (zzHsLog) Debug(string)          {}
func (zzHsLog) Debugf(string, ...any) {}
func (zzHsLog) Info(string)           {}
func (zzHsLog) Infof(string, ...any)  {}
func (zzHsLog) Warn(string)           {}
func (zzHsLog) Warnf(string, ...any)  {}
func (zzHsLog) Error(string)          {}
func (zzHsLog) Errorf(string, ...any) {}

type zzHsConn struct{ queued int }

func (c *zzHsConn) HandleQueuedPackets(context.Context) error { c.queued++; return nil }
func (c *zzHsConn) SessionKey() []byte                        { return []byte("zzkey") }

type zzHsHash struct {
	name string
	size int
	buf  []byte
}

func (h *zzHsHash) Write(p []byte) (int, error) { h.buf = append(h.buf, p...); return len(p), nil }
func (h *zzHsHash) Sum(b []byte) []byte {
	zzHsHashInputs = append(zzHsHashInputs, append([]byte{}, h.buf...))
	return append(b, zzsymUF("hash_"+h.name, h.size, h.buf)...)
}
func (h *zzHsHash) Reset()         { h.buf = nil }
func (h *zzHsHash) Size() int      { return h.size }
func (h *zzHsHash) BlockSize() int { return 64 }

func zzHsSHA256() hash.Hash { return &zzHsHash{name: "sha256", size: 32} }
func zzHsSHA384() hash.Hash { return &zzHsHash{name: "sha384", size: 48} }

func zzHsHashName(h func() hash.Hash) string {
	if h == nil {
		return ""
	}
	f, ok := h().(*zzHsHash)
	if !ok {
		return "?"
	}
	return f.name
}

func zzHsItoa(n int) string {
	if n == 0 {
		return "0"
	}
	s := ""
	for n > 0 {
		s = string(rune('0'+n%10)) + s
		n /= 10
	}
	return s
}

type zzHsPRFCall struct {
	secret, seed []byte
	length       int
	hash         string
}

type zzHsDHCall struct {
	pub, priv []byte
	curve     elliptic.Curve
}

type zzHsCipher struct {
	alg                         string
	localKey, localIV, localMAC []byte
	remoteKey, remoteIV, remoteMAC []byte
}

type zzHsSigCheck struct {
	message, sig []byte
	certs        [][]byte
}

// zzHsWireMsg is one handshake message as it crossed the wire (12-byte handshake header + body).
type zzHsWireMsg struct {
	typ        handshake.Type
	fromClient bool
	raw        []byte
}

var (
	zzHsWire       []zzHsWireMsg
	zzHsHashInputs [][]byte
	zzHsPRFLog     []zzHsPRFCall
	zzHsDHLog      []zzHsDHCall
	zzHsCipherLog  []zzHsCipher
	zzHsKeySigLog  []zzHsSigCheck
	zzHsCertVerLog []zzHsSigCheck
	zzHsKeypairs   int
)

func zzHsReset() {
	zzHsHashInputs, zzHsPRFLog, zzHsDHLog, zzHsCipherLog, zzHsKeySigLog, zzHsCertVerLog = nil, nil, nil, nil, nil, nil
	zzHsKeypairs = 0
	zzHsWire = nil
}

func zzHsClone(b []byte) []byte { return append([]byte{}, b...) }

func zzHsRandRead(b []byte) (int, error) {
	copy(b, zzsymBytes("rand", len(b)))
	return len(b), nil
}

func zzHsGenerateKeypair(c elliptic.Curve) (*elliptic.Keypair, error) {
	zzHsKeypairs++
	k := zzsymBytes("ecdh_private", 2)
	return &elliptic.Keypair{Curve: c, PublicKey: zzHsClone(k), PrivateKey: zzHsClone(k)}, nil
}

func zzHsPreMasterSecret(publicKey, privateKey []byte, curve elliptic.Curve) ([]byte, error) {
	zzHsDHLog = append(zzHsDHLog, zzHsDHCall{pub: zzHsClone(publicKey), priv: zzHsClone(privateKey), curve: curve})
	if len(publicKey) != 2 || len(privateKey) != 2 {
		return nil, io.ErrUnexpectedEOF
	}
	x := []byte{publicKey[0] ^ privateKey[0], publicKey[1] ^ privateKey[1]}
	a := []byte{publicKey[0] & privateKey[0], publicKey[1] & privateKey[1]}
	return zzsymUF("DH_"+zzHsItoa(int(curve)), 4, x, a), nil
}

func zzHsPHash(secret, seed []byte, requestedLength int, hashFunc prf.HashFunc) ([]byte, error) {
	name := zzHsHashName(hashFunc)
	zzHsPRFLog = append(zzHsPRFLog, zzHsPRFCall{secret: zzHsClone(secret), seed: zzHsClone(seed), length: requestedLength, hash: name})
	return zzsymUF("P_"+name+"_"+zzHsItoa(requestedLength), requestedLength, secret, seed), nil
}

func zzHsVerifyKeySignature(message, sig []byte, h dtlshash.Algorithm, s signature.Algorithm, rawCertificates [][]byte) error {
	zzHsKeySigLog = append(zzHsKeySigLog, zzHsSigCheck{message: zzHsClone(message), sig: zzHsClone(sig), certs: rawCertificates})
	return nil
}

// zzHsBuiltPath is what X.509 path building returns: a chain that is NOT the presented list (the trust anchor from
// the pool is appended, certificates the path did not need are gone). The endpoint's view of the peer chain must
// stay the presented one.
func zzHsBuiltPath() [][]*x509.Certificate {
	return [][]*x509.Certificate{{{Raw: []byte{0xee, 0x01}}, {Raw: []byte{0xee, 0x02}}}}
}

func zzHsVerifyServerCert(rawCertificates [][]byte, roots *x509.CertPool, serverName string, algs []signaturehash.Algorithm) ([][]*x509.Certificate, error) {
	return zzHsBuiltPath(), nil
}

func zzHsVerifyCertificateVerify(bodies []byte, h dtlshash.Algorithm, s signature.Algorithm, sig []byte, rawCertificates [][]byte) error {
	zzHsCertVerLog = append(zzHsCertVerLog, zzHsSigCheck{message: zzHsClone(bodies), sig: zzHsClone(sig), certs: rawCertificates})
	return nil
}

func zzHsVerifyClientCert(rawCertificates [][]byte, roots *x509.CertPool, algs []signaturehash.Algorithm) ([][]*x509.Certificate, error) {
	return zzHsBuiltPath(), nil
}

func zzHsNewGCM(localKey, localWriteIV, remoteKey, remoteWriteIV []byte) (*cryptosuite.GCM, error) {
	zzHsCipherLog = append(zzHsCipherLog, zzHsCipher{alg: "gcm", localKey: zzHsClone(localKey), localIV: zzHsClone(localWriteIV),
		remoteKey: zzHsClone(remoteKey), remoteIV: zzHsClone(remoteWriteIV)})
	return &cryptosuite.GCM{}, nil
}

func zzHsNewCCM(tagLen cryptosuite.CCMTagLen, localKey, localWriteIV, remoteKey, remoteWriteIV []byte) (*cryptosuite.CCM, error) {
	zzHsCipherLog = append(zzHsCipherLog, zzHsCipher{alg: "ccm", localKey: zzHsClone(localKey), localIV: zzHsClone(localWriteIV),
		remoteKey: zzHsClone(remoteKey), remoteIV: zzHsClone(remoteWriteIV)})
	return &cryptosuite.CCM{}, nil
}

func zzHsNewChaCha(localKey, localWriteIV, remoteKey, remoteWriteIV []byte) (*cryptosuite.ChaCha20Poly1305, error) {
	zzHsCipherLog = append(zzHsCipherLog, zzHsCipher{alg: "chacha", localKey: zzHsClone(localKey), localIV: zzHsClone(localWriteIV),
		remoteKey: zzHsClone(remoteKey), remoteIV: zzHsClone(remoteWriteIV)})
	return &cryptosuite.ChaCha20Poly1305{}, nil
}

func zzHsNewCBC(localKey, localWriteIV, localMac, remoteKey, remoteWriteIV, remoteMac []byte, hashFunc prf.HashFunc) (*cryptosuite.CBC, error) {
	zzHsCipherLog = append(zzHsCipherLog, zzHsCipher{alg: "cbc", localKey: zzHsClone(localKey), localIV: zzHsClone(localWriteIV), localMAC: zzHsClone(localMac),
		remoteKey: zzHsClone(remoteKey), remoteIV: zzHsClone(remoteWriteIV), remoteMAC: zzHsClone(remoteMac)})
	return &cryptosuite.CBC{}, nil
}

// zzHsSigner is the certificate private key: Ed25519 public key type (so that the real GenerateKeySignature /
// GenerateCertificateVerify take their Ed25519 branch and hand the whole message to Sign), uninterpreted signature.
type zzHsSigner struct{ name string }

func (s zzHsSigner) Public() crypto.PublicKey { return ed25519.PublicKey(make([]byte, 32)) }
func (s zzHsSigner) Sign(_ io.Reader, msg []byte, _ crypto.SignerOpts) ([]byte, error) {
	return zzsymUF("SIG_"+s.name, 4, msg), nil
}

// ---------------------------------------------------------------------------------------------
// two endpoints and the transport between them

type zzHsPeer struct {
	isClient bool
	state    *dtlsstate.State12
	cache    *dtlsflight.Cache
	cfg      *dtlsconfig.HandshakeConfig
	conn     *zzHsConn
}

func zzHsNewPeer(isClient bool, cfg *dtlsconfig.HandshakeConfig) *zzHsPeer {
	st := dtlsstate.NewState12(isClient)
	return &zzHsPeer{isClient: isClient, state: &st, cache: dtlsflight.NewCache(), cfg: cfg, conn: &zzHsConn{}}
}

// zzHsSend models Conn.writePackets + the peer's readAndBuffer for an in-order, loss-free, unfragmented
// transport: message_seq is stamped from HandshakeSendSequence (Conn.stampHandshakeSequence), each handshake
// message is marshalled by the real codec and the bytes are pushed into the sender's and the receiver's cache.
func zzHsSend(from, to *zzHsPeer, pkts []*dtlsflight.Packet) {
	for _, p := range pkts {
		h, ok := p.Record.Content.(*handshake.Handshake)
		if !ok {
			continue // ChangeCipherSpec
		}
		h.Header.MessageSequence = uint16(from.state.HandshakeSendSequence)
		from.state.HandshakeSendSequence++
		raw, err := h.Marshal()
		zzsymAssert(err == nil, "hs/message_marshals")
		zzHsWire = append(zzHsWire, zzHsWireMsg{typ: h.Header.Type, fromClient: from.isClient, raw: zzHsClone(raw)})
		from.cache.Push(raw, p.Record.Header.Epoch, h.Header.MessageSequence, h.Header.Type, from.isClient)
		to.cache.Push(raw, p.Record.Header.Epoch, h.Header.MessageSequence, h.Header.Type, from.isClient)
	}
}

func zzHsEd25519() []signaturehash.Algorithm {
	return []signaturehash.Algorithm{{Hash: dtlshash.Ed25519, Signature: signature.Ed25519}}
}

// zzHsSuiteMenu: cipher suites per authentication mode (0 certificate, 1 PSK, 2 ECDHE-PSK). Each call returns
// fresh instances, as every Conn gets its own from the configuration.
func zzHsSuites(auth int, pick int) []dtlsconfig.CipherSuite {
	var menu [][]ciphersuite.ID
	switch auth {
	case 0:
		menu = [][]ciphersuite.ID{
			{ciphersuite.TLS_ECDHE_ECDSA_WITH_AES_128_GCM_SHA256},
			{ciphersuite.TLS_ECDHE_ECDSA_WITH_AES_256_GCM_SHA384, ciphersuite.TLS_ECDHE_ECDSA_WITH_AES_128_GCM_SHA256},
			{ciphersuite.TLS_ECDHE_ECDSA_WITH_AES_128_CCM, ciphersuite.TLS_ECDHE_ECDSA_WITH_AES_256_GCM_SHA384},
			{ciphersuite.TLS_ECDHE_ECDSA_WITH_AES_256_CBC_SHA},
			{ciphersuite.TLS_AES_128_GCM_SHA256, ciphersuite.TLS_ECDHE_ECDSA_WITH_AES_128_GCM_SHA256}, // a DTLS 1.3-only suite first
		}
	case 1:
		menu = [][]ciphersuite.ID{
			{ciphersuite.TLS_PSK_WITH_AES_128_GCM_SHA256},
			{ciphersuite.TLS_PSK_WITH_CHACHA20_POLY1305_SHA256, ciphersuite.TLS_PSK_WITH_AES_128_GCM_SHA256},
			{ciphersuite.TLS_PSK_WITH_AES_128_CCM_8, ciphersuite.TLS_PSK_WITH_CHACHA20_POLY1305_SHA256},
			{ciphersuite.TLS_PSK_WITH_AES_128_CBC_SHA256},
			{ciphersuite.TLS_AES_128_GCM_SHA256, ciphersuite.TLS_PSK_WITH_AES_128_GCM_SHA256},
		}
	default:
		menu = [][]ciphersuite.ID{
			{ciphersuite.TLS_ECDHE_PSK_WITH_AES_128_CBC_SHA256},
			{ciphersuite.TLS_ECDHE_PSK_WITH_AES_128_CBC_SHA256, ciphersuite.TLS_PSK_WITH_AES_128_GCM_SHA256},
			{ciphersuite.TLS_PSK_WITH_AES_128_GCM_SHA256, ciphersuite.TLS_ECDHE_PSK_WITH_AES_128_CBC_SHA256},
			{ciphersuite.TLS_PSK_WITH_AES_128_CCM},
			{ciphersuite.TLS_AES_128_GCM_SHA256, ciphersuite.TLS_ECDHE_PSK_WITH_AES_128_CBC_SHA256},
		}
	}
	out := []dtlsconfig.CipherSuite{}
	for _, id := range menu[pick] {
		out = append(out, ciphersuite.ForID(id, nil))
	}
	return out
}

func zzHsHasSuite(list []dtlsconfig.CipherSuite, id ciphersuite.ID) bool {
	for _, s := range list {
		if s.ID() == id {
			return true
		}
	}
	return false
}

func zzHsEMS(i int) dtlsconfig.ExtendedMasterSecretType {
	return []dtlsconfig.ExtendedMasterSecretType{
		dtlsconfig.RequestExtendedMasterSecret, dtlsconfig.DisableExtendedMasterSecret, dtlsconfig.RequireExtendedMasterSecret,
	}[i]
}

func zzHsProfiles(name string, n int) []extension.SRTPProtectionProfile {
	out := []extension.SRTPProtectionProfile{}
	for i := 0; i < n; i++ {
		out = append(out, extension.SRTPProtectionProfile(zzsymU16(name)))
	}
	return out
}

func zzHsProfileIn(list []extension.SRTPProtectionProfile, p extension.SRTPProtectionProfile) bool {
	in := false
	for _, x := range list {
		in = zzsymOr(in, x == p)
	}
	return in
}

func zzHsProtocols(name string, n int) []string {
	out := []string{}
	for i := 0; i < n; i++ {
		out = append(out, zzsymString(name, 1))
	}
	return out
}

func zzHsStringIn(list []string, p string) bool {
	in := false
	for _, x := range list {
		in = zzsymOr(in, zzsymEqStr(x, p))
	}
	return in
}

// zzHsCIDGen: 0 no generator, 1 generator of 2 symbolic bytes, 2 generator of empty CIDs.
func zzHsCIDGen(name string, mode int) func() []byte {
	switch mode {
	case 1:
		cid := zzsymBytes(name, 2)
		return func() []byte { return zzHsClone(cid) }
	case 2:
		return func() []byte { return nil } // what the library's own OnlySendCIDGenerator() returns
	case 3:
		return func() []byte { return []byte{} }
	}
	return nil
}

// zzHsWorld is one configured client/server pair.
type zzHsWorld struct {
	client, server           *zzHsPeer
	auth                     int
	serverChain              [][]byte
	clientChain              [][]byte
	psk                      []byte
	clientProfiles, serverProfiles []extension.SRTPProtectionProfile
	clientALPN, serverALPN   []string
	clientCIDMode, serverCIDMode int
	hvr                      bool
	abort                    string // which step ended the handshake: "", "server_hello", "server_flight4", "client_flight3"
	clientAuth               dtlsconfig.ClientAuthType
}

// zzHsFocus, zzHsFocus2 are the configuration dimensions that vary on this path (HSVARY=1: one dimension,
// HSVARY=2: every unordered pair of dimensions); all other dimensions keep a default in which every feature
// is configured on both sides. The full product of all dimensions (millions of configurations) is not run.
var zzHsFocus, zzHsFocus2 int

func zzHsPickFocus() {
	if zzsymParam("HSVARY") <= 1 {
		zzHsFocus = zzsymChoice("focus_dimension", zzDimCount)
		zzHsFocus2 = zzHsFocus
		return
	}
	k := zzsymChoice("focus_pair", zzDimCount*(zzDimCount+1)/2)
	for i := 0; i < zzDimCount; i++ {
		for j := i; j < zzDimCount; j++ {
			if k == 0 {
				zzHsFocus, zzHsFocus2 = i, j
			}
			k--
		}
	}
}

// zzHsDim returns a configuration choice 0..n-1 for dimension dim: enumerated when dim is a focused
// dimension, otherwise the default value dflt.
func zzHsDim(name string, dim, n, dflt int) int {
	if zzHsFocus == dim || zzHsFocus2 == dim {
		return zzsymChoice(name, n)
	}
	if dflt >= n {
		return n - 1
	}
	return dflt
}

const (
	zzDimSuite = iota
	zzDimEMS
	zzDimSRTP
	zzDimALPN
	zzDimCID
	zzDimAuth
	zzDimCount
)

// zzHsConfigure builds both configurations from zzsymChoice / symbolic values within the tier bounds.
func zzHsConfigure() *zzHsWorld {
	zzHsPickFocus()
	return zzHsConfigureFocused(zzsymParam("HSSUITE"))
}

// zzHsConfigureFocused builds the configurations for the focus already stored in zzHsFocus / zzHsFocus2.
func zzHsConfigureFocused(nSuiteMenus int) *zzHsWorld {
	w := &zzHsWorld{}
	w.auth = zzHsDim("auth_mode", zzDimAuth, zzsymParam("HSAUTH"), 0)
	cs := zzHsSuites(w.auth, zzHsDim("client_suites", zzDimSuite, nSuiteMenus, 1))
	ss := zzHsSuites(w.auth, zzHsDim("server_suites", zzDimSuite, nSuiteMenus, 2))
	nems := zzsymParam("HSEMS")
	w.clientProfiles = zzHsProfiles("client_srtp_profile", zzHsDim("client_nsrtp", zzDimSRTP, zzsymParam("HSSRTP"), 1))
	w.serverProfiles = zzHsProfiles("server_srtp_profile", zzHsDim("server_nsrtp", zzDimSRTP, zzsymParam("HSSRTP"), 1))
	w.clientALPN = zzHsProtocols("client_alpn", zzHsDim("client_nalpn", zzDimALPN, zzsymParam("HSALPN"), 1))
	w.serverALPN = zzHsProtocols("server_alpn", zzHsDim("server_nalpn", zzDimALPN, zzsymParam("HSALPN"), 1))
	w.clientCIDMode = zzHsDim("client_cid_mode", zzDimCID, zzsymParam("HSCID"), 1)
	w.serverCIDMode = zzHsDim("server_cid_mode", zzDimCID, zzsymParam("HSCID"), 1)
	w.hvr = zzHsDim("hello_verify", zzDimAuth, zzsymParam("HSHVR"), 0) == 1
	w.serverChain = [][]byte{zzsymBytes("server_cert", 3)}
	w.clientChain = [][]byte{zzsymBytes("client_cert", 2)}
	// leaf only, leaf + 1 issuer, or a chain of 12 entries: every presented entry reaches the peer's view
	for i := []int{0, 1, 11}[zzHsDim("chain_issuers", zzDimAuth, 3, 0)]; i > 0; i-- {
		w.serverChain = append(w.serverChain, zzsymBytes("server_issuer", 2))
		w.clientChain = append(w.clientChain, zzsymBytes("client_issuer", 2))
	}
	w.psk = zzsymBytes("psk", 2)

	ccfg := &dtlsconfig.HandshakeConfig{
		LocalCipherSuites:            cs,
		LocalSignatureSchemes:        zzHsEd25519(),
		ExtendedMasterSecret:         zzHsEMS(zzHsDim("client_ems", zzDimEMS, nems, 0)),
		LocalSRTPProtectionProfiles:  w.clientProfiles,
		LocalSRTPMasterKeyIdentifier: zzsymBytes("client_mki", 1),
		SupportedProtocols:           w.clientALPN,
		EllipticCurves:               []elliptic.Curve{elliptic.X25519, elliptic.P256},
		ConnectionIDGenerator:        zzHsCIDGen("client_cid", w.clientCIDMode),
		Log:                          zzHsLog{},
	}
	scfg := &dtlsconfig.HandshakeConfig{
		LocalCipherSuites:            ss,
		LocalSignatureSchemes:        zzHsEd25519(),
		ExtendedMasterSecret:         zzHsEMS(zzHsDim("server_ems", zzDimEMS, nems, 0)),
		LocalSRTPProtectionProfiles:  w.serverProfiles,
		LocalSRTPMasterKeyIdentifier: zzsymBytes("server_mki", 1),
		SupportedProtocols:           w.serverALPN,
		EllipticCurves:               []elliptic.Curve{elliptic.P256, elliptic.X25519},
		ConnectionIDGenerator:        zzHsCIDGen("server_cid", w.serverCIDMode),
		InsecureSkipHelloVerify:      !w.hvr,
		Log:                          zzHsLog{},
	}
	if w.auth == 0 {
		chain := w.serverChain
		scfg.LocalGetCertificate = func(*dtlsconfig.ClientHelloInfo) (*tls.Certificate, error) {
			return &tls.Certificate{Certificate: chain, PrivateKey: zzHsSigner{"server"}}, nil
		}
		if zzHsDim("client_auth", zzDimAuth, 2, 0) == 1 {
			w.clientAuth = dtlsconfig.RequireAnyClientCert
			scfg.ClientAuth = w.clientAuth
			cchain := w.clientChain
			ccfg.LocalGetClientCertificate = func(*dtlsconfig.CertificateRequestInfo) (*tls.Certificate, error) {
				return &tls.Certificate{Certificate: cchain, PrivateKey: zzHsSigner{"client"}}, nil
			}
		}
	} else {
		psk := w.psk
		ccfg.LocalPSKCallback = func([]byte) ([]byte, error) { return zzHsClone(psk), nil }
		scfg.LocalPSKCallback = func([]byte) ([]byte, error) { return zzHsClone(psk), nil }
		ccfg.LocalPSKIdentityHint = zzsymBytes("client_psk_identity", 1)
		if zzHsDim("server_psk_hint", zzDimAuth, 2, 1) == 1 {
			scfg.LocalPSKIdentityHint = zzsymBytes("server_psk_hint", 1)
		}
	}
	w.client = zzHsNewPeer(true, ccfg)
	w.server = zzHsNewPeer(false, scfg)
	return w
}

// zzHsHello runs flights 0..4 (server) and 1..3 (client) with the real handlers. It returns false when one side
// aborts the handshake (no agreement to check) after marking the reason with a cover label.
func zzHsHello(w *zzHsWorld) bool {
	ctx := context.Background()
	c, s := w.client, w.server

	_, a, err := flight0Generate(s.conn, s.state, s.cache, s.cfg)
	zzsymAssert(zzsymAnd(a == nil, err == nil), "hs/flight0_generate_ok")
	pkts, a, err := flight1Generate(c.conn, c.state, c.cache, c.cfg)
	zzsymAssert(zzsymAnd(a == nil, err == nil), "hs/flight1_generate_ok")
	zzHsSend(c, s, pkts)

	next, a, err := flight0Parse(ctx, s.conn, s.state, s.cache, s.cfg)
	if a != nil || err != nil {
		zzsymCover("server_rejects_hello")
		w.abort = "server_hello"
		return false
	}
	if w.hvr {
		zzsymAssert(next == Flight2, "hs/server_asks_for_cookie")
		pkts, a, err = flight2Generate(s.conn, s.state, s.cache, s.cfg)
		zzsymAssert(zzsymAnd(a == nil, err == nil), "hs/flight2_generate_ok")
		zzHsSend(s, c, pkts)
		cnext, a, err := flight1Parse(ctx, c.conn, c.state, c.cache, c.cfg)
		zzsymAssert(zzsymAnd(a == nil, err == nil), "hs/client_accepts_hello_verify_request")
		zzsymAssert(cnext == Flight3, "hs/client_goes_to_flight3")
		pkts, a, err = flight3Generate(c.conn, c.state, c.cache, c.cfg)
		zzsymAssert(zzsymAnd(a == nil, err == nil), "hs/flight3_generate_ok")
		zzHsSend(c, s, pkts)
		next, a, err = flight2Parse(ctx, s.conn, s.state, s.cache, s.cfg)
		zzsymAssert(zzsymAnd(a == nil, err == nil), "hs/server_accepts_cookie_echo")
		zzsymCover("hello_verify")
	}
	zzsymAssert(next == Flight4, "hs/server_goes_to_flight4")

	pkts, a, err = flight4Generate(s.conn, s.state, s.cache, s.cfg)
	if a != nil || err != nil {
		zzsymCover("server_aborts_flight4")
		w.abort = "server_flight4"
		return false
	}
	zzHsSend(s, c, pkts)

	var cnext Flight
	if w.hvr {
		cnext, a, err = flight3Parse(ctx, c.conn, c.state, c.cache, c.cfg)
	} else {
		cnext, a, err = flight1Parse(ctx, c.conn, c.state, c.cache, c.cfg)
	}
	if a != nil || err != nil {
		zzsymCover("client_rejects_server_flight")
		w.abort = "client_flight3"
		return false
	}
	zzsymAssert(cnext == Flight5, "hs/client_goes_to_flight5")
	return true
}

// zzHsAssertNegotiated: the committed negotiation results of both State12 values agree and are what the two
// configurations allow.
func zzHsAssertNegotiated(w *zzHsWorld, resumed bool) {
	c, s := w.client.state, w.server.state

	// cipher suite: same id, separate instances, in both configured lists
	zzsymAssert(c.CipherSuite != nil && s.CipherSuite != nil, "agree/suite_set")
	zzsymAssert(c.CipherSuite.ID() == s.CipherSuite.ID(), "agree/same_cipher_suite")
	zzsymAssert(c.CipherSuite != s.CipherSuite, "agree/suite_instances_not_shared")
	zzsymAssert(zzHsHasSuite(w.client.cfg.LocalCipherSuites, c.CipherSuite.ID()), "agree/suite_in_client_list")
	zzsymAssert(zzHsHasSuite(w.server.cfg.LocalCipherSuites, c.CipherSuite.ID()), "agree/suite_in_server_list")

	// randoms: each side's view of the peer random is the peer's own random
	cl, cr := c.LocalRandom.MarshalFixed(), c.RemoteRandom.MarshalFixed()
	sl, sr := s.LocalRandom.MarshalFixed(), s.RemoteRandom.MarshalFixed()
	zzsymAssert(zzsymEqBytes(cl[:], sr[:]), "agree/client_random_mirrored")
	zzsymAssert(zzsymEqBytes(cr[:], sl[:]), "agree/server_random_mirrored")

	// extended master secret
	zzsymAssert(c.ExtendedMasterSecret == s.ExtendedMasterSecret, "agree/same_ems_decision")
	if c.ExtendedMasterSecret {
		zzsymAssert(w.client.cfg.ExtendedMasterSecret != dtlsconfig.DisableExtendedMasterSecret, "agree/ems_respects_client_policy")
		zzsymAssert(w.server.cfg.ExtendedMasterSecret != dtlsconfig.DisableExtendedMasterSecret, "agree/ems_respects_server_policy")
		zzsymCover("ems_on")
	} else {
		zzsymAssert(w.client.cfg.ExtendedMasterSecret != dtlsconfig.RequireExtendedMasterSecret, "agree/no_ems_respects_client_policy")
		zzsymAssert(w.server.cfg.ExtendedMasterSecret != dtlsconfig.RequireExtendedMasterSecret, "agree/no_ems_respects_server_policy")
		zzsymCover("ems_off")
	}

	// SRTP
	cp, sp := c.SRTPProtectionProfile(), s.SRTPProtectionProfile()
	zzsymAssert(cp == sp, "agree/same_srtp_profile")
	if cp != 0 {
		zzsymAssert(zzHsProfileIn(w.clientProfiles, cp), "agree/srtp_profile_in_client_list")
		zzsymAssert(zzHsProfileIn(w.serverProfiles, cp), "agree/srtp_profile_in_server_list")
		zzsymCover("srtp_on")
	} else {
		zzsymAssert(len(w.clientProfiles) == 0 || len(w.serverProfiles) == 0, "agree/no_srtp_only_if_one_side_has_none")
		zzsymCover("srtp_off")
	}

	// ALPN
	zzsymAssert(zzsymEqStr(c.NegotiatedProtocol, s.NegotiatedProtocol), "agree/same_alpn_protocol")
	if c.NegotiatedProtocol != "" {
		zzsymAssert(zzHsStringIn(w.clientALPN, c.NegotiatedProtocol), "agree/alpn_in_client_list")
		zzsymAssert(zzHsStringIn(w.serverALPN, c.NegotiatedProtocol), "agree/alpn_in_server_list")
		zzsymCover("alpn_on")
	} else {
		zzsymCover("alpn_off")
	}

	// connection ids
	zzsymAssert(zzsymEqBytes(c.LocalConnectionID(), s.RemoteConnectionID), "agree/client_local_cid_is_server_remote_cid")
	zzsymAssert(zzsymEqBytes(c.RemoteConnectionID, s.LocalConnectionID()), "agree/client_remote_cid_is_server_local_cid")
	zzsymAssert(c.RRCNegotiated == s.RRCNegotiated, "agree/same_rrc_decision")
	zzsymAssert(c.LocalCIDOffered == s.RemoteCIDOffered && c.RemoteCIDOffered == s.LocalCIDOffered, "agree/cid_flags_mirrored")
	if w.clientCIDMode != 0 && w.serverCIDMode != 0 {
		zzsymAssert(c.LocalCIDOffered && c.RemoteCIDOffered, "agree/cid_negotiated_when_both_configured")
		zzsymAssert(zzsymEqBytes(c.LocalConnectionID(), w.client.cfg.ConnectionIDGenerator()), "agree/client_cid_is_generated_one")
		zzsymAssert(zzsymEqBytes(s.LocalConnectionID(), w.server.cfg.ConnectionIDGenerator()), "agree/server_cid_is_generated_one")
		zzsymCover("cid_on")
	} else {
		zzsymAssert(!c.LocalCIDOffered && !c.RemoteCIDOffered, "agree/no_cid_unless_both_configured")
		zzsymAssert(len(c.RemoteConnectionID) == 0 && len(s.RemoteConnectionID) == 0, "agree/no_cid_bytes_unless_both_configured")
		zzsymCover("cid_off")
	}

	if resumed {
		return // session id, certificates and key exchange are checked by the caller
	}

	// session id: no session store on either side
	zzsymAssert(len(c.SessionID) == 0 && len(s.SessionID) == 0, "agree/no_session_id_without_store")

	// peer certificate chain as presented; key exchange parameters
	if w.auth == 0 {
		zzsymAssert(len(c.PeerCertificates) == len(w.serverChain), "agree/client_sees_server_chain_length")
		for i := range w.serverChain {
			zzsymAssert(zzsymEqBytes(c.PeerCertificates[i], w.serverChain[i]), "agree/client_sees_presented_server_chain")
		}
		zzsymAssert(c.RemoteRequestedCertificate == (w.clientAuth > dtlsconfig.NoClientCert), "agree/client_knows_certificate_was_requested")
	} else {
		zzsymAssert(len(c.PeerCertificates) == 0, "agree/psk_no_peer_certificates")
	}
	if s.CipherSuite.KeyExchangeAlgorithm().Has(ciphersuite.KeyExchangeAlgorithmEcdhe) {
		zzsymAssert(c.LocalKeypair != nil && s.LocalKeypair != nil, "agree/both_have_ecdh_keys")
		zzsymAssert(c.LocalKeypair.Curve == s.NamedCurve, "agree/same_named_curve")
		zzsymAssert(s.LocalKeypair.Curve == s.NamedCurve, "agree/server_key_on_named_curve")
		ske := c.RemoteServerKeyExchange()
		zzsymAssert(ske != nil, "agree/client_kept_server_key_exchange")
		zzsymAssert(zzsymEqBytes(ske.PublicKey, s.LocalKeypair.PublicKey), "agree/client_sees_server_ecdh_public_key")
	}
}

// flight4_to_flight3 / suite_agree / alpn_agree / srtp_agree / cid commit through the real handlers. A DTLS 1.2
// client and server are configured independently along six dimensions: cipher-suite preference lists (3 menus
// per side; thorough: 5, one led by a DTLS 1.3-only suite that must be skipped), extended-master-secret policy
// (request / disable; thorough: require), SRTP profile lists (0..HSSRTP-1 arbitrary 16-bit codes per side, one
// arbitrary MKI byte; MKI lengths vary in zzSRTPAgree), ALPN lists (0..HSALPN-1 arbitrary one-byte names per
// side), connection-id generator (none / 2 arbitrary bytes; thorough: empty CID) per side, and authentication
// (certificate, PSK, ECDHE-PSK; client-certificate request on/off; PSK identity hint on/off; hello
// verification on/off). Quick varies one dimension at a time, thorough every pair of dimensions, the others
// stay at a default with every feature configured on both sides (the full product is not enumerated). The real
// flight0Generate, flight1Generate, flight0Parse, [flight2Generate, flight1Parse, flight3Generate, flight2Parse,]
// flight4Generate and flight3Parse (via flight1Parse when no cookie round trip happened) run over the real
// message codecs and handshake caches. Proved: whenever the server completes flight 4 and the client accepts it
// (next flight 5), both State12 values hold the same cipher suite (from both lists), mirrored randoms, the same
// extended-master-secret decision (consistent with both policies), the same SRTP profile (from both lists; none
// only if one side configured none), the same ALPN protocol (from both lists), mirrored connection ids and RRC
// decision, no session id, the client's peer certificate chain is byte-for-byte the chain the server's
// certificate callback returned, and the client holds the server's ECDH public key on the curve the server
// selected.
//
//symgo:entry covers=agreed,server_rejects_hello,server_aborts_flight4,ems_on,ems_off,srtp_on,srtp_off,alpn_on,alpn_off,cid_on,cid_off
func zzHelloAgreement12() {
	zzHsReset()
	w := zzHsConfigure()
	if !zzHsHello(w) {
		return
	}
	zzHsAssertNegotiated(w, false)
	zzsymCover("agreed")
}

// zzHsSessionTranscript is the harness' own reading of RFC 7627 section 3 / RFC 6347 section 4.2.6: all
// handshake messages in the order they were sent, starting at the ClientHello that the ServerHello answers
// (the cookie-less ClientHello and the HelloVerifyRequest are excluded), up to and including ClientKeyExchange.
func zzHsSessionTranscript() []byte {
	start := 0
	for i, m := range zzHsWire {
		if m.typ == handshake.TypeClientHello {
			start = i // the last ClientHello
		}
	}
	out := []byte{}
	for _, m := range zzHsWire[start:] {
		out = append(out, m.raw...)
		if m.typ == handshake.TypeClientKeyExchange {
			break
		}
	}
	return out
}

// master_mirror (+ composition with keyblock_mirror). After the hello exchange of zzHelloAgreement12 (same
// configuration space) the
// client runs the real flight5Generate (handleServerKeyExchange happened in flight3Parse; initializeCipherSuite
// derives the master secret and initialises the cipher suite) and the server runs the real flight4Parse on the
// delivered Certificate / ClientKeyExchange / CertificateVerify / Finished. Diffie-Hellman is an uninterpreted
// symmetric function on a toy group, P_hash and the hash are uninterpreted, signature checks accept. Proved:
// both sides call the key agreement with their own private key and the public key the peer sent, on the same
// curve; both issue the same master-secret PRF request - same secret, label "master secret" with
// client_random || server_random, or "extended master secret" with the session hash when EMS was negotiated -
// and the session-hash input of both sides is byte-for-byte the transcript ClientHello..ClientKeyExchange as
// sent (RFC 7627); the 48-byte master secrets are equal; the record-protection keys handed to the cipher
// constructors are mirrored (client write = server read and vice versa); with client authentication the
// server's view of the peer certificate chain is the chain the client's callback returned; the server moves to
// flight 6.
//
//symgo:entry covers=split_flight,master_agreed,ems_master,plain_master,auth_certificate,auth_psk,auth_ecdhe_psk,client_certificate
func zzMasterMirror12() {
	zzHsReset()
	w := zzHsConfigure()
	if !zzHsHello(w) {
		return
	}
	ctx := context.Background()
	c, s := w.client, w.server
	nPRF0, nHash0 := len(zzHsPRFLog), len(zzHsHashInputs)
	zzsymAssert(nPRF0 == 0, "mm/no_prf_before_key_exchange")

	pkts, a, err := flight5Generate(c.conn, c.state, c.cache, c.cfg)
	zzsymAssert(zzsymAnd(a == nil, err == nil), "mm/client_flight5_ok")
	nPRFClient, nHashClient := len(zzHsPRFLog), len(zzHsHashInputs)
	// the client's flight may reach the server in two datagrams (small MTU, loss or reordering of the second
	// one): [Certificate] ClientKeyExchange first, the rest later; the server runs flight4Parse after each
	if zzsymChoice("client_flight_in_two_datagrams", 2) == 1 {
		cut := 0
		for i, p := range pkts {
			if h, ok := p.Record.Content.(*handshake.Handshake); ok && h.Message.Type() == handshake.TypeClientKeyExchange {
				cut = i + 1
			}
		}
		zzsymAssert(cut > 0 && cut < len(pkts), "mm/harness_flight_splits_after_client_key_exchange")
		zzHsSend(c, s, pkts[:cut])
		early, a0, err0 := flight4Parse(ctx, s.conn, s.state, s.cache, s.cfg)
		zzsymAssert(zzsymAnd(a0 == nil, err0 == nil), "mm/server_keeps_reading_on_partial_flight")
		zzsymAssert(early == 0, "mm/server_stays_in_flight4_on_partial_flight")
		pkts = pkts[cut:]
		zzsymCover("split_flight")
	}
	zzHsSend(c, s, pkts)
	next, a, err := flight4Parse(ctx, s.conn, s.state, s.cache, s.cfg)
	zzsymAssert(zzsymAnd(a == nil, err == nil), "mm/server_flight4_parse_ok")
	zzsymAssert(next == Flight6, "mm/server_goes_to_flight6")
	zzsymAssert(s.conn.queued >= 1, "mm/server_releases_queued_records_after_keys")

	cs, ss := c.state, s.state
	ems := cs.ExtendedMasterSecret
	zzsymAssert(ems == ss.ExtendedMasterSecret, "mm/same_ems_decision")
	cr, sr := cs.LocalRandom.MarshalFixed(), ss.LocalRandom.MarshalFixed()

	// ---- key agreement calls ----
	ecdhe := ss.CipherSuite.KeyExchangeAlgorithm().Has(ciphersuite.KeyExchangeAlgorithmEcdhe)
	if ecdhe {
		zzsymAssert(len(zzHsDHLog) == 2, "mm/one_key_agreement_per_side")
		dc, ds := zzHsDHLog[0], zzHsDHLog[1]
		zzsymAssert(zzsymEqBytes(dc.priv, cs.LocalKeypair.PrivateKey), "mm/client_uses_own_private_key")
		zzsymAssert(zzsymEqBytes(dc.pub, ss.LocalKeypair.PublicKey), "mm/client_uses_server_public_key")
		zzsymAssert(zzsymEqBytes(ds.priv, ss.LocalKeypair.PrivateKey), "mm/server_uses_own_private_key")
		zzsymAssert(zzsymEqBytes(ds.pub, cs.LocalKeypair.PublicKey), "mm/server_uses_client_public_key")
		zzsymAssert(dc.curve == ds.curve, "mm/same_curve")
	} else {
		zzsymAssert(len(zzHsDHLog) == 0, "mm/plain_psk_no_key_agreement")
	}

	// ---- master secret PRF request: first request of each side ----
	zzsymAssert(nPRFClient >= 2 && len(zzHsPRFLog) >= nPRFClient+2, "mm/prf_requests_per_side")
	pc, ps := zzHsPRFLog[0], zzHsPRFLog[nPRFClient]
	zzsymAssert(zzsymEqBytes(pc.secret, ps.secret), "mm/same_premaster_secret")
	zzsymAssert(len(pc.secret) > 0, "mm/premaster_secret_not_empty")
	zzsymAssert(zzsymEqBytes(pc.seed, ps.seed), "mm/same_master_secret_seed")
	zzsymAssert(pc.length == 48 && ps.length == 48, "mm/master_secret_length")
	zzsymAssert(pc.hash == ps.hash, "mm/same_prf_hash")
	if ems {
		// session hash: first hash evaluation of each side
		zzsymAssert(nHashClient > nHash0 && len(zzHsHashInputs) > nHashClient, "mm/session_hash_computed_per_side")
		hc, hs := zzHsHashInputs[nHash0], zzHsHashInputs[nHashClient]
		want := zzHsSessionTranscript()
		zzsymAssert(zzsymEqBytes(hc, hs), "mm/same_session_hash_input")
		zzsymAssert(zzsymEqBytes(hc, want), "mm/client_session_hash_input_is_transcript")
		zzsymAssert(zzsymEqBytes(hs, want), "mm/server_session_hash_input_is_transcript")
		hlen := 32
		if pc.hash == "sha384" {
			hlen = 48
		}
		wantSeed := append([]byte("extended master secret"), zzsymUF("hash_"+pc.hash, hlen, want)...)
		zzsymAssert(zzsymEqBytes(pc.seed, wantSeed), "mm/ems_seed_is_label_session_hash")
		zzsymCover("ems_master")
	} else {
		wantSeed := append(append([]byte("master secret"), cr[:]...), sr[:]...)
		zzsymAssert(zzsymEqBytes(pc.seed, wantSeed), "mm/seed_is_label_client_random_server_random")
		zzsymCover("plain_master")
	}
	zzsymAssert(len(cs.MasterSecret) == 48, "mm/client_master_secret_48")
	zzsymAssert(zzsymEqBytes(cs.MasterSecret, ss.MasterSecret), "mm/same_master_secret")

	// ---- key expansion and record protection keys (composition with keyblock_mirror) ----
	kc, ks := zzHsPRFLog[1], zzHsPRFLog[nPRFClient+1]
	wantKE := append(append([]byte("key expansion"), sr[:]...), cr[:]...)
	zzsymAssert(zzsymEqBytes(kc.secret, cs.MasterSecret) && zzsymEqBytes(ks.secret, ss.MasterSecret), "mm/key_expansion_keyed_with_master_secret")
	zzsymAssert(zzsymEqBytes(kc.seed, wantKE) && zzsymEqBytes(ks.seed, wantKE), "mm/key_expansion_seed")
	zzsymAssert(len(zzHsCipherLog) == 2, "mm/one_cipher_per_side")
	cc, sc := zzHsCipherLog[0], zzHsCipherLog[1]
	zzsymAssert(cc.alg == sc.alg, "mm/same_record_protection")
	zzsymAssert(zzsymEqBytes(cc.localKey, sc.remoteKey) && zzsymEqBytes(cc.remoteKey, sc.localKey), "mm/write_keys_mirrored")
	zzsymAssert(zzsymEqBytes(cc.localIV, sc.remoteIV) && zzsymEqBytes(cc.remoteIV, sc.localIV), "mm/write_ivs_mirrored")
	zzsymAssert(zzsymEqBytes(cc.localMAC, sc.remoteMAC) && zzsymEqBytes(cc.remoteMAC, sc.localMAC), "mm/mac_keys_mirrored")
	zzsymAssert(cs.CipherSuite.IsInitialized() && ss.CipherSuite.IsInitialized(), "mm/both_suites_initialised")

	// ---- peer certificates ----
	switch w.auth {
	case 0:
		zzsymCover("auth_certificate")
		// the ServerKeyExchange signature the client checked is over client_random || server_random || params, under the presented chain
		zzsymAssert(len(zzHsKeySigLog) == 1, "mm/client_checked_key_signature")
		zzsymAssert(len(zzHsKeySigLog[0].certs) == len(w.serverChain) && zzsymEqBytes(zzHsKeySigLog[0].certs[0], w.serverChain[0]), "mm/key_signature_checked_against_presented_chain")
		// the client's view after chain verification (which built a DIFFERENT path, zzHsBuiltPath) is still the presented list
		zzsymAssert(len(cs.PeerCertificates) == len(w.serverChain), "mm/client_view_of_server_chain_length_after_verification")
		for i := range w.serverChain {
			zzsymAssert(zzsymEqBytes(cs.PeerCertificates[i], w.serverChain[i]), "mm/client_view_is_the_presented_server_chain_after_verification")
		}
		if w.clientAuth > dtlsconfig.NoClientCert {
			zzsymAssert(len(ss.PeerCertificates) == len(w.clientChain), "mm/server_sees_client_chain_length")
			for i := range w.clientChain {
				zzsymAssert(zzsymEqBytes(ss.PeerCertificates[i], w.clientChain[i]), "mm/server_sees_presented_client_chain")
			}
			zzsymAssert(len(zzHsCertVerLog) == 1, "mm/server_checked_certificate_verify")
			zzsymCover("client_certificate")
		} else {
			zzsymAssert(len(ss.PeerCertificates) == 0, "mm/no_client_chain_without_request")
		}
	case 1:
		zzsymCover("auth_psk")
	default:
		if ecdhe {
			zzsymCover("auth_ecdhe_psk")
		}
	}
	zzsymCover("master_agreed")
}

// Resumed handshake (abbreviated, RFC 5246 section 7.3 / flight4b, flight5b). Same configuration space as
// zzHelloAgreement12 with a session store on both sides: the client's store returns (session id of 2 symbolic
// bytes, symbolic 48-byte master secret) for its session key; the server's store returns the same master secret
// for exactly that session id (this is what a previous full handshake stored on both sides, see
// zzMasterMirror12) and "unknown" for any other id. The real flight1Generate, flight0Parse (-> flight 4b),
// flight4bGenerate, flight1Parse/flight3Parse/handleResumption (-> flight 5b), flight5bGenerate and flight4bParse
// run over the real codecs; P_hash and the hash are uninterpreted. Proved: whenever both sides complete (client
// verified the server Finished, server verified the client Finished), both hold the stored master secret and the
// same session id, the same cipher suite, mirrored randoms and mirrored record-protection keys, and the freshly
// negotiated extension state (SRTP profile, ALPN protocol, connection ids, RRC) agrees as in the full handshake.
//
//symgo:assume resumption: the server's session store maps the session id the client offers to the same master secret the client's store holds (established by the full handshake that created the session)
//symgo:entry covers=resumed,srtp_on,srtp_off,alpn_on,alpn_off,cid_on,cid_off,server_aborts_flight4b
func zzResumeAgreement12() {
	zzHsReset()
	w := zzHsConfigure()
	ctx := context.Background()
	c, s := w.client, w.server
	sid := zzsymBytes("session_id", 2)
	secret := zzsymBytes("stored_master_secret", 48)
	var clientSaved, serverSaved [][]byte
	c.cfg.HasSessionStore = true
	c.cfg.GetSession = func(key []byte) ([]byte, []byte, error) { return zzHsClone(sid), zzHsClone(secret), nil }
	c.cfg.SetSession = func(key, id, sec []byte) error { clientSaved = append(clientSaved, id, sec); return nil }
	c.cfg.DelSession = func(key []byte) error { return nil }
	s.cfg.HasSessionStore = true
	s.cfg.GetSession = func(key []byte) ([]byte, []byte, error) {
		if zzsymEqBytes(key, sid) {
			return zzHsClone(key), zzHsClone(secret), nil
		}
		return nil, nil, nil
	}
	s.cfg.SetSession = func(key, id, sec []byte) error { serverSaved = append(serverSaved, id, sec); return nil }
	s.cfg.DelSession = func(key []byte) error { return nil }
	s.cfg.InsecureSkipHelloVerify = true

	_, a, err := flight0Generate(s.conn, s.state, s.cache, s.cfg)
	zzsymAssert(zzsymAnd(a == nil, err == nil), "rs/flight0_generate_ok")
	pkts, a, err := flight1Generate(c.conn, c.state, c.cache, c.cfg)
	zzsymAssert(zzsymAnd(a == nil, err == nil), "rs/flight1_generate_ok")
	zzHsSend(c, s, pkts)
	next, a, err := flight0Parse(ctx, s.conn, s.state, s.cache, s.cfg)
	if a != nil || err != nil {
		zzsymCover("server_rejects_hello")
		return
	}
	zzsymAssert(next == Flight4b, "rs/server_resumes_known_session")
	pkts, a, err = flight4bGenerate(s.conn, s.state, s.cache, s.cfg)
	if a != nil || err != nil {
		zzsymCover("server_aborts_flight4b")
		return
	}
	zzHsSend(s, c, pkts)
	cnext, a, err := flight1Parse(ctx, c.conn, c.state, c.cache, c.cfg)
	if a != nil || err != nil {
		zzsymCover("client_rejects_server_flight")
		return
	}
	zzsymAssert(cnext == Flight5b, "rs/client_resumes")
	pkts, a, err = flight5bGenerate(c.conn, c.state, c.cache, c.cfg)
	zzsymAssert(zzsymAnd(a == nil, err == nil), "rs/flight5b_generate_ok")
	zzHsSend(c, s, pkts)
	snext, a, err := flight4bParse(ctx, s.conn, s.state, s.cache, s.cfg)
	zzsymAssert(zzsymAnd(a == nil, err == nil), "rs/server_accepts_client_finished")
	zzsymAssert(snext == Flight4b, "rs/server_done")

	cs, ss := c.state, s.state
	zzsymAssert(zzsymEqBytes(cs.MasterSecret, secret), "rs/client_uses_stored_master_secret")
	zzsymAssert(zzsymEqBytes(ss.MasterSecret, secret), "rs/server_uses_stored_master_secret")
	zzsymAssert(zzsymEqBytes(cs.SessionID, sid) && zzsymEqBytes(ss.SessionID, sid), "rs/same_session_id")
	zzHsAssertNegotiated(w, true)
	zzsymAssert(len(zzHsDHLog) == 0, "rs/no_key_agreement_when_resuming")
	zzsymAssert(len(cs.PeerCertificates) == 0 && len(ss.PeerCertificates) == 0, "rs/no_certificates_when_resuming")
	zzsymAssert(len(zzHsCipherLog) == 2, "rs/one_cipher_per_side")
	sc, cc := zzHsCipherLog[0], zzHsCipherLog[1] // the server initialises first (flight0Parse)
	zzsymAssert(cc.alg == sc.alg, "rs/same_record_protection")
	zzsymAssert(zzsymEqBytes(cc.localKey, sc.remoteKey) && zzsymEqBytes(cc.remoteKey, sc.localKey), "rs/write_keys_mirrored")
	zzsymAssert(zzsymEqBytes(cc.localIV, sc.remoteIV) && zzsymEqBytes(cc.remoteIV, sc.localIV), "rs/write_ivs_mirrored")
	zzsymAssert(zzsymEqBytes(cc.localMAC, sc.remoteMAC) && zzsymEqBytes(cc.remoteMAC, sc.localMAC), "rs/mac_keys_mirrored")
	zzsymAssert(len(cc.localKey) > 0, "rs/keys_nonempty")
	zzsymCover("resumed")
}

// suite_agree. The cipher-suite dimension of zzHelloAgreement12 on its own, in both tiers with all five
// preference-list menus per side and per authentication mode (certificate / PSK / ECDHE-PSK suites; single
// suites, two-suite lists in both orders, disjoint lists, a list led by a DTLS 1.3-only suite, lists mixing
// PSK and ECDHE-PSK): the server selects in flight0Parse (ciphersuite.ForID, DTLS 1.2 filter,
// FindMatchingCipherSuite over the client's order), the client re-checks the ServerHello value in flight3Parse
// (ForID, IDSupportsVersion, FindMatchingCipherSuite against its own list). Proved: whenever both accept, both
// hold the same suite id (separate instances), it is in both configured lists, it is the first entry of the
// CLIENT's list that the server also configured (pion/dtls honours client order), and it is a DTLS 1.2 suite;
// the server aborts with no flight exactly when the lists share no DTLS 1.2 suite.
//
//symgo:entry covers=suite_agreed,suite_first_choice,suite_later_choice,suite_no_common,suite_skips_tls13
func zzSuiteAgree12() {
	zzHsReset()
	zzHsFocus, zzHsFocus2 = zzDimSuite, zzDimAuth
	zzSuiteAgreeCheck(zzHsConfigureFocused(5))
}

func zzSuiteAgreeCheck(w *zzHsWorld) {
	cl, sl := w.client.cfg.LocalCipherSuites, w.server.cfg.LocalCipherSuites
	// oracle: first entry of the client's list that is a DTLS 1.2 suite and is configured by the server
	var want ciphersuite.ID
	for _, c := range cl {
		if want == 0 && c.ID() != ciphersuite.TLS_AES_128_GCM_SHA256 && zzHsHasSuite(sl, c.ID()) {
			want = c.ID()
		}
	}
	ok := zzHsHello(w)
	if want == 0 {
		zzsymAssert(!ok && w.abort == "server_hello", "suite/no_common_suite_no_handshake")
		zzsymCover("suite_no_common")
		return
	}
	zzsymAssert(w.abort != "server_hello", "suite/common_suite_accepted_by_server")
	if !ok {
		return // aborted later for another reason (SRTP / ALPN lists without a common entry)
	}
	c, s := w.client.state, w.server.state
	zzsymAssert(c.CipherSuite.ID() == s.CipherSuite.ID(), "suite/same_cipher_suite")
	zzsymAssert(c.CipherSuite != s.CipherSuite, "suite/instances_not_shared")
	zzsymAssert(s.CipherSuite.ID() == want, "suite/first_client_choice_the_server_supports")
	zzsymAssert(zzHsHasSuite(cl, want) && zzHsHasSuite(sl, want), "suite/in_both_lists")
	zzsymAssert(ciphersuite.IDSupportsVersion(want, protocol.Version1_2), "suite/is_dtls12_suite")
	if cl[0].ID() == want {
		zzsymCover("suite_first_choice")
	} else {
		zzsymCover("suite_later_choice")
		if cl[0].ID() == ciphersuite.TLS_AES_128_GCM_SHA256 {
			zzsymCover("suite_skips_tls13")
		}
	}
	zzsymCover("suite_agreed")
}
