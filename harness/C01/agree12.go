package flight12

//symgo:pkg github.com/pion/dtls/v3/internal/flight/flight12
//symgo:param NPROF quick=2 thorough=3
//symgo:param NMKI quick=1 thorough=2
//symgo:param NPROTO quick=2 thorough=3
//symgo:param NPLEN quick=1 thorough=2
//symgo:outside SRTP profile lists longer than NPROF, MKIs longer than NMKI bytes, ALPN lists longer than NPROTO names, names longer than NPLEN bytes (the selection code iterates with slices.Contains, length-generic)
//symgo:assume the ClientHello and the server's answer reach the peer unmodified (wire bytes produced by the real Marshal are decoded by the real Unmarshal of the other side)

import (
	dtlsflight "github.com/pion/dtls/v3/internal/flight"
	"github.com/pion/dtls/v3/internal/negotiation"
	dtlsstate "github.com/pion/dtls/v3/internal/state"
	"github.com/pion/dtls/v3/pkg/protocol"
	"github.com/pion/dtls/v3/pkg/protocol/extension"
	"github.com/pion/dtls/v3/pkg/protocol/handshake"
)

// zzAgExchangeHello runs the client's FinalizeClientHello + RecordLocalClientHello and the server's RecordWire on
// the marshalled handshake message; it returns the two Common states and the ClientHello as the server decodes it.
func zzAgExchangeHello(exts []extension.Value) (client, server *dtlsstate.Common, seen *handshake.MessageClientHello) {
	cst, sst := dtlsstate.NewState12(true), dtlsstate.NewState12(false)
	hello := &handshake.MessageClientHello{
		Version:            protocol.Version1_2,
		CipherSuiteIDs:     []uint16{0xc02b},
		CompressionMethods: dtlsflight.DefaultCompressionMethods(),
		Extensions:         exts,
	}
	final, snap, err := negotiation.FinalizeClientHello(hello, nil)
	zzsymAssert(err == nil, "ag/client_hello_finalized")
	zzsymAssert(cst.RecordLocalClientHello(snap) == nil, "ag/client_hello_recorded")
	wire, err := (&handshake.Handshake{Message: final}).Marshal()
	zzsymAssert(err == nil, "ag/client_hello_marshals")
	zzsymAssert(sst.RemoteClientHelloSnapshots.RecordWire(wire) == nil, "ag/server_records_hello")
	decoded := &handshake.Handshake{}
	zzsymAssert(decoded.Unmarshal(wire) == nil, "ag/server_decodes_hello")
	seen, ok := decoded.Message.(*handshake.MessageClientHello)
	zzsymAssert(ok, "ag/server_sees_client_hello")
	return cst.Common, sst.Common, seen
}

// zzAgServerHello: the server's answer through FinalizeServerHello, then over the wire into the client's decoder.
func zzAgServerHello(offer negotiation.ClientHelloSnapshot, exts []extension.Value) (*handshake.MessageServerHello, *handshake.MessageServerHello) {
	suite := uint16(0xc02b)
	sh := &handshake.MessageServerHello{
		Version:           protocol.Version1_2,
		CipherSuiteID:     &suite,
		CompressionMethod: dtlsflight.DefaultCompressionMethods()[0],
		Extensions:        exts,
	}
	final, err := negotiation.FinalizeServerHello(sh, nil, offer)
	zzsymAssert(err == nil, "ag/server_hello_finalized")
	wire, err := final.Marshal()
	zzsymAssert(err == nil, "ag/server_hello_marshals")
	got := &handshake.MessageServerHello{}
	zzsymAssert(got.Unmarshal(wire) == nil, "ag/server_hello_decodes")
	return final, got
}

// srtp_agree. Client: SRTP profile list of 0..NPROF arbitrary 16-bit codes and an MKI of 0..NMKI arbitrary
// bytes; use_srtp is offered iff the list is non-empty (flight1Generate). Server: list of 0..NPROF arbitrary
// codes and an accepted MKI of 0..NMKI bytes. DTLS 1.2 path: NegotiateSRTP -> appendSRTPSelection ->
// FinalizeServerHello -> validateServerSRTP -> CommitSRTP on the server, ServerHello over the wire,
// ValidateSRTPSelection -> CommitSRTP on the client (flight4Generate / flight3Parse sequence). DTLS 1.3 path:
// the selection travels in EncryptedExtensions (flight13 flight4Generate / handleFlight3ProtectedHandshake
// sequence, same negotiation functions). Proved: if the server does not abort, the client accepts, both sides
// commit the same profile, a non-zero profile is in the client's list and in the server's list, and "no SRTP"
// is committed only if the server configured no profile; each side's record of the peer's MKI is consistent
// (the client's view of the server MKI is empty or its own MKI).
//
//symgo:entry covers=srtp_agreed,srtp_none,srtp_server_aborts,srtp_mki_echoed,srtp_mki_not_echoed,srtp12,srtp13
func zzSRTPAgree() {
	n := zzsymParam("NPROF")
	clientList := zzHsProfiles("client_profile", zzsymChoice("nclient", n+1))
	serverList := zzHsProfiles("server_profile", zzsymChoice("nserver", n+1))
	clientMKI := zzsymBytes("client_mki", zzsymChoice("nclientmki", zzsymParam("NMKI")+1))
	serverMKI := zzsymBytes("server_mki", zzsymChoice("nservermki", zzsymParam("NMKI")+1))
	v13 := zzsymChoice("dtls13", 2) == 1

	var exts []extension.Value
	if len(clientList) > 0 {
		exts = append(exts, &extension.SRTPOffer{ProtectionProfiles: clientList, MasterKeyIdentifier: clientMKI})
	}
	client, server, _ := zzAgExchangeHello(exts)
	offer := server.RemoteClientHelloSnapshots.Current()

	// ---- server ----
	decision, err := negotiation.NegotiateSRTP(offer, serverList, serverMKI)
	if err != nil {
		zzsymCover("srtp_server_aborts")
		return
	}
	answer := appendSRTPSelection([]extension.Value{}, decision)
	var clientSees []extension.Value
	if v13 {
		ee := &handshake.MessageEncryptedExtensions{Extensions: answer}
		wire, merr := ee.Marshal()
		zzsymAssert(merr == nil, "srtp/encrypted_extensions_marshal")
		got := &handshake.MessageEncryptedExtensions{}
		zzsymAssert(got.Unmarshal(wire) == nil, "srtp/encrypted_extensions_decode")
		clientSees = got.Extensions
		zzsymCover("srtp13")
	} else {
		final, got := zzAgServerHello(offer, answer)
		zzsymAssert(validateServerSRTP(offer, final.Extensions, serverList, decision) == nil, "srtp/server_self_check")
		clientSees = got.Extensions
		zzsymCover("srtp12")
	}
	dtlsflight.CommitSRTP(server, decision)

	// ---- client ----
	cOffer := client.LocalClientHelloSnapshots.Current()
	zzsymAssert(negotiation.ValidateResponseExtensions(cOffer, clientSees, nil) == nil, "srtp/answer_is_solicited")
	got, cerr := negotiation.ValidateSRTPSelection(cOffer, clientSees, clientList)
	zzsymAssert(cerr == nil, "srtp/client_accepts_honest_selection")
	dtlsflight.CommitSRTP(client, got)

	// ---- agreement ----
	cp, sp := client.SRTPProtectionProfile(), server.SRTPProtectionProfile()
	zzsymAssert(cp == sp, "srtp/same_profile")
	if cp == 0 {
		zzsymAssert(len(serverList) == 0, "srtp/none_only_if_server_has_no_profiles")
		zzsymCover("srtp_none")
		return
	}
	zzsymAssert(zzHsProfileIn(clientList, cp), "srtp/profile_in_client_list")
	zzsymAssert(zzHsProfileIn(serverList, cp), "srtp/profile_in_server_list")
	zzsymAssert(zzsymEqBytes(server.RemoteSRTPMasterKeyIdentifier, clientMKI), "srtp/server_sees_client_mki")
	zzsymAssert(zzsymOr(len(client.RemoteSRTPMasterKeyIdentifier) == 0, zzsymEqBytes(client.RemoteSRTPMasterKeyIdentifier, clientMKI)), "srtp/client_sees_empty_or_own_mki")
	zzsymAssert(zzsymEqBytes(client.RemoteSRTPMasterKeyIdentifier, decision.MasterKeyIdentifier), "srtp/client_sees_mki_the_server_sent")
	if len(client.RemoteSRTPMasterKeyIdentifier) > 0 {
		zzsymCover("srtp_mki_echoed")
	} else {
		zzsymCover("srtp_mki_not_echoed")
	}
	zzsymCover("srtp_agreed")
}

// alpn_agree. Client offers 0..NPROTO protocol names, server supports 0..NPROTO names (each name 1..NPLEN
// arbitrary bytes). The offer goes through FinalizeClientHello and the wire into the server's decoder (as
// flight0Parse stores PeerSupportedProtocols), the server runs extension.ALPNProtocolSelection exactly as
// flight4Generate / flight4bGenerate do and answers with ALPNSelection through FinalizeServerHello; the client
// decodes the ServerHello and adopts the protocol as flight3Parse does. Proved: if the server does not abort
// (no_application_protocol), both sides end with the same NegotiatedProtocol; a non-empty protocol is in the
// client's offer and in the server's list and is the server's most preferred common one; the server aborts
// only if both lists are non-empty and disjoint; no protocol is negotiated only if one list is empty.
//
//symgo:entry covers=alpn_agreed,alpn_none,alpn_server_aborts,alpn_second_choice
func zzALPNAgree() {
	n := zzsymParam("NPROTO")
	mk := func(name string) []string {
		cnt := zzsymChoice("n"+name, n+1)
		plen := 1 + zzsymChoice(name+"_namelen", zzsymParam("NPLEN"))
		out := []string{}
		for i := 0; i < cnt; i++ {
			out = append(out, zzsymString(name, plen))
		}
		return out
	}
	clientList, serverList := mk("client_proto"), mk("server_proto")

	var exts []extension.Value
	if len(clientList) > 0 {
		exts = append(exts, &extension.ALPNOffer{Protocols: clientList})
	}
	client, server, seen := zzAgExchangeHello(exts)
	offer := server.RemoteClientHelloSnapshots.Current()

	// server: the offer as flight0Parse finds it in the decoded ClientHello
	for _, v := range seen.Extensions {
		if ext, ok := v.(*extension.ALPNOffer); ok {
			server.PeerSupportedProtocols = ext.Protocols
		}
	}
	zzsymAssert(len(server.PeerSupportedProtocols) == len(clientList), "alpn/server_sees_whole_offer")
	selected, err := extension.ALPNProtocolSelection(serverList, server.PeerSupportedProtocols)
	common := false
	for _, p := range serverList {
		common = zzsymOr(common, zzHsStringIn(clientList, p))
	}
	if err != nil {
		zzsymAssert(len(clientList) > 0 && len(serverList) > 0, "alpn/abort_needs_two_lists")
		zzsymAssert(!common, "alpn/abort_only_if_disjoint")
		zzsymCover("alpn_server_aborts")
		return
	}
	answer := []extension.Value{}
	if selected != "" {
		answer = append(answer, &extension.ALPNSelection{Protocol: selected})
		server.NegotiatedProtocol = selected
	}
	_, got := zzAgServerHello(offer, answer)

	// client (flight3Parse)
	cOffer := client.LocalClientHelloSnapshots.Current()
	zzsymAssert(negotiation.ValidateServerHelloResponse(cOffer, got) == nil, "alpn/answer_is_solicited")
	for _, v := range got.Extensions {
		if ext, ok := v.(*extension.ALPNSelection); ok {
			client.NegotiatedProtocol = ext.Protocol
		}
	}

	zzsymAssert(zzsymEqStr(client.NegotiatedProtocol, server.NegotiatedProtocol), "alpn/same_protocol")
	if client.NegotiatedProtocol == "" {
		zzsymAssert(len(clientList) == 0 || len(serverList) == 0, "alpn/none_only_if_a_list_is_empty")
		zzsymCover("alpn_none")
		return
	}
	p := client.NegotiatedProtocol
	zzsymAssert(zzHsStringIn(clientList, p), "alpn/protocol_in_client_offer")
	zzsymAssert(zzHsStringIn(serverList, p), "alpn/protocol_in_server_list")
	// RFC 7301 3.2: server preference - no earlier entry of the server's list is offered by the client
	for _, q := range serverList {
		if zzsymEqStr(q, p) {
			break
		}
		zzsymAssert(!zzHsStringIn(clientList, q), "alpn/most_preferred_common_protocol")
		zzsymCover("alpn_second_choice")
	}
	zzsymCover("alpn_agreed")
}
