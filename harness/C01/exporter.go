package dtls

//symgo:pkg github.com/pion/dtls/v3
//symgo:param NXS quick=2 thorough=6
//symgo:param NXL quick=4 thorough=65
//symgo:param NXLBL quick=3 thorough=5
//symgo:replace github.com/pion/dtls/v3/pkg/crypto/prf.PHash zzXpPHash
//symgo:replace github.com/pion/dtls/v3/pkg/crypto/keyschedule.HkdfExpandLabel zzXpExpandLabel
//symgo:replace github.com/pion/dtls/v3/pkg/crypto/ciphersuite.NewGCM zzXpNewGCM
//symgo:replace github.com/pion/dtls/v3/pkg/crypto/ciphersuite.NewCCM zzXpNewCCM
//symgo:replace github.com/pion/dtls/v3/pkg/crypto/ciphersuite.NewCBC zzXpNewCBC
//symgo:replace github.com/pion/dtls/v3/pkg/crypto/ciphersuite.NewChaCha20Poly1305 zzXpNewChaCha
//symgo:replace crypto/sha256.New zzXpSHA256
//symgo:replace crypto/sha512.New384 zzXpSHA384
//symgo:replace crypto/sha1.New zzXpSHA1
//symgo:stub prf.PHash is the uninterpreted function P_<hash>_<length>(secret, seed): two calls return the same bytes iff (as far as the solver can tell) they have the same secret, seed, length and hash; every call is logged
//symgo:stub keyschedule.HkdfExpandLabel is the uninterpreted function X_<hash>_<length>(secret, label, context) (DTLS 1.3 exporter); hash constructors are name-carrying fakes whose Sum is an uninterpreted function of the written bytes
//symgo:stub record-protection constructors return empty cipher values (record protection is not exercised)
//symgo:assume both sides hold the same master secret (1.2) / exporter master secret (1.3), mirrored randoms and the same cipher suite id: these are the outputs of master_mirror / suite_agree; DTLS 1.3 key-schedule agreement itself is outside
//symgo:outside exporter labels longer than NXLBL bytes, lengths above 64, non-empty context (refused by the API)

import (
	"hash"

	"github.com/pion/dtls/v3/internal/ciphersuite"
	dtlsstate "github.com/pion/dtls/v3/internal/state"
	cryptosuite "github.com/pion/dtls/v3/pkg/crypto/ciphersuite"
	"github.com/pion/dtls/v3/pkg/crypto/prf"
	"github.com/pion/dtls/v3/pkg/protocol"
	"github.com/pion/dtls/v3/pkg/protocol/handshake"
)

type zzXpHash struct {
	name string
	size int
	buf  []byte
}

func (h *zzXpHash) Write(p []byte) (int, error) { h.buf = append(h.buf, p...); return len(p), nil }
func (h *zzXpHash) Sum(b []byte) []byte {
	return append(b, zzsymUF("hash_"+h.name, h.size, h.buf)...)
}
func (h *zzXpHash) Reset()         { h.buf = nil }
func (h *zzXpHash) Size() int      { return h.size }
func (h *zzXpHash) BlockSize() int { return 64 }

func zzXpSHA256() hash.Hash { return &zzXpHash{name: "sha256", size: 32} }
func zzXpSHA384() hash.Hash { return &zzXpHash{name: "sha384", size: 48} }
func zzXpSHA1() hash.Hash   { return &zzXpHash{name: "sha1", size: 20} }

func zzXpHashName(h func() hash.Hash) string {
	f, ok := h().(*zzXpHash)
	if !ok {
		return "?"
	}
	return f.name
}

func zzXpItoa(n int) string {
	if n == 0 {
		return "0"
	}
	s := ""
	for n > 0 {
		s = string(rune('0'+n%10)) + s
		n /= 10
	}
	return s
}

type zzXpCall struct {
	secret, seed []byte
	label        string
	length       int
	hash         string
}

var (
	zzXpPRFLog    []zzXpCall
	zzXpExpandLog []zzXpCall
)

func zzXpPHash(secret, seed []byte, requestedLength int, hashFunc prf.HashFunc) ([]byte, error) {
	name := zzXpHashName(hashFunc)
	zzXpPRFLog = append(zzXpPRFLog, zzXpCall{secret: append([]byte{}, secret...), seed: append([]byte{}, seed...), length: requestedLength, hash: name})
	return zzsymUF("P_"+name+"_"+zzXpItoa(requestedLength), requestedLength, secret, seed), nil
}

func zzXpExpandLabel(h func() hash.Hash, secret []byte, label string, context []byte, length int) ([]byte, error) {
	name := zzXpHashName(h)
	zzXpExpandLog = append(zzXpExpandLog, zzXpCall{secret: append([]byte{}, secret...), seed: append([]byte{}, context...), label: label, length: length, hash: name})
	return zzsymUF("X_"+name+"_"+zzXpItoa(length), length, secret, []byte(label), context), nil
}

func zzXpNewGCM(localKey, localWriteIV, remoteKey, remoteWriteIV []byte) (*cryptosuite.GCM, error) {
	return &cryptosuite.GCM{}, nil
}
func zzXpNewCCM(tagLen cryptosuite.CCMTagLen, localKey, localWriteIV, remoteKey, remoteWriteIV []byte) (*cryptosuite.CCM, error) {
	return &cryptosuite.CCM{}, nil
}
func zzXpNewChaCha(localKey, localWriteIV, remoteKey, remoteWriteIV []byte) (*cryptosuite.ChaCha20Poly1305, error) {
	return &cryptosuite.ChaCha20Poly1305{}, nil
}
func zzXpNewCBC(localKey, localWriteIV, localMac, remoteKey, remoteWriteIV, remoteMac []byte, hashFunc prf.HashFunc) (*cryptosuite.CBC, error) {
	return &cryptosuite.CBC{}, nil
}

// zzXpLen maps a choice to an export length: quick uses the menu 32, 0, 1, 64; thorough every length 0..64.
func zzXpLen() int {
	n := zzsymParam("NXL")
	i := zzsymChoice("length", n)
	if n <= 4 {
		return []int{32, 0, 1, 64}[i]
	}
	return i
}

func zzXpRandom(name string) (handshake.Random, [32]byte) {
	var raw [32]byte
	copy(raw[:], zzsymBytes(name, 32))
	var r handshake.Random
	r.UnmarshalFixed(raw)
	return r, raw
}

// exporter_mirror (DTLS 1.2). Two internal connection states are built as the two ends of one finished
// handshake hold them: same cipher suite id (quick: one SHA-256 and one SHA-384 suite, thorough: one suite of
// every family), same symbolic 48-byte master secret, the client's local random is the server's remote random
// and vice versa (all 64 bytes symbolic), epoch 1. The public State is produced by the real generateState on
// each side and ExportKeyingMaterial is called on both with the same symbolic label (0..NXLBL-1 bytes) and the
// same length (quick: 0, 1, 32, 64; thorough: every length 0..64). P_hash is uninterpreted. Proved: both calls
// succeed and return byte-identical keying material; the PRF request of both sides is secret = master secret,
// seed = label || client_random || server_random (RFC 5705 section 4), same length and same PRF hash.
//
//symgo:entry covers=exported,sha256,sha384,len0,len64
func zzExporterMirror12() {
	zzXpPRFLog, zzXpExpandLog = nil, nil
	ids := []CipherSuiteID{
		TLS_ECDHE_ECDSA_WITH_AES_128_GCM_SHA256, TLS_ECDHE_ECDSA_WITH_AES_256_GCM_SHA384,
		TLS_ECDHE_ECDSA_WITH_AES_128_CCM, TLS_ECDHE_ECDSA_WITH_AES_256_CBC_SHA,
		TLS_ECDHE_ECDSA_WITH_CHACHA20_POLY1305_SHA256, TLS_ECDHE_PSK_WITH_AES_128_CBC_SHA256,
	}
	id := ids[zzsymChoice("suite", zzsymParam("NXS"))]
	ms := zzsymBytes("master_secret", 48)
	cr, crRaw := zzXpRandom("client_random")
	sr, srRaw := zzXpRandom("server_random")
	label := zzsymString("label", zzsymChoice("labellen", zzsymParam("NXLBL")))
	length := zzXpLen()

	mk := func(isClient bool) *State {
		st := &dtlsstate.State{Common: &dtlsstate.Common{IsClient: isClient, LocalVersion: protocol.Version1_2}}
		st.CipherSuite = ciphersuite.ForID(id, nil)
		st.MasterSecret = ms
		if isClient {
			st.LocalRandom, st.RemoteRandom = cr, sr
		} else {
			st.LocalRandom, st.RemoteRandom = sr, cr
		}
		st.SetLocalEpoch(1)
		st.SetRemoteEpoch(1)
		st.LocalSequenceNumber = []uint64{0, 0}
		out, err := generateState(st)
		zzsymAssert(err == nil, "xp/state_generated")
		return out
	}
	client, server := mk(true), mk(false)
	zzsymAssert(client.CipherSuiteID == server.CipherSuiteID, "xp/same_suite_id")

	outC, errC := client.ExportKeyingMaterial(label, nil, length)
	nC := len(zzXpPRFLog)
	outS, errS := server.ExportKeyingMaterial(label, nil, length)
	nS := len(zzXpPRFLog)
	zzsymAssert(errC == nil, "xp/client_export_ok")
	zzsymAssert(errS == nil, "xp/server_export_ok")
	zzsymAssert(len(outC) == length, "xp/client_export_length")
	zzsymAssert(zzsymEqBytes(outC, outS), "xp/exported_material_identical")

	zzsymAssert(nC >= 1 && nS > nC, "xp/prf_called_per_side")
	pc, ps := zzXpPRFLog[nC-1], zzXpPRFLog[nS-1]
	want := append(append([]byte(label), crRaw[:]...), srRaw[:]...)
	zzsymAssert(zzsymEqBytes(pc.secret, ms), "xp/client_prf_secret_is_master_secret")
	zzsymAssert(zzsymEqBytes(ps.secret, ms), "xp/server_prf_secret_is_master_secret")
	zzsymAssert(zzsymEqBytes(pc.seed, want), "xp/client_seed_is_label_cr_sr")
	zzsymAssert(zzsymEqBytes(ps.seed, want), "xp/server_seed_is_label_cr_sr")
	zzsymAssert(pc.length == length && ps.length == length, "xp/prf_length")
	zzsymAssert(pc.hash == ps.hash, "xp/same_prf_hash")
	zzsymCover("exported")
	if pc.hash == "sha256" {
		zzsymCover("sha256")
	}
	if pc.hash == "sha384" {
		zzsymCover("sha384")
	}
	if length == 0 {
		zzsymCover("len0")
	}
	if length == 64 {
		zzsymCover("len64")
	}
}

// exporter_mirror (DTLS 1.3). Two State13 values with the same TLS 1.3 suite (AES_128_GCM_SHA256,
// AES_256_GCM_SHA384, CHACHA20_POLY1305_SHA256), the same symbolic exporter master secret (hash-length bytes),
// opposite roles and mirrored randoms go through the real generateState13 and ExportKeyingMaterial with the
// same symbolic label (0..NXLBL-1 bytes) and length. HKDF-Expand-Label and the hash are uninterpreted.
// Proved: both succeed with byte-identical output, and both evaluate exactly the RFC 8446 section 7.5 chain
// HKDF-Expand-Label(Derive-Secret(exporter_master_secret, label, ""), "exporter", Hash(""), length) - the role
// and the randoms do not enter the computation.
//
//symgo:entry covers=exported13,sha256,sha384
func zzExporterMirror13() {
	zzXpPRFLog, zzXpExpandLog = nil, nil
	ids := []CipherSuiteID{TLS_AES_128_GCM_SHA256, TLS_AES_256_GCM_SHA384, TLS_CHACHA20_POLY1305_SHA256}
	id := ids[zzsymChoice("suite", len(ids))]
	hlen := 32
	if id == TLS_AES_256_GCM_SHA384 {
		hlen = 48
	}
	ems := zzsymBytes("exporter_master_secret", hlen)
	cr, _ := zzXpRandom("client_random")
	sr, _ := zzXpRandom("server_random")
	label := zzsymString("label", zzsymChoice("labellen", zzsymParam("NXLBL")))
	length := zzXpLen()

	mk := func(isClient bool) *State {
		st := &dtlsstate.State13{Common: &dtlsstate.Common{IsClient: isClient, LocalVersion: protocol.Version1_3}}
		st.CipherSuite = ciphersuite.ForID(id, nil)
		if isClient {
			st.LocalRandom, st.RemoteRandom = cr, sr
		} else {
			st.LocalRandom, st.RemoteRandom = sr, cr
		}
		st.SetLocalEpoch(3)
		st.SetRemoteEpoch(3)
		st.KeySchedule.ExporterMasterSecret = ems
		out, err := generateState13(st)
		zzsymAssert(err == nil, "xp13/state_generated")
		return out
	}
	client, server := mk(true), mk(false)
	outC, errC := client.ExportKeyingMaterial(label, nil, length)
	nC := len(zzXpExpandLog)
	outS, errS := server.ExportKeyingMaterial(label, nil, length)
	zzsymAssert(errC == nil, "xp13/client_export_ok")
	zzsymAssert(errS == nil, "xp13/server_export_ok")
	zzsymAssert(len(outC) == length, "xp13/client_export_length")
	zzsymAssert(zzsymEqBytes(outC, outS), "xp13/exported_material_identical")
	zzsymAssert(len(zzXpPRFLog) == 0, "xp13/tls12_prf_not_used")
	zzsymAssert(nC == 2 && len(zzXpExpandLog) == 4, "xp13/two_expand_steps_per_side")
	hname := "sha256"
	if hlen == 48 {
		hname = "sha384"
		zzsymCover("sha384")
	} else {
		zzsymCover("sha256")
	}
	emptyHash := zzsymUF("hash_"+hname, hlen, []byte{})
	for side := 0; side < 2; side++ {
		d, e := zzXpExpandLog[2*side], zzXpExpandLog[2*side+1]
		zzsymAssert(zzsymEqBytes(d.secret, ems), "xp13/derive_keyed_with_exporter_master_secret")
		zzsymAssert(d.label == label, "xp13/derive_label_is_exporter_label")
		zzsymAssert(zzsymEqBytes(d.seed, emptyHash), "xp13/derive_context_is_hash_of_empty")
		zzsymAssert(d.length == hlen, "xp13/derive_length_is_hash_length")
		derived := zzsymUF("X_"+hname+"_"+zzXpItoa(hlen), hlen, ems, []byte(label), emptyHash)
		zzsymAssert(zzsymEqBytes(e.secret, derived), "xp13/second_step_keyed_with_derived_secret")
		zzsymAssert(e.label == "exporter", "xp13/second_label")
		zzsymAssert(zzsymEqBytes(e.seed, emptyHash), "xp13/second_context_is_hash_of_empty_context")
		zzsymAssert(e.length == length, "xp13/second_length")
		zzsymAssert(d.hash == hname && e.hash == hname, "xp13/suite_hash")
	}
	zzsymCover("exported13")
}
