package ciphersuite

//symgo:pkg github.com/pion/dtls/v3/internal/ciphersuite
//symgo:param NAD quick=5 thorough=17
//symgo:param NADPAY quick=2 thorough=4
//symgo:replace github.com/pion/dtls/v3/pkg/crypto/prf.PHash zzAdPHash
//symgo:replace crypto/hmac.New zzAdHmacNew
//symgo:replace crypto/sha256.New zzAdSHA256
//symgo:replace crypto/sha512.New384 zzAdSHA384
//symgo:replace crypto/sha1.New zzAdSHA1
//symgo:replace crypto/aes.NewCipher zzAdAESNewCipher
//symgo:replace crypto/cipher.NewGCM zzAdNewGCM
//symgo:replace github.com/pion/dtls/v3/pkg/crypto/ccm.NewCCM zzAdNewCCM
//symgo:replace golang.org/x/crypto/chacha20poly1305.New zzAdNewChaCha
//symgo:replace crypto/cipher.NewCBCEncrypter zzAdNewCBCEncrypter
//symgo:replace crypto/cipher.NewCBCDecrypter zzAdNewCBCDecrypter
//symgo:replace crypto/rand.Read zzAdRandRead
//symgo:stub prf.PHash is the uninterpreted function P_<hash>_<length>(secret, seed), so both endpoints cut their keys from the same symbolic key block
//symgo:stub AEADs (AES-GCM, AES-CCM, ChaCha20-Poly1305) are abstract: Seal(key, nonce, plaintext, aad) = plaintext || TAG(key, nonce, plaintext, aad) with TAG uninterpreted; Open recomputes the tag from ITS key, nonce and aad and fails unless it matches - i.e. Open succeeds only when the receiver derived the same key, nonce and additional data as the sender (up to collisions of the uninterpreted tag)
//symgo:stub CBC mode is the identity on blocks (key recorded), HMAC is the uninterpreted function HMAC_<hash>(key, message); crypto/rand.Read (explicit CBC IV) hands out fresh symbolic bytes
//symgo:outside confidentiality and integrity of the primitives themselves; Conn-level handling (sequence allocation, replay window, inner-plaintext framing of CID records) is C05/C07/C09 territory

import (
	"crypto/aes"
	"crypto/cipher"
	"errors"
	"hash"

	"github.com/pion/dtls/v3/pkg/crypto/ccm"
	"github.com/pion/dtls/v3/pkg/crypto/prf"
	"github.com/pion/dtls/v3/pkg/protocol"
	"github.com/pion/dtls/v3/pkg/protocol/recordlayer"
)

type zzAdHash struct {
	name string
	size int
	buf  []byte
}

func (h *zzAdHash) Write(p []byte) (int, error) { h.buf = append(h.buf, p...); return len(p), nil }
func (h *zzAdHash) Sum(b []byte) []byte         { return append(b, zzsymUF("hash_"+h.name, h.size, h.buf)...) }
func (h *zzAdHash) Reset()                      { h.buf = nil }
func (h *zzAdHash) Size() int                   { return h.size }
func (h *zzAdHash) BlockSize() int              { return 64 }

func zzAdSHA256() hash.Hash { return &zzAdHash{name: "sha256", size: 32} }
func zzAdSHA384() hash.Hash { return &zzAdHash{name: "sha384", size: 48} }
func zzAdSHA1() hash.Hash   { return &zzAdHash{name: "sha1", size: 20} }

type zzAdHmac struct {
	name string
	size int
	key  []byte
	buf  []byte
}

func (h *zzAdHmac) Write(p []byte) (int, error) { h.buf = append(h.buf, p...); return len(p), nil }
func (h *zzAdHmac) Sum(b []byte) []byte {
	return append(b, zzsymUF("hmac_"+h.name, h.size, h.key, h.buf)...)
}
func (h *zzAdHmac) Reset()         { h.buf = nil }
func (h *zzAdHmac) Size() int      { return h.size }
func (h *zzAdHmac) BlockSize() int { return 64 }

func zzAdHmacNew(h func() hash.Hash, key []byte) hash.Hash {
	inner := h().(*zzAdHash)
	return &zzAdHmac{name: inner.name, size: inner.size, key: append([]byte{}, key...)}
}

func zzAdItoa(n int) string {
	if n == 0 {
		return "0"
	}
	s := ""
	for n > 0 {
		s = string(rune('0'+n%10)) + s
		n /= 10
	}
	return s
}

func zzAdPHash(secret, seed []byte, requestedLength int, hashFunc prf.HashFunc) ([]byte, error) {
	name := hashFunc().(*zzAdHash).name
	return zzsymUF("P_"+name+"_"+zzAdItoa(requestedLength), requestedLength, secret, seed), nil
}

type zzAdBlock struct{ key []byte }

func (b *zzAdBlock) BlockSize() int          { return 16 }
func (b *zzAdBlock) Encrypt(dst, src []byte) { copy(dst, src[:16]) }
func (b *zzAdBlock) Decrypt(dst, src []byte) { copy(dst, src[:16]) }

func zzAdAESNewCipher(key []byte) (cipher.Block, error) {
	switch len(key) {
	case 16, 24, 32:
		return &zzAdBlock{key: append([]byte{}, key...)}, nil
	}
	return nil, aes.KeySizeError(len(key))
}

// zzAdAEAD: see the stub description above.
type zzAdAEAD struct {
	alg     string
	key     []byte
	tagLen  int
	nonceSz int
}

func (a *zzAdAEAD) NonceSize() int { return a.nonceSz }
func (a *zzAdAEAD) Overhead() int  { return a.tagLen }
func (a *zzAdAEAD) MaxLength() int { return 1 << 16 }
func (a *zzAdAEAD) tag(nonce, plaintext, aad []byte) []byte {
	return zzsymUF("tag_"+a.alg, a.tagLen, a.key, nonce, plaintext, aad)
}
func (a *zzAdAEAD) Seal(dst, nonce, plaintext, additionalData []byte) []byte {
	pt := append([]byte{}, plaintext...)
	out := append(dst, pt...)
	return append(out, a.tag(nonce, pt, additionalData)...)
}
func (a *zzAdAEAD) Open(dst, nonce, ciphertext, additionalData []byte) ([]byte, error) {
	if len(ciphertext) < a.tagLen {
		return nil, errors.New("zz: short ciphertext")
	}
	pt := append([]byte{}, ciphertext[:len(ciphertext)-a.tagLen]...)
	got := ciphertext[len(ciphertext)-a.tagLen:]
	if !zzsymEqBytes(got, a.tag(nonce, pt, additionalData)) {
		return nil, errors.New("zz: authentication failed")
	}
	return append(dst, pt...), nil
}

func zzAdNewGCM(b cipher.Block) (cipher.AEAD, error) {
	return &zzAdAEAD{alg: "gcm", key: b.(*zzAdBlock).key, tagLen: 16, nonceSz: 12}, nil
}
func zzAdNewCCM(b cipher.Block, tagsize, noncesize int) (ccm.CCM, error) {
	return &zzAdAEAD{alg: "ccm", key: b.(*zzAdBlock).key, tagLen: tagsize, nonceSz: noncesize}, nil
}
func zzAdNewChaCha(key []byte) (cipher.AEAD, error) {
	if len(key) != 32 {
		return nil, errors.New("chacha20poly1305: bad key length")
	}
	return &zzAdAEAD{alg: "chacha", key: append([]byte{}, key...), tagLen: 16, nonceSz: 12}, nil
}

type zzAdCBC struct{ key, iv []byte }

func (c *zzAdCBC) BlockSize() int              { return 16 }
func (c *zzAdCBC) SetIV(iv []byte)             { c.iv = append([]byte{}, iv...) }
func (c *zzAdCBC) CryptBlocks(dst, src []byte) { copy(dst, src) }

func zzAdNewCBCEncrypter(b cipher.Block, iv []byte) cipher.BlockMode {
	return &zzAdCBC{key: b.(*zzAdBlock).key}
}
func zzAdNewCBCDecrypter(b cipher.Block, iv []byte) cipher.BlockMode {
	return &zzAdCBC{key: b.(*zzAdBlock).key}
}

func zzAdRandRead(b []byte) (int, error) {
	copy(b, zzsymBytes("record_iv", len(b)))
	return len(b), nil
}

// Application data flows in both directions once both sides hold the same master secret. For a DTLS 1.2
// suite (quick: one per family GCM / CCM / CBC / ChaCha20-Poly1305 plus one CCM_8; thorough: all 17), a symbolic 48-byte master
// secret and symbolic randoms, a client instance (Init ..., true) and a server instance (Init ..., false) are
// set up; one of them protects one application-data record of epoch 1 with an arbitrary 48-bit sequence number
// and 0, 1 or NADPAY arbitrary payload bytes - plain (content type 23) or connection-id framed (content type 25 with a
// 2-byte CID and inner plaintext content || 23) - and the other one unprotects the resulting bytes. AEADs, HMAC
// and P_hash are abstract (see stubs): unprotecting succeeds only if the receiver derives the same key, nonce /
// IV and additional data / MAC input as the sender. Proved for both directions: Decrypt succeeds and returns
// exactly the record header (epoch, sequence number, content type, version, CID) followed by the sender's payload.
//
//symgo:entry covers=c2s,s2c,plain_record,cid_record,gcm,ccm,cbc,chacha
func zzAppDataFlows() {
	// quick tier: one suite per family plus a CCM_8 one (8-byte tag: the shortest protected records; seed C01k-2)
	ids := []ID{}
	for i, x := range zzKbSuites() {
		if i == 4 {
			ids = append(ids, TLS_ECDHE_ECDSA_WITH_AES_128_CCM_8)
		}
		if i < 4 || x != TLS_ECDHE_ECDSA_WITH_AES_128_CCM_8 {
			ids = append(ids, x)
		}
	}
	id := ids[zzsymChoice("suite", zzsymParam("NAD"))]
	ms := zzsymBytes("master_secret", 48)
	cr := zzsymBytes("client_random", 32)
	sr := zzsymBytes("server_random", 32)
	client, server := ForID(id, nil), ForID(id, nil)
	zzsymAssert(client.Init(ms, cr, sr, true) == nil, "ad/client_init_ok")
	zzsymAssert(server.Init(ms, cr, sr, false) == nil, "ad/server_init_ok")

	sender, receiver := client, server
	if zzsymChoice("direction", 2) == 1 {
		sender, receiver = server, client
		zzsymCover("s2c")
	} else {
		zzsymCover("c2s")
	}

	seq := zzsymU64("sequence_number")
	zzsymAssume(seq <= recordlayer.MaxSequenceNumber)
	// payload lengths 0 (an empty write), 1 and NADPAY: short records must flow like any other
	payload := zzsymBytes("payload", []int{zzsymParam("NADPAY"), 0, 1}[zzsymChoice("payload_len", 3)])
	hdr := recordlayer.Header{ContentType: protocol.ContentTypeApplicationData, Version: protocol.Version1_2, Epoch: 1, SequenceNumber: seq}
	rxHdr := recordlayer.Header{}
	if zzsymChoice("cid_record", 2) == 1 {
		cid := zzsymBytes("cid", 2)
		hdr.ContentType = protocol.ContentTypeConnectionID
		hdr.ConnectionID = cid
		rxHdr.ConnectionID = make([]byte, len(cid)) // the receiver knows the length of its own CID
		payload = append(payload, byte(protocol.ContentTypeApplicationData))
		zzsymCover("cid_record")
	} else {
		zzsymCover("plain_record")
	}
	hdr.ContentLen = uint16(len(payload))
	rawHdr, err := hdr.Marshal()
	zzsymAssert(err == nil, "ad/header_marshals")
	plain := append(append([]byte{}, rawHdr...), payload...)

	wire, err := sender.Encrypt(&recordlayer.RecordLayer{Header: hdr}, append([]byte{}, plain...))
	zzsymAssert(err == nil, "ad/encrypt_ok")
	got, err := receiver.Decrypt(rxHdr, append([]byte{}, wire...))
	zzsymAssert(err == nil, "ad/peer_decrypts")
	zzsymAssert(len(got) == len(plain), "ad/plaintext_length")
	zzsymAssert(zzsymEqBytes(got[len(rawHdr):], payload), "ad/payload_delivered_unchanged")
	zzsymAssert(zzsymEqBytes(got[:len(rawHdr)-2], rawHdr[:len(rawHdr)-2]), "ad/header_delivered_unchanged")

	switch id {
	case TLS_ECDHE_ECDSA_WITH_AES_128_GCM_SHA256:
		zzsymCover("gcm")
	case TLS_ECDHE_ECDSA_WITH_AES_128_CCM:
		zzsymCover("ccm")
	case TLS_ECDHE_ECDSA_WITH_AES_256_CBC_SHA:
		zzsymCover("cbc")
	case TLS_ECDHE_ECDSA_WITH_CHACHA20_POLY1305_SHA256:
		zzsymCover("chacha")
	}
}
