package dtls

// GENERATED from harness/C20/conn_keys.go (entry kept: zzEpochGate). C06: a record is checked against the replay window of
// the epoch whose keys opened it - with read keys of epochs E and E+4 both retained (same two epoch bits on the wire) a
// late duplicate of an epoch-E record must meet epoch E's window, not the fresh one of E+4.

//symgo:pkg github.com/pion/dtls/v3
//symgo:param NSHAPES quick=3 thorough=6
//symgo:stub RecordProtection13 is a harness fake: UnmaskSequenceNumber yields an arbitrary (symbolic) clear sequence number, Open succeeds iff this generation is the one chosen as the sealer of the record (AEAD assumption: a record authenticates under at most one generation's key; "no sealer" models a forged/foreign record), yields an arbitrary inner content type, and records the sequence number it was handed
//symgo:assume retained read generations have consecutive epochs base..base+n-1 (Install is only ever called with epoch = current+1 by handleKeyUpdate / the handshake), the newest being the current one
//symgo:assume a generation counter is far below 2^64 (it starts at 0 and is incremented once per epoch; epochs are 16 bit), so generation+1 does not wrap
//symgo:outside concurrent writers racing with commitLocalKeyUpdate (serialised by writeLock+lock, not explored), loss/duplication schedules (per epoch through C06's window induction)

import (
	"errors"

	dtlsciphersuite "github.com/pion/dtls/v3/internal/ciphersuite"
	dtlserrors "github.com/pion/dtls/v3/internal/errors"
	dtlsstate "github.com/pion/dtls/v3/internal/state"
	"github.com/pion/dtls/v3/pkg/protocol"
	"github.com/pion/dtls/v3/pkg/protocol/recordlayer"
)

// ---------------------------------------------------------------------------------------------
// write_gen_step
// ---------------------------------------------------------------------------------------------

// zzGen20 builds a traffic generation with symbolic epoch and generation counter (or nil).
func zzGen20(name string, present bool) *dtlsstate.TrafficGeneration {
	if !present {
		return nil
	}

	return &dtlsstate.TrafficGeneration{
		Epoch:      zzsymU16(name + "_epoch"),
		Generation: zzsymU64(name + "_gen"),
	}
}

// validateNextWriteGeneration for every (current, next, localEpoch) - each generation nil or with arbitrary
// 16-bit epoch and 64-bit generation counter: it accepts exactly when both exist, the current generation is
// the one the connection is sending under (epoch = local epoch), the current epoch is not 65535 (overflow
// refused) and next is the immediate successor (epoch+1 and generation+1, compared as integers, no wrap).
// Hence an accepted next epoch is strictly greater than the current sending epoch.
//
func zzWriteGenValidate() {
	cur := zzGen20("cur", zzsymChoice("cur_present", 2) == 1)
	next := zzGen20("next", zzsymChoice("next_present", 2) == 1)
	local := zzsymU16("local")
	if cur != nil {
		// generation counters start at 0 and grow by one per epoch: never anywhere near 2^64 (see //symgo:assume)
		zzsymAssume(cur.Generation < 1<<32)
	}
	err := validateNextWriteGeneration(cur, next, local)
	if cur == nil || next == nil {
		zzsymAssert(err != nil, "nil_generation_refused")
		zzsymCover("val_reject_nil")

		return
	}
	// oracle on unbounded integers (uint32 cannot wrap for 16-bit operands)
	succEpoch := uint32(next.Epoch) == uint32(cur.Epoch)+1
	succGen := next.Generation == cur.Generation+1
	want := zzsymAnd(zzsymAnd(cur.Epoch == local, cur.Epoch != 0xffff), zzsymAnd(succEpoch, succGen))
	if cur.Epoch == 0xffff {
		zzsymAssert(err != nil, "epoch_overflow_refused")
		zzsymCover("val_reject_overflow")
	}
	if err == nil {
		zzsymAssert(want, "accept_only_immediate_successor")
		zzsymAssert(next.Epoch > local, "accepted_epoch_strictly_greater")
		zzsymCover("val_accept")
	} else {
		zzsymAssert(zzsymNot(want), "reject_only_non_successor")
		zzsymCover("val_reject_mismatch")
	}
}

// zzLog20 is a silent logging.LeveledLogger.
type zzLog20 struct{}

func (zzLog20) Trace(string)          {}
func (zzLog20) Tracef(string, ...any) {}
func (zzLog20) Debug(string)          {}
func (zzLog20) Debugf(string, ...any) {}
func (zzLog20) Info(string)           {}
func (zzLog20) Infof(string, ...any)  {}
func (zzLog20) Warn(string)           {}
func (zzLog20) Warnf(string, ...any)  {}
func (zzLog20) Error(string)          {}
func (zzLog20) Errorf(string, ...any) {}

func zzConn13(isClient bool) (*Conn, *dtlsstate.State13) {
	st := dtlsstate.NewState13(isClient)
	c := &Conn{
		state:                   &st,
		maximumTransmissionUnit: 1200,
		paddingLengthGenerator:  func(uint) uint { return 0 },
		replayProtectionWindow:  64,
		log:                     zzLog20{},
	}

	return c, &st
}

// commitLocalKeyUpdate on a DTLS 1.3 connection whose current write generation has an arbitrary epoch and
// generation counter, arbitrary local (sending) epoch, optionally one older retained write generation, and an
// arbitrary candidate generation: on success the sending epoch is exactly previous+1, the candidate is the
// current write generation with generation counter previous+1, and the previous generation is still retained
// under its epoch; on refusal nothing changes. In both cases the sending epoch does not decrease, and an
// update from epoch 65535 is refused. Missing key state (nil TrafficKeys / DTLS 1.2 state) is refused.
//
func zzWriteGenCommit() {
	c, st := zzConn13(zzsymChoice("client", 2) == 1)
	switch zzsymChoice("shape", 3) {
	case 1:
		st.TrafficKeys = nil
		err := c.commitLocalKeyUpdate(zzGen20("next", true))
		zzsymAssert(err != nil, "no_key_state_refused")
		zzsymCover("commit_nokeys")

		return
	case 2:
		c.state = dtlsstate.NewActive(true)
		pre := zzsymU16("local")
		c.setLocalEpoch(pre)
		err := c.commitLocalKeyUpdate(zzGen20("next", true))
		zzsymAssert(err != nil, "dtls12_state_refused")
		zzsymAssert(dtlsstate.CommonState(c.state).LocalEpoch() == pre, "dtls12_epoch_unchanged")
		zzsymCover("commit_not13")

		return
	}
	cur := zzGen20("cur", true)
	if zzsymChoice("has_old", 2) == 1 {
		old := zzGen20("old", true)
		zzsymAssume(uint32(old.Epoch)+1 == uint32(cur.Epoch))
		st.TrafficKeys.Install(old, nil)
	}
	st.TrafficKeys.Install(cur, nil)
	local := zzsymU16("local")
	st.SetLocalEpoch(local)
	next := zzGen20("next", zzsymChoice("next_present", 2) == 1)

	err := c.commitLocalKeyUpdate(next)

	now, ok := st.TrafficKeys.CurrentWrite()
	zzsymAssert(ok, "write_generation_present")
	zzsymAssert(st.LocalEpoch() >= local, "sending_epoch_never_decreases")
	if err != nil {
		zzsymAssert(now == cur, "refusal_keeps_generation")
		zzsymAssert(st.LocalEpoch() == local, "refusal_keeps_epoch")
		if cur.Epoch == 0xffff {
			zzsymCover("commit_overflow")
		}
		zzsymCover("commit_refused")

		return
	}
	zzsymAssert(cur.Epoch != 0xffff, "epoch_overflow_refused")
	zzsymAssert(cur.Epoch == local, "commit_only_from_sending_epoch")
	zzsymAssert(uint32(st.LocalEpoch()) == uint32(local)+1, "sending_epoch_is_previous_plus_one")
	zzsymAssert(now == next, "candidate_is_current_write")
	zzsymAssert(now.Epoch == st.LocalEpoch(), "write_generation_epoch_is_sending_epoch")
	zzsymAssert(now.Generation == cur.Generation+1, "generation_is_previous_plus_one")
	prev, found := st.TrafficKeys.Write(local)
	zzsymAssert(found && prev == cur, "previous_write_generation_retained")
	zzsymCover("commit_ok")
}

// ---------------------------------------------------------------------------------------------
// seq_reconstruct
// ---------------------------------------------------------------------------------------------

// reconstructSequenceNumber (RFC 9147 section 4.2.2): for every 48-bit record sequence number s, every
// highest-received value h < 2^48 and both on-the-wire widths b in {8, 16}: if s lies in the window
// expected-2^(b-1) < s <= expected+2^(b-1) around expected = h+1, the low b bits of s are expanded back to
// exactly s. Independently of the window, the result always agrees with the wire bits (mod 2^b).
//
func zzSeqReconstruct() {
	s := zzsymU64("s")
	h := zzsymU64("h")
	zzsymAssume(s <= recordlayer.MaxSequenceNumber)
	zzsymAssume(h <= recordlayer.MaxSequenceNumber)
	wide := zzsymChoice("seqbit", 2) == 1
	bits := uint(8)
	if wide {
		bits = 16
		zzsymCover("seq16")
	} else {
		zzsymCover("seq8")
	}
	half := uint64(1) << (bits - 1)
	mask := uint64(1)<<bits - 1
	// the sender puts the low 16 bits in the header; with the 8-bit form only the low byte is on the wire.
	// The unused high byte is arbitrary: the function must ignore it.
	partial := uint16(s & mask)
	if !wide {
		partial |= uint16(zzsymU8("junk")) << 8
	}
	got := reconstructSequenceNumber(partial, wide, h)
	expected := h + 1
	zzsymAssert(got&mask == s&mask, "agrees_with_wire_bits")
	inWindow := zzsymAnd(s+half > expected, s <= expected+half)
	if inWindow {
		zzsymAssert(got == s, "in_window_reconstructed_exactly")
		if s < expected {
			zzsymCover("below_expected")
		}
		if s > expected {
			zzsymCover("above_expected")
		}
	} else {
		zzsymCover("out_of_window")
	}
}

// ---------------------------------------------------------------------------------------------
// epoch_gate
// ---------------------------------------------------------------------------------------------

type zzProt20 struct {
	clearSeq uint16
	authOK   bool
	realType protocol.ContentType
	opened   int
	gotSeq   uint64
}

func (p *zzProt20) Seal(
	h recordlayer.UnifiedHeader, _ uint64, _ protocol.ContentType, _ []byte,
) (recordlayer.CiphertextRecord13, error) {
	return recordlayer.CiphertextRecord13{Header: h}, nil
}

func (p *zzProt20) Open(_ recordlayer.UnifiedHeader, seq uint64, enc []byte) (recordlayer.InnerPlaintext, error) {
	p.opened++
	p.gotSeq = seq
	if !p.authOK {
		return recordlayer.InnerPlaintext{}, dtlserrors.ErrDecryptPacket
	}

	return recordlayer.InnerPlaintext{Content: enc, RealType: p.realType}, nil
}

func (p *zzProt20) UnmaskSequenceNumber(h recordlayer.UnifiedHeader, _ []byte) (recordlayer.UnifiedHeader, error) {
	h.SequenceNumber = p.clearSeq

	return h, nil
}

var _ dtlsciphersuite.RecordProtection13 = (*zzProt20)(nil)

func zzValidInner(t protocol.ContentType) bool {
	return zzsymOr(
		zzsymOr(t == protocol.ContentTypeAlert, t == protocol.ContentTypeHandshake),
		zzsymOr(
			zzsymOr(t == protocol.ContentTypeApplicationData, t == protocol.ContentTypeACK),
			t == protocol.ContentTypeReturnRoutabilityCheck,
		),
	)
}

// zzGenCount maps the shape index to the number of retained read generations: quick {1, 2, 5}, thorough 1..6.
func zzGenCount(i int) int {
	if zzsymParam("NSHAPES") == 3 {
		return []int{1, 2, 5}[i]
	}

	return i + 1
}

// openCiphertextRecord / readTrafficCandidates / TrafficKeyState.ReadCandidates: the receiver retains n read
// generations (quick n in {1,2,5}, thorough 1..6) with consecutive epochs base..base+n-1 for an arbitrary
// 16-bit base (the two low epoch bits collide from n = 5), the newest is current; the generation that sealed
// the record (any of them, or none = forged record) may or may not have its protection installed; the
// authorised remote epoch is arbitrary (so newer generations may be installed but not yet authorised); the
// record carries arbitrary low epoch bits, sequence bits and inner content type.
// Proved: a record is opened (returned) only with a retained generation whose epoch <= authorised remote epoch,
// whose low two bits equal the record's, and whose AEAD authenticated it; the epoch reported to the replay
// window is that generation's epoch and the sequence number is the one the AEAD authenticated. The AEAD of a
// generation that is not authorised yet, or whose low bits differ, is never even tried. Conversely, if the
// sealing generation is retained, authorised, matches the low bits and the inner type is legal, the record is
// opened (no false reject). A record for which no retained generation matches, or whose only matches are not
// yet authorised, is rejected with ErrInvalidEpoch.
//
//symgo:entry covers=opened_current,opened_old,rejected_unauthorised,rejected_not_retained,rejected_auth,rejected_inner_type,lowbit_collision_skipped
func zzEpochGate() {
	c, st := zzConn13(zzsymChoice("client", 2) == 1)
	n := zzGenCount(zzsymChoice("shape", zzsymParam("NSHAPES")))
	base := zzsymU16("base")
	zzsymAssume(uint32(base)+uint32(n) <= 0x10000) // epochs do not wrap
	sealer := zzsymChoice("sealer", n+1)           // index of the generation whose key sealed the record; n = none
	// which generation has no protection installed: 0 none, 1 the sealer, 2 the current one
	missing := -1
	switch zzsymChoice("missing", 3) {
	case 1:
		missing = sealer
	case 2:
		missing = n - 1
	}
	realType := protocol.ContentType(zzsymU8("inner_type"))
	prots := make([]*zzProt20, n)
	gens := make([]*dtlsstate.TrafficGeneration, n)
	for i := 0; i < n; i++ {
		prots[i] = &zzProt20{clearSeq: zzsymU16("clear_seq"), authOK: i == sealer, realType: realType}
		gens[i] = &dtlsstate.TrafficGeneration{Epoch: base + uint16(i), Generation: uint64(i)}
		if i != missing {
			gens[i].Protection = prots[i]
		}
		st.TrafficKeys.Install(nil, gens[i])
	}
	remote := zzsymU16("remote_epoch")
	st.SetRemoteEpoch(remote)
	low := zzsymU8("epoch_low")
	zzsymAssume(low <= 3)
	record := recordlayer.CiphertextRecord13{
		Header:          recordlayer.UnifiedHeader{EpochLow: low, SeqBit: zzsymChoice("seqbit", 2) == 1, SequenceNumber: zzsymU16("wire_seq")},
		EncryptedRecord: zzsymBytes("enc", 2),
	}

	inner, seq, epoch, err := c.openCiphertextRecord(record)

	// oracle, written over the generations this harness installed
	anyMatch, anyAuthorised, wouldOpen := false, false, false
	for i := 0; i < n; i++ {
		match := uint8(gens[i].Epoch&3) == low
		auth := zzsymAnd(match, gens[i].Epoch <= remote)
		anyMatch = zzsymOr(anyMatch, match)
		anyAuthorised = zzsymOr(anyAuthorised, auth)
		if i == sealer && i != missing {
			wouldOpen = zzsymAnd(auth, zzValidInner(realType))
		}
		// an unauthorised or non-matching generation's keys are never even tried
		if prots[i].opened > 0 {
			zzsymAssert(auth, "aead_tried_only_with_authorised_matching_generation")
		}
		zzsymAssert(prots[i].opened <= 1, "each_generation_tried_at_most_once")
	}
	if err == nil {
		zzsymAssert(sealer < n, "forged_record_never_opened")
		zzsymAssert(epoch <= remote, "opened_epoch_authorised")
		zzsymAssert(uint8(epoch&3) == low, "opened_epoch_low_bits_match")
		zzsymAssert(epoch == base+uint16(sealer), "opened_epoch_is_sealing_generation")
		used := prots[sealer]
		zzsymAssert(sealer != missing, "opened_generation_has_keys")
		zzsymAssert(used.opened == 1, "opened_generation_was_used")
		zzsymAssert(zzValidInner(inner.RealType), "inner_type_legal")
		zzsymAssert(inner.RealType == realType, "inner_from_opening_generation")
		zzsymAssert(zzsymEqBytes(inner.Content, record.EncryptedRecord), "content_from_opening_generation")
		zzsymAssert(seq == used.gotSeq, "sequence_number_is_the_authenticated_one")
		if sealer == n-1 {
			zzsymCover("opened_current")
		} else {
			zzsymCover("opened_old")
		}
		// a colliding newer generation (epoch+4) is installed but not authorised yet, or failed to authenticate
		if sealer+4 < n {
			zzsymCover("lowbit_collision_skipped")
		}

		return
	}
	zzsymAssert(zzsymNot(wouldOpen), "no_false_reject")
	if !anyAuthorised {
		zzsymAssert(errors.Is(err, dtlserrors.ErrInvalidEpoch), "unauthorised_or_unknown_epoch_is_invalid_epoch")
		if anyMatch {
			zzsymCover("rejected_unauthorised")
		} else {
			zzsymCover("rejected_not_retained")
		}

		return
	}
	if sealer < n && sealer != missing && prots[sealer].opened == 1 {
		zzsymCover("rejected_inner_type")
	} else {
		zzsymCover("rejected_auth")
	}
}

// ---------------------------------------------------------------------------------------------
// exactly-once bookkeeping is per epoch (link to C06's window induction)
// ---------------------------------------------------------------------------------------------

// protectedReplayMarker / updateRemoteSequenceNumber / highestRemoteSequenceNumber across a key update: a first
// record (epoch e1 in 3..5, arbitrary 48-bit sequence number) is accepted and committed on a connection that has
// not received anything in these epochs; then a second record (epoch e2 in 3..5, arbitrary sequence number)
// arrives. Proved: the same (epoch, sequence number) is never accepted twice; a record of a different epoch is
// judged by that epoch's own window and is accepted even when its sequence number repeats the first one (new
// keys restart the sequence space, nothing delivered under the old keys can shadow it, and nothing is lost);
// the highest-seen sequence number used for reconstruction is tracked per epoch and never moves for another
// epoch. So C06's one-step window lemma applies to each key generation separately.
//
func zzReplayPerEpoch() {
	c, _ := zzConn13(true)
	e1 := uint16(3 + zzsymChoice("e1", 3))
	e2 := uint16(3 + zzsymChoice("e2", 3))
	s1 := zzsymU64("s1")
	s2 := zzsymU64("s2")
	zzsymAssume(s1 <= recordlayer.MaxSequenceNumber)
	zzsymAssume(s2 <= recordlayer.MaxSequenceNumber)
	mark1, ok1 := c.protectedReplayMarker(e1, s1)
	zzsymAssert(ok1, "first_record_of_epoch_accepted")
	mark1()
	zzsymAssert(c.highestRemoteSequenceNumber(e1) == s1, "highest_tracked_for_own_epoch")
	if e2 != e1 {
		zzsymAssert(c.highestRemoteSequenceNumber(e2) == 0, "other_epoch_highest_untouched")
	}
	mark2, ok2 := c.protectedReplayMarker(e2, s2)
	if e1 == e2 {
		if s1 == s2 {
			zzsymAssert(!ok2, "same_epoch_and_number_never_accepted_twice")
			zzsymCover("dup_rejected")

			return
		}
		if s2 > s1 {
			zzsymAssert(ok2, "newer_number_in_same_epoch_accepted")
			mark2()
			zzsymAssert(c.highestRemoteSequenceNumber(e1) == s2, "highest_advances_within_epoch")
			zzsymCover("same_epoch_fresh_accepted")
		}

		return
	}
	zzsymAssert(ok2, "record_of_other_epoch_judged_by_its_own_window")
	mark2()
	zzsymAssert(c.highestRemoteSequenceNumber(e2) == s2, "other_epoch_highest_tracked")
	zzsymAssert(c.highestRemoteSequenceNumber(e1) == s1, "first_epoch_highest_unchanged")
	zzsymCover("other_epoch_accepted")
}

// ---------------------------------------------------------------------------------------------
// sequence numbers are reconstructed against the opening generation's own epoch
// ---------------------------------------------------------------------------------------------

// zzInSeqWindow20: expected-2^(b-1) < x <= expected+2^(b-1) on unbounded integers (all operands < 2^49).
func zzInSeqWindow20(x, expected, half uint64) bool {
	return zzsymAnd(x+half > expected, x <= expected+half)
}

// openCiphertextRecord / openCiphertextWithGeneration with per-epoch receive state: the receiver retains read
// generations for epochs 3..3+n-1 (n = 2 or 3, the newest current, remote epoch = newest, so the read epoch has
// advanced past the older ones); the highest sequence number received so far is an independent arbitrary 48-bit
// value for every epoch (e.g. far above 65535 for the old epoch, small or still absent for the new one: the
// RemoteSequenceNumber table is also tried one entry short); the record is sealed by any one of the generations,
// with arbitrary clear sequence bits (8- or 16-bit form) under the sequence-number mask.
// Proved, against a reference written from RFC 9147 4.2.2 (the value congruent to the wire bits modulo 2^b that
// is closest to 1 + the highest number received IN THE EPOCH OF THE OPENING GENERATION): the number handed to
// that generation's AEAD (nonce), the number returned for the replay window / delivery, and the reported epoch
// are exactly the reference for the sealing generation's epoch - not the connection's current remote epoch, and
// not any other retained epoch. So a record written under the old keys that arrives after the read epoch
// advanced is still opened with its true record number whenever that lies within the reconstruction window of
// its own epoch.
//
func zzSeqPerEpoch() {
	c, st := zzConn13(zzsymChoice("client", 2) == 1)
	const base = 3
	n := 2 + zzsymChoice("ngen", 2)
	sealer := zzsymChoice("sealer", n)
	prots := make([]*zzProt20, n)
	for i := 0; i < n; i++ {
		prots[i] = &zzProt20{clearSeq: zzsymU16("clear_seq"), authOK: i == sealer, realType: protocol.ContentTypeApplicationData}
		st.TrafficKeys.Install(nil, &dtlsstate.TrafficGeneration{Epoch: uint16(base + i), Generation: uint64(i), Protection: prots[i]})
	}
	st.SetRemoteEpoch(uint16(base + n - 1))
	// per-epoch high-water marks; optionally the newest epoch has no entry yet (nothing received under it)
	common := dtlsstate.CommonState(c.state)
	entries := base + n - zzsymChoice("newest_missing", 2)
	high := make([]uint64, base+n)
	for e := 0; e < entries; e++ {
		h := zzsymU64("highest")
		zzsymAssume(h <= recordlayer.MaxSequenceNumber)
		common.RemoteSequenceNumber = append(common.RemoteSequenceNumber, h)
		high[e] = h
	}
	wide := zzsymChoice("seqbit", 2) == 1
	record := recordlayer.CiphertextRecord13{
		Header: recordlayer.UnifiedHeader{
			EpochLow: uint8((base + sealer) & 3), SeqBit: wide, SequenceNumber: zzsymU16("masked_seq"),
		},
		EncryptedRecord: zzsymBytes("enc", 2),
	}

	_, seq, epoch, err := c.openCiphertextRecord(record)

	zzsymAssert(err == nil, "record_of_retained_authorised_generation_opened")
	zzsymAssert(epoch == uint16(base+sealer), "reported_epoch_is_opening_generation")
	used := prots[sealer]
	zzsymAssert(used.opened == 1, "opening_generation_used_once")
	zzsymAssert(seq == used.gotSeq, "reported_number_is_the_authenticated_one")

	// reference reconstruction for the opening generation's epoch
	bits := uint(8)
	if wide {
		bits = 16
	}
	window := uint64(1) << bits
	half := window / 2
	mask := window - 1
	expected := high[base+sealer] + 1
	got := used.gotSeq
	zzsymAssert(got&mask == uint64(used.clearSeq)&mask, "number_agrees_with_unmasked_wire_bits")
	// closest to expected: inside the half-open window around it, or - when the in-window representative would be
	// negative - the smallest non-negative representative
	zzsymAssert(zzsymOr(zzInSeqWindow20(got, expected, half), zzsymAnd(got < window, got > expected)),
		"number_reconstructed_against_opening_epochs_highest")
	// the sender's true number t (any value in the window of its own epoch with these wire bits) is recovered
	t := zzsymU64("true_seq")
	zzsymAssume(t <= recordlayer.MaxSequenceNumber)
	zzsymAssume(t&mask == uint64(used.clearSeq)&mask)
	if zzInSeqWindow20(t, expected, half) {
		zzsymAssert(got == t, "true_number_in_own_epochs_window_recovered")
		if sealer < n-1 {
			zzsymCover("old_epoch_exact_number")
		}
	}
	newest := high[base+n-1]
	if sealer < n-1 {
		if zzsymAnd(high[base+sealer] > 1<<20, newest < 256) {
			zzsymCover("old_epoch_far_ahead_of_new")
		}
	} else {
		zzsymCover("new_epoch_record")
		if entries < base+n {
			zzsymAssert(got < window, "first_record_of_epoch_reconstructed_below_one_window")
			zzsymCover("no_highwater_yet")
		}
	}
}
