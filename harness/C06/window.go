package replaydetector

//symgo:pkg github.com/pion/transport/v4/replaydetector
//symgo:param NW quick=3 thorough=6
//symgo:assume the representation invariant of the sliding window is: every previously accepted t satisfies t<=latest and (latest-t>=W or bit(latest-t)=1); every set bit d<W stands for an accepted number latest-d
//symgo:outside window sizes that are not a multiple of 64 (not reachable from pion/dtls: effectiveReplayProtectionWindow rounds up; the dependency is wrong for sizes with remainder 33..63)
//symgo:outside sequence numbers within W of 2^64 (64-bit wrap of seq+W; DTLS never exceeds 2^48-1)
//symgo:outside arrival histories are covered by induction over this one-step lemma (base case: fresh detector checked separately), not enumerated

// zzWindowSize: the window sizes a pion/dtls connection can have. config.go effectiveReplayProtectionWindow rounds
// the configured size up to whole 64-bit words (entry zzEffectiveWindowWholeWords in conn_replay.go proves that for
// every int), because the detector is NOT a correct window for other sizes: newFixedBigInt computes the mask of
// its top word as (1<<(64-n%64))-1 instead of (1<<(n%64))-1, so that for n%64 in 33..63 accepted numbers are
// forgotten by the next shift and a replay inside the window passes (found by this lemma at size 63, confirmed
// natively through replaydetector.New(48, ...); repaired in pion/dtls by the rounding, see DESIGN 10.4).
func zzWindowSize(i int) uint {
	switch i {
	case 0:
		return 64
	case 1:
		return 128
	case 2:
		return 192
	case 3:
		return 256
	case 4:
		return 320
	case 5:
		return 512
	case 6:
		return 640
	}
	return 1024
}

func zzMaxSeq(i int) uint64 {
	if i == 0 {
		return 0x0000FFFFFFFFFFFF
	}
	return ^uint64(0)
}

// zzArbitraryDetector builds a detector in an arbitrary state (all window words and latest symbolic).
func zzArbitraryDetector(w uint, maxSeq uint64) *slidingWindowDetector {
	d := New(w, maxSeq).(*slidingWindowDetector)
	d.latestSeq = zzsymU64("latest")
	for i := range d.mask.bits {
		d.mask.bits[i] = zzsymU64("bits")
	}
	// representation invariant maintained by Lsh: bits above the mask are clear
	zzsymAssume(d.mask.bits[len(d.mask.bits)-1]&^d.mask.msbMask == 0)
	zzsymAssume(d.latestSeq <= maxSeq)
	// stated bound: sequence numbers within W of 2^64 are outside the claim (64-bit wrap of seq+W in checkSeq;
	// unreachable: DTLS sequence numbers never exceed 2^48-1)
	zzsymAssume(d.latestSeq <= ^uint64(0)-uint64(w))
	return d
}

// zzAccepted is the abstract "t was accepted and is still remembered or already too old" predicate.
func zzRemembered(d *slidingWindowDetector, t uint64) bool {
	if t > d.latestSeq {
		return false
	}
	diff := d.latestSeq - t
	if diff >= uint64(d.windowSize) {
		return true // too old: rejected regardless
	}
	return d.mask.Bit(uint(diff)) != 0
}

// One inductive step of the DTLS replay window from an arbitrary state: an already accepted number is never
// accepted again; a number less than W behind the newest and not yet accepted passes; accept() records
// exactly the new number and forgets nothing that is still inside the window.
//
//symgo:entry covers=rejected_dup,accepted_new,accepted_old_in_window
func zzWindowStep() {
	w := zzWindowSize(zzsymChoice("w", zzsymParam("NW")))
	maxSeq := zzMaxSeq(zzsymChoice("maxseq", 2))
	d := zzArbitraryDetector(w, maxSeq)
	seq := zzsymU64("seq")
	zzsymAssume(seq <= ^uint64(0)-uint64(w))
	t := zzsymU64("t") // any number accepted earlier
	zzsymAssume(zzRemembered(d, t))
	latest0 := d.latestSeq
	pre := append([]uint64{}, d.mask.bits...)

	// the bit (if any) that stood for seq before the step
	inWindow := seq <= latest0 && latest0-seq < uint64(w)
	wasSet := false
	if inWindow {
		wasSet = d.mask.Bit(uint(latest0-seq)) != 0
	}

	accept, ok := d.Check(seq)
	if seq == t {
		zzsymAssert(!ok, "accepted_number_is_rejected")
		zzsymCover("rejected_dup")
	}
	if seq > maxSeq {
		zzsymAssert(!ok, "beyond_max_rejected")
	}
	// tolerance: newer than newest, or inside the window and not yet seen => passes
	if seq <= maxSeq && (seq > latest0 || (inWindow && !wasSet)) {
		zzsymAssert(ok, "fresh_in_window_passes")
	}
	if ok {
		// soundness of the pass: the bit was clear / the number is ahead
		zzsymAssert(seq > latest0 || (inWindow && !wasSet), "pass_only_if_fresh")
	}
	if !ok {
		// a failed check changes nothing
		zzsymAssert(d.latestSeq == latest0, "reject_keeps_latest")
		zzsymAssert(!accept(), "reject_accept_is_nop")
		zzsymAssert(d.latestSeq == latest0, "reject_accept_keeps_latest")
		return
	}
	isLatest := accept()
	if seq > latest0 {
		zzsymCover("accepted_new")
		zzsymAssert(d.latestSeq == seq, "latest_advances_to_seq")
		zzsymAssert(isLatest, "reports_latest")
	} else {
		zzsymCover("accepted_old_in_window")
		zzsymAssert(d.latestSeq == latest0, "latest_unchanged_for_old")
	}
	// invariant re-established for the earlier number t and for seq itself
	zzsymAssert(zzRemembered(d, t), "earlier_number_still_remembered")
	zzsymAssert(zzRemembered(d, seq), "new_number_remembered")
	zzsymAssert(d.mask.bits[len(d.mask.bits)-1]&^d.mask.msbMask == 0, "mask_invariant")
	// nothing is remembered that was not accepted: any set bit is seq or a bit that was set before
	dd := zzsymU64("d")
	zzsymAssume(dd < uint64(w))
	zzsymAssume(dd <= d.latestSeq)
	if d.mask.Bit(uint(dd)) != 0 {
		u := d.latestSeq - dd // the number this bit stands for
		wasRemembered := u <= latest0 && latest0-u < uint64(w) && zzBit(pre, w, uint(latest0-u))
		zzsymAssert(u == seq || wasRemembered, "no_spurious_bit")
	}
}

func zzBit(bits []uint64, n uint, i uint) bool {
	if i >= n {
		return false
	}
	return bits[i/64]&(1<<(i%64)) != 0
}
