package dtls

//symgo:pkg github.com/pion/dtls/v3
//symgo:replace github.com/pion/transport/v4/replaydetector.New zzRecDetectorNew
//symgo:stub replaydetector.New is a recorder of its arguments that returns a detector accepting everything (what a detector of a given size does is window.go / conn_replay.go)
//symgo:native no

import (
	dtlsstate "github.com/pion/dtls/v3/internal/state"
	"github.com/pion/dtls/v3/pkg/protocol/recordlayer"
	"github.com/pion/transport/v4/replaydetector"
)

var zzRecWindows []uint
var zzRecMax []uint64

type zzAcceptAll struct{}

func (zzAcceptAll) Check(uint64) (func() bool, bool) { return func() bool { return true }, true }

func zzRecDetectorNew(windowSize uint, maxSeq uint64) replaydetector.ReplayDetector {
	zzRecWindows = append(zzRecWindows, windowSize)
	zzRecMax = append(zzRecMax, maxSeq)
	return zzAcceptAll{}
}

// Every per-epoch replay detector, in the DTLS 1.2 record path and in the DTLS 1.3 one, is created with exactly the
// connection's effective window (whatever its size: no second clamp, cap or rounding on the way, which would bring
// back sizes the detector's bitmap mishandles) and with the sequence space of its record format (2^48-1 for DTLS 1.2
// records, 2^64-1 for DTLS 1.3 record numbers). Arbitrary window, epoch 0..3 (all missing detectors are created).
//
//symgo:entry covers=legacy_detectors,protected_detectors
func zzDetectorsBuiltWithConnWindow() {
	zzRecWindows, zzRecMax = nil, nil
	c := &Conn{state: dtlsstate.NewActive(zzsymChoice("client", 2) == 1), log: zzLog6{}}
	w := uint(zzsymU64("window"))
	c.replayProtectionWindow = w
	epoch := uint16(zzsymChoice("epoch", 4))
	if zzsymChoice("dtls13_path", 2) == 1 {
		_, ok := c.protectedReplayMarker(epoch, zzsymU64("seq"))
		zzsymAssert(ok, "harness_detector_accepts")
		for _, m := range zzRecMax {
			zzsymAssert(m == ^uint64(0), "protected_detector_sequence_space")
		}
		zzsymCover("protected_detectors")
	} else {
		_, ok := c.legacyReplayMarker(&recordlayer.Header{Epoch: epoch, SequenceNumber: zzsymU64("seq")})
		zzsymAssert(ok, "harness_detector_accepts")
		for _, m := range zzRecMax {
			zzsymAssert(m == recordlayer.MaxSequenceNumber, "legacy_detector_sequence_space")
		}
		zzsymCover("legacy_detectors")
	}
	zzsymAssert(len(zzRecWindows) == int(epoch)+1, "one_detector_per_epoch_up_to_the_record_epoch")
	for _, got := range zzRecWindows {
		zzsymAssert(got == w, "detector_window_is_the_connection_window")
	}
}
