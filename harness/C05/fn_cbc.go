package ciphersuite

//symgo:pkg github.com/pion/dtls/v3/pkg/crypto/ciphersuite
//symgo:param NCID quick=2 thorough=3
//symgo:param NPAY quick=2 thorough=4
//symgo:param NMAC quick=1 thorough=2
//symgo:param NBLK quick=3 thorough=4
//symgo:param CIDSEL quick=1 thorough=2
//symgo:stub the CBC block mode is a harness fake (zzFakeCBC): CryptBlocks yields an arbitrary symbolic plaintext body (what an attacker-chosen ciphertext may decrypt to); the hash under HMAC is a harness fake (zzRecHash) that records everything written to it and whose digest is an arbitrary symbolic value, so the HMAC result is an arbitrary value and "the MAC verifies" means "that value equals the MAC bytes found in the body"
//symgo:replace crypto/internal/fips140.RecordNonApproved zzNop
//symgo:stub crypto/internal/fips140.RecordNonApproved (FIPS service indicator bookkeeping, a runtime linkname the interpreter has no code for) does nothing; crypto/hmac itself is interpreted unmodified on top of the fake hash
//symgo:assume HMAC unforgeability: the real HMAC of an input the peer did not authenticate differs from the MAC bytes carried in the record; the harness shows which bytes are fed to HMAC and that success needs the comparison to succeed
//symgo:outside real AES-CBC and HMAC-SHA1/SHA256; bodies longer than NBLK blocks

import (
	"hash"

	"github.com/pion/dtls/v3/pkg/protocol"
	"github.com/pion/dtls/v3/pkg/protocol/recordlayer"
)

func zzNop() {}

const zzHashBlock = 64 // block size of SHA-1 / SHA-256: length of the HMAC ipad/opad prefix

// zzHashLog collects every fake hash instance created through the hash constructor.
type zzHashLog struct {
	size int
	inst []*zzRecHash
}

// zzRecHash is the fake hash.Hash: remembers what was written since the last Reset; Sum yields fresh
// symbolic bytes.
type zzRecHash struct {
	size    int
	written []byte
	sums    [][]byte
}

func (h *zzRecHash) Write(p []byte) (int, error) { h.written = append(h.written, p...); return len(p), nil }
func (h *zzRecHash) Reset()                      { h.written = nil }
func (h *zzRecHash) Size() int                   { return h.size }
func (h *zzRecHash) BlockSize() int              { return zzHashBlock }
func (h *zzRecHash) Sum(b []byte) []byte {
	s := zzsymBytes("digest", h.size)
	h.sums = append(h.sums, s)
	return append(b, s...)
}

func (l *zzHashLog) new() hash.Hash {
	h := &zzRecHash{size: l.size}
	l.inst = append(l.inst, h)
	return h
}

func zzMacSize(i int) int {
	if i == 0 {
		return 20 // HMAC-SHA1 (TLS_*_WITH_AES_256_CBC_SHA)
	}
	return 32 // HMAC-SHA256 (TLS_*_WITH_AES_128_CBC_SHA256)
}

// zzMacInput returns the message HMAC authenticated through the pair (outer, inner) of fake hashes that
// crypto/hmac created as instances k and k+1 of the log: everything written to the inner hash after the
// 64-byte key^ipad block. The wiring (which instance is the inner hash) is itself asserted.
func zzMacInput(l *zzHashLog, k int, key []byte) []byte {
	inner := l.inst[k+1]
	zzsymAssert(len(inner.written) >= zzHashBlock, "stub_wiring_inner_hash_has_ipad")
	pad := make([]byte, zzHashBlock)
	copy(pad, key)
	for i := range pad {
		pad[i] ^= 0x36
	}
	zzsymAssert(zzsymEqBytes(inner.written[:zzHashBlock], pad), "stub_wiring_inner_hash_starts_with_key_xor_ipad")
	return inner.written[zzHashBlock:]
}

// CBC.hmac (MAC of records without connection ID, RFC 5246 6.2.3.1): for two arbitrary (epoch, 48-bit
// sequence number, type, version, payload of 0..NPAY bytes, lengths independent) under the same key, the
// byte strings fed to HMAC are equal only if epoch, sequence number, type, version and the payload are all
// equal. MAC size 20 (quick) and 32.
//
//symgo:entry covers=mac_input_equal,mac_input_differs,payload_len_differs
func zzCBCMacInputInjective() {
	l := &zzHashLog{size: zzMacSize(zzsymChoice("mac", zzsymParam("NMAC")))}
	c := &CBC{h: l.new}
	key := zzsymBytes("key", l.size)
	var h [2]recordlayer.Header
	var pay, in [2][]byte
	for i := 0; i < 2; i++ {
		h[i] = zzSymHeader(0)
		pay[i] = zzsymBytes("pay", zzsymChoice("paylen", zzsymParam("NPAY")+1))
		_, err := c.hmac(h[i].Epoch, h[i].SequenceNumber, h[i].ContentType, h[i].Version, pay[i], key, l.new)
		zzsymAssert(err == nil, "hmac_ok")
		zzsymAssert(len(l.inst) == 2*i+2, "stub_wiring_two_hashes_per_hmac")
		in[i] = zzClone(zzMacInput(l, 2*i, key))
	}
	same := zzsymAnd(zzSameAuthFields(&h[0], &h[1], len(pay[0]), len(pay[1])), zzsymEqBytes(pay[0], pay[1]))
	eq := zzsymEqBytes(in[0], in[1])
	zzsymAssert(zzsymImplies(eq, same), "mac_input_equal_implies_fields_and_payload_equal")
	zzsymAssert(zzsymImplies(same, eq), "mac_input_is_function_of_fields_and_payload")
	if len(pay[0]) != len(pay[1]) {
		zzsymAssert(!eq, "mac_input_differs_when_length_differs")
		zzsymCover("payload_len_differs")
		return
	}
	if eq {
		zzsymCover("mac_input_equal")
	} else {
		zzsymCover("mac_input_differs")
	}
}

// CBC.hmacCID (MAC of tls12_cid records, RFC 9146 5.1): for two arbitrary (epoch, sequence number,
// version, connection ID of 0..NCID bytes, inner plaintext of 1..NPAY+1 bytes; all lengths independent),
// the byte strings fed to HMAC are equal only if version, epoch, sequence number, connection ID and inner
// plaintext are all equal; an inner plaintext without a non-zero byte is refused with an error and no MAC.
//
//symgo:entry covers=mac_input_equal,mac_input_differs,shape_differs,inner_plaintext_rejected
func zzCBCMacInputInjectiveCID() {
	l := &zzHashLog{size: zzMacSize(zzsymChoice("mac", zzsymParam("NMAC")))}
	c := &CBC{h: l.new}
	key := zzsymBytes("key", l.size)
	var h [2]recordlayer.Header
	var pay, in [2][]byte
	for i := 0; i < 2; i++ {
		h[i] = zzSymHeader(zzsymChoice("cidlen", zzsymParam("NCID")+1))
		pay[i] = zzsymBytes("inner", 1+zzsymChoice("paylen", zzsymParam("NPAY")+1))
		mac, err := c.hmacCID(h[i].Epoch, h[i].SequenceNumber, h[i].Version, pay[i], key, l.new, h[i].ConnectionID)
		if err != nil {
			zzsymAssert(mac == nil, "hmac_cid_error_gives_no_mac")
			zero := true
			for _, b := range pay[i] {
				zero = zzsymAnd(zero, b == 0)
			}
			zzsymAssert(zero, "hmac_cid_refuses_only_all_zero_inner_plaintext")
			zzsymCover("inner_plaintext_rejected")
			return
		}
		zzsymAssert(len(l.inst) == 2*i+2, "stub_wiring_two_hashes_per_hmac")
		in[i] = zzClone(zzMacInput(l, 2*i, key))
	}
	same := zzsymAnd(zzSameAuthFieldsCID(&h[0], &h[1], len(pay[0]), len(pay[1])), zzsymEqBytes(pay[0], pay[1]))
	eq := zzsymEqBytes(in[0], in[1])
	zzsymAssert(zzsymImplies(eq, same), "mac_cid_input_equal_implies_fields_and_payload_equal")
	zzsymAssert(zzsymImplies(same, eq), "mac_cid_input_is_function_of_fields_and_payload")
	if len(pay[0]) != len(pay[1]) || len(h[0].ConnectionID) != len(h[1].ConnectionID) {
		zzsymCover("shape_differs")
		return
	}
	if eq {
		zzsymCover("mac_input_equal")
	} else {
		zzsymCover("mac_input_differs")
	}
}

// The HMAC input of a record without connection ID (type != tls12_cid, which is when CBC uses hmac) never
// equals the HMAC input of a tls12_cid record (hmacCID), for all field values, connection ID lengths
// 0..NCID and payload lengths 0..NPAY / 1..NPAY+1: re-labelling a record changes the MAC input.
//
//symgo:entry covers=checked
func zzCBCMacLayoutsDisjoint() {
	l := &zzHashLog{size: zzMacSize(0)}
	c := &CBC{h: l.new}
	key := zzsymBytes("key", l.size)
	h0 := zzSymHeader(0)
	zzsymAssume(h0.ContentType != protocol.ContentTypeConnectionID)
	p0 := zzsymBytes("pay", zzsymChoice("paylen", zzsymParam("NPAY")+1))
	_, err := c.hmac(h0.Epoch, h0.SequenceNumber, h0.ContentType, h0.Version, p0, key, l.new)
	zzsymAssert(err == nil, "hmac_ok")
	in0 := zzClone(zzMacInput(l, 0, key))
	h1 := zzSymHeader(zzsymChoice("cidlen", zzsymParam("NCID")+1))
	p1 := zzsymBytes("inner", 1+zzsymChoice("paylen", zzsymParam("NPAY")+1))
	_, err = c.hmacCID(h1.Epoch, h1.SequenceNumber, h1.Version, p1, key, l.new, h1.ConnectionID)
	if err != nil {
		return
	}
	in1 := zzMacInput(l, 2, key)
	zzsymAssert(!zzsymEqBytes(in0, in1), "plain_and_cid_mac_input_never_equal")
	zzsymCover("checked")
}

// zzFakeCBC is the fake block mode: CryptBlocks "decrypts" to arbitrary symbolic bytes.
type zzFakeCBC struct {
	bs    int
	ivs   [][]byte
	texts [][]byte
	plain [][]byte
}

func (f *zzFakeCBC) BlockSize() int  { return f.bs }
func (f *zzFakeCBC) SetIV(iv []byte) { f.ivs = append(f.ivs, zzClone(iv)) }
func (f *zzFakeCBC) CryptBlocks(dst, src []byte) {
	f.texts = append(f.texts, zzClone(src))
	p := zzsymBytes("cbcplain", len(src))
	f.plain = append(f.plain, zzClone(p))
	copy(dst, p)
}

const zzAESBlock = 16

// CBC.Decrypt on every byte string of length 0..13+CID+16*NBLK (all bytes symbolic, connection ID length 0
// or NCID) where the block cipher yields an arbitrary plaintext body and HMAC an arbitrary value: any error
// returns no plaintext; success without decryption happens only for change_cipher_spec (returned
// unchanged); every other success requires well-formed padding (last byte p, the p+1 last bytes all equal
// p), the HMAC value to equal the MAC bytes that precede the padding, and returns the record header
// followed by exactly the decrypted bytes that precede the MAC; the IV and ciphertext handed to the cipher
// are the record body. Whenever a MAC is computed (accepted or not), the bytes fed to HMAC are those
// CBC.hmac / CBC.hmacCID produce for the type, version, epoch, sequence number and connection ID found in
// this record's own header (parsed here by the RFC 6347 / RFC 9146 layout) and the decrypted content, so
// with the injectivity entries above, altering any of them changes the MAC input. No panic on any input (a
// panic is reported under its own label).
//
//symgo:entry covers=rejected_before_decrypt,bad_padding_or_mac,ccs,accepted,accepted_cid,mac_computed
func zzCBCDecryptFailClean() {
	l := &zzHashLog{size: zzMacSize(zzsymChoice("mac", zzsymParam("NMAC")))}
	f := &zzFakeCBC{bs: zzAESBlock}
	key := zzsymBytes("key", l.size)
	c := &CBC{readCBC: f, readMac: key, h: l.new}
	// receiver's connection ID length: NCID (records of type tls12_cid carry it, all others do not); the
	// thorough tier adds a receiver without connection ID
	ncid := (1 - zzsymChoice("nocid", zzsymParam("CIDSEL"))) * zzsymParam("NCID")
	in := zzsymBytes("rec", zzsymChoice("len", 13+ncid+zzAESBlock*zzsymParam("NBLK")+1))
	orig := zzClone(in)
	h := recordlayer.Header{}
	if ncid > 0 {
		h.ConnectionID = make([]byte, ncid)
	}
	out, err := c.Decrypt(h, in)
	if len(l.inst) == 3 {
		zzCBCMacCoversRecord(c, l, f, key, orig, ncid)
	}
	if err != nil {
		zzsymAssert(out == nil, "error_returns_no_plaintext")
		if len(f.texts) == 0 {
			zzsymCover("rejected_before_decrypt")
		} else {
			zzsymCover("bad_padding_or_mac")
		}
		return
	}
	if len(f.texts) == 0 {
		zzsymAssert(orig[0] == byte(protocol.ContentTypeChangeCipherSpec), "unauthenticated_success_only_for_ccs")
		zzsymAssert(zzsymEqBytes(out, orig), "ccs_returned_unchanged")
		zzsymCover("ccs")
		return
	}
	hdr := 13
	if orig[0] == byte(protocol.ContentTypeConnectionID) {
		hdr += ncid
	}
	zzsymAssert(len(f.texts) == 1 && len(f.ivs) == 1, "one_decryption")
	zzsymAssert(zzsymEqBytes(f.ivs[0], orig[hdr:hdr+zzAESBlock]), "iv_is_first_body_block")
	zzsymAssert(zzsymEqBytes(f.texts[0], orig[hdr+zzAESBlock:]), "ciphertext_is_rest_of_body")
	plain := f.plain[0]
	// hash instances: 0 = size probe in Decrypt, 1 = HMAC outer, 2 = HMAC inner
	zzsymAssert(len(l.inst) == 5, "success_needs_exactly_one_hmac") // 3 from Decrypt + 2 from the reference call
	zzsymAssert(len(l.inst[1].sums) == 1, "stub_wiring_outer_hash_summed_once")
	macVal := l.inst[1].sums[0]
	zzsymAssert(len(out) >= hdr, "output_has_header")
	content := out[hdr:]
	nc := len(content)
	padBytes := len(plain) - l.size - nc // p+1
	zzsymAssert(padBytes >= 1 && padBytes <= 256, "padding_length_in_range")
	zzsymAssert(zzsymEqBytes(out[:hdr], orig[:hdr]), "output_header_is_record_header")
	zzsymAssert(zzsymEqBytes(content, plain[:nc]), "output_body_is_decrypted_content")
	zzsymAssert(zzsymEqBytes(plain[nc:nc+l.size], macVal), "accepted_only_if_mac_matches")
	good := true
	for _, b := range plain[nc+l.size:] {
		good = zzsymAnd(good, int(b) == padBytes-1)
	}
	zzsymAssert(good, "accepted_only_if_padding_well_formed")
	if hdr > 13 {
		zzsymCover("accepted_cid")
	} else {
		zzsymCover("accepted")
	}
}

// zzCBCMacCoversRecord: Decrypt created hash instances 0 (size probe), 1 (HMAC outer), 2 (HMAC inner).
// Compare what it fed to HMAC with what hmac/hmacCID feed for the fields of this very record.
func zzCBCMacCoversRecord(c *CBC, l *zzHashLog, f *zzFakeCBC, key, orig []byte, ncid int) {
	got := zzClone(zzMacInput(l, 1, key))
	plain := f.plain[0]
	n := len(plain) - l.size - int(plain[len(plain)-1]) - 1
	content := plain[:n]
	// RFC 6347 4.1 record header: type(1) version(2) epoch(2) sequence_number(6) [cid] length(2)
	ver := protocol.Version{Major: orig[1], Minor: orig[2]}
	epoch := uint16(orig[3])<<8 | uint16(orig[4])
	var seq uint64
	for _, b := range orig[5:11] {
		seq = seq<<8 | uint64(b)
	}
	var err error
	if orig[0] == byte(protocol.ContentTypeConnectionID) {
		_, err = c.hmacCID(epoch, seq, ver, content, key, l.new, orig[11:11+ncid])
	} else {
		_, err = c.hmac(epoch, seq, protocol.ContentType(orig[0]), ver, content, key, l.new)
	}
	zzsymAssert(err == nil, "reference_hmac_ok")
	want := zzMacInput(l, 3, key)
	zzsymAssert(zzsymEqBytes(got, want), "mac_covers_this_records_header_fields_and_content")
	zzsymCover("mac_computed")
}
