package ciphersuite

//symgo:pkg github.com/pion/dtls/v3/internal/ciphersuite
//symgo:param NCID quick=2 thorough=4
//symgo:param NPAY quick=2 thorough=6
//symgo:stub cipher.AEAD of recordTrafficProtection13 is a harness fake (zzRecAEAD13, tag 16 as for AES-GCM and ChaCha20-Poly1305) that records nonce, ciphertext and additional data; Open fails when the text is shorter than the tag and otherwise succeeds iff a symbolic authOK, returning arbitrary symbolic plaintext
//symgo:stub sequenceNumberMaskFn (AES-ECB / ChaCha20 block over the first 16 ciphertext bytes) is a harness function: refuses fewer than 16 ciphertext bytes like the real ones, otherwise returns an arbitrary symbolic mask
//symgo:assume AEAD unforgeability of the DTLS 1.3 AEADs: Open fails for every (nonce, ciphertext, additional data) the peer did not seal under this epoch's key
//symgo:outside real AES-GCM / ChaCha20-Poly1305 and the real mask functions; ciphertexts longer than 16+NPAY bytes

import (
	"errors"

	dtlserrors "github.com/pion/dtls/v3/internal/errors"
	"github.com/pion/dtls/v3/pkg/protocol"
	"github.com/pion/dtls/v3/pkg/protocol/recordlayer"
)

var zzErrAuth13 = errors.New("zz: message authentication failed")

type zzAEADCall13 struct {
	nonce, text, aad []byte
	ok               bool
	plain            []byte
}

type zzRecAEAD13 struct {
	alwaysFail bool
	opens      []zzAEADCall13
	seals      []zzAEADCall13
}

const zzTag13 = 16

func zzClone13(b []byte) []byte { return append([]byte{}, b...) }

func (a *zzRecAEAD13) NonceSize() int { return 12 }
func (a *zzRecAEAD13) Overhead() int  { return zzTag13 }
func (a *zzRecAEAD13) Seal(dst, nonce, plaintext, additionalData []byte) []byte {
	a.seals = append(a.seals, zzAEADCall13{nonce: zzClone13(nonce), text: zzClone13(plaintext), aad: zzClone13(additionalData)})
	return append(append(dst, plaintext...), make([]byte, zzTag13)...)
}

func (a *zzRecAEAD13) Open(dst, nonce, ciphertext, additionalData []byte) ([]byte, error) {
	c := zzAEADCall13{nonce: zzClone13(nonce), text: zzClone13(ciphertext), aad: zzClone13(additionalData)}
	if len(ciphertext) < zzTag13 || a.alwaysFail {
		a.opens = append(a.opens, c)
		return nil, zzErrAuth13
	}
	if !zzsymBool("authOK") {
		a.opens = append(a.opens, c)
		return nil, zzErrAuth13
	}
	c.ok = true
	c.plain = zzsymBytes("plain", len(ciphertext)-zzTag13)
	a.opens = append(a.opens, c)
	return append(dst, c.plain...), nil
}

// zzSymUnified is an arbitrary unified header as Unmarshal can produce it: 8-bit sequence number and no
// length when the S / L bits are clear, two epoch bits.
func zzSymUnified(ncid int) recordlayer.UnifiedHeader {
	h := recordlayer.UnifiedHeader{
		SequenceNumber: zzsymU16("useq"),
		SeqBit:         zzsymBool("S"),
		Length:         zzsymU16("ulen"),
		LengthBit:      zzsymBool("L"),
		EpochLow:       zzsymU8("EE"),
	}
	zzsymAssume(h.EpochLow <= 3)
	zzsymAssume(zzsymOr(h.SeqBit, h.SequenceNumber <= 0xff))
	zzsymAssume(zzsymOr(h.LengthBit, h.Length == 0))
	if ncid > 0 {
		h.ConnectionID = zzsymBytes("ucid", ncid)
	}
	return h
}

func zzSameUnified(a, b *recordlayer.UnifiedHeader) bool {
	r := zzsymAnd(a.SeqBit == b.SeqBit, a.LengthBit == b.LengthBit)
	r = zzsymAnd(r, zzsymAnd(a.SequenceNumber == b.SequenceNumber, a.Length == b.Length))
	r = zzsymAnd(r, a.EpochLow == b.EpochLow)
	return zzsymAnd(r, zzsymEqBytes(a.ConnectionID, b.ConnectionID))
}

// zzRefUnified encodes the unified header as RFC 9147 Figure 3/4 describes it:
// 0 0 1 C S L E E | connection ID | 8 or 16 bit sequence number | 16 bit length if L.
func zzRefUnified(h *recordlayer.UnifiedHeader, seq uint16) []byte {
	first := byte(0x20) | (h.EpochLow & 3)
	if len(h.ConnectionID) > 0 {
		first |= 0x10
	}
	first = zzsymIteU8(h.SeqBit, first|0x08, first)
	first = zzsymIteU8(h.LengthBit, first|0x04, first)
	out := []byte{first}
	out = append(out, h.ConnectionID...)
	if h.SeqBit {
		out = append(out, byte(seq>>8), byte(seq))
	} else {
		out = append(out, byte(seq))
	}
	if h.LengthBit {
		out = append(out, byte(h.Length>>8), byte(h.Length))
	}
	return out
}

// recordNonce13: for a 12-byte write IV and any two 64-bit record sequence numbers the nonces are 12 bytes
// and equal only if the sequence numbers are equal; an IV of another length (11, 13) is refused with an error
// and no nonce.
//
//symgo:entry covers=nonce_equal,nonce_differs,bad_iv
func zzRec13NonceInjective() {
	n := 11 + zzsymChoice("ivlen", 3)
	iv := zzsymBytes("iv", n)
	s1, s2 := zzsymU64("seq1"), zzsymU64("seq2")
	n1, err1 := recordNonce13(iv, s1)
	n2, err2 := recordNonce13(iv, s2)
	if n != 12 {
		zzsymAssert(err1 != nil && n1 == nil && err2 != nil && n2 == nil, "bad_iv_length_refused")
		zzsymCover("bad_iv")
		return
	}
	zzsymAssert(err1 == nil && err2 == nil, "nonce_ok")
	zzsymAssert(len(n1) == 12 && len(n2) == 12, "nonce_is_12_bytes")
	eq := zzsymEqBytes(n1, n2)
	zzsymAssert(zzsymImplies(eq, s1 == s2), "nonce13_equal_implies_seq_equal")
	zzsymAssert(zzsymImplies(s1 == s2, eq), "nonce13_is_function_of_seq")
	if eq {
		zzsymCover("nonce_equal")
	} else {
		zzsymCover("nonce_differs")
	}
}

// recordTrafficProtection13.open: two arbitrary (unified header with clear sequence bits: connection ID of
// 0..NCID bytes, S and L bits, 8/16-bit sequence number, length, epoch bits; 64-bit record sequence number;
// ciphertext of 16..16+NPAY bytes; all lengths independent) under one key/IV reach the AEAD with identical
// (nonce, ciphertext, additional data) only if header fields, sequence number and ciphertext are all equal.
// With a rejecting AEAD both calls return an error and the zero InnerPlaintext.
//
//symgo:entry covers=inputs_equal,inputs_differ,shape_differs
func zzRec13OpenInputsBindRecord() {
	fake := &zzRecAEAD13{alwaysFail: true}
	r := &recordTrafficProtection13{aead: fake, iv: zzsymBytes("iv", tls13AEADWriteIVLen)}
	var h [2]recordlayer.UnifiedHeader
	var seq [2]uint64
	var enc [2][]byte
	for i := 0; i < 2; i++ {
		h[i] = zzSymUnified(zzsymChoice("cidlen", zzsymParam("NCID")+1))
		seq[i] = zzsymU64("seq")
		enc[i] = zzsymBytes("enc", zzTag13+zzsymChoice("extra", zzsymParam("NPAY")+1))
		ip, err := r.open(h[i], seq[i], zzClone13(enc[i]))
		zzsymAssert(err != nil, "rejecting_primitive_gives_error")
		zzsymAssert(ip.Content == nil && ip.RealType == 0 && ip.Zeros == 0, "rejecting_primitive_gives_no_plaintext")
	}
	zzsymAssert(len(fake.opens) == 2, "one_open_per_record")
	c0, c1 := fake.opens[0], fake.opens[1]
	tripleEq := zzsymAnd(zzsymEqBytes(c0.nonce, c1.nonce), zzsymAnd(zzsymEqBytes(c0.text, c1.text), zzsymEqBytes(c0.aad, c1.aad)))
	same := zzsymAnd(zzSameUnified(&h[0], &h[1]), zzsymAnd(seq[0] == seq[1], zzsymEqBytes(enc[0], enc[1])))
	zzsymAssert(zzsymImplies(tripleEq, same), "open13_inputs_equal_implies_record_equal")
	zzsymAssert(zzsymImplies(same, tripleEq), "open13_inputs_are_function_of_record")
	if len(enc[0]) != len(enc[1]) || len(h[0].ConnectionID) != len(h[1].ConnectionID) {
		zzsymCover("shape_differs")
		return
	}
	if tripleEq {
		zzsymCover("inputs_equal")
	} else {
		zzsymCover("inputs_differ")
	}
}

// recordTrafficProtection13.Open (unmask, validate sequence bits, open) on an arbitrary wire header
// (connection ID 0 or NCID bytes, any S/L/epoch bits, masked sequence number, length), arbitrary 64-bit
// reconstructed sequence number, ciphertext of every length 0..16+NPAY and an arbitrary mask: every error
// returns the zero InnerPlaintext; when the AEAD reports failure an error is returned; success requires one
// AEAD call that authenticated, the unmasked sequence bits to equal the low 16 (S=1) or 8 (S=0) bits of the
// sequence number that forms the nonce, the additional data to be the RFC 9147 unified header carrying those
// clear sequence bits, and returns content, type and zero padding that recompose exactly the AEAD's
// plaintext (type = last non-zero byte).
//
//symgo:entry covers=auth_failed,rejected_before_open,no_type_byte,accepted,accepted_padded
func zzRec13OpenFailClean() {
	fake := &zzRecAEAD13{}
	masklen := []int{16, 1, 0}[zzsymChoice("masklen", 3)]
	var mask []byte
	r := &recordTrafficProtection13{aead: fake, iv: zzsymBytes("iv", tls13AEADWriteIVLen)}
	r.sequenceNumberMaskFn = func(key, enc []byte) ([]byte, error) {
		if len(enc) < tls13SequenceNumberMaskSampleLen {
			return nil, dtlserrors.ErrBufferTooSmall
		}
		mask = zzsymBytes("mask", masklen)
		return mask, nil
	}
	h := zzSymUnified(zzsymChoice("cidlen", 2) * zzsymParam("NCID"))
	seq := zzsymU64("seq")
	enc := zzsymBytes("enc", zzsymChoice("enclen", zzTag13+zzsymParam("NPAY")+1))
	ip, err := r.Open(h, seq, zzClone13(enc))
	zzsymAssert(len(fake.opens) <= 1, "at_most_one_open")
	if err != nil {
		zzsymAssert(ip.Content == nil && ip.RealType == 0 && ip.Zeros == 0, "error_returns_no_plaintext")
		if len(fake.opens) == 0 {
			zzsymCover("rejected_before_open")
		} else if !fake.opens[0].ok {
			zzsymCover("auth_failed")
		} else {
			// authenticated plaintext without a non-zero type byte
			all0 := true
			for _, b := range fake.opens[0].plain {
				all0 = zzsymAnd(all0, b == 0)
			}
			zzsymAssert(all0, "authenticated_plaintext_refused_only_without_type_byte")
			zzsymCover("no_type_byte")
		}
		return
	}
	zzsymAssert(len(fake.opens) == 1, "success_needs_the_primitive")
	c := fake.opens[0]
	zzsymAssert(c.ok, "success_only_if_primitive_authenticated")
	zzsymAssert(zzsymEqBytes(c.text, enc), "ciphertext_is_the_record_body")
	// RFC 9147 4.2.3: the leading mask bytes are XORed onto the 16- or 8-bit sequence number on the wire
	var clear uint16
	var lowOK bool
	if h.SeqBit {
		zzsymAssert(len(mask) >= 2, "mask_was_long_enough")
		clear = h.SequenceNumber ^ (uint16(mask[0])<<8 | uint16(mask[1]))
		lowOK = uint16(seq) == clear
	} else {
		zzsymAssert(len(mask) >= 1, "mask_was_long_enough")
		clear = (h.SequenceNumber ^ uint16(mask[0])) & 0xff
		lowOK = uint16(seq)&0xff == clear
	}
	zzsymAssert(lowOK, "header_sequence_bits_match_nonce_sequence_number")
	zzsymAssert(zzsymEqBytes(c.aad, zzRefUnified(&h, clear)), "aad_is_unified_header_with_clear_sequence_bits")
	// the nonce is bound to seq (checked against an independent call on the same IV)
	want, _ := recordNonce13(r.iv, seq)
	zzsymAssert(zzsymEqBytes(c.nonce, want), "nonce_is_record_nonce_of_sequence_number")
	// delivered = content || type || zeros, exactly the primitive's plaintext
	n := len(ip.Content)
	zzsymAssert(n+1+int(ip.Zeros) == len(c.plain), "inner_plaintext_length")
	zzsymAssert(zzsymEqBytes(ip.Content, c.plain[:n]), "content_is_primitive_plaintext_prefix")
	zzsymAssert(byte(ip.RealType) == c.plain[n] && ip.RealType != 0, "type_is_last_nonzero_byte")
	z := true
	for _, b := range c.plain[n+1:] {
		z = zzsymAnd(z, b == 0)
	}
	zzsymAssert(z, "rest_is_zero_padding")
	if ip.Zeros > 0 {
		zzsymCover("accepted_padded")
	} else {
		zzsymCover("accepted")
	}
}

// recordTrafficProtection13.Seal then Open under one key/IV/mask function for one arbitrary record (epoch
// bits, connection ID absent or NCID bytes, any 64-bit sequence number, any content type 1..255, payload
// 0..NPAY bytes): the receiver hands the AEAD exactly the nonce, additional data and ciphertext the sender
// sealed (so the genuine record authenticates), and when the AEAD accepts, what it returns is delivered.
//
//symgo:entry covers=opened,primitive_rejected
func zzRec13SealOpenAgree() {
	fake := &zzRecAEAD13{}
	mask := zzsymBytes("mask", 16)
	r := &recordTrafficProtection13{aead: fake, iv: zzsymBytes("iv", tls13AEADWriteIVLen)}
	r.sequenceNumberMaskFn = func(key, enc []byte) ([]byte, error) {
		if len(enc) < tls13SequenceNumberMaskSampleLen {
			return nil, dtlserrors.ErrBufferTooSmall
		}
		return mask, nil // same ciphertext sample on both sides, hence the same mask
	}
	h := recordlayer.UnifiedHeader{EpochLow: zzsymU8("EE")}
	zzsymAssume(h.EpochLow <= 3)
	ncid := zzsymChoice("cidlen", 2) * zzsymParam("NCID")
	if ncid > 0 {
		h.ConnectionID = zzsymBytes("ucid", ncid)
	}
	seq := zzsymU64("seq")
	ct := protocol.ContentType(zzsymU8("realtype"))
	zzsymAssume(ct != 0)
	pay := zzsymBytes("pay", zzsymChoice("paylen", zzsymParam("NPAY")+1))
	rec, err := r.Seal(h, seq, ct, pay)
	zzsymAssert(err == nil, "seal_ok")
	zzsymAssert(len(fake.seals) == 1, "one_seal")
	rh := rec.Header
	rh.ConnectionID = zzClone13(rec.Header.ConnectionID)
	ip, err := r.Open(rh, seq, zzClone13(rec.EncryptedRecord))
	zzsymAssert(len(fake.opens) == 1, "receiver_calls_open_once")
	sc, oc := fake.seals[0], fake.opens[0]
	zzsymAssert(zzsymEqBytes(oc.nonce, sc.nonce), "receiver_nonce_is_sender_nonce")
	zzsymAssert(zzsymEqBytes(oc.aad, sc.aad), "receiver_aad_is_sender_aad")
	sealed := append(zzClone13(sc.text), make([]byte, zzTag13)...)
	zzsymAssert(zzsymEqBytes(oc.text, sealed), "receiver_ciphertext_is_sender_ciphertext")
	// what the sender sealed is payload || type (no padding requested here)
	zzsymAssert(zzsymEqBytes(sc.text, append(zzClone13(pay), byte(ct))), "sealed_text_is_payload_and_type")
	if err == nil {
		zzsymAssert(oc.ok, "success_only_if_primitive_authenticated")
		zzsymCover("opened")
	} else {
		zzsymAssert(ip.Content == nil, "error_returns_no_plaintext")
		zzsymCover("primitive_rejected")
	}
}
