package dtlshandshake

//symgo:pkg github.com/pion/dtls/v3/internal/handshake

// ZZMarkEstablished exposes the unexported one-way transition to harnesses in other packages.
func ZZMarkEstablished(e *Establishment) { e.mark() }
