package dtls

// GENERATED from harness/C06/conn_replay.go (entries kept: the effective window, its wiring into the connection, the
// DTLS 1.3 window and the replay state of retained epochs across key updates). C20's "every payload ... is delivered at
// most once" across key updates is the replay window of each epoch doing its job for every configured size.

//symgo:pkg github.com/pion/dtls/v3
//symgo:param NWIN quick=3 thorough=5
//symgo:stub CipherSuite / RecordProtection13 are harness fakes that authenticate every record (the claim is about the replay bookkeeping around them) and return the record bytes as plaintext
//symgo:outside arrival sequences longer than three records are covered through the window lemma (window.go) only; goroutine interleavings

import (
	"context"
	"errors"
	"hash"
	"net"

	"github.com/pion/dtls/v3/internal/ciphersuite/types"
	"github.com/pion/dtls/v3/internal/closer"
	dtlsflight "github.com/pion/dtls/v3/internal/flight"
	dtlsfragmentbuffer "github.com/pion/dtls/v3/internal/fragmentbuffer"
	dtlshandshake "github.com/pion/dtls/v3/internal/handshake"
	dtlsstate "github.com/pion/dtls/v3/internal/state"
	"github.com/pion/dtls/v3/pkg/crypto/clientcertificate"
	"github.com/pion/dtls/v3/pkg/protocol"
	"github.com/pion/dtls/v3/pkg/protocol/recordlayer"
)

var zzErr6 = errors.New("zz6")

type zzSuite6 struct {
	verdicts []bool // verdict per Decrypt call; missing entries authenticate
	calls    int
}

func (s *zzSuite6) String() string                               { return "zz6" }
func (s *zzSuite6) ID() CipherSuiteID                            { return TLS_ECDHE_ECDSA_WITH_AES_128_GCM_SHA256 }
func (s *zzSuite6) CertificateType() clientcertificate.Type      { return clientcertificate.ECDSASign }
func (s *zzSuite6) HashFunc() func() hash.Hash                   { return nil }
func (s *zzSuite6) AuthenticationType() types.AuthenticationType { return types.AuthenticationTypeCertificate }
func (s *zzSuite6) KeyExchangeAlgorithm() types.KeyExchangeAlgorithm {
	return types.KeyExchangeAlgorithmEcdhe
}
func (s *zzSuite6) ECC() bool                                                        { return true }
func (s *zzSuite6) Init(ms, cr, sr []byte, isClient bool) error                      { return nil }
func (s *zzSuite6) IsInitialized() bool                                              { return true }
func (s *zzSuite6) Encrypt(pkt *recordlayer.RecordLayer, raw []byte) ([]byte, error) { return raw, nil }
func (s *zzSuite6) Decrypt(h recordlayer.Header, in []byte) ([]byte, error) {
	ok := true
	if s.calls < len(s.verdicts) {
		ok = s.verdicts[s.calls]
	}
	s.calls++
	if !ok {
		return nil, zzErr6
	}
	return in, nil
}

// zzProt6 opens every record; the 64-bit record number is carried in clear in the first 8 body bytes so that the
// harness controls it independently of the 16 bits in the unified header.
type zzProt6 struct{}

func (p *zzProt6) Seal(recordlayer.UnifiedHeader, uint64, protocol.ContentType, []byte) (recordlayer.CiphertextRecord13, error) {
	return recordlayer.CiphertextRecord13{}, zzErr6
}
func (p *zzProt6) UnmaskSequenceNumber(h recordlayer.UnifiedHeader, _ []byte) (recordlayer.UnifiedHeader, error) {
	return h, nil
}
func (p *zzProt6) Open(_ recordlayer.UnifiedHeader, _ uint64, enc []byte) (recordlayer.InnerPlaintext, error) {
	return recordlayer.InnerPlaintext{Content: enc[:len(enc)-1], RealType: protocol.ContentTypeApplicationData}, nil
}

type zzLog6 struct{}

func (zzLog6) Trace(string)          {}
func (zzLog6) Tracef(string, ...any) {}
func (zzLog6) Debug(string)          {}
func (zzLog6) Debugf(string, ...any) {}
func (zzLog6) Info(string)           {}
func (zzLog6) Infof(string, ...any)  {}
func (zzLog6) Warn(string)           {}
func (zzLog6) Warnf(string, ...any)  {}
func (zzLog6) Error(string)          {}
func (zzLog6) Errorf(string, ...any) {}

func zzWindow6(i int) int {
	switch i {
	case 0:
		return 128
	case 1:
		return 48
	case 2:
		return 1
	case 3:
		return 64
	}
	return 200
}

// effectiveReplayProtectionWindow (config.go: the only place Conn.replayProtectionWindow comes from) for EVERY int
// up to MaxInt-64: the result is positive, a whole number of 64-bit words, at least the configured size and less
// than one word above it; non-positive sizes give the default 64. Whole words are what makes the dependency's
// detector a correct sliding window (lemma zzWindowStep in window.go, proved for sizes that are multiples of 64).
//
//symgo:entry covers=default_window,rounded_up,already_whole_words
func zzEffectiveWindowWholeWords() {
	w := zzsymInt("configured_window")
	zzsymAssume(w <= (1<<63-1)-64)
	r := effectiveReplayProtectionWindow(w)
	zzsymAssert(r > 0, "effective_window_positive")
	zzsymAssert(r%64 == 0, "effective_window_is_whole_words")
	if w <= 0 {
		zzsymAssert(r == defaultReplayProtectionWindow, "non_positive_window_gives_default")
		zzsymCover("default_window")

		return
	}
	zzsymAssert(r >= w && r-w < 64, "effective_window_rounds_up_less_than_one_word")
	if r == w {
		zzsymCover("already_whole_words")
	} else {
		zzsymCover("rounded_up")
	}
}

func zzConn6(window int) *Conn {
	c := &Conn{
		state:                  dtlsstate.NewActive(false),
		fragmentBuffer:         dtlsfragmentbuffer.New(),
		handshakeCache:         dtlsflight.NewCache(),
		decrypted:              make(chan any, 4),
		log:                    zzLog6{},
		closed:                 closer.NewCloser(),
		replayProtectionWindow: uint(effectiveReplayProtectionWindow(window)),
		rAddr:                  &net.UDPAddr{Port: 1},
	}
	dtlsstate.CommonState(c.state).CipherSuite = &zzSuite6{}
	return c
}

func zzDrain6(c *Conn) int {
	n := 0
	for len(c.decrypted) > 0 {
		<-c.decrypted
		n++
	}
	return n
}

// zzAppRecord6 builds an authentic epoch-1 application record with the given sequence number in one of the two DTLS 1.2
// framings: plain (content type application_data) or, when the connection negotiated a connection ID for its receive
// direction, tls12_cid (outer content type 25, the CID after the sequence number, inner plaintext = content || real
// type, RFC 9146 section 4). zzCID6Setup makes the connection expect the CID.
var zzCID6 = []byte{0xc1, 0xd6}

func zzCID6Setup(c *Conn) bool {
	if zzsymChoice("cid_framing", 2) == 0 {
		return false
	}
	dtlsstate.CommonState(c.state).SetLocalConnectionID(zzCID6)
	return true
}

func zzAppRecord6(cid bool, seq uint64) []byte {
	if !cid {
		h := recordlayer.Header{ContentType: protocol.ContentTypeApplicationData, Version: protocol.Version1_2, Epoch: 1, SequenceNumber: seq, ContentLen: 1}
		raw, _ := h.Marshal()
		return append(raw, 0x55)
	}
	h := recordlayer.Header{ContentType: protocol.ContentTypeConnectionID, Version: protocol.Version1_2, Epoch: 1, SequenceNumber: seq, ContentLen: 2, ConnectionID: zzCID6}
	raw, _ := h.Marshal()
	return append(raw, 0x55, byte(protocol.ContentTypeApplicationData))
}

// DTLS 1.2 receive path with the CONFIGURED replay window W (128, 48, 1; thorough adds 64, 200): two authentic
// application-data records of the same epoch with arbitrary 48-bit sequence numbers s1 then s2 arrive. Proved: the
// second is delivered exactly when it is not a repetition and (it is newer or fewer than W behind s1); a repetition is
// never delivered; a record W or more behind is dropped. (The detector really is created with the configured size.)
//
func zzConnWindow12() {
	w := zzWindow6(zzsymChoice("window", zzsymParam("NWIN")))
	c := zzConn6(w)
	common := dtlsstate.CommonState(c.state)
	common.LocalVersion = protocol.Version1_2
	common.SetRemoteEpoch(1)
	cidFraming := zzCID6Setup(c)
	mk := func(seq uint64) []byte { return zzAppRecord6(cidFraming, seq) }
	s1, s2 := zzsymU64("seq1"), zzsymU64("seq2")
	zzsymAssume(s1 <= recordlayer.MaxSequenceNumber)
	zzsymAssume(s2 <= recordlayer.MaxSequenceNumber)
	from := &net.UDPAddr{Port: 1}
	_, err := c.handleIncomingPacket(context.Background(), mk(s1), from, nil)
	zzsymAssert(err == nil && zzDrain6(c) == 1, "first_delivered")
	_, err = c.handleIncomingPacket(context.Background(), mk(s2), from, nil)
	zzsymAssert(err == nil, "second_no_error")
	got := zzDrain6(c)
	switch {
	case s2 == s1:
		zzsymAssert(got == 0, "repetition_not_delivered")
		zzsymCover("repeat_dropped")
	case zzsymOr(s2 > s1, s1-s2 < uint64(w)):
		zzsymAssert(got == 1, "record_inside_configured_window_delivered_once")
		zzsymCover("in_window_delivered")
	case s1-s2 >= uint64(effectiveReplayProtectionWindow(w)):
		// beyond the window the detector was really created with (the configured size rounded up to whole words)
		zzsymAssert(got == 0, "record_outside_window_dropped")
		zzsymCover("too_old_dropped")
	default:
		zzsymAssert(got <= 1, "record_between_configured_and_effective_window_at_most_once")
	}
}

// DTLS 1.2 receive path, replay after the window moved, for every configured window W (128, 48, 1; thorough adds
// 64, 200): authentic records s1, then a newer s2 fewer than W ahead of it (the window shifts), then s1 AGAIN.
// Proved: the repetition is not delivered. This is the three-step history in which the detector of pion/transport
// forgets accepted numbers when its size is not a whole number of 64-bit words (W=48: every number more than 16
// behind the newest one) - FAILED on the tree before the effectiveReplayProtectionWindow repair.
//
func zzConnReplayAfterShift12() {
	w := zzWindow6(zzsymChoice("window", zzsymParam("NWIN")))
	c := zzConn6(w)
	common := dtlsstate.CommonState(c.state)
	common.LocalVersion = protocol.Version1_2
	common.SetRemoteEpoch(1)
	cidFraming := zzCID6Setup(c)
	mk := func(seq uint64) []byte { return zzAppRecord6(cidFraming, seq) }
	s1, s2 := zzsymU64("seq1"), zzsymU64("seq2")
	zzsymAssume(s2 <= recordlayer.MaxSequenceNumber)
	zzsymAssume(s2 > s1)
	zzsymAssume(s2-s1 < uint64(w))
	from := &net.UDPAddr{Port: 1}
	_, err := c.handleIncomingPacket(context.Background(), mk(s1), from, nil)
	zzsymAssert(err == nil && zzDrain6(c) == 1, "first_delivered")
	_, err = c.handleIncomingPacket(context.Background(), mk(s2), from, nil)
	zzsymAssert(err == nil && zzDrain6(c) == 1, "newer_delivered")
	_, err = c.handleIncomingPacket(context.Background(), mk(s1), from, nil)
	zzsymAssert(err == nil, "replay_no_error")
	zzsymAssert(zzDrain6(c) == 0, "replay_inside_window_after_shift_not_delivered")
	zzsymCover("replay_after_shift_dropped")
}

// DTLS 1.3 sequence-number reconstruction cannot lose a record inside the replay window: for every highest
// authenticated number h < 2^48 of an epoch and every record number s that is newer (up to 2^15 ahead) or at most
// 2^15-2 behind h (closest-to-expected rule of RFC 9147 4.2.2 around h+1) - which covers every replay window up to 32767 - the 16 bits on the wire (the form pion's
// peers and pion itself send) are expanded back to exactly s by reconstructSequenceNumber(h), also across a
// multiple of 2^16; so the record is opened with the right nonce and reaches the replay window with its true
// number. (8-bit wire numbers only allow 127 behind: stated, not claimed for larger windows.)
//
func zzSeqReconstructInsideWindow13() {
	h := zzsymU64("highest")
	s := zzsymU64("seq")
	zzsymAssume(h <= recordlayer.MaxSequenceNumber)
	zzsymAssume(s <= recordlayer.MaxSequenceNumber)
	zzsymAssume(zzsymOr(zzsymAnd(s <= h, h-s < 1<<15-1), zzsymAnd(s > h, s-h <= 1<<15)))
	got := reconstructSequenceNumber(uint16(s), true, h)
	zzsymAssert(got == s, "record_inside_window_reconstructed_to_its_own_number")
	switch {
	case s > h:
		zzsymCover("ahead")
	case s>>16 != h>>16:
		zzsymCover("behind_across_boundary")
	default:
		zzsymCover("behind_same_block")
	}
}

// zzEstablishment6 puts the connection into one of the three situations the receive path can be in when an
// application record arrives: no establishment tracker (connections built by hand / resumed from state), handshake
// not yet marked established (a record that overtook the peer's Finished), established.
func zzEstablishment6(c *Conn) {
	switch zzsymChoice("establishment", 3) {
	case 1:
		c.handshakeEstablished = dtlshandshake.NewEstablishment()
	case 2:
		c.handshakeEstablished = dtlshandshake.NewEstablishment()
		dtlshandshake.ZZMarkEstablished(c.handshakeEstablished)
	}
}

// DTLS 1.2, nothing but the record itself touches the replay state of its epoch: an authentic application record
// s1 of epoch 1 is delivered (whatever the establishment situation, zzEstablishment6), then ONE other record
// arrives - a cleartext ChangeCipherSpec with an arbitrary epoch-0 sequence number (anybody can send one; the
// peer's delayed or retransmitted final flight contains one), a cleartext handshake fragment, an undecodable
// cleartext record, another authentic application record s2 != s1 fewer than W ahead, or a record that fails
// authentication - and then s1 arrives AGAIN. Proved: the repetition is not delivered. (Histories with several
// interlopers follow by induction: each leaves the state of the window as the lemma needs it.)
//
func zzConnReplayUnaffectedByOtherRecords12() {
	c := zzConn6(64)
	zzEstablishment6(c)
	early := c.handshakeEstablished != nil && !c.handshakeEstablished.Established()
	common := dtlsstate.CommonState(c.state)
	common.LocalVersion = protocol.Version1_2
	common.SetRemoteEpoch(1)
	suite, _ := common.CipherSuite.(*zzSuite6)
	cidFraming := zzCID6Setup(c)
	mk := func(seq uint64) []byte { return zzAppRecord6(cidFraming, seq) }
	s1 := zzsymU64("seq1")
	zzsymAssume(s1 <= recordlayer.MaxSequenceNumber-64)
	from := &net.UDPAddr{Port: 1}
	_, err := c.handleIncomingPacket(context.Background(), mk(s1), from, nil)
	zzsymAssert(err == nil && zzDrain6(c) == 1, "first_delivered")
	if early {
		zzsymCover("early_record")
	}
	seq0 := zzsymBytes("seq0", 6)
	hdr0 := func(ct byte, n int) []byte {
		return append(append([]byte{ct, 0xfe, 0xfd, 0, 0}, seq0...), byte(n>>8), byte(n))
	}
	var other []byte
	switch zzsymChoice("interloper", 5) {
	case 0:
		other = append(hdr0(20, 1), 1)
		zzsymCover("after_ccs")
	case 1:
		other = append(hdr0(22, 13), 1, 0, 0, 1, 0, zzsymU8("mseq"), 0, 0, 0, 0, 0, 1, 7)
		zzsymCover("after_handshake_fragment")
	case 2:
		other = append(hdr0(zzsymU8("junk_type"), 2), zzsymU8("j0"), zzsymU8("j1"))
		zzsymCover("after_junk")
	case 3:
		s2 := zzsymU64("seq2")
		zzsymAssume(zzsymAnd(s2 > s1, s2-s1 < 64))
		other = mk(s2)
		zzsymCover("after_other_record")
	default:
		// a record of epoch 1 that fails authentication (any sequence number, also s1 itself or far ahead)
		suite.verdicts = []bool{true, false}
		s3 := zzsymU64("seq3")
		zzsymAssume(s3 <= recordlayer.MaxSequenceNumber)
		other = mk(s3)
		zzsymCover("after_forgery")
	}
	_, _ = c.handleIncomingPacket(context.Background(), other, from, nil)
	zzDrain6(c)
	_, err = c.handleIncomingPacket(context.Background(), mk(s1), from, nil)
	zzsymAssert(err == nil, "replay_no_error")
	zzsymAssert(zzDrain6(c) == 0, "replayed_record_not_delivered_after_other_record")
}

func zzRec13(epochLow byte, seq uint16, body byte) []byte {
	// unified header: 001 C=0 S=1 L=1 EE | seq16 | len16 | 16+ bytes of "ciphertext"
	rec := []byte{0x2c | epochLow&3, byte(seq >> 8), byte(seq), 0, 17}
	for i := 0; i < 16; i++ {
		rec = append(rec, body)
	}
	return append(rec, byte(protocol.ContentTypeApplicationData))
}

// DTLS 1.3 receive path, same claim with the configured window: read generations for epochs 3 (current).
// Sequence numbers are below 2^15 so that the 16 bits on the wire reconstruct to themselves.
//
//symgo:entry covers=in_window_delivered13,repeat_dropped13,too_old_dropped13,reordered_then_repeated13
func zzConnWindow13() {
	w := zzWindow6(zzsymChoice("window", zzsymParam("NWIN")))
	c := zzConn6(w)
	st := dtlsstate.Activate13(c.state)
	c.state = st
	st.LocalVersion = protocol.Version1_3
	st.TrafficKeys.Install(nil, &dtlsstate.TrafficGeneration{Epoch: 3, Protection: &zzProt6{}})
	st.SetRemoteEpoch(3)
	s1, s2 := zzsymU16("seq1"), zzsymU16("seq2")
	zzsymAssume(s1 < 1<<14)
	zzsymAssume(s2 < 1<<14)
	from := &net.UDPAddr{Port: 1}
	_, err := c.handleIncomingPacket(context.Background(), zzRec13(3, s1, 1), from, nil)
	zzsymAssert(err == nil && zzDrain6(c) == 1, "first_delivered13")
	_, err = c.handleIncomingPacket(context.Background(), zzRec13(3, s2, 2), from, nil)
	zzsymAssert(err == nil, "second_no_error13")
	got := zzDrain6(c)
	switch {
	case s2 == s1:
		zzsymAssert(got == 0, "repetition_not_delivered13")
		zzsymCover("repeat_dropped13")
	case zzsymOr(s2 > s1, int(s1)-int(s2) < w):
		zzsymAssert(got == 1, "record_inside_configured_window_delivered_once13")
		zzsymCover("in_window_delivered13")
	case int(s1)-int(s2) >= effectiveReplayProtectionWindow(w):
		zzsymAssert(got == 0, "record_outside_window_dropped13")
		zzsymCover("too_old_dropped13")
	default:
		zzsymAssert(got <= 1, "record_between_configured_and_effective_window_at_most_once13")
	}
	// whichever way the second record arrived - ahead of the first or, reordered, behind it - its own repetition is
	// not delivered (a record accepted behind the newest one must be entered into the window like any other)
	_, err = c.handleIncomingPacket(context.Background(), zzRec13(3, s2, 2), from, nil)
	zzsymAssert(err == nil && zzDrain6(c) == 0, "repetition_of_second_record_not_delivered13")
	if got == 1 && s2 < s1 {
		zzsymCover("reordered_then_repeated13")
	}
}

// DTLS 1.3 across key updates: read generations for epochs 3, 4 and 5 are retained (the sender updated its keys
// twice). A record of epoch 3 is delivered, then records of epoch 4 and epoch 5 (arbitrary numbers), then the SAME
// epoch-3 record arrives again (a late duplicate). Proved: it is not delivered a second time - the replay state of a
// retained epoch is never forgotten while its keys can still open records - and a different epoch-3 number inside the
// window is still delivered.
//
//symgo:entry covers=late_duplicate_dropped,late_fresh_delivered
func zzConnReplayAcrossKeyUpdates() {
	c := zzConn6(64)
	st := dtlsstate.Activate13(c.state)
	c.state = st
	st.LocalVersion = protocol.Version1_3
	for _, e := range []uint16{3, 4, 5} {
		st.TrafficKeys.Install(nil, &dtlsstate.TrafficGeneration{Epoch: e, Protection: &zzProt6{}})
	}
	st.SetRemoteEpoch(5)
	from := &net.UDPAddr{Port: 1}
	s3 := zzsymU16("seq_e3")
	zzsymAssume(s3 < 1<<14)
	deliver := func(epochLow byte, seq uint16, b byte) int {
		_, err := c.handleIncomingPacket(context.Background(), zzRec13(epochLow, seq, b), from, nil)
		zzsymAssert(err == nil, "no_error")
		return zzDrain6(c)
	}
	zzsymAssert(deliver(3, s3, 1) == 1, "epoch3_delivered")
	s4, s5 := zzsymU16("seq_e4"), zzsymU16("seq_e5")
	zzsymAssume(s4 < 1<<14)
	zzsymAssume(s5 < 1<<14)
	zzsymAssert(deliver(0, s4, 2) == 1, "epoch4_delivered") // epoch 4 -> low bits 00
	zzsymAssert(deliver(1, s5, 3) == 1, "epoch5_delivered") // epoch 5 -> low bits 01
	zzsymAssert(deliver(1, s5+1, 4) == 1, "epoch5_second_delivered")
	late := zzsymU16("seq_late")
	zzsymAssume(late < 1<<14)
	got := deliver(3, late, 1)
	if late == s3 {
		zzsymAssert(got == 0, "late_duplicate_of_old_epoch_not_delivered")
		zzsymCover("late_duplicate_dropped")
	} else if zzsymOr(late > s3, int(s3)-int(late) < 64) {
		zzsymAssert(got == 1, "late_fresh_record_of_old_epoch_delivered")
		zzsymCover("late_fresh_delivered")
	}
}

// Marker order on the DTLS 1.2 receive path (without and with a 2-byte connection ID): a record that FAILS
// authentication (forged tag, or right tag but wrong connection ID) with an arbitrary sequence number s commits
// nothing to the replay window: the genuine record bearing the same sequence number arriving afterwards is delivered,
// and a genuine record more than 64 behind a forged far-ahead number is still delivered (the window did not slide).
//
func zzConnMarkerOrder12() {
	suite := &zzSuite6{verdicts: []bool{false, true}}
	c := zzConn6(64)
	common := dtlsstate.CommonState(c.state)
	common.CipherSuite = suite
	common.LocalVersion = protocol.Version1_2
	common.SetRemoteEpoch(1)
	withCID := zzsymChoice("cid", 2) == 1
	var cid []byte
	if withCID {
		cid = zzsymBytes("lcid", 2)
		common.SetLocalConnectionID(cid)
		zzsymCover("cid_layout")
	} else {
		zzsymCover("plain_layout")
	}
	mk := func(seq uint64) []byte {
		if !withCID {
			h := recordlayer.Header{ContentType: protocol.ContentTypeApplicationData, Version: protocol.Version1_2, Epoch: 1, SequenceNumber: seq, ContentLen: 1}
			raw, _ := h.Marshal()
			return append(raw, 0x55)
		}
		h := recordlayer.Header{ContentType: protocol.ContentTypeConnectionID, Version: protocol.Version1_2, Epoch: 1, SequenceNumber: seq, ContentLen: 2, ConnectionID: cid}
		raw, _ := h.Marshal()
		return append(raw, 0x55, byte(protocol.ContentTypeApplicationData)) // inner plaintext: content || real type
	}
	sForged, sGenuine := zzsymU64("seq_forged"), zzsymU64("seq_genuine")
	zzsymAssume(sForged <= recordlayer.MaxSequenceNumber)
	zzsymAssume(sGenuine <= recordlayer.MaxSequenceNumber)
	from := &net.UDPAddr{Port: 1}
	_, err := c.handleIncomingPacket(context.Background(), mk(sForged), from, nil)
	zzsymAssert(err == nil && zzDrain6(c) == 0, "forgery_dropped_silently")
	_, err = c.handleIncomingPacket(context.Background(), mk(sGenuine), from, nil)
	zzsymAssert(err == nil, "genuine_no_error")
	zzsymAssert(zzDrain6(c) == 1, "genuine_record_delivered_after_forgery")
	if sGenuine == sForged {
		zzsymCover("genuine_after_forgery_same_seq")
	}
	if sForged > sGenuine+1000 {
		zzsymCover("genuine_after_far_ahead_forgery")
	}
}

type zzPC6 struct{ net.PacketConn }

// Wiring: the window a connection's detectors are created with (Conn.replayProtectionWindow, read by
// legacyReplayMarker and protectedReplayMarker) is, for every configured int up to MaxInt-64,
// effectiveReplayProtectionWindow(configured) - through newConnConfigValues and newConn, the path every public
// constructor (Client, Server, Resume, the listener) takes via createConn.
//
//symgo:entry covers=conn_window_wired
func zzConnGetsEffectiveWindow() {
	cfg := &dtlsConfig{}
	cfg.ReplayProtectionWindow = zzsymInt("configured_window")
	zzsymAssume(cfg.ReplayProtectionWindow <= (1<<63-1)-64)
	values, err := newConnConfigValues(cfg)
	zzsymAssert(err == nil, "wiring_config_values_ok")
	c := newConn(zzPC6{}, &net.UDPAddr{Port: 1}, values, newHandshakeConfig(cfg, values, nil), zzsymChoice("client", 2) == 1)
	zzsymAssert(c.replayProtectionWindow == uint(effectiveReplayProtectionWindow(cfg.ReplayProtectionWindow)), "conn_window_is_effective_window")
	zzsymAssert(c.replayProtectionWindow%64 == 0 && c.replayProtectionWindow > 0, "conn_window_is_whole_words")
	zzsymCover("conn_window_wired")
}
