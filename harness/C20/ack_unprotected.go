package dtls

//symgo:pkg github.com/pion/dtls/v3
//symgo:param NACKREC quick=2 thorough=3
//symgo:stub the DTLS 1.3 record protection of the harness connection authenticates every ciphertext record and returns its bytes as an ACK (the claim is about which records may carry an ACK at all)
//symgo:outside what the FSMs do with an accepted ACK (post_handshake.go, C17); goroutine interleavings

import (
	"context"
	"net"

	"github.com/pion/dtls/v3/internal/closer"
	dtlsflight "github.com/pion/dtls/v3/internal/flight"
	dtlsfragmentbuffer "github.com/pion/dtls/v3/internal/fragmentbuffer"
	dtlsstate "github.com/pion/dtls/v3/internal/state"
	"github.com/pion/dtls/v3/pkg/protocol"
	"github.com/pion/dtls/v3/pkg/protocol/recordlayer"
)

type zzProtAck20 struct{ zzProt20 }

func (p *zzProtAck20) Open(_ recordlayer.UnifiedHeader, _ uint64, enc []byte) (recordlayer.InnerPlaintext, error) {
	return recordlayer.InnerPlaintext{Content: enc[:len(enc)-1], RealType: protocol.ContentTypeACK}, nil
}

func (p *zzProtAck20) UnmaskSequenceNumber(h recordlayer.UnifiedHeader, _ []byte) (recordlayer.UnifiedHeader, error) {
	return h, nil
}

// zzAckBody is an ACK message (RFC 9147 section 7): uint16 length, then (epoch uint64, sequence uint64) pairs.
func zzAckBody(n int) []byte {
	body := []byte{byte(n * 16 >> 8), byte(n * 16)}
	for i := 0; i < n; i++ {
		body = append(body, zzsymBytes("record_number", 16)...)
	}

	return body
}

// "UpdateKeys returns success only after the PEER acknowledged the update": an ACK is acted on only when it
// arrives in a record protected with the peer's keys. A DTLS 1.3 connection (client or server, read keys for
// epoch 3 installed) receives, through the real handleIncomingPacket,
//   - a CLEARTEXT record (legacy header, epoch 0, arbitrary 48-bit sequence number, arbitrary version bytes) of
//     content type ack carrying 0..NACKREC arbitrary record numbers: no ACK leaves the record layer (the
//     packetOutcome handed to the handshake FSMs has no receivedACK), no alert is produced, no error;
//   - the same ACK body inside a ciphertext record of epoch 3 that authenticates: it is handed on, with exactly
//     the record numbers on the wire.
// On the tree before the repair the first case FAILED: anybody able to send a datagram to the endpoint could
// acknowledge its KeyUpdate (or NewSessionTicket, or a handshake flight) on the peer's behalf - UpdateKeys then
// returned success and the endpoint moved to a sending epoch the peer never authorised (confirmed with two live
// connections).
//
//symgo:entry covers=cleartext_ack_ignored,protected_ack_accepted
func zzAckOnlyFromProtectedRecord() {
	st := dtlsstate.NewState13(zzsymChoice("client", 2) == 1)
	c := &Conn{
		state:                  &st,
		fragmentBuffer:         dtlsfragmentbuffer.New(),
		handshakeCache:         dtlsflight.NewCache(),
		decrypted:              make(chan any, 4),
		log:                    zzLog20{},
		closed:                 closer.NewCloser(),
		replayProtectionWindow: 64,
		rAddr:                  &net.UDPAddr{Port: 1},
	}
	st.LocalVersion = protocol.Version1_3
	st.TrafficKeys.Install(nil, &dtlsstate.TrafficGeneration{Epoch: 3, Protection: &zzProtAck20{}})
	st.SetRemoteEpoch(3)
	n := zzsymChoice("record_numbers", zzsymParam("NACKREC")+1)
	body := zzAckBody(n)
	from := &net.UDPAddr{Port: 1}

	if zzsymChoice("protected", 2) == 0 {
		seq := zzsymU64("seq")
		zzsymAssume(seq <= recordlayer.MaxSequenceNumber)
		h := recordlayer.Header{ContentType: protocol.ContentTypeACK, Version: protocol.Version1_2, Epoch: 0, SequenceNumber: seq, ContentLen: uint16(len(body))}
		raw, herr := h.Marshal()
		zzsymAssert(herr == nil, "harness_header")
		raw[1], raw[2] = zzsymU8("version_major"), zzsymU8("version_minor")
		out, err := c.handleIncomingPacket(context.Background(), append(raw, body...), from, nil)
		zzsymAssert(out.receivedACK == nil, "ack_in_unprotected_record_is_not_acted_on")
		zzsymAssert(out.responseAlert == nil && err == nil, "ack_in_unprotected_record_is_silently_dropped")
		zzsymCover("cleartext_ack_ignored")

		return
	}
	// unified header: 001 C=0 S=1 L=1 EE | seq16 | len16 | body | 16 bytes standing for the tag (the fake strips one byte)
	enc := append(append([]byte{}, body...), 0)
	for len(enc) < 17 {
		enc = append(enc, 0)
	}
	// keep the ACK body intact: the fake returns enc[:len(enc)-1]; pad only when there are no record numbers
	rec := append([]byte{0x2c | 3, 0, 5, byte(len(enc) >> 8), byte(len(enc))}, enc...)
	out, err := c.handleIncomingPacket(context.Background(), rec, from, nil)
	if n == 0 {
		return // padded body (ciphertext minimum): its decode outcome is not the subject
	}
	zzsymAssert(err == nil, "protected_ack_no_error")
	zzsymAssert(out.receivedACK != nil && len(out.receivedACK.Records) == n, "protected_ack_is_handed_to_the_handshake_layer")
	for i := 0; i < n; i++ {
		r := out.receivedACK.Records[i]
		w := body[2+16*i:]
		var e, s uint64
		for k := 0; k < 8; k++ {
			e = e<<8 | uint64(w[k])
			s = s<<8 | uint64(w[8+k])
		}
		zzsymAssert(zzsymAnd(r.Epoch == e, r.SequenceNumber == s), "protected_ack_record_numbers_as_on_the_wire")
	}
	zzsymCover("protected_ack_accepted")
}

// The same for a record in the DTLS 1.2 framing that merely CLAIMS a protected epoch (1..3) on a DTLS 1.3 connection
// whose cipher suite is one of the three REAL DTLS 1.3 suites: DTLS 1.3 protects records only in the unified-header
// framing, so this one cannot have been authenticated and its ACK (or handshake message) must not reach the state
// machines - otherwise anybody could acknowledge our KeyUpdate by writing "epoch 3" into a cleartext header. The
// suites' legacy Decrypt entry point is the only guard on that path.
//
//symgo:entry covers=legacy_framed_ack_ignored
func zzLegacyFramedAckOn13Ignored() {
	st := dtlsstate.NewState13(zzsymChoice("client", 2) == 1)
	c := &Conn{
		state:                  &st,
		fragmentBuffer:         dtlsfragmentbuffer.New(),
		handshakeCache:         dtlsflight.NewCache(),
		decrypted:              make(chan any, 4),
		log:                    zzLog20{},
		closed:                 closer.NewCloser(),
		replayProtectionWindow: 64,
		rAddr:                  &net.UDPAddr{Port: 1},
	}
	st.LocalVersion = protocol.Version1_3
	st.CipherSuite = defaultCipherSuites13()[zzsymChoice("suite13", 3)]
	st.TrafficKeys.Install(nil, &dtlsstate.TrafficGeneration{Epoch: 3, Protection: &zzProtAck20{}})
	st.SetRemoteEpoch(3)
	n := zzsymChoice("record_numbers", zzsymParam("NACKREC")+1)
	body := zzAckBody(n)
	ct := []protocol.ContentType{protocol.ContentTypeACK, protocol.ContentTypeHandshake}[zzsymChoice("content_type", 2)]
	if ct == protocol.ContentTypeHandshake {
		body = zzsymBytes("handshake", 17) // header + 5 body bytes (a KeyUpdate is 12 + 1)
	}
	seq := zzsymU64("seq")
	zzsymAssume(seq <= recordlayer.MaxSequenceNumber)
	h := recordlayer.Header{ContentType: ct, Version: protocol.Version1_2, Epoch: uint16(1 + zzsymChoice("epoch", 3)), SequenceNumber: seq, ContentLen: uint16(len(body))}
	raw, herr := h.Marshal()
	zzsymAssert(herr == nil, "harness_header")
	raw[1], raw[2] = zzsymU8("version_major"), zzsymU8("version_minor")
	out, err := c.handleIncomingPacket(context.Background(), append(raw, body...), &net.UDPAddr{Port: 1}, nil)
	zzsymAssert(out.receivedACK == nil, "ack_in_legacy_framed_record_is_not_acted_on")
	zzsymAssert(!out.containsHandshake, "handshake_in_legacy_framed_record_is_not_acted_on")
	zzsymAssert(out.responseAlert == nil && err == nil, "legacy_framed_record_is_silently_dropped")
	zzsymCover("legacy_framed_ack_ignored")
}
