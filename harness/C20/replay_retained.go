package dtlshandshake

//symgo:pkg github.com/pion/dtls/v3/internal/handshake
//symgo:param NRETAIN quick=7 thorough=10
//symgo:stub HKDF / record protection as in post_handshake.go (uninterpreted expansion, recorder protection)
//symgo:outside the record path that consults the windows (C06 zzConnReplayAcrossKeyUpdates)

import (
	"context"

	dtlsstate "github.com/pion/dtls/v3/internal/state"
	"github.com/pion/dtls/v3/pkg/protocol/handshake"
	"github.com/pion/transport/v4/replaydetector"
)

// "Delivered at most once" across ANY number of key updates: a receiver that has followed k = 1..NRETAIN key
// updates of its peer holds read generations for epochs 3..3+k-1 and one anti-replay window per epoch (each window
// is a distinct object that has seen records). The peer's next KeyUpdate is processed by the real handleKeyUpdate.
// Proved: for every epoch whose read generation is STILL RETAINED afterwards (records of that epoch can still be
// opened - TrafficKeys.Read finds it), the epoch's anti-replay window is the very same object as before; the window
// table has not shrunk. A window that was dropped or replaced while its keys can still open records would let a
// duplicate of an old record through as "never seen".
//
//symgo:entry covers=update_after_many,old_generation_still_retained
func zzReplayWindowsOutliveKeyUpdates() {
	k := 1 + zzsymChoice("updates_so_far", zzsymParam("NRETAIN"))
	p, st, conn := zzPost20(32)
	last := uint16(3 + k - 1)
	for e := uint16(3); e <= last; e++ {
		secret := zzsymBytes("secret", 32)
		st.TrafficKeys.Install(nil, &dtlsstate.TrafficGeneration{
			Epoch: e, Generation: uint64(e - 3), Secret: secret, Protection: &zzProtH20{secret: secret},
		})
	}
	st.SetRemoteEpoch(last)
	windows := make([]replaydetector.ReplayDetector, int(last)+1)
	for e := range windows {
		windows[e] = replaydetector.New(64, ^uint64(0))
		if acc, ok := windows[e].Check(uint64(e)); ok {
			acc()
		}
	}
	st.ReplayDetector = append([]replaydetector.ReplayDetector{}, windows...)

	err := p.handleKeyUpdate(context.Background(), conn, &handshake.MessageKeyUpdate{}, last)
	zzsymAssert(err == nil && st.RemoteEpoch() == last+1, "keyupdate_accepted")
	zzsymAssert(len(st.ReplayDetector) >= len(windows), "window_table_not_shrunk")
	for e := uint16(3); e <= last; e++ {
		if _, retained := st.TrafficKeys.Read(e); retained {
			zzsymAssert(st.ReplayDetector[e] == windows[e], "window_of_retained_epoch_survives_key_update")
			if e+4 <= last+1 {
				zzsymCover("old_generation_still_retained")
			}
		}
	}
	if k >= 4 {
		zzsymCover("update_after_many")
	}
}
