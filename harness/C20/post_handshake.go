package dtlshandshake

//symgo:pkg github.com/pion/dtls/v3/internal/handshake
//symgo:param NACK quick=2 thorough=3
//symgo:replace github.com/pion/dtls/v3/pkg/crypto/keyschedule.HkdfExpandLabel zzHkdfExpandLabel20
//symgo:stub keyschedule.HkdfExpandLabel is an uninterpreted function of (secret, label, context) with the requested output length: the check is on WHICH HKDF-Expand-Label call derives the next secret (RFC 8446 7.2), not on HKDF itself
//symgo:stub the cipher suite is a harness fake (hash length 32 or 48) whose NewRecordProtection remembers the traffic secret it was keyed with
//symgo:stub the handshake Conn is a harness fake: WritePackets returns the tracked record numbers the harness chose, CommitLocalKeyUpdate succeeds or fails as chosen and logs its argument (the real commit is checked in conn_keys.go), Notify logs the alert
//symgo:assume a received KeyUpdate carries request_update 0 or 1 (MessageKeyUpdate.Unmarshal rejects everything else)
//symgo:assume record numbers returned by one connection's WritePackets are pairwise distinct (C09)
//symgo:outside the goroutine composition: fsm13.finish select loop, UpdateKeys callers blocking on the completion context, writers racing with the FSM; loss/dup/reorder schedules beyond the ACK sets enumerated here

import (
	"context"
	"crypto/rand"
	"errors"
	"hash"
	"time"

	dtlsciphersuite "github.com/pion/dtls/v3/internal/ciphersuite"
	dtlsconfig "github.com/pion/dtls/v3/internal/config"
	dtlserrors "github.com/pion/dtls/v3/internal/errors"
	dtlsflight "github.com/pion/dtls/v3/internal/flight"
	dtlsstate "github.com/pion/dtls/v3/internal/state"
	"github.com/pion/dtls/v3/pkg/protocol"
	"github.com/pion/dtls/v3/pkg/protocol/alert"
	"github.com/pion/dtls/v3/pkg/protocol/handshake"
	"github.com/pion/dtls/v3/pkg/protocol/recordlayer"
)

// ---------------------------------------------------------------------------------------------
// fakes
// ---------------------------------------------------------------------------------------------

// zzHkdfExpandLabel20 replaces keyschedule.HkdfExpandLabel: an uninterpreted function of its inputs.
func zzHkdfExpandLabel20(h func() hash.Hash, secret []byte, label string, context []byte, length int) ([]byte, error) {
	if h == nil {
		return nil, dtlserrors.ErrKeyScheduleMissingHashFunction
	}
	zzHkdfCalls20++

	return zzsymUF("hkdf_expand_label", length, secret, []byte(label), context), nil
}

var zzHkdfCalls20 int

type zzHash20 struct{ size int }

func (h *zzHash20) Write(p []byte) (int, error) { return len(p), nil }
func (h *zzHash20) Sum(b []byte) []byte         { return append(b, make([]byte, h.size)...) }
func (h *zzHash20) Reset()                      {}
func (h *zzHash20) Size() int                   { return h.size }
func (h *zzHash20) BlockSize() int              { return 64 }

// zzProtH20 is the record protection the fake suite hands out; it remembers its key material.
type zzProtH20 struct {
	secret []byte
}

func (p *zzProtH20) Seal(
	h recordlayer.UnifiedHeader, _ uint64, _ protocol.ContentType, _ []byte,
) (recordlayer.CiphertextRecord13, error) {
	return recordlayer.CiphertextRecord13{Header: h}, nil
}

func (p *zzProtH20) Open(recordlayer.UnifiedHeader, uint64, []byte) (recordlayer.InnerPlaintext, error) {
	return recordlayer.InnerPlaintext{}, dtlserrors.ErrDecryptPacket
}

func (p *zzProtH20) UnmaskSequenceNumber(h recordlayer.UnifiedHeader, _ []byte) (recordlayer.UnifiedHeader, error) {
	return h, nil
}

type zzSuite20 struct {
	dtlsciphersuite.TLS13CipherSuite
	hashLen int
}

func (s *zzSuite20) String() string         { return "zzSuite20" }
func (s *zzSuite20) ID() dtlsciphersuite.ID { return dtlsciphersuite.TLS_AES_128_GCM_SHA256 }
func (s *zzSuite20) HashFunc() func() hash.Hash {
	return func() hash.Hash { return &zzHash20{size: s.hashLen} }
}

func (s *zzSuite20) NewRecordProtection(secret []byte) (dtlsciphersuite.RecordProtection13, error) {
	return &zzProtH20{secret: append([]byte{}, secret...)}, nil
}

var _ dtlsciphersuite.CipherSuiteTLS13 = (*zzSuite20)(nil)

type zzConn20 struct {
	failWrites  int // the next failWrites WritePackets calls fail (transient send error) and write nothing
	alerts      []alert.Description
	levels      []alert.Level
	written     [][]*dtlsflight.Packet
	writeEpochs []uint16
	nextRecords []SentHandshakeRecord
	commits     []*dtlsstate.TrafficGeneration
	commitErr   error
	drained     int

	// auto mode (zzOneReliableFlight): record numbers are generated, tracked records are logged, and a
	// successful commit has the effect of the real Conn.commitLocalKeyUpdate (checked in conn_keys.go).
	auto        bool
	autoSeq     uint64
	trackedNums []protocol.RecordNumber
	trackedTyp  []handshake.Type
	commitTo    *dtlsstate.State13
}

func (c *zzConn20) HandleQueuedPackets(context.Context) error { c.drained++; return nil }
func (c *zzConn20) SessionKey() []byte                        { return nil }
func (c *zzConn20) RecvHandshake() <-chan RecvHandshakeState  { return nil }
func (c *zzConn20) SetLocalEpoch(uint16)                      {}
func (c *zzConn20) TakePendingACKs() []protocol.RecordNumber  { return nil }
func (c *zzConn20) Notify(_ context.Context, level alert.Level, desc alert.Description) error {
	c.levels = append(c.levels, level)
	c.alerts = append(c.alerts, desc)

	return nil
}

func (c *zzConn20) WritePackets(_ context.Context, pkts []*dtlsflight.Packet) (*WriteResult, error) {
	if c.failWrites > 0 {
		c.failWrites--

		return nil, errZZCommit20
	}
	c.written = append(c.written, pkts)
	for _, p := range pkts {
		c.writeEpochs = append(c.writeEpochs, p.Record.Header.Epoch)
	}
	res := &WriteResult{}
	for _, p := range pkts {
		if !p.ShouldTrackACK { // only ACK-tracked packets get record numbers reported back
			continue
		}
		if !c.auto {
			res.TrackedRecords = c.nextRecords
			c.nextRecords = nil

			continue
		}
		hs, ok := p.Record.Content.(*handshake.Handshake)
		if !ok {
			continue
		}
		num := protocol.RecordNumber{Epoch: uint64(p.Record.Header.Epoch), SequenceNumber: c.autoSeq}
		c.autoSeq++
		c.trackedNums = append(c.trackedNums, num)
		c.trackedTyp = append(c.trackedTyp, hs.Header.Type)
		res.TrackedRecords = append(res.TrackedRecords, SentHandshakeRecord{
			Number: num,
			Fragments: []SentHandshakeFragment{{
				MessageSequence: hs.Header.MessageSequence, Offset: 0, Length: hs.Header.Length,
			}},
		})
	}

	return res, nil
}

func (c *zzConn20) CommitLocalKeyUpdate(g *dtlsstate.TrafficGeneration) error {
	c.commits = append(c.commits, g)
	if c.commitErr == nil && c.commitTo != nil {
		c.commitTo.TrafficKeys.Install(g, nil)
		c.commitTo.SetLocalEpoch(g.Epoch)
	}

	return c.commitErr
}

// zzRand20 stands in for crypto/rand.Reader (nil under the interpreter): arbitrary bytes.
type zzRand20 struct{}

func (zzRand20) Read(p []byte) (int, error) {
	copy(p, zzsymBytes("rand", len(p)))

	return len(p), nil
}

var errZZCommit20 = errors.New("zz commit refused")

// zzPost20 builds a post-handshake machine over a fresh DTLS 1.3 state with the fake suite.
func zzPost20(hashLen int) (*postHandshake, *dtlsstate.State13, *zzConn20) {
	st := dtlsstate.NewState13(zzsymChoice("client", 2) == 1)
	st.CipherSuite = &zzSuite20{hashLen: hashLen}
	p := newPostHandshake(handshakeContext{
		state: &st,
		cache: dtlsflight.NewCache(),
		cfg:   &dtlsconfig.HandshakeConfig{InitialRetransmitInterval: 1000},
	})
	p.initialized = true

	return p, &st, &zzConn20{}
}

func zzHashLen20() int {
	if zzsymChoice("hash", 2) == 1 {
		return 48
	}

	return 32
}

// zzSuccessorSecret20 is the oracle: RFC 8446 section 7.2
// application_traffic_secret_N+1 = HKDF-Expand-Label(application_traffic_secret_N, "traffic upd", "", Hash.length).
func zzSuccessorSecret20(secret []byte, hashLen int) []byte {
	return zzsymUF("hkdf_expand_label", hashLen, secret, []byte("traffic upd"), []byte{})
}

// zzCheckSuccessor20 asserts that next is the traffic-update successor of cur.
func zzCheckSuccessor20(cur, next *dtlsstate.TrafficGeneration, hashLen int) {
	zzsymAssert(next != nil, "successor_exists")
	zzsymAssert(uint32(next.Epoch) == uint32(cur.Epoch)+1, "successor_epoch_plus_one")
	zzsymAssert(next.Generation == cur.Generation+1, "successor_generation_plus_one")
	zzsymAssert(zzsymEqBytes(next.Secret, zzSuccessorSecret20(cur.Secret, hashLen)), "successor_secret_is_traffic_upd_expansion")
	prot, ok := next.Protection.(*zzProtH20)
	zzsymAssert(ok && prot != nil, "successor_has_protection")
	zzsymAssert(zzsymEqBytes(prot.secret, next.Secret), "protection_keyed_with_successor_secret")
}

func zzGenH20(name string, hashLen int) *dtlsstate.TrafficGeneration {
	secret := zzsymBytes(name+"_secret", hashLen)

	return &dtlsstate.TrafficGeneration{
		Epoch:      zzsymU16(name + "_epoch"),
		Generation: uint64(zzsymU16(name + "_gen")),
		Secret:     secret,
		Protection: &zzProtH20{secret: secret},
	}
}

// ---------------------------------------------------------------------------------------------
// successor
// ---------------------------------------------------------------------------------------------

// nextTrafficGeneration for an arbitrary current generation (any epoch, generation counter, secret of the hash
// length 32/48 or of a wrong length): the result has epoch+1 and generation+1, its secret is exactly
// HKDF-Expand-Label(current secret, "traffic upd", "", Hash.length) - one HKDF call, keyed with the current
// secret - and its record protection is derived from that new secret (not from the old one). Epoch 65535 is
// refused (no wrap to 0); a secret whose length is not Hash.length is refused. The current generation is not
// modified.
//
//symgo:entry covers=succ_ok,succ_overflow,succ_badlen
func zzSuccessor() {
	hashLen := zzHashLen20()
	p, _, _ := zzPost20(hashLen)
	cur := zzGenH20("cur", hashLen)
	if zzsymChoice("badlen", 2) == 1 {
		cur.Secret = zzsymBytes("short_secret", hashLen-1)
		next, err := p.nextTrafficGeneration(cur)
		zzsymAssert(err != nil && next == nil, "wrong_length_secret_refused")
		zzsymCover("succ_badlen")

		return
	}
	epoch0, gen0 := cur.Epoch, cur.Generation
	secret0 := append([]byte{}, cur.Secret...)
	next, err := p.nextTrafficGeneration(cur)
	if epoch0 == 0xffff {
		zzsymAssert(err != nil && next == nil, "epoch_overflow_refused")
		zzsymCover("succ_overflow")

		return
	}
	zzsymAssert(err == nil, "successor_derived")
	zzCheckSuccessor20(cur, next, hashLen)
	zzsymAssert(zzHkdfCalls20 == 1, "exactly_one_expansion")
	zzsymAssert(cur.Epoch == epoch0 && cur.Generation == gen0, "current_generation_untouched")
	zzsymAssert(zzsymEqBytes(cur.Secret, secret0), "current_secret_untouched")
	zzsymCover("succ_ok")
}

// ---------------------------------------------------------------------------------------------
// read_gen_step
// ---------------------------------------------------------------------------------------------

// handleKeyUpdate (the receiver of a peer KeyUpdate): current read generation with arbitrary epoch / generation
// counter / secret, optionally an older retained read generation, arbitrary authorised remote epoch, arbitrary
// epoch of the record that carried the KeyUpdate, request_update 0/1, and an outbound queue that is empty,
// holds an application write, or a user KeyUpdate followed by an application write. Proved: the read side
// advances iff message epoch = current read epoch = remote epoch (and that epoch is not 65535); it then installs
// exactly the traffic-update successor as current read generation, authorises exactly epoch+1, keeps the old
// generation retrievable under its epoch, consumes the message (recv sequence + 1), drains queued records of the
// new epoch, and queues a KeyUpdate(update_not_requested) response ahead of pending application writes iff the
// peer requested one. Otherwise nothing changes; a stale/future-epoch KeyUpdate raises unexpected_message.
//
//symgo:entry covers=read_advanced,read_advanced_requested,read_refused_epoch,read_refused_overflow,read_old_retained,read_no_keys
func zzReadGenStep() {
	hashLen := zzHashLen20()
	p, st, conn := zzPost20(hashLen)
	shape := zzsymChoice("keys", 3)
	if shape == 2 {
		// no read keys at all
		st.SetRemoteEpoch(zzsymU16("remote"))
		err := p.handleKeyUpdate(context.Background(), conn, &handshake.MessageKeyUpdate{}, zzsymU16("msg_epoch"))
		zzsymAssert(err != nil, "keyupdate_without_read_keys_refused")
		_, has := st.TrafficKeys.CurrentRead()
		zzsymAssert(!has, "still_no_read_keys")
		zzsymCover("read_no_keys")

		return
	}
	cur := zzGenH20("cur", hashLen)
	var old *dtlsstate.TrafficGeneration
	if shape == 1 {
		old = zzGenH20("old", hashLen)
		zzsymAssume(uint32(old.Epoch)+1 == uint32(cur.Epoch))
		st.TrafficKeys.Install(nil, old)
	}
	st.TrafficKeys.Install(nil, cur)
	remote := zzsymU16("remote")
	st.SetRemoteEpoch(remote)
	local := zzsymU16("local")
	st.SetLocalEpoch(local)
	recvSeq := int(zzsymU16("recv_seq"))
	st.HandshakeRecvSequence = recvSeq
	msgEpoch := zzsymU16("msg_epoch")
	request := handshake.KeyUpdateRequest(zzsymU8("request_update"))
	zzsymAssume(request <= handshake.KeyUpdateRequested)
	queueShape := zzsymChoice("queue", 3)
	app := postHandshakeCommand{Kind: commandSendApplicationData}
	user := postHandshakeCommand{Kind: commandSendKeyUpdate, KeyUpdate: keyUpdateCommand{Request: handshake.KeyUpdateRequested}}
	switch queueShape {
	case 1:
		p.queue = []postHandshakeCommand{app}
	case 2:
		p.queue = []postHandshakeCommand{user, app}
	}
	queueLen := len(p.queue)

	err := p.handleKeyUpdate(context.Background(), conn, &handshake.MessageKeyUpdate{RequestUpdate: request}, msgEpoch)

	now, has := st.TrafficKeys.CurrentRead()
	zzsymAssert(has, "read_generation_present")
	shouldAdvance := zzsymAnd(zzsymAnd(msgEpoch == cur.Epoch, remote == cur.Epoch), cur.Epoch != 0xffff)
	advanced := now != cur
	zzsymAssert(advanced == shouldAdvance, "advance_iff_message_epoch_is_current_read_and_remote_epoch")
	zzsymAssert(st.LocalEpoch() == local, "sending_epoch_untouched_by_peer_keyupdate")
	zzsymAssert(len(conn.commits) == 0, "no_write_commit_on_receive")
	if !advanced {
		zzsymAssert(st.RemoteEpoch() == remote, "refusal_keeps_remote_epoch")
		zzsymAssert(st.HandshakeRecvSequence == recvSeq, "refusal_does_not_consume")
		zzsymAssert(len(p.queue) == queueLen, "refusal_queues_nothing")
		if zzsymOr(msgEpoch != cur.Epoch, remote != cur.Epoch) {
			zzsymAssert(len(conn.alerts) == 1 && conn.alerts[0] == alert.UnexpectedMessage && conn.levels[0] == alert.Fatal,
				"wrong_epoch_keyupdate_is_fatal_unexpected_message")
			zzsymCover("read_refused_epoch")
		} else {
			zzsymAssert(err != nil, "epoch_overflow_refused")
			zzsymCover("read_refused_overflow")
		}

		return
	}
	zzsymAssert(err == nil, "advance_reports_success")
	zzCheckSuccessor20(cur, now, hashLen)
	zzsymAssert(uint32(st.RemoteEpoch()) == uint32(remote)+1, "remote_epoch_is_previous_plus_one")
	zzsymAssert(st.RemoteEpoch() == now.Epoch, "authorised_epoch_is_new_read_generation")
	zzsymAssert(st.HandshakeRecvSequence == recvSeq+1, "message_consumed_once")
	zzsymAssert(len(conn.alerts) == 0, "no_alert_on_valid_keyupdate")
	zzsymAssert(conn.drained == 1, "queued_records_of_new_epoch_drained")
	prev, found := st.TrafficKeys.Read(cur.Epoch)
	zzsymAssert(found && prev == cur, "previous_read_generation_retained")
	if old != nil {
		older, foundOld := st.TrafficKeys.Read(old.Epoch)
		zzsymAssert(foundOld && older == old, "older_read_generation_retained")
		zzsymCover("read_old_retained")
	}
	// response queueing
	if request == handshake.KeyUpdateRequested {
		zzsymAssert(len(p.queue) == queueLen+1, "requested_response_queued_once")
		at := 0
		if queueShape == 2 {
			at = 1 // behind the KeyUpdate the user already queued, ahead of the application write
		}
		resp := p.queue[at]
		zzsymAssert(resp.Kind == commandSendKeyUpdate && resp.KeyUpdate.Request == handshake.KeyUpdateNotRequested,
			"response_is_keyupdate_not_requested")
		if queueShape != 0 {
			zzsymAssert(p.queue[len(p.queue)-1].Kind == commandSendApplicationData, "response_ahead_of_application_writes")
		}
		if queueShape == 2 {
			zzsymAssert(p.queue[0].Kind == commandSendKeyUpdate && p.queue[0].KeyUpdate.Request == handshake.KeyUpdateRequested,
				"earlier_user_keyupdate_keeps_its_place")
		}
		zzsymCover("read_advanced_requested")
	} else {
		zzsymAssert(len(p.queue) == queueLen, "no_response_unless_requested")
		zzsymCover("read_advanced")
	}
}

// ---------------------------------------------------------------------------------------------
// update_after_ack
// ---------------------------------------------------------------------------------------------

var zzSignals20 int

func zzCompletion20() *postHandshakeCompletion {
	return &postHandshakeCompletion{signal: func() { zzSignals20++ }}
}

// zzSent20 is the harness' own book-keeping of what went on the wire: record number -> fragment indexes.
type zzSent20 struct {
	number protocol.RecordNumber
	frags  []int
}

func zzRecord20(name string, epoch uint16, seq uint16, frags []int, all []SentHandshakeFragment) (SentHandshakeRecord, zzSent20) {
	num := protocol.RecordNumber{Epoch: uint64(epoch), SequenceNumber: zzsymU64(name)}
	rec := SentHandshakeRecord{Number: num}
	for _, f := range frags {
		rec.Fragments = append(rec.Fragments, all[f])
	}

	return rec, zzSent20{number: num, frags: frags}
}

// zzApplyAck20 is the abstract ACK model: a fragment is acknowledged once any record that carried it is listed.
func zzApplyAck20(acked []bool, sent []zzSent20, ack protocol.ACK) {
	for _, num := range ack.Records {
		for _, s := range sent {
			hit := zzsymAnd(num.Epoch == s.number.Epoch, num.SequenceNumber == s.number.SequenceNumber)
			for _, f := range s.frags {
				acked[f] = zzsymOr(acked[f], hit)
			}
		}
	}
}

func zzAck20(name string, n int) protocol.ACK {
	ack := protocol.ACK{}
	for i := 0; i < n; i++ {
		ack.Records = append(ack.Records, protocol.RecordNumber{
			Epoch: uint64(zzsymU16(name + "_epoch")), SequenceNumber: zzsymU64(name + "_seq"),
		})
	}

	return ack
}

// Only an ACK completes our own KeyUpdate. While a local KeyUpdate (request_update 0 or 1) is in flight - one
// record, not yet acknowledged - a valid KeyUpdate of the PEER arrives (request_update 0 or 1, its epoch is the
// current read epoch): the peer's message advances the READ generation only. Proved: the completion handed to
// UpdateKeys has not fired, nothing was committed on the connection, the sending epoch is untouched and the local
// flight is still active (it will be retransmitted until the ACK comes). A peer KeyUpdate(update_not_requested)
// is not an answer to ours: the peer may have updated on its own initiative while our KeyUpdate was lost.
//
//symgo:entry covers=peer_update_while_ours_in_flight
func zzPeerKeyUpdateDoesNotAckOurs() {
	hashLen := 32
	p, st, conn := zzPost20(hashLen)
	cur := zzGenH20("cur", hashLen)
	rcur := zzGenH20("rcur", hashLen)
	st.TrafficKeys.Install(cur, rcur)
	st.SetLocalEpoch(cur.Epoch)
	st.SetRemoteEpoch(rcur.Epoch)
	zzsymAssume(cur.Epoch != 0xffff)
	zzsymAssume(rcur.Epoch != 0xffff)
	sendSeq := int(zzsymU16("send_seq"))
	zzsymAssume(sendSeq < 0xffff)
	st.HandshakeSendSequence = sendSeq
	ourRequest := handshake.KeyUpdateNotRequested
	if zzsymChoice("our_request", 2) == 1 {
		ourRequest = handshake.KeyUpdateRequested
	}
	ctx := context.Background()
	completion := zzCompletion20()
	zzSignals20 = 0
	frags := []SentHandshakeFragment{{MessageSequence: uint16(sendSeq), Offset: 0, Length: 1}}
	r, _ := zzRecord20("tx0", cur.Epoch, uint16(sendSeq), []int{0}, frags)
	conn.nextRecords = []SentHandshakeRecord{r}
	err := p.startKeyUpdate(ctx, conn, postHandshakeCommand{
		Kind: commandSendKeyUpdate, KeyUpdate: keyUpdateCommand{Request: ourRequest}, Completion: completion,
	})
	zzsymAssert(err == nil && len(p.flights) == 1, "own_keyupdate_in_flight")

	peerRequest := handshake.KeyUpdateNotRequested
	if zzsymChoice("peer_request", 2) == 1 {
		peerRequest = handshake.KeyUpdateRequested
	}
	err = p.handleKeyUpdate(ctx, conn, &handshake.MessageKeyUpdate{RequestUpdate: peerRequest}, rcur.Epoch)
	zzsymAssert(err == nil, "peer_keyupdate_accepted")
	now, has := st.TrafficKeys.CurrentRead()
	zzsymAssert(has && now != rcur, "read_generation_advanced")

	zzsymAssert(zzSignals20 == 0 && completion.outcome.Load() == nil, "peer_keyupdate_does_not_complete_our_update")
	zzsymAssert(len(conn.commits) == 0, "peer_keyupdate_commits_no_write_generation")
	zzsymAssert(st.LocalEpoch() == cur.Epoch, "peer_keyupdate_leaves_sending_epoch")
	zzsymAssert(len(p.flights) == 1, "own_flight_still_active_after_peer_keyupdate")
	zzsymCover("peer_update_while_ours_in_flight")
}

// A KeyUpdate whose FIRST transmission fails at the socket (transient send error): nothing of it reached the peer.
// Either the post-handshake machine stops with that error (what the library does: later UpdateKeys calls then fail
// too, nothing is promised) or, if it keeps running, it has lost nothing - in particular the handshake message
// sequence number it had assigned to the unsent KeyUpdate is available again. Otherwise the next KeyUpdate would
// go out with a message_seq the peer is not waiting for: the peer would ACK the record on receipt but never process
// the message, UpdateKeys would return success on that ACK, and the endpoint would move to a sending epoch the peer
// never installs. Proved for request_update 0/1 and an arbitrary current generation / message sequence number.
//
//symgo:entry covers=send_failure_stops_machine
func zzKeyUpdateFirstSendFails() {
	hashLen := 32
	p, st, conn := zzPost20(hashLen)
	cur := zzGenH20("cur", hashLen)
	st.TrafficKeys.Install(cur, nil)
	st.SetLocalEpoch(cur.Epoch)
	zzsymAssume(cur.Epoch != 0xffff)
	sendSeq := int(zzsymU16("send_seq"))
	zzsymAssume(sendSeq < 0xffff)
	st.HandshakeSendSequence = sendSeq
	request := handshake.KeyUpdateNotRequested
	if zzsymChoice("request", 2) == 1 {
		request = handshake.KeyUpdateRequested
	}
	completion := zzCompletion20()
	zzSignals20 = 0
	conn.failWrites = 1
	err := p.startKeyUpdate(context.Background(), conn, postHandshakeCommand{
		Kind: commandSendKeyUpdate, KeyUpdate: keyUpdateCommand{Request: request}, Completion: completion,
	})
	zzsymAssert(len(conn.commits) == 0 && st.LocalEpoch() == cur.Epoch, "failed_send_commits_nothing")
	if err != nil {
		zzsymCover("send_failure_stops_machine")

		return
	}
	// the machine keeps running: the caller must have been told, and no message sequence number may be lost
	out := completion.outcome.Load()
	zzsymAssert(out != nil && out.err != nil, "failed_send_reported_to_update_keys")
	zzsymAssert(st.HandshakeSendSequence == sendSeq, "failed_send_gives_back_its_message_sequence_number")
	zzsymAssert(len(p.flights) == 0, "failed_send_leaves_no_flight")
	zzsymCover("send_failure_rolled_back")
}

// UpdateKeys' reliable flight, from startKeyUpdate to completion: arbitrary current write generation (epoch e =
// sending epoch), request_update 0/1; the KeyUpdate goes out as one record with one fragment, one record with
// two fragments, or two records with one fragment each (arbitrary distinct record numbers); then an ACK with one
// arbitrary record number may arrive, the flight may be retransmitted (new record numbers for the fragments
// still pending), and a second ACK with 0..NACK arbitrary record numbers arrives (ACKs may list unknown,
// duplicate, old or new record numbers in any order); the commit on the connection succeeds or is refused.
// Proved against an abstract model (fragment acknowledged <=> some record that carried it was listed in some
// ACK): the completion handed to UpdateKeys fires iff every tracked fragment of the flight is acknowledged; it
// fires exactly once and carries nil iff the connection's commit succeeded; CommitLocalKeyUpdate is invoked
// exactly then, once, with the traffic-update successor of the current write generation (epoch e+1); before
// that the sending epoch is untouched, no commit happens and the flight stays active. The KeyUpdate itself is
// sent encrypted, ACK-tracked, under the current epoch e with the requested request_update value, and every
// retransmission stays in epoch e. After completion the flight and all of its record numbers are forgotten.
//
//symgo:entry covers=done_first_ack,done_second_ack,done_after_retransmit,partial_ack,unknown_ack_ignored,commit_refused,not_acked,old_record_acks_after_retransmit
func zzUpdateAfterAck() {
	hashLen := 32
	p, st, conn := zzPost20(hashLen)
	cur := zzGenH20("cur", hashLen)
	st.TrafficKeys.Install(cur, nil)
	st.SetLocalEpoch(cur.Epoch)
	zzsymAssume(cur.Epoch != 0xffff)
	sendSeq := int(zzsymU16("send_seq"))
	zzsymAssume(sendSeq < 0xffff)
	st.HandshakeSendSequence = sendSeq
	if zzsymChoice("commit_refused", 2) == 1 {
		conn.commitErr = errZZCommit20
	}
	request := handshake.KeyUpdateNotRequested
	if zzsymChoice("request", 2) == 1 {
		request = handshake.KeyUpdateRequested
	}
	ctx := context.Background()
	completion := zzCompletion20()

	// fragments of the flight (the message body is 1 byte on the wire; the tracker is generic, so are we)
	var frags []SentHandshakeFragment
	var sent []zzSent20
	layout := zzsymChoice("layout", 3)
	mseq := uint16(sendSeq)
	switch layout {
	case 0:
		frags = []SentHandshakeFragment{{MessageSequence: mseq, Offset: 0, Length: 1}}
		r, s := zzRecord20("tx0", cur.Epoch, mseq, []int{0}, frags)
		conn.nextRecords = []SentHandshakeRecord{r}
		sent = []zzSent20{s}
	case 1:
		frags = []SentHandshakeFragment{{MessageSequence: mseq, Offset: 0, Length: 1}, {MessageSequence: mseq, Offset: 1, Length: 1}}
		r, s := zzRecord20("tx0", cur.Epoch, mseq, []int{0, 1}, frags)
		conn.nextRecords = []SentHandshakeRecord{r}
		sent = []zzSent20{s}
	default:
		frags = []SentHandshakeFragment{{MessageSequence: mseq, Offset: 0, Length: 1}, {MessageSequence: mseq, Offset: 1, Length: 1}}
		r0, s0 := zzRecord20("tx0", cur.Epoch, mseq, []int{0}, frags)
		r1, s1 := zzRecord20("tx1", cur.Epoch, mseq, []int{1}, frags)
		zzsymAssume(s0.number.SequenceNumber != s1.number.SequenceNumber)
		conn.nextRecords = []SentHandshakeRecord{r0, r1}
		sent = []zzSent20{s0, s1}
	}
	acked := make([]bool, len(frags))

	err := p.startKeyUpdate(ctx, conn, postHandshakeCommand{
		Kind: commandSendKeyUpdate, KeyUpdate: keyUpdateCommand{Request: request}, Completion: completion,
	})
	zzsymAssert(err == nil, "keyupdate_started")
	zzsymAssert(len(conn.written) == 1 && len(conn.written[0]) == 1, "one_keyupdate_packet_written")
	pkt := conn.written[0][0]
	zzsymAssert(pkt.ShouldEncrypt && pkt.ShouldTrackACK, "keyupdate_encrypted_and_tracked")
	zzsymAssert(pkt.Record.Header.Epoch == cur.Epoch, "keyupdate_sent_under_current_epoch")
	hs, isHS := pkt.Record.Content.(*handshake.Handshake)
	zzsymAssert(isHS && hs.Header.Type == handshake.TypeKeyUpdate && hs.Header.MessageSequence == mseq, "keyupdate_handshake_header")
	ku, isKU := hs.Message.(*handshake.MessageKeyUpdate)
	zzsymAssert(isKU && ku.RequestUpdate == request, "keyupdate_carries_requested_flag")
	zzsymAssert(len(p.flights) == 1, "one_active_flight")

	allAcked := func() bool {
		all := true
		for _, a := range acked {
			all = zzsymAnd(all, a)
		}

		return all
	}
	// checkState compares the implementation with the model after each receive event.
	done := false
	checkState := func(recvErr error) {
		want := allAcked()
		got := zzSignals20 > 0
		zzsymAssert(got == want, "completion_iff_every_fragment_acknowledged")
		if !got {
			zzsymAssert(recvErr == nil, "receive_ok_while_pending")
			zzsymAssert(completion.outcome.Load() == nil, "no_outcome_before_ack")
			zzsymAssert(len(conn.commits) == 0, "no_commit_before_ack")
			zzsymAssert(len(p.flights) == 1, "flight_stays_active_until_acked")
			zzsymAssert(st.LocalEpoch() == cur.Epoch, "sending_epoch_untouched_before_ack")

			return
		}
		done = true
		zzsymAssert(zzSignals20 == 1, "completion_fires_once")
		zzsymAssert(len(conn.commits) == 1, "commit_invoked_exactly_once")
		zzCheckSuccessor20(cur, conn.commits[0], hashLen)
		out := completion.outcome.Load()
		zzsymAssert(out != nil, "outcome_published")
		if conn.commitErr == nil {
			zzsymAssert(out.err == nil, "success_iff_commit_succeeded")
			zzsymAssert(recvErr == nil, "receive_ok_on_commit")
		} else {
			zzsymAssert(out.err != nil, "commit_failure_reported_to_caller")
			zzsymAssert(recvErr != nil, "commit_failure_fails_the_fsm")
			zzsymCover("commit_refused")
		}
		zzsymAssert(len(p.flights) == 0, "flight_forgotten_after_completion")
		zzsymAssert(len(p.recordIndex) == 0, "record_numbers_forgotten_after_completion")
	}

	// first ACK (optional, one arbitrary record number)
	if zzsymChoice("ack1", 2) == 1 {
		ack := zzAck20("ack1", 1)
		zzApplyAck20(acked, sent, ack)
		recvErr := p.handlePostHandshakeReceive(ctx, conn, RecvHandshakeState{ACKs: []protocol.ACK{ack}})
		checkState(recvErr)
		if done {
			zzsymCover("done_first_ack")

			return
		}
		if len(frags) == 2 && zzsymOr(acked[0], acked[1]) {
			zzsymCover("partial_ack")
		}
	}
	// retransmission (optional): every still-pending fragment goes out again in a record of its own
	retransmitted := false
	firstTx := len(sent)
	if zzsymChoice("retransmit", 2) == 1 {
		retransmitted = true
		var recs []SentHandshakeRecord
		for f := range frags {
			if acked[f] { // forks on the model; the implementation has the same information in PendingFragments
				continue
			}
			r, s := zzRecord20("rtx", cur.Epoch, mseq, []int{f}, frags)
			for _, prev := range sent {
				zzsymAssume(prev.number.SequenceNumber != s.number.SequenceNumber)
			}
			recs = append(recs, r)
			sent = append(sent, s)
		}
		conn.nextRecords = recs
		for _, flight := range p.flights {
			err = p.retransmitPostHandshakeFlight(ctx, conn, flight, flight.NextRetransmit, false)
			zzsymAssert(err == nil, "retransmit_ok")
		}
		zzsymAssert(len(conn.written) == 2, "retransmission_written")
		zzsymAssert(conn.writeEpochs[1] == cur.Epoch, "retransmission_stays_in_flight_epoch")
		rp := conn.written[1][0]
		for f := range frags {
			_, listed := rp.HandshakeFragmentOffsets[frags[f].Offset]
			zzsymAssert(listed == !acked[f], "retransmission_limited_to_pending_fragments")
		}
	}
	// second ACK: 0..NACK arbitrary record numbers
	nack := zzsymChoice("nack", zzsymParam("NACK")+1)
	ack := zzAck20("ack2", nack)
	before := append([]bool{}, acked...)
	zzApplyAck20(acked, sent, ack)
	recvErr := p.handlePostHandshakeReceive(ctx, conn, RecvHandshakeState{ACKs: []protocol.ACK{ack}})
	checkState(recvErr)
	if done {
		if retransmitted {
			zzsymCover("done_after_retransmit")
			// completed by acknowledging only first-transmission records although a retransmission was out
			onlyOld := true
			for _, num := range ack.Records {
				for _, s := range sent[firstTx:] {
					onlyOld = zzsymAnd(onlyOld, zzsymNot(zzsymAnd(num.Epoch == s.number.Epoch, num.SequenceNumber == s.number.SequenceNumber)))
				}
			}
			if onlyOld {
				zzsymCover("old_record_acks_after_retransmit")
			}
		} else {
			zzsymCover("done_second_ack")
		}

		return
	}
	zzsymCover("not_acked")
	changed := false
	for f := range acked {
		changed = zzsymOr(changed, acked[f] != before[f])
	}
	if nack > 0 && !changed {
		zzsymCover("unknown_ack_ignored")
	}
}

// ---------------------------------------------------------------------------------------------
// epoch used by writers around an update; one reliable flight at a time
// ---------------------------------------------------------------------------------------------

// startQueuedPostHandshake / writeApplicationData while a KeyUpdate flight is (or is not) awaiting its ACK, for
// an arbitrary sending epoch e and the queue shapes [app], [app, KeyUpdate], [KeyUpdate, app], [KeyUpdate]:
// application records are stamped with the current sending epoch e (never the pending e+1, never less) whether
// or not a KeyUpdate is in flight; a second KeyUpdate is not started while one is unacknowledged (so two flights
// never derive from the same generation) and application writes queued behind it wait with it; without a
// flight in the way the queued KeyUpdate starts under epoch e.
//
//symgo:entry covers=app_during_update,app_without_update,second_update_waits,update_starts
func zzWritersDuringUpdate() {
	hashLen := 32
	p, st, conn := zzPost20(hashLen)
	cur := zzGenH20("cur", hashLen)
	zzsymAssume(cur.Epoch != 0xffff)
	st.TrafficKeys.Install(cur, nil)
	st.SetLocalEpoch(cur.Epoch)
	st.HandshakeSendSequence = 7
	ctx := context.Background()
	inFlight := zzsymChoice("in_flight", 2) == 1
	if inFlight {
		conn.nextRecords = []SentHandshakeRecord{{
			Number:    protocol.RecordNumber{Epoch: uint64(cur.Epoch), SequenceNumber: zzsymU64("tx")},
			Fragments: []SentHandshakeFragment{{MessageSequence: 7, Offset: 0, Length: 1}},
		}}
		err := p.startKeyUpdate(ctx, conn, postHandshakeCommand{Kind: commandSendKeyUpdate, Completion: zzCompletion20()})
		zzsymAssert(err == nil, "first_update_started")
	}
	writes0 := len(conn.written)
	appCompletion := zzCompletion20()
	appPkt := &dtlsflight.Packet{
		Record: &recordlayer.RecordLayer{
			Header:  recordlayer.Header{Version: protocol.Version1_2, Epoch: zzsymU16("stale_epoch")},
			Content: &protocol.ApplicationData{Data: zzsymBytes("payload", 2)},
		},
		ShouldEncrypt: true,
	}
	app := postHandshakeCommand{
		Kind: commandSendApplicationData, Packets: []*dtlsflight.Packet{appPkt}, Completion: appCompletion,
		Write: func(c Conn, pkts []*dtlsflight.Packet) error {
			_, err := c.WritePackets(ctx, pkts)

			return err
		},
	}
	second := postHandshakeCommand{Kind: commandSendKeyUpdate, Completion: zzCompletion20()}
	shape := zzsymChoice("queue", 4)
	switch shape {
	case 0:
		p.queue = []postHandshakeCommand{app}
	case 1:
		p.queue = []postHandshakeCommand{app, second}
	case 2:
		p.queue = []postHandshakeCommand{second, app}
	default:
		p.queue = []postHandshakeCommand{second}
	}
	conn.nextRecords = []SentHandshakeRecord{{
		Number:    protocol.RecordNumber{Epoch: uint64(cur.Epoch), SequenceNumber: zzsymU64("tx2")},
		Fragments: []SentHandshakeFragment{{MessageSequence: 8, Offset: 0, Length: 1}},
	}}

	err := p.startQueuedPostHandshake(ctx, conn)
	zzsymAssert(err == nil, "queue_processing_ok")
	zzsymAssert(st.LocalEpoch() == cur.Epoch, "sending_epoch_unchanged_without_ack")
	zzsymAssert(len(conn.commits) == 0, "no_commit_without_ack")
	for _, e := range conn.writeEpochs {
		zzsymAssert(e == cur.Epoch, "everything_written_under_current_sending_epoch")
	}
	appWritten := appCompletion.outcome.Load() != nil
	if inFlight {
		zzsymAssert(len(p.flights) == 1, "single_reliable_flight")
		switch shape {
		case 0, 1:
			zzsymAssert(appWritten && len(conn.written) == writes0+1, "application_write_proceeds_during_update")
			zzsymAssert(appPkt.Record.Header.Epoch == cur.Epoch, "application_record_keeps_old_epoch_until_commit")
			zzsymCover("app_during_update")
		default:
			zzsymAssert(!appWritten && len(conn.written) == writes0, "second_keyupdate_and_followers_wait_for_ack")
		}
		if shape != 0 {
			zzsymAssert(p.queue[0].Kind == commandSendKeyUpdate, "second_keyupdate_still_queued")
			zzsymCover("second_update_waits")
		}

		return
	}
	if shape != 3 {
		zzsymAssert(appWritten, "application_write_done")
		zzsymAssert(appPkt.Record.Header.Epoch == cur.Epoch, "application_record_under_sending_epoch")
		zzsymCover("app_without_update")
	}
	if shape != 0 {
		zzsymAssert(len(p.flights) == 1 && len(p.queue) == 0, "queued_keyupdate_started")
		zzsymCover("update_starts")
	}
}

// ---------------------------------------------------------------------------------------------
// every way an UpdateKeys command can end without an acknowledgement reports an error
// ---------------------------------------------------------------------------------------------

// The ways a queued or in-flight UpdateKeys command terminates without its ACK, for an arbitrary current write
// generation: (a) the caller's context is already cancelled when the command is dequeued, (b) the command
// cannot start because the current write generation is not the sending epoch's (or the epoch would overflow, or
// write keys are missing), (c) the state machine fails (fail(err) from fsm13.Run) while the KeyUpdate is
// unacknowledged or still queued. Proved: in each case the completion carries a non-nil error, no commit is
// made and the sending epoch does not move; in (a) and (b) nothing is written. Together with zzUpdateAfterAck
// (the only nil outcome follows a full acknowledgement and a successful commit) this is "UpdateKeys returns
// success only after the peer acknowledged the update" at the level of the completion object.
//
//symgo:entry covers=cancelled,start_refused_epoch,start_refused_overflow,start_refused_nokeys,failed_in_flight,failed_queued
func zzUpdateFailsWithoutAck() {
	hashLen := 32
	p, st, conn := zzPost20(hashLen)
	ctx := context.Background()
	completion := zzCompletion20()
	command := postHandshakeCommand{Kind: commandSendKeyUpdate, Completion: completion}
	scenario := zzsymChoice("scenario", 6)
	var cur *dtlsstate.TrafficGeneration
	if scenario != 3 {
		cur = zzGenH20("cur", hashLen)
		st.TrafficKeys.Install(cur, nil)
	}
	local := zzsymU16("local")
	st.SetLocalEpoch(local)
	st.HandshakeSendSequence = 1
	conn.nextRecords = []SentHandshakeRecord{{
		Number:    protocol.RecordNumber{Epoch: uint64(local), SequenceNumber: zzsymU64("tx")},
		Fragments: []SentHandshakeFragment{{MessageSequence: 1, Offset: 0, Length: 1}},
	}}
	var runErr error
	switch scenario {
	case 0: // cancelled before it is started
		zzsymAssume(cur.Epoch == local)
		cancelled := make(chan struct{})
		close(cancelled)
		command.Canceled = cancelled
		p.queue = []postHandshakeCommand{command}
		runErr = p.startQueuedPostHandshake(ctx, conn)
		zzsymAssert(runErr == nil, "cancelled_command_does_not_fail_the_fsm")
		zzsymAssert(len(conn.written) == 0, "cancelled_command_writes_nothing")
		zzsymCover("cancelled")
	case 1: // write generation is not the sending epoch's
		zzsymAssume(cur.Epoch != local)
		p.queue = []postHandshakeCommand{command}
		runErr = p.startQueuedPostHandshake(ctx, conn)
		zzsymAssert(runErr != nil, "start_refused")
		zzsymAssert(len(conn.written) == 0, "refused_command_writes_nothing")
		zzsymCover("start_refused_epoch")
	case 2: // epoch would overflow
		zzsymAssume(cur.Epoch == local)
		zzsymAssume(local == 0xffff)
		p.queue = []postHandshakeCommand{command}
		runErr = p.startQueuedPostHandshake(ctx, conn)
		zzsymAssert(runErr != nil, "start_refused")
		zzsymAssert(len(conn.written) == 0, "refused_command_writes_nothing")
		zzsymCover("start_refused_overflow")
	case 3: // no write keys
		p.queue = []postHandshakeCommand{command}
		runErr = p.startQueuedPostHandshake(ctx, conn)
		zzsymAssert(runErr != nil, "start_refused")
		zzsymAssert(len(conn.written) == 0, "refused_command_writes_nothing")
		zzsymCover("start_refused_nokeys")
	case 4: // FSM failure while the KeyUpdate is in flight
		zzsymAssume(cur.Epoch == local)
		zzsymAssume(local != 0xffff)
		p.queue = []postHandshakeCommand{command}
		runErr = p.startQueuedPostHandshake(ctx, conn)
		zzsymAssert(runErr == nil && len(p.flights) == 1, "keyupdate_in_flight")
		zzsymAssert(completion.outcome.Load() == nil, "no_outcome_before_ack")
		p.fail(errZZCommit20)
		zzsymAssert(len(p.flights) == 0, "failed_fsm_drops_flight")
		zzsymCover("failed_in_flight")
	default: // FSM failure while the command is still queued
		p.queue = []postHandshakeCommand{command}
		p.fail(errZZCommit20)
		zzsymAssert(len(p.queue) == 0, "failed_fsm_drops_queue")
		zzsymCover("failed_queued")
	}
	out := completion.outcome.Load()
	zzsymAssert(out != nil && zzSignals20 == 1, "caller_is_released_once")
	zzsymAssert(out.err != nil, "no_success_without_acknowledgement")
	zzsymAssert(len(conn.commits) == 0, "no_commit_without_acknowledgement")
	zzsymAssert(st.LocalEpoch() == local, "sending_epoch_unchanged")
	if cur != nil {
		now, _ := st.TrafficKeys.CurrentWrite()
		zzsymAssert(now == cur, "write_generation_unchanged")
	}
}

// ---------------------------------------------------------------------------------------------
// one reliable post-handshake flight at a time, whatever its kind; emitted epochs never go back
// ---------------------------------------------------------------------------------------------

// zzAckAll20 acknowledges every tracked record the fake connection emitted so far whose handshake type is typ.
func zzAckAll20(conn *zzConn20, typ handshake.Type) protocol.ACK {
	ack := protocol.ACK{}
	for i, num := range conn.trackedNums {
		if conn.trackedTyp[i] == typ {
			ack.Records = append(ack.Records, num)
		}
	}

	return ack
}

func zzWrittenTypes20(conn *zzConn20, typ handshake.Type) int {
	n := 0
	for _, pkts := range conn.written {
		for _, pkt := range pkts {
			if hs, ok := pkt.Record.Content.(*handshake.Handshake); ok && hs.Header.Type == typ {
				n++
			}
		}
	}

	return n
}

func zzMonotone20(conn *zzConn20, label string) {
	for i := 1; i < len(conn.writeEpochs); i++ {
		zzsymAssert(conn.writeEpochs[i] >= conn.writeEpochs[i-1], "emitted_epochs_never_decrease")
	}
	_ = label
}

// A server after the handshake (initialize() queues its NewSessionTicket) with an arbitrary sending epoch e <
// 65535: the ticket goes out as a reliable flight; then the application calls UpdateKeys (with or without
// requesting the peer's update). Two continuations: (A) the ticket is acknowledged, the KeyUpdate starts, is
// acknowledged and committed (the fake connection applies the commit as Conn.commitLocalKeyUpdate does), an
// application record is written and the retransmission timer fires; (B) the ticket's datagram is lost, the
// retransmission timer fires, the peer acknowledges every record that is not the ticket's, an application
// record is written and the timer fires again. Proved: the KeyUpdate is not started (nothing of type KeyUpdate
// is written, the command stays queued, its completion has no outcome, no commit) for as long as the ticket
// flight - a reliable flight that is not a KeyUpdate - is unacknowledged; acknowledging the ticket commits
// nothing and leaves the epoch alone; afterwards the KeyUpdate starts under epoch e, and only its own ACK
// completes it and moves the sending epoch to e+1; at most one reliable flight is ever active; and over the
// whole run, including every retransmission and the application record after the committed update, the epoch
// of each emitted record is >= the epoch of the record emitted before it.
//
//symgo:entry covers=ticket_acked_then_update,ticket_lost_update_waits,ticket_retransmitted_in_epoch
func zzOneReliableFlight() {
	hashLen := 32
	rand.Reader = zzRand20{}
	p, st, conn := zzPost20(hashLen)
	st.IsClient = false
	p.initialized = false
	conn.auto = true
	conn.autoSeq = zzsymU64("first_record_seq")
	zzsymAssume(conn.autoSeq < 1<<40)
	conn.commitTo = st
	cur := zzGenH20("cur", hashLen)
	zzsymAssume(cur.Epoch != 0xffff)
	zzsymAssume(cur.Epoch >= 3)
	st.TrafficKeys.Install(cur, nil)
	st.SetLocalEpoch(cur.Epoch)
	st.HandshakeSendSequence = 2
	ctx := context.Background()
	later := time.Now().Add(time.Hour)

	p.initialize()
	err := p.startQueuedPostHandshake(ctx, conn)
	zzsymAssert(err == nil, "ticket_started")
	zzsymAssert(len(p.flights) == 1 && zzWrittenTypes20(conn, handshake.TypeNewSessionTicket) == 1, "ticket_flight_active")

	// UpdateKeys is called while the ticket is unacknowledged
	completion := zzCompletion20()
	request := handshake.KeyUpdateRequest(zzsymChoice("request", 2))
	p.queue = append(p.queue, postHandshakeCommand{
		Kind: commandSendKeyUpdate, KeyUpdate: keyUpdateCommand{Request: request}, Completion: completion,
	})
	waits := func() {
		zzsymAssert(zzWrittenTypes20(conn, handshake.TypeKeyUpdate) == 0, "keyupdate_waits_behind_unacknowledged_reliable_flight")
		zzsymAssert(len(p.queue) == 1 && p.queue[0].Kind == commandSendKeyUpdate, "keyupdate_stays_queued")
		zzsymAssert(len(p.flights) == 1, "single_reliable_flight")
		zzsymAssert(completion.outcome.Load() == nil, "no_outcome_before_ack")
		zzsymAssert(len(conn.commits) == 0, "no_commit_before_ack")
		zzsymAssert(st.LocalEpoch() == cur.Epoch, "sending_epoch_untouched_before_ack")
	}
	err = p.startQueuedPostHandshake(ctx, conn)
	zzsymAssert(err == nil, "queue_processing_ok")
	waits()

	app := func() {
		pkt := &dtlsflight.Packet{
			Record: &recordlayer.RecordLayer{
				Header:  recordlayer.Header{Version: protocol.Version1_2},
				Content: &protocol.ApplicationData{Data: zzsymBytes("payload", 1)},
			},
			ShouldEncrypt: true,
		}
		p.queue = append(p.queue, postHandshakeCommand{
			Kind: commandSendApplicationData, Packets: []*dtlsflight.Packet{pkt}, Completion: zzCompletion20(),
			Write: func(c Conn, pkts []*dtlsflight.Packet) error {
				_, werr := c.WritePackets(ctx, pkts)

				return werr
			},
		})
		zzsymAssert(p.startQueuedPostHandshake(ctx, conn) == nil, "queue_processing_ok")
	}

	if zzsymChoice("ticket_acked", 2) == 1 {
		// (A) ticket acknowledged -> KeyUpdate may start
		err = p.handlePostHandshakeReceive(ctx, conn, RecvHandshakeState{ACKs: []protocol.ACK{zzAckAll20(conn, handshake.TypeNewSessionTicket)}})
		zzsymAssert(err == nil, "ticket_ack_ok")
		zzsymAssert(len(p.flights) == 0, "ticket_flight_done")
		zzsymAssert(len(conn.commits) == 0 && st.LocalEpoch() == cur.Epoch, "ticket_ack_commits_nothing")
		zzsymAssert(completion.outcome.Load() == nil, "ticket_ack_does_not_complete_keyupdate")
		zzsymAssert(p.startQueuedPostHandshake(ctx, conn) == nil, "queue_processing_ok")
		zzsymAssert(zzWrittenTypes20(conn, handshake.TypeKeyUpdate) == 1 && len(p.flights) == 1, "keyupdate_starts_after_ticket_ack")
		zzsymAssert(conn.writeEpochs[len(conn.writeEpochs)-1] == cur.Epoch, "keyupdate_sent_under_current_epoch")
		zzsymAssert(completion.outcome.Load() == nil, "no_outcome_before_ack")
		err = p.handlePostHandshakeReceive(ctx, conn, RecvHandshakeState{ACKs: []protocol.ACK{zzAckAll20(conn, handshake.TypeKeyUpdate)}})
		zzsymAssert(err == nil, "keyupdate_ack_ok")
		out := completion.outcome.Load()
		zzsymAssert(out != nil && out.err == nil, "keyupdate_completed_by_its_own_ack")
		zzsymAssert(len(conn.commits) == 1, "committed_once")
		zzCheckSuccessor20(cur, conn.commits[0], hashLen)
		zzsymAssert(uint32(st.LocalEpoch()) == uint32(cur.Epoch)+1, "sending_epoch_is_previous_plus_one")
		app()
		zzsymAssert(conn.writeEpochs[len(conn.writeEpochs)-1] == st.LocalEpoch(), "application_record_under_new_epoch")
		emitted := len(conn.writeEpochs)
		zzsymAssert(p.retransmitPostHandshake(ctx, conn, later, false) == nil, "timer_ok")
		zzsymAssert(len(conn.writeEpochs) == emitted, "nothing_left_to_retransmit_after_update")
		zzMonotone20(conn, "A")
		zzsymCover("ticket_acked_then_update")

		return
	}
	// (B) the ticket is lost: timer, retransmission, the peer acknowledges everything that is not the ticket
	emitted := len(conn.writeEpochs)
	zzsymAssert(p.retransmitPostHandshake(ctx, conn, later, false) == nil, "timer_ok")
	zzsymAssert(zzWrittenTypes20(conn, handshake.TypeNewSessionTicket) == 2, "ticket_retransmitted")
	zzsymAssert(len(conn.writeEpochs) == emitted+1 && conn.writeEpochs[emitted] == cur.Epoch, "ticket_retransmission_in_flight_epoch")
	zzsymCover("ticket_retransmitted_in_epoch")
	zzsymAssert(p.startQueuedPostHandshake(ctx, conn) == nil, "queue_processing_ok")
	waits()
	err = p.handlePostHandshakeReceive(ctx, conn, RecvHandshakeState{ACKs: []protocol.ACK{zzAckAll20(conn, handshake.TypeKeyUpdate)}})
	zzsymAssert(err == nil, "ack_ok")
	zzsymAssert(p.startQueuedPostHandshake(ctx, conn) == nil, "queue_processing_ok")
	waits()
	// the caller abandons its UpdateKeys (dropped from the queue) so that an application record can go out - it
	// would otherwise wait behind the queued KeyUpdate; then the timer again (beyond the backed-off interval)
	p.queue = nil
	app()
	zzsymAssert(conn.writeEpochs[len(conn.writeEpochs)-1] == st.LocalEpoch(), "application_record_under_sending_epoch")
	zzsymAssert(p.retransmitPostHandshake(ctx, conn, later.Add(time.Hour), false) == nil, "timer_ok")
	zzMonotone20(conn, "B")
	zzsymAssert(completion.outcome.Load() == nil, "keyupdate_not_reported_done_while_ticket_unacknowledged")
	zzsymCover("ticket_lost_update_waits")
}
