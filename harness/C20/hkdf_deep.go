package dtlshandshake

//symgo:pkg github.com/pion/dtls/v3/internal/handshake
//symgo:replace crypto/internal/fips140.RecordNonApproved zzNop20
//symgo:replace crypto/internal/fips140.RecordApproved zzNop20
//symgo:stub the hash function is an uninterpreted function H of the bytes written to it (digest/block size 4/8, 32/64 or 48/128); HKDF-Expand-Label, HKDF-Expand and HMAC are the real keyschedule / crypto/hkdf / crypto/hmac code, interpreted
//symgo:stub crypto/internal/fips140 service-indicator bookkeeping (RecordApproved/RecordNonApproved) is a no-op

import (
	"hash"

	dtlsstate "github.com/pion/dtls/v3/internal/state"
)

func zzNop20() {}

// zzUFHash20 is a hash.Hash whose digest is an uninterpreted function of everything written since Reset.
type zzUFHash20 struct {
	buf         []byte
	size, block int
}

func (h *zzUFHash20) Write(p []byte) (int, error) { h.buf = append(h.buf, p...); return len(p), nil }
func (h *zzUFHash20) Sum(b []byte) []byte         { return append(b, zzsymUF("H", h.size, h.buf)...) }
func (h *zzUFHash20) Reset()                      { h.buf = nil }
func (h *zzUFHash20) Size() int                   { return h.size }
func (h *zzUFHash20) BlockSize() int              { return h.block }

type zzSuiteUF20 struct {
	zzSuite20
	block int
}

func (s *zzSuiteUF20) HashFunc() func() hash.Hash {
	return func() hash.Hash { return &zzUFHash20{size: s.hashLen, block: s.block} }
}

// zzHMAC20 is RFC 2104 written out over the uninterpreted hash: H((K ^ opad) || H((K ^ ipad) || text)),
// for keys not longer than the block size (K is zero-padded to the block size).
func zzHMAC20(size, block int, key, text []byte) []byte {
	ipad := make([]byte, block)
	opad := make([]byte, block)
	for i := range ipad {
		var k byte
		if i < len(key) {
			k = key[i]
		}
		ipad[i] = k ^ 0x36
		opad[i] = k ^ 0x5c
	}
	inner := zzsymUF("H", size, append(ipad, text...))

	return zzsymUF("H", size, append(opad, inner...))
}

// zzTrafficUpd20 is the RFC oracle for the next application traffic secret:
// RFC 8446 7.2   secret_N+1 = HKDF-Expand-Label(secret_N, "traffic upd", "", Hash.length)
// RFC 8446 7.1   HKDF-Expand-Label(S, L, C, n) = HKDF-Expand(S, HkdfLabel, n),
//
//	HkdfLabel = uint16 n || uint8 len || prefix+L || uint8 len || C
//
// RFC 9147 5.9   the prefix is "dtls13" (no trailing space) instead of "tls13 "
// RFC 5869 2.3   HKDF-Expand(PRK, info, n) for n <= HashLen = first n octets of T(1) = HMAC(PRK, info || 0x01).
func zzTrafficUpd20(size, block int, secret []byte) []byte {
	label := "dtls13" + "traffic upd"
	info := []byte{byte(size >> 8), byte(size), byte(len(label))}
	info = append(info, label...)
	info = append(info, 0) // empty context
	info = append(info, 1) // HKDF block counter

	return zzHMAC20(size, block, secret, info)[:size]
}

// nextTrafficGeneration / deriveNextApplicationTrafficSecret / keyschedule.HkdfExpandLabel / crypto/hkdf /
// crypto/hmac executed for real over an uninterpreted hash function H (digest/block sizes 4/8, 32/64, 48/128)
// and an arbitrary current secret of Hash.length bytes, arbitrary epoch < 65535 and generation counter: the new
// generation's secret equals, byte for byte, the RFC formula written out in the harness -
// HMAC-H(secret, 00 hh | 11 "dtls13traffic upd" | 00 | 01) - i.e. HKDF-Expand-Label with the DTLS 1.3 label
// prefix, label "traffic upd", empty context and length Hash.length; epoch and generation are previous+1 and the
// record protection is keyed with the new secret.
//
//symgo:entry covers=rfc_successor
func zzSuccessorRFC() {
	size, block := 4, 8
	switch zzsymChoice("hash", 3) {
	case 1:
		size, block = 32, 64
	case 2:
		size, block = 48, 128
	}
	st := dtlsstate.NewState13(true)
	st.CipherSuite = &zzSuiteUF20{zzSuite20: zzSuite20{hashLen: size}, block: block}
	p := &postHandshake{handshakeContext: handshakeContext{state: &st}}
	cur := zzGenH20("cur", size)
	zzsymAssume(cur.Epoch != 0xffff)
	next, err := p.nextTrafficGeneration(cur)
	zzsymAssert(err == nil && next != nil, "successor_derived")
	zzsymAssert(uint32(next.Epoch) == uint32(cur.Epoch)+1, "successor_epoch_plus_one")
	zzsymAssert(next.Generation == cur.Generation+1, "successor_generation_plus_one")
	zzsymAssert(len(next.Secret) == size, "successor_secret_has_hash_length")
	zzsymAssert(zzsymEqBytes(next.Secret, zzTrafficUpd20(size, block, cur.Secret)), "successor_secret_matches_rfc8446_7_2")
	prot, ok := next.Protection.(*zzProtH20)
	zzsymAssert(ok && zzsymEqBytes(prot.secret, next.Secret), "protection_keyed_with_successor_secret")
	zzsymCover("rfc_successor")
}
